/- C03 / C11 at STATEMENT granularity (below "one event = one committed transaction").

   C03: "once a workflow is finished its state and output are not altered by results or timers
   that arrive late";  C11: "results ... do not change its state or output".

   The scripts are `Mistral.Gen.RaceScripts.{succeed,fail,cancel}Workflow`, REGENERATED from
   mistral/engine/workflows.py (`_succeed_workflow`, `_fail_workflow`, `_cancel_workflow` with
   `set_state` inlined) and db api `update_workflow_execution_state` / `update_on_match` on every
   run.  `sched k` is the composite effect of ALL other transactions that commit in the gap just
   before statement k: an arbitrary function `Row → Row` — any number of interferers of any kind,
   at every position.  The theorems hold for every `sched`. -/
import Mistral.Lemmas.Race
import Mistral.Gen.RaceScripts
namespace Mistral.Props.C03Race
open Mistral.Race Mistral.Gen.RaceScripts

set_option maxRecDepth 4000
set_option linter.unusedSimpArgs false

/-! ### the three completion scripts are atomic: nothing, or everything at one instant -/

/-- `_succeed_workflow` under arbitrary interference: EITHER the committed row is exactly what the
    interferers made it (the script contributed nothing, reports nothing to a parent, its flag is
    false) OR its compare-and-swap matched the row `rc` of that instant, whose state is still the
    state `rr` showed at the script's read — not finished (is_completed guard, repo fix ce9b9520) and
    a state from which SUCCESS is a valid move — and the commit installs state, output, state_info
    and accepted TOGETHER on that row (`winRow`); the interferers of the later gaps (they wait for the
    row lock) act on that complete row. -/
theorem succeed_atomic (sched : Nat → Intf) (vars : Fields) (row0 : Row) :
    ((runWith succeedWorkflow sched vars row0).sh.db = pre sched 12 row0 ∧ (runWith succeedWorkflow sched vars row0).l.flags 0 = false ∧ (runWith succeedWorkflow sched vars row0).l.emitted = []) ∨
    ((pre sched 1 row0).alive = true ∧ memVals completedStates ((pre sched 1 row0).f 0) = false ∧ memVals validFromSuccess ((pre sched 1 row0).f 0) = true ∧
      (pre sched 5 row0).alive = true ∧ (pre sched 5 row0).f 0 = (pre sched 1 row0).f 0 ∧
      (runWith succeedWorkflow sched vars row0).sh.db = between sched 5 7 (winRow (.str "SUCCESS") (vars 1) (vars 2) (pre sched 1 row0) (pre sched 5 row0)) ∧ (runWith succeedWorkflow sched vars row0).l.flags 0 = true ∧
      (runWith succeedWorkflow sched vars row0).l.emitted = if ((pre sched 1 row0).f 4).truthy then [1] else []) := by
  by_cases h1 : (pre sched 1 row0).alive = true
  · by_cases h0 : memVals completedStates ((pre sched 1 row0).f 0) = true
    · left
      simp only [pre, completedStates] at h1 h0
      simp only [succeedWorkflow]
      race_simp [h1, h0]
    · by_cases h2 : memVals validFromSuccess ((pre sched 1 row0).f 0) = true
      · by_cases h3 : (pre sched 5 row0).alive = true ∧ (pre sched 5 row0).f 0 = (pre sched 1 row0).f 0
        · right
          obtain ⟨h3a, h3b⟩ := h3
          refine ⟨h1, by simpa using h0, h2, h3a, h3b, ?_⟩
          simp only [pre, validFromSuccess, completedStates] at h1 h0 h2 h3a h3b
          simp only [succeedWorkflow]
          by_cases h4 : vars 1 = (sched 0 row0).f 1 <;> by_cases h5 : Val.bool true = (sched 0 row0).f 3 <;>
            by_cases h6 : ((sched 0 row0).f 4).truthy = true <;>
            (race_simp [h1, h0, h2, h3a, h3b, h4, h5, h6, winRow]
             try race_rows)
        · left
          simp only [pre, validFromSuccess, completedStates] at h1 h0 h2 h3
          simp only [succeedWorkflow]
          race_simp [h1, h0, h2, h3]
      · left
        simp only [pre, validFromSuccess, completedStates] at h1 h0 h2
        simp only [succeedWorkflow]
        race_simp [h1, h0, h2]
  · left
    simp only [pre] at h1
    simp only [succeedWorkflow]
    race_simp [h1]

/-- `_fail_workflow`: as `succeed_atomic`, and the row it wins on was NOT finished when the script
    read it (is_completed guard) -/
theorem fail_atomic (sched : Nat → Intf) (vars : Fields) (row0 : Row) :
    ((runWith failWorkflow sched vars row0).sh.db = pre sched 12 row0 ∧ (runWith failWorkflow sched vars row0).l.flags 0 = false ∧ (runWith failWorkflow sched vars row0).l.emitted = []) ∨
    ((pre sched 1 row0).alive = true ∧ memVals completedStates ((pre sched 1 row0).f 0) = false ∧ memVals validFromError ((pre sched 1 row0).f 0) = true ∧
      (pre sched 5 row0).alive = true ∧ (pre sched 5 row0).f 0 = (pre sched 1 row0).f 0 ∧
      (runWith failWorkflow sched vars row0).sh.db = between sched 5 7 (winRow (.str "ERROR") (vars 1) (vars 2) (pre sched 1 row0) (pre sched 5 row0)) ∧ (runWith failWorkflow sched vars row0).l.flags 0 = true ∧
      (runWith failWorkflow sched vars row0).l.emitted = if ((pre sched 1 row0).f 4).truthy then [1] else []) := by
  by_cases h1 : (pre sched 1 row0).alive = true
  · by_cases h0 : memVals completedStates ((pre sched 1 row0).f 0) = true
    · left
      simp only [pre, completedStates] at h1 h0
      simp only [failWorkflow]
      race_simp [h1, h0]
    · by_cases h2 : memVals validFromError ((pre sched 1 row0).f 0) = true
      · by_cases h3 : (pre sched 5 row0).alive = true ∧ (pre sched 5 row0).f 0 = (pre sched 1 row0).f 0
        · right
          obtain ⟨h3a, h3b⟩ := h3
          refine ⟨h1, by simpa using h0, h2, h3a, h3b, ?_⟩
          simp only [pre, validFromError, completedStates] at h1 h0 h2 h3a h3b
          simp only [failWorkflow]
          by_cases h4 : vars 1 = (sched 0 row0).f 1 <;> by_cases h5 : Val.bool true = (sched 0 row0).f 3 <;>
            by_cases h6 : ((sched 0 row0).f 4).truthy = true <;>
            (race_simp [h1, h0, h2, h3a, h3b, h4, h5, h6, winRow]
             try race_rows)
        · left
          simp only [pre, validFromError, completedStates] at h1 h0 h2 h3
          simp only [failWorkflow]
          race_simp [h1, h0, h2, h3]
      · left
        simp only [pre, validFromError, completedStates] at h1 h0 h2
        simp only [failWorkflow]
        race_simp [h1, h0, h2]
  · left
    simp only [pre] at h1
    simp only [failWorkflow]
    race_simp [h1]

/-- `_cancel_workflow`: as `fail_atomic` -/
theorem cancel_atomic (sched : Nat → Intf) (vars : Fields) (row0 : Row) :
    ((runWith cancelWorkflow sched vars row0).sh.db = pre sched 12 row0 ∧ (runWith cancelWorkflow sched vars row0).l.flags 0 = false ∧ (runWith cancelWorkflow sched vars row0).l.emitted = []) ∨
    ((pre sched 1 row0).alive = true ∧ memVals completedStates ((pre sched 1 row0).f 0) = false ∧ memVals validFromCancelled ((pre sched 1 row0).f 0) = true ∧
      (pre sched 5 row0).alive = true ∧ (pre sched 5 row0).f 0 = (pre sched 1 row0).f 0 ∧
      (runWith cancelWorkflow sched vars row0).sh.db = between sched 5 7 (winRow (.str "CANCELLED") (vars 1) (vars 2) (pre sched 1 row0) (pre sched 5 row0)) ∧ (runWith cancelWorkflow sched vars row0).l.flags 0 = true ∧
      (runWith cancelWorkflow sched vars row0).l.emitted = if ((pre sched 1 row0).f 4).truthy then [1] else []) := by
  by_cases h1 : (pre sched 1 row0).alive = true
  · by_cases h0 : memVals completedStates ((pre sched 1 row0).f 0) = true
    · left
      simp only [pre, completedStates] at h1 h0
      simp only [cancelWorkflow]
      race_simp [h1, h0]
    · by_cases h2 : memVals validFromCancelled ((pre sched 1 row0).f 0) = true
      · by_cases h3 : (pre sched 5 row0).alive = true ∧ (pre sched 5 row0).f 0 = (pre sched 1 row0).f 0
        · right
          obtain ⟨h3a, h3b⟩ := h3
          refine ⟨h1, by simpa using h0, h2, h3a, h3b, ?_⟩
          simp only [pre, validFromCancelled, completedStates] at h1 h0 h2 h3a h3b
          simp only [cancelWorkflow]
          by_cases h4 : vars 1 = (sched 0 row0).f 1 <;> by_cases h5 : Val.bool true = (sched 0 row0).f 3 <;>
            by_cases h6 : ((sched 0 row0).f 4).truthy = true <;>
            (race_simp [h1, h0, h2, h3a, h3b, h4, h5, h6, winRow]
             try race_rows)
        · left
          simp only [pre, validFromCancelled, completedStates] at h1 h0 h2 h3
          simp only [cancelWorkflow]
          race_simp [h1, h0, h2, h3]
      · left
        simp only [pre, validFromCancelled, completedStates] at h1 h0 h2
        simp only [cancelWorkflow]
        race_simp [h1, h0, h2]
  · left
    simp only [pre] at h1
    simp only [cancelWorkflow]
    race_simp [h1]


/-! ### the sentences of C03 / C11 -/

/-- C03 "once a workflow is finished its state and output are not altered by results or timers that
    arrive late" / C11 "results ... do not change its state or output", for a failing completion
    (`_fail_workflow`: completion check with an unhandled task error, stop(ERROR), force-fail) racing
    ANY other transactions: if the row is finished at the instant of the script's compare-and-swap
    (whoever finished it, whenever before), the script leaves no trace: the committed row is exactly
    the interferers' row, nothing is reported to a parent. -/
theorem fail_keeps_finished (sched : Nat → Intf) (vars : Fields) (row0 : Row)
    (hfin : memVals completedStates ((pre sched 5 row0).f 0) = true) :
    (runWith failWorkflow sched vars row0).sh.db = pre sched 12 row0 ∧ (runWith failWorkflow sched vars row0).l.flags 0 = false ∧ (runWith failWorkflow sched vars row0).l.emitted = [] := by
  rcases fail_atomic sched vars row0 with h | ⟨_, hn, _, _, heq, _⟩
  · exact h
  · rw [heq] at hfin; rw [hfin] at hn; cases hn

/-- the same for `_cancel_workflow` (completion check with a cancelled task, stop(CANCELLED)) -/
theorem cancel_keeps_finished (sched : Nat → Intf) (vars : Fields) (row0 : Row)
    (hfin : memVals completedStates ((pre sched 5 row0).f 0) = true) :
    (runWith cancelWorkflow sched vars row0).sh.db = pre sched 12 row0 ∧ (runWith cancelWorkflow sched vars row0).l.flags 0 = false ∧ (runWith cancelWorkflow sched vars row0).l.emitted = [] := by
  rcases cancel_atomic sched vars row0 with h | ⟨_, hn, _, _, heq, _⟩
  · exact h
  · rw [heq] at hfin; rw [hfin] at hn; cases hn

/-- the same for `_succeed_workflow` (completion check of a successful run, stop(SUCCESS)).  Before
    repo fix ce9b9520 this was FALSE (`succeed_keeps_finished_full_fails`: no is_completed guard and
    SUCCESS -> SUCCESS is an identity transition: a row already SUCCESS was rewritten); with the guard
    it is the full statement. -/
theorem succeed_keeps_finished (sched : Nat → Intf) (vars : Fields) (row0 : Row)
    (hfin : memVals completedStates ((pre sched 5 row0).f 0) = true) :
    (runWith succeedWorkflow sched vars row0).sh.db = pre sched 12 row0 ∧ (runWith succeedWorkflow sched vars row0).l.flags 0 = false ∧ (runWith succeedWorkflow sched vars row0).l.emitted = [] := by
  rcases succeed_atomic sched vars row0 with h | ⟨_, hn, _, _, heq, _⟩
  · exact h
  · rw [heq] at hfin; rw [hfin] at hn; cases hn

/-- "exactly one of completer / stopper determines (state, output) together": whatever commits in
    between, the committed row is either the interferers' row untouched by the script, or it carries
    the script's state AND the script's output, installed at one instant on a row whose state the
    script had read — never the state of one party and the output of the other. -/
theorem fail_state_output_together (sched : Nat → Intf) (vars : Fields) (row0 : Row) :
    (runWith failWorkflow sched vars row0).sh.db = pre sched 12 row0 ∨
    ∃ W : Row, (runWith failWorkflow sched vars row0).sh.db = between sched 5 7 W ∧ W.f 0 = .str "ERROR" ∧ W.f 2 = vars 2 := by
  rcases fail_atomic sched vars row0 with h | ⟨_, _, _, _, _, h, _⟩
  · exact Or.inl h.1
  · exact Or.inr ⟨_, h, by simp [winRow], by simp [winRow]⟩

theorem cancel_state_output_together (sched : Nat → Intf) (vars : Fields) (row0 : Row) :
    (runWith cancelWorkflow sched vars row0).sh.db = pre sched 12 row0 ∨
    ∃ W : Row, (runWith cancelWorkflow sched vars row0).sh.db = between sched 5 7 W ∧ W.f 0 = .str "CANCELLED" ∧ W.f 2 = vars 2 := by
  rcases cancel_atomic sched vars row0 with h | ⟨_, _, _, _, _, h, _⟩
  · exact Or.inl h.1
  · exact Or.inr ⟨_, h, by simp [winRow], by simp [winRow]⟩

theorem succeed_state_output_together (sched : Nat → Intf) (vars : Fields) (row0 : Row) :
    (runWith succeedWorkflow sched vars row0).sh.db = pre sched 12 row0 ∨
    ∃ W : Row, (runWith succeedWorkflow sched vars row0).sh.db = between sched 5 7 W ∧ W.f 0 = .str "SUCCESS" ∧ W.f 2 = vars 2 := by
  rcases succeed_atomic sched vars row0 with h | ⟨_, _, _, _, _, h, _⟩
  · exact Or.inl h.1
  · exact Or.inr ⟨_, h, by simp [winRow], by simp [winRow]⟩

/-! ### non-vacuity: the hypotheses are met by the real race, and both outcomes occur -/

def rowRunning : Row :=
  { alive := true, f := fun k => if k = 0 then .str "RUNNING" else if k = 2 then .str "{}" else
      if k = 3 then .bool false else .null }

def scriptVars : Fields := fun k => if k = 1 then .str "script-msg" else if k = 2 then .str "script-out" else .null
def stopVars : Fields := fun k => if k = 1 then .str "stop-msg" else if k = 2 then .str "stop-out" else .null

/-- another process's `stop_workflow(CANCELLED)` (the model's own atomic run of the generated
    cancel script) commits between the completion's read and its compare-and-swap -/
def cancelBetween (k : Nat) : Nat → Intf := fun j => if j = k then atomicOf cancelWorkflow stopVars else fun r => r

/-- the hypothesis of `fail_keeps_finished` is met by that race, and the row keeps the stopper's
    state, message and output -/
example : memVals completedStates ((pre (cancelBetween 3) 5 rowRunning).f 0) = true ∧
    let x := runWith failWorkflow (cancelBetween 3) scriptVars rowRunning
    x.sh.db.f 0 = .str "CANCELLED" ∧ x.sh.db.f 1 = .str "stop-msg" ∧ x.sh.db.f 2 = .str "stop-out" ∧
    x.l.flags 0 = false := by
  simp only [failWorkflow, cancelWorkflow, completedStates]
  race_simp [memVals, Val.truthy, cancelBetween, atomicOf, rowRunning, scriptVars, stopVars, cancelWorkflow]

/-- without interference the script wins and installs its own state, message and output -/
example : let x := runWith failWorkflow (fun _ r => r) scriptVars rowRunning
    x.sh.db.f 0 = .str "ERROR" ∧ x.sh.db.f 1 = .str "script-msg" ∧ x.sh.db.f 2 = .str "script-out" ∧
    x.sh.db.f 3 = .bool true ∧ x.l.flags 0 = true := by
  simp only [failWorkflow]
  race_simp [memVals, Val.truthy, rowRunning, scriptVars]

/-- the same race against the success path: hypothesis of `succeed_keeps_finished` -/
example : memVals completedStates ((pre (cancelBetween 3) 5 rowRunning).f 0) = true ∧
    (runWith succeedWorkflow (cancelBetween 3) scriptVars rowRunning).sh.db.f 2 = .str "stop-out" := by
  simp only [succeedWorkflow, cancelWorkflow, completedStates]
  race_simp [memVals, Val.truthy, cancelBetween, atomicOf, rowRunning, scriptVars, stopVars, cancelWorkflow]

end Mistral.Props.C03Race
