import Mistral.Model.Policy
namespace Mistral.Props.C08
open Mistral.Policy

/-- Tie A: the factory order the model folds over is the generated one. -/
theorem order_as_read :
    Gen.PolicyOrder.order = [.pauseBefore, .waitBefore, .waitAfter, .failOn, .retry, .timeout, .concurrency] := by
  decide

end Mistral.Props.C08
