import Mistral.Lemmas.Policy
/-! # C08 — task policies bound and shape execution as documented

Theorems over `Mistral.Policy` (Model/Policy.lean): all parameter values, all event sequences
(= all per-attempt outcome sequences and all orders of timer firing relative to results).
The factory order is GENERATED (`Gen.PolicyOrder.order`, Tie A); theorems marked ORDER-DEPENDENT
stop checking when it changes. -/
namespace Mistral.Props.C08
open Mistral.Policy

/-! ## Tie A -/

/-- Tie A: the order of `get_policy_factories()` as the theorems below rely on it. -/
theorem order_as_read :
    Gen.PolicyOrder.order = [.pauseBefore, .waitBefore, .waitAfter, .failOn, .retry, .timeout, .concurrency] := by
  decide

/-- Tie A: which hooks each policy class defines / inherits (inherited = evaluate + type check;
    `FailOnPolicy.before_task_start` is `pass`) is what `beforeOne` / `afterOne` model. -/
theorem hooks_as_modelled :
    Gen.PolicyOrder.hooks = [
      (.pauseBefore, .own true, .inherited), (.waitBefore, .own true, .inherited),
      (.waitAfter, .inherited, .own true), (.failOn, .own false, .own true),
      (.retry, .inherited, .own true), (.timeout, .own true, .inherited),
      (.concurrency, .own true, .inherited)] := by
  decide

/-- Tie A: the fields each `_schema` really constrains (FailOnPolicy's schema names `fail-on`,
    the field is `fail_on`: nothing is checked) are the ones `check*` validate. -/
theorem checked_fields_as_modelled :
    Gen.PolicyOrder.checkedFields = [
      (.pauseBefore, [("expr", .boolean)]), (.waitBefore, [("delay", .natural)]),
      (.waitAfter, [("delay", .natural)]), (.failOn, []),
      (.retry, [("count", .natural), ("delay", .natural)]), (.timeout, [("delay", .natural)]),
      (.concurrency, [("concurrency", .natural)])] := by
  decide

/-! ## "With retry count k a task makes at most k+1 attempts" -/

/-- invariant triple behind the bound -/
theorem attempts_inv_init (p : Params) : Inv p init := inv_init p
theorem attempts_inv_step (p : Params) (s : S) (e : Ev) (h : Inv p s) : Inv p (step p s e) := inv_step p s e h
theorem attempts_inv_reachable (p : Params) (evs : List Ev) : Inv p (run p init evs) := inv_reachable p evs

/-- "With retry count k a task makes at most k+1 attempts": for ALL parameter values (well typed
    or not), all outcome sequences and all event orders (timers, late results, resume), the number
    of action executions of the task never exceeds count+1.  ORDER-DEPENDENT. -/
theorem attempts_le_count_plus_one (p : Params) (evs : List Ev) :
    (run p init evs).acts.length ≤ countOf p + 1 := attempts_le p evs

/-- non-vacuity: count 2, three attempts are really made -/
example : (run { retry := some ⟨.int 2, .int 0, false, false⟩ } init
    [.startNew, .result 0 .error false false, .fire 0, .result 1 .error false false, .fire 0]).acts.length = 3 := by
  decide


/-! ## "stops at the first success (or when continue-on is false / break-on is true)" -/

/-- The retry decision, read off the statement: retry iff retries remain, the attempt is not a
    success without continue-on, continue-on (if given) holds, and break-on does not hold on an error. -/
theorem retry_decision (r : Retry) (n : Nat) (st : TSt) (c b : Bool) :
    retryApplies r n st c b = true ↔
      n < r.count.nat ∧ ¬ (st = .success ∧ r.hasContinueOn = false) ∧ (r.hasContinueOn = true → c = true) ∧
      ¬ (st = .error ∧ r.hasBreakOn = true ∧ b = true) := by
  cases st <;> cases c <;> cases b <;> cases h1 : r.hasContinueOn <;> cases h2 : r.hasBreakOn <;>
    simp [retryApplies, h1, h2]

/-- "stops at the first success": an attempt that counts as success (no fail-on) with no
    continue-on clause schedules no retry — whatever the retry count, the retry counter, the
    other policies: the task is SUCCESS (or DELAYED by a first wait-after that will complete it
    with SUCCESS), no continue job is added, no action is invalidated. -/
theorem stops_at_first_success (p : Params) (hw : p.wellTyped = true) (s : S) (m : Msg)
    (hc : isCompleted s.st = false) (hf : p.failOn.truthy = false)
    (hco : ∀ r, p.retry = some r → r.hasContinueOn = false) :
    let s' := completeTask p s .success m
    s'.retryNo = s.retryNo ∧ contJobs s' = contJobs s ∧ s'.acts = s.acts ∧
    (s'.st = .success ∨ (s'.st = .delayed ∧ s'.msg = .waitAfter ∧
        s'.jobs = s.jobs ++ [⟨.complete .success m, s.now + p.waitAfter.nat⟩])) := by
  by_cases hd : p.waitAfter.nat = 0 ∨ s.waSkip = true
  · simp only [complete_noWait p hw s _ m hc hd]
    have e1 : failOnStep p { s with st := .success, msg := m } = { s with st := .success, msg := m } := by
      simp [failOnStep, hf]
    rw [e1, retryStep_stop]
    · have h := settle_fields p { s with st := .success, msg := m }
      refine ⟨h.2.2.2.2.1, by simp [contJobs, h.2.2.1], h.2.2.2.1, Or.inl h.1⟩
    · intro r hr _ _
      simp [retryApplies, hco r hr]
  · have hd' : p.waitAfter.nat ≠ 0 ∧ s.waSkip = false := by
      constructor
      · intro h; exact hd (Or.inl h)
      · cases h : s.waSkip with
        | false => rfl
        | true => exact absurd (Or.inr h) hd
    simp only [complete_waitAfter p hw s _ m hc hd'.1 hd'.2]
    refine ⟨rfl, by simp [contJobs, schedule, List.countP_append, isCont], rfl, Or.inr ⟨rfl, rfl, rfl⟩⟩

/-- non-vacuity: count 3, first attempt succeeds -/
example : (run { retry := some ⟨.int 3, .int 1, false, false⟩ } init [.startNew, .result 0 .success false false]).st = .success
    ∧ (run { retry := some ⟨.int 3, .int 1, false, false⟩ } init [.startNew, .result 0 .success false false]).jobs = [] := by
  decide

/-- "(or when … break-on is true)": a failed attempt on which break-on holds schedules no retry;
    the task stays ERROR with the attempt's message. -/
theorem break_on_stops (p : Params) (hw : p.wellTyped = true) (s : S) (m : Msg)
    (hc : isCompleted s.st = false) (hd : p.waitAfter.nat = 0 ∨ s.waSkip = true)
    (hb : ∀ r, p.retry = some r → r.hasBreakOn = true ∧ (evalFlags s.acts).2 = true) :
    let s' := completeTask p s .error m
    s'.st = .error ∧ s'.msg = m ∧ s'.retryNo = s.retryNo ∧ s'.jobs = s.jobs ∧ s'.acts = s.acts := by
  simp only [complete_noWait p hw s _ m hc hd]
  have e1 : failOnStep p { s with st := .error, msg := m } = { s with st := .error, msg := m } := by
    simp [failOnStep]
  rw [e1, retryStep_stop]
  · have h := settle_fields p { s with st := .error, msg := m }
    exact ⟨h.1, h.2.1, h.2.2.2.2.1, h.2.2.1, h.2.2.2.1⟩
  · intro r hr _ _
    have := hb r hr
    simp [retryApplies, this.1, this.2]

/-- "(or when continue-on is false …)": with a continue-on clause that evaluates to false no retry
    is scheduled, whether the attempt succeeded or failed. -/
theorem continue_on_false_stops (p : Params) (hw : p.wellTyped = true) (s : S) (o : Outcome) (m : Msg)
    (hc : isCompleted s.st = false) (hd : p.waitAfter.nat = 0 ∨ s.waSkip = true)
    (hco : ∀ r, p.retry = some r → r.hasContinueOn = true ∧ (evalFlags s.acts).1 = false) :
    let s' := completeTask p s o.st m
    s'.retryNo = s.retryNo ∧ s'.jobs = s.jobs ∧ s'.acts = s.acts ∧ isCompleted s'.st = true := by
  simp only [complete_noWait p hw s _ m hc hd]
  have hacts : (failOnStep p { s with st := o.st, msg := m }).acts = s.acts := by
    simp only [failOnStep]; split <;> rfl
  have hrn : (failOnStep p { s with st := o.st, msg := m }).retryNo = s.retryNo := by
    simp only [failOnStep]; split <;> rfl
  have hjobs : (failOnStep p { s with st := o.st, msg := m }).jobs = s.jobs := by
    simp only [failOnStep]; split <;> rfl
  have hst : isCompleted (failOnStep p { s with st := o.st, msg := m }).st = true := by
    simp only [failOnStep]; split
    · rfl
    · cases o <;> rfl
  rw [retryStep_stop]
  · have h := settle_fields p (failOnStep p { s with st := o.st, msg := m })
    exact ⟨by rw [h.2.2.2.2.1, hrn], by rw [h.2.2.1, hjobs], by rw [h.2.2.2.1, hacts], by rw [h.1]; exact hst⟩
  · intro r hr _ _
    have := hco r hr
    rw [hacts]
    simp [retryApplies, this.1, this.2]

/-- the "unless continue-on holds" side and the plain error side: when the decision is positive the
    attempt's result is invalidated, the counter goes up by one, the task is DELAYED and exactly one
    continue job is added, due after exactly the configured delay. -/
theorem retry_schedules_next_attempt (p : Params) (hw : p.wellTyped = true) (s : S) (st : TSt) (m : Msg) (r : Retry)
    (hc : isCompleted s.st = false) (hd : p.waitAfter.nat = 0 ∨ s.waSkip = true)
    (hr : p.retry = some r) (h0 : r.count.nat ≠ 0)
    (hst : isCompleted (failOnStep p { s with st := st, msg := m }).st = true)
    (ha : retryApplies r s.retryNo (failOnStep p { s with st := st, msg := m }).st
            (evalFlags s.acts).1 (evalFlags s.acts).2 = true) :
    let s' := completeTask p s st m
    s'.st = .delayed ∧ s'.msg = .retry ∧ s'.retryNo = s.retryNo + 1 ∧
    s'.jobs = s.jobs ++ [⟨.cont, s.now + r.delay.nat⟩] ∧ s'.acts = invalidate s.acts ∧
    s'.followUps = s.followUps := by
  simp only [complete_noWait p hw s _ m hc hd]
  have hacts : (failOnStep p { s with st := st, msg := m }).acts = s.acts := by
    simp only [failOnStep]; split <;> rfl
  have hrn : (failOnStep p { s with st := st, msg := m }).retryNo = s.retryNo := by
    simp only [failOnStep]; split <;> rfl
  have hjobs : (failOnStep p { s with st := st, msg := m }).jobs = s.jobs := by
    simp only [failOnStep]; split <;> rfl
  have hnow : (failOnStep p { s with st := st, msg := m }).now = s.now := by
    simp only [failOnStep]; split <;> rfl
  have hfu : (failOnStep p { s with st := st, msg := m }).followUps = s.followUps := by
    simp only [failOnStep]; split <;> rfl
  rw [retryStep_go p r _ hr h0 hst (by rw [hacts, hrn]; exact ha)]
  simp [settle, schedule, hacts, hrn, hjobs, hnow, hfu]


/-! ## "waits the configured delay between attempts" -/

/-- "waits the configured delay": for ALL parameters, states and events, every job that an event
    adds is due exactly the configured delay of its kind after the moment it is scheduled
    (continue: wait-before or retry delay; complete: wait-after; timeout: timeout). -/
theorem retry_delay_exact (p : Params) (s : S) (e : Ev) :
    ∀ j ∈ (step p s e).jobs, j ∈ s.jobs ∨ okDue p s.now j := step_jobs p s e

/-- a job is never delivered before it is due -/
theorem job_not_early (p : Params) (s : S) (idx : Nat) (j : Job) (h : s.jobs[idx]? = some j) (hd : s.now < j.dueAt) :
    fire p s idx = s := by
  simp [fire, h, hd]

/-- non-vacuity: the retry job of a failed attempt at time 5 with delay 3 is due at 8 -/
example : (run { retry := some ⟨.int 1, .int 3, false, false⟩ } init
    [.tick 5, .startNew, .result 0 .error false false]).jobs = [⟨.cont, 8⟩] := by decide

/-! ## "ends SUCCESS iff its last attempt counts as success" -/

/-- only-if, for ALL parameters (well typed or not) and states: a completion step ends in SUCCESS
    only if the state it completes with is SUCCESS and fail-on does not hold. -/
theorem success_only_if_attempt_success (p : Params) (s : S) (st : TSt) (m : Msg)
    (hc : isCompleted s.st = false) (h : (completeTask p s st m).st = .success) :
    st = .success ∧ p.failOn.truthy = false := by
  by_cases hw : p.wellTyped = true
  · rw [completeTask_wellTyped p hw s st m hc] at h
    rw [(settle_fields p _).1] at h
    -- retryStep keeps or delays; failOnStep turns success into error; waitAfterStep keeps or delays
    have hr : ∀ x : S, (retryStep p x).st = .success → x.st = .success := by
      intro x hx
      simp only [retryStep] at hx
      cases hr : p.retry with
      | none => simpa [hr] using hx
      | some r =>
        simp only [hr] at hx
        (repeat' split at hx) <;> first | exact hx | (simp [schedule] at hx)
    have hf : ∀ x : S, (failOnStep p x).st = .success → x.st = .success ∧ p.failOn.truthy = false := by
      intro x hx
      simp only [failOnStep] at hx
      split at hx
      · simp at hx
      · rename_i hn
        refine ⟨hx, ?_⟩
        cases ht : p.failOn.truthy with
        | false => rfl
        | true => exact absurd ⟨hx, ht⟩ hn
    have hwa : ∀ x : S, (waitAfterStep p x).st = .success → x.st = .success := by
      intro x hx
      simp only [waitAfterStep] at hx
      (repeat' split at hx) <;> first | exact hx | (simp [schedule] at hx)
    have h1 := hf _ (hr _ h)
    exact ⟨hwa _ h1.1, h1.2⟩
  · -- an ill-typed parameter raises in some hook: the task is force-failed
    exfalso
    simp only [completeTask, hc, Bool.false_eq_true, if_false] at h
    have hraise : ∀ x, ∃ y, afterAll p x = .raise y := by
      intro x
      cases hr : afterAll p x with
      | raise y => exact ⟨y, rfl⟩
      | ok y => exact absurd (afterAll_ok_wellTyped p x y hr) hw
    obtain ⟨y, hy⟩ := hraise { s with st := st, msg := m }
    rw [hy] at h
    simp [forceFail] at h


/-- if: an attempt that counts as success, with nothing left to postpone it and no retry in force
    for it, ends the task in SUCCESS at that very step. -/
theorem success_if_attempt_success (p : Params) (hw : p.wellTyped = true) (s : S) (m : Msg)
    (hc : isCompleted s.st = false) (hf : p.failOn.truthy = false)
    (hd : p.waitAfter.nat = 0 ∨ s.waSkip = true)
    (hr : ∀ r, p.retry = some r → r.count.nat ≠ 0 →
            retryApplies r s.retryNo .success (evalFlags s.acts).1 (evalFlags s.acts).2 = false) :
    (completeTask p s .success m).st = .success := by
  rw [complete_noWait p hw s _ m hc hd]
  have e1 : failOnStep p { s with st := .success, msg := m } = { s with st := .success, msg := m } := by
    simp [failOnStep, hf]
  rw [e1, retryStep_stop, (settle_fields p _).1]
  intro r h1 h2 _
  exact hr r h1 h2

/-- the two directions together, at the step where the last attempt's result is taken -/
theorem final_success_iff_last_attempt_success (p : Params) (hw : p.wellTyped = true) (s : S) (o : Outcome) (m : Msg)
    (hc : isCompleted s.st = false) (hd : p.waitAfter.nat = 0 ∨ s.waSkip = true)
    (hlast : isCompleted (completeTask p s o.st m).st = true) :
    (completeTask p s o.st m).st = .success ↔ (o = .success ∧ p.failOn.truthy = false) := by
  constructor
  · intro h
    have := success_only_if_attempt_success p s o.st m hc h
    refine ⟨?_, this.2⟩
    cases o with
    | success => rfl
    | error => simp [Outcome.st] at this
  · intro ⟨ho, hf⟩
    subst ho
    -- the step ended in a completed state, so the retry did not apply
    rw [complete_noWait p hw s _ m hc hd] at hlast ⊢
    have e1 : failOnStep p { s with st := Outcome.success.st, msg := m } = { s with st := .success, msg := m } := by
      simp [failOnStep, hf, Outcome.st]
    rw [e1] at hlast ⊢
    rw [(settle_fields p _).1] at hlast ⊢
    simp only [retryStep] at hlast ⊢
    cases hr : p.retry with
    | none => rfl
    | some r =>
      simp only [hr] at hlast ⊢
      (repeat' split) <;> first | rfl | skip
      all_goals (repeat' split at hlast) <;> simp_all [schedule, isCompleted]

/-- non-vacuity: two failures then a success, count 2: SUCCESS; three failures: ERROR -/
example : (run { retry := some ⟨.int 2, .int 0, false, false⟩ } init
    [.startNew, .result 0 .error false false, .fire 0, .result 1 .error false false, .fire 0,
     .result 2 .success false false]).st = .success := by decide
example : (run { retry := some ⟨.int 2, .int 0, false, false⟩ } init
    [.startNew, .result 0 .error false false, .fire 0, .result 1 .error false false, .fire 0,
     .result 2 .error false false]).st = .error := by decide

/-! ## "wait-before / wait-after postpone the start / the follow-up tasks without losing them" -/

/-- a state in which the task has just been created -/
def fresh (s : S) : Prop :=
  s.pendingNew = true ∧ s.st = .idle ∧ s.wbSkip = false ∧ s.wf = .running

/-- "wait-before postpones the start without losing it": starting a task with wait-before d > 0
    (no pause-before) starts no action, leaves the task DELAYED and schedules exactly one continue
    job, due at now + d.  ORDER-DEPENDENT. -/
theorem wait_before_postpones_not_loses (p : Params) (hw : p.wellTyped = true) (s : S) (hs : fresh s)
    (hp : p.pauseBefore.truthy = false) (hd : p.waitBefore.nat ≠ 0) :
    let s' := startNew p s
    s'.st = .delayed ∧ s'.msg = .waitBefore ∧ s'.acts = s.acts ∧ s'.wbSkip = true ∧
    contJobs s' = contJobs s + 1 ∧ (⟨.cont, s.now + p.waitBefore.nat⟩ : Job) ∈ s'.jobs ∧ s'.wf = .running := by
  obtain ⟨h1, h2, h3, h4⟩ := hs
  have e0 : startNew p s = launch p { s with pendingNew := false } := by simp [startNew, h1, h2]
  have e1 : pauseStep p { s with pendingNew := false, st := .running } = { s with pendingNew := false, st := .running } := by
    simp [pauseStep, hp]
  have e2 : waitBeforeStep p { s with pendingNew := false, st := .running } =
      schedule { s with pendingNew := false, st := .delayed, msg := .waitBefore, wbSkip := true } .cont p.waitBefore.nat := by
    simp [waitBeforeStep, hd, h3]
  simp only [e0, launch, beforeAll_wellTyped p hw, e1, e2]
  generalize hx : schedule { s with pendingNew := false, st := .delayed, msg := .waitBefore, wbSkip := true } .cont p.waitBefore.nat = x
  have x1 : x.st = .delayed := by rw [← hx]; rfl
  have x2 : x.msg = .waitBefore := by rw [← hx]; rfl
  have x3 : x.acts = s.acts := by rw [← hx]; rfl
  have x4 : x.wbSkip = true := by rw [← hx]; rfl
  have x5 : contJobs x = contJobs s + 1 := by rw [← hx]; simp [contJobs, schedule, List.countP_append, isCont]
  have x6 : (⟨.cont, s.now + p.waitBefore.nat⟩ : Job) ∈ x.jobs := by rw [← hx]; simp [schedule]
  have x7 : x.wf = .running := by rw [← hx]; exact h4
  have h := timeoutStep_fields p x
  have hne : ¬ (timeoutStep p x).st = .running := by rw [h.1, x1]; simp
  simp only [hne, if_false]
  exact ⟨by rw [h.1, x1], by rw [h.2.1, x2], by rw [h.2.2.2.1, x3], by rw [h.2.2.2.2.1, x4],
         by rw [h.2.2.2.2.2.1, x5], h.2.2.2.2.2.2.1 _ x6, by rw [h.2.2.1, x7]⟩

/-- …and the postponed start is the only one: when the continue job is delivered (not before it
    is due) to the still-DELAYED task exactly one action execution is started and the task is RUNNING. -/
theorem continue_job_starts_one_action (p : Params) (s : S) (idx : Nat) (due : Nat)
    (hj : s.jobs[idx]? = some ⟨.cont, due⟩) (hdue : due ≤ s.now) (hx : p.execTimeoutRaises = false)
    (hd : s.st = .delayed) (ho : hasOutstanding s.acts = false) :
    (fire p s idx).acts.length = s.acts.length + 1 ∧ (fire p s idx).st = .running ∧
    contJobs (fire p s idx) + 1 = contJobs s := by
  have hc := countP_eraseIdx_add isCont s.jobs idx _ hj
  simp [fire, hj, Nat.not_lt.mpr hdue, hd, ho, continueTask, scheduleAction, hx, resetActions, contJobs, isCont] at hc ⊢
  omega

/-- 831643dc: a continue / complete job delivered to a task that is not DELAYED any more (failed by its
    timeout, completed by a late result, continued by another job) is stale: it only disappears. -/
theorem stale_job_ignored (p : Params) (s : S) (idx : Nat) (j : Job)
    (hj : s.jobs[idx]? = some j) (hk : j.kind ≠ .timeout) (hd : s.st ≠ .delayed) :
    fire p s idx = { s with jobs := s.jobs.eraseIdx idx } ∨ fire p s idx = s := by
  by_cases hdue : s.now < j.dueAt
  · right; simp [fire, hj, hdue]
  · left
    cases hkk : j.kind with
    | timeout => exact absurd hkk hk
    | cont => simp [fire, hj, hdue, hkk, hd]
    | complete st m => simp [fire, hj, hdue, hkk, hd]

/-- non-vacuity: wait-before 3 — nothing runs before the job fires, one action after -/
example : (run { waitBefore := .int 3 } init [.startNew, .tick 2, .fire 0]).acts.length = 0
    ∧ (run { waitBefore := .int 3 } init [.startNew, .tick 3, .fire 0]).acts.length = 1 := by decide

/-- "wait-after postpones the follow-up tasks": the first completion of a task with wait-after d > 0
    dispatches nothing, consults neither fail-on nor retry, leaves the task DELAYED and schedules
    exactly one complete job carrying the end state, due at now + d. -/
theorem wait_after_postpones_followups (p : Params) (hw : p.wellTyped = true) (s : S) (st : TSt) (m : Msg)
    (hc : isCompleted s.st = false) (hd : p.waitAfter.nat ≠ 0) (hs : s.waSkip = false) :
    let s' := completeTask p s st m
    s'.st = .delayed ∧ s'.msg = .waitAfter ∧ s'.followUps = s.followUps ∧ s'.retryNo = s.retryNo ∧
    s'.jobs = s.jobs ++ [⟨.complete st m, s.now + p.waitAfter.nat⟩] ∧ s'.waSkip = true ∧ s'.processed = s.processed := by
  simp [complete_waitAfter p hw s st m hc hd hs, schedule]

/-- "…without losing them": when that job is delivered to the still-DELAYED task the completion is
    redone with the stored end state, wait-after does not apply a second time, and (no retry in force,
    workflow running) the follow-ups of the final state are dispatched exactly once. -/
theorem wait_after_job_dispatches_followups (p : Params) (hw : p.wellTyped = true) (s : S) (st : TSt) (m : Msg)
    (hc : isCompleted s.st = false) (hs : s.waSkip = true) (hwf : s.wf = .running) (hr : p.retry = none)
    (hst : isCompleted st = true) :
    let s' := completeTask p s st m
    isCompleted s'.st = true ∧ s'.followUps = s.followUps + follows p s'.st ∧ s'.processed = true ∧ s'.jobs = s.jobs := by
  rw [complete_noWait p hw s st m hc (Or.inr hs)]
  have e : retryStep p (failOnStep p { s with st := st, msg := m }) = failOnStep p { s with st := st, msg := m } := by
    simp [retryStep, hr]
  rw [e]
  simp only [failOnStep]
  split
  · simp [settle, hwf, isCompleted]
  · cases st <;> simp [isCompleted] at hst <;> simp [settle, hwf, isCompleted]

/-- non-vacuity -/
example : (run { waitAfter := .int 2, follow := .onSuccess } init [.startNew, .result 0 .success false false]).followUps = 0
    ∧ (run { waitAfter := .int 2, follow := .onSuccess } init
        [.startNew, .result 0 .success false false, .tick 2, .fire 0]).followUps = 1 := by decide

/-! ## "A task still incomplete when its timeout expires becomes ERROR with a timeout message and a
       task that completed in time is untouched by the timer" -/

/-- "a task that completed in time is untouched by the timer": for ALL parameters and states, the
    timer delivered to a completed task only disappears. -/
theorem timeout_untouched_if_completed (p : Params) (s : S) (idx : Nat) (due : Nat)
    (hj : s.jobs[idx]? = some ⟨.timeout, due⟩) (hc : isCompleted s.st = true) :
    fire p s idx = { s with jobs := s.jobs.eraseIdx idx } ∨ fire p s idx = s := by
  by_cases hd : s.now < due
  · right; simp [fire, hj, hd]
  · left; simp [fire, hj, hd, hc]

/-- the timer changes a task iff it is not completed: on an incomplete task it is a completion with
    ERROR and the timeout message (`Task.complete(ERROR, 'Task timed out …')`). -/
theorem timeout_only_incomplete (p : Params) (s : S) (idx : Nat) (due : Nat)
    (hj : s.jobs[idx]? = some ⟨.timeout, due⟩) (hdue : due ≤ s.now) :
    fire p s idx = if isCompleted s.st then { s with jobs := s.jobs.eraseIdx idx }
                   else completeTask p { s with jobs := s.jobs.eraseIdx idx } .error .timeout := by
  simp [fire, hj, Nat.not_lt.mpr hdue]

/-- "becomes ERROR with a timeout message" — where nothing else is configured to take the error
    over (no wait-after still to come, no retry in force for it). -/
theorem timeout_incomplete_becomes_error_partial (p : Params) (hw : p.wellTyped = true) (s : S) (idx : Nat) (due : Nat)
    (hj : s.jobs[idx]? = some ⟨.timeout, due⟩) (hdue : due ≤ s.now) (hc : isCompleted s.st = false)
    (hd : p.waitAfter.nat = 0 ∨ s.waSkip = true)
    (hr : ∀ r, p.retry = some r → r.count.nat ≠ 0 →
            retryApplies r s.retryNo .error (evalFlags s.acts).1 (evalFlags s.acts).2 = false) :
    (fire p s idx).st = .error ∧ (fire p s idx).msg = .timeout := by
  rw [timeout_only_incomplete p s idx due hj hdue]
  simp only [hc, Bool.false_eq_true, if_false]
  rw [complete_noWait p hw { s with jobs := s.jobs.eraseIdx idx } _ _ hc hd]
  have e1 : failOnStep p { s with jobs := s.jobs.eraseIdx idx, st := .error, msg := .timeout } =
      { s with jobs := s.jobs.eraseIdx idx, st := .error, msg := .timeout } := by simp [failOnStep]
  rw [e1, retryStep_stop]
  · exact ⟨(settle_fields p _).1, (settle_fields p _).2.1⟩
  · intro r h1 h2 _; exact hr r h1 h2

/-- The unrestricted reading is false of the code: with retries left the retry policy takes the
    timeout error over (DELAYED, next attempt scheduled, no new timer) — witness: count 1, timeout 1. -/
theorem timeout_incomplete_becomes_error_full_fails :
    ¬ (∀ (p : Params) (s : S) (idx due : Nat), p.wellTyped = true → s.jobs[idx]? = some ⟨.timeout, due⟩ → due ≤ s.now →
        isCompleted s.st = false → (fire p s idx).st = .error ∧ (fire p s idx).msg = .timeout) := by
  intro h
  have := h { timeout := .int 1, retry := some ⟨.int 1, .int 5, false, false⟩ }
    (run { timeout := .int 1, retry := some ⟨.int 1, .int 5, false, false⟩ } init [.startNew, .tick 1]) 0 1
    (by decide) (by decide) (by decide) (by decide)
  revert this; decide

/-! ## "fail-on turns a successful task into ERROR" -/

/-- "fail-on turns a successful task into ERROR": a successful attempt under a fail-on that holds is
    never SUCCESS; with nothing else in force it is ERROR with the fail-on message. -/
theorem fail_on_turns_error (p : Params) (hw : p.wellTyped = true) (s : S) (m : Msg)
    (hc : isCompleted s.st = false) (hf : p.failOn.truthy = true) :
    (completeTask p s .success m).st ≠ .success ∧
    ((p.waitAfter.nat = 0 ∨ s.waSkip = true) → p.retry = none →
      (completeTask p s .success m).st = .error ∧ (completeTask p s .success m).msg = .failOn) := by
  constructor
  · intro h
    have := success_only_if_attempt_success p s .success m hc h
    rw [hf] at this; cases this.2
  · intro hd hr
    rw [complete_noWait p hw s _ m hc hd]
    have e1 : failOnStep p { s with st := .success, msg := m } = { s with st := .error, msg := .failOn } := by
      simp [failOnStep, hf]
    rw [e1]
    have e2 : ∀ x, retryStep p x = x := by intro x; simp [retryStep, hr]
    rw [e2]
    exact ⟨(settle_fields p _).1, (settle_fields p _).2.1⟩

/-- fail-on leaves failed attempts alone (state and message of an ERROR completion are kept). -/
theorem fail_on_only_success (p : Params) (s : S) (m : Msg) :
    failOnStep p { s with st := .error, msg := m } = { s with st := .error, msg := m } := by
  simp [failOnStep]

example : (run { failOn := .bool true } init [.startNew, .result 0 .success false false]).st = .error
    ∧ (run { failOn := .bool true } init [.startNew, .result 0 .success false false]).msg = .failOn := by decide

/-! ## "pause-before pauses the workflow before the task's action is started" -/

/-- "pause-before pauses the workflow before the task's action is started": starting a task whose
    pause-before holds starts no action and schedules no continue job (wait-before is not applied to the
    IDLE task); the task is IDLE and the workflow PAUSED.  ORDER-DEPENDENT (pause-before is the first
    factory). -/
theorem pause_before_pauses_before_action (p : Params) (hw : p.wellTyped = true) (s : S) (hs : fresh s)
    (hp : p.pauseBefore.truthy = true) :
    let s' := startNew p s
    s'.wf = .paused ∧ s'.st = .idle ∧ s'.acts = s.acts ∧ contJobs s' = contJobs s ∧ s'.pendingExisting = s.pendingExisting := by
  obtain ⟨h1, h2, h3, h4⟩ := hs
  have e0 : startNew p s = launch p { s with pendingNew := false } := by simp [startNew, h1, h2]
  have e1 : pauseStep p { s with pendingNew := false, st := .running } =
      { s with pendingNew := false, st := .idle, msg := .pauseBefore, wf := .paused } := by
    simp [pauseStep, hp, h4, pauseWf]
  have e2 : waitBeforeStep p { s with pendingNew := false, st := .idle, msg := .pauseBefore, wf := .paused } =
      { s with pendingNew := false, st := .idle, msg := .pauseBefore, wf := .paused } := by
    simp only [waitBeforeStep, h3]
    split
    · rfl
    · simp
  simp only [e0, launch, beforeAll_wellTyped p hw, e1, e2]
  generalize hx : ({ s with pendingNew := false, st := .idle, msg := .pauseBefore, wf := .paused } : S) = x
  have x1 : x.st = .idle := by rw [← hx]
  have x2 : x.wf = .paused := by rw [← hx]
  have x3 : x.acts = s.acts := by rw [← hx]
  have x4 : contJobs x = contJobs s := by rw [← hx]; rfl
  have x5 : x.pendingExisting = s.pendingExisting := by rw [← hx]
  have h := timeoutStep_fields p x
  have hne : ¬ (timeoutStep p x).st = .running := by rw [h.1, x1]; simp
  simp only [hne, if_false]
  exact ⟨by rw [h.2.2.1, x2], by rw [h.1, x1], by rw [h.2.2.2.1, x3], by rw [h.2.2.2.2.2.1, x4],
         by rw [h.2.2.2.2.2.2.2.1, x5]⟩

/-- after resume the task runs: resume re-queues the IDLE task, whose start creates one action. -/
theorem resume_then_runs (p : Params) (s : S) (hwf : s.wf = .paused) (hi : s.st = .idle)
    (hx : p.execTimeoutRaises = false) :
    (resume p s).wf = .running ∧ (resume p s).pendingExisting = true ∧
    (startExisting p (resume p s)).acts.length = s.acts.length + 1 ∧ (startExisting p (resume p s)).st = .running := by
  simp [resume, hwf, hi, isCompleted, startExisting, scheduleAction, hx, setRunningExisting, resetActions]

example : (run { pauseBefore := .bool true, waitBefore := .int 2, timeout := .int 9 } init [.startNew]).wf = .paused
    ∧ (run { pauseBefore := .bool true, waitBefore := .int 2, timeout := .int 9 } init [.startNew]).acts = []
    ∧ (run { pauseBefore := .bool true, waitBefore := .int 2, timeout := .int 9 } init
        [.startNew, .resume, .startExisting]).acts.length = 1 := by decide

/-! ## Policy parameters are type checked after evaluation -/

/-- "policy_type_checked": if any evaluated parameter fails its schema check (non-integer, negative,
    non-boolean pause-before) the task start raises InvalidModelException inside `run_task`, which
    force-fails the task: ERROR with the forced message, no action execution, and the workflow fails
    (3cd97083: even when a pause-before of the same start had just paused it). -/
theorem policy_type_checked (p : Params) (hw : p.wellTyped = false) (s : S) (hs : fresh s) :
    (startNew p s).st = .error ∧ (startNew p s).msg = .forced ∧ (startNew p s).acts = s.acts ∧
    (startNew p s).wf ≠ .running ∧ (startNew p s).crashes = s.crashes := by
  obtain ⟨h1, h2, h3, h4⟩ := hs
  have e0 : startNew p s = launch p { s with pendingNew := false } := by simp [startNew, h1, h2]
  obtain ⟨y, hy⟩ := beforeAll_illTyped p hw { s with pendingNew := false, st := .running }
  have hr := beforeAll_rel p { s with pendingNew := false, st := .running }
  have hcr := runHooks_crashes (beforeOne p) (beforeOne_crashes p) Gen.PolicyOrder.order { s with pendingNew := false, st := .running }
  change (beforeAll p _).state.crashes = _ at hcr
  rw [hy] at hr hcr
  simp only [R.state] at hr hcr
  rw [e0]
  have el : launch p { s with pendingNew := false } = forceFail y := by simp only [launch, hy]
  rw [el]
  refine ⟨rfl, rfl, hr.acts, ?_, hcr⟩
  simp [forceFail]

/-- well-typed parameters never force-fail the start -/
theorem well_typed_start_not_forced (p : Params) (hw : p.wellTyped = true) (s : S) (hs : fresh s)
    (hx : p.execTimeoutRaises = false) : (startNew p s).msg ≠ .forced ∨ s.msg = .forced := by
  obtain ⟨h1, h2, h3, h4⟩ := hs
  have e0 : startNew p s = launch p { s with pendingNew := false } := by simp [startNew, h1, h2]
  simp only [e0, launch, beforeAll_wellTyped p hw, scheduleAction, hx]
  by_cases hm : s.msg = .forced
  · exact Or.inr hm
  · left
    have h := timeoutStep_fields p (waitBeforeStep p (pauseStep p { s with pendingNew := false, st := .running }))
    have hmsg : (waitBeforeStep p (pauseStep p { s with pendingNew := false, st := .running })).msg ≠ .forced := by
      simp only [waitBeforeStep, pauseStep]
      (repeat' split) <;> simp [schedule, hm]
    split
    · show _ ≠ _; simpa [h.2.1] using hmsg
    · rw [h.2.1]; exact hmsg

/-- "…not a crash": as long as `RegularTask._get_timeout` does not meet a task-level timeout that
    evaluates to a value `> 0` is undefined for, no undeclared exception ever escapes — for ALL
    parameters (ill-typed included) and ALL event sequences. -/
theorem policy_type_checked_no_crash_partial (p : Params) (hx : p.execTimeoutRaises = false) (evs : List Ev) :
    (run p init evs).crashes = 0 := by
  rw [run_crashes p hx evs init]; rfl

/-- "…not a crash", full strength (true since 831643dc; was `…_full_fails`): for ALL parameters — the
    only link assumed is the one the code has, a task-level timeout `> 0` is undefined for is itself
    ill-typed — and ALL event sequences no undeclared exception escapes.  Before the fix the stale
    wait-before job of a force-failed task reached `_get_timeout` ('abc' > 0: TypeError); now an
    ill-typed task never gets an action execution at all (`IllInv`). -/
theorem policy_type_checked_no_crash (p : Params) (hcons : p.execTimeoutRaises = true → p.timeout.valid = false)
    (evs : List Ev) : (run p init evs).crashes = 0 := by
  cases hx : p.execTimeoutRaises with
  | false => exact policy_type_checked_no_crash_partial p hx evs
  | true =>
    have hv := hcons hx
    have hw : p.wellTyped = false := by simp [Params.wellTyped, hv]
    exact (illInv_run p hw evs init illInv_init).cr

/-- …and an ill-typed task never runs an action, whatever fires later (the "zombie" attempt of a
    force-failed task is gone). -/
theorem ill_typed_never_runs (p : Params) (hw : p.wellTyped = false) (evs : List Ev) :
    (run p init evs).acts = [] ∧ ((run p init evs).st = .idle ∨ (run p init evs).st = .error) :=
  ⟨(illInv_run p hw evs init illInv_init).acts, (illInv_run p hw evs init illInv_init).st⟩

example : (run { waitBefore := .int 2, timeout := .other, execTimeoutRaises := true } init
    [.startNew, .tick 2, .fire 0]).crashes = 0
  ∧ (run { waitBefore := .int 2, timeout := .other, execTimeoutRaises := true } init
    [.startNew, .tick 2, .fire 0]).st = .error := by decide

/-! ## Trace level, for ALL timer orders -/

/-- "stops at the first success", trace level, full strength (true since 831643dc; was
    `stops_at_first_success_full_fails`): once the task is SUCCESS no event — stale continue / complete
    job, timer, late result, resume, redelivered start — changes its state or starts another action. -/
theorem success_is_final (p : Params) (s : S) (e : Ev) (h : s.st = .success) :
    (step p s e).st = .success ∧ (step p s e).acts.length = s.acts.length := success_final_step p s e h

theorem stops_at_first_success_trace (p : Params) (evs evs' : List Ev) (h : (run p init evs).st = .success) :
    (run p (run p init evs) evs').st = .success ∧
    (run p (run p init evs) evs').acts.length = (run p init evs).acts.length :=
  success_final_run p _ evs' h

/-- the former witness (timeout 3, retry 1×5, late result, stale continue job) now stops -/
example : (run { timeout := .int 3, retry := some ⟨.int 1, .int 5, false, false⟩ } init
    [.startNew, .tick 3, .fire 0, .result 0 .success false false, .tick 5, .fire 0]).acts.length = 1
  ∧ (run { timeout := .int 3, retry := some ⟨.int 1, .int 5, false, false⟩ } init
    [.startNew, .tick 3, .fire 0, .result 0 .success false false, .tick 5, .fire 0]).st = .success := by decide

/-- a task that ended ERROR (timeout, exhausted retries, break-on, fail-on) stays ERROR and runs no
    further action — provided no start request of it is still in flight. -/
theorem error_is_final_partial (p : Params) (s : S) (e : Ev) (h : s.st = .error) (hpe : s.pendingExisting = false) :
    (step p s e).st = .error ∧ (step p s e).acts.length = s.acts.length ∧ (step p s e).pendingExisting = false :=
  error_final_step p s e h hpe

/-- "a task that ended ERROR stays ERROR", full strength (true since repo_patches/20; was
    `error_is_final_full_fails`): no event - stale continue / complete job, timer, late result, resume,
    and in particular the start request that `resume` re-queued for the task while it was still IDLE -
    changes the state of an ERROR task or starts another action. -/
theorem error_is_final (p : Params) (s : S) (e : Ev) (h : s.st = .error) :
    (step p s e).st = .error ∧ (step p s e).acts.length = s.acts.length := error_final_step_full p s e h

/-- the former witness: the timer is armed although pause-before left the task IDLE; it expires between
    `resume` and the delivery of the re-queued start: the task is failed by its timeout and the stale
    start request no longer runs it (it used to: ERROR → RUNNING). -/
example : (run { pauseBefore := .bool true, timeout := .int 2 } init
    [.startNew, .resume, .tick 2, .fire 0, .startExisting]).st = .error
  ∧ (run { pauseBefore := .bool true, timeout := .int 2 } init
    [.startNew, .resume, .tick 2, .fire 0, .startExisting]).acts.length = 0 := by decide

/-- Trace-level "ends SUCCESS iff its last attempt counts as success" is STILL FALSE with a timeout timer
    (the witness of the unfixed code — two concurrent attempts — is gone, this one remains): `_complete_task`
    only checks that the task is DELAYED, not that it is DELAYED by wait-after.  wait-after 10, timeout 2,
    retry 2×4: first attempt succeeds (complete job due 10), the timer fails the DELAYED task, retry runs a
    second attempt which fails and is re-delayed until 10; the wait-after job of the FIRST attempt then
    completes the task SUCCESS although the last attempt failed. -/
theorem final_success_iff_last_attempt_success_full_fails :
    ¬ (∀ (p : Params) (evs : List Ev), p.wellTyped = true → p.failOn.truthy = false →
        (run p init evs).jobs = [] → (∀ a ∈ (run p init evs).acts, a.res.isSome = true) →
        ((run p init evs).st = .success ↔
          ∃ c b, ((run p init evs).acts.getLast?.bind (·.res)) = some (.success, c, b))) := by
  intro h
  have := h { timeout := .int 2, waitAfter := .int 10, retry := some ⟨.int 2, .int 4, false, false⟩ }
    [.startNew, .result 0 .success false false, .tick 2, .fire 0, .tick 4, .fire 1, .result 1 .error false false,
     .tick 4, .fire 0, .fire 0]
    (by decide) (by decide) (by decide) (by decide)
  have hs : (run { timeout := .int 2, waitAfter := .int 10, retry := some ⟨.int 2, .int 4, false, false⟩ } init
    [.startNew, .result 0 .success false false, .tick 2, .fire 0, .tick 4, .fire 1, .result 1 .error false false,
     .tick 4, .fire 0, .fire 0]).st = .success := by decide
  obtain ⟨c, b, hcb⟩ := this.mp hs
  revert hcb
  cases c <;> cases b <;> decide

/-- Trace-level "pause-before: no action before resume" is STILL FALSE with a timeout timer (not a
    stale job: the task really is DELAYED by retry): the timer is armed at the paused start, fails the IDLE
    task, retry re-delays it and the continue job starts the action while the workflow is still PAUSED
    (witness: pause-before, timeout 2, count 1). -/
theorem pause_before_no_action_until_resume_full_fails :
    ¬ (∀ (p : Params) (evs : List Ev), p.wellTyped = true → p.pauseBefore.truthy = true →
        (∀ e ∈ evs, e ≠ .resume) → (run p init evs).acts = []) := by
  intro h
  have := h { pauseBefore := .bool true, timeout := .int 2, retry := some ⟨.int 1, .int 3, false, false⟩ }
    [.startNew, .tick 2, .fire 0, .tick 3, .fire 0] (by decide) (by decide) (by decide)
  revert this; decide

end Mistral.Props.C08
