/- C03 ("a finished task is final"), C06 / C04 ("the downstream dispatch runs at most once per
   task"), C09 `report_once` PARENT side ("the completion logic of the parent task runs at most once
   when the child result is delivered twice") at STATEMENT granularity.

   Script `taskComplete`, REGENERATED from mistral/engine/tasks.py on every run: `Task.complete(state,
   state_info)` for a completed, non-skipped state with `Task.set_state` inlined — is_completed guard
   on the loaded copy, `update_task_execution_state` (update_on_match) with the state READ as expected
   value, lost -> return; the winner assigns state_info, next_tasks, has_next_tasks, error_handled,
   and (unless the workflow is paused) processed = True, registers the workflow completion check
   (tag 3) and dispatches the next commands (tag 4).  `RegularTask.on_action_complete` ends in it for
   action results and child-workflow results alike (translator fact), so a result of the same action,
   a duplicated child result, a timeout / force-fail of the task all race through THIS script on the
   task row.  `vars 0` = target state, `vars 6` = "the workflow is paused". -/
import Mistral.Lemmas.Race
import Mistral.Gen.RaceScripts
namespace Mistral.Props.C03RaceTask
open Mistral.Race Mistral.Gen.RaceScripts

set_option maxRecDepth 4000
set_option linter.unusedSimpArgs false

/-- what the winning completion installs on the row `rc` its compare-and-swap matched (`rr` = the
    copy loaded at the start: ORM dirty check) -/
def taskRow (vars : Fields) (rr rc : Row) : Row :=
  { alive := true,
    f := fun k =>
      if k = 0 then vars 0
      else if k = 2 then vars 2
      else if k = 1 then (if vars 1 = rr.f 1 then rc.f 1 else vars 1)
      else if k = 4 then (if vars 4 = rr.f 4 then rc.f 4 else vars 4)
      else if k = 5 then (if vars 5 = rr.f 5 then rc.f 5 else vars 5)
      else if k = 3 then (if (vars 6).truthy then rc.f 3
                          else if Val.bool true = rr.f 3 then rc.f 3 else Val.bool true)
      else rc.f k }

macro "task_rows" : tactic =>
  `(tactic| ((repeat (apply congrArg)); funext k;
             by_cases k0 : k = 0 <;> by_cases k1 : k = 1 <;> by_cases k2 : k = 2 <;> by_cases k3 : k = 3 <;>
             by_cases k4 : k = 4 <;> by_cases k5 : k = 5 <;> simp_all [Fields.set]))

set_option maxHeartbeats 4000000 in
/-- `Task.complete` under arbitrary interference: NOTHING (committed row = the interferers' row,
    no completion check, no dispatch) or, at the instant of its compare-and-swap, on a row whose state
    is still the NOT-completed state it read, the whole completion installed together; the completion
    check and the dispatch of the next commands are registered by the winner only (and not while the
    workflow is paused). -/
theorem task_complete_atomic (sched : Nat → Intf) (vars : Fields) (row0 : Row) :
    ((runWith taskComplete sched vars row0).sh.db = pre sched 15 row0 ∧
      (runWith taskComplete sched vars row0).l.emitted = []) ∨
    ((pre sched 1 row0).alive = true ∧ memVals completedStates ((pre sched 1 row0).f 0) = false ∧
      (pre sched 4 row0).alive = true ∧ (pre sched 4 row0).f 0 = (pre sched 1 row0).f 0 ∧
      (runWith taskComplete sched vars row0).sh.db =
        between sched 4 11 (taskRow vars (pre sched 1 row0) (pre sched 4 row0)) ∧
      (runWith taskComplete sched vars row0).l.emitted = if (vars 6).truthy then [] else [3, 4]) := by
  by_cases h1 : (pre sched 1 row0).alive = true
  · by_cases h0 : memVals completedStates ((pre sched 1 row0).f 0) = true
    · left
      simp only [pre, completedStates] at h1 h0
      simp only [taskComplete]
      race_simp [h1, h0]
    · by_cases h3 : (pre sched 4 row0).alive = true ∧ (pre sched 4 row0).f 0 = (pre sched 1 row0).f 0
      · right
        obtain ⟨h3a, h3b⟩ := h3
        refine ⟨h1, by simpa using h0, h3a, h3b, ?_⟩
        simp only [pre, completedStates] at h1 h0 h3a h3b
        simp only [taskComplete]
        by_cases h4 : vars 1 = (sched 0 row0).f 1 <;> by_cases h5 : Val.bool true = (sched 0 row0).f 3 <;>
          by_cases h6 : (vars 6).truthy = true <;> by_cases h7 : vars 4 = (sched 0 row0).f 4 <;>
          by_cases h8 : vars 5 = (sched 0 row0).f 5 <;>
          (race_simp [h1, h0, h3a, h3b, h4, h5, h6, h7, h8, taskRow]
           try task_rows)
      · left
        simp only [pre, completedStates] at h1 h0 h3
        simp only [taskComplete]
        race_simp [h1, h0, h3]
  · left
    simp only [pre] at h1
    simp only [taskComplete]
    race_simp [h1]

/-- C03 "a finished task is final": a task row that is completed at the instant of the script's
    compare-and-swap (by the other result, a timeout, a force-fail, a cancel ...) keeps state,
    state_info, next_tasks, processed; no completion check, no dispatch. -/
theorem task_keeps_finished (sched : Nat → Intf) (vars : Fields) (row0 : Row)
    (hfin : memVals completedStates ((pre sched 4 row0).f 0) = true) :
    (runWith taskComplete sched vars row0).sh.db = pre sched 15 row0 ∧
    (runWith taskComplete sched vars row0).l.emitted = [] := by
  rcases task_complete_atomic sched vars row0 with h | ⟨_, hn, _, heq, _⟩
  · exact h
  · rw [heq] at hfin; rw [hfin] at hn; cases hn

/-- the next commands are dispatched only by a completion that won its compare-and-swap on a
    not-completed row -/
theorem dispatch_only_by_winner (sched : Nat → Intf) (vars : Fields) (row0 : Row)
    (hd : (runWith taskComplete sched vars row0).l.emitted ≠ []) :
    memVals completedStates ((pre sched 4 row0).f 0) = false ∧
    (runWith taskComplete sched vars row0).sh.db =
      between sched 4 11 (taskRow vars (pre sched 1 row0) (pre sched 4 row0)) := by
  rcases task_complete_atomic sched vars row0 with h | ⟨_, hn, _, heq, hdb, _⟩
  · exact absurd h.2 hd
  · exact ⟨by rw [heq]; exact hn, hdb⟩

/-! ### any number of racing completions of one task

Each completion's effect on the row is ONE attempt at its compare-and-swap instant (theorem above,
for arbitrary interference); the instants are ordered by the row lock. -/

/-- one completion at its instant: `cur` = the state it had read, `target` = the state it sets -/
def attempt (cur target : Val) (r : Row) : Bool × Row :=
  if r.alive && r.f 0 == cur then (true, { r with f := r.f.set 0 target }) else (false, r)

def completions : List (Val × Val) → Row → Nat × Row
  | [], r => (0, r)
  | p :: ps, r =>
    let a := attempt p.1 p.2 r
    let rest := completions ps a.2
    ((if a.1 then 1 else 0) + rest.1, rest.2)

theorem completions_of_completed (ps : List (Val × Val)) (r : Row)
    (h : ∀ p ∈ ps, memVals completedStates p.1 = false)
    (hr : memVals completedStates (r.f 0) = true) :
    (completions ps r).1 = 0 ∧ (completions ps r).2 = r := by
  induction ps with
  | nil => exact ⟨rfl, rfl⟩
  | cons p ps ih =>
    have hp := h p (List.mem_cons_self ..)
    have hl : attempt p.1 p.2 r = (false, r) := by
      unfold attempt
      split
      · rename_i hc
        simp at hc
        rw [hc.2] at hr; rw [hr] at hp; cases hp
      · rfl
    simp only [completions, hl]
    simpa using ih (fun q hq => h q (List.mem_cons_of_mem _ hq))

/-- C06 / C04 "the downstream dispatch runs at most once per task", C09 `report_once` parent side:
    of ANY number of completions of one task (each read a not-completed state and sets a completed
    one) at most ONE wins — only that one runs the completion logic. -/
theorem dispatch_at_most_once (ps : List (Val × Val)) (r : Row)
    (h : ∀ p ∈ ps, memVals completedStates p.1 = false ∧ memVals completedStates p.2 = true) :
    (completions ps r).1 ≤ 1 := by
  induction ps generalizing r with
  | nil => simp [completions]
  | cons p ps ih =>
    have hp := h p (List.mem_cons_self ..)
    have hrest : ∀ q ∈ ps, memVals completedStates q.1 = false ∧ memVals completedStates q.2 = true :=
      fun q hq => h q (List.mem_cons_of_mem _ hq)
    simp only [completions]
    by_cases hw : (attempt p.1 p.2 r).1 = true
    · have hc : memVals completedStates ((attempt p.1 p.2 r).2.f 0) = true := by
        have hm : (r.alive && r.f 0 == p.1) = true := by
          unfold attempt at hw
          split at hw
          · assumption
          · cases hw
        simp [attempt, hm, Fields.set, hp.2]
      have := (completions_of_completed ps _ (fun q hq => (hrest q hq).1) hc).1
      simp [hw, this]
    · have := ih (attempt p.1 p.2 r).2 hrest
      simp [hw]; omega

/-! ### non-vacuity -/

def taskRunning : Row := { alive := true, f := fun k => if k = 0 then .str "RUNNING" else if k = 3 then .bool false else .null }
def okVars : Fields := fun k => if k = 0 then .str "SUCCESS" else if k = 2 then .str "[[next, on-success]]" else
  if k = 4 then .bool true else .null
def failVars : Fields := fun k => if k = 0 then .str "ERROR" else if k = 1 then .str "timeout" else
  if k = 2 then .str "[]" else .null
/-- a timeout / force-fail of the task by another engine commits between this completion's look-up
    and its compare-and-swap -/
def failBetween : Nat → Intf := fun j => if j = 2 then atomicOf taskComplete failVars else fun r => r

example : memVals completedStates ((pre failBetween 4 taskRunning).f 0) = true ∧
    (runWith taskComplete failBetween okVars taskRunning).sh.db.f 0 = .str "ERROR" ∧
    (runWith taskComplete failBetween okVars taskRunning).sh.db.f 2 = .str "[]" ∧
    (runWith taskComplete failBetween okVars taskRunning).l.emitted = [] := by
  simp only [taskComplete, completedStates]
  race_simp [memVals, Val.truthy, failBetween, atomicOf, okVars, failVars, taskRunning, taskComplete]

example : (runWith taskComplete (fun _ r => r) okVars taskRunning).sh.db.f 0 = .str "SUCCESS" ∧
    (runWith taskComplete (fun _ r => r) okVars taskRunning).sh.db.f 3 = .bool true ∧
    (runWith taskComplete (fun _ r => r) okVars taskRunning).l.emitted = [3, 4] := by
  simp only [taskComplete]
  race_simp [memVals, Val.truthy, okVars, taskRunning]

example : (completions [(.str "RUNNING", .str "SUCCESS"), (.str "RUNNING", .str "ERROR"), (.str "RUNNING", .str "SUCCESS")]
    taskRunning).1 = 1 := by decide

end Mistral.Props.C03RaceTask
