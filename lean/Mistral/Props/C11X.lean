/-
C11 / C10 over the engine core WITH ENGINE COMMANDS (`Mistral.Engine.stepX`, Model/EngineX.lean; tied to
the real engine after every event by the `core` stream, whose programs carry fail / succeed / pause /
noop in their on-clauses).

C11 "No new task is created in a stopped workflow afterwards … and results of actions that were still
     running or about to start do not change its state" - INCLUDING through the command backlog:
     commands saved by a `pause` engine command (or while PAUSED) are restored by
     `dispatch_workflow_commands` on every dispatch; in a completed workflow they are polled and DROPPED.
C10 "pause creates no new tasks": the commands after a `pause` command go to the backlog, nothing of
     them is created; they stay there while PAUSED; after `resume` each of them is dispatched exactly once.
-/
import Mistral.Lemmas.EngineX
namespace Mistral.Props.C11X
open Mistral Mistral.Engine Mistral.Join Mistral.Lifecycle

theorem completed_not_paused_or_idle (s : St) (h : isCompleted s = true) :
    isPausedOrIdle s = false ∧ isPaused s = false ∧ s ≠ .IDLE := by
  cases s <;> simp_all [isCompleted, Gen.States.completedStates] <;> decide

theorem checkAffected_backlog (sp : Spec) (w : World) (t : Tid) : (checkAffected sp w t).backlog = w.backlog := by
  unfold checkAffected
  split
  · rfl
  · split
    · rfl
    · split <;> rfl

/-- `Task.complete` in a completed workflow: no task is created, the workflow state stays; the backlog
    is polled by the dispatcher and dropped -/
theorem completeTaskX_completed (srt : Sorter) (sp : Spec) (w : World) (r : TaskRow) (s : St) (hc : isCompleted w.wf = true) :
    ids (completeTaskX srt sp w r s) = ids w ∧ (completeTaskX srt sp w r s).wf = w.wf ∧
      ((completeTaskX srt sp w r s).backlog = w.backlog ∨ (completeTaskX srt sp w r s).backlog = []) := by
  obtain ⟨_, hp, _⟩ := completed_not_paused_or_idle w.wf hc
  unfold completeTaskX
  split
  · refine ⟨?_, (checkAffected_tasks sp w _).2, Or.inl (checkAffected_backlog sp w _)⟩
    unfold ids; rw [(checkAffected_tasks sp w _).1]
  · simp only [hc, if_true, hp, Bool.false_eq_true, if_false, List.filter_nil, List.isEmpty_nil, List.map_nil]
    have hd : ∀ (ts : List TaskRow) (p : List Item),
        dispatchX srt sp { w with tasks := ts, pending := p } [] = { w with tasks := ts, pending := p, backlog := [] } :=
      fun ts p => dispatchX_completed srt sp { w with tasks := ts, pending := p } [] hc
    refine ⟨?_, ?_, Or.inr ?_⟩
    · unfold ids
      rw [(checkAffected_tasks sp _ _).1, hd]
      simp [setTask_ids]
    · rw [(checkAffected_tasks sp _ _).2, hd]
    · rw [checkAffected_backlog, hd]

/-- `no_dispatch_into_completed`, one step, EVERY world: once the workflow is in a final state no event -
    late result, start request, refresh job, completion check, duplicate, pause / resume / stop command -
    creates a task execution or changes the workflow state, also not through the backlog: the commands saved
    there are never dispatched any more (the backlog is left alone or polled and dropped). -/
theorem no_dispatch_into_completed_g (srt : Sorter) (sp : Spec) (w : World) (ev : Event) (hc : isCompleted w.wf = true) :
    ids (stepXg srt sp w ev) = ids w ∧ (stepXg srt sp w ev).wf = w.wf ∧
      ((stepXg srt sp w ev).backlog = w.backlog ∨ (stepXg srt sp w ev).backlog = []) := by
  obtain ⟨hpi, hp, hidle⟩ := completed_not_paused_or_idle w.wf hc
  cases ev with
  | start =>
    have : (w.wf != .IDLE) = true := by simpa using hidle
    simp [stepXg, this]
  | pause =>
    refine ⟨by simp [stepXg, ids], ?_, Or.inl rfl⟩
    cases hw : w.wf <;> simp_all [stepXg, isCompleted, Gen.States.completedStates] <;> decide
  | resume => simp [stepXg, hpi]
  | stop t =>
    refine ⟨by simp [stepXg, ids], ?_, Or.inl rfl⟩
    simp only [stepXg]
    cases hw : w.wf <;> simp_all [isCompleted, Gen.States.completedStates] <;> cases t <;> decide
  | execute t ok => simp only [stepXg]; split <;> exact ⟨rfl, rfl, Or.inl rfl⟩
  | deliver it =>
    simp only [stepXg]
    split
    · exact ⟨rfl, rfl, Or.inl rfl⟩
    · cases it with
      | postStartTask t f => exact ⟨rfl, rfl, Or.inl rfl⟩
      | postRunAction t => exact ⟨rfl, rfl, Or.inl rfl⟩
      | runAction t => exact ⟨rfl, rfl, Or.inl rfl⟩
      | postCheck =>
        simp only
        rw [checkAndComplete_inert _ (by simp [isPausedOrCompleted, hc])]
        exact ⟨rfl, rfl, Or.inl rfl⟩
      | postSchedRefresh t => simp only; split <;> exact ⟨rfl, rfl, Or.inl rfl⟩
      | rpcStartTask t firstRun =>
        simp only
        split
        · exact ⟨rfl, rfl, Or.inl rfl⟩
        · split
          · split
            · exact ⟨by simp [ids, setTask_ids], rfl, Or.inl rfl⟩
            · split
              · split <;> exact ⟨rfl, rfl, Or.inl rfl⟩
              · exact ⟨by unfold ids; rw [(checkAffected_tasks sp _ t).1], by rw [(checkAffected_tasks sp _ t).2],
                  Or.inl (checkAffected_backlog sp _ t)⟩
          · split
            · exact ⟨rfl, rfl, Or.inl rfl⟩
            · split
              · exact ⟨by unfold ids; rw [(checkAffected_tasks sp _ t).1], by rw [(checkAffected_tasks sp _ t).2],
                  Or.inl (checkAffected_backlog sp _ t)⟩
              · split
                · exact ⟨rfl, rfl, Or.inl rfl⟩
                · exact ⟨by simp [ids, setTask_ids], rfl, Or.inl rfl⟩
      | rpcResult t ok =>
        simp only
        split
        · exact ⟨rfl, rfl, Or.inl rfl⟩
        · rename_i r _
          exact completeTaskX_completed srt sp { w with pending := removeFirst w.pending (.rpcResult t ok) } r _ hc
      | jobRefresh t =>
        simp only
        split
        · exact ⟨rfl, rfl, Or.inl rfl⟩
        · rename_i r _
          split
          · exact ⟨rfl, rfl, Or.inl rfl⟩
          · have : isCompleted w.wf = true := hc
            simp [this, ids]

theorem no_dispatch_into_completed (sp : Spec) (w : World) (ev : Event) (hc : isCompleted w.wf = true) :
    ids (stepX sp w ev) = ids w ∧ (stepX sp w ev).wf = w.wf ∧
      ((stepX sp w ev).backlog = w.backlog ∨ (stepX sp w ev).backlog = []) :=
  no_dispatch_into_completed_g pySorter sp w ev hc

/-- … hence along EVERY history: from the moment the workflow is completed the set of task executions and
    the workflow state never change again, whatever is in the backlog -/
theorem no_dispatch_into_completed_reachable (sp : Spec) (evs evs' : List Event)
    (hc : isCompleted (runX sp evs).wf = true) :
    ids (evs'.foldl (stepX sp) (runX sp evs)) = ids (runX sp evs) ∧
    (evs'.foldl (stepX sp) (runX sp evs)).wf = (runX sp evs).wf := by
  generalize runX sp evs = w at hc
  induction evs' generalizing w with
  | nil => exact ⟨rfl, rfl⟩
  | cons e es ih =>
    obtain ⟨h1, h2, _⟩ := no_dispatch_into_completed sp w e hc
    have hc' : isCompleted (stepX sp w e).wf = true := by rw [h2]; exact hc
    obtain ⟨h3, h4⟩ := ih (stepX sp w e) hc'
    exact ⟨h3.trans h1, h4.trans h2⟩

/-! ### the `pause` engine command and the backlog -/

/-- `pause_command_saves_rest`: a command list `pre ++ [pause] ++ rest` (pre: task commands) processed in a
    RUNNING workflow: the tasks of `pre` are created (in the order `_rearrange_commands` sorts them), the
    workflow becomes PAUSED, and the REST of the list (without its noops) is appended to the backlog -
    nothing of it is created. -/
theorem pause_command_saves_rest (sp : Spec) (w : World) (pre : List Cmd) (p : Cmd) (rest : List Cmd)
    (hw : w.wf = .RUNNING) (hpre : ∀ c ∈ pre, cmdKind c.target = .task) (hp : cmdKind p.target = .pause) :
    processX pySorter sp false w (pre ++ p :: rest) =
      { (pySort (cmdLT fun c => c.existing.isNone && (isJoin sp c.target).isSome) pre).foldl
          (dispatchOneX sp false) w with
          wf := .PAUSED,
          backlog := w.backlog ++ rest.filter (fun c => cmdKind c.target != .noop) } := by
  unfold processX
  rw [rearrange_tasks_pause _ pre p rest hpre hp, List.foldl_append, List.foldl_cons]
  simp only [pySorter_apply]
  have hpre' : ∀ c ∈ pySort (cmdLT fun c => c.existing.isNone && (isJoin sp c.target).isSome) pre,
      cmdKind c.target = .task := fun c hc => hpre c ((pySort_perm _ pre).2 c |>.mp hc)
  obtain ⟨h1, h2⟩ := foldl_tasks_running sp false _ w hw hpre'
  generalize (pySort (cmdLT fun c => c.existing.isNone && (isJoin sp c.target).isSome) pre).foldl
    (dispatchOneX sp false) w = w1 at h1 h2
  have hp1 : dispatchOneX sp false w1 p = { w1 with wf := .PAUSED } := by
    have hc : isCompleted w1.wf = false := by rw [h1]; decide
    have hq : (w1.wf == St.PAUSED) = false := by rw [h1]; decide
    simp only [dispatchOneX, hc, hq, hp, Bool.false_eq_true, if_false, h1]
    rfl
  rw [hp1, foldl_dispatchOneX_paused sp false _ { w1 with wf := .PAUSED } rfl, h2]

/-- the saved commands stay in the backlog as long as the workflow is PAUSED: no event but `resume`
    touches it (never lost while PAUSED) -/
theorem backlog_untouched_while_paused_g (srt : Sorter) (sp : Spec) (w : World) (ev : Event) (hw : w.wf = .PAUSED)
    (hev : ∀ x, ev = x → x ≠ .resume) : (stepXg srt sp w ev).backlog = w.backlog := by
  have hp : isPaused w.wf = true := by rw [hw]; decide
  have hnc : isCompleted w.wf = false := by rw [hw]; decide
  have hct : ∀ (p : List Item) (r : TaskRow) (s : St),
      (completeTaskX srt sp { w with pending := p } r s).backlog = w.backlog := by
    intro p r s
    unfold completeTaskX
    split
    · exact checkAffected_backlog sp _ _
    · rw [checkAffected_backlog]
      simp only [hp, if_true]
  cases ev with
  | resume => exact absurd rfl (hev _ rfl)
  | start => simp only [stepXg]; split <;> first | rfl | (rename_i h; rw [hw] at h; exact absurd h (by decide))
  | pause => rfl
  | stop t => rfl
  | execute t ok => simp only [stepXg]; split <;> rfl
  | deliver it =>
    simp only [stepXg]
    split
    · rfl
    · cases it with
      | postStartTask t f => rfl
      | postRunAction t => rfl
      | runAction t => rfl
      | postCheck =>
        simp only
        rw [checkAndComplete_inert _ (by simp [isPausedOrCompleted, hp])]
      | postSchedRefresh t => simp only; split <;> rfl
      | rpcStartTask t firstRun =>
        simp only
        split
        · rfl
        · split
          · split
            · rfl
            · split
              · split <;> rfl
              · exact checkAffected_backlog sp _ t
          · split
            · rfl
            · split
              · exact checkAffected_backlog sp _ t
              · split <;> rfl
      | rpcResult t ok =>
        simp only
        split
        · rfl
        · exact hct _ _ _
      | jobRefresh t =>
        simp only
        split
        · rfl
        · split
          · rfl
          · split
            · rfl
            · split
              · rfl
              · split
                · rfl
                · split
                  · split <;> rfl
                  · split
                    · unfold completeTaskX
                      split
                      · exact checkAffected_backlog sp _ _
                      · rw [checkAffected_backlog]
                        simp only [hp, if_true]
                    · rfl

theorem backlog_untouched_while_paused (sp : Spec) (w : World) (ev : Event) (hw : w.wf = .PAUSED)
    (hev : ∀ x, ev = x → x ≠ .resume) : (stepX sp w ev).backlog = w.backlog :=
  backlog_untouched_while_paused_g pySorter sp w ev hw hev

/-- one RunTask command in a RUNNING workflow, restored from the backlog or freshly calculated: `dispatchTask`
    (joins: deferred through the unique key).  REGRESSION of the finding `join-created-idle`: before
    repo_patches/32 a restored join command had lost `wait` / `unique_key` and created a plain IDLE execution
    that started at once (corpus/core/restored_join.json). -/
theorem restored_command_dispatched_like_fresh (sp : Spec) (restored : Bool) (w : World) (c : Cmd) (hw : w.wf = .RUNNING)
    (hc : cmdKind c.target = .task) (he : c.existing = none) :
    dispatchOneX sp restored w c = dispatchTask sp w c := by
  have h1 : isCompleted w.wf = false := by rw [hw]; decide
  have h2 : (w.wf == St.PAUSED) = false := by rw [hw]; decide
  simp only [dispatchOneX, h1, h2, hc, he, Bool.false_eq_true, if_false]

/-- … in particular a restored JOIN command defers: the join's execution is WAITING (new, or the existing
    one found by its unique key), never a second / IDLE one -/
theorem restored_join_defers (sp : Spec) (w : World) (c : Cmd) (k : JoinKind) (hw : w.wf = .RUNNING)
    (hj : isJoin sp c.target = some k) (hc : cmdKind c.target = .task) (he : c.existing = none) :
    dispatchOneX sp true w c = dispatchOneX sp false w c ∧
    (findKeyed w c.target = none → (dispatchOneX sp true w c).tasks = w.tasks ++ [newRow w c .WAITING]) ∧
    (∀ r, findKeyed w c.target = some r → (dispatchOneX sp true w c).tasks.length = w.tasks.length) := by
  rw [restored_command_dispatched_like_fresh sp true w c hw hc he,
      restored_command_dispatched_like_fresh sp false w c hw hc he]
  refine ⟨rfl, ?_, ?_⟩
  · intro hf
    simp [dispatchTask, hj, hf]
  · intro r hf
    simp only [dispatchTask, hj, hf]
    split <;> simp [setTask_length]

theorem foldl_restored_tasks (sp : Spec) (cs : List Cmd) :
    ∀ (w : World), w.wf = .RUNNING → (∀ c ∈ cs, cmdKind c.target = .task ∧ c.existing = none) →
      cs.foldl (dispatchOneX sp true) w = cs.foldl (dispatchTask sp) w ∧
      (cs.foldl (dispatchTask sp) w).wf = .RUNNING ∧ (cs.foldl (dispatchTask sp) w).backlog = w.backlog := by
  induction cs with
  | nil => intro w h _; exact ⟨rfl, h, rfl⟩
  | cons c cs ih =>
    intro w h hc
    obtain ⟨hk, he⟩ := hc c List.mem_cons_self
    have h1 := restored_command_dispatched_like_fresh sp true w c h hk he
    have hf := dispatchTask_frame sp w c
    obtain ⟨i1, i2, i3⟩ := ih (dispatchTask sp w c) (by rw [hf.1]; exact h)
      (fun c' hc' => hc c' (List.mem_cons_of_mem _ hc'))
    simp only [List.foldl_cons, h1]
    exact ⟨i1, i2, i3.trans hf.2⟩

/-- `backlog_restored_once`: when the backlog is polled in a RUNNING workflow (after `resume`, or at the
    next dispatch) every saved RunTask command - joins included - is handed to the dispatcher EXACTLY ONCE,
    exactly like a freshly calculated command (`dispatchTask`: a plain task gets one new execution, a join is
    deferred), in the order `_rearrange_commands` gives them (`pySort`, a rearrangement of the saved list:
    same length, same elements), and the backlog is empty afterwards: nothing is lost, nothing can be
    dispatched a second time.  (In a completed workflow the polled backlog is dropped: `dispatchX_completed` /
    `no_dispatch_into_completed`.) -/
theorem backlog_restored_once (sp : Spec) (bl : List Cmd) (w : World) (hw : w.wf = .RUNNING) (hb : w.backlog = [])
    (hbl : ∀ c ∈ bl, cmdKind c.target = .task ∧ c.existing = none) :
    processX pySorter sp true w bl = (pySort (cmdLT fun c => c.existing.isNone && (isJoin sp c.target).isSome) bl).foldl (dispatchTask sp) w ∧
    (processX pySorter sp true w bl).backlog = [] ∧ (processX pySorter sp true w bl).wf = .RUNNING ∧
    (pySort (cmdLT fun c => c.existing.isNone && (isJoin sp c.target).isSome) bl).length = bl.length ∧ (∀ c, c ∈ pySort (cmdLT fun c => c.existing.isNone && (isJoin sp c.target).isSome) bl ↔ c ∈ bl) := by
  obtain ⟨hlen, hmem⟩ := pySort_perm (cmdLT fun c => c.existing.isNone && (isJoin sp c.target).isSome) bl
  have hbl' : ∀ c ∈ pySort (cmdLT fun c => c.existing.isNone && (isJoin sp c.target).isSome) bl, cmdKind c.target = .task ∧ c.existing = none :=
    fun c hc => hbl c ((hmem c).mp hc)
  obtain ⟨h1, h2, h3⟩ := foldl_restored_tasks sp _ w hw hbl'
  have he : processX pySorter sp true w bl = (pySort (cmdLT fun c => c.existing.isNone && (isJoin sp c.target).isSome) bl).foldl (dispatchTask sp) w := by
    unfold processX
    rw [rearrange_tasks _ bl (fun c hc => (hbl c hc).1)]
    simp only [pySorter_apply]
    exact h1
  refine ⟨he, ?_, ?_, hlen, hmem⟩
  · rw [he, h3]; exact hb
  · rw [he]; exact h2

/-- … and when none of the saved commands is for a join: one new execution and one start request each -/
theorem backlog_restored_once_plain (sp : Spec) (cs : List Cmd) :
    ∀ (w : World), (∀ c ∈ cs, isJoin sp c.target = none) →
      (cs.foldl (dispatchTask sp) w).tasks.map (·.name) = w.tasks.map (·.name) ++ cs.map (·.target) ∧
      (cs.foldl (dispatchTask sp) w).pending.length = w.pending.length + cs.length := by
  induction cs with
  | nil => intro w _; simp
  | cons c cs ih =>
    intro w hc
    have hj := hc c List.mem_cons_self
    obtain ⟨i1, i2⟩ := ih (dispatchTask sp w c) (fun c' hc' => hc c' (List.mem_cons_of_mem _ hc'))
    simp only [List.foldl_cons]
    constructor
    · rw [i1]; simp [dispatchTask, hj, newRow]
    · rw [i2]; simp [dispatchTask, hj]; omega

/-! ### C10: no creation while PAUSED, engine commands included -/

/-- `Task.complete` while the workflow is PAUSED: recorded, nothing dispatched, no execution created -/
theorem completeTaskX_paused (srt : Sorter) (sp : Spec) (w : World) (r : TaskRow) (s : St) (hw : w.wf = .PAUSED) :
    ids (completeTaskX srt sp w r s) = ids w ∧ (completeTaskX srt sp w r s).wf = .PAUSED := by
  have hp : isPaused w.wf = true := by rw [hw]; decide
  unfold completeTaskX
  split
  · exact ⟨by unfold ids; rw [(checkAffected_tasks sp w _).1], by rw [(checkAffected_tasks sp w _).2]; exact hw⟩
  · simp only [hp, if_true]
    exact ⟨by unfold ids; rw [(checkAffected_tasks sp _ _).1]; simp [setTask_ids],
           by rw [(checkAffected_tasks sp _ _).2]; exact hw⟩

/-- C10 "pause creates no new tasks", engine commands included: while the workflow is PAUSED no event but
    `resume` creates a task execution - results are recorded, commands go to the backlog. -/
theorem no_creation_while_pausedX_g (srt : Sorter) (sp : Spec) (w : World) (ev : Event) (hw : w.wf = .PAUSED)
    (hev : ∀ x, ev = x → x ≠ .resume) : ids (stepXg srt sp w ev) = ids w := by
  have hp : isPaused w.wf = true := by rw [hw]; decide
  have key : ∀ (ts : List TaskRow) (p : List Item) (r : TaskRow) (s : St),
      ids (completeTaskX srt sp { w with tasks := ts, pending := p } r s) = ids { w with tasks := ts, pending := p } :=
    fun ts p r s => (completeTaskX_paused srt sp { w with tasks := ts, pending := p } r s hw).1
  cases ev with
  | resume => exact absurd rfl (hev _ rfl)
  | start => simp only [stepXg]; split <;> first | rfl | (rename_i h; rw [hw] at h; exact absurd h (by decide))
  | pause => rfl
  | stop t => rfl
  | execute t ok => simp only [stepXg]; split <;> rfl
  | deliver it =>
    simp only [stepXg]
    split
    · rfl
    · cases it with
      | postStartTask t f => rfl
      | postRunAction t => rfl
      | runAction t => rfl
      | postCheck =>
        simp only
        rw [checkAndComplete_inert _ (by simp [isPausedOrCompleted, hp])]
        rfl
      | postSchedRefresh t => simp only; split <;> rfl
      | rpcStartTask t firstRun =>
        simp only
        split
        · rfl
        · split
          · split
            · simp [ids, setTask_ids]
            · split
              · split <;> rfl
              · unfold ids; rw [(checkAffected_tasks sp _ t).1]
          · split
            · rfl
            · split
              · unfold ids; rw [(checkAffected_tasks sp _ t).1]
              · split
                · rfl
                · simp [ids, setTask_ids]
      | rpcResult t ok =>
        simp only
        split
        · rfl
        · exact key w.tasks _ _ _
      | jobRefresh t =>
        simp only
        split
        · rfl
        · split
          · rfl
          · split
            · rfl
            · split
              · rfl
              · split
                · rfl
                · split
                  · split <;> simp [ids, setTask_ids]
                  · split
                    · rw [key]
                      simp [ids, setTask_ids]
                    · simp [ids, setTask_ids]

theorem no_creation_while_pausedX (sp : Spec) (w : World) (ev : Event) (hw : w.wf = .PAUSED)
    (hev : ∀ x, ev = x → x ≠ .resume) : ids (stepX sp w ev) = ids w :=
  no_creation_while_pausedX_g pySorter sp w ev hw hev

/-! non-vacuity: the seeded scenario (corpus/core/backlog_after_stop.json) -/

/-- a: on-success: [pause, x];  b;  x -/
def bSpec : Spec :=
  { graph := { tasks := [⟨"a", none, ["pause", "x"], [], [], []⟩, ⟨"b", none, [], [], [], []⟩, ⟨"x", none, [], [], [], []⟩],
               defaults := none },
    live := [⟨"a", ["pause", "x"], [], []⟩, ⟨"b", [], [], []⟩, ⟨"x", [], [], []⟩] }

/-- a completes (pause command: PAUSED, x saved to the backlog), b's result still in flight -/
def bPaused : World :=
  runX bSpec [.start, .deliver (.postStartTask ("b", 0) true), .deliver (.postStartTask ("a", 0) true),
    .deliver (.rpcStartTask ("b", 0) true), .deliver (.rpcStartTask ("a", 0) true),
    .deliver (.postRunAction ("b", 0)), .deliver (.postRunAction ("a", 0)),
    .execute ("b", 0) true, .execute ("a", 0) true, .deliver (.rpcResult ("a", 0) true)]

/-- `pause_command_saves_rest` happened: PAUSED, x in the backlog, no execution of x -/
example : bPaused.wf = .PAUSED ∧ bPaused.backlog.map (·.target) = ["x"] ∧ ids bPaused = [("b", 0), ("a", 0)] ∧
    bPaused.pending = [.rpcResult ("b", 0) true] := by decide +kernel

/-- stop ERROR while PAUSED, then the late result of b: the backlog is polled and DROPPED, x is never created
    (`no_dispatch_into_completed`); the seeded change C11-r2 creates x here -/
example : let w := stepX bSpec (stepX bSpec bPaused (.stop .ERROR)) (.deliver (.rpcResult ("b", 0) true))
    w.wf = .ERROR ∧ ids w = [("b", 0), ("a", 0)] ∧ w.backlog = [] := by decide +kernel

/-- … whereas after `resume` x is created exactly once (`backlog_restored_once`) -/
example : let w := stepX bSpec bPaused .resume
    w.wf = .RUNNING ∧ ids w = [("b", 0), ("a", 0), ("x", 0)] ∧ w.backlog = [] := by decide +kernel

end Mistral.Props.C11X
