/-
C11 / C10 over the engine core WITH ENGINE COMMANDS (`Mistral.Engine.stepX`, Model/EngineX.lean; tied to
the real engine after every event by the `core` stream, whose programs carry fail / succeed / pause /
noop in their on-clauses).

C11 "No new task is created in a stopped workflow afterwards … and results of actions that were still
     running or about to start do not change its state" - INCLUDING through the command backlog:
     commands saved by a `pause` engine command (or while PAUSED) are restored by
     `dispatch_workflow_commands` on every dispatch; in a completed workflow they are polled and DROPPED.
C10 "pause creates no new tasks": the commands after a `pause` command go to the backlog, nothing of
     them is created; they stay there while PAUSED; after `resume` each of them is dispatched exactly once.
-/
import Mistral.Lemmas.EngineX
namespace Mistral.Props.C11X
open Mistral Mistral.Engine Mistral.Join Mistral.Lifecycle

theorem completed_not_paused_or_idle (s : St) (h : isCompleted s = true) :
    isPausedOrIdle s = false ∧ isPaused s = false ∧ s ≠ .IDLE := by
  cases s <;> simp_all [isCompleted, Gen.States.completedStates] <;> decide

theorem checkAffected_backlog (sp : Spec) (w : World) (t : Tid) : (checkAffected sp w t).backlog = w.backlog := by
  unfold checkAffected
  split
  · rfl
  · split
    · rfl
    · split <;> rfl

/-- `Task.complete` in a completed workflow: no task is created, the workflow state stays; the backlog
    is polled by the dispatcher and dropped -/
theorem completeTaskX_completed (sp : Spec) (w : World) (r : TaskRow) (s : St) (hc : isCompleted w.wf = true) :
    ids (completeTaskX sp w r s) = ids w ∧ (completeTaskX sp w r s).wf = w.wf ∧
      ((completeTaskX sp w r s).backlog = w.backlog ∨ (completeTaskX sp w r s).backlog = []) := by
  obtain ⟨_, hp, _⟩ := completed_not_paused_or_idle w.wf hc
  unfold completeTaskX
  split
  · refine ⟨?_, (checkAffected_tasks sp w _).2, Or.inl (checkAffected_backlog sp w _)⟩
    unfold ids; rw [(checkAffected_tasks sp w _).1]
  · simp only [hc, if_true, hp, Bool.false_eq_true, if_false, List.filter_nil, List.isEmpty_nil, List.map_nil]
    have hd : ∀ (ts : List TaskRow) (p : List Item),
        dispatchX sp { w with tasks := ts, pending := p } [] = { w with tasks := ts, pending := p, backlog := [] } :=
      fun ts p => dispatchX_completed sp { w with tasks := ts, pending := p } [] hc
    refine ⟨?_, ?_, Or.inr ?_⟩
    · unfold ids
      rw [(checkAffected_tasks sp _ _).1, hd]
      simp [setTask_ids]
    · rw [(checkAffected_tasks sp _ _).2, hd]
    · rw [checkAffected_backlog, hd]

/-- `no_dispatch_into_completed`, one step, EVERY world: once the workflow is in a final state no event -
    late result, start request, refresh job, completion check, duplicate, pause / resume / stop command -
    creates a task execution or changes the workflow state, also not through the backlog: the commands saved
    there are never dispatched any more (the backlog is left alone or polled and dropped). -/
theorem no_dispatch_into_completed (sp : Spec) (w : World) (ev : Event) (hc : isCompleted w.wf = true) :
    ids (stepX sp w ev) = ids w ∧ (stepX sp w ev).wf = w.wf ∧
      ((stepX sp w ev).backlog = w.backlog ∨ (stepX sp w ev).backlog = []) := by
  obtain ⟨hpi, hp, hidle⟩ := completed_not_paused_or_idle w.wf hc
  cases ev with
  | start =>
    have : (w.wf != .IDLE) = true := by simpa using hidle
    simp [stepX, this]
  | pause =>
    refine ⟨by simp [stepX, ids], ?_, Or.inl rfl⟩
    cases hw : w.wf <;> simp_all [stepX, isCompleted, Gen.States.completedStates] <;> decide
  | resume => simp [stepX, hpi]
  | stop t =>
    refine ⟨by simp [stepX, ids], ?_, Or.inl rfl⟩
    simp only [stepX]
    cases hw : w.wf <;> simp_all [isCompleted, Gen.States.completedStates] <;> cases t <;> decide
  | execute t ok => simp only [stepX]; split <;> exact ⟨rfl, rfl, Or.inl rfl⟩
  | deliver it =>
    simp only [stepX]
    split
    · exact ⟨rfl, rfl, Or.inl rfl⟩
    · cases it with
      | postStartTask t f => exact ⟨rfl, rfl, Or.inl rfl⟩
      | postRunAction t => exact ⟨rfl, rfl, Or.inl rfl⟩
      | runAction t => exact ⟨rfl, rfl, Or.inl rfl⟩
      | postCheck =>
        simp only
        rw [checkAndComplete_inert _ (by simp [isPausedOrCompleted, hc])]
        exact ⟨rfl, rfl, Or.inl rfl⟩
      | postSchedRefresh t => simp only; split <;> exact ⟨rfl, rfl, Or.inl rfl⟩
      | rpcStartTask t firstRun =>
        simp only
        split
        · exact ⟨rfl, rfl, Or.inl rfl⟩
        · split
          · split
            · exact ⟨by simp [ids, setTask_ids], rfl, Or.inl rfl⟩
            · split
              · split <;> exact ⟨rfl, rfl, Or.inl rfl⟩
              · exact ⟨by unfold ids; rw [(checkAffected_tasks sp _ t).1], by rw [(checkAffected_tasks sp _ t).2],
                  Or.inl (checkAffected_backlog sp _ t)⟩
          · split
            · exact ⟨rfl, rfl, Or.inl rfl⟩
            · split
              · exact ⟨rfl, rfl, Or.inl rfl⟩
              · split
                · exact ⟨rfl, rfl, Or.inl rfl⟩
                · exact ⟨by simp [ids, setTask_ids], rfl, Or.inl rfl⟩
      | rpcResult t ok =>
        simp only
        split
        · exact ⟨rfl, rfl, Or.inl rfl⟩
        · rename_i r _
          exact completeTaskX_completed sp { w with pending := removeFirst w.pending (.rpcResult t ok) } r _ hc
      | jobRefresh t =>
        simp only
        split
        · exact ⟨rfl, rfl, Or.inl rfl⟩
        · rename_i r _
          split
          · exact ⟨rfl, rfl, Or.inl rfl⟩
          · have : isCompleted w.wf = true := hc
            simp [this, ids]

/-- … hence along EVERY history: from the moment the workflow is completed the set of task executions and
    the workflow state never change again, whatever is in the backlog -/
theorem no_dispatch_into_completed_reachable (sp : Spec) (evs evs' : List Event)
    (hc : isCompleted (runX sp evs).wf = true) :
    ids (evs'.foldl (stepX sp) (runX sp evs)) = ids (runX sp evs) ∧
    (evs'.foldl (stepX sp) (runX sp evs)).wf = (runX sp evs).wf := by
  generalize runX sp evs = w at hc
  induction evs' generalizing w with
  | nil => exact ⟨rfl, rfl⟩
  | cons e es ih =>
    obtain ⟨h1, h2, _⟩ := no_dispatch_into_completed sp w e hc
    have hc' : isCompleted (stepX sp w e).wf = true := by rw [h2]; exact hc
    obtain ⟨h3, h4⟩ := ih (stepX sp w e) hc'
    exact ⟨h3.trans h1, h4.trans h2⟩

/-! ### the `pause` engine command and the backlog -/

/-- `pause_command_saves_rest`: a command list `pre ++ [pause] ++ rest` (pre: task commands) processed in a
    RUNNING workflow: the tasks of `pre` are created (in the order `_rearrange_commands` sorts them), the
    workflow becomes PAUSED, and the REST of the list (without its noops) is appended to the backlog -
    nothing of it is created. -/
theorem pause_command_saves_rest (sp : Spec) (w : World) (pre : List Cmd) (p : Cmd) (rest : List Cmd)
    (hw : w.wf = .RUNNING) (hpre : ∀ c ∈ pre, cmdKind c.target = .task) (hp : cmdKind p.target = .pause) :
    processX sp false w (pre ++ p :: rest) =
      { (pySort (cmdLT fun c => !false && c.existing.isNone && (isJoin sp c.target).isSome) pre).foldl
          (dispatchOneX sp false) w with
          wf := .PAUSED,
          backlog := w.backlog ++ rest.filter (fun c => cmdKind c.target != .noop) } := by
  unfold processX
  rw [rearrange_tasks_pause _ pre p rest hpre hp, List.foldl_append, List.foldl_cons]
  have hpre' : ∀ c ∈ pySort (cmdLT fun c => !false && c.existing.isNone && (isJoin sp c.target).isSome) pre,
      cmdKind c.target = .task := fun c hc => hpre c ((pySort_perm _ pre).2 c |>.mp hc)
  obtain ⟨h1, h2⟩ := foldl_tasks_running sp false _ w hw hpre'
  generalize (pySort (cmdLT fun c => !false && c.existing.isNone && (isJoin sp c.target).isSome) pre).foldl
    (dispatchOneX sp false) w = w1 at h1 h2
  have hp1 : dispatchOneX sp false w1 p = { w1 with wf := .PAUSED } := by
    have hc : isCompleted w1.wf = false := by rw [h1]; decide
    have hq : (w1.wf == St.PAUSED) = false := by rw [h1]; decide
    simp only [dispatchOneX, hc, hq, hp, Bool.false_eq_true, if_false, h1]
    rfl
  rw [hp1, foldl_dispatchOneX_paused sp false _ { w1 with wf := .PAUSED } rfl, h2]

/-- the saved commands stay in the backlog as long as the workflow is PAUSED: no event but `resume`
    touches it (never lost while PAUSED) -/
theorem backlog_untouched_while_paused (sp : Spec) (w : World) (ev : Event) (hw : w.wf = .PAUSED)
    (hev : ∀ x, ev = x → x ≠ .resume) : (stepX sp w ev).backlog = w.backlog := by
  have hp : isPaused w.wf = true := by rw [hw]; decide
  have hnc : isCompleted w.wf = false := by rw [hw]; decide
  have hct : ∀ (p : List Item) (r : TaskRow) (s : St),
      (completeTaskX sp { w with pending := p } r s).backlog = w.backlog := by
    intro p r s
    unfold completeTaskX
    split
    · exact checkAffected_backlog sp _ _
    · rw [checkAffected_backlog]
      simp only [hp, if_true]
  cases ev with
  | resume => exact absurd rfl (hev _ rfl)
  | start => simp only [stepX]; split <;> first | rfl | (rename_i h; rw [hw] at h; exact absurd h (by decide))
  | pause => rfl
  | stop t => rfl
  | execute t ok => simp only [stepX]; split <;> rfl
  | deliver it =>
    simp only [stepX]
    split
    · rfl
    · cases it with
      | postStartTask t f => rfl
      | postRunAction t => rfl
      | runAction t => rfl
      | postCheck =>
        simp only
        rw [checkAndComplete_inert _ (by simp [isPausedOrCompleted, hp])]
      | postSchedRefresh t => simp only; split <;> rfl
      | rpcStartTask t firstRun =>
        simp only
        split
        · rfl
        · split
          · split
            · rfl
            · split
              · split <;> rfl
              · exact checkAffected_backlog sp _ t
          · split
            · rfl
            · split
              · rfl
              · split <;> rfl
      | rpcResult t ok =>
        simp only
        split
        · rfl
        · exact hct _ _ _
      | jobRefresh t =>
        simp only
        split
        · rfl
        · split
          · rfl
          · split
            · rfl
            · split
              · rfl
              · split
                · rfl
                · split
                  · split <;> rfl
                  · split
                    · unfold completeTaskX
                      split
                      · exact checkAffected_backlog sp _ _
                      · rw [checkAffected_backlog]
                        simp only [hp, if_true]
                    · rfl

/-- `backlog_restored_once`: when the backlog is polled in a RUNNING workflow (after `resume`, or at the
    next dispatch) every saved task command is dispatched EXACTLY ONCE - one new execution and one start
    request per saved command (in the order `_rearrange_commands` gives them) - and the backlog is empty
    afterwards: nothing is lost, nothing can be dispatched a second time.  (In a completed workflow the
    polled backlog is dropped: `dispatchX_completed` / `no_dispatch_into_completed`.) -/
theorem backlog_restored_once (sp : Spec) (bl : List Cmd) (w : World) (hw : w.wf = .RUNNING) (hb : w.backlog = [])
    (hbl : ∀ c ∈ bl, cmdKind c.target = .task) :
    (processX sp true w bl).backlog = [] ∧ (processX sp true w bl).wf = .RUNNING ∧
    (processX sp true w bl).tasks.map (·.name) =
      w.tasks.map (·.name) ++
        (pySort (cmdLT fun c => !true && c.existing.isNone && (isJoin sp c.target).isSome) bl).map (·.target) ∧
    (processX sp true w bl).tasks.length = w.tasks.length + bl.length ∧
    (processX sp true w bl).pending.length = w.pending.length + bl.length := by
  unfold processX
  rw [rearrange_tasks _ bl hbl]
  obtain ⟨hlen, hmem⟩ := pySort_perm (cmdLT fun c => !true && c.existing.isNone && (isJoin sp c.target).isSome) bl
  have hbl' : ∀ c ∈ pySort (cmdLT fun c => !true && c.existing.isNone && (isJoin sp c.target).isSome) bl,
      cmdKind c.target = .task := fun c hc => hbl c ((hmem c).mp hc)
  rw [← hlen]
  generalize pySort (cmdLT fun c => !true && c.existing.isNone && (isJoin sp c.target).isSome) bl = cs at hbl'
  clear hlen hmem hbl
  induction cs generalizing w with
  | nil => exact ⟨hb, hw, by simp, by simp, by simp⟩
  | cons c cs ih =>
    have hc := hbl' c List.mem_cons_self
    have h1 : isCompleted w.wf = false := by rw [hw]; decide
    have h2 : (w.wf == St.PAUSED) = false := by rw [hw]; decide
    have hstep : dispatchOneX sp true w c = dispatchPlain w c := by
      simp only [dispatchOneX, h1, h2, hc, Bool.false_eq_true, if_false, if_true]
    simp only [List.foldl_cons, hstep]
    obtain ⟨i1, i2, i3, i4, i5⟩ := ih (dispatchPlain w c) hw hb (fun c' hc' => hbl' c' (List.mem_cons_of_mem _ hc'))
    refine ⟨i1, i2, ?_, ?_, ?_⟩
    · rw [i3]; simp [dispatchPlain, newRow]
    · rw [i4]; simp [dispatchPlain]; omega
    · rw [i5]; simp [dispatchPlain]; omega

/-- FINDING (known, `join-created-idle`): a RunTask command restored from the backlog has lost its `wait`
    flag and its unique key (commands.restore_command_from_dict): for a JOIN target too it creates an
    ordinary IDLE execution without unique key - which `start_task` runs at once, without the join condition
    being checked - instead of deferring to the join's WAITING execution.  Real engine = model after every
    event: corpus/core/restored_join.json. -/
theorem restored_join_is_plain (sp : Spec) (w : World) (c : Cmd) (k : JoinKind) (hw : w.wf = .RUNNING)
    (_hj : isJoin sp c.target = some k) (hc : cmdKind c.target = .task) :
    dispatchOneX sp true w c = dispatchPlain w c ∧
    (dispatchPlain w c).tasks = w.tasks ++ [{ newRow w c .IDLE with keyed := false }] := by
  have h1 : isCompleted w.wf = false := by rw [hw]; decide
  have h2 : (w.wf == St.PAUSED) = false := by rw [hw]; decide
  exact ⟨by simp only [dispatchOneX, h1, h2, hc, Bool.false_eq_true, if_false, if_true], rfl⟩

/-! ### C10: no creation while PAUSED, engine commands included -/

/-- `Task.complete` while the workflow is PAUSED: recorded, nothing dispatched, no execution created -/
theorem completeTaskX_paused (sp : Spec) (w : World) (r : TaskRow) (s : St) (hw : w.wf = .PAUSED) :
    ids (completeTaskX sp w r s) = ids w ∧ (completeTaskX sp w r s).wf = .PAUSED := by
  have hp : isPaused w.wf = true := by rw [hw]; decide
  unfold completeTaskX
  split
  · exact ⟨by unfold ids; rw [(checkAffected_tasks sp w _).1], by rw [(checkAffected_tasks sp w _).2]; exact hw⟩
  · simp only [hp, if_true]
    exact ⟨by unfold ids; rw [(checkAffected_tasks sp _ _).1]; simp [setTask_ids],
           by rw [(checkAffected_tasks sp _ _).2]; exact hw⟩

/-- C10 "pause creates no new tasks", engine commands included: while the workflow is PAUSED no event but
    `resume` creates a task execution - results are recorded, commands go to the backlog. -/
theorem no_creation_while_pausedX (sp : Spec) (w : World) (ev : Event) (hw : w.wf = .PAUSED)
    (hev : ∀ x, ev = x → x ≠ .resume) : ids (stepX sp w ev) = ids w := by
  have hp : isPaused w.wf = true := by rw [hw]; decide
  have key : ∀ (ts : List TaskRow) (p : List Item) (r : TaskRow) (s : St),
      ids (completeTaskX sp { w with tasks := ts, pending := p } r s) = ids { w with tasks := ts, pending := p } :=
    fun ts p r s => (completeTaskX_paused sp { w with tasks := ts, pending := p } r s hw).1
  cases ev with
  | resume => exact absurd rfl (hev _ rfl)
  | start => simp only [stepX]; split <;> first | rfl | (rename_i h; rw [hw] at h; exact absurd h (by decide))
  | pause => rfl
  | stop t => rfl
  | execute t ok => simp only [stepX]; split <;> rfl
  | deliver it =>
    simp only [stepX]
    split
    · rfl
    · cases it with
      | postStartTask t f => rfl
      | postRunAction t => rfl
      | runAction t => rfl
      | postCheck =>
        simp only
        rw [checkAndComplete_inert _ (by simp [isPausedOrCompleted, hp])]
        rfl
      | postSchedRefresh t => simp only; split <;> rfl
      | rpcStartTask t firstRun =>
        simp only
        split
        · rfl
        · split
          · split
            · simp [ids, setTask_ids]
            · split
              · split <;> rfl
              · unfold ids; rw [(checkAffected_tasks sp _ t).1]
          · split
            · rfl
            · split
              · rfl
              · split
                · rfl
                · simp [ids, setTask_ids]
      | rpcResult t ok =>
        simp only
        split
        · rfl
        · exact key w.tasks _ _ _
      | jobRefresh t =>
        simp only
        split
        · rfl
        · split
          · rfl
          · split
            · rfl
            · split
              · rfl
              · split
                · rfl
                · split
                  · split <;> simp [ids, setTask_ids]
                  · split
                    · rw [key]
                      simp [ids, setTask_ids]
                    · simp [ids, setTask_ids]

/-! non-vacuity: the seeded scenario (corpus/core/backlog_after_stop.json) -/

/-- a: on-success: [pause, x];  b;  x -/
def bSpec : Spec :=
  { graph := { tasks := [⟨"a", none, ["pause", "x"], [], [], []⟩, ⟨"b", none, [], [], [], []⟩, ⟨"x", none, [], [], [], []⟩],
               defaults := none },
    live := [⟨"a", ["pause", "x"], [], []⟩, ⟨"b", [], [], []⟩, ⟨"x", [], [], []⟩] }

/-- a completes (pause command: PAUSED, x saved to the backlog), b's result still in flight -/
def bPaused : World :=
  runX bSpec [.start, .deliver (.postStartTask ("b", 0) true), .deliver (.postStartTask ("a", 0) true),
    .deliver (.rpcStartTask ("b", 0) true), .deliver (.rpcStartTask ("a", 0) true),
    .deliver (.postRunAction ("b", 0)), .deliver (.postRunAction ("a", 0)),
    .execute ("b", 0) true, .execute ("a", 0) true, .deliver (.rpcResult ("a", 0) true)]

/-- `pause_command_saves_rest` happened: PAUSED, x in the backlog, no execution of x -/
example : bPaused.wf = .PAUSED ∧ bPaused.backlog.map (·.target) = ["x"] ∧ ids bPaused = [("b", 0), ("a", 0)] ∧
    bPaused.pending = [.rpcResult ("b", 0) true] := by decide +kernel

/-- stop ERROR while PAUSED, then the late result of b: the backlog is polled and DROPPED, x is never created
    (`no_dispatch_into_completed`); the seeded change C11-r2 creates x here -/
example : let w := stepX bSpec (stepX bSpec bPaused (.stop .ERROR)) (.deliver (.rpcResult ("b", 0) true))
    w.wf = .ERROR ∧ ids w = [("b", 0), ("a", 0)] ∧ w.backlog = [] := by decide +kernel

/-- … whereas after `resume` x is created exactly once (`backlog_restored_once`) -/
example : let w := stepX bSpec bPaused .resume
    w.wf = .RUNNING ∧ ids w = [("b", 0), ("a", 0), ("x", 0)] ∧ w.backlog = [] := by decide +kernel

end Mistral.Props.C11X
