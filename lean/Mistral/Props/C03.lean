/-
C03 — Execution lifecycle is respected and finished results are final.
The transition table is regenerated from mistral/workflow/states.py on every run
(Mistral/Gen/States.lean); the guard model (Mistral/Model/Lifecycle.lean) is tied to the
engine by the exhaustive `lifecycle` stream (every state x every operation on the real code).
-/
import Mistral.Model.Lifecycle
import Mistral.Lemmas.Engine

namespace Mistral.Props.C03
open Mistral Mistral.Lifecycle Mistral.Gen.States

/-- The generated table allows, for the states a workflow execution can be in, only the
    documented workflow moves plus the task-only extras IDLE→ERROR|CANCELLED and
    RUNNING→DELAYED, ERROR→SKIPPED (never requested for a workflow, see `wf_moves_ok`), and
    the rerun moves ERROR|CANCELLED→RUNNING.  Adding any other transition breaks this. -/
theorem table_within_documented :
    ∀ a ∈ St.all, ∀ b ∈ St.all, wfState a = true → isValidTransition a b = some true → a ≠ b →
      documentedMove a b = true ∨ rerunMove a b = true ∨
      (a = .IDLE ∧ (b = .ERROR ∨ b = .CANCELLED)) ∨ (a = .RUNNING ∧ b = .DELAYED) ∨
      (a = .ERROR ∧ b = .SKIPPED) := by
  decide

/-- "SUCCESS is never left": the table has no successor for SUCCESS. -/
theorem table_success_terminal : ∀ b ∈ St.all, b ≠ .SUCCESS → isValidTransition .SUCCESS b = some false := by
  decide

/-- "A workflow execution only moves IDLE→RUNNING, RUNNING→PAUSED/SUCCESS/ERROR/CANCELLED,
    PAUSED→RUNNING/ERROR/CANCELLED, and leaves ERROR or CANCELLED only through an explicit
    rerun": every operation, from every workflow state, either leaves the state alone or makes
    a documented move; ERROR/CANCELLED → RUNNING happens only for `rerun` (or a `resume`/
    `start` that the engine never issues on a finished execution — excluded by hypothesis). -/
theorem wf_moves_ok (s : St) (op : WfOp) (hs : wfState s = true)
    (hstop : ∀ t, op = .stop t → t = .SUCCESS ∨ t = .ERROR ∨ t = .CANCELLED ∨ t = .PAUSED ∨ t = .RUNNING)
    (hstart : op = .start → s = .IDLE)
    -- an execution is IDLE only inside the transaction that creates and starts it (the engine
    -- stream checks that no committed workflow row is ever IDLE)
    (hidle : s = .IDLE → op = .start) :
    let s' := (wfApply s op).1
    s' = s ∨ documentedMove s s' = true ∨ (op = .rerun ∧ rerunMove s s' = true) := by
  cases s <;> simp [wfState] at hs <;> cases op <;> simp_all <;> first
    | decide
    | (rename_i t; cases t <;> simp_all <;> decide)
    | (rename_i o; cases o <;> decide)

/-- SUCCESS is absorbing for a workflow execution under every operation. -/
theorem success_absorbing_wf (op : WfOp) : (wfApply .SUCCESS op).1 = .SUCCESS := by
  cases op <;> first | decide | (rename_i t; cases t <;> decide)

/-- "once a workflow is finished its state … [is] not altered by results or timers that
    arrive late": every operation other than rerun leaves a finished state unchanged. -/
theorem finished_wf_frozen (s : St) (op : WfOp) (hf : s = .SUCCESS ∨ s = .ERROR ∨ s = .CANCELLED)
    (hop : op ≠ .rerun) (hstart : op ≠ .start) (hres : op ≠ .resume) :
    (wfApply s op).1 = s := by
  rcases hf with h | h | h <;> subst h <;> cases op <;> simp_all <;> first
    | decide
    | (rename_i t; cases t <;> decide)

/-- "An action execution's result is accepted at most once": over any sequence of result
    deliveries, at most one is accepted (changes the row); every later one is rejected and
    leaves the row as it is. -/
theorem action_accepted_once (a : ActionSt) (r1 r2 : ResultKind) :
    let (a1, res1) := actionComplete a r1
    res1 = .changed → actionComplete a1 r2 = (a1, .undeclaredError) := by
  simp only
  intro h
  unfold actionComplete at *
  by_cases hc : isCompleted a.state = true
  · simp [hc] at h
  · simp only [hc]
    cases r1 <;> simp [resultState] <;> decide

theorem action_results_fold (a : ActionSt) (rs : List ResultKind) :
    ((rs.foldl (fun (p : ActionSt × Nat) r =>
        let (a', res) := actionComplete p.1 r
        (a', if res = .changed then p.2 + 1 else p.2)) (a, 0)).2) ≤ 1 := by
  suffices h : ∀ (rs : List ResultKind) (a : ActionSt) (n : Nat),
      (rs.foldl (fun (p : ActionSt × Nat) r =>
        let (a', res) := actionComplete p.1 r
        (a', if res = .changed then p.2 + 1 else p.2)) (a, n)).2 ≤ (if isCompleted a.state then n else n + 1) by
    have := h rs a 0
    split at this <;> omega
  intro rs
  induction rs with
  | nil => intro a n; simp; split <;> omega
  | cons r rest ih =>
    intro a n
    simp only [List.foldl_cons]
    by_cases hc : isCompleted a.state = true
    · have : actionComplete a r = (a, .undeclaredError) := by simp [actionComplete, hc]
      simp only [this]
      have := ih a n
      simpa [hc] using this
    · have hcf : isCompleted a.state = false := by simpa using hc
      have h2 : actionComplete a r = ({ state := resultState r, accepted := true }, .changed) := by
        simp [actionComplete, hcf]
      simp only [h2]
      have h3 : isCompleted (resultState r) = true := by cases r <;> decide
      have := ih { state := resultState r, accepted := true } (n + 1)
      simp only [h3] at this
      simpa [hcf] using this

/-- "a task that reached SUCCESS never changes state again": completion handling and external
    updates ignore a completed task. -/
theorem task_success_final_partial (op : TaskOp)
    (h : (∃ t, op = .complete t ∧ t ≠ .SKIPPED) ∨ (∃ t, op = .update t)) :
    (taskApply .SUCCESS op).1 = .SUCCESS := by
  rcases h with ⟨t, rfl, ht⟩ | ⟨t, rfl⟩
  · cases t <;> simp_all <;> decide
  · cases t <;> decide

/-- The full statement (for every task operation) is FALSE of the code: `Task.defer`, which
    runs whenever a further inbound branch routes to an existing join execution, resets the
    join to WAITING whatever its state — also from SUCCESS (known finding: a partial join
    `join: one|N` is re-run by late branches). -/
theorem task_success_final_full_fails : ¬ (∀ op : TaskOp, (taskApply .SUCCESS op).1 = .SUCCESS) := by
  intro h
  have := h .defer
  revert this
  decide


/-! ### engine level (Mistral.Engine, tied by the `core` stream) -/
/-- one compare-and-swap on the workflow state, or none -/
def moveOrStay (a b : St) : Prop := b = a ∨ documentedMove a b = true

instance (a b : St) : Decidable (moveOrStay a b) := by unfold moveOrStay; exact inferInstance

open Mistral.Engine in
/-- In every step of the engine — whatever message, job, result or operator command is
    processed — the state of a started workflow execution changes by at most two documented
    moves (two only for `resume` of a workflow whose tasks all finished while it was paused:
    PAUSED → RUNNING → final verdict, two compare-and-swaps in one transaction).  No rerun
    exists in this layer, so ERROR / CANCELLED / SUCCESS are never left. -/
theorem wf_moves_ok_engine (sp : Spec) (w : World) (ev : Event) (h : StartedWf w.wf) :
    ∃ mid, moveOrStay w.wf mid ∧ moveOrStay mid (step sp w ev).wf := by
  rcases step_wf sp w ev with h0 | ⟨_, hi, _⟩ | ⟨_, hp⟩ | ⟨t, _, hs⟩ | ⟨_, hpi, hr⟩ | ⟨_, hnc, hc⟩
  · exact ⟨w.wf, Or.inl rfl, Or.inl h0⟩
  · have : ¬ StartedWf St.IDLE := by decide
    exact absurd (hi ▸ h) this
  · refine ⟨w.wf, Or.inl rfl, ?_⟩
    rw [hp]
    rcases h with h | h | h | h | h <;> rw [h] <;> decide
  · refine ⟨w.wf, Or.inl rfl, ?_⟩
    rw [hs]
    rcases h with h | h | h | h | h <;> rw [h] <;> cases t <;> decide
  · have hpa : w.wf = .PAUSED := by
      rcases h with h | h | h | h | h <;> rw [h] at hpi ⊢ <;> first | rfl | (revert hpi; decide)
    refine ⟨.RUNNING, by rw [hpa]; decide, ?_⟩
    rcases hr with hr | hr | hr | hr <;> rw [hr] <;> decide
  · have hrun : w.wf = .RUNNING := by
      rcases h with h | h | h | h | h <;> rw [h] at hnc ⊢ <;> first | rfl | (revert hnc; decide)
    refine ⟨w.wf, Or.inl rfl, ?_⟩
    rw [hrun]
    rcases hc with hc | hc | hc <;> rw [hc] <;> decide

theorem moveOrStay_started (a b : St) (h : Mistral.Engine.StartedWf a) (hm : moveOrStay a b) :
    Mistral.Engine.StartedWf b := by
  rcases hm with rfl | hm
  · exact h
  · revert hm
    rcases h with h | h | h | h | h <;> rw [h] <;> cases b <;> simp [documentedMove, Mistral.Engine.StartedWf]

open Mistral.Engine in
theorem started_preserved (sp : Spec) (w : World) (ev : Event) (h : StartedWf w.wf) :
    StartedWf (step sp w ev).wf := by
  obtain ⟨mid, h1, h2⟩ := wf_moves_ok_engine sp w ev h
  exact moveOrStay_started _ _ (moveOrStay_started _ _ h h1) h2

open Mistral.Engine in
/-- … and therefore along EVERY history of a started execution (induction over the event
    list) each individual state change is a documented move. -/
theorem wf_moves_ok_reachable (sp : Spec) (evs : List Event) (ev : Event) :
    let w := evs.foldl (step sp) (step sp init .start)
    StartedWf w.wf ∧ ∃ mid, moveOrStay w.wf mid ∧ moveOrStay mid (step sp w ev).wf := by
  have hstart : StartedWf (step sp init .start).wf := by
    simp only [step, init]
    simp [dispatch_wf, StartedWf]
  have hall : ∀ (evs : List Event) (w0 : World), StartedWf w0.wf → StartedWf (evs.foldl (step sp) w0).wf := by
    intro evs
    induction evs with
    | nil => intro w0 h; exact h
    | cons e rest ih => intro w0 h; exact ih _ (started_preserved sp w0 e h)
  exact ⟨hall evs _ hstart, wf_moves_ok_engine sp _ ev (hall evs _ hstart)⟩

open Mistral.Engine in
/-- SUCCESS is never left, at engine level, by any event. -/
theorem success_never_left_engine (sp : Spec) (w : World) (ev : Event) (h : w.wf = .SUCCESS) :
    (step sp w ev).wf = .SUCCESS := by
  obtain ⟨mid, h1, h2⟩ := wf_moves_ok_engine sp w ev (by simp [StartedWf, h])
  rw [h] at h1
  have hm : mid = .SUCCESS := by
    rcases h1 with h1 | h1
    · exact h1
    · revert h1; cases mid <;> simp [documentedMove]
  rw [hm] at h2
  rcases h2 with h2 | h2
  · exact h2
  · revert h2; cases (step sp w ev).wf <;> simp [documentedMove]

end Mistral.Props.C03
