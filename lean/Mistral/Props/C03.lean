/-
C03 — Execution lifecycle is respected and finished results are final.
The transition table is regenerated from mistral/workflow/states.py on every run
(Mistral/Gen/States.lean); the guard model (Mistral/Model/Lifecycle.lean) is tied to the
engine by the exhaustive `lifecycle` stream (every state x every operation on the real code).
-/
import Mistral.Model.Lifecycle

namespace Mistral.Props.C03
open Mistral Mistral.Lifecycle Mistral.Gen.States

/-- The generated table allows, for the states a workflow execution can be in, only the
    documented workflow moves plus the task-only extras IDLE→ERROR|CANCELLED and
    RUNNING→DELAYED, ERROR→SKIPPED (never requested for a workflow, see `wf_moves_ok`), and
    the rerun moves ERROR|CANCELLED→RUNNING.  Adding any other transition breaks this. -/
theorem table_within_documented :
    ∀ a ∈ St.all, ∀ b ∈ St.all, wfState a = true → isValidTransition a b = some true → a ≠ b →
      documentedMove a b = true ∨ rerunMove a b = true ∨
      (a = .IDLE ∧ (b = .ERROR ∨ b = .CANCELLED)) ∨ (a = .RUNNING ∧ b = .DELAYED) ∨
      (a = .ERROR ∧ b = .SKIPPED) := by
  decide

/-- "SUCCESS is never left": the table has no successor for SUCCESS. -/
theorem table_success_terminal : ∀ b ∈ St.all, b ≠ .SUCCESS → isValidTransition .SUCCESS b = some false := by
  decide

/-- "A workflow execution only moves IDLE→RUNNING, RUNNING→PAUSED/SUCCESS/ERROR/CANCELLED,
    PAUSED→RUNNING/ERROR/CANCELLED, and leaves ERROR or CANCELLED only through an explicit
    rerun": every operation, from every workflow state, either leaves the state alone or makes
    a documented move; ERROR/CANCELLED → RUNNING happens only for `rerun` (or a `resume`/
    `start` that the engine never issues on a finished execution — excluded by hypothesis). -/
theorem wf_moves_ok (s : St) (op : WfOp) (hs : wfState s = true)
    (hstop : ∀ t, op = .stop t → t = .SUCCESS ∨ t = .ERROR ∨ t = .CANCELLED ∨ t = .PAUSED ∨ t = .RUNNING)
    (hstart : op = .start → s = .IDLE)
    -- an execution is IDLE only inside the transaction that creates and starts it (the engine
    -- stream checks that no committed workflow row is ever IDLE)
    (hidle : s = .IDLE → op = .start) :
    let s' := (wfApply s op).1
    s' = s ∨ documentedMove s s' = true ∨ (op = .rerun ∧ rerunMove s s' = true) := by
  cases s <;> simp [wfState] at hs <;> cases op <;> simp_all <;> first
    | decide
    | (rename_i t; cases t <;> simp_all <;> decide)
    | (rename_i o; cases o <;> decide)

/-- SUCCESS is absorbing for a workflow execution under every operation. -/
theorem success_absorbing_wf (op : WfOp) : (wfApply .SUCCESS op).1 = .SUCCESS := by
  cases op <;> first | decide | (rename_i t; cases t <;> decide)

/-- "once a workflow is finished its state … [is] not altered by results or timers that
    arrive late": every operation other than rerun leaves a finished state unchanged. -/
theorem finished_wf_frozen (s : St) (op : WfOp) (hf : s = .SUCCESS ∨ s = .ERROR ∨ s = .CANCELLED)
    (hop : op ≠ .rerun) (hstart : op ≠ .start) (hres : op ≠ .resume) :
    (wfApply s op).1 = s := by
  rcases hf with h | h | h <;> subst h <;> cases op <;> simp_all <;> first
    | decide
    | (rename_i t; cases t <;> decide)

/-- "An action execution's result is accepted at most once": over any sequence of result
    deliveries, at most one is accepted (changes the row); every later one is rejected and
    leaves the row as it is. -/
theorem action_accepted_once (a : ActionSt) (r1 r2 : ResultKind) :
    let (a1, res1) := actionComplete a r1
    res1 = .changed → actionComplete a1 r2 = (a1, .undeclaredError) := by
  simp only
  intro h
  unfold actionComplete at *
  by_cases hc : isCompleted a.state = true
  · simp [hc] at h
  · simp only [hc]
    cases r1 <;> simp [resultState] <;> decide

theorem action_results_fold (a : ActionSt) (rs : List ResultKind) :
    ((rs.foldl (fun (p : ActionSt × Nat) r =>
        let (a', res) := actionComplete p.1 r
        (a', if res = .changed then p.2 + 1 else p.2)) (a, 0)).2) ≤ 1 := by
  suffices h : ∀ (rs : List ResultKind) (a : ActionSt) (n : Nat),
      (rs.foldl (fun (p : ActionSt × Nat) r =>
        let (a', res) := actionComplete p.1 r
        (a', if res = .changed then p.2 + 1 else p.2)) (a, n)).2 ≤ (if isCompleted a.state then n else n + 1) by
    have := h rs a 0
    split at this <;> omega
  intro rs
  induction rs with
  | nil => intro a n; simp; split <;> omega
  | cons r rest ih =>
    intro a n
    simp only [List.foldl_cons]
    by_cases hc : isCompleted a.state = true
    · have : actionComplete a r = (a, .undeclaredError) := by simp [actionComplete, hc]
      simp only [this]
      have := ih a n
      simpa [hc] using this
    · have hcf : isCompleted a.state = false := by simpa using hc
      have h2 : actionComplete a r = ({ state := resultState r, accepted := true }, .changed) := by
        simp [actionComplete, hcf]
      simp only [h2]
      have h3 : isCompleted (resultState r) = true := by cases r <;> decide
      have := ih { state := resultState r, accepted := true } (n + 1)
      simp only [h3] at this
      simpa [hcf] using this

/-- "a task that reached SUCCESS never changes state again": completion handling and external
    updates ignore a completed task. -/
theorem task_success_final_partial (op : TaskOp)
    (h : (∃ t, op = .complete t ∧ t ≠ .SKIPPED) ∨ (∃ t, op = .update t)) :
    (taskApply .SUCCESS op).1 = .SUCCESS := by
  rcases h with ⟨t, rfl, ht⟩ | ⟨t, rfl⟩
  · cases t <;> simp_all <;> decide
  · cases t <;> decide

/-- The full statement (for every task operation) is FALSE of the code: `Task.defer`, which
    runs whenever a further inbound branch routes to an existing join execution, resets the
    join to WAITING whatever its state — also from SUCCESS (known finding: a partial join
    `join: one|N` is re-run by late branches). -/
theorem task_success_final_full_fails : ¬ (∀ op : TaskOp, (taskApply .SUCCESS op).1 = .SUCCESS) := by
  intro h
  have := h .defer
  revert this
  decide

end Mistral.Props.C03
