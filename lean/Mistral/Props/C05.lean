/-
C05 — A task sees exactly the data published by the tasks that causally precede it.
Property theorems over Mistral/Model/Ctx.lean (L2), which is tied to
context_versioning.py / data_flow.py by the `ctx` correspondence stream.
-/
import Mistral.Lemmas.Hist

namespace Mistral.Props.C05
open Mistral Mistral.Ctx Mistral.Dict Mistral.Hist

/-- "evaluate_task_outbound_context = copy of in_context updated with published":
    a published variable shadows the inherited one, everything else is inherited. -/
theorem outbound_lookup (c : Ctx) (pub : Dict) (hu : UniqueKeys pub) (k : String) :
    get? (outbound c pub).data k =
      match get? pub k with
      | some v => some v
      | none => get? c.data k := by
  unfold outbound
  simp only [get?_update]
  have : get? pub.reverse k = get? pub k := by
    unfold UniqueKeys at hu
    induction pub with
    | nil => rfl
    | cons p rest ih =>
      obtain ⟨k', v'⟩ := p
      simp only [List.map_cons, List.nodup_cons] at hu
      simp only [List.reverse_cons, get?_append, get?_cons, get?_nil]
      rw [ih hu.2]
      by_cases h : k' = k
      · subst h
        simp [get?_none_of_not_mem rest k' hu.1]
      · have : (k' == k) = false := by simpa using h
        simp only [this, Bool.false_eq_true, if_false]
        cases get? rest k <;> rfl
  rw [this]
  cases get? pub k <;> rfl

/-! ### the merge rule, for arbitrarily nested values

`_merge_ctx` is a structural recursion on the two values: `merge_value_rule` is its step on a
dictionary (key by key), `merge_node_rule` its step on a pair of values (recurse exactly when BOTH are
dictionaries, else the version of the node decides) and `merge_leaf_rule` the closed form along a whole
path of keys. -/

/-- "merge_context_by_version keeps the value with the higher version", key by key, ANY values: a key of
    the right context that is new on the left is copied, a key both have is merged by `mergeVal` under
    the version key of the variable, everything else is the left's. -/
theorem merge_value_rule (l r : Ctx) (hu : UniqueKeys (stripInternal r.data)) (k : String) :
    get? (mergeByVersion l r).data k =
      match get? (stripInternal r.data) k with
      | none => get? (stripInternal l.data) k
      | some v => match get? (stripInternal l.data) k with
        | none => some v
        | some lval => some (mergeVal l.vers r.vers (esc k) lval v) := by
  unfold mergeByVersion
  exact mergeKv_get _ _ _ _ _ hu k

/-- "recursive merge of dicts; a non-dict replaces / gets replaced": two dictionaries are merged key by
    key under the dotted version keys `p.k`; in every other case the right value replaces the left one
    exactly when the version of the node `p` is STRICTLY higher on the right. -/
theorem merge_node_rule (lv rv : Vers) (p : String) (a b : Val) :
    mergeVal lv rv p a b =
      match a, b with
      | .obj akv, .obj bkv => .obj (mergeKv lv rv (some p) akv bkv)
      | a, b => if ver rv p > ver lv p then b else a := by
  cases a <;> cases b <;> first | exact mergeVal_obj_obj _ _ _ _ _ | exact mergeVal_not_both _ _ _ _ _ rfl

/-- one level down: the merged dictionary, key by key (the recursion step of `merge_node_rule`) -/
theorem merge_dict_rule (lv rv : Vers) (p : String) (akv bkv : Dict) (hu : UniqueKeys bkv) (k : String) :
    get? (mergeKv lv rv (some p) akv bkv) k =
      match get? bkv k with
      | none => get? akv k
      | some v => match get? akv k with
        | none => some v
        | some lval => some (mergeVal lv rv (p ++ "." ++ esc k) lval v) :=
  mergeKv_get _ _ _ _ _ hu k

/-- the closed form at a LEAF PATH `k0.k1...kn` that both contexts hold (or lack the variable of): the
    right leaf wins exactly when the variable is new on the left or the version of the PATH is strictly
    higher on the right; the version of the path becomes the maximum. -/
theorem merge_leaf_rule (l r : Ctx) (k0 : String) (rest : List String) (hk : k0 ≠ "__task_execution")
    (hl : ShapeOK k0 rest l) (hr : ShapeOK k0 rest r) :
    getPath (mergeByVersion l r).data k0 rest =
      match getPath r.data k0 rest with
      | none => getPath l.data k0 rest
      | some y => match getPath l.data k0 rest with
        | none => some y
        | some x => if ver r.vers (keyOf (esc k0) rest) > ver l.vers (keyOf (esc k0) rest) then some y else some x :=
  (merge_at_path k0 rest hk l r hl hr).2.2

/-- "a value published inside one branch is never replaced at a join by a stale copy another branch
    merely inherited", at ANY depth: a leaf the left context holds at a path survives the merge whenever
    the right context's version of that path is not strictly higher - whatever the right context holds
    at the path, provided its value of the variable has not another shape ABOVE the path (no non-dict at a
    proper prefix). -/
theorem stale_copy_never_wins (l r : Ctx) (k0 : String) (rest : List String) (hk : k0 ≠ "__task_execution")
    (hur : UniqueKeys r.data) (x : Val) (hl : getPath l.data k0 rest = some x) (hx : x.isObj = false)
    (hshape : ∀ b, get? r.data k0 = some b → NoLeafAbove b rest ∧ UniqAlong b rest)
    (hstale : ver r.vers (keyOf (esc k0) rest) ≤ ver l.vers (keyOf (esc k0) rest)) :
    getPath (mergeByVersion l r).data k0 rest = some x := by
  have hsl : get? (stripInternal l.data) k0 = get? l.data k0 := get?_erase_other _ _ _ (fun e => hk e.symm)
  have hsr : get? (stripInternal r.data) k0 = get? r.data k0 := get?_erase_other _ _ _ (fun e => hk e.symm)
  rw [getPath_of_get?] at hl
  rw [getPath_of_get?, merge_value_rule l r (uniqueKeys_erase _ _ hur) k0, hsl, hsr]
  cases hga : get? l.data k0 with
  | none => simp [hga] at hl
  | some a =>
    simp only [hga] at hl
    cases hgb : get? r.data k0 with
    | none => exact hl
    | some b =>
      obtain ⟨h1, h2⟩ := hshape b hgb
      exact mergeVal_stale _ _ rest (esc k0) a b x hl hx h1 h2 hstale

/-- ... and a strictly newer leaf always wins, at any depth (the left value of the variable has not
    another shape above the path). -/
theorem newer_value_wins (l r : Ctx) (k0 : String) (rest : List String) (hk : k0 ≠ "__task_execution")
    (hur : UniqueKeys r.data) (y : Val) (hr : getPath r.data k0 rest = some y) (hy : y.isObj = false)
    (hua : ∀ b, get? r.data k0 = some b → UniqAlong b rest)
    (hshape : ∀ a, get? l.data k0 = some a → NoLeafAbove a rest)
    (hnew : ver l.vers (keyOf (esc k0) rest) < ver r.vers (keyOf (esc k0) rest)) :
    getPath (mergeByVersion l r).data k0 rest = some y := by
  have hsl : get? (stripInternal l.data) k0 = get? l.data k0 := get?_erase_other _ _ _ (fun e => hk e.symm)
  have hsr : get? (stripInternal r.data) k0 = get? r.data k0 := get?_erase_other _ _ _ (fun e => hk e.symm)
  rw [getPath_of_get?] at hr
  rw [getPath_of_get?, merge_value_rule l r (uniqueKeys_erase _ _ hur) k0, hsl, hsr]
  cases hgb : get? r.data k0 with
  | none => simp [hgb] at hr
  | some b =>
    simp only [hgb] at hr
    cases hga : get? l.data k0 with
    | none => exact hr
    | some a => exact mergeVal_newer _ _ rest (esc k0) a b y hr hy (hshape a hga) (hua b hgb) hnew

/-- Order independence at a join (commutativity up to ties), at any depth: for two contexts that hold a
    leaf at the path (or lack the variable) and are CONSISTENT there (equal versions of the path carry
    equal leaves - what holds when no two concurrent branches publish it) both merge orders give the
    same leaf and the same version. -/
theorem merge_order_independent_partial (a b : Ctx) (k0 : String) (rest : List String)
    (hk : k0 ≠ "__task_execution") (ha : ShapeOK k0 rest a) (hb : ShapeOK k0 rest b)
    (hcons : ∀ va vb, getPath a.data k0 rest = some va → getPath b.data k0 rest = some vb →
      ver a.vers (keyOf (esc k0) rest) = ver b.vers (keyOf (esc k0) rest) → va = vb) :
    getPath (mergeByVersion a b).data k0 rest = getPath (mergeByVersion b a).data k0 rest ∧
    ver (mergeByVersion a b).vers (keyOf (esc k0) rest) = ver (mergeByVersion b a).vers (keyOf (esc k0) rest) := by
  obtain ⟨_, hv1, hp1⟩ := merge_at_path k0 rest hk a b ha hb
  obtain ⟨_, hv2, hp2⟩ := merge_at_path k0 rest hk b a hb ha
  refine ⟨?_, by rw [hv1, hv2]; omega⟩
  rw [hp1, hp2]
  cases hga : getPath a.data k0 rest with
  | none => cases hgb : getPath b.data k0 rest <;> simp
  | some va =>
    cases hgb : getPath b.data k0 rest with
    | none => simp
    | some vb =>
      simp only
      by_cases h1 : ver b.vers (keyOf (esc k0) rest) > ver a.vers (keyOf (esc k0) rest)
      · have h2 : ¬ (ver a.vers (keyOf (esc k0) rest) > ver b.vers (keyOf (esc k0) rest)) := by omega
        simp [h1, h2]
      · by_cases h2 : ver a.vers (keyOf (esc k0) rest) > ver b.vers (keyOf (esc k0) rest)
        · simp [h1, h2]
        · have := hcons va vb hga hgb (by omega)
          simp [h1, h2, this]

/-- Associativity of the version merge at a leaf path, WITHOUT any tie hypothesis (the leftmost leaf of
    maximal version wins under either bracketing): a join may fold its parents in any grouping. -/
theorem merge_associative (a b c : Ctx) (k0 : String) (rest : List String) (hk : k0 ≠ "__task_execution")
    (ha : ShapeOK k0 rest a) (hb : ShapeOK k0 rest b) (hc : ShapeOK k0 rest c) :
    getPath (mergeByVersion (mergeByVersion a b) c).data k0 rest =
      getPath (mergeByVersion a (mergeByVersion b c)).data k0 rest ∧
    ver (mergeByVersion (mergeByVersion a b) c).vers (keyOf (esc k0) rest) =
      ver (mergeByVersion a (mergeByVersion b c)).vers (keyOf (esc k0) rest) := by
  obtain ⟨sab, vab, _⟩ := merge_at_path k0 rest hk a b ha hb
  obtain ⟨sbc, vbc, _⟩ := merge_at_path k0 rest hk b c hb hc
  obtain ⟨_, v1, _⟩ := merge_at_path k0 rest hk _ c sab hc
  obtain ⟨_, v2, _⟩ := merge_at_path k0 rest hk a _ ha sbc
  refine ⟨?_, by rw [v1, v2, vab, vbc]; omega⟩
  rw [merge_at_path_cell k0 rest hk _ c sab hc, merge_at_path_cell k0 rest hk a _ ha sbc,
    merge_at_path_cell k0 rest hk a b ha hb, merge_at_path_cell k0 rest hk b c hb hc, vab, vbc]
  exact cell_assoc (getPath a.data k0 rest) (getPath b.data k0 rest) (getPath c.data k0 rest) _ _ _
    ha.absent hb.absent hc.absent

/-- "the one published by the latest task on the causal path", arbitrarily nested values: a task's own
    publication is strictly newer than everything it inherited, so when its outbound context meets (at a
    later join) a copy of the context it started from, EVERY LEAF of the published value wins, in EITHER
    merge order.  The excluded inputs are explicit and decidable: the inherited value of the variable must
    not hold a non-dict above the leaf (`NoLeafAbove`: a scalar is not republished as a dictionary - the
    shape change of `later_publish_wins_full_fails`); republishing a dictionary as a scalar, dropping or
    adding leaves is covered. -/
theorem later_publish_wins_partial (c : Ctx) (pub : Dict) (k0 : String) (rest : List String) (v : Val)
    (hup : UniqueKeys pub) (hk0 : get? pub k0 = some v) (hleaf : LeafPath v rest)
    (hk : k0 ≠ "__task_execution") (huc : UniqueKeys c.data)
    (hshape : ∀ a, get? c.data k0 = some a → NoLeafAbove a rest ∧ UniqAlong a rest) :
    getPath (mergeByVersion c (outbound c pub)).data k0 rest = getPathVal v rest ∧
    getPath (mergeByVersion (outbound c pub) c).data k0 rest = getPathVal v rest := by
  obtain ⟨y, hy, hyo⟩ := LeafPath.get rest v hleaf
  have hm : keyOf (esc k0) rest ∈ leafKeysKv none pub :=
    leafKeysKv_mem_of_get? none _ pub k0 v hk0 (by rw [path_none]; exact leafKey_mem rest (esc k0) v hleaf)
  have hver : ver c.vers (keyOf (esc k0) rest) < ver (outbound c pub).vers (keyOf (esc k0) rest) := by
    have : 0 < (leafKeysKv none pub).count (keyOf (esc k0) rest) := List.count_pos_iff.mpr hm
    unfold outbound; simp only [ver_bump]; omega
  have hget : get? (outbound c pub).data k0 = some v := by
    unfold outbound; rw [get?_update_unique _ _ hup k0, hk0]
  have hout : getPath (outbound c pub).data k0 rest = some y := by rw [getPath_of_get?, hget]; exact hy
  have huo : UniqueKeys (outbound c pub).data := by unfold outbound; exact uniqueKeys_update _ _ huc
  rw [hy]
  constructor
  · exact newer_value_wins c (outbound c pub) k0 rest hk huo y hout hyo
      (fun b hb => by rw [hget] at hb; cases hb; exact LeafPath.uniqAlong rest v hleaf)
      (fun a ha => (hshape a ha).1) hver
  · exact stale_copy_never_wins (outbound c pub) c k0 rest hk huc y hout hyo hshape (by omega)

/-- The full-strength statement (also for dictionary values) is FALSE of the code: version
    keys are the leaf paths of the NEW value, so republishing a variable as a dictionary
    (here `{}`: no leaf, hence no version bump at all) leaves the new value unordered against
    the value it replaces, and which one a later join sees depends on the order in which the
    database lists the rows (known finding G). Witness: t1 published v2 = "a"; its child
    publishes v2 = {}. -/
theorem later_publish_wins_full_fails :
    ¬ (∀ (c : Ctx) (pub : Dict) (k : String) (v : Val), UniqueKeys pub → get? pub k = some v →
        get? (mergeByVersion c (outbound c pub)).data k = some v ∧
        get? (mergeByVersion (outbound c pub) c).data k = some v) := by
  intro h
  have := (h ⟨[("v2", .str "a")], [("v2", 1)]⟩ [("v2", .obj [])] "v2" (.obj [])
    (by simp [UniqueKeys]) (by simp [Dict.get?])).1
  simp [mergeByVersion, outbound, stripInternal, Dict.erase, Dict.update, mergeKv, mergeVal,
    Dict.get?, Dict.set, ver, path, bump, leafKeysKv, leafKeysVal] at this

/-- versions after a merge are the pointwise maximum -/
theorem merged_version_is_max (l r : Ctx) (hu : UniqueKeys r.vers) (k : String) :
    ver (mergeByVersion l r).vers k = max (ver l.vers k) (ver r.vers k) := by
  unfold mergeByVersion
  exact ver_mergeVers _ _ hu k

/-- "ContextView lookup priority": the value comes from the first layer that has the key. -/
theorem lookup_priority (d : Dict) (rest : List Dict) (k : String) :
    viewLookup (d :: rest) k = match get? d k with
      | some v => some v
      | none => viewLookup rest k := by
  rw [viewLookup]
  cases get? d k <;> rfl

theorem lookup_missing (layers : List Dict) (k : String) (h : ∀ d ∈ layers, get? d k = none) :
    viewLookup layers k = none := by
  induction layers with
  | nil => rfl
  | cons d rest ih =>
    simp only [viewLookup, h d (List.mem_cons_self)]
    exact ih (fun d' hd => h d' (List.mem_cons_of_mem _ hd))

/-! ### non-vacuity -/

/-- flat: a stale copy (version 1) does not replace the value with version 2 -/
example : getPath (mergeByVersion ⟨[("x", .num 1)], [("x", 2)]⟩ ⟨[("x", .num 7)], [("x", 1)]⟩).data "x" [] = some (.num 1) := by
  apply stale_copy_never_wins _ _ "x" [] (by decide) (by decide) (.num 1) rfl rfl
  · intro b _; exact ⟨trivial, trivial⟩
  · decide

/-- nested: d = {x, y} was published before a fork (versions d.x = d.y = 1); the left branch republished the
    leaf d.x (version 2), the right branch merely inherited the old dict: the stale d.x never wins -/
def exL : Ctx := ⟨[("d", .obj [("x", .str "A"), ("y", .num 0)])], [("d.x", 2), ("d.y", 2)]⟩
def exR : Ctx := ⟨[("d", .obj [("x", .num 0), ("y", .num 0)])], [("d.x", 1), ("d.y", 1)]⟩

example : getPath (mergeByVersion exL exR).data "d" ["x"] = some (.str "A") := by
  apply stale_copy_never_wins exL exR "d" ["x"] (by decide) (by decide) (.str "A") rfl rfl
  · intro b hb
    simp [exR, Dict.get?] at hb; subst hb
    exact ⟨by simp [NoLeafAbove, Dict.get?], by simp [UniqAlong, UniqueKeys, Dict.get?]⟩
  · decide

example : getPath (mergeByVersion exR exL).data "d" ["x"] = some (.str "A") := by
  apply newer_value_wins exR exL "d" ["x"] (by decide) (by decide) (.str "A") rfl rfl
  · intro b hb
    simp [exL, Dict.get?] at hb; subst hb
    simp [UniqAlong, UniqueKeys, Dict.get?]
  · intro a ha
    simp [exR, Dict.get?] at ha; subst ha
    simp [NoLeafAbove, Dict.get?]
  · decide

example : ShapeOK "d" ["x"] exL ∧ ShapeOK "d" ["x"] exR := by
  constructor <;> simp [ShapeOK, exL, exR, UniqueKeys, Dict.get?, LeafPath, Val.isObj]

/-- the hypotheses of `later_publish_wins_partial` for a nested republication that DROPS a leaf (d = {y: "B"}
    over an inherited d = {x: 0, y: 0}): the published leaf d.y wins in both orders -/
example :
    getPath (mergeByVersion exR (outbound exR [("d", .obj [("y", .str "B")])])).data "d" ["y"] = some (.str "B") ∧
    getPath (mergeByVersion (outbound exR [("d", .obj [("y", .str "B")])]) exR).data "d" ["y"] = some (.str "B") := by
  apply later_publish_wins_partial exR [("d", .obj [("y", .str "B")])] "d" ["y"] (.obj [("y", .str "B")])
    (by decide) rfl (by decide) (by decide) (by decide)
  intro a ha
  simp [exR, Dict.get?] at ha; subst ha
  exact ⟨by simp [NoLeafAbove, Dict.get?], by simp [UniqAlong, UniqueKeys, Dict.get?]⟩

end Mistral.Props.C05
