/-
C05 — A task sees exactly the data published by the tasks that causally precede it.
Property theorems over Mistral/Model/Ctx.lean (L2), which is tied to
context_versioning.py / data_flow.py by the `ctx` correspondence stream.
-/
import Mistral.Lemmas.Ctx

namespace Mistral.Props.C05
open Mistral Mistral.Ctx Mistral.Dict

/-- "evaluate_task_outbound_context = copy of in_context updated with published":
    a published variable shadows the inherited one, everything else is inherited. -/
theorem outbound_lookup (c : Ctx) (pub : Dict) (hu : UniqueKeys pub) (k : String) :
    get? (outbound c pub).data k =
      match get? pub k with
      | some v => some v
      | none => get? c.data k := by
  unfold outbound
  simp only [get?_update]
  have : get? pub.reverse k = get? pub k := by
    unfold UniqueKeys at hu
    induction pub with
    | nil => rfl
    | cons p rest ih =>
      obtain ⟨k', v'⟩ := p
      simp only [List.map_cons, List.nodup_cons] at hu
      simp only [List.reverse_cons, get?_append, get?_cons, get?_nil]
      rw [ih hu.2]
      by_cases h : k' = k
      · subst h
        simp [get?_none_of_not_mem rest k' hu.1]
      · have : (k' == k) = false := by simpa using h
        simp only [this, Bool.false_eq_true, if_false]
        cases get? rest k <;> rfl
  rw [this]
  cases get? pub k <;> rfl

/-- "merge_context_by_version keeps the value with the higher version", key by key, for
    contexts whose right-hand values are not dictionaries: the right value replaces the left
    one only if the key is new on the left or its version on the right is STRICTLY higher. -/
theorem merge_value_rule (l r : Ctx) (hf : FlatD (stripInternal r.data))
    (hu : UniqueKeys (stripInternal r.data)) (k : String) :
    get? (mergeByVersion l r).data k =
      match get? (stripInternal r.data) k with
      | none => get? (stripInternal l.data) k
      | some v => match get? (stripInternal l.data) k with
        | none => some v
        | some lval => if ver r.vers k > ver l.vers k then some v else some lval := by
  unfold mergeByVersion
  exact mergeKv_flat_get _ _ _ _ hf hu k

/-- "a value published inside one branch is never replaced at a join by a stale copy another
    branch merely inherited": a copy with a version that is not strictly higher never
    replaces the value already present, whichever side it comes from. -/
theorem stale_copy_never_wins (l r : Ctx) (hf : FlatD (stripInternal r.data))
    (hu : UniqueKeys (stripInternal r.data)) (k : String) (lval : Val)
    (hl : get? (stripInternal l.data) k = some lval)
    (hstale : ver r.vers k ≤ ver l.vers k) :
    get? (mergeByVersion l r).data k = some lval := by
  rw [merge_value_rule l r hf hu k, hl]
  cases get? (stripInternal r.data) k with
  | none => rfl
  | some v =>
    have : ¬ (ver r.vers k > ver l.vers k) := by omega
    simp [this]

/-- … and a strictly newer value always wins. -/
theorem newer_value_wins (l r : Ctx) (hf : FlatD (stripInternal r.data))
    (hu : UniqueKeys (stripInternal r.data)) (k : String) (v : Val)
    (hr : get? (stripInternal r.data) k = some v)
    (hnew : ver l.vers k < ver r.vers k) :
    get? (mergeByVersion l r).data k = some v := by
  rw [merge_value_rule l r hf hu k, hr]
  cases get? (stripInternal l.data) k with
  | none => rfl
  | some lval => simp [hnew]

/-- Order independence at a join, for flat contexts that are *consistent* (equal versions of a
    key carry equal values — what holds when no two concurrent branches publish the same
    variable): both merge orders give the same value for every key. -/
theorem merge_order_independent_partial (a b : Ctx)
    (hfa : FlatD (stripInternal a.data)) (hua : UniqueKeys (stripInternal a.data))
    (hfb : FlatD (stripInternal b.data)) (hub : UniqueKeys (stripInternal b.data))
    (k : String)
    (hcons : ∀ va vb, get? (stripInternal a.data) k = some va → get? (stripInternal b.data) k = some vb →
      ver a.vers k = ver b.vers k → va = vb) :
    get? (mergeByVersion a b).data k = get? (mergeByVersion b a).data k := by
  rw [merge_value_rule a b hfb hub k, merge_value_rule b a hfa hua k]
  cases ha : get? (stripInternal a.data) k with
  | none => cases hb : get? (stripInternal b.data) k <;> simp
  | some va =>
    cases hb : get? (stripInternal b.data) k with
    | none => simp
    | some vb =>
      simp only
      by_cases h1 : ver b.vers k > ver a.vers k
      · have h2 : ¬ (ver a.vers k > ver b.vers k) := by omega
        simp [h1, h2]
      · by_cases h2 : ver a.vers k > ver b.vers k
        · simp [h1, h2]
        · have : ver a.vers k = ver b.vers k := by omega
          have := hcons va vb ha hb this
          simp [h1, h2, this]

/-- "the one published by the latest task on the causal path": a task's own publish is
    strictly newer than everything it inherited, so when its outbound context meets (at a later
    join) a copy of the context it started from, the published value wins in EITHER merge order.
    Proved for publishes and contexts without dictionary values (shape-preserving publishes). -/
theorem later_publish_wins_partial (c : Ctx) (pub : Dict) (k : String) (v : Val)
    (hfp : FlatD pub) (hup : UniqueKeys pub)
    (hk : get? pub k = some v) (hint : k ≠ "__task_execution")
    (hfo : FlatD (stripInternal (outbound c pub).data))
    (huo : UniqueKeys (stripInternal (outbound c pub).data))
    (hfs : FlatD (stripInternal c.data)) (hus : UniqueKeys (stripInternal c.data)) :
    get? (mergeByVersion c (outbound c pub)).data k = some v ∧
    get? (mergeByVersion (outbound c pub) c).data k = some v := by
  have hmem : k ∈ pub.map (·.1) := by
    apply Decidable.byContradiction
    intro hn
    rw [get?_none_of_not_mem pub k hn] at hk; cases hk
  have hcnt : 0 < (pub.map (·.1)).count k := List.count_pos_iff.mpr hmem
  have hver : ver c.vers k < ver (outbound c pub).vers k := by
    unfold outbound
    simp only [leafKeys_flat pub hfp, ver_bump]
    omega
  have hout : get? (stripInternal (outbound c pub).data) k = some v := by
    unfold stripInternal
    rw [get?_erase_other _ _ _ (fun e => hint e.symm), outbound_lookup c pub hup k, hk]
  constructor
  · exact newer_value_wins c (outbound c pub) hfo huo k v hout hver
  · apply stale_copy_never_wins (outbound c pub) c hfs hus k v hout
    omega

/-- The full-strength statement (also for dictionary values) is FALSE of the code: version
    keys are the leaf paths of the NEW value, so republishing a variable as a dictionary
    (here `{}`: no leaf, hence no version bump at all) leaves the new value unordered against
    the value it replaces, and which one a later join sees depends on the order in which the
    database lists the rows (known finding G). Witness: t1 published v2 = "a"; its child
    publishes v2 = {}. -/
theorem later_publish_wins_full_fails :
    ¬ (∀ (c : Ctx) (pub : Dict) (k : String) (v : Val), UniqueKeys pub → get? pub k = some v →
        get? (mergeByVersion c (outbound c pub)).data k = some v ∧
        get? (mergeByVersion (outbound c pub) c).data k = some v) := by
  intro h
  have := (h ⟨[("v2", .str "a")], [("v2", 1)]⟩ [("v2", .obj [])] "v2" (.obj [])
    (by simp [UniqueKeys]) (by simp [Dict.get?])).1
  simp [mergeByVersion, outbound, stripInternal, Dict.erase, Dict.update, mergeKv, mergeVal,
    Dict.get?, Dict.set, ver, path, bump, leafKeysKv, leafKeysVal] at this

/-- versions after a merge are the pointwise maximum -/
theorem merged_version_is_max (l r : Ctx) (hu : UniqueKeys r.vers) (k : String) :
    ver (mergeByVersion l r).vers k = max (ver l.vers k) (ver r.vers k) := by
  unfold mergeByVersion
  exact ver_mergeVers _ _ hu k

/-- "ContextView lookup priority": the value comes from the first layer that has the key. -/
theorem lookup_priority (d : Dict) (rest : List Dict) (k : String) :
    viewLookup (d :: rest) k = match get? d k with
      | some v => some v
      | none => viewLookup rest k := by
  rw [viewLookup]
  cases get? d k <;> rfl

theorem lookup_missing (layers : List Dict) (k : String) (h : ∀ d ∈ layers, get? d k = none) :
    viewLookup layers k = none := by
  induction layers with
  | nil => rfl
  | cons d rest ih =>
    simp only [viewLookup, h d (List.mem_cons_self)]
    exact ih (fun d' hd => h d' (List.mem_cons_of_mem _ hd))

/-- non-vacuity: flat, unique-key contexts exist and the rule distinguishes them. -/
example : get? (mergeByVersion ⟨[("x", .num 1)], [("x", 2)]⟩ ⟨[("x", .num 7)], [("x", 1)]⟩).data "x" = some (.num 1) := by
  apply stale_copy_never_wins <;> simp [FlatD, UniqueKeys, stripInternal, Dict.erase, Val.isObj, Dict.get?, ver]

end Mistral.Props.C05
