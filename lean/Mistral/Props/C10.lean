/-
C10 — Pause creates no new tasks; resume continues to the same result.
Theorems over the engine core model Mistral.Engine (tied to the real engine step by step
by the `core` correspondence stream), for every specification, world and event.
-/
import Mistral.Lemmas.Engine

namespace Mistral.Props.C10
open Mistral Mistral.Engine Mistral.Join

/-- "After a pause request is acknowledged the workflow … [is] PAUSED". -/
theorem pause_acknowledged (sp : Spec) (w : World) (h : w.wf = .RUNNING) :
    (step sp w .pause).wf = .PAUSED := by
  simp [step, h]; decide

/-- "no new task is created inside an execution while it is PAUSED": whatever is delivered
    (messages, post-commit operations, scheduler jobs, action results, duplicate deliveries)
    and whatever operator command other than `resume` arrives, the set of task executions of a
    PAUSED workflow does not change. -/
theorem no_creation_while_paused (sp : Spec) (w : World) (ev : Event)
    (hp : w.wf = .PAUSED) (hev : ∀ x, ev = x → x ≠ .resume) : ids (step sp w ev) = ids w := by
  have hinert : isCompleted w.wf = true ∨ w.wf = .PAUSED := Or.inr hp
  cases ev with
  | start => simp [step, hp]
  | pause => simp [step, ids]
  | resume => exact absurd rfl (hev _ rfl)
  | stop t => simp [step, ids]
  | execute t ok =>
    simp only [step]
    split <;> rfl
  | deliver it =>
    simp only [step]
    split
    · rfl
    · have hw' : ∀ (w' : World), w'.wf = w.wf → w'.tasks = w.tasks →
          (isCompleted w'.wf = true ∨ w'.wf = .PAUSED) := by
        intro w' h1 _; rw [h1]; exact hinert
      cases it with
      | postStartTask t f => rfl
      | postRunAction t => rfl
      | runAction t => rfl
      | postCheck =>
        simp only
        rw [checkAndComplete_ids]; rfl
      | postSchedRefresh t => simp only; split <;> rfl
      | rpcStartTask t firstRun =>
        simp only
        split
        · rfl
        · split
          · split
            · simp [ids, setTask_ids]
            · split
              · split <;> rfl
              · unfold ids; rw [(checkAffected_tasks sp _ t).1]
          · split
            · rfl
            · split
              · unfold ids; rw [(checkAffected_tasks sp _ t).1]
              · split
                · rfl
                · simp [ids, setTask_ids]
      | rpcResult t ok =>
        simp only
        split
        · rfl
        · rename_i r _
          exact (completeTask_inert sp _ r _ (by simpa using hinert)).1
      | jobRefresh t =>
        simp only
        split
        · rfl
        · rename_i r _
          split
          · rfl
          · split
            · rfl
            · split
              · rfl
              · split
                · rfl
                · split
                  · split <;> simp [ids, setTask_ids]
                  · split
                    · refine ((completeTask_inert sp _ _ _ ?_).1).trans ?_
                      · simpa using hinert
                      · simp [ids, setTask_ids]
                    · simp [ids, setTask_ids]

/-- "… while results of running actions are still recorded": the result of an action that
    arrives while the workflow is PAUSED completes its task (state from the result), although
    no follow-up task is created until resume. -/
theorem results_recorded_while_paused (sp : Spec) (w : World) (t : Tid) (ok : Bool) (r : TaskRow)
    (hp : w.wf = .PAUSED) (hr : findTask w t = some r) (hrun : isCompleted r.state = false)
    (hpend : w.pending.contains (.rpcResult t ok) = true) :
    ∃ r', findTask (step sp w (.deliver (.rpcResult t ok))) t = some r' ∧
      r'.state = (if ok then St.SUCCESS else St.ERROR) ∧ r'.processed = r.processed := by
  have hid : r.name = t.1 ∧ r.occ = t.2 := by
    unfold findTask at hr
    have := List.find?_some hr
    simpa using this
  simp only [step, hpend, Bool.not_true, Bool.false_eq_true, if_false]
  have hr' : findTask { w with pending := removeFirst w.pending (.rpcResult t ok) } t = some r := hr
  simp only [hr']
  unfold completeTask
  simp only [hrun, Bool.false_eq_true, if_false]
  have hpz : isPaused w.wf = true := by rw [hp]; decide
  simp only [hpz, if_true]
  let st : St := if ok then St.SUCCESS else St.ERROR
  let nt : List (String × String) := if isCompleted w.wf then [] else nextOf sp r.name st
  let r1 : TaskRow :=
    { r with state := st, nextTasks := nt, hasNext := !nt.isEmpty,
             errorHandled := if st == .ERROR then nt.any (·.2 == "on-error") else r.errorHandled }
  refine ⟨r1, ?_, rfl, rfl⟩
  unfold findTask
  rw [(checkAffected_tasks sp _ _).1]
  have := find_setTask w.tasks r r1 rfl rfl (by unfold findTask at hr; rw [hid.1, hid.2]; exact hr)
  rw [hid.1, hid.2] at this
  exact this

/-- While PAUSED, only `resume` and `stop` change the workflow state. -/
theorem paused_stays_paused (sp : Spec) (w : World) (ev : Event) (hp : w.wf = .PAUSED)
    (h1 : ev ≠ .resume) (h2 : ∀ t, ev ≠ .stop t) : (step sp w ev).wf = .PAUSED := by
  have hinert : isCompleted w.wf = true ∨ w.wf = .PAUSED := Or.inr hp
  cases ev with
  | start => simp [step, hp]
  | pause => simp [step, hp]; decide
  | resume => exact absurd rfl h1
  | stop t => exact absurd rfl (h2 t)
  | execute t ok => simp only [step]; split <;> simp [hp]
  | deliver it =>
    simp only [step]
    split
    · exact hp
    · cases it with
      | postStartTask t f => exact hp
      | postRunAction t => exact hp
      | runAction t => exact hp
      | postCheck =>
        simp only
        rw [checkAndComplete_inert _ (by simp [hp]; decide)]
        exact hp
      | postSchedRefresh t => simp only; split <;> exact hp
      | rpcStartTask t firstRun =>
        simp only
        split
        · exact hp
        · split
          · split
            · exact hp
            · split
              · split <;> exact hp
              · rw [(checkAffected_tasks sp _ t).2]; exact hp
          · split
            · exact hp
            · split
              · rw [(checkAffected_tasks sp _ t).2]; exact hp
              · split <;> exact hp
      | rpcResult t ok =>
        simp only
        split
        · exact hp
        · rename_i r _
          rw [(completeTask_inert sp _ r _ (by simpa using hinert)).2]; exact hp
      | jobRefresh t =>
        simp only
        split
        · exact hp
        · rename_i r _
          split
          · exact hp
          · split
            · exact hp
            · split
              · exact hp
              · split
                · exact hp
                · split
                  · split <;> exact hp
                  · split
                    · refine ((completeTask_inert sp _ _ _ ?_).2).trans ?_
                      · simpa using hinert
                      · exact hp
                    · exact hp

/-- non-vacuity: a reachable PAUSED world with work in flight (start, one task started,
    then pause) exists, and delivering the pending result keeps the task set. -/
def demoSpec : Spec :=
  { graph := { tasks := [⟨"a", none, ["b"], [], [], []⟩, ⟨"b", none, [], [], [], []⟩], defaults := none },
    live := [⟨"a", ["b"], [], []⟩, ⟨"b", [], [], []⟩] }

def demoWorld : World :=
  run demoSpec [.start, .deliver (.postStartTask ("a", 0) true), .deliver (.rpcStartTask ("a", 0) true),
                .deliver (.postRunAction ("a", 0)), .pause, .execute ("a", 0) true]

example : demoWorld.wf = .PAUSED ∧ demoWorld.pending = [.rpcResult ("a", 0) true] := by decide

example : ids (step demoSpec demoWorld (.deliver (.rpcResult ("a", 0) true))) = [("a", 0)] := by decide

/-- … and after `resume` the follow-up task is created (the paused run is not lost). -/
example : ids (step demoSpec (step demoSpec demoWorld (.deliver (.rpcResult ("a", 0) true))) .resume)
    = [("a", 0), ("b", 0)] := by decide

end Mistral.Props.C10
