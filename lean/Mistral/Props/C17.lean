/-
C17 — A cron trigger fires once per due time and never more than its count.
Property theorems only.  Model: Mistral/Model/Cron.lean (tied to
mistral/services/periodic.py, services/triggers.py and the cron functions of
db/v2/sqlalchemy/api.py by the `cron` / `create` / `dfs` correspondence streams);
invariant and its preservation: Mistral/Lemmas/Cron.lean; source facts regenerated
on every run: Mistral/Gen/CronLimits.lean (Tie A).

All theorems quantify over an arbitrary strictly increasing croniter (`nxt`), an
arbitrary initial trigger table, ANY number of processors (`procs : Nat → Proc`) and
ALL step sequences `es : List Step` of read / advance / start / crash / tick.
An *occurrence* of trigger `n` is a value of its `next_execution_time`.
-/
import Mistral.Model.Cron
import Mistral.Lemmas.Cron
import Mistral.Gen.CronLimits

namespace Mistral.Props.C17
open Mistral.Cron Mistral.Gen.CronLimits

/-- `croniter(p, t).get_next()` is later than `t` (asserted on every value the check uses). -/
def Increasing (nxt : Nat → Nat → Nat) : Prop := ∀ p t, t < nxt p t

/-- A trigger table as the API can create it: (name, project) unique (db constraint), and no
    stored count of 0 (REST minimum, see `rest_minimum_excludes_zero`). -/
structure WF (db0 : List Trigger) : Prop where
  uniq : ∀ a ∈ db0, ∀ b ∈ db0, a.name = b.name → a = b
  pos : ∀ r ∈ db0, r.remaining ≠ some 0

theorem inc60 : Increasing (fun _ t => t + 60) := fun _ t => Nat.lt_add_of_pos_right (by decide)

/-! ### Tie A: facts regenerated from the source -/

/-- resources.py: `remaining_executions = wtypes.IntegerType(minimum=N)` with N ≥ 1, so a count
    accepted by the API is never 0. -/
theorem rest_minimum_excludes_zero (c : Nat) (h : remainingExecutionsMinimum ≤ c) : c ≠ 0 := by
  have : 1 ≤ remainingExecutionsMinimum := by decide
  omega

/-- triggers.py / db api: the due query is `next_execution_time < utcnow() + 2 s`, and
    first_execution_time must be ≥ 60 s ahead — the constants the model uses. -/
theorem model_constants_match_source :
    lookaheadSeconds = lookahead ∧ queryStrict = true ∧ firstTimeMarginSeconds = firstMargin := by
  decide

/-! ### Invariant (init / step / reachable) -/

theorem inv_init (now : Nat) (db0 : List Trigger) (h : WF db0) :
    Inv (init now db0) ∧ Inv0 db0 (init now db0) :=
  ⟨inv_init_lemma now db0 h.uniq h.pos, inv0_init now db0⟩

theorem inv_step {nxt : Nat → Nat → Nat} (hn : Increasing nxt) {db0 : List Trigger} {s : State}
    (h : Inv s ∧ Inv0 db0 s) (e : Step) : Inv (step nxt s e) ∧ Inv0 db0 (step nxt s e) :=
  ⟨inv_step_lemma hn h.1 e, inv0_step hn h.1 h.2 e⟩

theorem inv_run {nxt : Nat → Nat → Nat} (hn : Increasing nxt) {db0 : List Trigger}
    (es : List Step) : ∀ {s : State}, Inv s ∧ Inv0 db0 s →
      Inv (run nxt s es) ∧ Inv0 db0 (run nxt s es) := by
  induction es with
  | nil => intro s h; exact h
  | cons e es ih => intro s h; exact ih (inv_step hn h e)

theorem inv_reachable {nxt : Nat → Nat → Nat} (hn : Increasing nxt) (now : Nat)
    (db0 : List Trigger) (h : WF db0) (es : List Step) :
    Inv (run nxt (init now db0) es) ∧ Inv0 db0 (run nxt (init now db0) es) :=
  inv_run hn es (inv_init now db0 h)

/-! ### "each due occurrence of a trigger starts exactly one workflow execution" -/

/-- However many processors hold a copy of an occurrence, at most one advance succeeds for it
    and at most one `start_workflow` is sent for it. -/
theorem one_winner_per_occurrence {nxt : Nat → Nat → Nat} (hn : Increasing nxt) (now : Nat)
    (db0 : List Trigger) (h : WF db0) (es : List Step) (n T : Nat) :
    let s := run nxt (init now db0) es
    occCount s.wins n T ≤ 1 ∧ occCount s.log n T ≤ 1 := by
  have hI := (inv_reachable hn now db0 h es).1
  exact ⟨occCount_le_one hI.winsPw n T, occCount_le_one hI.logDistinct n T⟩

/-- The full-strength "exactly one": every occurrence that was consumed (advanced past) is
    started or about to be started by a live processor.  FALSE of the code: a processor that
    dies between `advance_cron_trigger` and `start_workflow` loses the occurrence. -/
def ExactlyOnce (nxt : Nat → Nat → Nat) (now : Nat) (db0 : List Trigger) (es : List Step) : Prop :=
  let s := run nxt (init now db0) es
  ∀ w ∈ s.wins, w ∈ s.log ∨ ∃ i, (s.procs i).pending = some w

def witnessDb : List Trigger :=
  [{ name := 0, nextTime := 60, remaining := none, pat := some 0, pay := ⟨0, 0, 0, 0⟩ }]

def witnessSteps : List Step := [.tick 60, .read 0, .advance 0, .crash 0, .read 1, .advance 1]

theorem witness_wf : WF witnessDb := by
  constructor
  · intro a ha b hb _
    simp [witnessDb] at ha hb
    rw [ha, hb]
  · intro r hr
    simp [witnessDb] at hr
    simp [hr]

theorem witness_state :
    let s := run (fun _ t => t + 60) (init 0 witnessDb) witnessSteps
    s.wins = witnessDb ∧ s.log = [] ∧ s.lost = witnessDb ∧
    (∀ i, (s.procs i).pending = none) ∧ s.db.map (·.nextTime) = [120] := by
  refine ⟨by decide, by decide, by decide, ?_, by decide⟩
  intro i
  by_cases h0 : i = 0
  · subst h0; decide
  · by_cases h1 : i = 1
    · subst h1; decide
    · rw [run_frame]
      · rfl
      · intro e he
        simp only [witnessSteps, List.mem_cons, List.not_mem_nil, or_false] at he
        rcases he with rfl | rfl | rfl | rfl | rfl | rfl <;> simp [stepProc] <;> omega

theorem exactly_once_full_fails :
    ¬ (∀ (nxt : Nat → Nat → Nat) (now : Nat) (db0 : List Trigger) (es : List Step),
        Increasing nxt → WF db0 → ExactlyOnce nxt now db0 es) := by
  intro hall
  have h := hall (fun _ t => t + 60) 0 witnessDb witnessSteps inc60 witness_wf
  obtain ⟨hw, hl, _, hp, _⟩ := witness_state
  unfold ExactlyOnce at h
  have hm := h witnessDb[0] (by rw [hw]; simp [witnessDb])
  rcases hm with hm | ⟨i, hi⟩
  · rw [hl] at hm; cases hm
  · rw [hp i] at hi; cases hi

/-- Restriction: with no crash step in the history, every consumed occurrence has exactly one
    `start_workflow` or is held by the (live) processor that is about to send it. -/
theorem exactly_once_partial {nxt : Nat → Nat → Nat} (hn : Increasing nxt) (now : Nat)
    (db0 : List Trigger) (h : WF db0) (es : List Step) (hnc : noCrash es = true) :
    ExactlyOnce nxt now db0 es := by
  unfold ExactlyOnce
  intro s w hw
  have hI := (inv_reachable hn now db0 h es).1
  have hlost : s.lost = [] := lost_run_noCrash nxt es (init now db0) hnc
  rcases hI.acct w hw with hl | hp | hl
  · exact Or.inl hl
  · exact Or.inr hp
  · rw [hlost] at hl; cases hl

/-- Without crash, at quiescence (nobody between advance and start) each consumed occurrence
    has been started exactly once. -/
theorem exactly_once_without_crash {nxt : Nat → Nat → Nat} (hn : Increasing nxt) (now : Nat)
    (db0 : List Trigger) (h : WF db0) (es : List Step) (hnc : noCrash es = true)
    (hq : ∀ i, ((run nxt (init now db0) es).procs i).pending = none) :
    let s := run nxt (init now db0) es
    ∀ w ∈ s.wins, occCount s.log w.name w.nextTime = 1 := by
  intro s w hw
  have hI := (inv_reachable hn now db0 h es).1
  rcases exactly_once_partial hn now db0 h es hnc w hw with hl | ⟨i, hi⟩
  · have h1 := occCount_le_one hI.logDistinct w.name w.nextTime
    have h2 := occCount_pos_of_mem hl
    exact Nat.le_antisymm h1 h2
  · rw [hq i] at hi; cases hi

/-- With crashes the loss is exactly accounted for: every consumed occurrence is started, about
    to be started, or was held by a processor that crashed between advance and start. -/
theorem consumed_started_pending_or_lost {nxt : Nat → Nat → Nat} (hn : Increasing nxt)
    (now : Nat) (db0 : List Trigger) (h : WF db0) (es : List Step) :
    let s := run nxt (init now db0) es
    ∀ w ∈ s.wins, w ∈ s.log ∨ (∃ i, (s.procs i).pending = some w) ∨ w ∈ s.lost :=
  (inv_reachable hn now db0 h es).1.acct

/-- Progress: once a live processor that read an occurrence has executed its advance, the
    occurrence has been consumed by somebody (so it is started unless that one crashes). -/
theorem read_occurrence_is_consumed {nxt : Nat → Nat → Nat} (hn : Increasing nxt) (now : Nat)
    (db0 : List Trigger) (h : WF db0) (es : List Step) (i : Nat) (t : Trigger)
    (rest : List Trigger)
    (hq : ((run nxt (init now db0) es).procs i).queue = t :: rest)
    (hp : ((run nxt (init now db0) es).procs i).pending = none)
    (hc : ((run nxt (init now db0) es).procs i).crashed = false)
    (hpat : t.pat = none → decr t.remaining = some 0) :
    t ∈ (step nxt (run nxt (init now db0) es) (.advance i)).wins :=
  advance_consumes (inv_reachable hn now db0 h es).1 hq hp hc hpat

/-! ### "with the trigger's input and parameters on behalf of the trigger's project" -/

/-- Every `start_workflow` carries the payload (project, input, params, workflow) the trigger
    of that name was created with. -/
theorem start_uses_trigger_project_input_params {nxt : Nat → Nat → Nat} (hn : Increasing nxt)
    (now : Nat) (db0 : List Trigger) (h : WF db0) (es : List Step) :
    ∀ f ∈ (run nxt (init now db0) es).log, ∃ r0 ∈ db0, r0.name = f.name ∧ r0.pay = f.pay := by
  intro f hf
  obtain ⟨hI, h0⟩ := inv_reachable hn now db0 h es
  obtain ⟨r0, hr0, hn0, hp0, _⟩ := h0.winsOrigin f (hI.logWins f hf)
  exact ⟨r0, hr0, hn0, hp0⟩

/-! ### "Its next execution time only moves forward along its pattern" -/

/-- One step leaves a row alone or moves its next time to `nxt p (max now previous)`, which is
    later than both the previous value and the clock. -/
theorem next_time_strictly_increases {nxt : Nat → Nat → Nat} (hn : Increasing nxt) (now : Nat)
    (db0 : List Trigger) (h : WF db0) (es : List Step) (e : Step) :
    let s := run nxt (init now db0) es
    ∀ r' ∈ (step nxt s e).db, ∃ r ∈ s.db, r.name = r'.name ∧
      (r' = r ∨ (r.nextTime < r'.nextTime ∧ s.now < r'.nextTime ∧
          ∃ p, r.pat = some p ∧ r'.nextTime = nxt p (max s.now r.nextTime))) :=
  step_next_time hn (inv_reachable hn now db0 h es).1 e

/-- Over any history no row's next time ever moves backwards (and no row appears). -/
theorem next_time_never_decreases {nxt : Nat → Nat → Nat} (hn : Increasing nxt)
    (es : List Step) : ∀ {s : State}, Inv s →
    ∀ r' ∈ (run nxt s es).db, ∃ r ∈ s.db, r.name = r'.name ∧ r.nextTime ≤ r'.nextTime := by
  induction es with
  | nil => intro s _ r' hr'; exact ⟨r', hr', rfl, Nat.le_refl _⟩
  | cons e es ih =>
    intro s hI r' hr'
    obtain ⟨r1, hr1, hn1, hle1⟩ := ih (inv_step_lemma hn hI e) r' hr'
    obtain ⟨r, hr, hn2, hcase⟩ := step_next_time hn hI e r1 hr1
    refine ⟨r, hr, by rw [hn2, hn1], ?_⟩
    rcases hcase with rfl | ⟨hlt, _⟩
    · exact hle1
    · omega

/-! ### "a trigger with a count fires at most that many times and is then removed" -/

theorem fires_le_count {nxt : Nat → Nat → Nat} (hn : Increasing nxt) (now : Nat)
    (db0 : List Trigger) (h : WF db0) (es : List Step) (r0 : Trigger) (hr0 : r0 ∈ db0) (c : Nat)
    (hc : r0.remaining = some c) : firesOf (run nxt (init now db0) es) r0.name ≤ c := by
  obtain ⟨hI, h0⟩ := inv_reachable hn now db0 h es
  have h1 := fires_le_wins hI r0.name
  rcases h0.cnt r0 hr0 c hc with ⟨_, _, _, k, _, hsum⟩ | ⟨_, hsum⟩ <;> omega

/-- After the c-th fire (indeed after the c-th successful advance) the row is gone; while the
    row exists fewer than c advances have succeeded. -/
theorem removed_after_count {nxt : Nat → Nat → Nat} (hn : Increasing nxt) (now : Nat)
    (db0 : List Trigger) (h : WF db0) (es : List Step) (r0 : Trigger) (hr0 : r0 ∈ db0) (c : Nat)
    (hc : r0.remaining = some c) :
    let s := run nxt (init now db0) es
    (firesOf s r0.name = c → ∀ r ∈ s.db, r.name ≠ r0.name) ∧
    ((∃ r ∈ s.db, r.name = r0.name) → winsOf s r0.name < c) ∧
    ((∀ r ∈ s.db, r.name ≠ r0.name) → winsOf s r0.name = c) := by
  intro s
  obtain ⟨hI, h0⟩ := inv_reachable hn now db0 h es
  have h1 := fires_le_wins hI r0.name
  rcases h0.cnt r0 hr0 c hc with ⟨r, hr, hrn, k, hk, hsum⟩ | ⟨hgone, hsum⟩
  · have hkpos : k ≠ 0 := by intro hk0; subst hk0; exact hI.pos r hr hk
    refine ⟨fun hf => ?_, fun _ => ?_, fun hg => absurd hrn (hg r hr)⟩
    · exfalso
      have : firesOf (run nxt (init now db0) es) r0.name = c := hf
      omega
    · show winsOf (run nxt (init now db0) es) r0.name < c
      omega
  · exact ⟨fun _ => hgone, fun ⟨r, hr, hrn⟩ => absurd hrn (hgone r hr), fun _ => hsum⟩

/-- The count hypothesis (no stored 0) is needed: a trigger stored with count 0 fires once.
    The REST layer's minimum (Tie A: `rest_minimum_excludes_zero`) is what keeps it out. -/
theorem fires_le_count_full_fails :
    ¬ (∀ (nxt : Nat → Nat → Nat) (now : Nat) (db0 : List Trigger) (es : List Step)
        (r0 : Trigger) (c : Nat), Increasing nxt → r0 ∈ db0 → r0.remaining = some c →
        firesOf (run nxt (init now db0) es) r0.name ≤ c) := by
  intro hall
  have h := hall (fun _ t => t + 60) 60
    [{ name := 0, nextTime := 60, remaining := some 0, pat := some 0, pay := ⟨0, 0, 0, 0⟩ }]
    [.read 0, .advance 0, .start 0]
    { name := 0, nextTime := 60, remaining := some 0, pat := some 0, pay := ⟨0, 0, 0, 0⟩ } 0
    inc60 (by simp) rfl
  revert h
  decide

/-! ### Creation: "a first-execution-time-only trigger fires once" -/

/-- `create_cron_trigger` with a first time and no pattern stores count 1 and the first time as
    next time (whatever count ≤ 1 was asked for). -/
theorem first_time_only_created_with_count_one (q : CreateReq) (n : Nat) (r : Option Nat)
    (hp : q.hasPat = false) (h : create q = .ok (n, r)) :
    r = some 1 ∧ q.first = some n ∧ q.now + firstMargin ≤ n := by
  unfold create at h
  cases hf : q.first <;> cases hc : q.count <;> simp_all [truthy] <;> grind [truthy]

/-- A first-execution-time-only trigger (stored with count 1, no pattern) fires at most once,
    and its row is gone once it has fired. -/
theorem first_time_only_fires_once {nxt : Nat → Nat → Nat} (hn : Increasing nxt) (now : Nat)
    (db0 : List Trigger) (h : WF db0) (es : List Step) (r0 : Trigger) (hr0 : r0 ∈ db0)
    (hc : r0.remaining = some 1) :
    let s := run nxt (init now db0) es
    firesOf s r0.name ≤ 1 ∧ (firesOf s r0.name = 1 → ∀ r ∈ s.db, r.name ≠ r0.name) :=
  ⟨fires_le_count hn now db0 h es r0 hr0 1 hc,
   (removed_after_count hn now db0 h es r0 hr0 1 hc).1⟩

/-- A count accepted by the API (≥ the regenerated REST minimum) is never stored as 0, i.e. the
    `pos` part of `WF` holds for whatever `create` stores. -/
theorem created_count_positive (q : CreateReq) (n : Nat) (r : Option Nat)
    (hmin : ∀ c, q.count = some c → remainingExecutionsMinimum ≤ c)
    (h : create q = .ok (n, r)) : r ≠ some 0 := by
  have hz : ∀ c, q.count = some c → c ≠ 0 := fun c hc => rest_minimum_excludes_zero c (hmin c hc)
  unfold create at h
  cases hf : q.first <;> cases hc : q.count <;> simp_all [truthy] <;> grind [truthy]

/-! ### Non-vacuity: concrete states meeting the hypotheses -/

/-- two triggers (one counted, one first-time-only), three processors racing, a crash: the
    hypotheses of the theorems above hold and the mechanisms are exercised. -/
def exDb : List Trigger :=
  [{ name := 0, nextTime := 60, remaining := some 2, pat := some 0, pay := ⟨0, 1, 0, 0⟩ },
   { name := 1, nextTime := 90, remaining := some 1, pat := none, pay := ⟨1, 2, 1, 0⟩ }]

def exSteps : List Step :=
  [.tick 59, .read 0, .read 1, .advance 1, .advance 0, .start 1, .tick 60, .read 2, .read 0,
   .advance 2, .start 2, .advance 2, .advance 0, .advance 0, .start 2]

example : WF exDb := by
  constructor
  · intro a ha b hb hab
    simp [exDb] at ha hb
    rcases ha with rfl | rfl <;> rcases hb with rfl | rfl <;> simp_all
  · intro r hr
    simp [exDb] at hr
    rcases hr with rfl | rfl <;> simp

example : Increasing (fun _ t => t + 60) := inc60

example : noCrash exSteps = true := by decide

example :
    let s := run (fun _ t => t + 60) (init 0 exDb) exSteps
    s.log.map (fun w => (w.name, w.nextTime)) = [(0, 120), (1, 90), (0, 60)] ∧
    s.db = [] ∧ firesOf s 0 = 2 ∧ firesOf s 1 = 1 := by
  decide

example : create { hasPat := false, patValid := false, first := some 200, count := none,
                   now := 100, patNext := 0 } = .ok (200, some 1) := rfl

end Mistral.Props.C17
