/- The resume transaction: it never raises, never pauses anything (an execution that is not PAUSED is not PAUSED
   afterwards) and the resumed execution leaves PAUSED.  Relation `NP`, induction over `prop` in the modes
   resume / belowR / update (of an execution that is not PAUSED). -/
import Mistral.Lemmas.TreeProp
namespace Mistral.Tree
open Mistral Mistral.Lifecycle

/-- every existing execution is still there, and one that is not PAUSED is not PAUSED afterwards -/
def NP (w w' : World) : Prop :=
  ∀ (i : Nat) (e : Exec), w.execs[i]? = some e → ∃ e', w'.execs[i]? = some e' ∧ (e.state ≠ .PAUSED → e'.state ≠ .PAUSED)

theorem NP.refl (w : World) : NP w w := fun _ e h => ⟨e, h, id⟩

theorem NP.trans {a b c : World} (h1 : NP a b) (h2 : NP b c) : NP a c := by
  intro i e h
  obtain ⟨e', he', f1⟩ := h1 i e h
  obtain ⟨e'', he'', f2⟩ := h2 i e' he'
  exact ⟨e'', he'', fun hn => f2 (f1 hn)⟩

theorem NP.of_same {w w' : World} (he : w'.execs = w.execs) : NP w w' :=
  fun _ e h => ⟨e, by rw [he]; exact h, id⟩

theorem NP.setExec {w w' : World} {i : Nat} {e e' : Exec} (h : w.execs[i]? = some e)
    (he : w'.execs = w.execs.set i e') (hf : e.state ≠ .PAUSED → e'.state ≠ .PAUSED) : NP w w' := by
  intro k ek hk
  rw [he, List.getElem?_set]
  by_cases hik : i = k
  · subst hik; rw [h] at hk; cases hk
    exact ⟨e', by simp [lt_of_get h], hf⟩
  · exact ⟨ek, by simp [hik, hk], id⟩

theorem np_foldl {α : Type} (f : World → α → World) (hf : ∀ w a, NP w (f w a)) (l : List α) (w : World) :
    NP w (l.foldl f w) := by
  induction l generalizing w with
  | nil => exact NP.refl w
  | cons a l ih => exact (hf w a).trans (ih (f w a))

theorem np_dispatchOne (w : World) (wf : Nat) (n : String) : NP w (dispatchOne w wf n) := by
  unfold dispatchOne
  split
  · rename_i e he
    split
    · exact NP.refl w
    · split
      · exact NP.setExec (e := e) he rfl id
      · exact NP.of_same rfl
  · exact NP.refl w

theorem np_dispatch (w : World) (wf : Nat) (names : List String) : NP w (dispatch w wf names) :=
  np_foldl _ (fun w n => np_dispatchOne w wf n) _ w

theorem np_finish (w : World) (i : Nat) (e : Exec) (s : St) (info : Info) (out : Out)
    (h : w.execs[i]? = some e) (hs : s ≠ .PAUSED) : NP w (finish w i e s info out) :=
  NP.setExec (e := e) h rfl (fun _ => hs)

theorem np_checkAndComplete (w : World) (i : Nat) : NP w (checkAndComplete w i) := by
  unfold checkAndComplete
  split
  · exact NP.refl w
  · rename_i e he
    split
    · exact NP.refl w
    · simp only
      split
      · exact NP.refl w
      · split
        · exact np_finish w i e _ _ _ he (by decide)
        · split
          · exact np_finish w i e _ _ _ he (by decide)
          · exact np_finish w i e _ _ _ he (by decide)

theorem np_stopOne (w w' : World) (i : Nat) (s : St) (msg : Info) (h : stopOne w i s msg = some w') : NP w w' := by
  unfold stopOne at h
  split at h
  · simp at h
  · rename_i e he
    split at h
    all_goals first
      | (cases h; exact NP.refl w)
      | (split at h
         · cases h; exact NP.refl w
         · split at h
           · cases h; exact np_finish w i e _ _ _ he (by decide)
           · simp at h)

theorem np_taskUpdate (w : World) (t : Nat) (s : St) : NP w (taskUpdate w t s) := by
  unfold taskUpdate
  split
  · exact NP.refl w
  · split
    · exact NP.refl w
    · split
      · exact NP.refl w
      · split
        · exact NP.refl w
        · exact NP.of_same rfl

theorem np_forceFail (w : World) (t : Nat) : NP w (forceFail w t).1 := by
  unfold forceFail
  split
  · exact NP.refl w
  · simp only
    split
    · rename_i w2 h2
      refine NP.trans ?_ (np_stopOne _ w2 _ _ _ h2)
      exact NP.of_same rfl
    · exact NP.of_same rfl

theorem np_resumeSelf (c : Cfg) (w : World) (x : Nat) : NP w (resumeSelf c w x) := by
  unfold resumeSelf
  split
  · exact NP.refl w
  · rename_i e he
    have h1 : NP w { w with tasks := w.tasks.map fun tk =>
        if tk.wf == x && isCompleted tk.state && !tk.processed then { tk with processed := true } else tk } :=
      NP.of_same rfl
    simp only
    split
    · exact h1.trans (np_checkAndComplete _ _)
    · refine (h1.trans ?_).trans (np_dispatch _ _ _)
      refine NP.trans ?_ (NP.trans (np_dispatch _ _ _) (NP.of_same rfl))
      exact NP.setExec (e := e) he rfl id

theorem valid_running_of_pausedOrIdle (s : St) (h : isPausedOrIdle s = true) :
    (isValidTransition s .RUNNING == some true) = true := by
  cases s <;> first | rfl | (exfalso; revert h; decide) | decide

/-- the loop over the sub-workflows inside resume_workflow -/
theorem np_kids (c : Cfg) (f : Nat)
    (hm : ∀ w x, NP w (prop c f .resume w x).1 ∧ (prop c f .resume w x).2 = false)
    (hm' : ∀ w x, NP w (prop c f .belowR w x).1 ∧ (prop c f .belowR w x).2 = false) (l : List Nat) :
    ∀ (w0 : World) (acc : World × Bool), NP w0 acc.1 → acc.2 = false →
      let r := l.foldl (fun (acc : World × Bool) k =>
        if acc.2 then acc else
        match acc.1.execs[k]? with
        | some ek => if isCompleted ek.state then prop c f .belowR acc.1 k else prop c f .resume acc.1 k
        | none => acc) acc
      NP w0 r.1 ∧ r.2 = false := by
  induction l with
  | nil => intro w0 acc h hr; exact ⟨h, hr⟩
  | cons k l ih =>
    intro w0 acc h hr
    simp only [List.foldl_cons]
    apply ih
    · split
      · exact h
      · split
        · split
          · exact h.trans (hm' _ _).1
          · exact h.trans (hm _ _).1
        · exact h
    · rw [hr]
      simp only [Bool.false_eq_true, if_false]
      split
      · split
        · exact (hm' _ _).2
        · exact (hm _ _).2
      · exact hr

/-- resume_workflow, the visit of a completed sub-workflow and the `_on_action_update` of an execution that is
    not PAUSED: no exception, nothing gets paused -/
theorem resume_np (c : Cfg) : ∀ (f : Nat),
    (∀ w x, NP w (prop c f .resume w x).1 ∧ (prop c f .resume w x).2 = false) ∧
    (∀ w x, NP w (prop c f .belowR w x).1 ∧ (prop c f .belowR w x).2 = false) ∧
    (∀ w x e, w.execs[x]? = some e → isPaused e.state = false →
       NP w (prop c f .update w x).1 ∧ (prop c f .update w x).2 = false) := by
  intro f
  induction f with
  | zero =>
    refine ⟨fun w x => ⟨NP.refl w, rfl⟩, fun w x => ⟨NP.refl w, rfl⟩, fun w x e he _ => ?_⟩
    simp only [prop, updateLocal, he]
    split
    · exact ⟨NP.refl w, trivial⟩
    · exact ⟨np_taskUpdate w _ _, trivial⟩
  | succ f ih =>
    obtain ⟨ihR, ihB, ihU⟩ := ih
    refine ⟨fun w x => ?_, fun w x => ?_, fun w x e he hp => ?_⟩
    · simp only [prop]
      split
      · exact ⟨NP.refl w, rfl⟩
      · split
        · exact ⟨NP.refl w, rfl⟩
        · have hk := np_kids c f ihR ihB (kidsOf w x) w (w, false) (NP.refl w) rfl
          simp only at hk
          generalize (kidsOf w x).foldl _ (w, false) = r at hk ⊢
          obtain ⟨k1, k2⟩ := hk
          simp only [k2, Bool.false_eq_true, if_false]
          split
          · exact ⟨k1, k2⟩
          · rename_i e he
            split
            · exact ⟨k1, k2⟩
            · rename_i hpi
              have hv := valid_running_of_pausedOrIdle e.state (by simpa using hpi)
              simp only [hv, if_true]
              have h1 : NP r.1 (resumeSelf c (setState r.1 x e .RUNNING) x) :=
                (NP.setExec (e := e) he rfl (fun _ => by simp)).trans (np_resumeSelf c _ x)
              split
              · exact ⟨k1.trans h1, rfl⟩
              · split
                · exact ⟨k1.trans (h1.trans (NP.of_same rfl)), rfl⟩
                · -- `_on_action_update` of x: it is RUNNING or completed now, not PAUSED
                  obtain ⟨e1, he1, hne⟩ := h1 x e he
                  -- x is not PAUSED after setState + resumeSelf
                  have hx1 : ∃ e2, (resumeSelf c (setState r.1 x e .RUNNING) x).execs[x]? = some e2 ∧
                      isPaused e2.state = false := by
                    have hs : (setState r.1 x e .RUNNING).execs[x]? =
                        some { e with state := .RUNNING, info := .none, accepted := false } := by
                      simp [setState, lt_of_get he]
                    obtain ⟨e2, he2, hn2⟩ := np_resumeSelf c (setState r.1 x e .RUNNING) x x _ hs
                    refine ⟨e2, he2, ?_⟩
                    have := hn2 (by simp)
                    revert this; cases e2.state <;> simp [isPaused, Gen.States.pausedStates]
                  obtain ⟨e2, he2, hp2⟩ := hx1
                  obtain ⟨u1, u2⟩ := ihU _ x e2 he2 hp2
                  exact ⟨k1.trans (h1.trans u1), u2⟩
    · simp only [prop]
      exact np_kids c f ihR ihB (kidsOf w x) w (w, false) (NP.refl w) rfl
    · simp only [prop, he]
      split
      · exact ⟨NP.refl w, rfl⟩
      · rename_i t ht
        split
        · exact ⟨NP.refl w, rfl⟩
        · rename_i tk htk
          have h1 := np_taskUpdate w t e.state
          simp only [hp, Bool.false_eq_true, if_false]
          split
          · split
            · exact ⟨h1, rfl⟩
            · obtain ⟨r1, r2⟩ := ihR (taskUpdate w t e.state) tk.wf
              simp only [r2, Bool.false_eq_true, if_false]
              exact ⟨h1.trans r1, trivial⟩
          · exact ⟨h1, rfl⟩


theorem not_paused_of_not_pausedOrIdle (s : St) (h : ¬ ((!isPausedOrIdle s) = false)) : s ≠ .PAUSED := by
  intro hs; rw [hs] at h; exact h (by decide)

/-- the resumed execution leaves PAUSED: a resume request for an execution that is PAUSED (or IDLE) never raises,
    pauses nothing, and afterwards the execution is not PAUSED (it is RUNNING, or already completed) -/
theorem resume_leaves_paused (c : Cfg) (f : Nat) (w : World) (x : Nat) (e : Exec) (he : w.execs[x]? = some e)
    (hp : isPausedOrIdle e.state = true) :
    ∃ e', (prop c (f + 1) .resume w x).1.execs[x]? = some e' ∧ e'.state ≠ .PAUSED := by
  obtain ⟨ihR, ihB, ihU⟩ := resume_np c f
  simp only [prop, he, hp, Bool.not_true, Bool.false_eq_true, if_false]
  have hk := np_kids c f ihR ihB (kidsOf w x) w (w, false) (NP.refl w) rfl
  simp only at hk
  generalize (kidsOf w x).foldl _ (w, false) = r at hk ⊢
  obtain ⟨k1, k2⟩ := hk
  simp only [k2, Bool.false_eq_true, if_false]
  obtain ⟨er, her, _⟩ := k1 x e he
  rw [her]
  simp only
  split
  · rename_i hnp
    exact ⟨er, her, not_paused_of_not_pausedOrIdle er.state (by simpa using hnp)⟩
  · rename_i hpi
    have hv := valid_running_of_pausedOrIdle er.state (by simpa using hpi)
    simp only [hv, if_true]
    have hs : (setState r.1 x er .RUNNING).execs[x]? =
        some { er with state := .RUNNING, info := .none, accepted := false } := by
      simp [setState, lt_of_get her]
    obtain ⟨e2, he2, hn2⟩ := np_resumeSelf c (setState r.1 x er .RUNNING) x x _ hs
    have hne2 : e2.state ≠ .PAUSED := hn2 (by simp)
    split
    · exact ⟨e2, he2, hne2⟩
    · split
      · exact ⟨e2, he2, hne2⟩
      · have hp2 : isPaused e2.state = false := by
          revert hne2; cases e2.state <;> simp [isPaused, Gen.States.pausedStates]
        obtain ⟨u1, _⟩ := ihU _ x e2 he2 hp2
        obtain ⟨e3, he3, hn3⟩ := u1 x e2 he2
        exact ⟨e3, he3, hn3 hne2⟩

end Mistral.Tree
