/- The calling task follows: whenever the pause transaction takes an execution from RUNNING to PAUSED, its calling
   task (RUNNING, in a workflow that is not completed) is PAUSED in the same transaction if it is a plain task,
   and the `_on_action_update` job is pending if it is a with-items task.  Relation `PFollow`, second induction
   over `prop` (the monotonicity / no-raise facts come from `pause_ok`). -/
import Mistral.Lemmas.TreeProp
namespace Mistral.Tree
open Mistral Mistral.Lifecycle

def taskState (w : World) (t : Nat) : Option St := (w.tasks[t]?).map (·.state)

/-- what may happen to a task row in the pause transaction: nothing, RUNNING → PAUSED, or force-failed because its
    workflow is completed -/
def TState (w : World) (tk tk' : Task) : Prop :=
  tk'.state = tk.state ∨ (tk.state = .RUNNING ∧ tk'.state = .PAUSED) ∨
  (tk'.state = .ERROR ∧ ∃ pe, w.execs[tk.wf]? = some pe ∧ isCompleted pe.state = true)

structure PFollow (c : Cfg) (w w' : World) : Prop where
  pend : ∀ it : Item, it ∈ w.pending → it ∈ w'.pending
  tst : ∀ (t : Nat) (tk tk' : Task), w.tasks[t]? = some tk → w'.tasks[t]? = some tk' →
    tk'.name = tk.name ∧ TState w tk tk'
  edefn : ∀ (i : Nat) (e e' : Exec), w.execs[i]? = some e → w'.execs[i]? = some e' → e'.defn = e.defn
  follow : ∀ (y : Nat) (e e' : Exec) (t : Nat) (tk : Task) (pe : Exec),
    w.execs[y]? = some e → w'.execs[y]? = some e' → e.state = .RUNNING → e'.state = .PAUSED →
    e.parent = some t → w.tasks[t]? = some tk →
    w.execs[tk.wf]? = some pe → isCompleted pe.state = false →
    (isWithItemsTask c w t = false → tk.state = .RUNNING → taskState w' t = some .PAUSED) ∧
    (isWithItemsTask c w t = true → Item.jobChildUpdate y ∈ w'.pending)

theorem PFollow.refl (c : Cfg) (w : World) : PFollow c w w :=
  ⟨fun _ h => h, fun _ tk tk' h h' => by rw [h] at h'; cases h'; exact ⟨rfl, Or.inl rfl⟩,
   fun _ e e' h h' => by rw [h] at h'; cases h'; rfl,
   fun y e e' t tk pe h h' hr hp _ _ _ _ => by
     rw [h] at h'; cases h'; rw [hr] at hp; exact absurd hp (by decide)⟩

theorem isWithItems_mono {c : Cfg} {w w' : World} (h : PMono w w') (f : PFollow c w w') (t : Nat) :
    isWithItemsTask c w' t = isWithItemsTask c w t := by
  unfold isWithItemsTask
  cases htk : w.tasks[t]? with
  | none =>
    have : w'.tasks[t]? = none := by
      rcases Nat.lt_or_ge t w'.tasks.length with h' | h'
      · rw [h.tlen] at h'; rw [List.getElem?_eq_getElem h'] at htk; simp at htk
      · exact List.getElem?_eq_none h'
    rw [this]
  | some tk =>
    obtain ⟨tk', htk', hwf⟩ := h.tasks t tk htk
    obtain ⟨hn, _⟩ := f.tst t tk tk' htk htk'
    rw [htk']
    simp only [hwf, hn]
    cases he : w.execs[tk.wf]? with
    | none =>
      have : w'.execs[tk.wf]? = none := by
        rcases Nat.lt_or_ge tk.wf w'.execs.length with h' | h'
        · rw [h.elen] at h'; rw [List.getElem?_eq_getElem h'] at he; simp at he
        · exact List.getElem?_eq_none h'
      rw [this]
    | some e =>
      obtain ⟨e', he', _, _⟩ := h.execs tk.wf e he
      rw [he']
      simp only [f.edefn tk.wf e e' he he']

theorem tpaused_stays {c : Cfg} {w w' : World} (h : PMono w w') (f : PFollow c w w') {t : Nat} {tk : Task} {pe : Exec}
    (htk : w.tasks[t]? = some tk) (hp : tk.state = .PAUSED) (hpe : w.execs[tk.wf]? = some pe)
    (hl : isCompleted pe.state = false) : taskState w' t = some .PAUSED := by
  obtain ⟨tk', htk', _⟩ := h.tasks t tk htk
  obtain ⟨_, s⟩ := f.tst t tk tk' htk htk'
  simp only [taskState, htk', Option.map_some]
  rcases s with s | ⟨s, _⟩ | ⟨_, pe2, hpe2, hc2⟩
  · rw [s, hp]
  · rw [hp] at s; exact absurd s (by decide)
  · rw [hpe] at hpe2; cases hpe2; rw [hc2] at hl; exact absurd hl (by simp)

theorem PFollow.trans {c : Cfg} {a b d : World} (m1 : PMono a b) (f1 : PFollow c a b) (m2 : PMono b d)
    (f2 : PFollow c b d) : PFollow c a d := by
  refine ⟨fun it h => f2.pend it (f1.pend it h), fun t tk tk'' h h'' => ?_, fun i e e'' h h'' => ?_,
          fun y e e'' t tk pe hy hy'' hr hp hpar htk hpe hl => ?_⟩
  · obtain ⟨tk', h', hwf⟩ := m1.tasks t tk h
    obtain ⟨n1, s1⟩ := f1.tst t tk tk' h h'
    obtain ⟨n2, s2⟩ := f2.tst t tk' tk'' h' h''
    refine ⟨n2.trans n1, ?_⟩
    -- a completed owner in b is a completed owner in a
    have hown : (∃ pe, b.execs[tk'.wf]? = some pe ∧ isCompleted pe.state = true) →
        ∃ pe, a.execs[tk.wf]? = some pe ∧ isCompleted pe.state = true := by
      rintro ⟨pe, hpe, hc⟩
      rw [hwf] at hpe
      obtain ⟨pa, hpa, _, _⟩ := m1.back hpe
      exact ⟨pa, hpa, by rw [← completed_iff m1 hpa hpe]; exact hc⟩
    rcases s2 with s2 | ⟨s2, s2'⟩ | ⟨s2, ho⟩
    · rcases s1 with s1 | ⟨s1, s1'⟩ | ⟨s1, ho1⟩
      · exact Or.inl (s2.trans s1)
      · exact Or.inr (Or.inl ⟨s1, s2.trans s1'⟩)
      · exact Or.inr (Or.inr ⟨s2.trans s1, ho1⟩)
    · rcases s1 with s1 | ⟨_, s1'⟩ | ⟨s1, _⟩
      · exact Or.inr (Or.inl ⟨by rw [← s1]; exact s2, s2'⟩)
      · rw [s1'] at s2; exact absurd s2 (by decide)
      · rw [s1] at s2; exact absurd s2 (by decide)
    · exact Or.inr (Or.inr ⟨s2, hown ho⟩)
  · obtain ⟨e', h', _, _⟩ := m1.execs i e h
    exact (f2.edefn i e' e'' h' h'').trans (f1.edefn i e e' h h')
  · obtain ⟨e', hy', hpar', s⟩ := m1.execs y e hy
    obtain ⟨tk', htk', hwf⟩ := m1.tasks t tk htk
    obtain ⟨pe', hpe', _, _⟩ := m1.execs tk.wf pe hpe
    have hl' : isCompleted pe'.state = false := by rw [completed_iff m1 hpe hpe']; exact hl
    have hwi := isWithItems_mono m1 f1 (c := c) t
    obtain ⟨_, ts⟩ := f1.tst t tk tk' htk htk'
    rcases s with s | ⟨_, s⟩
    · -- still RUNNING in b
      have h2 := f2.follow y e' e'' t tk' pe' hy' hy'' (by rw [s]; exact hr) hp (by rw [hpar']; exact hpar) htk'
        (by rw [hwf]; exact hpe') hl'
      rw [hwi] at h2
      refine ⟨fun hw htr => ?_, h2.2⟩
      rcases ts with ts | ⟨_, ts⟩ | ⟨_, pe2, hpe2, hc2⟩
      · exact h2.1 hw (by rw [ts]; exact htr)
      · exact tpaused_stays m2 f2 htk' ts (by rw [hwf]; exact hpe') hl'
      · rw [hpe] at hpe2; cases hpe2; rw [hc2] at hl; exact absurd hl (by simp)
    · -- PAUSED in b already
      have h1 := f1.follow y e e' t tk pe hy hy' hr s hpar htk hpe hl
      refine ⟨fun hw htr => ?_, fun hw => f2.pend _ (h1.2 hw)⟩
      have hpb := h1.1 hw htr
      simp only [taskState, htk', Option.map_some, Option.some.injEq] at hpb
      exact tpaused_stays m2 f2 htk' hpb (by rw [hwf]; exact hpe') hl'


/-! ### primitives -/

theorem pf_noexec {c : Cfg} {w w' : World} (he : w'.execs = w.execs)
    (hp : ∀ it : Item, it ∈ w.pending → it ∈ w'.pending)
    (ht : ∀ (t : Nat) (tk tk' : Task), w.tasks[t]? = some tk → w'.tasks[t]? = some tk' →
      tk'.name = tk.name ∧ TState w tk tk') : PFollow c w w' :=
  ⟨hp, ht, fun i e e' h h' => by rw [he, h] at h'; cases h'; rfl,
   fun y e e' t tk pe h h' hr hpz _ _ _ _ => by
     rw [he, h] at h'; cases h'; rw [hr] at hpz; exact absurd hpz (by decide)⟩

theorem tstate_setTask (w : World) (t : Nat) (tk tk' : Task) (p : List Item) (h : w.tasks[t]? = some tk)
    (hn : tk'.name = tk.name) (hs : TState w tk tk') :
    ∀ (u : Nat) (a a' : Task), w.tasks[u]? = some a →
      ({ w with tasks := w.tasks.set t tk', pending := p } : World).tasks[u]? = some a' →
      a'.name = a.name ∧ TState w a a' := by
  intro u a a' hu hu'
  simp only [List.getElem?_set] at hu'
  by_cases htu : t = u
  · subst htu
    rw [h] at hu; cases hu
    simp [lt_of_get h] at hu'
    subst hu'
    exact ⟨hn, hs⟩
  · simp [htu, hu] at hu'
    subst hu'
    exact ⟨rfl, Or.inl rfl⟩

theorem valid_paused_cases (s : St) (hc : isCompleted s = false)
    (hv : ¬ ((isValidTransition s .PAUSED != some true) = true)) : s = .RUNNING ∨ s = .PAUSED := by
  cases s <;> first | exact Or.inl rfl | exact Or.inr rfl | (exfalso; revert hc hv; decide)

theorem pf_taskUpdate (c : Cfg) (w : World) (t : Nat) : PFollow c w (taskUpdate w t .PAUSED) := by
  unfold taskUpdate
  split
  · exact PFollow.refl c w
  · rename_i tk htk
    split
    · exact PFollow.refl c w
    · rename_i hc
      split
      · exact PFollow.refl c w
      · rename_i hv
        split
        · exact PFollow.refl c w
        · refine pf_noexec rfl (fun it h => ?_) (tstate_setTask w t tk _ _ htk rfl ?_)
          · simp only; split
            · exact List.mem_append_left _ h
            · exact h
          · rcases valid_paused_cases tk.state (by simpa using hc) hv with h1 | h1
            · exact Or.inr (Or.inl ⟨h1, rfl⟩)
            · exact Or.inl h1.symm

theorem taskUpdate_paused (w : World) (t : Nat) (tk : Task) (htk : w.tasks[t]? = some tk) (hr : tk.state = .RUNNING) :
    taskState (taskUpdate w t .PAUSED) t = some .PAUSED := by
  have hc : isCompleted tk.state = false := by rw [hr]; decide
  have hv : (isValidTransition tk.state .PAUSED != some true) = false := by rw [hr]; decide
  have hb : (St.PAUSED == St.RUNNING) = false := by decide
  unfold taskUpdate taskState
  rw [htk]
  simp only [hc, hv, hb, Bool.false_eq_true, if_false, Bool.false_and]
  rw [List.getElem?_set_self (lt_of_get htk)]
  rfl

theorem pf_forceFail (c : Cfg) (w : World) (t : Nat) (tk : Task) (e : Exec) (htk : w.tasks[t]? = some tk)
    (he : w.execs[tk.wf]? = some e) (hc : isCompleted e.state = true) : PFollow c w (forceFail w t).1 := by
  unfold forceFail
  rw [htk]
  simp only [stopOne, he, hc, if_true]
  exact pf_noexec rfl (fun _ h => h) (tstate_setTask w t tk _ _ htk rfl (Or.inr (Or.inr ⟨rfl, e, he, hc⟩)))

theorem wi_setState (c : Cfg) (w : World) (x : Nat) (e : Exec) (s : St) (he : w.execs[x]? = some e) (t : Nat) :
    isWithItemsTask c (setState w x e s) t = isWithItemsTask c w t := by
  unfold isWithItemsTask setState
  simp only
  cases htk : w.tasks[t]? with
  | none => rfl
  | some tk =>
    simp only [List.getElem?_set]
    by_cases h : x = tk.wf
    · subst h
      simp only [if_true, lt_of_get he, he]
    · simp only [h, if_false]

/-- RUNNING → PAUSED of x followed by what `schedule_on_action_update` does, as ONE step -/
theorem pf_pauseStep {c : Cfg} (w : World) (x : Nat) (e : Exec) (he : w.execs[x]? = some e) (w2 : World)
    (m : PMono (setState w x e .PAUSED) w2) (f : PFollow c (setState w x e .PAUSED) w2)
    (hx : ∀ (t : Nat) (tk : Task) (pe : Exec), e.parent = some t → w.tasks[t]? = some tk →
      w.execs[tk.wf]? = some pe → isCompleted pe.state = false →
      (isWithItemsTask c w t = false → tk.state = .RUNNING → taskState w2 t = some .PAUSED) ∧
      (isWithItemsTask c w t = true → Item.jobChildUpdate x ∈ w2.pending)) :
    PFollow c w w2 := by
  have hlt := lt_of_get he
  have hex : ∀ (i : Nat) (a : Exec), w.execs[i]? = some a →
      ∃ a1, (setState w x e .PAUSED).execs[i]? = some a1 ∧ a1.defn = a.defn ∧ a1.parent = a.parent ∧
        (i ≠ x → a1 = a) ∧ (isCompleted a.state = false → isCompleted a1.state = false) ∧
        (isCompleted a1.state = true → isCompleted a.state = true) := by
    intro i a ha
    simp only [setState, List.getElem?_set]
    by_cases h : x = i
    · subst h; rw [he] at ha; cases ha
      exact ⟨{ e with state := .PAUSED, info := .none, accepted := false }, by simp [hlt], rfl, rfl,
        fun h => absurd rfl h, fun _ => (by decide : isCompleted St.PAUSED = false),
        fun h => absurd h (by show ¬ isCompleted St.PAUSED = true; decide)⟩
    · exact ⟨a, by simp [h, ha], rfl, rfl, fun _ => rfl, id, id⟩
  refine ⟨fun it h => f.pend it h, fun t tk tk' h h' => ?_, fun i a a' h h' => ?_,
          fun y a a' t tk pe hy hy' hr hp hpar htk hpe hl => ?_⟩
  · obtain ⟨n, s⟩ := f.tst t tk tk' h h'
    refine ⟨n, ?_⟩
    rcases s with s | s | ⟨s, pe1, hpe1, hc1⟩
    · exact Or.inl s
    · exact Or.inr (Or.inl s)
    · have hlt2 : tk.wf < w.execs.length := by
        have := lt_of_get hpe1; simpa [setState] using this
      obtain ⟨pa, hpa⟩ := get_of_lt hlt2
      obtain ⟨a1, ha1, _, _, _, _, hcc⟩ := hex tk.wf pa hpa
      rw [hpe1] at ha1; cases ha1
      exact Or.inr (Or.inr ⟨s, pa, hpa, hcc hc1⟩)
  · obtain ⟨a1, ha1, hd, _⟩ := hex i a h
    exact (f.edefn i a1 a' ha1 h').trans hd
  · by_cases hyx : y = x
    · subst hyx
      rw [he] at hy; cases hy
      exact hx t tk pe hpar htk hpe hl
    · obtain ⟨a1, ha1, _, _, hsame, _⟩ := hex y a hy
      have := hsame hyx; subst this
      obtain ⟨pe1, hpe1, _, _, _, hl1, _⟩ := hex tk.wf pe hpe
      have h2 := f.follow y a1 a' t tk pe1 ha1 hy' hr hp hpar htk hpe1 (hl1 hl)
      rw [wi_setState c w x e .PAUSED he t] at h2
      exact h2


/-! ### the induction -/

theorem paused_eq (s : St) (h : isPaused s = true) : s = .PAUSED := by
  cases s <;> first | rfl | (exfalso; revert h; decide)

theorem pmono_pending (w : World) (p : List Item) : PMono w { w with pending := p } :=
  ⟨rfl, fun _ e h => ⟨e, h, rfl, Or.inl rfl⟩, rfl, fun _ tk h => ⟨tk, h, rfl⟩⟩

/-- the task part of `_on_action_update(x)` for a PAUSED x -/
theorem updateLocal_ok (c : Cfg) (w : World) (x : Nat) (e : Exec) (he : w.execs[x]? = some e)
    (hp : e.state = .PAUSED) :
    PMono w (updateLocal w x) ∧ PFollow c w (updateLocal w x) ∧
    (∀ (t : Nat) (tk : Task), e.parent = some t → w.tasks[t]? = some tk → tk.state = .RUNNING →
       taskState (updateLocal w x) t = some .PAUSED) := by
  simp only [updateLocal, he]
  cases hpar : e.parent with
  | none => exact ⟨PMono.refl w, PFollow.refl c w, fun t tk h => by simp at h⟩
  | some t =>
    simp only [hp]
    refine ⟨pmono_taskUpdate w t .PAUSED, pf_taskUpdate c w t, fun t' tk ht htk hr => ?_⟩
    cases ht
    exact taskUpdate_paused w t tk htk hr

theorem follow_ok (c : Cfg) : ∀ (f : Nat),
    (∀ w x, Shape w → PFollow c w (prop c f .pause w x).1) ∧
    (∀ w x e, Shape w → w.execs[x]? = some e → isPaused e.state = true →
       PFollow c w (prop c f .update w x).1 ∧
       (∀ (t : Nat) (tk : Task) (pe : Exec), e.parent = some t → w.tasks[t]? = some tk → tk.state = .RUNNING →
          w.execs[tk.wf]? = some pe → isCompleted pe.state = false →
          taskState (prop c f .update w x).1 t = some .PAUSED)) ∧
    (∀ w x, Shape w → PFollow c w (prop c f .belowP w x).1) := by
  intro f
  induction f with
  | zero =>
    refine ⟨fun w x _ => PFollow.refl c w, fun w x e _ he hp => ?_, fun w x _ => PFollow.refl c w⟩
    obtain ⟨_, u2, u3⟩ := updateLocal_ok c w x e he (paused_eq _ hp)
    exact ⟨u2, fun t tk pe hpar htk hr _ _ => u3 t tk hpar htk hr⟩
  | succ f ih =>
    obtain ⟨ihA, ihB, ihC⟩ := ih
    have hok := pause_ok c f
    -- the loop over the sub-workflows
    have hloop : ∀ (w : World), Shape w → ∀ (l : List Nat) (acc : World × Bool), PMono w acc.1 → PFollow c w acc.1 →
        let r := l.foldl (fun (acc : World × Bool) k =>
          if acc.2 then acc else
          match acc.1.execs[k]? with
          | some ek => if isCompleted ek.state then prop c f .belowP acc.1 k else prop c f .pause acc.1 k
          | none => acc) acc
        PMono w r.1 ∧ PFollow c w r.1 := by
      intro w hs l
      induction l with
      | nil => intro acc hm hf; exact ⟨hm, hf⟩
      | cons k l ihl =>
        intro acc hm hf
        simp only [List.foldl_cons]
        apply ihl
        · split
          · exact hm
          · split
            · split
              · exact hm.trans (hok.2.2 acc.1 k (hs.mono hm)).mono
              · exact hm.trans (hok.1 acc.1 k (hs.mono hm)).mono
            · exact hm
        · split
          · exact hf
          · split
            · split
              · exact PFollow.trans hm hf (hok.2.2 acc.1 k (hs.mono hm)).mono (ihC acc.1 k (hs.mono hm))
              · exact PFollow.trans hm hf (hok.1 acc.1 k (hs.mono hm)).mono (ihA acc.1 k (hs.mono hm))
            · exact hf
    refine ⟨?_, ?_, ?_⟩
    · intro w x hs
      have hl := hloop w hs (kidsOf w x) (w, false) (PMono.refl w) (PFollow.refl c w)
      simp only at hl
      simp only [prop]
      generalize (kidsOf w x).foldl _ (w, false) = r at hl ⊢
      obtain ⟨l1, lf⟩ := hl
      split
      · exact lf
      · split
        · exact lf
        · rename_i e he
          split
          · exact lf
          · rename_i hnp
            split
            · rename_i hv
              have hrun := running_of_valid_paused e.state (by simpa using hnp) hv
              have hm1 := pmono_setPaused r.1 x e he hrun
              have hs1 := (hs.mono l1).mono hm1
              have hx1 : (setState r.1 x e .PAUSED).execs[x]? =
                  some { e with state := .PAUSED, info := .none, accepted := false } := by
                simp [setState, lt_of_get he]
              split
              · -- no parent task
                rename_i hpar
                refine PFollow.trans l1 lf hm1 (pf_pauseStep r.1 x e he _ (PMono.refl _) (PFollow.refl c _) ?_)
                intro t tk pe hp; rw [hpar] at hp; cases hp
              · rename_i t hpar
                split
                · -- with-items parent: the update job
                  rename_i hwi
                  refine PFollow.trans l1 lf (hm1.trans (pmono_pending _ _))
                    (pf_pauseStep r.1 x e he _ (pmono_pending _ _)
                      (pf_noexec rfl (fun it h => List.mem_append_left _ h)
                        (fun _ tk tk' h h' => by rw [h] at h'; cases h'; exact ⟨rfl, Or.inl rfl⟩)) ?_)
                  intro t' tk pe hp htk hpe hl
                  rw [hpar] at hp; cases hp
                  rw [wi_setState c r.1 x e .PAUSED he t] at hwi
                  exact ⟨fun h => by rw [hwi] at h; exact absurd h (by simp),
                         fun _ => List.mem_append_right _ (by simp)⟩
                · -- plain parent: `_on_action_update` in the same transaction
                  rename_i hwi
                  obtain ⟨b1, b2⟩ := ihB (setState r.1 x e .PAUSED) x _ hs1 hx1
                    (by show isPaused St.PAUSED = true; decide)
                  have bm := (hok.2.1 (setState r.1 x e .PAUSED) x _ hs1 hx1
                    (by show isPaused St.PAUSED = true; decide)).1
                  refine PFollow.trans l1 lf (hm1.trans bm) (pf_pauseStep r.1 x e he _ bm b1 ?_)
                  intro t' tk pe hp htk hpe hl
                  rw [hpar] at hp; cases hp
                  rw [wi_setState c r.1 x e .PAUSED he t] at hwi
                  refine ⟨fun _ hr => ?_, fun h => by rw [h] at hwi; exact absurd hwi (by simp)⟩
                  -- the owner is not completed in the world where x has just been paused either
                  have hpe1 : ∃ pe1, (setState r.1 x e .PAUSED).execs[tk.wf]? = some pe1 ∧
                      isCompleted pe1.state = false := by
                    obtain ⟨pe1, hpe1, _, _⟩ := hm1.execs tk.wf pe hpe
                    exact ⟨pe1, hpe1, by rw [completed_iff hm1 hpe hpe1]; exact hl⟩
                  obtain ⟨pe1, hpe1, hl1⟩ := hpe1
                  exact b2 t tk pe1 hpar htk hr hpe1 hl1
            · exact lf
    · intro w x e hs he hp
      have hpe := paused_eq _ hp
      simp only [prop, he]
      split
      · exact ⟨PFollow.refl c w, fun t tk pe h => by simp_all⟩
      · rename_i t ht
        split
        · rename_i hnone
          exact ⟨PFollow.refl c w, fun t' tk pe h htk => by rw [ht] at h; cases h; rw [hnone] at htk; simp at htk⟩
        · rename_i tk htk
          simp only [hp, if_true]
          rw [hpe]
          have h1 := pmono_taskUpdate w t .PAUSED
          have f1 := pf_taskUpdate c w t
          have hs1 := hs.mono h1
          have hA := hok.1 (taskUpdate w t .PAUSED) tk.wf hs1
          have fA := ihA (taskUpdate w t .PAUSED) tk.wf hs1
          -- the owner of the task in the intermediate world
          have hlt : tk.wf < (taskUpdate w t .PAUSED).execs.length := by
            rw [h1.elen]; exact hs.2 t tk htk
          obtain ⟨po, hpo⟩ := get_of_lt hlt
          obtain ⟨tk1, htk1, hw1⟩ := h1.tasks t tk htk
          split
          · rename_i hraised
            have hcp : isCompleted po.state = true := by
              cases hc : isCompleted po.state with
              | true => rfl
              | false => rw [hA.noraise ⟨po, hpo, hc⟩] at hraised; exact absurd hraised (by simp)
            obtain ⟨po2, hpo2, _, _⟩ := hA.mono.execs tk.wf po hpo
            obtain ⟨tk2, htk2, hw2⟩ := hA.mono.tasks t tk1 htk1
            have hcp2 : isCompleted po2.state = true := by rw [completed_iff hA.mono hpo hpo2]; exact hcp
            have hown : (prop c f .pause (taskUpdate w t .PAUSED) tk.wf).1.execs[tk2.wf]? = some po2 := by
              rw [hw2, hw1]; exact hpo2
            obtain ⟨m3, _⟩ := pmono_forceFail _ t tk2 po2 htk2 hown hcp2
            have f3 := pf_forceFail c _ t tk2 po2 htk2 hown hcp2
            refine ⟨PFollow.trans h1 f1 (hA.mono.trans m3) (PFollow.trans hA.mono fA m3 f3), ?_⟩
            -- the owner is completed: the premise of the task claim fails
            intro t' tk' pe hpar htk' _ hpe' hl
            rw [ht] at hpar; cases hpar
            rw [htk] at htk'; cases htk'
            obtain ⟨pa, hpa, _, _⟩ := h1.back hpo
            rw [hpe'] at hpa; cases hpa
            rw [← completed_iff h1 hpe' hpo, hcp] at hl; exact absurd hl (by simp)
          · refine ⟨PFollow.trans h1 f1 hA.mono fA, ?_⟩
            intro t' tk' pe hpar htk' hr hpe' hl
            rw [ht] at hpar; cases hpar
            rw [htk] at htk'; cases htk'
            have ht1 : tk1.state = .PAUSED := by
              have := taskUpdate_paused w t tk htk hr
              simpa [taskState, htk1] using this
            obtain ⟨pe1, hpe1, _, _⟩ := h1.execs tk.wf pe hpe'
            exact tpaused_stays hA.mono fA htk1 ht1 (by rw [hw1]; exact hpe1)
              (by rw [completed_iff h1 hpe' hpe1]; exact hl)
    · intro w x hs
      have hl := hloop w hs (kidsOf w x) (w, false) (PMono.refl w) (PFollow.refl c w)
      simp only at hl
      simp only [prop]
      exact hl.2

end Mistral.Tree
