/-
Facts about the engine core with engine commands (`Model/EngineX.lean`): the dispatcher in a completed /
PAUSED workflow, the command backlog.
-/
import Mistral.Model.EngineX
import Mistral.Lemmas.Engine
namespace Mistral.Engine
open Mistral Mistral.Join

/-! ### the dispatcher in a completed workflow -/

theorem dispatchOneX_completed (sp : Spec) (r : Bool) (w : World) (c : Cmd) (h : isCompleted w.wf = true) :
    dispatchOneX sp r w c = w := by
  simp [dispatchOneX, h]

theorem foldl_dispatchOneX_completed (sp : Spec) (r : Bool) (cs : List Cmd) :
    ∀ (w : World), isCompleted w.wf = true → cs.foldl (dispatchOneX sp r) w = w := by
  induction cs with
  | nil => intro w _; rfl
  | cons c cs ih =>
    intro w h
    show cs.foldl (dispatchOneX sp r) (dispatchOneX sp r w c) = w
    rw [dispatchOneX_completed sp r w c h]
    exact ih w h

/-- `_process_commands` in a completed workflow: nothing -/
theorem processX_completed (srt : Sorter) (sp : Spec) (r : Bool) (w : World) (cmds : List Cmd) (h : isCompleted w.wf = true) :
    processX srt sp r w cmds = w := foldl_dispatchOneX_completed sp r _ w h

/-- `dispatch_workflow_commands` in a completed workflow: the backlog is polled (popped) and DROPPED,
    the new commands are not processed -/
theorem dispatchX_completed (srt : Sorter) (sp : Spec) (w : World) (cmds : List Cmd) (h : isCompleted w.wf = true) :
    dispatchX srt sp w cmds = { w with backlog := [] } := by
  unfold dispatchX
  rw [processX_completed srt sp true { w with backlog := [] } w.backlog h]
  exact processX_completed srt sp false { w with backlog := [] } cmds h

/-! ### the dispatcher in a PAUSED workflow -/

theorem dispatchOneX_paused (sp : Spec) (r : Bool) (w : World) (c : Cmd) (h : w.wf = .PAUSED) :
    dispatchOneX sp r w c = { w with backlog := w.backlog ++ [c] } := by
  have h1 : isCompleted w.wf = false := by rw [h]; decide
  have h2 : (w.wf == St.PAUSED) = true := by rw [h]; decide
  simp only [dispatchOneX, h1, h2, Bool.false_eq_true, if_false, if_true]

/-- while PAUSED every command of the list is saved, in order -/
theorem foldl_dispatchOneX_paused (sp : Spec) (r : Bool) (cs : List Cmd) :
    ∀ (w : World), w.wf = .PAUSED → cs.foldl (dispatchOneX sp r) w = { w with backlog := w.backlog ++ cs } := by
  induction cs with
  | nil => intro w _; simp
  | cons c cs ih =>
    intro w h
    show cs.foldl (dispatchOneX sp r) (dispatchOneX sp r w c) = _
    rw [dispatchOneX_paused sp r w c h]
    rw [ih { w with backlog := w.backlog ++ [c] } h]
    simp [List.append_assoc]

/-! ### task commands keep the workflow state and the backlog -/

theorem dispatchTask_frame (sp : Spec) (w : World) (c : Cmd) :
    (dispatchTask sp w c).wf = w.wf ∧ (dispatchTask sp w c).backlog = w.backlog := by
  unfold dispatchTask
  simp only
  split
  · split
    · exact ⟨rfl, rfl⟩
    · simp only
      split <;> exact ⟨rfl, rfl⟩
  · exact ⟨rfl, rfl⟩

theorem dispatchOneX_task_running (sp : Spec) (r : Bool) (w : World) (c : Cmd) (hw : w.wf = .RUNNING)
    (hc : cmdKind c.target = .task) :
    (dispatchOneX sp r w c).wf = .RUNNING ∧ (dispatchOneX sp r w c).backlog = w.backlog := by
  have h1 : isCompleted w.wf = false := by rw [hw]; decide
  have h2 : (w.wf == St.PAUSED) = false := by rw [hw]; decide
  simp only [dispatchOneX, h1, h2, hc, Bool.false_eq_true, if_false]
  split
  · cases r with
    | true => exact ⟨hw, rfl⟩
    | false => exact ⟨hw, rfl⟩
  · rw [(dispatchTask_frame sp w c).1, (dispatchTask_frame sp w c).2]
    exact ⟨hw, rfl⟩

theorem foldl_tasks_running (sp : Spec) (r : Bool) (cs : List Cmd) :
    ∀ (w : World), w.wf = .RUNNING → (∀ c ∈ cs, cmdKind c.target = .task) →
      (cs.foldl (dispatchOneX sp r) w).wf = .RUNNING ∧ (cs.foldl (dispatchOneX sp r) w).backlog = w.backlog := by
  induction cs with
  | nil => intro w h _; exact ⟨h, rfl⟩
  | cons c cs ih =>
    intro w h hc
    have h1 := dispatchOneX_task_running sp r w c h (hc c List.mem_cons_self)
    have h2 := ih (dispatchOneX sp r w c) h1.1 (fun c' hc' => hc c' (List.mem_cons_of_mem _ hc'))
    exact ⟨h2.1, h2.2.trans h1.2⟩

/-! ### `_rearrange_commands` -/

theorem insertBin_perm (lt : Cmd → Cmd → Bool) (sorted : List Cmd) (pivot : Cmd) :
    (insertBin lt sorted pivot).length = sorted.length + 1 ∧
    ∀ x, x ∈ insertBin lt sorted pivot ↔ x = pivot ∨ x ∈ sorted := by
  unfold insertBin
  simp only
  generalize insertBin.go lt sorted pivot (sorted.length + 1) 0 sorted.length = k
  constructor
  · simp only [List.length_append, List.length_cons, List.length_take, List.length_drop]
    omega
  · intro x
    have h := List.take_append_drop k sorted
    constructor
    · intro hx
      rcases List.mem_append.mp hx with h1 | h1
      · exact Or.inr (List.mem_of_mem_take h1)
      · rcases List.mem_cons.mp h1 with h2 | h2
        · exact Or.inl h2
        · exact Or.inr (List.mem_of_mem_drop h2)
    · intro hx
      rcases hx with rfl | hx
      · exact List.mem_append_right _ List.mem_cons_self
      · rw [← h] at hx
        rcases List.mem_append.mp hx with h1 | h1
        · exact List.mem_append_left _ h1
        · exact List.mem_append_right _ (List.mem_cons_of_mem _ h1)

theorem foldl_insertBin_perm (lt : Cmd → Cmd → Bool) (l : List Cmd) :
    ∀ (init : List Cmd), (l.foldl (insertBin lt) init).length = init.length + l.length ∧
      ∀ x, x ∈ l.foldl (insertBin lt) init ↔ x ∈ init ∨ x ∈ l := by
  induction l with
  | nil => intro init; simp
  | cons a l ih =>
    intro init
    obtain ⟨h1, h2⟩ := ih (insertBin lt init a)
    obtain ⟨h3, h4⟩ := insertBin_perm lt init a
    refine ⟨by simp only [List.foldl_cons, h1, h3, List.length_cons]; omega, ?_⟩
    intro x
    simp only [List.foldl_cons, h2, h4, List.mem_cons]
    constructor
    · rintro ((rfl | h) | h)
      · exact Or.inr (Or.inl rfl)
      · exact Or.inl h
      · exact Or.inr (Or.inr h)
    · rintro (h | rfl | h)
      · exact Or.inl (Or.inr h)
      · exact Or.inl (Or.inl rfl)
      · exact Or.inr h

/-- the sort is a rearrangement: same length, same elements -/
theorem pySort_perm (lt : Cmd → Cmd → Bool) (l : List Cmd) :
    (pySort lt l).length = l.length ∧ ∀ x, x ∈ pySort lt l ↔ x ∈ l := by
  unfold pySort
  split
  · simp
  · simp
  · rename_i x0 x1 rest
    simp only
    generalize runLen lt (lt x1 x0) x1 rest 2 = n
    generalize hl : x0 :: x1 :: rest = l'
    obtain ⟨h1, h2⟩ := foldl_insertBin_perm lt (l'.drop n) (if lt x1 x0 = true then (l'.take n).reverse else l'.take n)
    have hlen : (if lt x1 x0 = true then (l'.take n).reverse else l'.take n).length = (l'.take n).length := by
      split <;> simp
    have hmem : ∀ x, x ∈ (if lt x1 x0 = true then (l'.take n).reverse else l'.take n) ↔ x ∈ l'.take n := by
      intro x; split <;> simp
    constructor
    · rw [h1, hlen]
      simp only [List.length_take, List.length_drop]
      omega
    · intro x
      rw [h2, hmem]
      have := List.take_append_drop n l'
      constructor
      · rintro (h | h)
        · exact List.mem_of_mem_take h
        · exact List.mem_of_mem_drop h
      · intro h
        rw [← this] at h
        exact List.mem_append.mp h

theorem splitState_tasks_state (pre : List Cmd) (p : Cmd) (rest : List Cmd)
    (hpre : ∀ c ∈ pre, cmdKind c.target = .task) (hp : cmdKind p.target ≠ .task ∧ cmdKind p.target ≠ .noop) :
    splitState (pre ++ p :: rest) = (pre, some p, rest) := by
  induction pre with
  | nil =>
    simp only [List.nil_append, splitState]
    cases h : cmdKind p.target <;> simp_all
  | cons c cs ih =>
    have hc := hpre c List.mem_cons_self
    simp only [List.cons_append, splitState, hc]
    rw [ih (fun c' hc' => hpre c' (List.mem_cons_of_mem _ hc'))]

theorem splitState_tasks (cs : List Cmd) (h : ∀ c ∈ cs, cmdKind c.target = .task) :
    splitState cs = (cs, none, []) := by
  induction cs with
  | nil => rfl
  | cons c cs ih =>
    simp only [splitState, h c List.mem_cons_self]
    rw [ih (fun c' hc' => h c' (List.mem_cons_of_mem _ hc'))]

theorem filter_noop_tasks (cs : List Cmd) (h : ∀ c ∈ cs, cmdKind c.target = .task) :
    cs.filter (fun c => cmdKind c.target != .noop) = cs := by
  apply List.filter_eq_self.mpr
  intro c hc
  rw [h c hc]; decide

/-- a list of task commands is only sorted -/
theorem rearrange_tasks (srt : List Cmd → List Cmd) (cs : List Cmd) (h : ∀ c ∈ cs, cmdKind c.target = .task) :
    rearrange srt cs = srt cs := by
  unfold rearrange
  simp only [filter_noop_tasks cs h, splitState_tasks cs h]

/-- task commands, then `pause`, then a tail: the task commands sorted, `pause`, the tail without its noops -/
theorem rearrange_tasks_pause (srt : List Cmd → List Cmd) (pre : List Cmd) (p : Cmd) (rest : List Cmd)
    (hpre : ∀ c ∈ pre, cmdKind c.target = .task) (hp : cmdKind p.target = .pause) :
    rearrange srt (pre ++ p :: rest) =
      srt pre ++ p :: rest.filter (fun c => cmdKind c.target != .noop) := by
  unfold rearrange
  have hf : (pre ++ p :: rest).filter (fun c => cmdKind c.target != .noop) =
      pre ++ p :: rest.filter (fun c => cmdKind c.target != .noop) := by
    rw [List.filter_append, filter_noop_tasks pre hpre, List.filter_cons]
    simp [hp]
  simp only [hf, splitState_tasks_state pre p _ hpre (by rw [hp]; exact ⟨by decide, by decide⟩), hp]
  rfl

theorem pySorter_apply (f : Cmd → Bool) (l : List Cmd) : pySorter f l = pySort (cmdLT f) l := rfl

theorem idSorter_apply (f : Cmd → Bool) (l : List Cmd) : idSorter f l = l := rfl

end Mistral.Engine
