/-
Facts about the engine core with engine commands (`Model/EngineX.lean`): the dispatcher in a completed /
PAUSED workflow, the command backlog.
-/
import Mistral.Model.EngineX
import Mistral.Lemmas.Engine
namespace Mistral.Engine
open Mistral Mistral.Join

/-! ### the dispatcher in a completed workflow -/

theorem dispatchOneX_completed (sp : Spec) (r : Bool) (w : World) (c : Cmd) (h : isCompleted w.wf = true) :
    dispatchOneX sp r w c = w := by
  simp [dispatchOneX, h]

theorem foldl_dispatchOneX_completed (sp : Spec) (r : Bool) (cs : List Cmd) :
    ∀ (w : World), isCompleted w.wf = true → cs.foldl (dispatchOneX sp r) w = w := by
  induction cs with
  | nil => intro w _; rfl
  | cons c cs ih =>
    intro w h
    show cs.foldl (dispatchOneX sp r) (dispatchOneX sp r w c) = w
    rw [dispatchOneX_completed sp r w c h]
    exact ih w h

/-- `_process_commands` in a completed workflow: nothing -/
theorem processX_completed (sp : Spec) (r : Bool) (w : World) (cmds : List Cmd) (h : isCompleted w.wf = true) :
    processX sp r w cmds = w := foldl_dispatchOneX_completed sp r _ w h

/-- `dispatch_workflow_commands` in a completed workflow: the backlog is polled (popped) and DROPPED,
    the new commands are not processed -/
theorem dispatchX_completed (sp : Spec) (w : World) (cmds : List Cmd) (h : isCompleted w.wf = true) :
    dispatchX sp w cmds = { w with backlog := [] } := by
  unfold dispatchX
  rw [processX_completed sp true { w with backlog := [] } w.backlog h]
  exact processX_completed sp false { w with backlog := [] } cmds h

/-! ### the dispatcher in a PAUSED workflow -/

theorem dispatchOneX_paused (sp : Spec) (r : Bool) (w : World) (c : Cmd) (h : w.wf = .PAUSED) :
    dispatchOneX sp r w c = { w with backlog := w.backlog ++ [c] } := by
  have h1 : isCompleted w.wf = false := by rw [h]; decide
  have h2 : (w.wf == St.PAUSED) = true := by rw [h]; decide
  simp only [dispatchOneX, h1, h2, Bool.false_eq_true, if_false, if_true]

/-- while PAUSED every command of the list is saved, in order -/
theorem foldl_dispatchOneX_paused (sp : Spec) (r : Bool) (cs : List Cmd) :
    ∀ (w : World), w.wf = .PAUSED → cs.foldl (dispatchOneX sp r) w = { w with backlog := w.backlog ++ cs } := by
  induction cs with
  | nil => intro w _; simp
  | cons c cs ih =>
    intro w h
    show cs.foldl (dispatchOneX sp r) (dispatchOneX sp r w c) = _
    rw [dispatchOneX_paused sp r w c h]
    rw [ih { w with backlog := w.backlog ++ [c] } h]
    simp [List.append_assoc]

/-! ### task commands keep the workflow state and the backlog -/

theorem dispatchTask_frame (sp : Spec) (w : World) (c : Cmd) :
    (dispatchTask sp w c).wf = w.wf ∧ (dispatchTask sp w c).backlog = w.backlog := by
  unfold dispatchTask
  simp only
  split
  · split
    · exact ⟨rfl, rfl⟩
    · simp only
      split <;> exact ⟨rfl, rfl⟩
  · exact ⟨rfl, rfl⟩

theorem dispatchOneX_task_running (sp : Spec) (r : Bool) (w : World) (c : Cmd) (hw : w.wf = .RUNNING)
    (hc : cmdKind c.target = .task) :
    (dispatchOneX sp r w c).wf = .RUNNING ∧ (dispatchOneX sp r w c).backlog = w.backlog := by
  have h1 : isCompleted w.wf = false := by rw [hw]; decide
  have h2 : (w.wf == St.PAUSED) = false := by rw [hw]; decide
  simp only [dispatchOneX, h1, h2, hc, Bool.false_eq_true, if_false]
  cases r with
  | true => exact ⟨hw, rfl⟩
  | false =>
    simp only [Bool.false_eq_true, if_false]
    rw [(dispatchTask_frame sp w c).1, (dispatchTask_frame sp w c).2]
    exact ⟨hw, rfl⟩

theorem foldl_tasks_running (sp : Spec) (r : Bool) (cs : List Cmd) :
    ∀ (w : World), w.wf = .RUNNING → (∀ c ∈ cs, cmdKind c.target = .task) →
      (cs.foldl (dispatchOneX sp r) w).wf = .RUNNING ∧ (cs.foldl (dispatchOneX sp r) w).backlog = w.backlog := by
  induction cs with
  | nil => intro w h _; exact ⟨h, rfl⟩
  | cons c cs ih =>
    intro w h hc
    have h1 := dispatchOneX_task_running sp r w c h (hc c List.mem_cons_self)
    have h2 := ih (dispatchOneX sp r w c) h1.1 (fun c' hc' => hc c' (List.mem_cons_of_mem _ hc'))
    exact ⟨h2.1, h2.2.trans h1.2⟩

/-! ### `_rearrange_commands` -/

theorem rearrangeAux_tasks_pause (pre : List Cmd) (p : Cmd) (rest : List Cmd)
    (hpre : ∀ c ∈ pre, cmdKind c.target = .task) (hp : cmdKind p.target = .pause) :
    rearrangeAux (pre ++ p :: rest) = pre ++ p :: rest := by
  induction pre with
  | nil => simp [rearrangeAux, hp]
  | cons c cs ih =>
    have hc := hpre c List.mem_cons_self
    simp only [List.cons_append, rearrangeAux, hc]
    rw [ih (fun c' hc' => hpre c' (List.mem_cons_of_mem _ hc'))]

theorem rearrangeAux_tasks (cs : List Cmd) (h : ∀ c ∈ cs, cmdKind c.target = .task) : rearrangeAux cs = cs := by
  induction cs with
  | nil => rfl
  | cons c cs ih =>
    simp only [rearrangeAux, h c List.mem_cons_self]
    rw [ih (fun c' hc' => h c' (List.mem_cons_of_mem _ hc'))]

theorem filter_noop_tasks (cs : List Cmd) (h : ∀ c ∈ cs, cmdKind c.target = .task) :
    cs.filter (fun c => cmdKind c.target != .noop) = cs := by
  apply List.filter_eq_self.mpr
  intro c hc
  rw [h c hc]; decide

end Mistral.Engine
