import Mistral.Lemmas.SchedCap

namespace Mistral.Sched

/-! ## every invocation consumes one capture -/

def isCapTask (j : Nat) (t : Task) : Bool := t.id == j && t.stage == .captured

def capTasks (j : Nat) (l : List Task) : Nat := (l.filter (isCapTask j)).length

def pendPoll (j : Nat) : Poll → Nat
  | .running q false => q.count j
  | .running (_ :: q) true => q.count j
  | _ => 0

def pendInst (j : Nat) (x : Inst) : Nat := capTasks j x.tasks + pendPoll j x.poll

def pend (s : State) (j : Nat) : Nat := (s.insts.map (pendInst j)).sum

def Cnt (s : State) : Prop := ∀ j, invokeCount s j + pend s j ≤ captureCount s j

theorem sum_set {f : Inst → Nat} : ∀ (l : List Inst) (i : Nat) (a x : Inst), l[i]? = some a →
    ((l.set i x).map f).sum + f a = (l.map f).sum + f x := by
  intro l
  induction l with
  | nil => intro i a x h; simp at h
  | cons b t ih =>
    intro i a x h
    cases i with
    | zero => simp at h; subst h; simp; omega
    | succ k =>
      simp at h
      have := ih k a x h
      simp only [List.set_cons_succ, List.map_cons, List.sum_cons]
      omega

theorem cnt_build {s s' : State} {i : Nat} {inst x' : Inst} (hc : Cnt s) (hi : s.insts[i]? = some inst)
    (hs' : s'.insts = s.insts.set i x')
    (hloc : ∀ j, invokeCount s' j + pendInst j x' + captureCount s j ≤
      invokeCount s j + pendInst j inst + captureCount s' j) : Cnt s' := by
  intro j
  have h1 := sum_set (f := pendInst j) s.insts i inst x' hi
  have h2 := hc j
  have h3 := hloc j
  unfold pend at *
  rw [hs']
  omega

theorem capTasks_append (j : Nat) (l : List Task) (t : Task) :
    capTasks j (l ++ [t]) = capTasks j l + (if isCapTask j t then 1 else 0) := by
  unfold capTasks
  rw [List.filter_append, List.length_append]
  by_cases h : isCapTask j t <;> simp [h]

theorem capTasks_cons (j : Nat) (a : Task) (l : List Task) :
    capTasks j (a :: l) = capTasks j l + (if isCapTask j a then 1 else 0) := by
  unfold capTasks
  rw [List.filter_cons]
  split <;> simp

theorem capTasks_dropTask (j j0 : Nat) : ∀ l : List Task, capTasks j (dropTask j0 l) ≤ capTasks j l := by
  intro l
  induction l with
  | nil => simp [dropTask]
  | cons a t ih =>
    simp only [dropTask]
    split
    · rw [capTasks_cons]; omega
    · rw [capTasks_cons, capTasks_cons]; omega

theorem capTasks_setStage_captured (j j0 : Nat) : ∀ l : List Task,
    capTasks j (setStage j0 .captured l) ≤ capTasks j l + (if j0 = j then 1 else 0) := by
  intro l
  induction l with
  | nil => simp [setStage, capTasks]
  | cons a t ih =>
    simp only [setStage]
    split
    · rename_i ha
      rw [capTasks_cons, capTasks_cons]
      by_cases hj : j0 = j
      · subst hj; simp only [if_true]; split <;> split <;> omega
      · have h1 : isCapTask j { a with stage := Stage.captured } = false := by
          simp [isCapTask]; intro h; exact absurd (ha ▸ h) hj
        simp [h1, hj]
    · rw [capTasks_cons, capTasks_cons]; omega

theorem capTasks_setStage_invoked (j j0 : Nat) : ∀ (l : List Task) (t : Task),
    l.find? (fun t => t.id == j0) = some t → t.stage = .captured →
    capTasks j (setStage j0 .invoked l) + (if j0 = j then 1 else 0) ≤ capTasks j l := by
  intro l
  induction l with
  | nil => intro t h; simp at h
  | cons a ts ih =>
    intro t hf hst
    simp only [setStage]
    rw [List.find?_cons] at hf
    by_cases ha : a.id = j0
    · simp [ha] at hf
      subst hf
      simp only [ha, if_true]
      rw [capTasks_cons, capTasks_cons]
      have h1 : isCapTask j { id := j0, stage := Stage.invoked } = false := by simp [isCapTask]
      by_cases hj : j0 = j
      · subst hj
        have h2 : isCapTask j0 a = true := by simp [isCapTask, ha, hst]
        simp [h1, h2]
      · simp [h1, hj]
    · have hb : (a.id == j0) = false := by simp [ha]
      simp only [hb] at hf
      have := ih t hf hst
      simp only [ha, if_false]
      rw [capTasks_cons, capTasks_cons]; omega

theorem filter_capture_cons (j : Nat) (e : Ev) (tr : List Ev) :
    ((e :: tr).filter (isCapture j)).length = (tr.filter (isCapture j)).length + (if isCapture j e then 1 else 0) := by
  rw [List.filter_cons]; split <;> simp

theorem filter_invoke_cons (j : Nat) (e : Ev) (tr : List Ev) :
    ((e :: tr).filter (isInvoke j)).length = (tr.filter (isInvoke j)).length + (if isInvoke j e then 1 else 0) := by
  rw [List.filter_cons]; split <;> simp

theorem filter_capture_batch (j now i : Nat) : ∀ (q : List Nat) (tr : List Ev),
    (((q.map fun a => Ev.captured a now i).reverse ++ tr).filter (isCapture j)).length =
      q.count j + (tr.filter (isCapture j)).length := by
  intro q
  induction q with
  | nil => intro tr; simp
  | cons a q ih =>
    intro tr
    have : ((a :: q).map fun a => Ev.captured a now i).reverse ++ tr =
        (q.map fun a => Ev.captured a now i).reverse ++ (Ev.captured a now i :: tr) := by
      simp [List.reverse_cons, List.append_assoc]
    rw [this, ih, filter_capture_cons, List.count_cons]
    simp only [isCapture]
    by_cases h : a = j <;> simp [h] <;> omega

theorem filter_invoke_batch (j now i : Nat) : ∀ (q : List Nat) (tr : List Ev),
    (((q.map fun a => Ev.captured a now i).reverse ++ tr).filter (isInvoke j)).length =
      (tr.filter (isInvoke j)).length := by
  intro q
  induction q with
  | nil => intro tr; simp
  | cons a q ih =>
    intro tr
    have : ((a :: q).map fun a => Ev.captured a now i).reverse ++ tr =
        (q.map fun a => Ev.captured a now i).reverse ++ (Ev.captured a now i :: tr) := by
      simp [List.reverse_cons, List.append_assoc]
    rw [this, ih, filter_invoke_cons]
    simp [isInvoke]

theorem cnt_init (n : Nat) : Cnt (init n) := by
  intro j
  simp [invokeCount, captureCount, pend, init, pendInst, capTasks, pendPoll, freshInst]

theorem cnt_step (cfg : Cfg) (s : State) (e : Step) (hc : Cnt s) : Cnt (step cfg s e) := by
  cases e with
  | schedule i ra key tx =>
    simp only [step, stepSchedule]
    apply onInst_cases (P := Cnt)
    · exact hc
    · intro inst hi ha
      apply cnt_build hc hi rfl
      intro j; simp [invokeCount, captureCount, pendInst]
  | scheduleBad i => exact hc
  | commit tx => exact hc
  | rollback tx => exact hc
  | tick n => exact hc
  | pop i =>
    simp only [step, stepPop]
    apply onInst_cases (P := Cnt)
    · exact hc
    · intro inst hi ha
      split
      · split
        · apply cnt_build hc hi rfl
          intro j
          simp [invokeCount, captureCount, pendInst, setInst, capTasks_append, isCapTask]
        · exact hc
      · exact hc
  | task i j0 =>
    simp only [step, stepTask]
    apply onInst_cases (P := Cnt)
    · exact hc
    · intro inst hi ha
      split
      · rename_i t hfind
        split
        · split
          · apply cnt_build hc hi rfl
            intro j
            have := capTasks_setStage_captured j j0 inst.tasks
            simp only [invokeCount, captureCount, pendInst, filter_capture_cons, filter_invoke_cons, isCapture, isInvoke]
            by_cases h : j0 = j <;> simp [h] at this ⊢ <;> omega
          · apply cnt_build hc hi rfl
            intro j
            have := capTasks_dropTask j j0 inst.tasks
            simp only [invokeCount, captureCount, pendInst, setInst]
            omega
        · rename_i hst
          split
          · apply cnt_build hc hi rfl
            intro j
            have := capTasks_setStage_invoked j j0 inst.tasks t hfind hst
            simp only [invokeCount, captureCount, pendInst, setInst]
            by_cases h : j0 = j <;> simp [h] at this ⊢ <;> omega
          · apply cnt_build hc hi rfl
            intro j
            have := capTasks_setStage_invoked j j0 inst.tasks t hfind hst
            simp only [invokeCount, captureCount, pendInst, filter_capture_cons, filter_invoke_cons, isCapture, isInvoke]
            by_cases h : j0 = j <;> simp [h] at this ⊢ <;> omega
        · split
          · apply cnt_build hc hi rfl
            intro j
            have := capTasks_dropTask j j0 inst.tasks
            simp only [invokeCount, captureCount, pendInst, filter_capture_cons, filter_invoke_cons, isCapture, isInvoke]
            simp; omega
          · apply cnt_build hc hi rfl
            intro j
            have := capTasks_dropTask j j0 inst.tasks
            simp only [invokeCount, captureCount, pendInst, setInst]
            omega
      · exact hc
  | pollSelect i =>
    simp only [step, stepPollSelect]
    apply onInst_cases (P := Cnt)
    · exact hc
    · intro inst hi ha
      split
      · rename_i hp
        apply cnt_build hc hi rfl
        intro j
        simp [invokeCount, captureCount, pendInst, setInst, pendPoll, hp]
      · exact hc
  | pollCapture i =>
    simp only [step, stepPollCapture]
    apply onInst_cases (P := Cnt)
    · exact hc
    · intro inst hi ha
      split
      · rename_i cands hp
        apply cnt_build hc hi rfl
        intro j
        simp only [invokeCount, captureCount, pendInst, filter_capture_batch, filter_invoke_batch, hp]
        split
        · rename_i hq; simp [pendPoll, hq]
        · simp only [pendPoll]; omega
      · exact hc
  | pollNext i =>
    simp only [step, stepPollNext]
    apply onInst_cases (P := Cnt)
    · exact hc
    · intro inst hi ha
      split
      · rename_i a q hp
        split
        · apply cnt_build hc hi rfl
          intro j
          simp only [invokeCount, captureCount, pendInst, setInst, hp, pendPoll, List.count_cons]
          by_cases h : a = j <;> simp [h] <;> omega
        · apply cnt_build hc hi rfl
          intro j
          simp only [invokeCount, captureCount, pendInst, filter_capture_cons, filter_invoke_cons, isCapture, isInvoke, hp,
            pendPoll, List.count_cons]
          by_cases h : a = j <;> simp [h] <;> omega
      · rename_i a q hp
        split
        · apply cnt_build hc hi rfl
          intro j
          simp only [invokeCount, captureCount, pendInst, filter_capture_cons, filter_invoke_cons, isCapture, isInvoke, hp]
          by_cases hq : q = []
          · simp [hq, pendPoll]
          · simp [hq, pendPoll]
        · apply cnt_build hc hi rfl
          intro j
          simp only [invokeCount, captureCount, pendInst, setInst, hp, pendPoll]
          omega
      · exact hc
  | crash i =>
    simp only [step, stepCrash]
    split
    · rename_i inst hi
      apply cnt_build hc hi rfl
      intro j
      simp [invokeCount, captureCount, pendInst, setInst, pendPoll, capTasks]
    · exact hc

theorem cnt_reachable (cfg : Cfg) (n : Nat) (steps : List Step) : Cnt (run cfg (init n) steps) :=
  run_inv cfg (fun s e h => cnt_step cfg s e h) steps _ (cnt_init n)

end Mistral.Sched
