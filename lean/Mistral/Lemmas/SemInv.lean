/-
The soundness invariant of the refinement "engine model ⊑ declarative semantics": in every world
reachable by an admissible history every row is a task of the semantic set, every completed row has
the state and the next_tasks the semantics prescribes, every action in flight belongs to a task that
executes its action in the semantics, every result in flight is the oracle's.
This file: the invariant, the frame rule, the building blocks of `step` (dispatcher, completion
check, `_check_affected_tasks`, `Task.complete`).
-/
import Mistral.Lemmas.SemJoin
import Mistral.Lemmas.Engine
import Mistral.Lemmas.EngineStart
namespace Mistral.Sem
open Mistral Mistral.Join Mistral.Engine

/-- the routes that fire are transitions of the definition (the two halves of a `Spec` agree) -/
def RoutesInGraph (sp : Spec) : Prop :=
  ∀ (a : String) (s : St) (x : String × String), x ∈ nextOf sp a s → ∃ p ∈ inbound sp.graph x.1, p.name = a

/-- the hypotheses on a definition -/
structure SemSpec (sp : Spec) (rk : String → Nat) : Prop where
  acyc : Acyclic sp rk
  joins : JoinsSat sp
  routes : RoutesInGraph sp

def RowOK (sp : Spec) (orc : String → Bool) (r : TaskRow) : Prop :=
  sem sp orc r.name ≠ none ∧
  (isCompleted r.state = true → sem sp orc r.name = some r.state ∧ r.nextTasks = nextOf sp r.name r.state) ∧
  (r.state = .ERROR → r.errorHandled = r.nextTasks.any (·.2 == "on-error"))

def ItemOK (sp : Spec) (orc : String → Bool) : Item → Prop
  | .postRunAction t => sem sp orc t.1 = some (res orc t.1)
  | .runAction t => sem sp orc t.1 = some (res orc t.1)
  | .rpcResult t ok => sem sp orc t.1 = some (res orc t.1) ∧ ok = orc t.1
  | _ => True

structure SInv (sp : Spec) (orc : String → Bool) (w : World) : Prop where
  rows : ∀ r ∈ w.tasks, RowOK sp orc r
  items : ∀ it ∈ w.pending, ItemOK sp orc it
  backlog : ∀ c ∈ w.backlog, sem sp orc c.target ≠ none
  done : isCompleted w.wf = true → ∀ r ∈ w.tasks, isCompleted r.state = true

theorem sinv_init (sp : Spec) (orc : String → Bool) : SInv sp orc init := by
  refine ⟨?_, ?_, ?_, ?_⟩
  · intro x hx; simp [init] at hx
  · intro x hx; simp [init] at hx
  · intro x hx; simp [init] at hx
  · intro _ x hx; simp [init] at hx

/-- the frame rule: what is new is sound -/
theorem SInv.frame (sp : Spec) (orc : String → Bool) (w w' : World) (h : SInv sp orc w)
    (hrows : ∀ x ∈ w'.tasks, x ∈ w.tasks ∨ RowOK sp orc x)
    (hitems : ∀ it ∈ w'.pending, it ∈ w.pending ∨ ItemOK sp orc it)
    (hbl : ∀ c ∈ w'.backlog, c ∈ w.backlog ∨ sem sp orc c.target ≠ none)
    (hdone : isCompleted w'.wf = true → ∀ x ∈ w'.tasks, isCompleted x.state = true) : SInv sp orc w' := by
  refine ⟨?_, ?_, ?_, hdone⟩
  · intro r hr
    rcases hrows r hr with h1 | h1
    · exact h.rows r h1
    · exact h1
  · intro it hi
    rcases hitems it hi with h1 | h1
    · exact h.items it h1
    · exact h1
  · intro c hc
    rcases hbl c hc with h1 | h1
    · exact h.backlog c h1
    · exact h1

/-- a row that is not completed and belongs to a semantic task is sound -/
theorem rowOK_incomplete (sp : Spec) (orc : String → Bool) (r : TaskRow) (hs : sem sp orc r.name ≠ none)
    (hc : isCompleted r.state = false) : RowOK sp orc r := by
  refine ⟨hs, ?_, ?_⟩
  · intro h; rw [hc] at h; cases h
  · intro h; rw [h] at hc; exact absurd hc (by decide)

/-- a task a completed semantic task routes to is semantic -/
theorem sem_next (sp : Spec) (orc : String → Bool) (rk : String → Nat) (hsp : SemSpec sp rk)
    (a : String) (s : St) (hs : sem sp orc a = some s) (x : String × String) (hx : x ∈ nextOf sp a s) :
    sem sp orc x.1 ≠ none := by
  obtain ⟨p, hp, hpn⟩ := hsp.routes a s x hx
  apply sem_of_router sp orc rk hsp.acyc x.1 p hp
  unfold router
  rw [hpn, hs]
  unfold routesB
  simp only
  apply List.any_eq_true.mpr
  exact ⟨x, hx, by simp⟩

/-- the states of completed sound rows -/
theorem rowOK_completed_state (sp : Spec) (orc : String → Bool) (rk : String → Nat) (hsp : SemSpec sp rk)
    (r : TaskRow) (h : RowOK sp orc r) (hc : isCompleted r.state = true) : r.state = .SUCCESS ∨ r.state = .ERROR := by
  have := (h.2.1 hc).1
  rcases sem_values sp orc rk hsp.acyc r.name r.state this with h1 | h1
  · rw [h1]; unfold res; split
    · exact Or.inl rfl
    · exact Or.inr rfl
  · exact Or.inr h1

theorem rowsSound_of_sinv (sp : Spec) (orc : String → Bool) (w : World) (h : SInv sp orc w) :
    RowsSound sp orc (rowsOf w) := by
  intro r hr hc
  unfold rowsOf at hr
  obtain ⟨t, ht, rfl⟩ := List.mem_map.mp hr
  exact (h.rows t ht).2.1 hc

theorem findByName_mem' (w : World) (n : String) (r : TaskRow) (h : findByName w n = some r) :
    r ∈ w.tasks ∧ r.name = n := by
  unfold findByName at h
  have hm : r ∈ w.tasks.filter (·.name == n) := List.mem_of_getLast? h
  have := List.mem_filter.mp hm
  exact ⟨this.1, by simpa using this.2⟩

/-! ### the dispatcher -/

theorem dispatchOne_frame (sp : Spec) (w : World) (c : Cmd) :
    (∀ x ∈ (dispatchOne sp w c).tasks, x ∈ w.tasks ∨ (x.name = c.target ∧ isCompleted x.state = false)) ∧
    (∀ it ∈ (dispatchOne sp w c).pending, it ∈ w.pending ∨ ∃ t f, it = .postStartTask t f) ∧
    (∀ b ∈ (dispatchOne sp w c).backlog, b ∈ w.backlog ∨ b = c) ∧
    (isCompleted w.wf = true → dispatchOne sp w c = w) := by
  unfold dispatchOne
  simp only
  split
  · rename_i hc
    exact ⟨fun x hx => Or.inl hx, fun x hx => Or.inl hx, fun x hx => Or.inl hx, fun _ => rfl⟩
  · rename_i hc
    have hcf : ¬ isCompleted w.wf = true := hc
    split
    · refine ⟨fun x hx => Or.inl hx, fun x hx => Or.inl hx, ?_, fun h => absurd h hcf⟩
      intro b hb
      rcases List.mem_append.mp hb with h1 | h1
      · exact Or.inl h1
      · right; simpa using h1
    · split
      · split
        · refine ⟨?_, ?_, fun x hx => Or.inl hx, fun h => absurd h hcf⟩
          · intro x hx
            rcases List.mem_append.mp hx with h1 | h1
            · exact Or.inl h1
            · right
              have : x = newRow w c .WAITING := by simpa using h1
              subst this
              exact ⟨rfl, by show isCompleted St.WAITING = false; decide⟩
          · intro it hi
            rcases List.mem_append.mp hi with h1 | h1
            · exact Or.inl h1
            · right; exact ⟨_, _, by simpa using h1⟩
        · rename_i r hr
          obtain ⟨hrm, hrn⟩ := findByName_mem' w _ r hr
          refine ⟨?_, ?_, ?_, fun h => absurd h hcf⟩
          · intro x hx
            simp only at hx
            split at hx
            · rcases mem_setTask _ _ _ hx with h1 | h1
              · exact Or.inl h1
              · right
                subst h1
                exact ⟨hrn, by show isCompleted St.WAITING = false; decide⟩
            · exact Or.inl hx
          · intro it hi
            simp only at hi
            rcases List.mem_append.mp hi with h1 | h1
            · left
              split at h1 <;> exact h1
            · right; exact ⟨_, _, by simpa using h1⟩
          · intro b hb
            simp only at hb
            left
            split at hb <;> exact hb
      · refine ⟨?_, ?_, fun x hx => Or.inl hx, fun h => absurd h hcf⟩
        · intro x hx
          rcases List.mem_append.mp hx with h1 | h1
          · exact Or.inl h1
          · right
            have : x = newRow w c .IDLE := by simpa using h1
            subst this
            exact ⟨rfl, by show isCompleted St.IDLE = false; decide⟩
        · intro it hi
          rcases List.mem_append.mp hi with h1 | h1
          · exact Or.inl h1
          · right; exact ⟨_, _, by simpa using h1⟩

theorem sinv_dispatchOne (sp : Spec) (orc : String → Bool) (w : World) (c : Cmd) (h : SInv sp orc w)
    (hc : sem sp orc c.target ≠ none) : SInv sp orc (dispatchOne sp w c) := by
  obtain ⟨h1, h2, h3, h4⟩ := dispatchOne_frame sp w c
  apply SInv.frame sp orc w _ h
  · intro x hx
    rcases h1 x hx with h | ⟨hn, hs⟩
    · exact Or.inl h
    · right; exact rowOK_incomplete sp orc x (by rw [hn]; exact hc) hs
  · intro it hi
    rcases h2 it hi with h | ⟨t, f, rfl⟩
    · exact Or.inl h
    · right; trivial
  · intro b hb
    rcases h3 b hb with h | rfl
    · exact Or.inl h
    · right; exact hc
  · intro hd
    rw [dispatchOne_wf] at hd
    rw [h4 hd]
    exact h.done hd

theorem sinv_dispatch (sp : Spec) (orc : String → Bool) (cs : List Cmd) :
    ∀ (w : World), SInv sp orc w → (∀ c ∈ cs, sem sp orc c.target ≠ none) → SInv sp orc (dispatch sp w cs) := by
  induction cs with
  | nil => intro w h _; exact h
  | cons c cs ih =>
    intro w h hc
    show SInv sp orc (dispatch sp (dispatchOne sp w c) cs)
    exact ih _ (sinv_dispatchOne sp orc w c h (hc c List.mem_cons_self)) (fun c' hc' => hc c' (List.mem_cons_of_mem _ hc'))

/-! ### `_check_affected_tasks`, the completion check -/

theorem sinv_checkAffected (sp : Spec) (orc : String → Bool) (w : World) (t : Tid) (h : SInv sp orc w) :
    SInv sp orc (checkAffected sp w t) := by
  have ht := checkAffected_tasks sp w t
  apply SInv.frame sp orc w _ h
  · intro x hx; rw [ht.1] at hx; exact Or.inl hx
  · intro it hi
    unfold checkAffected at hi
    split at hi
    · exact Or.inl hi
    · split at hi
      · exact Or.inl hi
      · split at hi
        · exact Or.inl hi
        · rcases List.mem_append.mp hi with h1 | h1
          · exact Or.inl h1
          · right
            obtain ⟨n, _, hn⟩ := List.mem_filterMap.mp h1
            cases hf : findByName w n with
            | none => rw [hf] at hn; cases hn
            | some j => rw [hf] at hn; cases hn; trivial
  · intro c hc
    left
    unfold checkAffected at hc
    split at hc
    · exact hc
    · split at hc
      · exact hc
      · split at hc <;> exact hc
  · intro hd
    rw [ht.2] at hd
    rw [ht.1]
    exact h.done hd

theorem sinv_checkAndComplete (sp : Spec) (orc : String → Bool) (w : World) (h : SInv sp orc w) :
    SInv sp orc (checkAndComplete w) := by
  have ht := checkAndComplete_tasks w
  have hp := checkAndComplete_pending w
  apply SInv.frame sp orc w _ h
  · intro x hx; rw [ht] at hx; exact Or.inl hx
  · intro it hi; rw [hp] at hi; exact Or.inl hi
  · intro c hc
    left
    unfold checkAndComplete at hc
    split at hc
    · exact hc
    · split at hc
      · exact hc
      · split at hc
        · exact hc
        · split at hc <;> exact hc
  · intro hd
    rw [ht]
    unfold checkAndComplete at hd
    split at hd
    · rename_i hpc
      exact h.done hd
    · split at hd
      · exact h.done hd
      · rename_i hany
        intro x hx
        have : ¬ (w.tasks.any fun t => !isCompleted t.state) = true := hany
        rw [List.any_eq_true] at this
        by_cases hcx : isCompleted x.state = true
        · exact hcx
        · exact absurd ⟨x, hx, by simpa using hcx⟩ this

/-! ### `Task.complete` -/

theorem sinv_setRow (sp : Spec) (orc : String → Bool) (w : World) (r1 : TaskRow) (h : SInv sp orc w)
    (hok : RowOK sp orc r1) (hwf : isCompleted w.wf = false) :
    SInv sp orc { w with tasks := setTask w.tasks r1 } := by
  apply SInv.frame sp orc w _ h
  · intro x hx
    rcases mem_setTask _ _ _ hx with h1 | h1
    · exact Or.inl h1
    · right; rw [h1]; exact hok
  · intro it hi; exact Or.inl hi
  · intro c hc; exact Or.inl hc
  · intro hd
    have : isCompleted w.wf = true := hd
    rw [hwf] at this; cases this

theorem sinv_addItems (sp : Spec) (orc : String → Bool) (w : World) (its : List Item) (h : SInv sp orc w)
    (hok : ∀ it ∈ its, ItemOK sp orc it) : SInv sp orc { w with pending := w.pending ++ its } := by
  apply SInv.frame sp orc w _ h
  · intro x hx; exact Or.inl hx
  · intro it hi
    rcases List.mem_append.mp hi with h1 | h1
    · exact Or.inl h1
    · exact Or.inr (hok it h1)
  · intro c hc; exact Or.inl hc
  · exact h.done

theorem sinv_completeTask (sp : Spec) (orc : String → Bool) (rk : String → Nat) (hsp : SemSpec sp rk)
    (w : World) (r : TaskRow) (s : St) (h : SInv sp orc w) (hr : r ∈ w.tasks)
    (hs : isCompleted r.state = false → sem sp orc r.name = some s) : SInv sp orc (completeTask sp w r s) := by
  unfold completeTask
  split
  · exact sinv_checkAffected sp orc w _ h
  · rename_i hrc
    have hrc' : isCompleted r.state = false := by simpa using hrc
    have hsem := hs hrc'
    have hwf : isCompleted w.wf = false := by
      cases hw : isCompleted w.wf with
      | false => rfl
      | true => have := h.done hw r hr; rw [hrc'] at this; cases this
    apply sinv_checkAffected
    simp only [hwf, Bool.false_eq_true, if_false]
    -- the completed row
    have hrow : ∀ (p : Bool), RowOK sp orc
        { r with state := s, nextTasks := nextOf sp r.name s, hasNext := !(nextOf sp r.name s).isEmpty,
                 errorHandled := if s == .ERROR then (nextOf sp r.name s).any (·.2 == "on-error") else r.errorHandled,
                 processed := p } := by
      intro p
      refine ⟨h.rows r hr |>.1, fun _ => ⟨hsem, rfl⟩, ?_⟩
      intro he
      have he' : s = .ERROR := he
      simp [he']
    have hw1 := sinv_setRow sp orc w _ h (hrow r.processed) hwf
    split
    · exact hw1
    · apply sinv_dispatch
      · have hw1' := sinv_setRow sp orc _ _ hw1 (hrow true) hwf
        split
        · exact sinv_addItems sp orc _ [.postCheck] hw1' (by intro it hi; have : it = .postCheck := by simpa using hi
                                                             rw [this]; trivial)
        · exact hw1'
      · intro c hc
        obtain ⟨x, hx, rfl⟩ := List.mem_map.mp hc
        exact sem_next sp orc rk hsp r.name s hsem x hx

end Mistral.Sem
