/- Helper lemmas for Props/C16 (core Lean only). -/
import Mistral.Model.Rest

namespace Mistral.Lemmas.Rest
open Mistral.Rest Mistral.Gen.Endpoints Mistral.Gen.RestTables

theorem run_calls {α : Type} (harmless : String → Bool) (eff : String → α → α)
    (body : α → Nat × α) (allowed : String → Bool) (r : Req) (cs : List String) (rest : List Step)
    (db : α) (h : cs.all harmless = true) :
    run harmless eff body allowed r (cs.map Step.call ++ rest) db =
      run harmless eff body allowed r rest db := by
  induction cs generalizing db with
  | nil => rfl
  | cons c cs ih =>
    simp only [List.all_cons, Bool.and_eq_true] at h
    simp only [List.map_cons, List.cons_append, run, h.1, if_true]
    exact ih db h.2

theorem run_denied {α : Type} (harmless : String → Bool) (eff : String → α → α)
    (body : α → Nat × α) (allowed : String → Bool) (r : Req) (es : List Enforce) (db : α)
    (hh : ∀ x ∈ es, x.before.all harmless = true)
    (hx : ∃ x ∈ es, guardHolds x.guard r = true ∧ allowed x.rule = false) :
    run harmless eff body allowed r (stepsOf es ++ [Step.body]) db = (403, db) := by
  induction es with
  | nil => obtain ⟨x, hx, _⟩ := hx; cases hx
  | cons e rest ih =>
    have hb : e.before.all harmless = true := hh e (List.mem_cons_self)
    simp only [stepsOf, List.append_assoc, List.cons_append]
    rw [run_calls harmless eff body allowed r e.before _ db hb]
    simp only [run]
    by_cases hd : (guardHolds e.guard r && !allowed e.rule) = true
    · simp [hd]
    · simp only [hd]
      apply ih
      · intro x hxm; exact hh x (List.mem_cons_of_mem _ hxm)
      · obtain ⟨x, hxm, hg, ha⟩ := hx
        cases hxm with
        | head => simp [hg, ha] at hd
        | tail _ hm => exact ⟨x, hm, hg, ha⟩

theorem run_allowed {α : Type} (harmless : String → Bool) (eff : String → α → α)
    (body : α → Nat × α) (allowed : String → Bool) (r : Req) (es : List Enforce) (db : α)
    (hh : ∀ x ∈ es, x.before.all harmless = true)
    (hall : ∀ x ∈ es, guardHolds x.guard r = true → allowed x.rule = true) :
    run harmless eff body allowed r (stepsOf es ++ [Step.body]) db = body db := by
  induction es with
  | nil => simp [stepsOf, run]
  | cons e rest ih =>
    have hb : e.before.all harmless = true := hh e (List.mem_cons_self)
    simp only [stepsOf, List.append_assoc, List.cons_append]
    rw [run_calls harmless eff body allowed r e.before _ db hb]
    simp only [run]
    have hnd : (guardHolds e.guard r && !allowed e.rule) = false := by
      cases hg : guardHolds e.guard r with
      | false => simp
      | true => simp [hall e (List.mem_cons_self) hg]
    simp only [hnd]
    apply ih
    · intro x hxm; exact hh x (List.mem_cons_of_mem _ hxm)
    · intro x hxm; exact hall x (List.mem_cons_of_mem _ hxm)

theorem firstDenied_isSome (allowed : String → Bool) (r : Req) (es : List Enforce)
    (h : ∃ x ∈ es, guardHolds x.guard r = true ∧ allowed x.rule = false) :
    (firstDenied allowed r es).isSome = true := by
  induction es with
  | nil => obtain ⟨x, hx, _⟩ := h; cases hx
  | cons e rest ih =>
    unfold firstDenied
    by_cases hd : (guardHolds e.guard r && !allowed e.rule) = true
    · simp [hd]
    · simp only [hd]
      apply ih
      obtain ⟨x, hxm, hg, ha⟩ := h
      cases hxm with
      | head => simp [hg, ha] at hd
      | tail _ hm => exact ⟨x, hm, hg, ha⟩


/-! ### guards -/

theorem execPut_ok_spec (ex : Bool) (cur state : String) (desc env : Bool)
    (ok : ExecPutOk) (h : execPut ex cur state desc env = .ok ok) :
    (state ≠ "" → (state ∈ pausedStates ∨ state = RUNNING ∨ state ∈ completedStates) ∧
        (ok.engine = some .pause ∨ ok.engine = some (.resume env) ∨ ok.engine = some (.stop state)) ∧
        ok.setDescription = false ∧ ok.updateEnv = false) ∧
    (state = "" → ok.engine = none) ∧
    (ok.engine = some .pause → state ∈ pausedStates) ∧
    (∀ b, ok.engine = some (.resume b) → state = RUNNING) ∧
    (∀ s, ok.engine = some (.stop s) → s = state ∧ state ∈ completedStates) := by
  unfold execPut at h
  generalize RUNNING = R at h ⊢
  by_cases hr : state = R
  · subst hr
    by_cases hs : state = "" <;> by_cases hp : state ∈ pausedStates <;>
    by_cases hc : state ∈ completedStates <;> by_cases he : cur ∈ envUpdatableStates <;>
    cases ex <;> cases desc <;> cases env <;>
    simp [hs, hp, he] at h <;> subst h <;> simp_all
  · by_cases hs : state = "" <;> by_cases hp : state ∈ pausedStates <;>
    by_cases hc : state ∈ completedStates <;> by_cases he : cur ∈ envUpdatableStates <;>
    cases ex <;> cases desc <;> cases env <;>
    simp [hs, hp, hc, he, hr] at h <;> subst h <;> simp_all

theorem execPut_desc_with_state (cur state : String) (env : Bool) :
    state ≠ "" → execPut true cur state true env = .error .descWithState := by
  intro hs
  simp [execPut, hs]

theorem execPut_desc_ok (cur state : String) (env : Bool) :
    ∀ ex desc ok, execPut ex cur state desc env = .ok ok → ok.setDescription = true →
      state = "" ∧ ok.engine = none := by
  intro ex desc ok h hd
  have sp := execPut_ok_spec ex cur state desc env ok h
  by_cases hs : state = ""
  · exact ⟨hs, sp.2.1 hs⟩
  · have := (sp.1 hs).2.2.1
    rw [this] at hd
    cases hd

theorem execPut_env_spec (ex : Bool) (cur state : String) (desc : Bool) (ok : ExecPutOk)
    (h : execPut ex cur state desc true = .ok ok) :
    (state = "" ∧ ok.updateEnv = true ∧ cur ∈ envUpdatableStates) ∨
    (state = RUNNING ∧ ok.engine = some (.resume true) ∧ ok.updateEnv = false) := by
  have hnp : ¬ RUNNING ∈ pausedStates := by decide
  have hne : ¬ RUNNING = "" := by decide
  unfold execPut at h
  generalize RUNNING = R at h hnp hne ⊢
  by_cases hr : state = R
  · subst hr
    by_cases hc : state ∈ completedStates <;> by_cases he : cur ∈ envUpdatableStates <;>
    cases ex <;> cases desc <;>
    simp [hne, hnp, he] at h <;> subst h <;> simp_all
  · by_cases hs : state = "" <;> by_cases hp : state ∈ pausedStates <;>
    by_cases hc : state ∈ completedStates <;> by_cases he : cur ∈ envUpdatableStates <;>
    cases ex <;> cases desc <;>
    simp [hs, he, hr] at h <;> subst h <;> simp_all

theorem taskPut_ok_spec (ex nameOk wfOk : Bool) (cur req : String) (reset : Option Bool)
    (wi env : Bool) (r : Rerun) (h : taskPut ex nameOk wfOk cur req reset wi env = .ok r) :
    cur = ERROR ∧ (req = RUNNING ∨ req = SKIPPED) ∧ r.skip = (req == SKIPPED) ∧
    (req = RUNNING → reset ≠ none ∧ (wi = false → reset = some true)) ∧ ex = true := by
  have hrs : ¬ SKIPPED = RUNNING := by decide
  unfold taskPut at h
  generalize RUNNING = R at h hrs ⊢
  generalize SKIPPED = S at h hrs ⊢
  generalize ERROR = E at h ⊢
  by_cases hc : cur = E
  · subst hc
    by_cases hr : req = R
    · subst hr
      cases ex <;> cases nameOk <;> cases wfOk <;> cases wi <;> rcases reset with _ | _ | _ <;>
        simp at h <;> subst h <;> simp_all
    · by_cases hk : req = S
      · subst hk
        cases ex <;> cases nameOk <;> cases wfOk <;> cases wi <;> rcases reset with _ | _ | _ <;>
          simp [hrs] at h <;> subst h <;> simp_all
      · cases ex <;> cases nameOk <;> cases wfOk <;> simp [hr, hk] at h
  · by_cases hr : req = R <;> by_cases hk : req = S <;>
      cases ex <;> cases nameOk <;> cases wfOk <;> simp [hr, hk, hc] at h

theorem execDelete_spec (ex : Bool) (cur : String) :
    execDelete ex cur false = .deleted → cur ∈ completedStates ∧ ex = true := by
  unfold execDelete
  by_cases hc : cur ∈ completedStates <;> cases ex <;> simp [hc]

theorem actionDelete_spec (ex : Bool) (cur : String) :
    ∀ allowed hasTask, actionDelete allowed ex hasTask cur = .deleted →
      cur ∈ completedStates ∧ hasTask = false ∧ allowed = true ∧ ex = true := by
  intro allowed hasTask
  unfold actionDelete
  by_cases hc : cur ∈ completedStates <;> cases ex <;> cases allowed <;> cases hasTask <;> simp [hc]

theorem actionPut_spec (state : String) (out : Bool) :
    (∀ cs, actionPut state out = .calls cs →
        state ∈ ["SUCCESS", "ERROR", "CANCELLED", "PAUSED", "RUNNING"] ∧
        (cs = [.completeData] ∧ state = "SUCCESS" ∨ cs = [.completeError (!out)] ∧ state = "ERROR" ∨
         cs = [.completeCancel] ∧ state = "CANCELLED" ∨ cs = [.update state] ∧ (state = "PAUSED" ∨ state = "RUNNING"))) ∧
    actionPut state out ≠ .crash := by
  by_cases h1 : state = "SUCCESS"
  · subst h1
    have e : actionPut "SUCCESS" out = .calls [.completeData] := by cases out <;> decide
    refine ⟨fun cs hcs => ?_, by rw [e]; intro h; cases h⟩
    rw [e] at hcs; cases hcs; simp
  by_cases h2 : state = "ERROR"
  · subst h2
    have e : actionPut "ERROR" out = .calls [.completeError (!out)] := by cases out <;> decide
    refine ⟨fun cs hcs => ?_, by rw [e]; intro h; cases h⟩
    rw [e] at hcs; cases hcs; simp
  by_cases h3 : state = "CANCELLED"
  · subst h3
    have e : actionPut "CANCELLED" out = .calls [.completeCancel] := by cases out <;> decide
    refine ⟨fun cs hcs => ?_, by rw [e]; intro h; cases h⟩
    rw [e] at hcs; cases hcs; simp
  by_cases h4 : state = "PAUSED"
  · subst h4
    have e : actionPut "PAUSED" out = .calls [.update "PAUSED"] := by cases out <;> decide
    refine ⟨fun cs hcs => ?_, by rw [e]; intro h; cases h⟩
    rw [e] at hcs; cases hcs; simp
  by_cases h5 : state = "RUNNING"
  · subst h5
    have e : actionPut "RUNNING" out = .calls [.update "RUNNING"] := by cases out <;> decide
    refine ⟨fun cs hcs => ?_, by rw [e]; intro h; cases h⟩
    rw [e] at hcs; cases hcs; simp
  have hns : ¬ state ∈ supportedTransitionStates := by
    simp [supportedTransitionStates, h1, h2, h3, h4, h5]
  simp [actionPut, hns]

end Mistral.Lemmas.Rest
