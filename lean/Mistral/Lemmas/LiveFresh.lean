/-
An execution that is not completed never carries the `processed` flag: rows are created without
it, `_run_existing` and (since "fix: re-opening a join resets its processed flag") `Task.defer`
reset it, and only `Task.complete` / `Workflow.resume` set it - on completed executions.
`PausedClean` (the hypothesis of `step_inv2`) is a consequence.
-/
import Mistral.Lemmas.LiveDefs2
namespace Mistral.Engine.Live
open Mistral Mistral.Join Mistral.Engine

def FreshRow (r : TaskRow) : Prop := isCompleted r.state = false → r.processed = false

def Fresh (ts : List TaskRow) : Prop := ∀ r ∈ ts, FreshRow r

theorem Fresh.pausedClean (w : World) (h : Fresh w.tasks) : PausedClean w := fun _ r hr hc => h r hr hc

theorem Fresh_setTask (ts : List TaskRow) (r : TaskRow) (h : Fresh ts) (hr : FreshRow r) : Fresh (setTask ts r) := by
  intro x hx
  rcases mem_setTask ts r x hx with h1 | h1
  · exact h x h1
  · subst h1; exact hr

theorem Fresh_append (ts : List TaskRow) (r : TaskRow) (h : Fresh ts) (hr : FreshRow r) : Fresh (ts ++ [r]) := by
  intro x hx
  rcases List.mem_append.mp hx with h1 | h1
  · exact h x h1
  · have : x = r := by simpa using h1
    subst this; exact hr

theorem freshRow_completed (r : TaskRow) (h : isCompleted r.state = true) : FreshRow r := by
  intro hc; rw [h] at hc; cases hc

theorem dispatchOne_fresh (sp : Spec) (w : World) (c : Cmd) (h : Fresh w.tasks) : Fresh (dispatchOne sp w c).tasks := by
  unfold dispatchOne
  simp only
  split
  · exact h
  · split
    · exact h
    · split
      · split
        · exact Fresh_append _ _ h (fun _ => rfl)
        · simp only
          split
          · exact Fresh_setTask _ _ h (fun _ => rfl)
          · exact h
      · exact Fresh_append _ _ h (fun _ => rfl)

theorem dispatch_fresh (sp : Spec) (cs : List Cmd) : ∀ (w : World), Fresh w.tasks → Fresh (dispatch sp w cs).tasks := by
  unfold dispatch
  induction cs with
  | nil => intro w h; exact h
  | cons c rest ih => intro w h; simp only [List.foldl_cons]; exact ih _ (dispatchOne_fresh sp w c h)

theorem completeTask_fresh (sp : Spec) (w : World) (r : TaskRow) (s : St) (hs : isCompleted s = true)
    (h : Fresh w.tasks) : Fresh (completeTask sp w r s).tasks := by
  by_cases hc : isCompleted r.state = true
  · unfold completeTask
    simp only [hc, if_true]
    rw [(checkAffected_tasks sp w _).1]; exact h
  · rw [completeTask_unfold sp w r s (by simpa using hc)]
    rw [(checkAffected_tasks sp _ _).1]
    have h1 : Fresh (setTask w.tasks (ctRow sp w r s)) := Fresh_setTask _ _ h (freshRow_completed _ hs)
    split
    · exact h1
    · apply dispatch_fresh
      exact Fresh_setTask _ _ h1 (freshRow_completed _ hs)

theorem step_fresh (sp : Spec) (w : World) (ev : Event) (h : Fresh w.tasks) : Fresh (step sp w ev).tasks := by
  cases ev with
  | start =>
    simp only [step]
    split
    · exact h
    · exact dispatch_fresh sp _ _ h
  | pause => exact h
  | stop t => exact h
  | execute t ok =>
    simp only [step]
    split <;> exact h
  | resume =>
    simp only [step]
    split
    · exact h
    · split
      · exact h
      · have hm : Fresh (w.tasks.map fun t => if isCompleted t.state && !t.processed then { t with processed := true } else t) := by
          intro x hx
          rcases List.mem_map.mp hx with ⟨y, hy, rfl⟩
          split
          · rename_i hc
            simp only [Bool.and_eq_true] at hc
            exact freshRow_completed _ hc.1
          · exact h y hy
        split
        · rw [checkAndComplete_tasks]; exact hm
        · apply dispatch_fresh
          exact dispatch_fresh sp _ _ hm
  | deliver it =>
    cases it with
    | postStartTask t f => simp only [step]; split <;> exact h
    | postRunAction t => simp only [step]; split <;> exact h
    | runAction t => simp only [step]; split <;> exact h
    | postCheck =>
      simp only [step]; split
      · exact h
      · rw [checkAndComplete_tasks]; exact h
    | postSchedRefresh t => simp only [step]; split; exact h; split <;> exact h
    | rpcResult t ok =>
      simp only [step]
      split
      · exact h
      · split
        · exact h
        · exact completeTask_fresh sp _ _ _ (by cases ok <;> decide) h
    | rpcStartTask t f =>
      simp only [step]
      split
      · exact h
      · split
        · exact h
        · rename_i r hr
          have hm := findTask_mem _ _ _ hr
          split
          · split
            · rename_i hidle
              refine Fresh_setTask _ _ h (fun _ => ?_)
              apply h r hm
              have : r.state = .IDLE := by simpa using hidle
              rw [this]; decide
            · split
              · split <;> exact h
              · rw [(checkAffected_tasks sp _ _).1]; exact h
          · split
            · exact h
            · split
              · rw [(checkAffected_tasks sp _ _).1]; exact h
              · split
                · exact h
                · exact Fresh_setTask _ _ h (fun _ => rfl)
    | jobRefresh t =>
      simp only [step]
      split
      · exact h
      · split
        · exact h
        · rename_i r hr
          have hm := findTask_mem _ _ _ hr
          split
          · exact h
          · rename_i hgu
            have hinc : isCompleted r.state = false := by
              simp only [Bool.or_eq_true, not_or, Bool.not_eq_true] at hgu; exact hgu.1
            have hp : r.processed = false := h r hm hinc
            have hrow : ∀ tr, FreshRow { r with trig := tr } := fun tr _ => hp
            split
            · exact h
            · split
              · exact h
              · split
                · exact h
                · split
                  · split <;> exact Fresh_setTask _ _ (Fresh_setTask _ _ h (hrow _)) (fun _ => hp)
                  · split
                    · exact completeTask_fresh sp _ _ _ (by decide) (Fresh_setTask _ _ h (hrow _))
                    · exact Fresh_setTask _ _ h (hrow _)

theorem fresh_init : Fresh init.tasks := by
  intro r hr; simp [init] at hr

end Mistral.Engine.Live
