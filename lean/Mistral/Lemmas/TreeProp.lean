/- The pause propagation over ALL trees: every execution that `pause_workflow(x)` reaches through unfinished
   executions is PAUSED after the transaction (induction over the fuel of `prop`, depth-indexed). -/
import Mistral.Lemmas.Tree
namespace Mistral.Tree
open Mistral Mistral.Lifecycle

/-- the shape of the tree is kept and execution states only move RUNNING → PAUSED -/
structure PMono (w w' : World) : Prop where
  elen : w'.execs.length = w.execs.length
  execs : ∀ (i : Nat) (e : Exec), w.execs[i]? = some e → ∃ e', w'.execs[i]? = some e' ∧ e'.parent = e.parent ∧
            (e'.state = e.state ∨ (e.state = .RUNNING ∧ e'.state = .PAUSED))
  tlen : w'.tasks.length = w.tasks.length
  tasks : ∀ (t : Nat) (tk : Task), w.tasks[t]? = some tk → ∃ tk', w'.tasks[t]? = some tk' ∧ tk'.wf = tk.wf

theorem PMono.refl (w : World) : PMono w w :=
  ⟨rfl, fun _ e h => ⟨e, h, rfl, Or.inl rfl⟩, rfl, fun _ tk h => ⟨tk, h, rfl⟩⟩

theorem PMono.trans {a b c : World} (h1 : PMono a b) (h2 : PMono b c) : PMono a c := by
  refine ⟨h2.elen.trans h1.elen, fun i e h => ?_, h2.tlen.trans h1.tlen, fun t tk h => ?_⟩
  · obtain ⟨e1, he1, p1, s1⟩ := h1.execs i e h
    obtain ⟨e2, he2, p2, s2⟩ := h2.execs i e1 he1
    refine ⟨e2, he2, p2.trans p1, ?_⟩
    rcases s1 with s1 | ⟨s1, s1'⟩
    · rcases s2 with s2 | ⟨s2, s2'⟩
      · exact Or.inl (s2.trans s1)
      · exact Or.inr ⟨by rw [← s1]; exact s2, s2'⟩
    · rcases s2 with s2 | ⟨s2, _⟩
      · exact Or.inr ⟨s1, s2.trans s1'⟩
      · rw [s1'] at s2; exact absurd s2 (by decide)
  · obtain ⟨t1, ht1, w1⟩ := h1.tasks t tk h
    obtain ⟨t2, ht2, w2⟩ := h2.tasks t t1 ht1
    exact ⟨t2, ht2, w2.trans w1⟩

/-- every execution is RUNNING, PAUSED or completed; the owner of every task exists -/
def Shape (w : World) : Prop :=
  (∀ (i : Nat) (e : Exec), w.execs[i]? = some e → e.state = .RUNNING ∨ e.state = .PAUSED ∨ isCompleted e.state = true) ∧
  (∀ (t : Nat) (tk : Task), w.tasks[t]? = some tk → tk.wf < w.execs.length)

theorem get_of_lt {α : Type} {l : List α} {i : Nat} (h : i < l.length) : ∃ a, l[i]? = some a :=
  ⟨l[i], List.getElem?_eq_getElem h⟩

theorem PMono.back {w w' : World} (h : PMono w w') {i : Nat} {e' : Exec} (he' : w'.execs[i]? = some e') :
    ∃ e, w.execs[i]? = some e ∧ e'.parent = e.parent ∧ (e'.state = e.state ∨ (e.state = .RUNNING ∧ e'.state = .PAUSED)) := by
  have hlt : i < w.execs.length := by rw [← h.elen]; exact lt_of_get he'
  obtain ⟨e, he⟩ := get_of_lt hlt
  obtain ⟨e2, he2, p, s⟩ := h.execs i e he
  rw [he'] at he2; cases he2
  exact ⟨e, he, p, s⟩

theorem PMono.tback {w w' : World} (h : PMono w w') {t : Nat} {tk' : Task} (ht' : w'.tasks[t]? = some tk') :
    ∃ tk, w.tasks[t]? = some tk ∧ tk'.wf = tk.wf := by
  have hlt : t < w.tasks.length := by rw [← h.tlen]; exact lt_of_get ht'
  obtain ⟨tk, htk⟩ := get_of_lt hlt
  obtain ⟨t2, ht2, a⟩ := h.tasks t tk htk
  rw [ht'] at ht2; cases ht2
  exact ⟨tk, htk, a⟩

theorem Shape.mono {w w' : World} (hs : Shape w) (h : PMono w w') : Shape w' := by
  refine ⟨fun i e' he' => ?_, fun t tk' ht' => ?_⟩
  · obtain ⟨e, he, _, s⟩ := h.back he'
    rcases s with s | ⟨_, s⟩
    · rw [s]; exact hs.1 i e he
    · exact Or.inr (Or.inl s)
  · obtain ⟨tk, htk, a⟩ := h.tback ht'
    rw [h.elen, a]; exact hs.2 t tk htk

theorem completed_iff {w w' : World} (h : PMono w w') {i : Nat} {e e' : Exec} (he : w.execs[i]? = some e)
    (he' : w'.execs[i]? = some e') : isCompleted e'.state = isCompleted e.state := by
  obtain ⟨e2, he2, _, s⟩ := h.execs i e he
  rw [he'] at he2; cases he2
  rcases s with s | ⟨s1, s2⟩
  · rw [s]
  · rw [s1, s2]; decide

theorem paused_stays {w w' : World} (h : PMono w w') {i : Nat} (hp : stateOf w i = some .PAUSED) :
    stateOf w' i = some .PAUSED := by
  unfold stateOf at hp ⊢
  cases he : w.execs[i]? with
  | none => rw [he] at hp; simp at hp
  | some e =>
    rw [he] at hp
    obtain ⟨e', he', _, s⟩ := h.execs i e he
    rw [he']
    have hs : e.state = .PAUSED := by simpa using hp
    rcases s with s | ⟨s1, _⟩
    · simp [s, hs]
    · rw [hs] at s1; exact absurd s1 (by decide)

/-! ### `kidsOf` only depends on the shape -/

theorem zipIdx_filter_map_congr {α : Type} (l l' : List α) (p q : α × Nat → Bool) (hl : l.length = l'.length)
    (h : ∀ (i : Nat) (a a' : α), l[i]? = some a → l'[i]? = some a' → p (a, i) = q (a', i)) :
    (l.zipIdx.filter p).map (·.2) = (l'.zipIdx.filter q).map (·.2) := by
  suffices hgen : ∀ (n : Nat) (l l' : List α), l.length = l'.length →
      (∀ (i : Nat) (a a' : α), l[i]? = some a → l'[i]? = some a' → p (a, i + n) = q (a', i + n)) →
      ((l.zipIdx n).filter p).map (·.2) = ((l'.zipIdx n).filter q).map (·.2) by
    exact hgen 0 l l' hl (by simpa using h)
  intro n l
  induction l generalizing n with
  | nil => intro l' hl _; cases l' with
    | nil => rfl
    | cons _ _ => simp at hl
  | cons a l ih =>
    intro l' hl h
    cases l' with
    | nil => simp at hl
    | cons a' l' =>
      simp only [List.zipIdx_cons, List.filter_cons]
      have h0 := h 0 a a' (by simp) (by simp)
      simp only [Nat.zero_add] at h0
      have ht := ih (n + 1) l' (by simpa using hl) (fun i b b' hb hb' => by
        have := h (i + 1) b b' (by simpa using hb) (by simpa using hb')
        simpa [Nat.add_assoc, Nat.add_comm 1 n] using this)
      rw [h0]
      split <;> simp [ht]

theorem childrenOfTask_idx {w w' : World} (h : PMono w w') (t : Nat) :
    (childrenOfTask w t).map (·.1) = (childrenOfTask w' t).map (·.1) := by
  unfold childrenOfTask
  simp only [List.map_map]
  have := zipIdx_filter_map_congr w.execs w'.execs (fun p => p.1.parent == some t) (fun p => p.1.parent == some t)
    h.elen.symm (fun i a a' ha ha' => by
      obtain ⟨e2, he2, p, _⟩ := h.execs i a ha
      rw [ha'] at he2; cases he2
      simp [p])
  exact this

theorem kidsOf_mono {w w' : World} (h : PMono w w') (x : Nat) : kidsOf w' x = kidsOf w x := by
  unfold kidsOf
  have h1 : (w.tasks.zipIdx.filter fun p => p.1.wf == x).map (·.2) =
      (w'.tasks.zipIdx.filter fun p => p.1.wf == x).map (·.2) :=
    zipIdx_filter_map_congr w.tasks w'.tasks _ _ h.tlen.symm (fun i a a' ha ha' => by
      obtain ⟨t2, ht2, p⟩ := h.tasks i a ha
      rw [ha'] at ht2; cases ht2
      simp [p])
  have e1 : ∀ (v : World) (l : List (Task × Nat)),
      (l.flatMap fun p => (childrenOfTask v p.2).map (·.1)) =
      ((l.map (·.2)).flatMap fun t => (childrenOfTask v t).map (·.1)) := by
    intro v l; induction l with
    | nil => rfl
    | cons a l ih => simp [List.flatMap_cons, ih]
  rw [e1, e1, ← h1]
  congr 1
  funext t
  exact (childrenOfTask_idx h t).symm

/-- y is d levels below x (y = x for d = 0): a sub-workflow of a task of ... of a task of x, whatever the
    states on the way -/
def Desc (w : World) : Nat → Nat → Nat → Prop
  | 0, x, y => y = x
  | d + 1, x, y => ∃ k, k ∈ kidsOf w x ∧ Desc w d k y

/-- the execution exists and is not completed -/
def Live (w : World) (y : Nat) : Prop := ∃ e, w.execs[y]? = some e ∧ isCompleted e.state = false

theorem Desc.mono {w w' : World} (h : PMono w w') : ∀ (d x y : Nat), Desc w d x y → Desc w' d x y := by
  intro d
  induction d with
  | zero => intro x y hy; exact hy
  | succ d ih =>
    intro x y ⟨k, hk, hch⟩
    exact ⟨k, by rw [kidsOf_mono h]; exact hk, ih k y hch⟩

theorem Live.mono {w w' : World} (h : PMono w w') {y : Nat} (hl : Live w y) : Live w' y := by
  obtain ⟨e, he, hc⟩ := hl
  obtain ⟨e', he', _, _⟩ := h.execs y e he
  exact ⟨e', he', by rw [completed_iff h he he']; exact hc⟩

theorem kidsOf_nil {w : World} (hs : Shape w) {k : Nat} (hk : w.execs.length ≤ k) : kidsOf w k = [] := by
  unfold kidsOf
  have : (w.tasks.zipIdx.filter fun p => p.1.wf == k) = [] := by
    rw [List.filter_eq_nil_iff]
    intro p hp
    have hget : w.tasks[p.2]? = some p.1 := by
      have := List.mem_zipIdx_iff_getElem?.mp (show (p.1, p.2) ∈ w.tasks.zipIdx from hp)
      exact this
    have := hs.2 p.2 p.1 hget
    simp; omega
  rw [this]; rfl

/-! ### the primitives of the pause transaction -/

theorem running_of_valid_paused (s : St) (hp : isPaused s = false)
    (hv : (isValidTransition s .PAUSED == some true) = true) : s = .RUNNING := by
  cases s <;> first | rfl | (exfalso; revert hp hv; decide)

theorem pmono_setPaused (w : World) (x : Nat) (e : Exec) (he : w.execs[x]? = some e) (hr : e.state = .RUNNING) :
    PMono w (setState w x e .PAUSED) := by
  have hlt := lt_of_get he
  refine ⟨by simp [setState], fun i ei hi => ?_, rfl, fun _ tk h => ⟨tk, h, rfl⟩⟩
  simp only [setState, List.getElem?_set]
  by_cases h : x = i
  · subst h; rw [he] at hi; cases hi
    exact ⟨{ e with state := .PAUSED, info := .none, accepted := false }, by simp [hlt], rfl, Or.inr ⟨hr, rfl⟩⟩
  · exact ⟨ei, by simp [h, hi], rfl, Or.inl rfl⟩

theorem pmono_tasks {w w' : World} (he : w'.execs = w.execs) (hl : w'.tasks.length = w.tasks.length)
    (ht : ∀ (t : Nat) (tk : Task), w.tasks[t]? = some tk → ∃ tk', w'.tasks[t]? = some tk' ∧ tk'.wf = tk.wf) :
    PMono w w' :=
  ⟨by rw [he], fun _ e h => ⟨e, by rw [he]; exact h, rfl, Or.inl rfl⟩, hl, ht⟩

theorem pmono_setTask (w : World) (p : List Item) (t : Nat) (tk tk' : Task) (h : w.tasks[t]? = some tk)
    (hwf : tk'.wf = tk.wf) : PMono w { w with tasks := w.tasks.set t tk', pending := p } := by
  refine pmono_tasks rfl (by simp) (fun u tku hu => ?_)
  simp only [List.getElem?_set]
  by_cases htu : t = u
  · subst htu; rw [h] at hu; cases hu; exact ⟨tk', by simp [lt_of_get h], hwf⟩
  · exact ⟨tku, by simp [htu, hu], rfl⟩

theorem pmono_taskUpdate (w : World) (t : Nat) (s : St) : PMono w (taskUpdate w t s) := by
  unfold taskUpdate
  split
  · exact PMono.refl w
  · rename_i tk htk
    split
    · exact PMono.refl w
    · split
      · exact PMono.refl w
      · split
        · exact PMono.refl w
        · exact pmono_setTask w _ t tk _ htk rfl

/-- force_fail_task when the workflow of the task is completed: only the task row changes -/
theorem pmono_forceFail (w : World) (t : Nat) (tk : Task) (e : Exec) (htk : w.tasks[t]? = some tk)
    (he : w.execs[tk.wf]? = some e) (hc : isCompleted e.state = true) :
    PMono w (forceFail w t).1 ∧ (forceFail w t).2 = false := by
  unfold forceFail
  rw [htk]
  simp only [stopOne, he, hc, if_true]
  refine ⟨pmono_setTask w w.pending t tk _ htk rfl, ?_⟩
  first | rfl | trivial

/-! ### the induction -/

/-- the facts about one call of pause_workflow -/
structure PauseOk (c : Cfg) (f : Nat) (w : World) (x : Nat) : Prop where
  mono : PMono w (prop c f .pause w x).1
  noraise : Live w x → (prop c f .pause w x).2 = false
  paused : ∀ (d y : Nat), d < f → Desc w d x y → Live w y → stateOf (prop c f .pause w x).1 y = some .PAUSED

/-- ... and about the visit of a completed sub-workflow (only what is below it) -/
structure BelowOk (c : Cfg) (f : Nat) (w : World) (x : Nat) : Prop where
  mono : PMono w (prop c f .belowP w x).1
  noraise : (prop c f .belowP w x).2 = false
  paused : ∀ (d y : Nat), 0 < d → d < f → Desc w d x y → Live w y →
    stateOf (prop c f .belowP w x).1 y = some .PAUSED

theorem pause_ok (c : Cfg) : ∀ (f : Nat),
    (∀ w x, Shape w → PauseOk c f w x) ∧
    (∀ w x e, Shape w → w.execs[x]? = some e → isPaused e.state = true →
       PMono w (prop c f .update w x).1 ∧ (prop c f .update w x).2 = false) ∧
    (∀ w x, Shape w → BelowOk c f w x) := by
  intro f
  induction f with
  | zero =>
    exact ⟨fun w x _ => ⟨PMono.refl w, fun _ => rfl, fun d y hd _ _ => absurd hd (by omega)⟩,
           fun w x e _ he _ => by
             simp only [prop, updateLocal, he]
             split
             · exact ⟨PMono.refl w, trivial⟩
             · exact ⟨pmono_taskUpdate w _ _, trivial⟩,
           fun w x _ => ⟨PMono.refl w, rfl, fun d y _ hd _ _ => absurd hd (by omega)⟩⟩
  | succ f ih =>
    obtain ⟨ihA, ihB, ihC⟩ := ih
    -- the loop over the sub-workflows (the same in pause_workflow and below a completed sub-workflow)
    have hloop : ∀ (w : World), Shape w → ∀ (l : List Nat) (acc : World × Bool), PMono w acc.1 → acc.2 = false →
        let r := l.foldl (fun (acc : World × Bool) k =>
          if acc.2 then acc else
          match acc.1.execs[k]? with
          | some ek => if isCompleted ek.state then prop c f .belowP acc.1 k else prop c f .pause acc.1 k
          | none => acc) acc
        PMono w r.1 ∧ r.2 = false ∧
        (∀ (y : Nat), stateOf acc.1 y = some .PAUSED → stateOf r.1 y = some .PAUSED) ∧
        (∀ (k d y : Nat), k ∈ l → d < f → Desc w d k y → Live w y → stateOf r.1 y = some .PAUSED) := by
      intro w hs l
      induction l with
      | nil => intro acc hm hr; exact ⟨hm, hr, fun _ h => h, fun k _ _ hk => by simp at hk⟩
      | cons k l ihl =>
        intro acc hm hr
        simp only [List.foldl_cons]
        have hstep : ∃ acc' : World × Bool,
            acc' = (if acc.2 then acc else
              match acc.1.execs[k]? with
              | some ek => if isCompleted ek.state then prop c f .belowP acc.1 k else prop c f .pause acc.1 k
              | none => acc) ∧ PMono acc.1 acc'.1 ∧ acc'.2 = false ∧
            (∀ d y, d < f → Desc w d k y → Live w y → stateOf acc'.1 y = some .PAUSED) := by
          refine ⟨_, rfl, ?_⟩
          rw [hr]
          simp only [Bool.false_eq_true, if_false]
          cases hk : acc.1.execs[k]? with
          | none =>
            refine ⟨PMono.refl _, hr, fun d y _ hdesc hlive => ?_⟩
            have hge : w.execs.length ≤ k := by
              rcases Nat.lt_or_ge k w.execs.length with h' | h'
              · obtain ⟨e0, he0⟩ := get_of_lt h'
                obtain ⟨e', he', _, _⟩ := hm.execs k e0 he0
                rw [hk] at he'; simp at he'
              · exact h'
            cases d with
            | zero =>
              have : y = k := hdesc
              subst this
              obtain ⟨e, he, _⟩ := hlive
              have := lt_of_get he; omega
            | succ d =>
              obtain ⟨k2, hk2, _⟩ := hdesc
              rw [kidsOf_nil hs hge] at hk2; simp at hk2
          | some ek' =>
            simp only
            obtain ⟨ek, hek, _, _⟩ := hm.back hk
            have hceq := completed_iff hm hek hk
            cases hc : isCompleted ek'.state with
            | true =>
              simp only [if_true]
              have hC := ihC acc.1 k (hs.mono hm)
              refine ⟨hC.mono, hC.noraise, fun d y hd hdesc hlive => ?_⟩
              cases d with
              | zero =>
                have : y = k := hdesc
                subst this
                obtain ⟨e, he, hce⟩ := hlive
                rw [hek] at he; cases he
                rw [hceq] at hc; rw [hc] at hce; exact absurd hce (by simp)
              | succ d =>
                exact hC.paused (d + 1) y (by omega) hd (Desc.mono hm _ k y hdesc) (hlive.mono hm)
            | false =>
              simp only [Bool.false_eq_true, if_false]
              have hA := ihA acc.1 k (hs.mono hm)
              exact ⟨hA.mono, hA.noraise ⟨ek', hk, hc⟩, fun d y hd hdesc hlive =>
                hA.paused d y hd (Desc.mono hm d k y hdesc) (hlive.mono hm)⟩
        obtain ⟨acc', hacc', hm', hr', hp'⟩ := hstep
        rw [← hacc']
        obtain ⟨r1, r2, r3, r4⟩ := ihl acc' (hm.trans hm') hr'
        refine ⟨r1, r2, fun y hy => r3 y (paused_stays hm' hy), fun k2 d y hk2 hd hdesc hlive => ?_⟩
        rcases List.mem_cons.mp hk2 with rfl | hk2
        · exact r3 y (hp' d y hd hdesc hlive)
        · exact r4 k2 d y hk2 hd hdesc hlive
    refine ⟨?_, ?_, ?_⟩
    · intro w x hs
      have hl := hloop w hs (kidsOf w x) (w, false) (PMono.refl w) rfl
      simp only at hl
      have hprop : prop c (f + 1) .pause w x =
          (let r := (kidsOf w x).foldl (fun (acc : World × Bool) k =>
              if acc.2 then acc else
              match acc.1.execs[k]? with
              | some ek => if isCompleted ek.state then prop c f .belowP acc.1 k else prop c f .pause acc.1 k
              | none => acc) (w, false)
           if r.2 then r else
           match r.1.execs[x]? with
           | none => r
           | some e =>
             if isPaused e.state then r
             else if isValidTransition e.state .PAUSED == some true then
               let w1 := setState r.1 x e .PAUSED
               match e.parent with
               | none => (w1, false)
               | some t =>
                 if isWithItemsTask c w1 t then ({ w1 with pending := w1.pending ++ [.jobChildUpdate x] }, false)
                 else prop c f .update w1 x
             else (r.1, true)) := by rfl
      generalize hr : (kidsOf w x).foldl _ (w, false) = r at hl hprop
      obtain ⟨l1, l2, _, l4⟩ := hl
      have hfin : ∃ w2, (prop c (f + 1) .pause w x).1 = w2 ∧ PMono r.1 w2 ∧
          (Live w x → (prop c (f + 1) .pause w x).2 = false ∧ stateOf w2 x = some .PAUSED) := by
        rw [hprop]
        simp only [l2, Bool.false_eq_true, if_false]
        cases hx : r.1.execs[x]? with
        | none =>
          refine ⟨_, rfl, PMono.refl _, fun ⟨e, he, _⟩ => ?_⟩
          obtain ⟨e', he', _, _⟩ := l1.execs x e he
          rw [hx] at he'; simp at he'
        | some e =>
          simp only
          obtain ⟨e0, he0, _, _⟩ := l1.back hx
          have hceq := completed_iff l1 he0 hx
          cases hp : isPaused e.state with
          | true =>
            simp only [if_true]
            refine ⟨_, rfl, PMono.refl _, fun _ => ⟨l2, ?_⟩⟩
            simp only [stateOf, hx, Option.map_some]
            revert hp; cases e.state <;> simp [isPaused, Gen.States.pausedStates]
          | false =>
            simp only [Bool.false_eq_true, if_false]
            cases hv : (isValidTransition e.state .PAUSED == some true) with
            | false =>
              simp only [Bool.false_eq_true, if_false]
              refine ⟨_, rfl, PMono.refl _, fun ⟨e1, he1, hc1⟩ => ?_⟩
              rw [he0] at he1; cases he1
              have h5 := (hs.mono l1).1 x e hx
              rw [← hceq] at hc1
              rcases h5 with h5 | h5 | h5
              · rw [h5] at hv; exact absurd hv (by decide)
              · rw [h5] at hp; exact absurd hp (by decide)
              · rw [h5] at hc1; exact absurd hc1 (by simp)
            | true =>
              simp only [if_true]
              have hrun := running_of_valid_paused e.state hp hv
              have hm1 := pmono_setPaused r.1 x e hx hrun
              have hx1 : (setState r.1 x e .PAUSED).execs[x]? =
                  some { e with state := .PAUSED, info := .none, accepted := false } := by
                simp [setState, lt_of_get hx]
              have hst1 : stateOf (setState r.1 x e .PAUSED) x = some .PAUSED := by
                simp [stateOf, hx1]
              cases hpar : e.parent with
              | none => exact ⟨_, rfl, hm1, fun _ => ⟨rfl, hst1⟩⟩
              | some t =>
                simp only
                split
                · refine ⟨_, rfl, hm1.trans ⟨rfl, fun _ e h => ⟨e, h, rfl, Or.inl rfl⟩, rfl, fun _ tk h => ⟨tk, h, rfl⟩⟩,
                    fun _ => ⟨rfl, ?_⟩⟩
                  exact hst1
                · obtain ⟨b1, b2⟩ := ihB (setState r.1 x e .PAUSED) x _ ((hs.mono l1).mono hm1) hx1
                    (by show isPaused St.PAUSED = true; decide)
                  exact ⟨_, rfl, hm1.trans b1, fun _ => ⟨b2, paused_stays b1 hst1⟩⟩
      obtain ⟨w2, hw2, hm2, hx2⟩ := hfin
      refine ⟨by rw [hw2]; exact l1.trans hm2, fun hl => (hx2 hl).1, fun d y hd hdesc hlive => ?_⟩
      rw [hw2]
      cases d with
      | zero =>
        have : y = x := hdesc
        subst this
        exact (hx2 hlive).2
      | succ d =>
        obtain ⟨k, hk, hdesc'⟩ := hdesc
        exact paused_stays hm2 (l4 k d y hk (by omega) hdesc' hlive)
    · intro w x e hs he hp
      simp only [prop, he]
      split
      · exact ⟨PMono.refl w, rfl⟩
      · rename_i t ht
        split
        · exact ⟨PMono.refl w, rfl⟩
        · rename_i tk htk
          simp only [hp, if_true]
          have h1 := pmono_taskUpdate w t e.state
          have hs1 := hs.mono h1
          have hA := ihA (taskUpdate w t e.state) tk.wf hs1
          split
          · rename_i hraised
            obtain ⟨tk1, htk1, hw1⟩ := h1.tasks t tk htk
            have hlt : tk.wf < (taskUpdate w t e.state).execs.length := by
              rw [h1.elen]; exact hs.2 t tk htk
            obtain ⟨pe, hpe⟩ := get_of_lt hlt
            have hcp : isCompleted pe.state = true := by
              cases hc : isCompleted pe.state with
              | true => rfl
              | false => rw [hA.noraise ⟨pe, hpe, hc⟩] at hraised; exact absurd hraised (by simp)
            obtain ⟨pe2, hpe2, _, _⟩ := hA.mono.execs tk.wf pe hpe
            obtain ⟨tk2, htk2, hw2⟩ := hA.mono.tasks t tk1 htk1
            have hcp2 : isCompleted pe2.state = true := by rw [completed_iff hA.mono hpe hpe2]; exact hcp
            obtain ⟨f1, f2⟩ := pmono_forceFail _ t tk2 pe2 htk2 (by rw [hw2, hw1]; exact hpe2) hcp2
            exact ⟨(h1.trans hA.mono).trans f1, f2⟩
          · rename_i hnr
            exact ⟨h1.trans hA.mono, by simpa using hnr⟩
    · intro w x hs
      have hl := hloop w hs (kidsOf w x) (w, false) (PMono.refl w) rfl
      simp only at hl
      have hprop : prop c (f + 1) .belowP w x =
          (kidsOf w x).foldl (fun (acc : World × Bool) k =>
              if acc.2 then acc else
              match acc.1.execs[k]? with
              | some ek => if isCompleted ek.state then prop c f .belowP acc.1 k else prop c f .pause acc.1 k
              | none => acc) (w, false) := by rfl
      rw [← hprop] at hl
      obtain ⟨l1, l2, _, l4⟩ := hl
      refine ⟨l1, l2, fun d y hpos hd hdesc hlive => ?_⟩
      cases d with
      | zero => omega
      | succ d =>
        obtain ⟨k, hk, hdesc'⟩ := hdesc
        exact l4 k d y hk (by omega) hdesc' hlive


/-! ### `Desc` against `below` (the parent links walked upwards) -/

theorem mem_kidsOf {w : World} {x k : Nat} :
    k ∈ kidsOf w x ↔ ∃ e t tk, w.execs[k]? = some e ∧ e.parent = some t ∧ w.tasks[t]? = some tk ∧ tk.wf = x := by
  unfold kidsOf childrenOfTask
  simp only [List.mem_flatMap, List.mem_filter, List.mem_map, Prod.exists, List.mem_zipIdx_iff_getElem?,
    beq_iff_eq]
  constructor
  · intro h
    obtain ⟨tk, t, ⟨htk, hwf⟩, k', e', ⟨e2, k2, ⟨he, hp⟩, h1⟩, h2⟩ := h
    cases h1
    subst h2
    exact ⟨_, t, tk, he, hp, htk, hwf⟩
  · rintro ⟨e, t, tk, he, hp, htk, hwf⟩
    exact ⟨tk, t, ⟨htk, hwf⟩, k, e, ⟨e, k, ⟨he, hp⟩, rfl⟩, rfl⟩

theorem Desc.snoc {w : World} : ∀ (d a p y : Nat), Desc w d a p → y ∈ kidsOf w p → Desc w (d + 1) a y := by
  intro d
  induction d with
  | zero => intro a p y hp hy; cases hp; exact ⟨y, hy, rfl⟩
  | succ d ih =>
    intro a p y ⟨k, hk, hd⟩ hy
    exact ⟨k, hk, ih k p y hd hy⟩

theorem desc_of_below (w : World) (a : Nat) : ∀ (f y : Nat), below w a f y = true → ∃ d, d < f ∧ Desc w d a y := by
  intro f
  induction f with
  | zero => intro y h; simp [below] at h
  | succ f ih =>
    intro y h
    simp only [below, Bool.or_eq_true] at h
    rcases h with h | h
    · exact ⟨0, by omega, show y = a by simpa using h⟩
    · cases hp : parentWf w y with
      | none => simp [hp] at h
      | some p =>
        simp only [hp] at h
        obtain ⟨d, hd, hdesc⟩ := ih p h
        obtain ⟨e, t, tk, he, hpar, htk, hwf⟩ := parentWf_eq hp
        exact ⟨d + 1, by omega, Desc.snoc d a p y hdesc (mem_kidsOf.mpr ⟨e, t, tk, he, hpar, htk, hwf⟩)⟩

end Mistral.Tree
