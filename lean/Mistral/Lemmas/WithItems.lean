/-
Helper lemmas for C07 (with-items bookkeeping): list facts, the capacity invariant `CapInv`
and the first-round invariant `FreshInv`, each with init / step / reachable.
-/
import Mistral.Model.WithItems

namespace Mistral.WithItems

/-! ### list facts -/

theorem countP_setResult_running {l : List Item} {pos : Nat} {it : Item} {o : Outcome}
    (h : l[pos]? = some it) (hr : it.state = .running) :
    (setResult l pos o).countP (fun x => x.state == .running) + 1
      = l.countP (fun x => x.state == .running) := by
  induction l generalizing pos with
  | nil => simp at h
  | cons a l ih =>
    cases pos with
    | zero =>
      simp at h
      subst h
      simp [setResult, List.countP_cons, hr]
      cases o <;> simp [Outcome.toISt]
    | succ p =>
      simp at h
      simp only [setResult, List.countP_cons]
      have := ih h
      omega

theorem length_setResult (l : List Item) (pos : Nat) (o : Outcome) :
    (setResult l pos o).length = l.length := by
  induction l generalizing pos with
  | nil => simp [setResult]
  | cons a l ih => cases pos <;> simp [setResult, ih]

theorem map_index_setResult (l : List Item) (pos : Nat) (o : Outcome) :
    (setResult l pos o).map (·.index) = l.map (·.index) := by
  induction l generalizing pos with
  | nil => simp [setResult]
  | cons a l ih => cases pos <;> simp [setResult, ih]

theorem mem_setResult {l : List Item} {pos : Nat} {o : Outcome} {x : Item}
    (hx : x ∈ setResult l pos o) :
    x ∈ l ∨ (x.accepted = true ∧ x.state = o.toISt) := by
  induction l generalizing pos with
  | nil => simp [setResult] at hx
  | cons a l ih =>
    cases pos with
    | zero =>
      simp [setResult] at hx
      rcases hx with h | h
      · right; subst h; simp
      · left; simp [h]
    | succ p =>
      simp [setResult] at hx
      rcases hx with h | h
      · left; simp [h]
      · rcases ih h with h' | h'
        · left; simp [h']
        · right; exact h'

theorem toISt_ne_running (o : Outcome) : o.toISt ≠ .running := by cases o <;> simp [Outcome.toISt]

theorem countP_running_resetActions (reset : Bool) (l : List Item) :
    (resetActions reset l).countP (fun x => x.state == .running) = l.countP (fun x => x.state == .running) := by
  induction l with
  | nil => simp [resetActions]
  | cons a l ih =>
    simp only [resetActions, List.map_cons, List.countP_cons] at ih ⊢
    rw [ih]
    split <;> simp

theorem countP_running_invalidateAll (l : List Item) :
    (invalidateAll l).countP (fun x => x.state == .running) = l.countP (fun x => x.state == .running) := by
  induction l with
  | nil => simp [invalidateAll]
  | cons a l ih =>
    simp only [invalidateAll, List.map_cons, List.countP_cons] at ih ⊢
    rw [ih]

theorem countP_running_new (idxs : List Nat) :
    (idxs.map (fun i => ({ index := i, state := .running, accepted := false } : Item))).countP
      (fun x => x.state == .running) = idxs.length := by
  induction idxs with
  | nil => simp
  | cons a l ih => simp [List.countP_cons, ih]

theorem countP_eq_zero_not_running {l : List Item} (h : l.countP (fun x => x.state == .running) = 0)
    {pos : Nat} {it : Item} (hi : l[pos]? = some it) : it.state ≠ .running := by
  intro hr
  have hm : it ∈ l := List.mem_of_getElem? hi
  have : 0 < l.countP (fun x => x.state == .running) := List.countP_pos_iff.mpr ⟨it, hm, by simp [hr]⟩
  omega

theorem length_takeCap_le (k : Nat) (l : List Nat) : (takeCap (some k) l).length ≤ k := by
  simp [takeCap, List.length_take]; omega

theorem takeCap_ne_nil {k : Nat} {l : List Nat} (hk : 0 < k) (hl : l ≠ []) : takeCap (some k) l ≠ [] := by
  cases l with
  | nil => exact absurd rfl hl
  | cons a l =>
    cases k with
    | zero => omega
    | succ k => simp [takeCap]

theorem indices_ne_nil {s : WI} (h : hasMore s = true) : indices s ≠ [] := by
  unfold indices
  split
  · rename_i m hm
    intro hn
    have : candidates s = [] := by
      cases hc : candidates s with
      | nil => rfl
      | cons a l => rw [hc] at hn; simp at hn
    rw [this] at hm; simp at hm
  · simp only [hasMore, decide_eq_true_eq] at h
    simp only [rangeFromTo, nextStartIndex]
    intro hn
    have := congrArg List.length hn
    simp at this
    omega

/-! ### the capacity invariant -/

/-- The relation the code maintains between RUNNING children, `capacity`, the completions whose
    `_scheduled_on_action_complete` job has not run yet, and `concurrency`. -/
structure CapInv (s : WI) : Prop where
  idle : s.tstate = .idle → s.items = [] ∧ s.unhandled = 0 ∧ s.concurrency = none ∧ s.capacity = none
          ∧ s.prepared = false
  conc : s.tstate ≠ .idle → s.concurrency = policyConc s.specConc ∧ s.prepared = true
  unl : s.concurrency = none → s.capacity = none
  lim : ∀ c, s.concurrency = some c → 0 < c ∧ ∃ k, s.capacity = some k ∧
        running s + k + s.unhandled ≤ c ∧
        (s.tstate = .running → running s + k + s.unhandled = c) ∧
        (s.tstate = .delayed ∨ s.tstate = .success ∨ s.tstate = .error →
            running s = 0 ∧ s.unhandled = 0 ∧ (s.tstate = .delayed → k = c))

theorem policyConc_cases (c : Option Nat) : policyConc c = none ∨ ∃ k, policyConc c = some (k + 1) := by
  unfold policyConc
  cases c with
  | none => simp [truthy]
  | some n => cases n with
    | zero => simp [truthy]
    | succ k => right; exact ⟨k, by simp [truthy]⟩

theorem capInv_init (n : Nat) (c : Option Nat) (r : Nat) : CapInv (init n c r) := by
  constructor <;> simp [init]

/-- `complete` on a state that is not yet completed -/
theorem complete_tstate_cases (s : WI) (st : TSt) (h : s.tstate.completed = false) :
    (complete s st).tstate = st ∨ (st = .error ∧ (complete s st).tstate = .delayed) := by
  unfold complete
  simp [h]
  cases st <;> simp
  split <;> simp

theorem complete_fields (s : WI) (st : TSt) :
    (complete s st).concurrency = s.concurrency ∧ (complete s st).capacity = s.capacity ∧
    (complete s st).prepared = s.prepared ∧ (complete s st).unhandled = s.unhandled ∧
    (complete s st).specConc = s.specConc ∧ (complete s st).count = s.count ∧
    (complete s st).specCount = s.specCount ∧ (complete s st).specRetries = s.specRetries ∧
    running (complete s st) = running s := by
  unfold complete running
  split
  · simp
  · cases st <;> simp
    split <;> simp [countP_running_invalidateAll]

/-- hypotheses under which `scheduleBody` re-establishes the invariant -/
theorem capInv_scheduleBody {s : WI} (hp : s.prepared = true) (ht : s.tstate = .running)
    (hc : s.concurrency = policyConc s.specConc)
    (hu : s.concurrency = none → s.capacity = none)
    (hl : ∀ c, s.concurrency = some c → 0 < c ∧ ∃ k, s.capacity = some k ∧
          running s + k + s.unhandled = c)
    (he : nextIndexes s = [] → ∀ c, s.concurrency = some c → running s = 0 ∧ s.unhandled = 0) :
    CapInv (scheduleBody s) := by
  unfold scheduleBody
  simp only []
  split
  · rename_i hem
    have hem' : nextIndexes s = [] := by simpa using hem
    have hcomp : s.tstate.completed = false := by simp [ht, TSt.completed]
    have hts : (complete s .success).tstate = .success := by
      rcases complete_tstate_cases s .success hcomp with h | h
      · exact h
      · simp at h
    obtain ⟨f1, f2, f3, f4, f5, f6, f7, f8, f9⟩ := complete_fields s .success
    constructor
    · intro h; rw [hts] at h; simp at h
    · intro _; rw [f1, f5, f3]; exact ⟨hc, hp⟩
    · intro h; rw [f1] at h; rw [f2]; exact hu h
    · intro c h
      rw [f1] at h
      obtain ⟨hpos, k, hk, hbal⟩ := hl c h
      obtain ⟨hr0, hu0⟩ := he hem' c h
      refine ⟨hpos, k, by rw [f2]; exact hk, ?_, ?_, ?_⟩
      · rw [f9, f4]; omega
      · intro h'; rw [hts] at h'; simp at h'
      · intro _; rw [f9, f4]; refine ⟨hr0, hu0, ?_⟩
        intro h'; rw [hts] at h'; simp at h'
  · constructor
    · intro h; simp [ht] at h
    · intro _; exact ⟨hc, hp⟩
    · intro h
      simp only [] at h ⊢
      simp [hu h]
    · intro c h
      simp only [] at h
      obtain ⟨hpos, k, hk, hbal⟩ := hl c h
      have hlen : (nextIndexes s).length ≤ k := by
        unfold nextIndexes; rw [hk]; exact length_takeCap_le k _
      refine ⟨hpos, k - (nextIndexes s).length, by simp [hk], ?_, ?_, ?_⟩
      · simp only [running, List.countP_append, countP_running_new] at hbal ⊢
        omega
      · intro _
        simp only [running, List.countP_append, countP_running_new] at hbal ⊢
        omega
      · intro h'; simp [ht] at h'

theorem prepare_of_prepared {s : WI} (h : s.prepared = true) : prepare s = s := by
  simp [prepare, h]

theorem capInv_step_start {s : WI} (hi : CapInv s) : CapInv (step s .start) := by
  simp only [step]
  split
  · rename_i hidle
    obtain ⟨h1, h2, h3, h4, h5⟩ := hi.idle hidle
    unfold scheduleActions
    apply capInv_scheduleBody
    · simp [prepare, h5]
    · simp [prepare, h5]
    · simp [prepare, h5]
    · simp [prepare, h5]
    · intro c hcc
      simp [prepare, h5] at hcc
      rcases policyConc_cases s.specConc with hn | ⟨k, hk⟩
      · rw [hn] at hcc; simp at hcc
      · rw [hk] at hcc
        simp at hcc
        refine ⟨by omega, c, ?_, ?_⟩
        · simp [prepare, h5, hk, hcc]
        · simp [prepare, h5, running, h1, h2]
    · intro _ c _
      simp [prepare, h5, running, h1, h2]
  · exact hi

theorem capInv_step_result {s : WI} (hi : CapInv s) (pos : Nat) (o : Outcome) :
    CapInv (step s (.result pos o)) := by
  simp only [step]
  split
  · rename_i it hit
    split
    · rename_i hr
      have hrun := countP_setResult_running (o := o) hit hr
      have hne : s.tstate ≠ .idle := by
        intro hidle
        have := (hi.idle hidle).1
        rw [this] at hit; simp at hit
      constructor
      · intro h; exact absurd h hne
      · intro _; exact hi.conc hne
      · exact hi.unl
      · intro c hc
        obtain ⟨hpos, k, hk, hle, heq, hz⟩ := hi.lim c hc
        refine ⟨hpos, k, hk, ?_, ?_, ?_⟩
        · simp only [running] at hle ⊢; omega
        · intro h; have := heq h; simp only [running] at this ⊢; omega
        · intro h
          have := (hz h).1
          exact absurd hr (countP_eq_zero_not_running this hit)
    · exact hi
  · exact hi

theorem finalState_cases (s : WI) :
    (finalState s = .cancelled ∧ hasAccepted s .cancelled = true) ∨
    (finalState s = .error ∧ hasAccepted s .cancelled = false) ∨
    (finalState s = .success ∧ hasAccepted s .cancelled = false) := by
  unfold finalState
  cases h : hasAccepted s .cancelled <;> simp

theorem capInv_step_rerun {s : WI} (hi : CapInv s) (reset : Bool) :
    CapInv (step s (.rerun reset)) := by
  simp only [step]
  split
  · rename_i herr
    have hne : s.tstate ≠ .idle := by rw [herr]; simp
    obtain ⟨hcc, _⟩ := hi.conc hne
    unfold scheduleActions
    apply capInv_scheduleBody
    · simp [prepare]
    · simp [prepare]
    · simp [prepare]
    · simp [prepare]
    · intro c hc
      simp [prepare] at hc
      rw [← hcc] at hc
      obtain ⟨hpos, k, hk, hle, heq, hz⟩ := hi.lim c hc
      obtain ⟨hr0, hu0, _⟩ := hz (Or.inr (Or.inr herr))
      refine ⟨hpos, c, ?_, ?_⟩
      · simp [prepare, ← hcc, hc]
      · simp only [running] at hr0
        simp [prepare, running, countP_running_resetActions, hr0, hu0]
    · intro _ c hc
      simp [prepare] at hc
      rw [← hcc] at hc
      obtain ⟨hpos, k, hk, hle, heq, hz⟩ := hi.lim c hc
      obtain ⟨hr0, hu0, _⟩ := hz (Or.inr (Or.inr herr))
      simp only [running] at hr0
      simp [prepare, running, countP_running_resetActions, hr0, hu0]
  · exact hi

theorem capInv_step_continue {s : WI} (hi : CapInv s) : CapInv (step s .continue) := by
  simp only [step]
  split
  · rename_i hd
    have hne : s.tstate ≠ .idle := by rw [hd]; simp
    obtain ⟨hcc, hp⟩ := hi.conc hne
    unfold scheduleActions
    apply capInv_scheduleBody
    · simp [prepare, hp]
    · simp [prepare, hp]
    · simp [prepare, hp]; exact hcc
    · simp [prepare, hp]; exact hi.unl
    · intro c hc
      simp [prepare, hp] at hc
      obtain ⟨hpos, k, hk, hle, heq, hz⟩ := hi.lim c hc
      obtain ⟨hr0, hu0, hkc⟩ := hz (Or.inl hd)
      refine ⟨hpos, k, ?_, ?_⟩
      · simp [prepare, hp, hk]
      · simp only [running] at hr0
        simp [prepare, hp, running, countP_running_resetActions, hr0, hu0, hkc hd]
    · intro _ c hc
      simp [prepare, hp] at hc
      obtain ⟨hpos, k, hk, hle, heq, hz⟩ := hi.lim c hc
      obtain ⟨hr0, hu0, _⟩ := hz (Or.inl hd)
      simp only [running] at hr0
      simp [prepare, hp, running, countP_running_resetActions, hr0, hu0]
  · exact hi

theorem complete_tstate_ne_idle (s : WI) (h : s.tstate.completed = false) :
    (complete s (finalState s)).tstate ≠ .idle := by
  rcases complete_tstate_cases s (finalState s) h with h1 | ⟨_, h1⟩
  · rw [h1]; rcases finalState_cases s with ⟨h2, _⟩ | ⟨h2, _⟩ | ⟨h2, _⟩ <;> rw [h2] <;> simp
  · rw [h1]; simp

theorem capInv_onActionComplete {s : WI} (hne : s.tstate ≠ .idle)
    (hcc : s.concurrency = policyConc s.specConc ∧ s.prepared = true)
    (hunl : s.concurrency = none → s.capacity = none)
    (hlim : ∀ c, s.concurrency = some c → 0 < c ∧ ∃ k, s.capacity = some k ∧
        running s + k + s.unhandled + 1 ≤ c ∧
        (s.tstate = .running → running s + k + s.unhandled + 1 = c) ∧
        (s.tstate ≠ .delayed ∧ s.tstate ≠ .success ∧ s.tstate ≠ .error)) :
    CapInv (onActionComplete s) := by
  unfold onActionComplete
  split
  · rename_i hcomp
    constructor
    · intro h; exact absurd h hne
    · intro _; exact hcc
    · exact hunl
    · intro c hc
      obtain ⟨hpos, k, hk, hle, heq, hnd, hns, hner⟩ := hlim c hc
      refine ⟨hpos, k, hk, by omega, ?_, ?_⟩
      · intro h; rw [h] at hcomp; simp [TSt.completed] at hcomp
      · intro h; rcases h with h | h | h
        · exact absurd h hnd
        · exact absurd h hns
        · exact absurd h hner
  · rename_i hcomp
    have hcomp : s.tstate.completed = false := by simpa using hcomp
    cases hconc : s.concurrency with
    | none =>
      have hinc : increaseCapacity s = s := by simp [increaseCapacity, hconc]
      simp only [hinc]
      split
      · obtain ⟨f1, f2, f3, f4, f5, f6, f7, f8, f9⟩ := complete_fields s (finalState s)
        constructor
        · intro h; exact absurd h (complete_tstate_ne_idle s hcomp)
        · intro _; rw [f1, f5, f3]; exact hcc
        · intro _; rw [f2]; exact hunl hconc
        · intro c hc; rw [f1, hconc] at hc; simp at hc
      · simp only [hconc, truthy, Bool.and_false, Bool.false_eq_true, if_false]
        constructor
        · intro h; exact absurd h hne
        · intro _; exact hcc
        · exact hunl
        · intro c hc; rw [hconc] at hc; simp at hc
    | some c =>
      obtain ⟨hpos, k, hk, hle, heq, hnd, hns, hner⟩ := hlim c hconc
      have hrun : s.tstate = .running := by
        cases ht : s.tstate <;> simp_all [TSt.completed]
      have hbal := heq hrun
      obtain ⟨c', rfl⟩ : ∃ c', c = c' + 1 := ⟨c - 1, by omega⟩
      have hinc : increaseCapacity s = { s with capacity := some (k + 1) } := by
        simp [increaseCapacity, hconc, hk, truthy]; omega
      rw [hinc]
      simp only []
      split
      · rename_i hisc
        generalize hs1 : ({ s with capacity := some (k + 1) } : WI) = s1 at hisc ⊢
        have e1 : s1.tstate = s.tstate := by rw [← hs1]
        have e2 : s1.concurrency = s.concurrency := by rw [← hs1]
        have e3 : s1.capacity = some (k + 1) := by rw [← hs1]
        have e4 : s1.prepared = s.prepared := by rw [← hs1]
        have e5 : s1.specConc = s.specConc := by rw [← hs1]
        have e6 : s1.unhandled = s.unhandled := by rw [← hs1]
        have e7 : running s1 = running s := by rw [← hs1]; rfl
        have hcomp1 : s1.tstate.completed = false := by rw [e1]; exact hcomp
        obtain ⟨f1, f2, f3, f4, f5, f6, f7, f8, f9⟩ := complete_fields s1 (finalState s1)
        constructor
        · intro h; exact absurd h (complete_tstate_ne_idle s1 hcomp1)
        · intro _; rw [f1, f5, f3, e2, e5, e4]; exact hcc
        · intro h; rw [f1, e2, hconc] at h; simp at h
        · intro c hc
          rw [f1, e2, hconc] at hc
          simp at hc
          subst hc
          refine ⟨hpos, k + 1, by rw [f2, e3], ?_, ?_, ?_⟩
          · rw [f9, f4, e6, e7]; omega
          · intro h
            rcases finalState_cases s1 with ⟨h2, _⟩ | ⟨h2, h3⟩ | ⟨h2, h3⟩
            · rcases complete_tstate_cases s1 (finalState s1) hcomp1 with h1 | ⟨_, h1⟩
              · rw [h1, h2] at h; simp at h
              · rw [h1] at h; simp at h
            all_goals
              rcases complete_tstate_cases s1 (finalState s1) hcomp1 with h1 | ⟨_, h1⟩
              · rw [h1, h2] at h; simp at h
              · rw [h1] at h; simp at h
          · intro h
            have hfull : k + 1 = c' + 1 := by
              rcases finalState_cases s1 with ⟨h2, _⟩ | ⟨h2, h3⟩ | ⟨h2, h3⟩
              · rcases complete_tstate_cases s1 (finalState s1) hcomp1 with h1 | ⟨h1', h1⟩
                · rw [h1, h2] at h; simp at h
                · rw [h2] at h1'; simp at h1'
              all_goals
                simp only [isCompleted, h3, Bool.false_or, Bool.and_eq_true] at hisc
                have := hisc.2
                rw [e2, e3, hconc] at this
                simp [truthy] at this
                omega
            rw [f9, f4, e6, e7]
            refine ⟨by omega, by omega, fun _ => hfull⟩
      · rename_i hisc
        split
        · rename_i hmore
          simp only [Bool.and_eq_true] at hmore
          unfold scheduleActions
          rw [prepare_of_prepared (by simp [hcc.2])]
          apply capInv_scheduleBody
          · simp [hcc.2]
          · simp [hrun]
          · simp; exact hcc.1
          · intro h; simp [hconc] at h
          · intro c hc
            simp [hconc] at hc
            subst hc
            exact ⟨hpos, k + 1, rfl, by simp only [running] at hbal ⊢; omega⟩
          · intro hnil
            exfalso
            have h1 := indices_ne_nil hmore.1
            have h2 := takeCap_ne_nil (k := k + 1) (by omega) h1
            unfold nextIndexes at hnil
            exact h2 hnil
        · constructor
          · intro h; exact absurd h hne
          · intro _; exact hcc
          · intro h; simp [hconc] at h
          · intro c hc
            simp [hconc] at hc
            subst hc
            refine ⟨hpos, k + 1, rfl, ?_, ?_, ?_⟩
            · simp only [running] at hbal ⊢; omega
            · intro _; simp only [running] at hbal ⊢; omega
            · intro h; simp [hrun] at h

theorem capInv_step_handled {s : WI} (hi : CapInv s) : CapInv (step s .handled) := by
  simp only [step]
  split
  · exact hi
  · rename_i hu
    have hne : s.tstate ≠ .idle := by
      intro h; exact hu (hi.idle h).2.1
    apply capInv_onActionComplete
    · exact hne
    · exact hi.conc hne
    · exact hi.unl
    · intro c hc
      obtain ⟨hpos, k, hk, hle, heq, hz⟩ := hi.lim c hc
      refine ⟨hpos, k, hk, ?_, ?_, ?_⟩
      · simp only [running] at hle ⊢; omega
      · intro h; have := heq h; simp only [running] at this ⊢; omega
      · refine ⟨?_, ?_, ?_⟩ <;> intro h
        · exact hu (hz (Or.inl h)).2.1
        · exact hu (hz (Or.inr (Or.inl h))).2.1
        · exact hu (hz (Or.inr (Or.inr h))).2.1

theorem capInv_step {s : WI} (hi : CapInv s) (op : Op) : CapInv (step s op) := by
  cases op with
  | start => exact capInv_step_start hi
  | result pos o => exact capInv_step_result hi pos o
  | handled => exact capInv_step_handled hi
  | rerun reset => exact capInv_step_rerun hi reset
  | «continue» => exact capInv_step_continue hi

theorem capInv_run {s : WI} (hi : CapInv s) (ops : List Op) : CapInv (run s ops) := by
  induction ops generalizing s with
  | nil => exact hi
  | cons o os ih => exact ih (capInv_step hi o)

/-! ### the first-round invariant -/

/-- What holds until the first rerun / retry: execution `i` has index `i`, every completed
    execution is accepted, and a task that reached SUCCESS/ERROR has one accepted execution per
    index. -/
structure FreshInv (s : WI) : Prop where
  idx : s.items.map (·.index) = List.range s.items.length
  len : s.prepared = true → s.items.length ≤ s.count
  live : ∀ it ∈ s.items, it.state = .running ∨ it.accepted = true
  acc : ∀ it ∈ s.items, it.accepted = true → it.state ≠ .running
  cnt : s.prepared = true → s.count = s.specCount
  nod : s.tstate ≠ .delayed
  nor : s.specRetries = 0
  done : s.tstate = .success ∨ s.tstate = .error →
    s.items.length = s.count ∧ ∀ it ∈ s.items, it.accepted = true
  fin : s.tstate.completed = true → s.tstate = finalState s

theorem hasAccepted_setResult {l : List Item} {pos : Nat} {it : Item} {o : Outcome} {st : ISt}
    (h : l[pos]? = some it) (hr : it.state = .running) (hst : st ≠ .running)
    (ha : l.any (fun x => x.accepted && x.state == st) = true) :
    (setResult l pos o).any (fun x => x.accepted && x.state == st) = true := by
  induction l generalizing pos with
  | nil => simp at ha
  | cons a l ih =>
    cases pos with
    | zero =>
      simp at h
      subst h
      simp only [setResult, List.any_cons, Bool.or_eq_true] at ha ⊢
      rcases ha with ha | ha
      · simp [hr] at ha
        exact absurd ha.2.symm hst
      · right; exact ha
    | succ p =>
      simp at h
      simp only [setResult, List.any_cons, Bool.or_eq_true] at ha ⊢
      rcases ha with ha | ha
      · left; exact ha
      · right; exact ih h ha

theorem freshInv_init (n : Nat) (c : Option Nat) : FreshInv (init n c 0) := by
  constructor <;> simp [init, TSt.completed]

theorem fresh_candidates {s : WI} (hl : ∀ it ∈ s.items, it.state = .running ∨ it.accepted = true) :
    candidates s = [] := by
  have : unacceptedIdx s = [] := by
    unfold unacceptedIdx
    simp only [List.map_eq_nil_iff, List.filter_eq_nil_iff]
    intro it hit
    rcases hl it hit with h | h <;> simp [h, Item.completed]
  simp [candidates, this, sortDedup]

theorem fresh_nextStartIndex {s : WI} (hl : ∀ it ∈ s.items, it.state = .running ∨ it.accepted = true) :
    nextStartIndex s = s.items.length := by
  unfold nextStartIndex
  apply List.countP_eq_length.mpr
  intro it hit
  rcases hl it hit with h | h <;> simp [h]

theorem fresh_nextIndexes {s : WI} (hl : ∀ it ∈ s.items, it.state = .running ∨ it.accepted = true) :
    nextIndexes s = takeCap s.capacity (rangeFromTo s.items.length s.count) := by
  simp [nextIndexes, indices, fresh_candidates hl, fresh_nextStartIndex hl]

theorem take_range'' (a n k : Nat) : List.take k (List.range' a n) = List.range' a (min k n) := by
  induction k generalizing a n with
  | zero => simp
  | succ k ih =>
    cases n with
    | zero => simp
    | succ n => simp [List.range'_succ, ih]

theorem takeCap_range (cap : Option Nat) (a b : Nat) :
    ∃ m, m ≤ b - a ∧ takeCap cap (rangeFromTo a b) = List.range' a m := by
  cases cap with
  | none => exact ⟨b - a, Nat.le_refl _, rfl⟩
  | some k =>
    refine ⟨min k (b - a), Nat.min_le_right _ _, ?_⟩
    simp [takeCap, rangeFromTo, take_range'']

theorem complete_noretry {s : WI} (st : TSt) (hc : s.tstate.completed = false) (hr : s.specRetries = 0) :
    (complete s st) = { s with tstate := st } := by
  unfold complete
  simp [hc, hr]
  cases st <;> simp

theorem fresh_scheduleBody {s : WI} (hf : FreshInv s) (hp : s.prepared = true) (ht : s.tstate = .running)
    (he : nextIndexes s = [] → s.items = [] ∧ s.count = 0) :
    FreshInv (scheduleBody s) := by
  unfold scheduleBody
  simp only []
  split
  · rename_i hem
    have hem' : nextIndexes s = [] := by simpa using hem
    rw [complete_noretry .success (by simp [ht, TSt.completed]) hf.nor]
    constructor
    · exact hf.idx
    · exact hf.len
    · exact hf.live
    · exact hf.acc
    · exact hf.cnt
    · simp
    · exact hf.nor
    · intro _; simp [(he hem').1, (he hem').2]
    · intro _; simp [finalState, hasAccepted, (he hem').1]
  · obtain ⟨m, hm, hidx⟩ := takeCap_range s.capacity s.items.length s.count
    have hni : nextIndexes s = List.range' s.items.length m := by rw [fresh_nextIndexes hf.live, hidx]
    rw [hni]
    constructor
    · simp only [List.map_append, List.map_map, List.length_append, List.length_map, List.length_range']
      rw [hf.idx]
      have : (List.map ((fun x => x.index) ∘ fun i => ({ index := i, state := .running, accepted := false } : Item))
          (List.range' s.items.length m)) = List.range' s.items.length m := by
        simp [Function.comp_def]
      rw [this, List.range_eq_range', List.range_eq_range']
      have := List.range'_append (s := 0) (m := s.items.length) (n := m) (step := 1)
      simpa using this
    · intro _
      have := hf.len hp
      simp only [List.length_append, List.length_map, List.length_range']
      omega
    · intro it hit
      simp only [List.mem_append, List.mem_map] at hit
      rcases hit with h | ⟨i, _, h⟩
      · exact hf.live it h
      · left; rw [← h]
    · intro it hit hacc
      simp only [List.mem_append, List.mem_map] at hit
      rcases hit with h | ⟨i, _, h⟩
      · exact hf.acc it h hacc
      · rw [← h] at hacc; simp at hacc
    · exact hf.cnt
    · simp [ht]
    · exact hf.nor
    · intro h; simp [ht] at h
    · intro h; simp [ht, TSt.completed] at h

theorem freshInv_step_start {s : WI} (hc : CapInv s) (hf : FreshInv s) : FreshInv (step s .start) := by
  simp only [step]
  split
  · rename_i hidle
    obtain ⟨h1, h2, h3, h4, h5⟩ := hc.idle hidle
    unfold scheduleActions
    have hfp : FreshInv (prepare { s with tstate := .running, concurrency := policyConc s.specConc }) := by
      constructor <;> simp [prepare, h5, h1, hf.nor, TSt.completed]
    apply fresh_scheduleBody hfp
    · simp [prepare, h5]
    · simp [prepare, h5]
    · intro hnil
      rw [fresh_nextIndexes hfp.live] at hnil
      simp [prepare, h5, h1, rangeFromTo] at hnil ⊢
      rcases policyConc_cases s.specConc with hn | ⟨k, hk⟩
      · rw [hn] at hnil; simp [takeCap] at hnil; omega
      · rw [hk] at hnil
        simp [takeCap] at hnil
        omega
  · exact hf

theorem freshInv_step_result {s : WI} (hf : FreshInv s) (pos : Nat) (o : Outcome) :
    FreshInv (step s (.result pos o)) := by
  simp only [step]
  split
  · rename_i it hit
    split
    · rename_i hr
      constructor
      · simp only [map_index_setResult, length_setResult]; exact hf.idx
      · simp only [length_setResult]; exact hf.len
      · intro x hx
        rcases mem_setResult hx with h | ⟨h, _⟩
        · exact hf.live x h
        · right; exact h
      · intro x hx hacc
        rcases mem_setResult hx with h | ⟨_, h⟩
        · exact hf.acc x h hacc
        · rw [h]; exact toISt_ne_running o
      · exact hf.cnt
      · exact hf.nod
      · exact hf.nor
      · intro h
        exfalso
        have hm : it ∈ s.items := List.mem_of_getElem? hit
        exact hf.acc it hm ((hf.done h).2 it hm) hr
      · intro h
        simp only [] at h ⊢
        have hfin := hf.fin h
        have hm : it ∈ s.items := List.mem_of_getElem? hit
        rcases finalState_cases s with ⟨h1, h2⟩ | ⟨h1, _⟩ | ⟨h1, _⟩
        · rw [hfin, h1]
          have : hasAccepted { s with items := setResult s.items pos o, unhandled := s.unhandled + 1 } .cancelled = true :=
            hasAccepted_setResult hit hr (by simp) h2
          simp only [finalState, hasAccepted] at this ⊢
          simp [this]
        · exfalso
          exact hf.acc it hm ((hf.done (Or.inr (by rw [hfin, h1]))).2 it hm) hr
        · exfalso
          exact hf.acc it hm ((hf.done (Or.inl (by rw [hfin, h1]))).2 it hm) hr
    · exact hf
  · exact hf

theorem increaseCapacity_fields (s : WI) :
    (increaseCapacity s).items = s.items ∧ (increaseCapacity s).tstate = s.tstate ∧
    (increaseCapacity s).prepared = s.prepared ∧ (increaseCapacity s).count = s.count ∧
    (increaseCapacity s).specCount = s.specCount ∧ (increaseCapacity s).specRetries = s.specRetries ∧
    (increaseCapacity s).concurrency = s.concurrency := by
  unfold increaseCapacity
  split
  · split <;> simp
  · simp

theorem acceptedCount_le (s : WI) : acceptedCount s ≤ s.items.length := List.countP_le_length

theorem fresh_completed_all {s : WI} (hf : FreshInv s) (hp : s.prepared = true)
    (hnc : hasAccepted s .cancelled = false) (hic : isCompleted s = true) :
    s.items.length = s.count ∧ ∀ it ∈ s.items, it.accepted = true := by
  simp only [isCompleted, hnc, Bool.false_or, Bool.and_eq_true, beq_iff_eq] at hic
  have h1 := hic.1
  have h2 := acceptedCount_le s
  have h3 := hf.len hp
  have hlen : s.items.length = s.count ∧ acceptedCount s = s.items.length := by
    split at h1 <;> omega
  refine ⟨hlen.1, ?_⟩
  have := List.countP_eq_length.mp hlen.2
  intro it hit
  exact this it hit

theorem freshInv_onActionComplete {s : WI} (hf : FreshInv s) (hp : s.prepared = true)
    (hne : s.tstate ≠ .idle)
    (hcap : s.tstate = .running → ∀ c, s.concurrency = some c →
        ∃ k, (increaseCapacity s).capacity = some (k + 1)) :
    FreshInv (onActionComplete s) := by
  unfold onActionComplete
  split
  · exact hf
  · rename_i hcomp
    have hcomp : s.tstate.completed = false := by simpa using hcomp
    obtain ⟨g1, g2, g3, g4, g5, g6, g7⟩ := increaseCapacity_fields s
    have hf1 : FreshInv (increaseCapacity s) := by
      constructor
      · rw [g1]; exact hf.idx
      · rw [g1, g3, g4]; exact hf.len
      · rw [g1]; exact hf.live
      · rw [g1]; exact hf.acc
      · rw [g3, g4, g5]; exact hf.cnt
      · rw [g2]; exact hf.nod
      · rw [g6]; exact hf.nor
      · rw [g1, g2, g4]; exact hf.done
      · rw [g2]
        have : finalState (increaseCapacity s) = finalState s := by simp [finalState, hasAccepted, g1]
        rw [this]; exact hf.fin
    simp only []
    split
    · rename_i hisc
      rw [complete_noretry _ (by rw [g2]; exact hcomp) hf1.nor]
      constructor
      · exact hf1.idx
      · exact hf1.len
      · exact hf1.live
      · exact hf1.acc
      · exact hf1.cnt
      · simp only []
        rcases finalState_cases (increaseCapacity s) with ⟨h, _⟩ | ⟨h, _⟩ | ⟨h, _⟩ <;> rw [h] <;> simp
      · exact hf1.nor
      · intro h
        simp only [] at h
        have hnc : hasAccepted (increaseCapacity s) .cancelled = false := by
          rcases finalState_cases (increaseCapacity s) with ⟨h', _⟩ | ⟨_, h'⟩ | ⟨_, h'⟩
          · rw [h'] at h; simp at h
          · exact h'
          · exact h'
        have key := @fresh_completed_all (increaseCapacity s) hf1 (by rw [g3]; exact hp) hnc hisc
        exact key
      · intro _; rfl
    · split
      · rename_i hmore
        simp only [Bool.and_eq_true] at hmore
        have hrun : s.tstate = .running := by
          have := hf.nod
          cases ht : s.tstate <;> simp_all [TSt.completed]
        unfold scheduleActions
        rw [prepare_of_prepared (by rw [g3]; exact hp)]
        apply fresh_scheduleBody hf1 (by rw [g3]; exact hp) (by rw [g2]; exact hrun)
        intro hnil
        exfalso
        have h1 := indices_ne_nil hmore.1
        rw [g7] at hmore
        cases hcc : s.concurrency with
        | none => rw [hcc] at hmore; simp [truthy] at hmore
        | some c =>
          obtain ⟨k, hk⟩ := hcap hrun c hcc
          unfold nextIndexes at hnil
          rw [hk] at hnil
          exact takeCap_ne_nil (k := k + 1) (by omega) h1 hnil
      · exact hf1

theorem freshInv_step_handled {s : WI} (hc : CapInv s) (hf : FreshInv s) : FreshInv (step s .handled) := by
  simp only [step]
  split
  · exact hf
  · rename_i hu
    have hne : s.tstate ≠ .idle := by
      intro h; exact hu (hc.idle h).2.1
    have hf0 : FreshInv { s with unhandled := s.unhandled - 1 } := by
      constructor
      · exact hf.idx
      · exact hf.len
      · exact hf.live
      · exact hf.acc
      · exact hf.cnt
      · exact hf.nod
      · exact hf.nor
      · exact hf.done
      · exact hf.fin
    apply freshInv_onActionComplete hf0 (hc.conc hne).2 hne
    intro hrun c hcc
    obtain ⟨hpos, k, hk, hle, heq, hz⟩ := hc.lim c hcc
    have hbal := heq hrun
    refine ⟨k, ?_⟩
    obtain ⟨c', rfl⟩ : ∃ c', c = c' + 1 := ⟨c - 1, by omega⟩
    simp only [] at hcc
    have hlt : k < c' + 1 := by omega
    simp [increaseCapacity, hcc, hk, truthy, hlt]

theorem freshInv_step_continue {s : WI} (hf : FreshInv s) : FreshInv (step s .continue) := by
  simp only [step]
  split
  · rename_i h; exact absurd h hf.nod
  · exact hf

/-- an operation list without `rerun` -/
def noRerun (ops : List Op) : Bool := ops.all fun o => match o with | .rerun _ => false | _ => true

theorem freshInv_step {s : WI} (hc : CapInv s) (hf : FreshInv s) (op : Op)
    (hop : noRerun [op] = true) : FreshInv (step s op) := by
  cases op with
  | start => exact freshInv_step_start hc hf
  | result pos o => exact freshInv_step_result hf pos o
  | handled => exact freshInv_step_handled hc hf
  | rerun reset => simp [noRerun] at hop
  | «continue» => exact freshInv_step_continue hf

theorem freshInv_run {s : WI} (hc : CapInv s) (hf : FreshInv s) (ops : List Op)
    (hop : noRerun ops = true) : FreshInv (run s ops) := by
  induction ops generalizing s with
  | nil => exact hf
  | cons o os ih =>
    simp only [noRerun, List.all_cons, Bool.and_eq_true] at hop
    exact ih (capInv_step hc o) (freshInv_step hc hf o (by simp [noRerun, hop.1])) hop.2

/-! ### the task's definition (item count, concurrency value) is never written -/

theorem scheduleActions_spec (s : WI) :
    (scheduleActions s).specCount = s.specCount ∧ (scheduleActions s).specConc = s.specConc := by
  simp only [scheduleActions, scheduleBody, prepare]
  split <;> split <;> simp [(complete_fields _ _).2.2.2.2.2.2.1, (complete_fields _ _).2.2.2.2.1]

theorem step_spec (s : WI) (op : Op) :
    (step s op).specCount = s.specCount ∧ (step s op).specConc = s.specConc := by
  cases op with
  | start =>
    simp only [step]; split
    · rw [(scheduleActions_spec _).1, (scheduleActions_spec _).2]; exact ⟨rfl, rfl⟩
    · exact ⟨rfl, rfl⟩
  | result pos o =>
    simp only [step]; split
    · split <;> exact ⟨rfl, rfl⟩
    · exact ⟨rfl, rfl⟩
  | handled =>
    simp only [step]; split
    · exact ⟨rfl, rfl⟩
    · simp only [onActionComplete]
      split
      · exact ⟨rfl, rfl⟩
      · have g : (increaseCapacity { s with unhandled := s.unhandled - 1 }).specCount = s.specCount :=
          (increaseCapacity_fields _).2.2.2.2.1
        have g' : (increaseCapacity { s with unhandled := s.unhandled - 1 }).specConc = s.specConc := by
          unfold increaseCapacity; split
          · split <;> rfl
          · rfl
        split
        · rw [(complete_fields _ _).2.2.2.2.2.2.1, (complete_fields _ _).2.2.2.2.1]; exact ⟨g, g'⟩
        · split
          · rw [(scheduleActions_spec _).1, (scheduleActions_spec _).2]; exact ⟨g, g'⟩
          · exact ⟨g, g'⟩
  | rerun reset =>
    simp only [step]; split
    · rw [(scheduleActions_spec _).1, (scheduleActions_spec _).2]; exact ⟨rfl, rfl⟩
    · exact ⟨rfl, rfl⟩
  | «continue» =>
    simp only [step]; split
    · rw [(scheduleActions_spec _).1, (scheduleActions_spec _).2]; exact ⟨rfl, rfl⟩
    · exact ⟨rfl, rfl⟩

theorem run_spec (s : WI) (ops : List Op) :
    (run s ops).specCount = s.specCount ∧ (run s ops).specConc = s.specConc := by
  induction ops generalizing s with
  | nil => exact ⟨rfl, rfl⟩
  | cons o os ih =>
    show (run (step s o) os).specCount = s.specCount ∧ (run (step s o) os).specConc = s.specConc
    rw [(ih _).1, (ih _).2]; exact step_spec s o

/-! ### sorting -/

theorem mem_insertByIndex {x y : Nat × Nat} {l : List (Nat × Nat)} :
    y ∈ insertByIndex x l ↔ y = x ∨ y ∈ l := by
  induction l with
  | nil => simp [insertByIndex]
  | cons a l ih =>
    simp only [insertByIndex]
    split
    · simp
    · simp [ih, or_left_comm]

theorem insertByIndex_pairwise {x : Nat × Nat} {l : List (Nat × Nat)}
    (h : l.Pairwise (fun a b => a.1 ≤ b.1)) : (insertByIndex x l).Pairwise (fun a b => a.1 ≤ b.1) := by
  induction l with
  | nil => simp [insertByIndex]
  | cons a l ih =>
    simp only [insertByIndex]
    rw [List.pairwise_cons] at h
    split
    · rename_i hle
      rw [List.pairwise_cons]
      refine ⟨?_, List.pairwise_cons.mpr h⟩
      intro b hb
      simp at hb
      rcases hb with hb | hb
      · rw [hb]; exact hle
      · exact Nat.le_trans hle (h.1 b hb)
    · rename_i hnle
      rw [List.pairwise_cons]
      refine ⟨?_, ih h.2⟩
      intro b hb
      rcases mem_insertByIndex.mp hb with hb | hb
      · rw [hb]; omega
      · exact h.1 b hb

theorem sortByIndex_sorted (l : List (Nat × Nat)) : (sortByIndex l).Pairwise (fun a b => a.1 ≤ b.1) := by
  induction l with
  | nil => simp [sortByIndex]
  | cons a l ih => exact insertByIndex_pairwise ih

theorem insertByIndex_perm (x : Nat × Nat) (l : List (Nat × Nat)) : (insertByIndex x l).Perm (x :: l) := by
  induction l with
  | nil => simp [insertByIndex]
  | cons a l ih =>
    simp only [insertByIndex]
    split
    · exact List.Perm.refl _
    · exact ((List.Perm.cons a ih).trans (List.Perm.swap x a l))

theorem sortByIndex_perm (l : List (Nat × Nat)) : (sortByIndex l).Perm l := by
  induction l with
  | nil => simp [sortByIndex]
  | cons a l ih => exact (insertByIndex_perm a (sortByIndex l)).trans (List.Perm.cons a ih)

theorem sortByIndex_of_sorted {l : List (Nat × Nat)} (h : l.Pairwise (fun a b => a.1 ≤ b.1)) :
    sortByIndex l = l := by
  induction l with
  | nil => simp [sortByIndex]
  | cons a l ih =>
    rw [List.pairwise_cons] at h
    have : sortByIndex (a :: l) = insertByIndex a (sortByIndex l) := rfl
    rw [this, ih h.2]
    cases l with
    | nil => simp [insertByIndex]
    | cons b l => simp [insertByIndex, h.1 b (by simp)]

theorem mem_insertSorted {x y : Nat} {l : List Nat} : y ∈ insertSorted x l ↔ y = x ∨ y ∈ l := by
  induction l with
  | nil => simp [insertSorted]
  | cons a l ih =>
    simp only [insertSorted]
    split
    · simp
    · split
      · rename_i h; subst h; simp
      · simp [ih, or_left_comm]

theorem mem_sortDedup {y : Nat} {l : List Nat} : y ∈ sortDedup l ↔ y ∈ l := by
  induction l with
  | nil => simp [sortDedup]
  | cons a l ih =>
    have : sortDedup (a :: l) = insertSorted a (sortDedup l) := rfl
    rw [this, mem_insertSorted, ih]; simp

theorem insertSorted_pairwise {x : Nat} {l : List Nat} (h : l.Pairwise (· < ·)) :
    (insertSorted x l).Pairwise (· < ·) := by
  induction l with
  | nil => simp [insertSorted]
  | cons a l ih =>
    simp only [insertSorted]
    rw [List.pairwise_cons] at h
    split
    · rename_i hlt
      rw [List.pairwise_cons]
      refine ⟨?_, List.pairwise_cons.mpr h⟩
      intro b hb
      simp at hb
      rcases hb with hb | hb
      · rw [hb]; exact hlt
      · exact Nat.lt_trans hlt (h.1 b hb)
    · split
      · exact List.pairwise_cons.mpr h
      · rw [List.pairwise_cons]
        refine ⟨?_, ih h.2⟩
        intro b hb
        rcases mem_insertSorted.mp hb with hb | hb
        · rw [hb]; omega
        · exact h.1 b hb

theorem sortDedup_sorted (l : List Nat) : (sortDedup l).Pairwise (· < ·) := by
  induction l with
  | nil => simp [sortDedup]
  | cons a l ih => exact insertSorted_pairwise ih

theorem sortDedup_of_sorted {l : List Nat} (h : l.Pairwise (· < ·)) : sortDedup l = l := by
  induction l with
  | nil => simp [sortDedup]
  | cons a l ih =>
    rw [List.pairwise_cons] at h
    have : sortDedup (a :: l) = insertSorted a (sortDedup l) := rfl
    rw [this, ih h.2]
    cases l with
    | nil => simp [insertSorted]
    | cons b l => simp [insertSorted, h.1 b (by simp)]

/-- the last element of a strictly increasing list is its maximum -/
theorem le_getLast_of_sorted {l : List Nat} (h : l.Pairwise (· < ·)) {m x : Nat}
    (hm : l.getLast? = some m) (hx : x ∈ l) : x ≤ m := by
  induction l generalizing x with
  | nil => simp at hx
  | cons a l ih =>
    rw [List.pairwise_cons] at h
    cases l with
    | nil => simp at hm hx; omega
    | cons b l =>
      have hm' : (b :: l).getLast? = some m := by simpa [List.getLast?_cons_cons] using hm
      simp only [List.mem_cons] at hx
      rcases hx with hx | hx
      · have hb : b ≤ m := ih h.2 hm' (by simp)
        have := h.1 b (by simp)
        omega
      · exact ih h.2 hm' (by simpa using hx)

/-! ### rerun -/

theorem step_rerun_items {s : WI} (reset : Bool) (he : s.tstate = .error)
    (hne : rerunStarted s reset ≠ []) :
    (step s (.rerun reset)).items = resetActions reset s.items ++
      (rerunStarted s reset).map (fun i => { index := i, state := .running, accepted := false }) := by
  simp only [rerunStarted, rerunPrepared] at hne ⊢
  simp only [step, he, if_true, scheduleActions, scheduleBody]
  simp only [prepare] at hne ⊢
  simp only [Bool.false_eq_true, if_false] at hne ⊢
  simp [hne]

theorem rerunPrepared_items (s : WI) (reset : Bool) :
    (rerunPrepared s reset).items = resetActions reset s.items := by
  simp [rerunPrepared, prepare]

theorem rerunPrepared_count (s : WI) (reset : Bool) : (rerunPrepared s reset).count = s.specCount := by
  simp [rerunPrepared, prepare]

theorem rerunPrepared_capacity (s : WI) (reset : Bool) :
    (rerunPrepared s reset).capacity = policyConc s.specConc := by
  simp [rerunPrepared, prepare]

theorem mem_idx_filter_map (l : List Item) (f : Item → Item) (p : Item → Bool) (j : Nat) :
    j ∈ ((l.map f).filter p).map (·.index) ↔ ∃ it ∈ l, p (f it) = true ∧ (f it).index = j := by
  simp only [List.mem_map, List.mem_filter]
  constructor
  · rintro ⟨x, ⟨⟨it, hit, rfl⟩, hp⟩, rfl⟩; exact ⟨it, hit, hp, rfl⟩
  · rintro ⟨it, hit, hp, rfl⟩; exact ⟨f it, ⟨⟨it, hit, rfl⟩, hp⟩, rfl⟩

/-- what `_reset_actions(reset)` does to one execution -/
def resetOne (reset : Bool) (it : Item) : Item :=
  if reset || (it.accepted && (it.state == .error || it.state == .cancelled))
  then { it with accepted := false } else it

theorem resetActions_eq (reset : Bool) (l : List Item) : resetActions reset l = l.map (resetOne reset) := rfl

theorem resetOne_false_props (it : Item) :
    (resetOne false it).index = it.index ∧
    ((resetOne false it).accepted && (resetOne false it).completed) = (it.accepted && it.state == .success) ∧
    (!(resetOne false it).accepted && (resetOne false it).completed)
      = (it.completed && !(it.accepted && it.state == .success)) := by
  obtain ⟨i, st, a⟩ := it
  cases st <;> cases a <;> simp [resetOne, Item.completed]

theorem resetOne_true_props (it : Item) :
    (resetOne true it).index = it.index ∧
    ((resetOne true it).accepted && (resetOne true it).completed) = false ∧
    (!(resetOne true it).accepted && (resetOne true it).completed) = it.completed := by
  obtain ⟨i, st, a⟩ := it
  cases st <;> cases a <;> simp [resetOne, Item.completed]

/-- after `_reset_actions(reset=False)` the candidates are exactly the indexes that were executed
    and have no accepted SUCCESS -/
theorem rerun_false_candidates (s : WI) (i : Nat) :
    i ∈ candidates (rerunPrepared s false) ↔ (executed s i = true ∧ succeeded s i = false) := by
  have hA : i ∈ acceptedIdx (rerunPrepared s false) ↔ succeeded s i = true := by
    unfold acceptedIdx succeeded
    rw [rerunPrepared_items, resetActions_eq, mem_idx_filter_map, List.any_eq_true]
    constructor
    · rintro ⟨it, hit, hp, hi⟩
      obtain ⟨h1, h2, _⟩ := resetOne_false_props it
      refine ⟨it, hit, ?_⟩
      rw [h1] at hi; rw [h2] at hp
      simp [hi, hp]
    · rintro ⟨it, hit, hp⟩
      obtain ⟨h1, h2, _⟩ := resetOne_false_props it
      simp only [Bool.and_eq_true, beq_iff_eq] at hp
      refine ⟨it, hit, ?_, ?_⟩
      · rw [h2]; simp [hp.2]
      · rw [h1]; exact hp.1
  have hU : i ∈ unacceptedIdx (rerunPrepared s false) ↔
      ∃ it ∈ s.items, it.index = i ∧ it.completed = true ∧ (it.accepted && it.state == .success) = false := by
    unfold unacceptedIdx
    rw [rerunPrepared_items, resetActions_eq, mem_idx_filter_map]
    constructor
    · rintro ⟨it, hit, hp, hi⟩
      obtain ⟨h1, _, h3⟩ := resetOne_false_props it
      rw [h1] at hi; rw [h3] at hp
      simp only [Bool.and_eq_true, Bool.not_eq_true'] at hp
      exact ⟨it, hit, hi, hp.1, hp.2⟩
    · rintro ⟨it, hit, hi, hc, hn⟩
      obtain ⟨h1, _, h3⟩ := resetOne_false_props it
      refine ⟨it, hit, ?_, ?_⟩
      · rw [h3]; simp [hc, hn]
      · rw [h1]; exact hi
  simp only [candidates, mem_sortDedup, List.mem_filter, List.contains_eq_mem, Bool.not_eq_true',
    decide_eq_false_iff_not]
  rw [hU, hA]
  constructor
  · rintro ⟨⟨it, hit, hi, hc, _⟩, hns⟩
    refine ⟨?_, by simpa using hns⟩
    unfold executed
    exact List.any_eq_true.mpr ⟨it, hit, by simp [hi, hc]⟩
  · rintro ⟨hex, hns⟩
    refine ⟨?_, by simp [hns]⟩
    obtain ⟨it, hit, hp⟩ := List.any_eq_true.mp hex
    simp only [Bool.and_eq_true, beq_iff_eq] at hp
    refine ⟨it, hit, hp.1, hp.2, ?_⟩
    rw [Bool.eq_false_iff]
    intro hacc
    rw [Bool.eq_false_iff] at hns
    apply hns
    unfold succeeded
    exact List.any_eq_true.mpr ⟨it, hit, by simp [hp.1]; simpa using hacc⟩

/-- the indexes a rerun starts are candidates or lie beyond the largest candidate -/
theorem mem_indices_cases {s : WI} {i : Nat} (h : i ∈ indices s) :
    i ∈ candidates s ∨ (∃ m, (candidates s).getLast? = some m ∧ m < s.count - 1 ∧ m < i ∧ i < s.count) ∨
    (candidates s = [] ∧ nextStartIndex s ≤ i ∧ i < s.count) := by
  unfold indices at h
  split at h
  · rename_i m hm
    rw [List.mem_append] at h
    rcases h with h | h
    · left; exact h
    · right; left
      split at h
      · rename_i hlt
        simp only [rangeFromTo, List.mem_range'_1] at h
        exact ⟨m, hm, hlt, by omega, by omega⟩
      · simp at h
  · rename_i hn
    right; right
    simp only [rangeFromTo, List.mem_range'_1] at h
    refine ⟨by simpa using hn, by omega, by omega⟩

theorem mem_takeCap {cap : Option Nat} {l : List Nat} {i : Nat} (h : i ∈ takeCap cap l) : i ∈ l := by
  cases cap with
  | none => exact h
  | some k => exact List.mem_of_mem_take h

end Mistral.WithItems
