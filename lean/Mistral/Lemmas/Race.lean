/- Helper definitions and the symbolic-execution tactic for the statement-granularity race model. -/
import Mistral.Model.Race
namespace Mistral.Race

/-- What a completion script commits when its compare-and-swap wins: the row `rc` it matched, with
    state := target, output := out (a mutable JSON column: always written), state_info := msg and
    accepted := true — the last two through the ORM's dirty check against the copy `rr` loaded at
    the script's last read (an assignment equal to the loaded value issues no UPDATE, so the column
    keeps whatever is in the matched row). -/
def winRow (target msg out : Val) (rr rc : Row) : Row :=
  { alive := true,
    f := fun k =>
      if k = 0 then target
      else if k = 2 then out
      else if k = 1 then (if msg = rr.f 1 then rc.f 1 else msg)
      else if k = 3 then (if Val.bool true = rr.f 3 then rc.f 3 else Val.bool true)
      else rc.f k }

/-- symbolic execution of a concrete script: unfold the runner statement by statement, deciding
    every test with the given hypotheses -/
macro "race_simp" "[" hs:Lean.Parser.Tactic.simpLemma,* "]" : tactic =>
  `(tactic| simp [runWith, runFrom, stepStmt, gap, settle, exec, Local.init, Shared.vis, raise, finish,
      rollback, resume, Cond.eval, Expr.eval, flush, rowMatches, evalSets, setFlagOf, commitTx,
      Fields.set, Fields.setMany, between, pre, $hs,*])

macro "race_simp_at" h:ident "[" hs:Lean.Parser.Tactic.simpLemma,* "]" : tactic =>
  `(tactic| simp [runWith, runFrom, stepStmt, gap, settle, exec, Local.init, Shared.vis, raise, finish,
      rollback, resume, Cond.eval, Expr.eval, flush, rowMatches, evalSets, setFlagOf, commitTx,
      Fields.set, Fields.setMany, between, pre, $hs,*] at $h:ident)

/-- the two sides are the same interferers applied to two rows: compare the rows field by field -/
macro "race_rows" : tactic =>
  `(tactic| ((repeat (apply congrArg)); funext k;
             by_cases k0 : k = 0 <;> by_cases k1 : k = 1 <;> by_cases k2 : k = 2 <;> by_cases k3 : k = 3 <;>
               simp_all [Fields.set]))

theorem between_zero (sched : Nat → Intf) (a : Nat) (r : Row) : between sched a 0 r = r := rfl

/-- composition of the interferers of consecutive gaps -/
theorem pre_succ (sched : Nat → Intf) (k : Nat) (r : Row) : pre sched (k + 1) r = sched k (pre sched k r) := rfl

end Mistral.Race
