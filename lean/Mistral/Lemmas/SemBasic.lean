/-
Basic facts of the declarative semantics `Mistral.Sem`: independence of the fuel on acyclic
definitions, the fixed-point equation `sem = semBody sem`, and its readings (start tasks, routers,
joins).
-/
import Mistral.Model.Sem
namespace Mistral.Sem
open Mistral Mistral.Join Mistral.Engine

/-- `semBody` reads `σ` only at the inbound tasks -/
theorem semBody_congr (sp : Spec) (orc : String → Bool) (σ σ' : String → Option St) (n : String)
    (h : ∀ p ∈ inbound sp.graph n, σ p.name = σ' p.name) : semBody sp orc σ n = semBody sp orc σ' n := by
  unfold semBody
  have : (inbound sp.graph n).filter (fun p => routesB sp (σ p.name) p.name n) =
      (inbound sp.graph n).filter (fun p => routesB sp (σ' p.name) p.name n) := by
    apply List.filter_congr
    intro p hp
    rw [h p hp]
  simp only [this]

/-- with a rank that decreases along inbound transitions the fuel does not matter once it
    exceeds the rank -/
theorem semF_stable (sp : Spec) (orc : String → Bool) (rk : String → Nat)
    (hrk : ∀ t, ∀ p ∈ inbound sp.graph t, rk p.name < rk t) :
    ∀ (f1 f2 : Nat) (n : String), rk n < f1 → rk n < f2 → semF sp orc f1 n = semF sp orc f2 n := by
  intro f1
  induction f1 with
  | zero => intro f2 n h; omega
  | succ f1 ih =>
    intro f2 n h1 h2
    cases f2 with
    | zero => omega
    | succ f2 =>
      show semBody sp orc (semF sp orc f1) n = semBody sp orc (semF sp orc f2) n
      apply semBody_congr
      intro p hp
      have := hrk n p hp
      exact ih f2 p.name (by omega) (by omega)

/-- the fixed-point equation -/
theorem sem_eq (sp : Spec) (orc : String → Bool) (rk : String → Nat)
    (hrk : ∀ t, ∀ p ∈ inbound sp.graph t, rk p.name < rk t) (hfuel : ∀ t, rk t < fuelFor sp) (n : String) :
    sem sp orc n = semBody sp orc (sem sp orc) n := by
  unfold sem
  cases hf : fuelFor sp with
  | zero => have := hfuel n; omega
  | succ f =>
    show semBody sp orc (semF sp orc f) n = semBody sp orc (semF sp orc (f + 1)) n
    apply semBody_congr
    intro p hp
    have h1 := hrk n p hp
    have h2 := hfuel n
    exact semF_stable sp orc rk hrk f (f + 1) p.name (by omega) (by omega)

/-- the hypotheses on a definition the semantics needs: acyclicity within the budget -/
structure Acyclic (sp : Spec) (rk : String → Nat) : Prop where
  rank : ∀ t, ∀ p ∈ inbound sp.graph t, rk p.name < rk t
  fuel : ∀ t, rk t < fuelFor sp

/-- task `p` is a router of `n`: it runs and its final state routes to `n` -/
def router (sp : Spec) (orc : String → Bool) (n : String) (p : TaskG) : Bool :=
  routesB sp (sem sp orc p.name) p.name n

def routers (sp : Spec) (orc : String → Bool) (n : String) : List TaskG :=
  (inbound sp.graph n).filter (router sp orc n)

theorem sem_eq' (sp : Spec) (orc : String → Bool) (rk : String → Nat) (ha : Acyclic sp rk) (n : String) :
    sem sp orc n =
      if (inbound sp.graph n).isEmpty then (if knownTask sp n then some (res orc n) else none)
      else if (routers sp orc n).isEmpty then none
      else match isJoin sp n with
        | none => some (res orc n)
        | some k => if need k (inbound sp.graph n).length ≤ (routers sp orc n).length then some (res orc n)
                    else some .ERROR := by
  rw [sem_eq sp orc rk ha.rank ha.fuel n]
  rfl

/-- a start task runs -/
theorem sem_start (sp : Spec) (orc : String → Bool) (rk : String → Nat) (ha : Acyclic sp rk) (n : String)
    (hin : (inbound sp.graph n).isEmpty = true) (hk : knownTask sp n = true) : sem sp orc n = some (res orc n) := by
  rw [sem_eq' sp orc rk ha n]
  simp [hin, hk]

/-- a task some router routes to runs -/
theorem sem_of_router (sp : Spec) (orc : String → Bool) (rk : String → Nat) (ha : Acyclic sp rk) (n : String)
    (p : TaskG) (hp : p ∈ inbound sp.graph n) (hr : router sp orc n p = true) : sem sp orc n ≠ none := by
  rw [sem_eq' sp orc rk ha n]
  have hne : (inbound sp.graph n).isEmpty = false := by
    cases h : inbound sp.graph n with
    | nil => rw [h] at hp; cases hp
    | cons a l => rfl
  have hrne : (routers sp orc n).isEmpty = false := by
    have : p ∈ routers sp orc n := List.mem_filter.mpr ⟨hp, hr⟩
    cases h : routers sp orc n with
    | nil => rw [h] at this; cases this
    | cons a l => rfl
  simp only [hne, hrne, Bool.false_eq_true, if_false]
  split
  · simp
  · split <;> simp

/-- a task that runs is a known start task or has a router -/
theorem sem_some_cases (sp : Spec) (orc : String → Bool) (rk : String → Nat) (ha : Acyclic sp rk) (n : String)
    (h : sem sp orc n ≠ none) :
    ((inbound sp.graph n).isEmpty = true ∧ knownTask sp n = true) ∨
    ((inbound sp.graph n).isEmpty = false ∧ ∃ p ∈ inbound sp.graph n, router sp orc n p = true) := by
  rw [sem_eq' sp orc rk ha n] at h
  by_cases hin : (inbound sp.graph n).isEmpty = true
  · simp only [hin, if_true] at h
    left
    refine ⟨hin, ?_⟩
    by_cases hk : knownTask sp n = true
    · exact hk
    · simp [hk] at h
  · right
    have hin' : (inbound sp.graph n).isEmpty = false := by simpa using hin
    refine ⟨hin', ?_⟩
    simp only [hin', Bool.false_eq_true, if_false] at h
    by_cases hr : (routers sp orc n).isEmpty = true
    · simp [hr] at h
    · cases hl : routers sp orc n with
      | nil => rw [hl] at hr; simp at hr
      | cons a l =>
        have : a ∈ routers sp orc n := by rw [hl]; exact List.mem_cons_self
        have := List.mem_filter.mp this
        exact ⟨a, this.1, this.2⟩

/-- a task that is not a join and runs executes its action -/
theorem sem_nonjoin (sp : Spec) (orc : String → Bool) (rk : String → Nat) (ha : Acyclic sp rk) (n : String)
    (hj : isJoin sp n = none) (h : sem sp orc n ≠ none) : sem sp orc n = some (res orc n) := by
  rw [sem_eq' sp orc rk ha n] at h ⊢
  by_cases hin : (inbound sp.graph n).isEmpty = true
  · simp only [hin, if_true] at h ⊢
    by_cases hk : knownTask sp n = true
    · simp [hk]
    · simp [hk] at h
  · have hin' : (inbound sp.graph n).isEmpty = false := by simpa using hin
    simp only [hin', Bool.false_eq_true, if_false] at h ⊢
    by_cases hr : (routers sp orc n).isEmpty = true
    · simp [hr] at h
    · have hr' : (routers sp orc n).isEmpty = false := by simpa using hr
      simp only [hr', Bool.false_eq_true, if_false, hj]

/-- the state of a task that runs is the result of its action or (a join) ERROR -/
theorem sem_values (sp : Spec) (orc : String → Bool) (rk : String → Nat) (ha : Acyclic sp rk) (n : String) (s : St)
    (h : sem sp orc n = some s) : s = res orc n ∨ s = .ERROR := by
  rw [sem_eq' sp orc rk ha n] at h
  split at h
  · split at h
    · left; cases h; rfl
    · cases h
  · split at h
    · cases h
    · split at h
      · left; cases h; rfl
      · split at h
        · left; cases h; rfl
        · right; cases h; rfl

/-- a join that runs and whose required number of routers is reached executes its action -/
theorem sem_join_run (sp : Spec) (orc : String → Bool) (rk : String → Nat) (ha : Acyclic sp rk) (n : String)
    (k : JoinKind) (hj : isJoin sp n = some k) (h : sem sp orc n ≠ none)
    (hn : need k (inbound sp.graph n).length ≤ (routers sp orc n).length) : sem sp orc n = some (res orc n) := by
  rw [sem_eq' sp orc rk ha n] at h ⊢
  by_cases hin : (inbound sp.graph n).isEmpty = true
  · simp only [hin, if_true] at h ⊢
    by_cases hk : knownTask sp n = true
    · simp [hk]
    · simp [hk] at h
  · have hin' : (inbound sp.graph n).isEmpty = false := by simpa using hin
    simp only [hin', Bool.false_eq_true, if_false] at h ⊢
    by_cases hr : (routers sp orc n).isEmpty = true
    · simp [hr] at h
    · have hr' : (routers sp orc n).isEmpty = false := by simpa using hr
      simp only [hr', Bool.false_eq_true, if_false, hj, hn, if_true]

/-- a join that runs and whose required number of routers is not reached is ERROR -/
theorem sem_join_err (sp : Spec) (orc : String → Bool) (rk : String → Nat) (ha : Acyclic sp rk) (n : String)
    (k : JoinKind) (hj : isJoin sp n = some k) (h : sem sp orc n ≠ none)
    (hin : (inbound sp.graph n).isEmpty = false)
    (hn : (routers sp orc n).length < need k (inbound sp.graph n).length) : sem sp orc n = some .ERROR := by
  rw [sem_eq' sp orc rk ha n] at h ⊢
  simp only [hin, Bool.false_eq_true, if_false] at h ⊢
  by_cases hr : (routers sp orc n).isEmpty = true
  · simp [hr] at h
  · have hr' : (routers sp orc n).isEmpty = false := by simpa using hr
    have hn' : ¬ need k (inbound sp.graph n).length ≤ (routers sp orc n).length := by omega
    simp only [hr', Bool.false_eq_true, if_false, hj, hn']

/-- a task with inbound transitions none of which is taken by a router never runs -/
theorem sem_none_of_no_router (sp : Spec) (orc : String → Bool) (rk : String → Nat) (ha : Acyclic sp rk) (n : String)
    (hin : (inbound sp.graph n).isEmpty = false)
    (h : ∀ p ∈ inbound sp.graph n, router sp orc n p = false) : sem sp orc n = none := by
  rw [sem_eq' sp orc rk ha n]
  have : routers sp orc n = [] := by
    unfold routers
    apply List.filter_eq_nil_iff.mpr
    intro p hp
    rw [h p hp]; simp
  simp [hin, this]

end Mistral.Sem
