import Mistral.Model.SchedLegacy
import Mistral.Lemmas.Sched

/-!
Invariants of the legacy-scheduler model (Model/SchedLegacy.lean):
`LSafe` (not early, only committed calls, deleted ⇒ invoked, processing ⇒ committed),
`LCnt` (captures of a call = its `processing` flag ≤ 1; invocations + pending captured work ≤ captures),
`LStuck` (a call whose flag is set and which nobody holds is never invoked again).
-/
namespace Mistral.Sched

/-! ## generic -/

theorem lRun_inv {P : LState → Prop} (b : Option Nat) (hstep : ∀ s e, P s → P (lStep b s e)) :
    ∀ steps s, P s → P (lRun b s steps) := by
  intro steps
  induction steps with
  | nil => intro s h; simpa [lRun] using h
  | cons e es ih => intro s h; simp only [lRun]; exact ih _ (hstep s e h)

theorem lRun_append (b : Option Nat) (s : LState) (x y : List LStep) :
    lRun b s (x ++ y) = lRun b (lRun b s x) y := by
  induction x generalizing s with
  | nil => rfl
  | cons e es ih => simp [lRun, ih]

theorem lset_get {rows : List LRow} {id j : Nat} {x r' : LRow} (h : (rows.set id x)[j]? = some r') :
    (j = id ∧ r' = x) ∨ (j ≠ id ∧ rows[j]? = some r') := by
  rw [List.getElem?_set] at h
  split at h
  · rename_i hij
    split at h
    · simp at h; exact Or.inl ⟨hij.symm, h.symm⟩
    · simp at h
  · rename_i hij
    exact Or.inr ⟨fun e => hij e.symm, h⟩

/-! ## store operations -/

theorem lCas_spec {rows rows' : List LRow} {id : Nat} (h : lCas rows id = some rows') :
    ∃ r : LRow, rows[id]? = some r ∧ r.vis = .committed ∧ r.processing = false ∧
      rows' = rows.set id { r with processing := true } := by
  unfold lCas at h
  split at h
  · rename_i r hr
    split at h
    · rename_i hc
      simp at h
      exact ⟨r, hr, hc.1, hc.2, h.symm⟩
    · simp at h
  · simp at h

theorem lCas_none {rows : List LRow} {id : Nat} (h : lCas rows id = none) :
    ∀ r, rows[id]? = some r → ¬ (r.vis = .committed ∧ r.processing = false) := by
  intro r hr hc
  simp [lCas, hr, hc] at h

/-- rows only evolve compatibly: execute_at and key are fixed, visibility moves forward,
    the `processing` flag is never reset -/
def LRowsExt (rows rows' : List LRow) : Prop :=
  ∀ (j : Nat) (r : LRow), rows[j]? = some r →
    ∃ r' : LRow, rows'[j]? = some r' ∧ r'.executeAt = r.executeAt ∧ r'.key = r.key ∧ VisMono r.vis r'.vis ∧
      (r.processing = true → r'.processing = true) ∧ r'.bad = r.bad

theorem LRowsExt.refl (rows : List LRow) : LRowsExt rows rows := by
  intro j r h; exact ⟨r, h, rfl, rfl, by simp [VisMono], fun h => h, rfl⟩

theorem LRowsExt.trans {a b c : List LRow} (h1 : LRowsExt a b) (h2 : LRowsExt b c) : LRowsExt a c := by
  intro j r h
  obtain ⟨r1, g1, e1, k1, v1, p1, b1⟩ := h1 j r h
  obtain ⟨r2, g2, e2, k2, v2, p2, b2⟩ := h2 j r1 g1
  refine ⟨r2, g2, by omega, by simp [*], ?_, fun hp => p2 (p1 hp), by rw [b2, b1]⟩
  unfold VisMono at *
  grind

theorem lCas_ext {rows rows' : List LRow} {id : Nat} (h : lCas rows id = some rows') : LRowsExt rows rows' := by
  obtain ⟨r, hr, _, _, rfl⟩ := lCas_spec h
  intro j r0 hj
  have hlt : id < rows.length := (List.getElem?_eq_some_iff.mp hr).1
  by_cases hji : id = j
  · subst hji
    have : r0 = r := by simp_all
    subst this
    exact ⟨{ r0 with processing := true }, by simp [hlt], rfl, rfl, by simp [VisMono], fun _ => rfl, rfl⟩
  · exact ⟨r0, by simp [hji, hj], rfl, rfl, by simp [VisMono], fun h => h, rfl⟩

theorem lCaptureAll_ext : ∀ (cs : List Nat) (rows : List LRow), LRowsExt rows (lCaptureAll cs rows).1 := by
  intro cs
  induction cs with
  | nil => intro rows; exact LRowsExt.refl rows
  | cons c cs ih =>
    intro rows
    simp only [lCaptureAll]
    split
    · rename_i rows' h
      exact LRowsExt.trans (lCas_ext h) (ih rows')
    · exact ih rows

theorem lEndTx_ext (tx : Nat) (o : Vis) (rows : List LRow) : LRowsExt rows (lEndTx tx o rows) := by
  intro j r hj
  unfold lEndTx
  simp only [List.getElem?_map, hj, Option.map_some]
  refine ⟨_, rfl, ?_⟩
  split
  · rename_i hv
    exact ⟨rfl, rfl, by simp [VisMono, hv], fun h => h, rfl⟩
  · exact ⟨rfl, rfl, by simp [VisMono], fun h => h, rfl⟩

theorem lAppend_ext (rows : List LRow) (x : LRow) : LRowsExt rows (rows ++ [x]) := by
  intro j r hj
  have hlt : j < rows.length := (List.getElem?_eq_some_iff.mp hj).1
  exact ⟨r, by simp [List.getElem?_append_left hlt, hj], rfl, rfl, by simp [VisMono], fun h => h, rfl⟩

theorem lDelete_get (ids : List Nat) (rows : List LRow) (j : Nat) :
    (lDelete ids rows)[j]? = (rows[j]?).map fun r =>
      if ids.contains j && decide (r.vis = .committed) then { r with vis := .deleted } else r := by
  unfold lDelete
  rw [List.getElem?_map, List.getElem?_zipIdx]
  cases rows[j]? <;> simp

theorem lDelete_ext (ids : List Nat) (rows : List LRow) : LRowsExt rows (lDelete ids rows) := by
  intro j r hj
  rw [lDelete_get, hj]
  simp only [Option.map_some]
  refine ⟨_, rfl, ?_⟩
  split
  · rename_i hc
    simp only [Bool.and_eq_true, decide_eq_true_eq] at hc
    exact ⟨rfl, rfl, by simp [VisMono, hc.2], fun h => h, rfl⟩
  · exact ⟨rfl, rfl, by simp [VisMono], fun h => h, rfl⟩

/-! ## `LExt s s'`: what every step preserves -/

structure LExt (s s' : LState) : Prop where
  clock : s.clock ≤ s'.clock
  rows : LRowsExt s.rows s'.rows
  log : ∀ e, e ∈ s.log → e ∈ s'.log
  caps : ∀ e, e ∈ s.caps → e ∈ s'.caps

theorem LExt.refl (s : LState) : LExt s s := ⟨Nat.le_refl _, LRowsExt.refl _, fun _ h => h, fun _ h => h⟩

theorem LExt.trans {a b c : LState} (h1 : LExt a b) (h2 : LExt b c) : LExt a c :=
  ⟨Nat.le_trans h1.clock h2.clock, LRowsExt.trans h1.rows h2.rows,
   fun e h => h2.log e (h1.log e h), fun e h => h2.caps e (h1.caps e h)⟩

theorem lStep_ext (b : Option Nat) (s : LState) (e : LStep) : LExt s (lStep b s e) := by
  cases e with
  | schedule ra key tx => exact ⟨Nat.le_refl _, lAppend_ext _ _, fun _ h => h, fun _ h => h⟩
  | scheduleBad ra key tx => exact ⟨Nat.le_refl _, lAppend_ext _ _, fun _ h => h, fun _ h => h⟩
  | commit tx => exact ⟨Nat.le_refl _, lEndTx_ext _ _ _, fun _ h => h, fun _ h => h⟩
  | rollback tx => exact ⟨Nat.le_refl _, lEndTx_ext _ _ _, fun _ h => h, fun _ h => h⟩
  | tick n => exact ⟨Nat.le_add_right _ _, LRowsExt.refl _, fun _ h => h, fun _ h => h⟩
  | select i =>
    simp only [lStep]
    split
    · exact ⟨Nat.le_refl _, LRowsExt.refl _, fun _ h => h, fun _ h => h⟩
    · exact LExt.refl s
  | capture i =>
    simp only [lStep]
    split
    · exact ⟨Nat.le_refl _, lCaptureAll_ext _ _, fun _ h => h, fun _ h => List.mem_append_right _ h⟩
    · exact LExt.refl s
  | invoke i =>
    simp only [lStep]
    split
    · exact ⟨Nat.le_refl _, LRowsExt.refl _, fun _ h => List.mem_cons_of_mem _ h, fun _ h => h⟩
    · exact LExt.refl s
  | delete i =>
    simp only [lStep]
    split
    · exact ⟨Nat.le_refl _, lDelete_ext _ _, fun _ h => h, fun _ h => h⟩
    · exact LExt.refl s
  | crash i =>
    simp only [lStep]
    split
    · exact ⟨Nat.le_refl _, LRowsExt.refl _, fun _ h => h, fun _ h => h⟩
    · exact LExt.refl s

theorem lRun_ext (b : Option Nat) : ∀ (steps : List LStep) (s : LState), LExt s (lRun b s steps) := by
  intro steps
  induction steps with
  | nil => intro s; exact LExt.refl s
  | cons e es ih => intro s; exact LExt.trans (lStep_ext b s e) (ih _)

/-! ## select / capture facts -/

theorem lEligible_spec {clock : Nat} {r : LRow} (h : lEligible clock r = true) :
    r.vis = .committed ∧ r.executeAt ≤ clock ∧ r.processing = false := by
  unfold lEligible at h
  simp only [Bool.and_eq_true, decide_eq_true_eq, Bool.not_eq_true'] at h
  exact ⟨h.1.1, by omega, h.2⟩

theorem mem_lEligibleRows {clock : Nat} {rows : List LRow} {x : Nat × Nat × Option Nat} :
    x ∈ lEligibleRows clock rows ↔
      ∃ r : LRow, rows[x.2.1]? = some r ∧ lEligible clock r = true ∧ x.1 = r.executeAt ∧ x.2.2 = none := by
  unfold lEligibleRows
  rw [List.mem_filterMap]
  constructor
  · rintro ⟨⟨r, j⟩, hm, hf⟩
    have hg := List.mem_zipIdx_iff_getElem?.mp hm
    simp only at hg hf
    split at hf
    · rename_i he
      simp at hf
      subst hf
      exact ⟨r, hg, he, rfl, rfl⟩
    · simp at hf
  · rintro ⟨r, hg, he, h1, h2⟩
    refine ⟨(r, x.2.1), List.mem_zipIdx_iff_getElem?.mpr hg, ?_⟩
    obtain ⟨a, b, c⟩ := x
    simp at h1 h2 ⊢
    simp [he, h1, h2]

theorem mem_lSelect {batch : Option Nat} {clock : Nat} {rows : List LRow} {j : Nat}
    (h : j ∈ lSelect batch clock rows) : ∃ r : LRow, rows[j]? = some r ∧ lEligible clock r = true := by
  unfold lSelect at h
  simp only [List.mem_map] at h
  obtain ⟨x, hx, rfl⟩ := h
  have hx' : x ∈ sortCands (lEligibleRows clock rows) := by
    cases batch with
    | none => simpa using hx
    | some b => exact List.mem_of_mem_take hx
  obtain ⟨r, h1, h2, _, _⟩ := mem_lEligibleRows.mp (mem_sortCands.mp hx')
  exact ⟨r, h1, h2⟩

theorem mem_lSelect_nobatch {clock : Nat} {rows : List LRow} {j : Nat} {r : LRow}
    (hr : rows[j]? = some r) (he : lEligible clock r = true) : j ∈ lSelect none clock rows := by
  unfold lSelect
  simp only [List.mem_map]
  exact ⟨(r.executeAt, j, none), mem_sortCands.mpr (mem_lEligibleRows.mpr ⟨r, hr, he, rfl, rfl⟩), rfl⟩

/-- 1 iff the `processing` flag of row j is set -/
def procN (rows : List LRow) (j : Nat) : Nat :=
  match rows[j]? with
  | some r => if r.processing then 1 else 0
  | none => 0

theorem procN_le (rows : List LRow) (j : Nat) : procN rows j ≤ 1 := by
  unfold procN
  split
  · split <;> omega
  · omega

theorem procN_lCas {rows rows' : List LRow} {id : Nat} (h : lCas rows id = some rows') (j : Nat) :
    procN rows' j = procN rows j + (if id = j then 1 else 0) := by
  obtain ⟨r, hr, _, hp, rfl⟩ := lCas_spec h
  have hlt : id < rows.length := (List.getElem?_eq_some_iff.mp hr).1
  unfold procN
  by_cases hji : id = j
  · subst hji
    have hget : rows[id] = r := by
      have := List.getElem?_eq_getElem hlt
      rw [this] at hr; simpa using hr
    simp [hlt, hget, hp]
  · simp [hji]

/-- every successful CAS of the capture loop sets one flag: captured occurrences of j + flag
    before = flag after -/
theorem lCaptureAll_count : ∀ (cs : List Nat) (rows : List LRow) (j : Nat),
    (lCaptureAll cs rows).2.count j + procN rows j = procN (lCaptureAll cs rows).1 j := by
  intro cs
  induction cs with
  | nil => intro rows j; simp [lCaptureAll]
  | cons c cs ih =>
    intro rows j
    simp only [lCaptureAll]
    split
    · rename_i rows' h
      have h1 := ih rows' j
      have h2 := procN_lCas h j
      simp only [List.count_cons]
      by_cases hcj : c = j
      · simp [hcj] at h2 ⊢; omega
      · simp [hcj] at h2 ⊢; omega
    · exact ih rows j

/-- every id captured by the loop was a candidate, its row is committed and flagged afterwards -/
theorem lCaptureAll_mem : ∀ (cs : List Nat) (rows : List LRow) (j : Nat),
    j ∈ (lCaptureAll cs rows).2 →
      j ∈ cs ∧ ∃ r : LRow, rows[j]? = some r ∧ r.vis = .committed ∧ r.processing = false := by
  intro cs
  induction cs with
  | nil => intro rows j h; simp [lCaptureAll] at h
  | cons c cs ih =>
    intro rows j h
    simp only [lCaptureAll] at h
    split at h
    · rename_i rows1 hc
      simp only [List.mem_cons] at h
      obtain ⟨r, hr, hv, hp, hrows⟩ := lCas_spec hc
      rcases h with rfl | h
      · exact ⟨by simp, r, hr, hv, hp⟩
      · obtain ⟨hm, r1, hr1, hv1, hp1⟩ := ih rows1 j h
        refine ⟨by simp [hm], ?_⟩
        subst hrows
        rcases lset_get hr1 with ⟨_, rfl⟩ | ⟨_, h2⟩
        · simp at hp1
        · exact ⟨r1, h2, hv1, hp1⟩
    · obtain ⟨hm, hr⟩ := ih rows j h
      exact ⟨by simp [hm], hr⟩

/-- a candidate whose row is committed and not flagged gets captured -/
theorem lCaptureAll_captures : ∀ (cs : List Nat) (rows : List LRow) (j : Nat) (r : LRow),
    j ∈ cs → rows[j]? = some r → r.vis = .committed → r.processing = false → j ∈ (lCaptureAll cs rows).2 := by
  intro cs
  induction cs with
  | nil => intro rows j r h; simp at h
  | cons c cs ih =>
    intro rows j r hm hr hv hp
    simp only [lCaptureAll]
    split
    · rename_i rows' hcas
      by_cases hj : c = j
      · simp [hj]
      · simp only [List.mem_cons] at hm ⊢
        rcases hm with hm | hm
        · exact absurd hm.symm hj
        · right
          obtain ⟨r0, _, _, _, rfl⟩ := lCas_spec hcas
          exact ih _ j r hm (by simp [hj, hr]) hv hp
    · rename_i hcas
      simp only [List.mem_cons] at hm
      rcases hm with hm | hm
      · subst hm
        exact absurd ⟨hv, hp⟩ (lCas_none hcas r hr)
      · exact ih rows j r hm hr hv hp

/-! ## safety invariant -/

def LDue (s : LState) (j : Nat) : Prop := ∃ r : LRow, s.rows[j]? = some r ∧ r.executeAt ≤ s.clock
def LWasCommitted (s : LState) (j : Nat) : Prop :=
  ∃ r : LRow, s.rows[j]? = some r ∧ (r.vis = .committed ∨ r.vis = .deleted)
def LInvoked (s : LState) (j : Nat) : Prop := ∃ t i, (j, t, i) ∈ s.log
def LProcessing (s : LState) (j : Nat) : Prop := ∃ r : LRow, s.rows[j]? = some r ∧ r.processing = true

theorem LDue.mono {s s' : LState} {j : Nat} (h : LExt s s') : LDue s j → LDue s' j := by
  rintro ⟨r, hr, hd⟩
  obtain ⟨r', h1, h2, _, _, _⟩ := h.rows j r hr
  exact ⟨r', h1, by have := h.clock; omega⟩

theorem LWasCommitted.mono {s s' : LState} {j : Nat} (h : LExt s s') : LWasCommitted s j → LWasCommitted s' j := by
  rintro ⟨r, hr, hd⟩
  obtain ⟨r', h1, _, _, hv, _⟩ := h.rows j r hr
  exact ⟨r', h1, hv.1 hd⟩

theorem LInvoked.mono {s s' : LState} {j : Nat} (h : LExt s s') : LInvoked s j → LInvoked s' j := by
  rintro ⟨t, i, hm⟩
  exact ⟨t, i, h.log _ hm⟩

theorem LProcessing.mono {s s' : LState} {j : Nat} (h : LExt s s') : LProcessing s j → LProcessing s' j := by
  rintro ⟨r, hr, hp⟩
  obtain ⟨r', h1, _, _, _, hp', _⟩ := h.rows j r hr
  exact ⟨r', h1, hp' hp⟩

def LBad (s : LState) (j : Nat) : Prop := ∃ r : LRow, s.rows[j]? = some r ∧ r.bad = true
/-- the call has been invoked, or cannot be prepared (logged and dropped, by design not invoked) -/
def LDone (s : LState) (j : Nat) : Prop := LInvoked s j ∨ LBad s j

theorem LBad.mono {s s' : LState} {j : Nat} (h : LExt s s') : LBad s j → LBad s' j := by
  rintro ⟨r, hr, hb⟩
  obtain ⟨r', h1, _, _, _, _, hb'⟩ := h.rows j r hr
  exact ⟨r', h1, by rw [hb', hb]⟩

theorem LDone.mono {s s' : LState} {j : Nat} (h : LExt s s') : LDone s j → LDone s' j := by
  rintro (hi | hb)
  · exact Or.inl (hi.mono h)
  · exact Or.inr (hb.mono h)

structure LPhaseSafe (s : LState) (ph : LPhase) : Prop where
  sel : ∀ cands, ph = .selected cands → ∀ j, j ∈ cands → LDue s j
  busy : ∀ ids todo, ph = .busy ids todo →
    (∀ j, j ∈ ids → LDue s j ∧ LWasCommitted s j) ∧ (∀ j, j ∈ ids → j ∉ todo → LDone s j) ∧
      (∀ j, j ∈ todo → j ∈ ids)

theorem LPhaseSafe.mono {s s' : LState} {ph : LPhase} (h : LExt s s') (hx : LPhaseSafe s ph) : LPhaseSafe s' ph := by
  refine ⟨?_, ?_⟩
  · intro cands hc j hj; exact (hx.sel cands hc j hj).mono h
  · intro ids todo hb
    obtain ⟨a, b, c⟩ := hx.busy ids todo hb
    exact ⟨fun j hj => ⟨(a j hj).1.mono h, (a j hj).2.mono h⟩, fun j hj hn => (b j hj hn).mono h, c⟩

theorem LPhaseSafe.idle (s : LState) : LPhaseSafe s .idle := ⟨by simp, by simp⟩

def LLogSafe (s : LState) (e : Nat × Nat × Nat) : Prop :=
  (∃ r : LRow, s.rows[e.1]? = some r ∧ r.executeAt ≤ e.2.1) ∧ LWasCommitted s e.1 ∧ e.2.1 ≤ s.clock

def LCapSafe (s : LState) (e : Nat × Nat × Nat) : Prop :=
  LWasCommitted s e.1 ∧ LProcessing s e.1 ∧ e.2.1 ≤ s.clock

theorem LLogSafe.mono {s s' : LState} {e : Nat × Nat × Nat} (h : LExt s s') (he : LLogSafe s e) : LLogSafe s' e := by
  obtain ⟨⟨r, hr, hea⟩, hc, ht⟩ := he
  obtain ⟨r', h1, h2, _, _, _⟩ := h.rows _ r hr
  exact ⟨⟨r', h1, by omega⟩, hc.mono h, by have := h.clock; omega⟩

theorem LCapSafe.mono {s s' : LState} {e : Nat × Nat × Nat} (h : LExt s s') (he : LCapSafe s e) : LCapSafe s' e :=
  ⟨he.1.mono h, he.2.1.mono h, by have := h.clock; have := he.2.2; omega⟩

structure LSafe (s : LState) : Prop where
  insts : ∀ x, x ∈ s.insts → LPhaseSafe s x.2
  log : ∀ e, e ∈ s.log → LLogSafe s e
  caps : ∀ e, e ∈ s.caps → LCapSafe s e
  del : ∀ (j : Nat) (r : LRow), s.rows[j]? = some r → r.vis = .deleted → LDone s j
  proc : ∀ (j : Nat) (r : LRow), s.rows[j]? = some r → r.processing = true → (r.vis = .committed ∨ r.vis = .deleted)

theorem lSafe_init (n : Nat) : LSafe (lInit n) := by
  refine ⟨?_, ?_, ?_, ?_, ?_⟩
  · intro x hx
    simp [lInit] at hx
    obtain ⟨_, rfl⟩ := hx
    exact LPhaseSafe.idle _
  · intro e h; simp [lInit] at h
  · intro e h; simp [lInit] at h
  · intro j r h; simp [lInit] at h
  · intro j r h; simp [lInit] at h

theorem lmem_set_cases {l : List (Bool × LPhase)} {i : Nat} {x' x : Bool × LPhase} (P : Bool × LPhase → Prop)
    (hx : x ∈ l.set i x') (hx' : P x') : x ∈ l ∨ P x := by
  rcases List.mem_or_eq_of_mem_set hx with h | h
  · exact Or.inl h
  · exact Or.inr (h ▸ hx')

/-! backward facts about rows -/

theorem getElem?_append_singleton {α : Type} {l : List α} {x r : α} {j : Nat} (h : (l ++ [x])[j]? = some r) :
    l[j]? = some r ∨ (j = l.length ∧ r = x) := by
  by_cases hlt : j < l.length
  · rw [List.getElem?_append_left hlt] at h; exact Or.inl h
  · have hge : l.length ≤ j := Nat.le_of_not_lt hlt
    rw [List.getElem?_append_right hge] at h
    by_cases h0 : j - l.length = 0
    · simp [h0] at h; exact Or.inr ⟨by omega, h.symm⟩
    · have : ([x] : List α)[j - l.length]? = none := by
        apply List.getElem?_eq_none; simp; omega
      simp [this] at h

theorem lEndTx_get {rows : List LRow} {tx : Nat} {o : Vis} {r' : LRow} {j : Nat}
    (h : (lEndTx tx o rows)[j]? = some r') :
    ∃ r : LRow, rows[j]? = some r ∧ r' = if r.vis = .uncommitted tx then { r with vis := o } else r := by
  unfold lEndTx at h
  simp only [List.getElem?_map] at h
  cases hr : rows[j]? with
  | none => simp [hr] at h
  | some r => simp [hr] at h; exact ⟨r, rfl, h.symm⟩

theorem lCas_back {rows rows' : List LRow} {id j : Nat} {r' : LRow}
    (hc : lCas rows id = some rows') (h : rows'[j]? = some r') :
    ∃ r : LRow, rows[j]? = some r ∧ r'.vis = r.vis ∧ (r'.processing = true → r.processing = true ∨ r.vis = .committed) := by
  obtain ⟨r, hr, hvis, _, rfl⟩ := lCas_spec hc
  rcases lset_get h with ⟨rfl, rfl⟩ | ⟨_, h2⟩
  · exact ⟨r, hr, rfl, fun _ => Or.inr hvis⟩
  · exact ⟨r', h2, rfl, fun hp => Or.inl hp⟩

theorem lCaptureAll_back : ∀ (cs : List Nat) (rows : List LRow) (j : Nat) (r' : LRow),
    (lCaptureAll cs rows).1[j]? = some r' →
    ∃ r : LRow, rows[j]? = some r ∧ r'.vis = r.vis ∧ (r'.processing = true → r.processing = true ∨ r.vis = .committed) := by
  intro cs
  induction cs with
  | nil => intro rows j r' h; exact ⟨r', by simpa [lCaptureAll] using h, rfl, fun hp => Or.inl hp⟩
  | cons c cs ih =>
    intro rows j r' h
    simp only [lCaptureAll] at h
    split at h
    · rename_i rows1 hc
      obtain ⟨r1, h1, hv1, hp1⟩ := ih rows1 j r' h
      obtain ⟨r0, h0, hv0, hp0⟩ := lCas_back hc h1
      refine ⟨r0, h0, by rw [hv1, hv0], fun hp => ?_⟩
      rcases hp1 hp with g | g
      · exact hp0 g
      · exact Or.inr (by rw [← hv0]; exact g)
    · exact ih rows j r' h

theorem procN_pos {rows : List LRow} {j : Nat} (h : 1 ≤ procN rows j) :
    ∃ r : LRow, rows[j]? = some r ∧ r.processing = true := by
  unfold procN at h
  split at h
  · rename_i r hr
    split at h
    · rename_i hp; exact ⟨r, hr, hp⟩
    · omega
  · omega

theorem procN_of {rows : List LRow} {j : Nat} {r : LRow} (hr : rows[j]? = some r) :
    procN rows j = if r.processing then 1 else 0 := by
  simp [procN, hr]

theorem lSafe_build {s s' : LState} (hs : LSafe s) (hext : LExt s s')
    (hinsts : ∀ x, x ∈ s'.insts → x ∈ s.insts ∨ LPhaseSafe s' x.2)
    (hlog : ∀ e, e ∈ s'.log → e ∈ s.log ∨ LLogSafe s' e)
    (hcaps : ∀ e, e ∈ s'.caps → e ∈ s.caps ∨ LCapSafe s' e)
    (hdel : ∀ (j : Nat) (r' : LRow), s'.rows[j]? = some r' → r'.vis = .deleted →
      (∃ r : LRow, s.rows[j]? = some r ∧ r.vis = .deleted) ∨ LDone s' j)
    (hproc : ∀ (j : Nat) (r' : LRow), s'.rows[j]? = some r' → r'.processing = true →
      (r'.vis = .committed ∨ r'.vis = .deleted)) : LSafe s' := by
  refine ⟨?_, ?_, ?_, ?_, hproc⟩
  · intro x hx
    rcases hinsts x hx with h | h
    · exact (hs.insts x h).mono hext
    · exact h
  · intro e he
    rcases hlog e he with h | h
    · exact (hs.log e h).mono hext
    · exact h
  · intro e he
    rcases hcaps e he with h | h
    · exact (hs.caps e h).mono hext
    · exact h
  · intro j r' hr' hv
    rcases hdel j r' hr' hv with ⟨r, hr, hvr⟩ | h
    · exact (hs.del j r hr hvr).mono hext
    · exact h

theorem lSafe_step (b : Option Nat) (s : LState) (e : LStep) (hs : LSafe s) : LSafe (lStep b s e) := by
  have hext := lStep_ext b s e
  cases e with
  | schedule ra key tx =>
    apply lSafe_build hs hext
    · intro x hx; exact Or.inl hx
    · intro e he; exact Or.inl he
    · intro e he; exact Or.inl he
    · intro j r' h hv
      rcases getElem?_append_singleton h with h1 | ⟨_, rfl⟩
      · exact Or.inl ⟨r', h1, hv⟩
      · simp at hv
    · intro j r' h hp
      rcases getElem?_append_singleton h with h1 | ⟨_, rfl⟩
      · exact hs.proc j r' h1 hp
      · simp at hp
  | scheduleBad ra key tx =>
    apply lSafe_build hs hext
    · intro x hx; exact Or.inl hx
    · intro e he; exact Or.inl he
    · intro e he; exact Or.inl he
    · intro j r' h hv
      rcases getElem?_append_singleton h with h1 | ⟨_, rfl⟩
      · exact Or.inl ⟨r', h1, hv⟩
      · simp at hv
    · intro j r' h hp
      rcases getElem?_append_singleton h with h1 | ⟨_, rfl⟩
      · exact hs.proc j r' h1 hp
      · simp at hp
  | commit tx =>
    apply lSafe_build hs hext
    · intro x hx; exact Or.inl hx
    · intro e he; exact Or.inl he
    · intro e he; exact Or.inl he
    · intro j r' h hv
      obtain ⟨r, hr, rfl⟩ := lEndTx_get h
      split at hv
      · simp at hv
      · exact Or.inl ⟨r, hr, hv⟩
    · intro j r' h hp
      obtain ⟨r, hr, rfl⟩ := lEndTx_get h
      split at hp
      · rename_i hu
        have := hs.proc j r hr (by simpa using hp)
        simp [hu] at this
      · rename_i hu; simp only [hu, if_false]; exact hs.proc j r hr hp
  | rollback tx =>
    apply lSafe_build hs hext
    · intro x hx; exact Or.inl hx
    · intro e he; exact Or.inl he
    · intro e he; exact Or.inl he
    · intro j r' h hv
      obtain ⟨r, hr, rfl⟩ := lEndTx_get h
      split at hv
      · simp at hv
      · exact Or.inl ⟨r, hr, hv⟩
    · intro j r' h hp
      obtain ⟨r, hr, rfl⟩ := lEndTx_get h
      split at hp
      · rename_i hu
        have := hs.proc j r hr (by simpa using hp)
        simp [hu] at this
      · rename_i hu; simp only [hu, if_false]; exact hs.proc j r hr hp
  | tick n =>
    apply lSafe_build hs hext
    · intro x hx; exact Or.inl hx
    · intro e he; exact Or.inl he
    · intro e he; exact Or.inl he
    · intro j r' h hv; exact Or.inl ⟨r', h, hv⟩
    · intro j r' h hp; exact hs.proc j r' h hp
  | select i =>
    simp only [lStep] at hext ⊢
    split
    · rename_i hi
      simp only [hi] at hext
      apply lSafe_build hs hext
      · intro x hx
        refine lmem_set_cases (fun x => LPhaseSafe _ x.2) hx ⟨?_, by simp⟩
        intro cands hc j hj
        simp at hc
        subst hc
        obtain ⟨r, hr, he⟩ := mem_lSelect hj
        exact ⟨r, hr, (lEligible_spec he).2.1⟩
      · intro e he; exact Or.inl he
      · intro e he; exact Or.inl he
      · intro j r' h hv; exact Or.inl ⟨r', h, hv⟩
      · intro j r' h hp; exact hs.proc j r' h hp
    · exact hs
  | capture i =>
    simp only [lStep] at hext ⊢
    split
    · rename_i cands hi
      simp only [hi] at hext
      have hsi := hs.insts _ (List.mem_of_getElem? hi)
      have hq : ∀ j, j ∈ (lCaptureAll cands s.rows).2 →
          LDue s j ∧ LWasCommitted s j ∧ 1 ≤ procN (lCaptureAll cands s.rows).1 j := by
        intro j hj
        obtain ⟨hm, r, hr, hv, _⟩ := lCaptureAll_mem _ _ _ hj
        refine ⟨hsi.sel cands rfl j hm, ⟨r, hr, Or.inl hv⟩, ?_⟩
        have := lCaptureAll_count cands s.rows j
        have hc : 1 ≤ (lCaptureAll cands s.rows).2.count j := List.count_pos_iff.mpr hj
        omega
      apply lSafe_build hs hext
      · intro x hx
        refine lmem_set_cases (fun x => LPhaseSafe _ x.2) hx ⟨?_, ?_⟩
        · intro c hc; split at hc <;> simp at hc
        · intro ids todo hb
          split at hb
          · simp at hb
          · simp at hb
            obtain ⟨rfl, rfl⟩ := hb
            refine ⟨fun j hj => ?_, fun j hj hn => ?_, fun j hj => (List.mem_filter.mp hj).1⟩
            · obtain ⟨h1, h2, _⟩ := hq j hj
              exact ⟨h1.mono hext, h2.mono hext⟩
            · -- captured but not prepared: the call is un-preparable
              have hbad : lIsBad s.rows j = true := by
                cases hb : lIsBad s.rows j with
                | true => rfl
                | false => exact absurd (List.mem_filter.mpr ⟨hj, by simp [hb]⟩) hn
              have hB : LBad s j := by
                unfold lIsBad at hbad
                split at hbad
                · rename_i r hr; exact ⟨r, hr, hbad⟩
                · simp at hbad
              exact Or.inr (hB.mono hext)
      · intro e he; exact Or.inl he
      · intro e he
        simp only [List.mem_append, List.mem_reverse, List.mem_map] at he
        rcases he with ⟨j, hj, rfl⟩ | he
        · obtain ⟨_, h2, h3⟩ := hq j hj
          exact Or.inr ⟨h2.mono hext, procN_pos h3, Nat.le_refl _⟩
        · exact Or.inl he
      · intro j r' h hv
        obtain ⟨r, hr, hvr, _⟩ := lCaptureAll_back _ _ _ _ h
        exact Or.inl ⟨r, hr, by rw [← hvr]; exact hv⟩
      · intro j r' h hp
        obtain ⟨r, hr, hvr, hpr⟩ := lCaptureAll_back _ _ _ _ h
        rw [hvr]
        rcases hpr hp with g | g
        · exact hs.proc j r hr g
        · exact Or.inl g
    · exact hs
  | invoke i =>
    simp only [lStep] at hext ⊢
    split
    · rename_i ids j todo hi
      simp only [hi] at hext
      have hsi := hs.insts _ (List.mem_of_getElem? hi)
      obtain ⟨ha, hb, hc⟩ := hsi.busy ids (j :: todo) rfl
      have hjids : j ∈ ids := hc j (by simp)
      apply lSafe_build hs hext
      · intro x hx
        refine lmem_set_cases (fun x => LPhaseSafe _ x.2) hx ⟨by simp, ?_⟩
        intro ids' todo' hbb
        simp at hbb
        obtain ⟨rfl, rfl⟩ := hbb
        refine ⟨fun j' hj' => ⟨(ha j' hj').1.mono hext, (ha j' hj').2.mono hext⟩, fun j' hj' hn => ?_,
          fun j' hj' => hc j' (by simp [hj'])⟩
        by_cases hjj : j' = j
        · subst hjj; exact Or.inl ⟨s.clock, i, by simp⟩
        · exact (hb j' hj' (by simp [hjj, hn])).mono hext
      · intro e he
        simp only [List.mem_cons] at he
        rcases he with rfl | he
        · obtain ⟨⟨r, hr, hea⟩, hwc⟩ := ha j hjids
          exact Or.inr ⟨⟨r, hr, hea⟩, hwc.mono hext, Nat.le_refl _⟩
        · exact Or.inl he
      · intro e he; exact Or.inl he
      · intro j' r' h hv; exact Or.inl ⟨r', h, hv⟩
      · intro j' r' h hp; exact hs.proc j' r' h hp
    · exact hs
  | delete i =>
    simp only [lStep] at hext ⊢
    split
    · rename_i ids hi
      simp only [hi] at hext
      have hsi := hs.insts _ (List.mem_of_getElem? hi)
      obtain ⟨ha, hb, hc⟩ := hsi.busy ids [] rfl
      apply lSafe_build hs hext
      · intro x hx
        exact lmem_set_cases (fun x => LPhaseSafe _ x.2) hx (LPhaseSafe.idle _)
      · intro e he; exact Or.inl he
      · intro e he; exact Or.inl he
      · intro j r' h hv
        simp only [lDelete_get] at h
        cases hr : s.rows[j]? with
        | none => simp [hr] at h
        | some r =>
          simp only [hr, Option.map_some, Option.some.injEq] at h
          split at h
          · rename_i hcond
            simp only [Bool.and_eq_true, List.contains_iff_mem, decide_eq_true_eq] at hcond
            exact Or.inr ((hb j hcond.1 (by simp)).mono hext)
          · subst h; exact Or.inl ⟨r, rfl, hv⟩
      · intro j r' h hp
        simp only [lDelete_get] at h
        cases hr : s.rows[j]? with
        | none => simp [hr] at h
        | some r =>
          simp only [hr, Option.map_some, Option.some.injEq] at h
          split at h
          · subst h; exact Or.inr rfl
          · subst h; exact hs.proc j r hr hp
    · exact hs
  | crash i =>
    simp only [lStep] at hext ⊢
    split
    · rename_i hi
      simp only [hi] at hext
      apply lSafe_build hs hext
      · intro x hx
        exact lmem_set_cases (fun x => LPhaseSafe _ x.2) hx (LPhaseSafe.idle _)
      · intro e he; exact Or.inl he
      · intro e he; exact Or.inl he
      · intro j r' h hv; exact Or.inl ⟨r', h, hv⟩
      · intro j r' h hp; exact hs.proc j r' h hp
    · exact hs

theorem lSafe_reachable (b : Option Nat) (n : Nat) (steps : List LStep) : LSafe (lRun b (lInit n) steps) :=
  lRun_inv b (fun s e h => lSafe_step b s e h) steps _ (lSafe_init n)

/-! ## counting invariant: captures of a call = its flag; invocations + pending work ≤ captures -/

def lPendPhase (j : Nat) : LPhase → Nat
  | .busy _ todo => todo.count j
  | _ => 0

/-- occurrences of j in the to-do lists of all instances (a crashed instance has none) -/
def lPend (s : LState) (j : Nat) : Nat := (s.insts.map fun x => lPendPhase j x.2).sum

structure LCnt (s : LState) : Prop where
  cap : ∀ j, lCapCount s j = procN s.rows j
  inv : ∀ j, lInvCount s j + lPend s j ≤ lCapCount s j

theorem lsum_set {α : Type} {f : α → Nat} : ∀ (l : List α) (i : Nat) (a x : α), l[i]? = some a →
    ((l.set i x).map f).sum + f a = (l.map f).sum + f x := by
  intro l
  induction l with
  | nil => intro i a x h; simp at h
  | cons b t ih =>
    intro i a x h
    cases i with
    | zero => simp at h; subst h; simp; omega
    | succ k =>
      simp at h
      have := ih k a x h
      simp only [List.set_cons_succ, List.map_cons, List.sum_cons]
      omega

theorem lPend_set {s : LState} {i : Nat} {a x : Bool × LPhase} (hi : s.insts[i]? = some a) (j : Nat)
    (s' : LState) (hs' : s'.insts = s.insts.set i x) :
    lPend s' j + lPendPhase j a.2 = lPend s j + lPendPhase j x.2 := by
  unfold lPend
  rw [hs']
  exact lsum_set (f := fun x => lPendPhase j x.2) s.insts i a x hi

theorem procN_append (rows : List LRow) (x : LRow) (hx : x.processing = false) (j : Nat) :
    procN (rows ++ [x]) j = procN rows j := by
  unfold procN
  by_cases hlt : j < rows.length
  · rw [List.getElem?_append_left hlt]
  · have hge := Nat.le_of_not_lt hlt
    rw [List.getElem?_append_right hge]
    have h1 : rows[j]? = none := List.getElem?_eq_none hge
    rw [h1]
    by_cases h0 : j - rows.length = 0
    · simp [h0, hx]
    · have : ([x] : List LRow)[j - rows.length]? = none := by
        apply List.getElem?_eq_none; simp; omega
      simp [this]

theorem procN_lEndTx (tx : Nat) (o : Vis) (rows : List LRow) (j : Nat) :
    procN (lEndTx tx o rows) j = procN rows j := by
  unfold procN lEndTx
  simp only [List.getElem?_map]
  cases rows[j]? with
  | none => simp
  | some r =>
    simp only [Option.map_some]
    split <;> rfl

theorem procN_lDelete (ids : List Nat) (rows : List LRow) (j : Nat) :
    procN (lDelete ids rows) j = procN rows j := by
  unfold procN
  rw [lDelete_get]
  cases rows[j]? with
  | none => simp
  | some r =>
    simp only [Option.map_some]
    split <;> rfl

theorem filter_caps_batch (j c i : Nat) : ∀ (q : List Nat) (tr : List (Nat × Nat × Nat)),
    (((q.map fun j' => (j', c, i)).reverse ++ tr).filter fun e => e.1 == j).length =
      q.count j + (tr.filter fun e => e.1 == j).length := by
  intro q
  induction q with
  | nil => intro tr; simp
  | cons a q ih =>
    intro tr
    simp only [List.map_cons, List.reverse_cons, List.append_assoc, List.singleton_append]
    rw [ih]
    simp only [List.filter_cons, List.count_cons]
    by_cases h : a = j
    · simp [h]; omega
    · simp [h]

theorem lCnt_init (n : Nat) : LCnt (lInit n) := by
  refine ⟨fun j => ?_, fun j => ?_⟩
  · simp [lCapCount, lInit, procN]
  · simp [lInvCount, lCapCount, lPend, lInit, lPendPhase]

theorem lCnt_step (b : Option Nat) (s : LState) (e : LStep) (hc : LCnt s) : LCnt (lStep b s e) := by
  cases e with
  | schedule ra key tx =>
    refine ⟨fun j => ?_, fun j => hc.inv j⟩
    have := hc.cap j
    simp only [lStep, lCapCount] at this ⊢
    rw [procN_append _ _ rfl]; exact this
  | scheduleBad ra key tx =>
    refine ⟨fun j => ?_, fun j => hc.inv j⟩
    have := hc.cap j
    simp only [lStep, lCapCount] at this ⊢
    rw [procN_append _ _ rfl]; exact this
  | commit tx =>
    refine ⟨fun j => ?_, fun j => hc.inv j⟩
    have := hc.cap j
    simp only [lStep, lCapCount] at this ⊢
    rw [procN_lEndTx]; exact this
  | rollback tx =>
    refine ⟨fun j => ?_, fun j => hc.inv j⟩
    have := hc.cap j
    simp only [lStep, lCapCount] at this ⊢
    rw [procN_lEndTx]; exact this
  | tick n => exact ⟨fun j => hc.cap j, fun j => hc.inv j⟩
  | select i =>
    simp only [lStep]
    split
    · rename_i hi
      refine ⟨fun j => hc.cap j, fun j => ?_⟩
      have h1 := lPend_set hi j { s with insts := s.insts.set i (true, .selected (lSelect b s.clock s.rows)) } rfl
      have h2 := hc.inv j
      simp only [lPendPhase, lInvCount, lCapCount] at h1 h2 ⊢
      omega
    · exact hc
  | capture i =>
    simp only [lStep]
    split
    · rename_i cands hi
      have hcnt := fun j => lCaptureAll_count cands s.rows j
      have hcaps : ∀ j, lCapCount { s with
          caps := ((lCaptureAll cands s.rows).2.map fun j => (j, s.clock, i)).reverse ++ s.caps } j =
          (lCaptureAll cands s.rows).2.count j + lCapCount s j := by
        intro j; simp only [lCapCount]; exact filter_caps_batch j s.clock i _ _
      refine ⟨fun j => ?_, fun j => ?_⟩
      · have h0 := hc.cap j
        have h1 := hcaps j
        have h2 := hcnt j
        simp only [lCapCount] at h0 h1 ⊢
        omega
      · have h0 := hc.inv j
        have h1 := hcaps j
        have h3 := lPend_set hi j
          { s with
            rows := (lCaptureAll cands s.rows).1
            caps := ((lCaptureAll cands s.rows).2.map fun j => (j, s.clock, i)).reverse ++ s.caps
            insts := s.insts.set i (true,
              if (lCaptureAll cands s.rows).2 = [] then .idle
              else .busy (lCaptureAll cands s.rows).2 (lGood s.rows (lCaptureAll cands s.rows).2)) } rfl
        have hsub : (lGood s.rows (lCaptureAll cands s.rows).2).count j ≤ (lCaptureAll cands s.rows).2.count j :=
          (List.filter_sublist).count_le j
        have h4 : lPendPhase j (if (lCaptureAll cands s.rows).2 = [] then LPhase.idle
              else .busy (lCaptureAll cands s.rows).2 (lGood s.rows (lCaptureAll cands s.rows).2)) ≤
            (lCaptureAll cands s.rows).2.count j := by
          split
          · simp [lPendPhase]
          · simp only [lPendPhase]; exact hsub
        dsimp only at h3
        generalize lPendPhase j (if (lCaptureAll cands s.rows).2 = [] then LPhase.idle
              else .busy (lCaptureAll cands s.rows).2 (lGood s.rows (lCaptureAll cands s.rows).2)) = pp at h3 h4
        simp only [lPendPhase] at h3
        simp only [lCapCount, lInvCount] at h0 h1 h3 ⊢
        omega
    · exact hc
  | invoke i =>
    simp only [lStep]
    split
    · rename_i ids j0 todo hi
      refine ⟨fun j => hc.cap j, fun j => ?_⟩
      have h0 := hc.inv j
      have h3 := lPend_set hi j
        { s with log := (j0, s.clock, i) :: s.log, insts := s.insts.set i (true, .busy ids todo) } rfl
      simp only [lPendPhase, List.count_cons] at h3
      simp only [lCapCount, lInvCount, List.filter_cons] at h0 h3 ⊢
      by_cases hj : j0 = j
      · simp [hj] at h3 ⊢; omega
      · simp [hj] at h3 ⊢; omega
    · exact hc
  | delete i =>
    simp only [lStep]
    split
    · rename_i ids hi
      refine ⟨fun j => ?_, fun j => ?_⟩
      · have := hc.cap j
        simp only [lCapCount] at this ⊢
        rw [procN_lDelete]; exact this
      · have h0 := hc.inv j
        have h3 := lPend_set hi j { s with rows := lDelete ids s.rows, insts := s.insts.set i (true, .idle) } rfl
        simp only [lPendPhase, List.count_nil] at h3
        simp only [lCapCount, lInvCount] at h0 h3 ⊢
        omega
    · exact hc
  | crash i =>
    simp only [lStep]
    split
    · rename_i x hi
      refine ⟨fun j => hc.cap j, fun j => ?_⟩
      have h0 := hc.inv j
      have h3 := lPend_set hi j { s with insts := s.insts.set i (false, .idle) } rfl
      simp only [lPendPhase] at h3
      simp only [lCapCount, lInvCount] at h0 h3 ⊢
      omega
    · exact hc

theorem lCnt_reachable (b : Option Nat) (n : Nat) (steps : List LStep) : LCnt (lRun b (lInit n) steps) :=
  lRun_inv b (fun s e h => lCnt_step b s e h) steps _ (lCnt_init n)

/-! ## no recapture: a flagged call that nobody holds is never invoked again -/

/-- the `processing` flag of j is set and no instance has j in its to-do list -/
def LStuck (s : LState) (j : Nat) : Prop :=
  LProcessing s j ∧ ∀ x, x ∈ s.insts → lPendPhase j x.2 = 0

theorem procN_of_processing {s : LState} {j : Nat} (h : LProcessing s j) : procN s.rows j = 1 := by
  obtain ⟨r, hr, hp⟩ := h
  simp [procN, hr, hp]

theorem lStuck_step (b : Option Nat) (s : LState) (e : LStep) (j : Nat) (h : LStuck s j) :
    LStuck (lStep b s e) j ∧ lInvCount (lStep b s e) j = lInvCount s j := by
  have hext := lStep_ext b s e
  have hproc := h.1.mono hext
  refine ⟨⟨hproc, ?_⟩, ?_⟩
  · cases e with
    | schedule ra key tx => exact h.2
    | scheduleBad ra key tx => exact h.2
    | commit tx => exact h.2
    | rollback tx => exact h.2
    | tick n => exact h.2
    | select i =>
      simp only [lStep]
      split
      · intro x hx
        rcases List.mem_or_eq_of_mem_set hx with hx | rfl
        · exact h.2 x hx
        · rfl
      · exact h.2
    | capture i =>
      simp only [lStep]
      split
      · rename_i cands hi
        intro x hx
        rcases List.mem_or_eq_of_mem_set hx with hx | rfl
        · exact h.2 x hx
        · have h1 := lCaptureAll_count cands s.rows j
          have h2 := procN_of_processing h.1
          have h3 := procN_le (lCaptureAll cands s.rows).1 j
          have hsub : (lGood s.rows (lCaptureAll cands s.rows).2).count j ≤ (lCaptureAll cands s.rows).2.count j :=
            (List.filter_sublist).count_le j
          dsimp only
          split
          · rfl
          · simp only [lPendPhase]; omega
      · exact h.2
    | invoke i =>
      simp only [lStep]
      split
      · rename_i ids j0 todo hi
        intro x hx
        rcases List.mem_or_eq_of_mem_set hx with hx | rfl
        · exact h.2 x hx
        · have := h.2 _ (List.mem_of_getElem? hi)
          simp only [lPendPhase, List.count_cons] at this ⊢
          omega
      · exact h.2
    | delete i =>
      simp only [lStep]
      split
      · intro x hx
        rcases List.mem_or_eq_of_mem_set hx with hx | rfl
        · exact h.2 x hx
        · rfl
      · exact h.2
    | crash i =>
      simp only [lStep]
      split
      · intro x hx
        rcases List.mem_or_eq_of_mem_set hx with hx | rfl
        · exact h.2 x hx
        · rfl
      · exact h.2
  · cases e with
    | invoke i =>
      simp only [lStep]
      split
      · rename_i ids j0 todo hi
        have := h.2 _ (List.mem_of_getElem? hi)
        simp only [lPendPhase, List.count_cons] at this
        have hne : (j0 == j) = false := by
          cases hb : j0 == j with
          | false => rfl
          | true => simp [hb] at this
        simp [lInvCount, hne]
      · rfl
    | schedule ra key tx => rfl
    | scheduleBad ra key tx => rfl
    | commit tx => rfl
    | rollback tx => rfl
    | tick n => rfl
    | select i => simp only [lStep]; split <;> rfl
    | capture i => simp only [lStep]; split <;> rfl
    | delete i => simp only [lStep]; split <;> rfl
    | crash i => simp only [lStep]; split <;> rfl

theorem lStuck_run (b : Option Nat) (j : Nat) : ∀ (steps : List LStep) (s : LState), LStuck s j →
    LStuck (lRun b s steps) j ∧ lInvCount (lRun b s steps) j = lInvCount s j := by
  intro steps
  induction steps with
  | nil => intro s h; exact ⟨h, rfl⟩
  | cons e es ih =>
    intro s h
    obtain ⟨h1, h2⟩ := lStuck_step b s e j h
    obtain ⟨h3, h4⟩ := ih _ h1
    exact ⟨h3, by simp only [lRun]; rw [h4, h2]⟩

theorem sum_zero_mem {α : Type} {f : α → Nat} : ∀ (l : List α), (l.map f).sum = 0 → ∀ x, x ∈ l → f x = 0 := by
  intro l
  induction l with
  | nil => intro _ x hx; simp at hx
  | cons a t ih =>
    intro h x hx
    simp only [List.map_cons, List.sum_cons] at h
    simp only [List.mem_cons] at hx
    rcases hx with rfl | hx
    · omega
    · exact ih (by omega) x hx

theorem le_sum_mem {α : Type} {f : α → Nat} : ∀ (l : List α) (x : α), x ∈ l → f x ≤ (l.map f).sum := by
  intro l
  induction l with
  | nil => intro x hx; simp at hx
  | cons a t ih =>
    intro x hx
    simp only [List.map_cons, List.sum_cons]
    simp only [List.mem_cons] at hx
    rcases hx with rfl | hx
    · omega
    · have := ih x hx; omega

/-- the crash of an instance that has captured j and not yet invoked it strands j: its flag is
    set, nobody holds it, and it had not been invoked -/
theorem lCrash_strands (b : Option Nat) {s : LState} (hc : LCnt s) {x j : Nat} {ids todo : List Nat}
    (hi : s.insts[x]? = some (true, .busy ids todo)) (hj : j ∈ todo) :
    LStuck (lStep b s (.crash x)) j ∧ lInvCount (lStep b s (.crash x)) j = 0 := by
  have h1 : 1 ≤ todo.count j := List.count_pos_iff.mpr hj
  have h2 : lPendPhase j (true, LPhase.busy ids todo).2 ≤ lPend s j :=
    le_sum_mem (f := fun x => lPendPhase j x.2) s.insts _ (List.mem_of_getElem? hi)
  simp only [lPendPhase] at h2
  have h3 := hc.inv j
  have h4 := hc.cap j
  have h5 := procN_le s.rows j
  have hp : LProcessing s j := procN_pos (by omega)
  have h6 := lPend_set hi j { s with insts := s.insts.set x (false, .idle) } rfl
  simp only [lPendPhase] at h6
  have hs' : lStep b s (.crash x) = { s with insts := s.insts.set x (false, .idle) } := by
    simp [lStep, hi]
  rw [hs']
  refine ⟨⟨hp, ?_⟩, ?_⟩
  · have h7 : lPend { s with insts := s.insts.set x (false, .idle) } j = 0 := by omega
    exact sum_zero_mem (f := fun (y : Bool × LPhase) => lPendPhase j y.2) _ h7
  · simp only [lInvCount] at h3 ⊢
    omega

/-- the `_invoke_calls` loop, uninterrupted: `todo.length` invoke steps invoke every prepared call
    of the batch, in order, at the current time -/
theorem lInvoke_all (b : Option Nat) (i : Nat) (ids : List Nat) : ∀ (todo : List Nat) (s : LState),
    s.insts[i]? = some (true, .busy ids todo) →
    (lRun b s (List.replicate todo.length (.invoke i))).log = (todo.map fun j => (j, s.clock, i)).reverse ++ s.log ∧
    (lRun b s (List.replicate todo.length (.invoke i))).insts[i]? = some (true, .busy ids []) := by
  intro todo
  induction todo with
  | nil => intro s hi; simp [lRun, hi]
  | cons a t ih =>
    intro s hi
    have hlt : i < s.insts.length := (List.getElem?_eq_some_iff.mp hi).1
    have hstep : lStep b s (.invoke i) =
        { s with log := (a, s.clock, i) :: s.log, insts := s.insts.set i (true, .busy ids t) } := by
      simp [lStep, hi]
    have hi' : ({ s with log := (a, s.clock, i) :: s.log, insts := s.insts.set i (true, .busy ids t) } : LState).insts[i]? =
        some (true, .busy ids t) := List.getElem?_set_self hlt
    obtain ⟨h1, h2⟩ := ih _ hi'
    simp only [List.length_cons, List.replicate_succ, lRun, hstep]
    refine ⟨?_, h2⟩
    rw [h1]
    simp

end Mistral.Sched
