/-
The refinement "engine model ⊑ declarative semantics" along whole histories:
  * `run_sinv`   soundness on every prefix (needs nothing of WP-A's liveness work but `JoinInv`);
  * `run_qinv` + `quiescent_complete`   completeness at quiescence: with nothing pending and the
    workflow not PAUSED the rows are exactly the semantic set and the workflow state is the semantic
    verdict (uses WP-A's liveness invariant through `Lemmas/SemImports.lean`).
-/
import Mistral.Lemmas.SemFrozen
import Mistral.Lemmas.SemImports
import Mistral.Props.C03
namespace Mistral.Sem
open Mistral Mistral.Join Mistral.Engine Mistral.Engine.Live

/-- every on-clause target is a task of the definition (validator) -/
def TargetsKnown (sp : Spec) : Prop :=
  ∀ t ∈ sp.graph.tasks, ∀ x ∈ outNames sp.graph t, knownTask sp x = true

theorem semSpec_of_specOK (sp : Spec) (rk : String → Nat) (h : SpecOK sp rk) : SemSpec sp rk := by
  refine ⟨⟨h.rank, h.fuel⟩, h.joins, ?_⟩
  intro a s x hx
  have ho := Imp.next_outs sp h.live a s x hx
  unfold outsOf at ho
  split at ho
  · rename_i t ht
    have hm : t ∈ sp.graph.tasks := List.mem_of_find?_eq_some ht
    have hn : t.name = a := by simpa using List.find?_some ht
    refine ⟨t, ?_, hn⟩
    unfold inbound
    exact List.mem_filter.mpr ⟨hm, by simpa using ho⟩
  · cases ho

/-- an admissible history from world `w` -/
def admB (sp : Spec) (orc : String → Bool) : World → List Event → Bool
  | _, [] => true
  | w, e :: es => admissibleB orc w e && admB sp orc (step sp w e) es

theorem admissible_lossless (orc : String → Bool) (w : World) (e : Event) (h : admissibleB orc w e = true) :
    lossless e := by
  intro t he
  subst he
  simp [admissibleB, plainB] at h

/-! ### soundness on every prefix -/

theorem sinv_from (sp : Spec) (orc : String → Bool) (rk : String → Nat) (hsp : SemSpec sp rk) (evs : List Event) :
    ∀ (w : World), SInv sp orc w → JoinInv sp w → admB sp orc w evs = true →
      SInv sp orc (evs.foldl (step sp) w) := by
  induction evs with
  | nil => intro w h _ _; exact h
  | cons e es ih =>
    intro w h hji ha
    have ha' : admissibleB orc w e = true ∧ admB sp orc (step sp w e) es = true := by
      simpa [admB] using ha
    exact ih _ (step_sinv sp orc rk hsp w e h hji ha'.1) (Imp.ji_step sp w e hji) ha'.2

theorem run_sinv (sp : Spec) (orc : String → Bool) (rk : String → Nat) (hsp : SemSpec sp rk) (evs : List Event)
    (ha : admB sp orc init evs = true) : SInv sp orc (run sp evs) :=
  sinv_from sp orc rk hsp evs init (sinv_init sp orc) (Imp.ji_init sp) ha

/-! ### the moment the workflow completes -/

/-- the verdict of `check_and_complete` on rows none of which is CANCELLED -/
def verdictOf (ts : List TaskRow) : St :=
  if ts.all (fun t => t.state != .ERROR || t.errorHandled) then .SUCCESS else .ERROR

theorem cac_completed (sp : Spec) (orc : String → Bool) (rk : String → Nat) (hsp : SemSpec sp rk) (w : World)
    (h : SInv sp orc w) (hnc : isCompleted w.wf = false) (hc : isCompleted (checkAndComplete w).wf = true) :
    (∀ r ∈ w.tasks, isCompleted r.state = true) ∧ (checkAndComplete w).wf = verdictOf w.tasks ∧
      isPaused w.wf = false := by
  have hpc : ¬ isPausedOrCompleted w.wf = true := by
    intro hp
    rw [checkAndComplete_inert w hp, hnc] at hc; cases hc
  have hnp : isPaused w.wf = false := by
    cases hp : isPaused w.wf with
    | false => rfl
    | true => exfalso; apply hpc; unfold isPausedOrCompleted; rw [hp]; rfl
  have hany : ¬ (w.tasks.any fun t => !isCompleted t.state) = true := by
    intro ha
    have : checkAndComplete w = w := by unfold checkAndComplete; rw [if_neg hpc, if_pos ha]
    rw [this, hnc] at hc; cases hc
  have hall : ∀ r ∈ w.tasks, isCompleted r.state = true := by
    intro x hx
    have := hany
    rw [List.any_eq_true] at this
    by_cases hcx : isCompleted x.state = true
    · exact hcx
    · exact absurd ⟨x, hx, by simpa using hcx⟩ this
  have hcan : ¬ (w.tasks.any fun t => t.state == St.CANCELLED) = true := by
    intro hcan
    obtain ⟨x, hx, hxs⟩ := List.any_eq_true.mp hcan
    have hxs' : x.state = St.CANCELLED := by simpa using hxs
    rcases rowOK_completed_state sp orc rk hsp x (h.rows x hx) (hall x hx) with h1 | h1 <;>
      (rw [h1] at hxs'; cases hxs')
  refine ⟨hall, ?_, hnp⟩
  unfold checkAndComplete verdictOf
  rw [if_neg hpc, if_neg hany, if_neg hcan]
  by_cases hok : (w.tasks.all fun t => t.state != St.ERROR || t.errorHandled) = true <;> simp [hok]

/-- the whole invariant carried along a history that began with `start` -/
structure QInv (sp : Spec) (orc : String → Bool) (w : World) : Prop where
  s : SInv sp orc w
  live : Imp.LiveInv sp w
  started : StartedWf w.wf
  ne : w.tasks ≠ []
  proc : isCompleted w.wf = true → ∀ r ∈ w.tasks, r.processed = true
  verdict : isCompleted w.wf = true → w.wf = verdictOf w.tasks

theorem started_running (s : St) (hs : StartedWf s) (hnc : isCompleted s = false) (hnp : isPaused s = false) :
    s = .RUNNING := by
  rcases hs with h | h | h | h | h <;> subst h
  · rfl
  · exact absurd hnp (by decide)
  · exact absurd hnc (by decide)
  · exact absurd hnc (by decide)
  · exact absurd hnc (by decide)

/-- the completion check completes the workflow -/
theorem postCheck_completes (sp : Spec) (orc : String → Bool) (rk : String → Nat) (hsp : SemSpec sp rk) (w : World)
    (h : QInv sp orc w) (hnc : isCompleted w.wf = false)
    (hc : isCompleted (step sp w (.deliver .postCheck)).wf = true) :
    (∀ r ∈ (step sp w (.deliver .postCheck)).tasks, r.processed = true) ∧
    (step sp w (.deliver .postCheck)).wf = verdictOf (step sp w (.deliver .postCheck)).tasks := by
  simp only [step] at hc ⊢
  split at hc
  · rw [hnc] at hc; cases hc
  · rename_i hcont
    simp only [hcont, Bool.false_eq_true, if_false]
    have h0 := sinv_pending_sub sp orc w (removeFirst w.pending .postCheck) h.s (fun x hx => mem_removeFirst _ _ _ hx)
    obtain ⟨hall, hv, hnp⟩ := cac_completed sp orc rk hsp _ h0 hnc hc
    rw [checkAndComplete_tasks]
    refine ⟨?_, hv⟩
    have hrun : w.wf = .RUNNING := started_running w.wf h.started hnc hnp
    intro r hr
    exact Imp.live_proc sp w h.live hrun r hr (hall r hr)

/-- `resume` completes the workflow (nothing left to continue) -/
theorem resume_completes (sp : Spec) (orc : String → Bool) (rk : String → Nat) (hsp : SemSpec sp rk) (w : World)
    (h : QInv sp orc w) (hc : isCompleted (step sp w .resume).wf = true) (hnc : isCompleted w.wf = false) :
    (∀ r ∈ (step sp w .resume).tasks, r.processed = true) ∧
    (step sp w .resume).wf = verdictOf (step sp w .resume).tasks := by
  simp only [step] at hc ⊢
  split at hc
  · rw [hnc] at hc; cases hc
  · rename_i hpi
    have hpi' : isPausedOrIdle w.wf = true := by simpa using hpi
    have hrun := resume_running w.wf hpi'
    simp only [hpi, if_false]
    simp only [hrun] at hc ⊢
    have hncr : isCompleted St.RUNNING = false := by decide
    simp only [hncr, Bool.false_eq_true, if_false] at hc ⊢
    have hw2 := sinv_mapRows sp orc w
      (fun t => if isCompleted t.state && !t.processed then { t with processed := true } else t) St.RUNNING h.s
      (by intro r hr
          show RowOK sp orc (if (isCompleted r.state && !r.processed) = true then { r with processed := true } else r)
          split
          · exact hr
          · exact hr) hncr
    split at hc
    · rename_i hcond
      simp only [hcond, if_true]
      obtain ⟨hall, hv, _⟩ := cac_completed sp orc rk hsp _ hw2 hncr hc
      rw [checkAndComplete_tasks]
      refine ⟨?_, hv⟩
      intro r hr
      have hrc := hall r hr
      obtain ⟨y, hy, rfl⟩ := List.mem_map.mp hr
      by_cases hcy : (isCompleted y.state && !y.processed) = true
      · simp only [hcy, if_true]
      · simp only [hcy, Bool.false_eq_true, if_false] at hrc ⊢
        rw [hrc] at hcy
        simpa using hcy
    · exfalso
      rw [dispatch_wf] at hc
      have : isCompleted (dispatch sp _ _).wf = true := hc
      rw [dispatch_wf] at this
      have h2 : isCompleted St.RUNNING = true := this
      exact absurd h2 (by decide)

theorem step_qinv (sp : Spec) (orc : String → Bool) (rk : String → Nat) (hsp : SpecOK sp rk)
    (hstart : startTasks sp ≠ []) (w : World) (e : Event) (h : QInv sp orc w)
    (ha : admissibleB orc w e = true) : QInv sp orc (step sp w e) := by
  have hss := semSpec_of_specOK sp rk hsp
  have hs' := step_sinv sp orc rk hss w e h.s (Imp.live_ji sp w h.live) ha
  have key : (isCompleted (step sp w e).wf = true → ∀ r ∈ (step sp w e).tasks, r.processed = true) ∧
      (isCompleted (step sp w e).wf = true → (step sp w e).wf = verdictOf (step sp w e).tasks) := by
    by_cases hd : isCompleted w.wf = true
    · obtain ⟨ht, hw⟩ := step_frozen sp orc rk hss w e h.s hd ha
      rw [ht, hw]
      exact ⟨fun _ => h.proc hd, fun _ => h.verdict hd⟩
    · have hnc : isCompleted w.wf = false := by simpa using hd
      by_cases hc : isCompleted (step sp w e).wf = true
      · rcases step_wf sp w e with h1 | ⟨_, _, h1⟩ | ⟨_, h1⟩ | ⟨t, h1, _⟩ | ⟨h1, _, _⟩ | ⟨h1, _, _⟩
        · rw [h1, hnc] at hc; cases hc
        · rw [h1] at hc; exact absurd hc (by decide)
        · rw [h1] at hc; rw [pause_completed _ hc] at hnc; cases hnc
        · subst h1; rw [adm_not_stop] at ha; cases ha
        · subst h1
          obtain ⟨h2, h3⟩ := resume_completes sp orc rk hss w h hc hnc
          exact ⟨fun _ => h2, fun _ => h3⟩
        · subst h1
          obtain ⟨h2, h3⟩ := postCheck_completes sp orc rk hss w h hnc hc
          exact ⟨fun _ => h2, fun _ => h3⟩
      · exact ⟨fun h' => absurd h' hc, fun h' => absurd h' hc⟩
  exact ⟨hs', Imp.live_step sp rk hsp hstart w e (admissible_lossless orc w e ha) h.live,
    Props.C03.started_preserved sp w e h.started, step_tasks_ne sp w e h.ne, key.1, key.2⟩

/-! ### the world after `start` -/

theorem dispatchOne_running_ne (sp : Spec) (w : World) (c : Cmd) (hw : w.wf = .RUNNING) :
    (dispatchOne sp w c).tasks ≠ [] := by
  unfold dispatchOne
  have h1 : isCompleted w.wf = false := by rw [hw]; decide
  have h2 : (w.wf == St.PAUSED) = false := by rw [hw]; decide
  simp only [h1, h2, Bool.false_eq_true, if_false]
  split
  · split
    · simp
    · rename_i r hr
      have hrm := (findByName_mem' w _ r hr).1
      have hne : w.tasks ≠ [] := List.ne_nil_of_mem hrm
      simp only
      split
      · intro he
        have hl := congrArg List.length he
        simp only [setTask_length, List.length_nil] at hl
        exact hne (List.eq_nil_of_length_eq_zero hl)
      · exact hne
  · simp

theorem start_qinv (sp : Spec) (orc : String → Bool) (rk : String → Nat) (hsp : SpecOK sp rk)
    (hstart : startTasks sp ≠ []) : QInv sp orc (step sp init .start) := by
  have hss := semSpec_of_specOK sp rk hsp
  have hs' := step_sinv sp orc rk hss init .start (sinv_init sp orc) (Imp.ji_init sp) rfl
  have hl : lossless .start := by intro t he; cases he
  have hlive := Imp.live_step sp rk hsp hstart init .start hl (Imp.live_init sp)
  have hwf : (step sp init .start).wf = .RUNNING := by
    simp only [step, init]
    simp only [bne_self_eq_false, Bool.false_eq_true, if_false]
    rw [dispatch_wf]
  have hnc : ¬ isCompleted (step sp init .start).wf = true := by rw [hwf]; decide
  refine ⟨hs', hlive, Or.inl hwf, ?_, fun h => absurd h hnc, fun h => absurd h hnc⟩
  -- the dispatcher creates the row of the first start task
  simp only [step, init]
  simp only [bne_self_eq_false, Bool.false_eq_true, if_false]
  have hcm : (sp.graph.tasks.filter fun t => (inbound sp.graph t.name).isEmpty).map (·.name) = startTasks sp := rfl
  rw [hcm]
  cases hst : startTasks sp with
  | nil => exact absurd hst hstart
  | cons n ns =>
    simp only [List.map_cons]
    show (dispatch sp (dispatchOne sp _ _) _).tasks ≠ []
    intro he
    have hlen := dispatch_length sp (ns.map fun n => ({ target := n, src := none } : Cmd))
      (dispatchOne sp { wf := .RUNNING, tasks := [], pending := [], backlog := [], crashed := false }
        { target := n, src := none })
    rw [he] at hlen
    have hne := dispatchOne_running_ne sp { wf := .RUNNING, tasks := [], pending := [], backlog := [], crashed := false }
      { target := n, src := none } rfl
    exact hne (List.eq_nil_of_length_eq_zero (by simpa using hlen))

/-- the invariant along every admissible history -/
theorem qinv_from (sp : Spec) (orc : String → Bool) (rk : String → Nat) (hsp : SpecOK sp rk)
    (hstart : startTasks sp ≠ []) (evs : List Event) :
    ∀ (w : World), QInv sp orc w → admB sp orc w evs = true → QInv sp orc (evs.foldl (step sp) w) := by
  induction evs with
  | nil => intro w h _; exact h
  | cons e es ih =>
    intro w h ha
    have ha' : admissibleB orc w e = true ∧ admB sp orc (step sp w e) es = true := by
      simpa [admB] using ha
    exact ih _ (step_qinv sp orc rk hsp hstart w e h ha'.1) ha'.2

theorem run_qinv (sp : Spec) (orc : String → Bool) (rk : String → Nat) (hsp : SpecOK sp rk)
    (hstart : startTasks sp ≠ []) (evs : List Event)
    (ha : admB sp orc init (.start :: evs) = true) : QInv sp orc (run sp (.start :: evs)) := by
  have ha' : admB sp orc (step sp init .start) evs = true := by
    have : admissibleB orc init .start = true ∧ admB sp orc (step sp init .start) evs = true := by
      simpa [admB] using ha
    exact this.2
  show QInv sp orc (evs.foldl (step sp) (step sp init .start))
  exact qinv_from sp orc rk hsp hstart evs _ (start_qinv sp orc rk hsp hstart) ha'

/-! ### completeness at quiescence -/

theorem knownTask_mem (sp : Spec) (n : String) (h : knownTask sp n = true) : ∃ t ∈ sp.graph.tasks, t.name = n := by
  unfold knownTask at h
  rw [List.find?_isSome] at h
  obtain ⟨t, ht, hn⟩ := h
  exact ⟨t, ht, by simpa using hn⟩

/-- a task of the semantic set is a task of the definition -/
theorem sem_known (sp : Spec) (orc : String → Bool) (rk : String → Nat) (ha : Acyclic sp rk) (htk : TargetsKnown sp)
    (n : String) (h : sem sp orc n ≠ none) : knownTask sp n = true := by
  rcases sem_some_cases sp orc rk ha n h with ⟨_, hk⟩ | ⟨_, p, hp, _⟩
  · exact hk
  · unfold inbound at hp
    have := List.mem_filter.mp hp
    exact htk p this.1 n (by simpa using this.2)

theorem findByName_exists (w : World) (n : String) (h : findByName w n ≠ none) : ∃ r ∈ w.tasks, r.name = n := by
  cases hf : findByName w n with
  | none => exact absurd hf h
  | some r => exact ⟨r, (findByName_mem' w n r hf).1, (findByName_mem' w n r hf).2⟩

/-- with the workflow completed every task of the semantic set has a row -/
theorem complete_rows (sp : Spec) (orc : String → Bool) (rk : String → Nat) (hsp : SpecOK sp rk) (w : World)
    (h : QInv sp orc w) (hd : isCompleted w.wf = true) :
    ∀ (k : Nat) (n : String), rk n < k → sem sp orc n ≠ none → ∃ r ∈ w.tasks, r.name = n := by
  have hss := semSpec_of_specOK sp rk hsp
  intro k
  induction k with
  | zero => intro n hk; omega
  | succ k ih =>
    intro n hk hn
    rcases sem_some_cases sp orc rk hss.acyc n hn with ⟨hin, hkn⟩ | ⟨_, p, hp, hr⟩
    · obtain ⟨t, ht, htn⟩ := knownTask_mem sp n hkn
      have := Imp.live_starts sp w h.live h.ne t ht (by rw [htn]; exact hin)
      rw [htn] at this
      exact findByName_exists w n this
    · have hrk := hsp.rank n p hp
      unfold router routesB at hr
      cases hps : sem sp orc p.name with
      | none => rw [hps] at hr; cases hr
      | some s =>
        rw [hps] at hr
        simp only at hr
        obtain ⟨a, ha, han⟩ := ih p.name (by omega) (by rw [hps]; simp)
        have hac := h.s.done hd a ha
        obtain ⟨h1, h2⟩ := (h.s.rows a ha).2.1 hac
        rw [han, hps] at h1
        have hs : s = a.state := by simpa using h1
        obtain ⟨x, hx, hxn⟩ := List.any_eq_true.mp hr
        have hxn' : x.1 = n := by simpa using hxn
        have hxa : x ∈ a.nextTasks := by rw [h2, han, ← hs]; exact hx
        have := Imp.live_routes sp w h.live a ha hac (h.proc hd a ha) x hxa
        rw [hxn'] at this
        exact findByName_exists w n this

theorem mem_semRows (sp : Spec) (orc : String → Bool) (x : SRow) :
    x ∈ semRows sp orc ↔ ∃ t ∈ sp.graph.tasks, ∃ s, sem sp orc t.name = some s ∧ x = (t.name, s, nextOf sp t.name s) := by
  unfold semRows
  rw [List.mem_filterMap]
  constructor
  · rintro ⟨t, ht, hx⟩
    cases hs : sem sp orc t.name with
    | none => rw [hs] at hx; cases hx
    | some s => rw [hs] at hx; exact ⟨t, ht, s, hs, by simpa using hx.symm⟩
  · rintro ⟨t, ht, s, hs, rfl⟩
    exact ⟨t, ht, by rw [hs]; rfl⟩

/-- COMPLETENESS AT QUIESCENCE (world level): nothing pending, not PAUSED ⇒ the workflow is
    completed, its state is the semantic verdict and its rows are exactly the semantic set -/
theorem quiescent_complete (sp : Spec) (orc : String → Bool) (rk : String → Nat) (hsp : SpecOK sp rk)
    (htk : TargetsKnown sp) (w : World) (h : QInv sp orc w) (hq : w.pending = []) (hnp : w.wf ≠ .PAUSED) :
    isCompleted w.wf = true ∧ w.wf = semVerdict sp orc ∧
      ∀ x : SRow, x ∈ w.tasks.map rowTriple ↔ x ∈ semRows sp orc := by
  have hss := semSpec_of_specOK sp rk hsp
  have hd : isCompleted w.wf = true := by
    rcases h.started with h1 | h1 | h1 | h1 | h1
    · exact absurd hq (Imp.not_stuck sp rk hsp w h.live h1)
    · exact absurd h1 hnp
    · rw [h1]; decide
    · rw [h1]; decide
    · rw [h1]; decide
  have hrows : ∀ x : SRow, x ∈ w.tasks.map rowTriple ↔ x ∈ semRows sp orc := by
    intro x
    rw [mem_semRows]
    constructor
    · intro hx
      obtain ⟨r, hr, rfl⟩ := List.mem_map.mp hx
      have hrc := h.s.done hd r hr
      have hrow := h.s.rows r hr
      obtain ⟨h1, h2⟩ := hrow.2.1 hrc
      obtain ⟨t, ht, htn⟩ := knownTask_mem sp r.name (sem_known sp orc rk hss.acyc htk r.name hrow.1)
      refine ⟨t, ht, r.state, by rw [htn]; exact h1, ?_⟩
      unfold rowTriple
      rw [htn, ← h2]
    · rintro ⟨t, ht, s, hs, rfl⟩
      obtain ⟨r, hr, hrn⟩ := complete_rows sp orc rk hsp w h hd (rk t.name + 1) t.name (by omega) (by rw [hs]; simp)
      have hrc := h.s.done hd r hr
      obtain ⟨h1, h2⟩ := (h.s.rows r hr).2.1 hrc
      apply List.mem_map.mpr
      refine ⟨r, hr, ?_⟩
      unfold rowTriple
      rw [hrn] at h1 h2
      rw [hs] at h1
      have : s = r.state := by simpa using h1
      rw [hrn, h2, ← this]
  refine ⟨hd, ?_, hrows⟩
  rw [h.verdict hd]
  unfold verdictOf semVerdict
  have hiff : (w.tasks.all fun t => t.state != .ERROR || t.errorHandled) = (semRows sp orc).all handled := by
    rw [Bool.eq_iff_iff, List.all_eq_true, List.all_eq_true]
    constructor
    · intro hall x hx
      obtain ⟨r, hr, hxr⟩ := List.mem_map.mp ((hrows x).mpr hx)
      have := hall r hr
      subst hxr
      unfold handled rowTriple
      simp only
      by_cases he : r.state = .ERROR
      · have heh := (h.s.rows r hr).2.2 he
        rw [he] at this ⊢
        simp only [bne_self_eq_false, Bool.false_or] at this ⊢
        rw [← heh]; exact this
      · simp [he]
    · intro hall r hr
      have hx : rowTriple r ∈ semRows sp orc := (hrows _).mp (List.mem_map.mpr ⟨r, hr, rfl⟩)
      have := hall _ hx
      unfold handled rowTriple at this
      simp only at this
      by_cases he : r.state = .ERROR
      · have heh := (h.s.rows r hr).2.2 he
        rw [he] at this ⊢
        simp only [bne_self_eq_false, Bool.false_or] at this ⊢
        rw [heh]; exact this
      · simp [he]
  rw [hiff]

/-- number of execution rows per task at quiescence: none for a task outside the semantic set, at
    least one for a task of the semantic set, EXACTLY ONE for a join of the semantic set -/
theorem quiescent_row_counts (sp : Spec) (orc : String → Bool) (rk : String → Nat) (hsp : SpecOK sp rk)
    (w : World) (h : QInv sp orc w) (hq : w.pending = []) (hnp : w.wf ≠ .PAUSED) (n : String) :
    (sem sp orc n = none → countL w.tasks n = 0) ∧
    (sem sp orc n ≠ none → 1 ≤ countL w.tasks n) ∧
    ((isJoin sp n).isSome = true → sem sp orc n ≠ none → countL w.tasks n = 1) := by
  have hd : isCompleted w.wf = true := by
    rcases h.started with h1 | h1 | h1 | h1 | h1
    · exact absurd hq (Imp.not_stuck sp rk hsp w h.live h1)
    · exact absurd h1 hnp
    · rw [h1]; decide
    · rw [h1]; decide
    · rw [h1]; decide
  have hge : sem sp orc n ≠ none → 1 ≤ countL w.tasks n := by
    intro hs
    obtain ⟨r, hr, hrn⟩ := complete_rows sp orc rk hsp w h hd (rk n + 1) n (by omega) hs
    unfold countL
    have : r ∈ w.tasks.filter (·.name == n) := List.mem_filter.mpr ⟨hr, by simp [hrn]⟩
    exact List.length_pos_of_mem this
  refine ⟨?_, hge, ?_⟩
  · intro hs
    unfold countL
    rw [List.length_eq_zero_iff, List.filter_eq_nil_iff]
    intro r hr hrn
    have hrn' : r.name = n := by simpa using hrn
    have := (h.s.rows r hr).1
    rw [hrn'] at this
    exact this hs
  · intro hj hs
    have := Imp.live_jru sp w h.live n hj
    have := hge hs
    omega

end Mistral.Sem
