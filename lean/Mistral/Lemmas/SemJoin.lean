/-
The verdicts of the join logic (`_get_join_logical_state`, `_possible_route`) are sound w.r.t. the
declarative semantics: on rows that are themselves sound, a RUNNING verdict is given only to a join
whose required number of routers is reached, an ERROR verdict only to a join for which it can no
longer be reached; an "impossible route" is the route to a task that never runs.
-/
import Mistral.Lemmas.SemBasic
import Mistral.Props.C04
namespace Mistral.Sem
open Mistral Mistral.Join Mistral.Engine

/-- soundness of the rows the join logic reads -/
def RowsSound (sp : Spec) (orc : String → Bool) (rows : List Row) : Prop :=
  ∀ r ∈ rows, isCompleted r.state = true →
    sem sp orc r.name = some r.state ∧ r.nextTasks = nextOf sp r.name r.state

theorem findRow_some (rows : List Row) (n : String) (r : Row) (h : findRow rows n = some r) :
    r ∈ rows ∧ r.name = n := by
  unfold findRow at h
  have hm : r ∈ rows.filter (·.name == n) := List.mem_of_getLast? h
  have := List.mem_filter.mp hm
  exact ⟨this.1, by simpa using this.2⟩

theorem routed_router (sp : Spec) (orc : String → Bool) (rows : List Row) (hs : RowsSound sp orc rows)
    (j : String) (t : TaskG) (h : routedTo rows j t = true) : router sp orc j t = true := by
  unfold routedTo at h
  split at h
  · rename_i r hr
    obtain ⟨hm, hn⟩ := findRow_some rows t.name r hr
    have hc : isCompleted r.state = true ∧ routesTo r j = true := by simpa using h
    obtain ⟨h1, h2⟩ := hs r hm hc.1
    unfold router
    rw [← hn, h1]
    unfold routesB
    simp only
    rw [← h2]
    exact hc.2
  · cases h

theorem possibleRoute_false_sem_none (sp : Spec) (orc : String → Bool) (rk : String → Nat) (ha : Acyclic sp rk)
    (rows : List Row) (hs : RowsSound sp orc rows) :
    ∀ (fuel : Nat) (n : String) (d d' : Nat),
      possibleRoute sp.graph rows fuel n d = some (false, d') → sem sp orc n = none := by
  intro fuel
  induction fuel with
  | zero => intro n d d' h; simp [possibleRoute] at h
  | succ f ih =>
    intro n d d' h
    unfold possibleRoute at h
    simp only at h
    split at h
    · cases h
    · rename_i hne
      have hne' : (inbound sp.graph n).isEmpty = false := by simpa using hne
      apply sem_none_of_no_router sp orc rk ha n hne'
      have hl : ∀ (l : List TaskG) (d d' : Nat),
          possibleRoute.loop sp.graph rows f n l d = some (false, d') → ∀ p ∈ l, router sp orc n p = false := by
        intro l
        induction l with
        | nil => intro d d' _ p hp; cases hp
        | cons q qs ihl =>
          intro d d' hq p hp
          unfold possibleRoute.loop at hq
          split at hq
          · rename_i hfr
            split at hq
            · cases hq
            · cases hq
            · rename_i d1 hpr
              rcases List.mem_cons.mp hp with rfl | hp'
              · unfold router
                rw [ih _ _ _ hpr]
                rfl
              · exact ihl _ _ hq p hp'
          · rename_i r hfr
            split at hq
            · cases hq
            · split at hq
              · cases hq
              · rename_i hcomp hrt
                rcases List.mem_cons.mp hp with rfl | hp'
                · obtain ⟨hm, hn⟩ := findRow_some rows _ r hfr
                  have hc : isCompleted r.state = true := by simpa using hcomp
                  obtain ⟨h1, h2⟩ := hs r hm hc
                  unfold router
                  rw [← hn, h1]
                  unfold routesB
                  simp only
                  rw [← h2]
                  have hf : routesTo r n = false := by simpa using hrt
                  exact hf
                · exact ihl _ _ hq p hp'
      exact hl _ d d' h

theorem dead_not_router (sp : Spec) (orc : String → Bool) (rk : String → Nat) (ha : Acyclic sp rk)
    (rows : List Row) (hs : RowsSound sp orc rows) (fuel : Nat)
    (j : String) (t : TaskG) (h : deadFor sp.graph rows fuel j t = true) : router sp orc j t = false := by
  unfold deadFor at h
  split at h
  · rename_i r hr
    obtain ⟨hm, hn⟩ := findRow_some rows t.name r hr
    have hc : isCompleted r.state = true ∧ routesTo r j = false := by simpa using h
    obtain ⟨h1, h2⟩ := hs r hm hc.1
    unfold router
    rw [← hn, h1]
    unfold routesB
    simp only
    rw [← h2]
    exact hc.2
  · split at h
    · rename_i d' hpr
      unfold router
      rw [possibleRoute_false_sem_none sp orc rk ha rows hs _ _ _ _ hpr]
      rfl
    · cases h

/-! counting -/

theorem filter_length_mono {α} (l : List α) (p q : α → Bool) (h : ∀ x ∈ l, p x = true → q x = true) :
    (l.filter p).length ≤ (l.filter q).length := by
  induction l with
  | nil => simp
  | cons a l ih =>
    have ih' := ih (fun x hx => h x (List.mem_cons_of_mem _ hx))
    have ha := h a List.mem_cons_self
    by_cases hp : p a = true
    · simp [hp, ha hp]; exact ih'
    · by_cases hq : q a = true
      · simp [hp, hq]; omega
      · simp [hp, hq]; exact ih'

theorem filter_length_disj {α} (l : List α) (q d : α → Bool) (h : ∀ x ∈ l, d x = true → q x = false) :
    (l.filter q).length + (l.filter d).length ≤ l.length := by
  induction l with
  | nil => simp
  | cons a l ih =>
    have ih' := ih (fun x hx => h x (List.mem_cons_of_mem _ hx))
    have ha := h a List.mem_cons_self
    by_cases hd : d a = true
    · simp [hd, ha hd]; omega
    · by_cases hq : q a = true
      · simp [hd, hq]; omega
      · simp [hd, hq]; omega

theorem routed_le_routers (sp : Spec) (orc : String → Bool) (rows : List Row) (hs : RowsSound sp orc rows) (j : String) :
    Props.C04.routedCount sp.graph rows j ≤ (routers sp orc j).length :=
  filter_length_mono _ _ _ (fun t _ h => routed_router sp orc rows hs j t h)

theorem routers_dead_le (sp : Spec) (orc : String → Bool) (rk : String → Nat) (ha : Acyclic sp rk)
    (rows : List Row) (hs : RowsSound sp orc rows) (fuel : Nat) (j : String) :
    (routers sp orc j).length + Props.C04.deadCount sp.graph rows fuel j ≤ (inbound sp.graph j).length :=
  filter_length_disj _ _ _ (fun t _ h => dead_not_router sp orc rk ha rows hs fuel j t h)

/-- `isJoin` reads the join kind of the task of that name -/
theorem isJoin_task (sp : Spec) (j : String) (k : JoinKind) (h : isJoin sp j = some k) :
    ∃ t ∈ sp.graph.tasks, t.name = j ∧ t.join = some k := by
  unfold isJoin at h
  split at h
  · rename_i t ht
    exact ⟨t, List.mem_of_find?_eq_some ht, by simpa using List.find?_some ht, h⟩
  · cases h

/-- `join: N` asks for at most the number of inbound tasks (validator) -/
def JoinsSat (sp : Spec) : Prop :=
  ∀ t ∈ sp.graph.tasks, ∀ n, t.join = some (.count n) → n ≤ (inbound sp.graph t.name).length

/-- a RUNNING verdict is sound: the join executes its action -/
theorem join_running_sound (sp : Spec) (orc : String → Bool) (rk : String → Nat) (ha : Acyclic sp rk)
    (hjs : JoinsSat sp) (rows : List Row) (hs : RowsSound sp orc rows) (fuel : Nat) (j : String) (k : JoinKind)
    (hk : isJoin sp j = some k) (hsem : sem sp orc j ≠ none) (L : Logical)
    (h : joinLogicalState sp.graph rows fuel j k = some L) (hL : L.state = .RUNNING) :
    sem sp orc j = some (res orc j) := by
  apply sem_join_run sp orc rk ha j k hk hsem
  obtain ⟨t, ht, htn, htj⟩ := isJoin_task sp j k hk
  by_cases hne : (inbound sp.graph j).isEmpty = true
  · have hl : (inbound sp.graph j).length = 0 := by
      cases hi : inbound sp.graph j with
      | nil => rfl
      | cons a l => rw [hi] at hne; cases hne
    cases k with
    | all => simp [need, hl]
    | count n =>
      have := hjs t ht n htj
      rw [htn, hl] at this
      simp only [need]; omega
  · have hne' : (inbound sp.graph j).isEmpty = false := by simpa using hne
    have hle := routed_le_routers sp orc rows hs j
    cases k with
    | all =>
      have := (Props.C04.join_running_iff_all sp.graph rows fuel j L hne' h).mp hL
      simp only [need]; omega
    | count n =>
      have := (Props.C04.join_running_iff_count sp.graph rows fuel j n L hne' h).mp hL
      simp only [need]; omega

/-- an ERROR verdict is sound: the required number of routers can not be reached -/
theorem join_error_sound (sp : Spec) (orc : String → Bool) (rk : String → Nat) (ha : Acyclic sp rk)
    (hjs : JoinsSat sp) (rows : List Row) (hs : RowsSound sp orc rows) (fuel : Nat) (j : String) (k : JoinKind)
    (hk : isJoin sp j = some k) (hsem : sem sp orc j ≠ none) (L : Logical)
    (h : joinLogicalState sp.graph rows fuel j k = some L) (hL : L.state = .ERROR) :
    sem sp orc j = some .ERROR := by
  obtain ⟨t, ht, htn, htj⟩ := isJoin_task sp j k hk
  by_cases hne : (inbound sp.graph j).isEmpty = true
  · have := Props.C04.join_no_inbound_runs sp.graph rows fuel j k hne
    rw [h] at this
    simp only [Option.map_some, Option.some.injEq] at this
    rw [hL] at this; cases this
  · have hne' : (inbound sp.graph j).isEmpty = false := by simpa using hne
    apply sem_join_err sp orc rk ha j k hk hsem hne'
    have hd := routers_dead_le sp orc rk ha rows hs fuel j
    cases k with
    | all =>
      have := (Props.C04.join_error_iff_all sp.graph rows fuel j L hne' h).mp hL
      simp only [need]; omega
    | count n =>
      have hn := hjs t ht n htj
      rw [htn] at hn
      have := (Props.C04.join_error_iff_count sp.graph rows fuel j n L hne' hn h).mp hL
      simp only [need]; omega

end Mistral.Sem
