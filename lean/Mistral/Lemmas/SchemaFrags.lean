/- Shape facts of the GENERATED schema fragments (Gen/LangSchemas.lean: the named constants of
   mistral/lang/types.py, mistral/lang/v2/on_clause.py and the anonymous property schemas): what a
   value that a fragment accepts looks like.  Helper lemmas of Props/C14Schema.lean; they are
   re-checked on every run against the regenerated fragments. -/
import Mistral.Lemmas.Schema
import Mistral.Gen.LangSchemas
open Mistral.Gen.LangSchemas
namespace Mistral.Schema

/-! ## shapes (what the constructors of the spec classes rely on) -/

/-- python: `isinstance(v, str) and len(v) >= 1` -/
def NonEmptyStr (j : JVal) : Prop := ∃ s, j = .str s ∧ 1 ≤ s.length
def IsStr (j : JVal) : Prop := ∃ s, j = .str s
def IsBool (j : JVal) : Prop := ∃ b, j = .bool b
/-- an int >= 0, or a float with an integral value >= 0; never a bool. -/
def NonNegInt (j : JVal) : Prop := (∃ i, j = .int i ∧ 0 ≤ i) ∨ (∃ n, j = .flt (.fin n 1) ∧ 0 ≤ n)
/-- a non-empty dict all of whose keys are strings. -/
def StrKeyDict (j : JVal) : Prop := ∃ kvs, j = .obj kvs ∧ kvs ≠ [] ∧ ∀ kv ∈ kvs, ∃ name, kv.1 = .s name
/-- a non-empty list of non-empty strings. -/
def NonEmptyStrList (j : JVal) : Prop := ∃ xs, j = .arr xs ∧ xs ≠ [] ∧ ∀ x ∈ xs, NonEmptyStr x
/-- a dict with exactly one key, a string. -/
def OneKeyDict (j : JVal) : Prop := ∃ k v, j = .obj [(.s k, v)]
/-- `input` of a workflow / action: non-empty list of parameter names and `{name: default}` dicts. -/
def InputList (j : JVal) : Prop := ∃ xs, j = .arr xs ∧ xs ≠ [] ∧ ∀ x ∈ xs, NonEmptyStr x ∨ OneKeyDict x
/-- a non-empty list of task references: strings and one-key `{task: guard}` dicts. -/
def TaskList (j : JVal) : Prop := ∃ xs, j = .arr xs ∧ xs ≠ [] ∧ ∀ x ∈ xs, IsStr x ∨ OneKeyDict x
/-- the three forms of a `next` clause `prepare_next_clause` / `_as_list_of_tuples` handle. -/
def NextShape (j : JVal) : Prop := IsStr j ∨ OneKeyDict j ∨ TaskList j
/-- every key is one of the listed strings. -/
def KeysIn (names : List String) (kvs : List (Key × JVal)) : Prop :=
  ∀ kv ∈ kvs, ∃ name, kv.1 = .s name ∧ name ∈ names
/-- `PublishSpec`: a dict with keys among branch / global / atomic (and the meta keys), the three
    being non-empty string-keyed dicts. -/
def PublishShape (j : JVal) : Prop := ∃ kvs, j = .obj kvs ∧
  KeysIn ["branch", "global", "atomic", "name", "version", "description", "tags"] kvs ∧
  ∀ k ∈ ["branch", "global", "atomic"], ∀ v, lookup k kvs = some v → StrKeyDict v
/-- the advanced on-clause `{publish: …, next: …}`. -/
def AdvancedClause (j : JVal) : Prop := ∃ kvs, j = .obj kvs ∧ kvs ≠ [] ∧ KeysIn ["publish", "next"] kvs ∧
  (∀ n, lookup "next" kvs = some n → NextShape n) ∧ (∀ p, lookup "publish" kvs = some p → PublishShape p)
/-- the forms of an on-clause: exactly what `OnClauseSpec.__init__` distinguishes. -/
def OnClauseShape (j : JVal) : Prop := IsStr j ∨ OneKeyDict j ∨ TaskList j ∨ AdvancedClause j
/-- expression string or non-negative integer (`wait-before`, `timeout`, `concurrency`, retry count / delay). -/
def ExprOrNat (j : JVal) : Prop := IsStr j ∨ NonNegInt j
def ExprOrBool (j : JVal) : Prop := IsStr j ∨ IsBool j
/-- `retry` as a dict. -/
def RetryDict (j : JVal) : Prop := ∃ kvs, j = .obj kvs ∧
  KeysIn ["count", "break-on", "continue-on", "delay"] kvs ∧
  (∃ d, lookup "delay" kvs = some d ∧ ExprOrNat d) ∧ (∃ c, lookup "count" kvs = some c ∧ ExprOrNat c) ∧
  (∀ v, lookup "break-on" kvs = some v → IsStr v) ∧ (∀ v, lookup "continue-on" kvs = some v → IsStr v)
/-- `retry`: the dict form, or the one-line string form `count=3 delay=1`. -/
def RetryShape (j : JVal) : Prop := RetryDict j ∨ NonEmptyStr j
/-- the `tasks` section: a non-empty dict, every key a string, every value a non-empty string-keyed
    dict (so `task['type'] = …`, `v['name'] = k` cannot fail). -/
def TasksShape (j : JVal) : Prop := ∃ kvs, j = .obj kvs ∧ kvs ≠ [] ∧
  ∀ kv ∈ kvs, (∃ name, kv.1 = .s name) ∧ StrKeyDict kv.2
/-- `join`: "all", "one", or a non-negative integer. -/
def JoinShape (j : JVal) : Prop := j = .str "all" ∨ j = .str "one" ∨ NonNegInt j
/-- a number (int / float, not bool) that is not below zero. -/
def NonNegNum (j : JVal) : Prop := ∃ v, j.num? = some v ∧ v.lt (.q 0 1) = false

/-- open an accepted schema into the conjunction of its keywords. -/
macro "open_schema" h:ident : tactic =>
  `(tactic| (rw [accepts_mk] at $h:ident
             simp only [List.all_cons, List.all_nil, Bool.and_true, Bool.and_eq_true] at $h:ident))

theorem type_object {j : JVal} (h : (validateKw (.type [.object]) j).clean = true) : ∃ kvs, j = .obj kvs := by
  cases j <;> simp_all [validateKw, isType]

theorem type_array {j : JVal} (h : (validateKw (.type [.array]) j).clean = true) : ∃ xs, j = .arr xs := by
  cases j <;> simp_all [validateKw, isType]

theorem type_string {j : JVal} (h : (validateKw (.type [.string]) j).clean = true) : ∃ s, j = .str s := by
  cases j <;> simp_all [validateKw, isType]

theorem minProperties_one {kvs : List (Key × JVal)} (h : (validateKw (.minProperties 1) (.obj kvs)).clean = true) :
    kvs ≠ [] := by
  cases kvs <;> simp_all [validateKw]

theorem minItems_one {xs : List JVal} (h : (validateKw (.minItems 1) (.arr xs)).clean = true) : xs ≠ [] := by
  cases xs <;> simp_all [validateKw]

theorem enum_str {s : String} {j : JVal} (h : equal (.str s) j = true) : j = .str s := by
  cases j <;> simp_all [equal]

/-! ## mistral/lang/types.py -/

theorem frag_NONEMPTY_STRING {j : JVal} (h : accepts NONEMPTY_STRING j = true) : NonEmptyStr j := by
  unfold NONEMPTY_STRING at h
  open_schema h
  cases j <;> simp_all [validateKw, isType, NonEmptyStr]

theorem frag_POSITIVE_INTEGER {j : JVal} (h : accepts POSITIVE_INTEGER j = true) : NonNegInt j := by
  unfold POSITIVE_INTEGER at h
  open_schema h
  cases j with
  | int i => simp_all [validateKw, isType, NonNegInt, numLt, JVal.num?, NumV.lt]
  | flt f =>
    cases f with
    | fin n d => simp_all [validateKw, isType, NonNegInt, numLt, JVal.num?, NumV.lt, Flt.toNumV]
    | _ => simp_all [validateKw, isType]
  | _ => simp_all [validateKw, isType]

theorem frag_POSITIVE_NUMBER {j : JVal} (h : accepts POSITIVE_NUMBER j = true) : NonNegNum j := by
  unfold POSITIVE_NUMBER at h
  open_schema h
  cases j with
  | int i => simp_all [validateKw, isType, NonNegNum, numLt, JVal.num?]
  | flt f => simp_all [validateKw, isType, NonNegNum, numLt, JVal.num?]
  | _ => simp_all [validateKw, isType]

theorem frag_EXPRESSION {j : JVal} (h : accepts EXPRESSION j = true) : IsStr j := by
  unfold EXPRESSION at h
  open_schema h
  simp only [validateKw] at h
  obtain ⟨s, hs, ha⟩ := oneOf_some h
  simp only [List.mem_cons, List.mem_nil_iff, or_false] at hs
  rcases hs with rfl | rfl <;>
  · open_schema ha
    exact type_string ha.1

theorem frag_EXPRESSION_OR_POSITIVE_INTEGER {j : JVal} (h : accepts EXPRESSION_OR_POSITIVE_INTEGER j = true) :
    ExprOrNat j := by
  unfold EXPRESSION_OR_POSITIVE_INTEGER at h
  open_schema h
  simp only [validateKw] at h
  obtain ⟨s, hs, ha⟩ := oneOf_some h
  simp only [List.mem_cons, List.mem_nil_iff, or_false] at hs
  rcases hs with rfl | rfl
  · exact .inl (frag_EXPRESSION ha)
  · exact .inr (frag_POSITIVE_INTEGER ha)

theorem frag_EXPRESSION_OR_BOOLEAN {j : JVal} (h : accepts EXPRESSION_OR_BOOLEAN j = true) : ExprOrBool j := by
  unfold EXPRESSION_OR_BOOLEAN at h
  open_schema h
  simp only [validateKw] at h
  obtain ⟨s, hs, ha⟩ := oneOf_some h
  simp only [List.mem_cons, List.mem_nil_iff, or_false] at hs
  rcases hs with rfl | rfl
  · exact .inl (frag_EXPRESSION ha)
  · open_schema ha
    right
    cases j <;> simp_all [validateKw, isType, IsBool]

theorem frag_NONEMPTY_DICT {j : JVal} (h : accepts NONEMPTY_DICT j = true) : StrKeyDict j := by
  unfold NONEMPTY_DICT at h
  open_schema h
  obtain ⟨ht, hm, hp⟩ := h
  obtain ⟨kvs, rfl⟩ := type_object ht
  exact ⟨kvs, rfl, minProperties_one hm, fun kv hkv => patternProperties_keys hp hkv⟩

theorem frag_ONE_KEY_DICT {j : JVal} (h : accepts ONE_KEY_DICT j = true) : OneKeyDict j := by
  unfold ONE_KEY_DICT at h
  open_schema h
  obtain ⟨ht, hm, hM, hp⟩ := h
  obtain ⟨kvs, rfl⟩ := type_object ht
  match kvs, hm, hM, hp with
  | [], hm, _, _ => simp [validateKw] at hm
  | [(k, v)], _, _, hp =>
    obtain ⟨name, hn⟩ := patternProperties_keys hp (List.mem_cons_self ..)
    simp only at hn
    subst hn
    exact ⟨name, v, rfl⟩
  | _ :: _ :: _, _, hM, _ => simp [validateKw] at hM

theorem frag_STRING_OR_ONE_KEY_DICT {j : JVal} (h : accepts STRING_OR_ONE_KEY_DICT j = true) :
    NonEmptyStr j ∨ OneKeyDict j := by
  unfold STRING_OR_ONE_KEY_DICT at h
  open_schema h
  simp only [validateKw] at h
  obtain ⟨s, hs, ha⟩ := oneOf_some h
  simp only [List.mem_cons, List.mem_nil_iff, or_false] at hs
  rcases hs with rfl | rfl
  · exact .inl (frag_NONEMPTY_STRING ha)
  · exact .inr (frag_ONE_KEY_DICT ha)

theorem frag_UNIQUE_STRING_OR_ONE_KEY_DICT_LIST {j : JVal}
    (h : accepts UNIQUE_STRING_OR_ONE_KEY_DICT_LIST j = true) : InputList j := by
  unfold UNIQUE_STRING_OR_ONE_KEY_DICT_LIST at h
  open_schema h
  obtain ⟨ht, hi, _, hm⟩ := h
  obtain ⟨xs, rfl⟩ := type_array ht
  exact ⟨xs, rfl, minItems_one hm, fun x hx => frag_STRING_OR_ONE_KEY_DICT (items_sub hi hx)⟩

theorem frag_UNIQUE_STRING_LIST {j : JVal} (h : accepts UNIQUE_STRING_LIST j = true) : NonEmptyStrList j := by
  unfold UNIQUE_STRING_LIST at h
  open_schema h
  obtain ⟨ht, hi, _, hm⟩ := h
  obtain ⟨xs, rfl⟩ := type_array ht
  exact ⟨xs, rfl, minItems_one hm, fun x hx => frag_NONEMPTY_STRING (items_sub hi hx)⟩

theorem frag_WORKFLOW_TYPE {j : JVal} (h : accepts WORKFLOW_TYPE j = true) :
    j = .str "reverse" ∨ j = .str "direct" := by
  unfold WORKFLOW_TYPE at h
  open_schema h
  simp only [validateKw, Out.clean_check, List.any_cons, List.any_nil, Bool.or_false, Bool.or_eq_true] at h
  rcases h with h | h
  · exact .inl (enum_str h)
  · exact .inr (enum_str h)

theorem frag_VERSION {j : JVal} (h : accepts VERSION j = true) : NonEmptyStr j ∨ NonNegNum j := by
  unfold VERSION at h
  open_schema h
  simp only [validateKw] at h
  obtain ⟨s, hs, ha⟩ := anyOf_some h
  simp only [List.mem_cons, List.mem_nil_iff, or_false] at hs
  rcases hs with rfl | rfl | rfl
  · exact .inl (frag_NONEMPTY_STRING ha)
  · right
    rcases frag_POSITIVE_INTEGER ha with ⟨i, rfl, hi⟩ | ⟨n, rfl, hn⟩
    · exact ⟨_, rfl, by simp [NumV.lt]; omega⟩
    · exact ⟨_, rfl, by simp [Flt.toNumV, NumV.lt]; omega⟩
  · exact .inr (frag_POSITIVE_NUMBER ha)

/-! ## anonymous property schemas -/

theorem frag_P_tasks {j : JVal} (h : accepts P_tasks j = true) : TasksShape j := by
  unfold P_tasks at h
  open_schema h
  obtain ⟨ht, hm, hp, ha⟩ := h
  obtain ⟨kvs, rfl⟩ := type_object ht
  refine ⟨kvs, rfl, minProperties_one hm, fun kv hkv => ?_⟩
  obtain ⟨name, hn⟩ := patternProperties_keys hp hkv
  refine ⟨⟨name, hn⟩, ?_⟩
  obtain ⟨k, v⟩ := kv
  simp only at hn
  subst hn
  by_cases hw : re_word.search name = true
  · exact frag_NONEMPTY_DICT (patternProperties_sub hp (List.mem_cons_self ..) hkv hw)
  · rcases additionalProperties_sub ha hkv with ⟨name', hk, hc⟩ | hacc
    · simp only [Key.s.injEq] at hk
      subst hk
      simp [hw] at hc
    · exact frag_NONEMPTY_DICT hacc

theorem frag_P_join {j : JVal} (h : accepts P_join j = true) : JoinShape j := by
  unfold P_join at h
  open_schema h
  simp only [validateKw] at h
  obtain ⟨s, hs, ha⟩ := oneOf_some h
  simp only [List.mem_cons, List.mem_nil_iff, or_false] at hs
  rcases hs with rfl | rfl
  · open_schema ha
    simp only [validateKw, Out.clean_check, List.any_cons, List.any_nil, Bool.or_false, Bool.or_eq_true] at ha
    rcases ha with ha | ha
    · exact .inl (enum_str ha)
    · exact .inr (.inl (enum_str ha))
  · exact .inr (.inr (frag_POSITIVE_INTEGER ha))

theorem frag_P_input {j : JVal} (h : accepts P_input j = true) : StrKeyDict j ∨ NonEmptyStr j := by
  unfold P_input at h
  open_schema h
  simp only [validateKw] at h
  obtain ⟨s, hs, ha⟩ := oneOf_some h
  simp only [List.mem_cons, List.mem_nil_iff, or_false] at hs
  rcases hs with rfl | rfl
  · exact .inl (frag_NONEMPTY_DICT ha)
  · exact .inr (frag_NONEMPTY_STRING ha)

theorem frag_P_requires__with_items {j : JVal} (h : accepts P_requires__with_items j = true) :
    NonEmptyStr j ∨ NonEmptyStrList j := by
  unfold P_requires__with_items at h
  open_schema h
  simp only [validateKw] at h
  obtain ⟨s, hs, ha⟩ := oneOf_some h
  simp only [List.mem_cons, List.mem_nil_iff, or_false] at hs
  rcases hs with rfl | rfl
  · exact .inl (frag_NONEMPTY_STRING ha)
  · exact .inr (frag_UNIQUE_STRING_LIST ha)

theorem frag_P_actions__workflows {j : JVal} (h : accepts P_actions__workflows j = true) :
    ∃ kvs, j = .obj kvs ∧ kvs ≠ [] ∧ ∀ kv ∈ kvs, ∃ name, kv.1 = .s name := by
  unfold P_actions__workflows at h
  open_schema h
  obtain ⟨ht, hm, hp, _⟩ := h
  obtain ⟨kvs, rfl⟩ := type_object ht
  exact ⟨kvs, rfl, minProperties_one hm, fun kv hkv => patternProperties_keys hp hkv⟩

/-! ## retry, publish, on-clauses -/

theorem keysIn_of {names : List String} {kvs : List (Key × JVal)}
    (h : (validateKw (.additionalPropertiesFalse names []) (.obj kvs)).clean = true) : KeysIn names kvs := by
  intro kv hkv
  obtain ⟨name, hn, hc⟩ := additionalPropertiesFalse_keys h hkv
  refine ⟨name, hn, ?_⟩
  rcases hc with hc | hc
  · simpa using hc
  · simp at hc

theorem frag_RetrySpec {j : JVal} (h : accepts RetrySpec j = true) : RetryShape j := by
  unfold RetrySpec at h
  open_schema h
  obtain ⟨ho, _, _⟩ := h
  simp only [validateKw] at ho
  obtain ⟨s, hs, ha⟩ := oneOf_some ho
  simp only [List.mem_cons, List.mem_nil_iff, or_false] at hs
  rcases hs with rfl | rfl
  · left
    have hacc := ha
    open_schema ha
    obtain ⟨ht, hp, hr, hk⟩ := ha
    obtain ⟨kvs, rfl⟩ := type_object ht
    obtain ⟨c, hc⟩ := required_present hr (k := "count") (by simp)
    obtain ⟨d, hd⟩ := required_present hr (k := "delay") (by simp)
    refine ⟨kvs, rfl, keysIn_of hk, ⟨d, hd, ?_⟩, ⟨c, hc, ?_⟩, fun v hv => ?_, fun v hv => ?_⟩
    · exact frag_EXPRESSION_OR_POSITIVE_INTEGER (properties_sub hp (by simp) hd)
    · exact frag_EXPRESSION_OR_POSITIVE_INTEGER (properties_sub hp (by simp) hc)
    · exact frag_EXPRESSION (properties_sub hp (by simp) hv)
    · exact frag_EXPRESSION (properties_sub hp (by simp) hv)
  · exact .inr (frag_NONEMPTY_STRING ha)

theorem frag_PublishSpec {j : JVal} (h : accepts PublishSpec j = true) : PublishShape j := by
  unfold PublishSpec at h
  open_schema h
  obtain ⟨ht, hp, hk, _⟩ := h
  obtain ⟨kvs, rfl⟩ := type_object ht
  refine ⟨kvs, rfl, keysIn_of hk, ?_⟩
  intro k hk' v hv
  simp only [List.mem_cons, List.mem_nil_iff, or_false] at hk'
  rcases hk' with rfl | rfl | rfl
  · exact frag_NONEMPTY_DICT (properties_sub hp (by simp) hv)
  · exact frag_NONEMPTY_DICT (properties_sub hp (by simp) hv)
  · exact frag_NONEMPTY_DICT (properties_sub hp (by simp) hv)

theorem frag_NEXT_TASK {j : JVal} (h : accepts NEXT_TASK j = true) : IsStr j := by
  unfold NEXT_TASK at h
  open_schema h
  simp only [validateKw] at h
  obtain ⟨s, hs, ha⟩ := oneOf_some h
  simp only [List.mem_cons, List.mem_nil_iff, or_false] at hs
  rcases hs with rfl | rfl | rfl <;>
  · open_schema ha
    exact type_string ha.1

theorem frag_TASK_WITH_EXPRESSION {j : JVal} (h : accepts TASK_WITH_EXPRESSION j = true) : OneKeyDict j := by
  unfold TASK_WITH_EXPRESSION at h
  open_schema h
  obtain ⟨ht, hm, hM, hp, _⟩ := h
  obtain ⟨kvs, rfl⟩ := type_object ht
  match kvs, hm, hM, hp with
  | [], hm, _, _ => simp [validateKw] at hm
  | [(k, v)], _, _, hp =>
    obtain ⟨name, hn⟩ := patternProperties_keys hp (List.mem_cons_self ..)
    simp only at hn
    subst hn
    exact ⟨name, v, rfl⟩
  | _ :: _ :: _, _, hM, _ => simp [validateKw] at hM

theorem frag_LIST_OF_TASKS {j : JVal} (h : accepts LIST_OF_TASKS j = true) : TaskList j := by
  unfold LIST_OF_TASKS at h
  open_schema h
  obtain ⟨ht, hi, _, hm⟩ := h
  obtain ⟨xs, rfl⟩ := type_array ht
  refine ⟨xs, rfl, minItems_one hm, fun x hx => ?_⟩
  have hx' := items_sub hi hx
  open_schema hx'
  simp only [validateKw] at hx'
  obtain ⟨s, hs, ha⟩ := oneOf_some hx'
  simp only [List.mem_cons, List.mem_nil_iff, or_false] at hs
  rcases hs with rfl | rfl
  · exact .inl (frag_NEXT_TASK ha)
  · exact .inr (frag_TASK_WITH_EXPRESSION ha)

theorem frag_P_next {j : JVal} (h : accepts P_next j = true) : NextShape j := by
  unfold P_next at h
  open_schema h
  simp only [validateKw] at h
  obtain ⟨s, hs, ha⟩ := oneOf_some h
  simp only [List.mem_cons, List.mem_nil_iff, or_false] at hs
  rcases hs with rfl | rfl | rfl
  · exact .inl (frag_NEXT_TASK ha)
  · exact .inr (.inl (frag_TASK_WITH_EXPRESSION ha))
  · exact .inr (.inr (frag_LIST_OF_TASKS ha))

theorem frag_ADVANCED_PUBLISHING_DICT {j : JVal} (h : accepts ADVANCED_PUBLISHING_DICT j = true) :
    AdvancedClause j := by
  unfold ADVANCED_PUBLISHING_DICT at h
  open_schema h
  obtain ⟨ht, hm, hp, hk⟩ := h
  obtain ⟨kvs, rfl⟩ := type_object ht
  refine ⟨kvs, rfl, minProperties_one hm, keysIn_of hk, fun n hn => ?_, fun p hpv => ?_⟩
  · exact frag_P_next (properties_sub hp (by simp) hn)
  · exact frag_PublishSpec (properties_sub hp (by simp) hpv)

theorem frag_OnClauseSpec {j : JVal} (h : accepts OnClauseSpec j = true) : OnClauseShape j := by
  unfold OnClauseSpec at h
  open_schema h
  obtain ⟨ho, _, _⟩ := h
  simp only [validateKw] at ho
  obtain ⟨s, hs, ha⟩ := oneOf_some ho
  simp only [List.mem_cons, List.mem_nil_iff, or_false] at hs
  rcases hs with rfl | rfl | rfl | rfl
  · exact .inl (frag_NEXT_TASK ha)
  · exact .inr (.inl (frag_TASK_WITH_EXPRESSION ha))
  · exact .inr (.inr (.inl (frag_LIST_OF_TASKS ha)))
  · exact .inr (.inr (.inr (frag_ADVANCED_PUBLISHING_DICT ha)))

/-! ## helpers of the per-class theorems -/

/-- a declared property that is present has the shape its fragment guarantees. -/
theorem prop_shape {S : Schema} {kvs : List (Key × JVal)} {k : String} {frag : Schema} {P : JVal → Prop}
    (h : accepts S (.obj kvs) = true) (hp : (k, frag) ∈ S.props)
    (hf : ∀ j, accepts frag j = true → P j) {v : JVal} (hl : lookup k kvs = some v) : P v :=
  hf v (accepts_prop h hp hl)

/-- the `anyOf` of TaskSpec._schema: not both `action` and `workflow`. -/
def actionXorWorkflow : Kw :=
  .anyOf [(.mk [.not (.mk [.type [.object], .required ["action", "workflow"]])]),
          (.mk [.oneOf [(.mk [.type [.object], .required ["action"]]), (.mk [.type [.object], .required ["workflow"]])]])]

theorem required_clean {ks : List String} {kvs : List (Key × JVal)} (h : ∀ k ∈ ks, hasKey k kvs = true) :
    (validateKw (.required ks) (.obj kvs)).clean = true := by
  have : ks.filter (fun k => !hasKey k kvs) = [] := by
    rw [List.filter_eq_nil_iff]
    intro k hk
    simp [h k hk]
  simp [validateKw, this, Out.clean]

theorem not_both {kvs : List (Key × JVal)} (h : (validateKw actionXorWorkflow (.obj kvs)).clean = true) :
    ¬ (hasKey "action" kvs = true ∧ hasKey "workflow" kvs = true) := by
  rintro ⟨ha, hw⟩
  simp only [actionXorWorkflow, validateKw] at h
  obtain ⟨s, hs, hacc⟩ := anyOf_some h
  simp only [List.mem_cons, List.mem_nil_iff, or_false] at hs
  rcases hs with rfl | rfl
  · rw [accepts_mk] at hacc
    simp only [List.all_cons, List.all_nil, Bool.and_true] at hacc
    have hn := not_sub hacc
    have hb : accepts (.mk [.type [.object], .required ["action", "workflow"]]) (.obj kvs) = true := by
      rw [accepts_mk]
      simp only [List.all_cons, List.all_nil, Bool.and_true, Bool.and_eq_true]
      refine ⟨by simp [validateKw, isType], required_clean ?_⟩
      intro k hk
      simp only [List.mem_cons, List.mem_nil_iff, or_false] at hk
      rcases hk with rfl | rfl <;> assumption
    rw [hb] at hn
    cases hn
  · rw [accepts_mk] at hacc
    simp only [List.all_cons, List.all_nil, Bool.and_true, validateKw] at hacc
    have h1 : accepts (.mk [.type [.object], .required ["action"]]) (.obj kvs) = true := by
      rw [accepts_mk]
      simp only [List.all_cons, List.all_nil, Bool.and_true, Bool.and_eq_true]
      exact ⟨by simp [validateKw, isType], required_clean (by simpa using ha)⟩
    have h2 : accepts (.mk [.type [.object], .required ["workflow"]]) (.obj kvs) = true := by
      rw [accepts_mk]
      simp only [List.all_cons, List.all_nil, Bool.and_true, Bool.and_eq_true]
      exact ⟨by simp [validateKw, isType], required_clean (by simpa using hw)⟩
    have := oneOf_two (pre := []) (mid := []) (post := []) hacc rfl h1
    rw [h2] at this
    cases this

end Mistral.Schema
