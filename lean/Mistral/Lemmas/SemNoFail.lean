/-
When no action of a task that is not a join fails, a stale re-start is impossible: the re-run
requests `resume` queues are for tasks that are not joins (C04: `JoinInv`), and such a task never
ends in ERROR.  Every plain history is then inside the class `NoStaleRestart`.
-/
import Mistral.Lemmas.SemRun
namespace Mistral.Sem
open Mistral Mistral.Join Mistral.Engine Mistral.Engine.Live

/-- no action of a task that is not a join fails (joins may fail, by their action or structurally) -/
def PlainTasksSucceed (sp : Spec) (orc : String → Bool) : Prop := ∀ n, isJoin sp n = none → orc n = true

theorem not_stale_of_sinv (sp : Spec) (orc : String → Bool) (rk : String → Nat) (hsp : SemSpec sp rk)
    (hok : PlainTasksSucceed sp orc) (w : World) (e : Event) (h : SInv sp orc w) (hji : JoinInv sp w) :
    staleB w e = false := by
  unfold staleB
  split
  · rename_i t
    cases hc : w.pending.contains (Item.rpcStartTask t false) with
    | false => rfl
    | true =>
      simp only [Bool.true_and]
      cases hf : findTask w t with
      | none => rfl
      | some r =>
        simp only
        have hm : Item.rpcStartTask t false ∈ w.pending := by simpa using hc
        have hnj : isJoin sp t.1 = none := hji.2 _ hm rfl t false (Or.inr rfl)
        have hrm := findTask_mem w t r hf
        have hid := findTask_id w t r hf
        have hname : t.1 = r.name := by rw [← hid]
        have hnj' : isJoin sp r.name = none := by rw [← hname]; exact hnj
        by_cases he : r.state = .ERROR
        · exfalso
          have hrow := h.rows r hrm
          have hc' : isCompleted r.state = true := by rw [he]; decide
          have h1 := (hrow.2.1 hc').1
          have h2 := sem_nonjoin sp orc rk hsp.acyc r.name hnj' hrow.1
          rw [h1] at h2
          have h3 : r.state = res orc r.name := by simpa using h2
          rw [he] at h3
          unfold res at h3
          rw [hok r.name hnj'] at h3
          simp at h3
        · simp [he]
  · rfl

/-- no stale re-start along the history from `w` -/
def noStaleFrom (sp : Spec) : World → List Event → Bool
  | _, [] => true
  | w, e :: es => !staleB w e && noStaleFrom sp (step sp w e) es

theorem noStale_of_plainok (sp : Spec) (orc : String → Bool) (rk : String → Nat) (hsp : SemSpec sp rk)
    (hok : PlainTasksSucceed sp orc) (evs : List Event) :
    ∀ (w : World), SInv sp orc w → JoinInv sp w → (∀ e ∈ evs, plainB orc e = true) →
      noStaleFrom sp w evs = true := by
  induction evs with
  | nil => intro w _ _ _; rfl
  | cons e es ih =>
    intro w h hji hp
    have hs := not_stale_of_sinv sp orc rk hsp hok w e h hji
    have ha : admissibleB orc w e = true := by
      unfold admissibleB
      rw [hp e List.mem_cons_self, hs]; rfl
    have := ih (step sp w e) (step_sinv sp orc rk hsp w e h hji ha) (Imp.ji_step sp w e hji)
      (fun e' he' => hp e' (List.mem_cons_of_mem _ he'))
    simp [noStaleFrom, hs, this]

end Mistral.Sem
