import Mistral.Lemmas.Reverse
namespace Mistral.Reverse
open Mistral

/-! ### the validator's cycle check: accepted ⇒ a ranking exists -/

/-- requirements (by name) exist -/
def WellFormedN (sp : Spec) : Prop := ∀ n q, q ∈ reqsN sp n → isTask sp q = true

/-- `requires` (by name) has no cycle -/
def AcyclicN (sp : Spec) : Prop := ∃ rank : String → Nat, ∀ n q, q ∈ reqsN sp n → rank q < rank n

theorem peel_rank (sp : Spec) : ∀ (f : Nat) (rem done : List String),
    (∀ n ∈ rem, n ∉ done) → peel sp f rem done = true →
    ∀ L : Nat, ∃ rank : String → Nat, ∀ n ∈ rem, L ≤ rank n ∧
      ∀ q ∈ reqsN sp n, q ∈ done ∨ (q ∈ rem ∧ rank q < rank n) := by
  intro f
  induction f with
  | zero =>
    intro rem done _ h L
    cases rem with
    | nil => exact ⟨fun _ => 0, by simp⟩
    | cons a as => simp [peel] at h
  | succ f ih =>
    intro rem done hdis h L
    cases rem with
    | nil => exact ⟨fun _ => 0, by simp⟩
    | cons a as =>
      simp only [peel] at h
      split at h
      · cases h
      · generalize hready : List.filter (readyN sp done) (a :: as) = ready at h
        generalize hrem' : List.filter (fun n => !(done ++ ready).contains n) (a :: as) = rem' at h
        have hdis' : ∀ n ∈ rem', n ∉ done ++ ready := by
          intro n hn hc
          rw [← hrem'] at hn
          have := (List.mem_filter.mp hn).2
          rw [List.contains_iff_mem.mpr hc] at this
          cases this
        rcases ih rem' (done ++ ready) hdis' h (L + 1) with ⟨rank', hr'⟩
        refine ⟨fun n => if rem'.contains n then rank' n else L, ?_⟩
        have hrank_in : ∀ n, n ∈ rem' → (if rem'.contains n then rank' n else L) = rank' n := by
          intro n hn; rw [List.contains_iff_mem.mpr hn]; rfl
        have hrank_out : ∀ n, n ∉ rem' → (if rem'.contains n then rank' n else L) = L := by
          intro n hn
          have : rem'.contains n = false := by
            cases hc : rem'.contains n with
            | false => rfl
            | true => exact absurd (List.contains_iff_mem.mp hc) hn
          rw [this]; rfl
        have hsub : ∀ n, n ∈ rem' → n ∈ a :: as := by
          intro n hn; rw [← hrem'] at hn; exact (List.mem_filter.mp hn).1
        intro n hn
        dsimp only
        by_cases hin : n ∈ rem'
        · rcases hr' n hin with ⟨hL, hq⟩
          refine ⟨by rw [hrank_in n hin]; omega, ?_⟩
          intro q hqr
          rcases hq q hqr with h1 | ⟨h1, h2⟩
          · rcases List.mem_append.mp h1 with h3 | h3
            · exact Or.inl h3
            · right
              have hqrem : q ∈ a :: as := by rw [← hready] at h3; exact (List.mem_filter.mp h3).1
              have hqn : q ∉ rem' := fun hc => hdis' q hc h1
              exact ⟨hqrem, by rw [hrank_out q hqn, hrank_in n hin]; omega⟩
          · exact Or.inr ⟨hsub q h1, by rw [hrank_in q h1, hrank_in n hin]; exact h2⟩
        · -- n was resolved in this round: everything it requires was resolved before
          refine ⟨by rw [hrank_out n hin]; exact Nat.le_refl _, ?_⟩
          have hc : (done ++ ready).contains n = true := by
            cases hc : (done ++ ready).contains n with
            | true => rfl
            | false =>
              exact absurd (by rw [← hrem']; exact List.mem_filter.mpr ⟨hn, by rw [hc]; rfl⟩) hin
          have hnr : n ∈ ready := by
            rcases List.mem_append.mp (List.contains_iff_mem.mp hc) with h1 | h1
            · exact absurd h1 (hdis n hn)
            · exact h1
          rw [← hready] at hnr
          have hall := (List.mem_filter.mp hnr).2
          unfold readyN at hall
          intro q hqr
          exact Or.inl (List.contains_iff_mem.mp (List.all_eq_true.mp hall q hqr))

/-- a definition that passes the cycle check has existing requirements and an acyclic `requires` -/
theorem requiresAcyclic_sound (sp : Spec) (h : requiresAcyclic sp = true) : WellFormedN sp ∧ AcyclicN sp := by
  unfold requiresAcyclic at h
  rcases peel_rank sp _ _ [] (by simp) h 0 with ⟨rank, hr⟩
  have hname : ∀ n q, q ∈ reqsN sp n → n ∈ sp.tasks.map (·.name) := by
    intro n q hq
    unfold reqsN at hq
    split at hq
    · rename_i t ht
      rcases findTaskSpec_some sp n t ht with ⟨h1, h2⟩
      exact List.mem_map.mpr ⟨t, h1, h2⟩
    · simp at hq
  constructor
  · intro n q hq
    rcases (hr n (hname n q hq)).2 q hq with h1 | ⟨h1, _⟩
    · simp at h1
    · rcases List.mem_map.mp h1 with ⟨t, ht, hn⟩
      exact (isTask_iff sp q).mpr ⟨t, ht, hn⟩
  · refine ⟨rank, ?_⟩
    intro n q hq
    rcases (hr n (hname n q hq)).2 q hq with h1 | ⟨_, h2⟩
    · simp at h1
    · exact h2

theorem checkIntegrity_sound (sp : Spec) (h : checkIntegrity sp = none) : WellFormedN sp ∧ AcyclicN sp := by
  unfold checkIntegrity at h
  split at h
  · cases h
  · split at h
    · cases h
    · rename_i h2
      exact requiresAcyclic_sound sp (by simpa using h2)

/-- the bound on the number of rounds is never what rejects a definition: with one round per
    remaining name the loop ends by itself -/
theorem peel_fuel (sp : Spec) : ∀ (f : Nat) (rem done : List String), rem.length ≤ f →
    ∀ g, f ≤ g → peel sp g rem done = peel sp f rem done := by
  intro f
  induction f with
  | zero =>
    intro rem done hl g _
    have : rem = [] := List.eq_nil_of_length_eq_zero (Nat.le_zero.mp hl)
    subst this
    cases g <;> simp [peel]
  | succ f ih =>
    intro rem done hl g hg
    cases rem with
    | nil => cases g <;> simp [peel]
    | cons a as =>
      cases g with
      | zero => omega
      | succ g =>
        simp only [peel]
        split
        · rfl
        · rename_i hne
          apply ih
          · -- a resolved name leaves the remaining list
            have hex : ∃ x ∈ a :: as, ¬ ((fun n => !(done ++ List.filter (readyN sp done) (a :: as)).contains n) x = true) := by
              cases hf : List.filter (readyN sp done) (a :: as) with
              | nil => simp [hf] at hne
              | cons x xs =>
                have hx : x ∈ List.filter (readyN sp done) (a :: as) := by rw [hf]; simp
                refine ⟨x, (List.mem_filter.mp hx).1, ?_⟩
                rw [← hf]
                have hcx : (done ++ List.filter (readyN sp done) (a :: as)).contains x = true :=
                  List.contains_iff_mem.mpr (List.mem_append.mpr (Or.inr hx))
                dsimp only
                rw [hcx]; decide
            have := List.length_filter_lt_length_iff_exists.mpr hex
            simp only [List.length_cons] at hl this ⊢
            omega
          · omega

/-! ### … and nothing acyclic is rejected -/

theorem exists_min_rank (rank : String → Nat) : ∀ (l : List String), l ≠ [] →
    ∃ n ∈ l, ∀ m ∈ l, rank n ≤ rank m := by
  intro l
  induction l with
  | nil => intro h; exact absurd rfl h
  | cons a as ih =>
    intro _
    cases as with
    | nil => exact ⟨a, by simp, by intro m hm; have : m = a := by simpa using hm
                                   rw [this]; exact Nat.le_refl _⟩
    | cons b bs =>
      rcases ih (by simp) with ⟨n, hn, hmin⟩
      by_cases h : rank a ≤ rank n
      · refine ⟨a, by simp, ?_⟩
        intro m hm
        rcases List.mem_cons.mp hm with rfl | hm
        · exact Nat.le_refl _
        · exact Nat.le_trans h (hmin m hm)
      · refine ⟨n, List.mem_cons.mpr (Or.inr hn), ?_⟩
        intro m hm
        rcases List.mem_cons.mp hm with rfl | hm
        · omega
        · exact hmin m hm

/-- completeness of the layer-by-layer resolution: with a ranking, and every requirement of a remaining
    name resolved or remaining, every round resolves something -/
theorem peel_complete (sp : Spec) (rank : String → Nat) (hrank : ∀ n q, q ∈ reqsN sp n → rank q < rank n) :
    ∀ (f : Nat) (rem done : List String), rem.length ≤ f →
      (∀ n ∈ rem, ∀ q ∈ reqsN sp n, q ∈ done ∨ q ∈ rem) → peel sp f rem done = true := by
  intro f
  induction f with
  | zero =>
    intro rem done hl _
    have : rem = [] := List.eq_nil_of_length_eq_zero (Nat.le_zero.mp hl)
    subst this; simp [peel]
  | succ f ih =>
    intro rem done hl hinv
    cases rem with
    | nil => simp [peel]
    | cons a as =>
      simp only [peel]
      rcases exists_min_rank rank (a :: as) (by simp) with ⟨n, hn, hmin⟩
      have hready : n ∈ List.filter (readyN sp done) (a :: as) := by
        refine List.mem_filter.mpr ⟨hn, ?_⟩
        unfold readyN
        rw [List.all_eq_true]
        intro q hq
        rcases hinv n hn q hq with h | h
        · exact List.contains_iff_mem.mpr h
        · have h1 := hrank n q hq
          have h2 := hmin q h
          omega
      have hne : (List.filter (readyN sp done) (a :: as)).isEmpty = false := by
        cases hf : List.filter (readyN sp done) (a :: as) with
        | nil => rw [hf] at hready; simp at hready
        | cons _ _ => rfl
      rw [hne]
      simp only [Bool.false_eq_true, if_false]
      apply ih
      · have hex : ∃ x ∈ a :: as, ¬ ((fun m => !(done ++ List.filter (readyN sp done) (a :: as)).contains m) x = true) := by
          refine ⟨n, hn, ?_⟩
          have hcx : (done ++ List.filter (readyN sp done) (a :: as)).contains n = true :=
            List.contains_iff_mem.mpr (List.mem_append.mpr (Or.inr hready))
          dsimp only
          rw [hcx]; decide
        have := List.length_filter_lt_length_iff_exists.mpr hex
        simp only [List.length_cons] at hl this ⊢
        omega
      · intro m hm q hq
        have hm' := (List.mem_filter.mp hm).1
        rcases hinv m hm' q hq with h | h
        · exact Or.inl (List.mem_append.mpr (Or.inl h))
        · by_cases hc : (done ++ List.filter (readyN sp done) (a :: as)).contains q = true
          · exact Or.inl (List.contains_iff_mem.mp hc)
          · refine Or.inr (List.mem_filter.mpr ⟨h, ?_⟩)
            cases hb : (done ++ List.filter (readyN sp done) (a :: as)).contains q with
            | true => exact absurd hb hc
            | false => rfl

/-- the validator's cycle check accepts exactly the definitions whose requirements exist (by name)
    and admit a ranking -/
theorem requiresAcyclic_iff (sp : Spec) : requiresAcyclic sp = true ↔ WellFormedN sp ∧ AcyclicN sp := by
  constructor
  · exact requiresAcyclic_sound sp
  · rintro ⟨hwf, rank, hrank⟩
    unfold requiresAcyclic
    apply peel_complete sp rank hrank
    · simp
    · intro n _ q hq
      right
      rcases (isTask_iff sp q).mp (hwf n q hq) with ⟨t, ht, hn⟩
      exact List.mem_map.mpr ⟨t, ht, hn⟩

/-! ### no needed task is blocked for ever -/

/-- with existing requirements and a ranking: whatever tasks have succeeded so far, as long as some
    needed task has not, there is a needed task that has not succeeded all of whose requirements have
    (it is startable, or already started) -/
theorem needed_never_blocked (sp : Spec) (nd : List String) (hnd : needed sp = some nd)
    (hwf : WellFormedN sp) (hac : AcyclicN sp) (succeeded : List String)
    (hex : ∃ n ∈ nd, n ∉ succeeded) :
    ∃ n ∈ nd, n ∉ succeeded ∧ ∀ q ∈ reqsN sp n, q ∈ nd ∧ q ∈ succeeded := by
  rcases hac with ⟨rank, hrank⟩
  rcases hex with ⟨n0, hn0, hn0s⟩
  have hne : nd.filter (fun n => !succeeded.contains n) ≠ [] := by
    intro h
    have : n0 ∈ nd.filter (fun n => !succeeded.contains n) := by
      refine List.mem_filter.mpr ⟨hn0, ?_⟩
      cases hc : succeeded.contains n0 with
      | true => exact absurd (List.contains_iff_mem.mp hc) hn0s
      | false => rfl
    rw [h] at this; simp at this
  rcases exists_min_rank rank _ hne with ⟨n, hn, hmin⟩
  rcases List.mem_filter.mp hn with ⟨hnnd, hns⟩
  refine ⟨n, hnnd, ?_, ?_⟩
  · intro hc
    rw [List.contains_iff_mem.mpr hc] at hns; cases hns
  · intro q hq
    have hqnd : q ∈ nd := needed_closed sp nd hnd n hnnd q hq (hwf n q hq)
    refine ⟨hqnd, ?_⟩
    cases hc : succeeded.contains q with
    | true => exact List.contains_iff_mem.mp hc
    | false =>
      have hqf : q ∈ nd.filter (fun n => !succeeded.contains n) := List.mem_filter.mpr ⟨hqnd, by rw [hc]; rfl⟩
      have h1 := hmin q hqf
      have h2 := hrank n q hq
      omega

end Mistral.Reverse
