import Mistral.Lemmas.SubWf

/-!
The execution tree with the INNER rerun: `Workflow.rerun` of a task inside a failed / cancelled
sub-workflow calls `_recursive_rerun()`: `set_state(RUNNING)` on the execution — which writes
`accepted = is_completed(RUNNING) = False` — then, through `wf_ex.task_execution_id`, the same on the
parent execution and `mark_task_running` on the parent task, up to the root.

Invariant over ALL event histories, inner reruns included: an execution that is accepted is
completed (`AccFinal`) — so a with-items parent, which counts accepted children only
(`is_with_items_completed`, `_get_final_state`, `get_task_execution_result`), never counts a RUNNING one.
-/
namespace Mistral.SubWf

/-- an accepted execution is completed -/
def AccFinal (w : World) : Prop := ∀ e ∈ w.execs, e.accepted = true → isFinal e.state = true

theorem accFinal_init (ns : String) (env : Dict) : AccFinal (init ns env) := by
  intro e he
  simp [init] at he
  subst he
  simp

theorem accFinal_set {w : World} {c : Nat} {x : Exec} (h : AccFinal w)
    (hx : x.accepted = true → isFinal x.state = true) :
    ∀ e ∈ w.execs.set c x, e.accepted = true → isFinal e.state = true := by
  intro e he
  rcases List.mem_or_eq_of_mem_set he with h1 | h1
  · exact h e h1
  · subst h1; exact hx

theorem accFinal_effect {w w' : World} {ev : Ev} (h : AccFinal w) (he : Effect w ev w') : AccFinal w' := by
  cases he with
  | none => exact h
  | newTask wf e h1 h2 => exact h
  | spawn t tk p env h1 h2 h3 h4 =>
    intro e hm
    simp only [doSpawn, List.mem_append, List.mem_singleton] at hm
    rcases hm with hm | hm
    · exact h e hm
    · subst hm; simp
  | finish c e s out h1 h2 h3 =>
    exact accFinal_set h (fun _ => h3)
  | deliver c t e tk h1 h2 h3 h4 h5 => exact h

theorem accFinal_reopen : ∀ (fuel : Nat) (w : World) (c : Nat), AccFinal w → AccFinal (reopen fuel w c) := by
  intro fuel
  induction fuel with
  | zero => intro w c h; exact h
  | succ n ih =>
    intro w c h
    simp only [reopen]
    split
    · exact h
    · rename_i e he
      have h1 : AccFinal { w with execs := w.execs.set c { e with state := .RUNNING, accepted := false } } :=
        accFinal_set h (by simp)
      split
      · exact h1
      · split
        · exact h1
        · rename_i tk _
          exact ih _ tk.wf h1

theorem accFinal_stepR {w : World} (h : AccFinal w) (ev : EvR) : AccFinal (stepR w ev) := by
  cases ev with
  | base ev => exact accFinal_effect h (step_effect w ev)
  | rerun c =>
    simp only [stepR]
    split
    · split
      · exact accFinal_reopen _ _ _ h
      · exact h
    · exact h

theorem accFinal_runR {w : World} (h : AccFinal w) (evs : List EvR) : AccFinal (runR w evs) := by
  induction evs generalizing w with
  | nil => exact h
  | cons e es ih => exact ih (accFinal_stepR h e)

end Mistral.SubWf
