import Mistral.Model.Join
namespace Mistral.Join
open Mistral

/-- The property-level reading of "inbound task `t` has completed and routed to the join". -/
def routedTo (rows : List Row) (j : String) (t : TaskG) : Bool :=
  match findRow rows t.name with
  | some r => isCompleted r.state && routesTo r j
  | none => false

/-- Inbound task `t` can no longer route to the join: it completed without routing to it,
    or it has no execution and no route from a start task can still reach it. -/
def deadFor (g : Graph) (rows : List Row) (fuel : Nat) (j : String) (t : TaskG) : Bool :=
  match findRow rows t.name with
  | some r => isCompleted r.state && !routesTo r j
  | none => match possibleRoute g rows fuel t.name 1 with
    | some (false, _) => true
    | _ => false

theorem filter_getLast_isSome {α} (l : List α) (p : α → Bool) :
    (l.filter p).getLast?.isSome = l.any p := by
  induction l with
  | nil => simp
  | cons x xs ih =>
    by_cases h : p x
    · simp [h]
    · simp [h]
      simpa using ih

theorem induced_running_iff (g : Graph) (rows : List Row) (fuel : Nat) (t : TaskG) (j : String)
    (i : Induced) (h : inducedState g rows fuel t j = some i) :
    (i.state == .RUNNING) = routedTo rows j t := by
  unfold inducedState at h
  unfold routedTo
  split at h
  · rename_i hr
    rw [hr]
    split at h
    · simp at h
    · rename_i b d _
      cases h; rfl
    · cases h; rfl
  · rename_i r hr
    rw [hr]
    split at h
    · rename_i hc
      cases h
      simp at hc
      simp [hc]
    · rename_i hc
      simp at hc
      split at h
      · rename_i hl
        cases h
        have : routesTo r j = false := by
          have := filter_getLast_isSome r.nextTasks (·.1 == j)
          rw [hl] at this
          simpa [routesTo] using this.symm
        simp [this]
      · rename_i ev hl
        cases h
        have : routesTo r j = true := by
          have := filter_getLast_isSome r.nextTasks (·.1 == j)
          rw [hl] at this
          simpa [routesTo] using this.symm
        simp [this, hc]

theorem induced_error_iff (g : Graph) (rows : List Row) (fuel : Nat) (t : TaskG) (j : String)
    (i : Induced) (h : inducedState g rows fuel t j = some i) :
    (i.state == .ERROR) = deadFor g rows fuel j t := by
  unfold inducedState at h
  unfold deadFor
  split at h
  · rename_i hr
    rw [hr]
    split at h
    · simp at h
    · rename_i d hp
      cases h; simp [hp]
    · rename_i d hp
      cases h; simp [hp]
  · rename_i r hr
    rw [hr]
    split at h
    · rename_i hc
      cases h
      simp at hc
      simp [hc]
    · rename_i hc
      simp at hc
      split at h
      · rename_i hl
        cases h
        have : routesTo r j = false := by
          have := filter_getLast_isSome r.nextTasks (·.1 == j)
          rw [hl] at this
          simpa [routesTo] using this.symm
        simp [this, hc]
      · rename_i ev hl
        cases h
        have : routesTo r j = true := by
          have := filter_getLast_isSome r.nextTasks (·.1 == j)
          rw [hl] at this
          simpa [routesTo] using this.symm
        simp [this]

theorem mapM_count (g : Graph) (rows : List Row) (fuel : Nat) (j : String) (s : St)
    (P : TaskG → Bool)
    (hP : ∀ t i, inducedState g rows fuel t j = some i → (i.state == s) = P t) :
    ∀ (ins : List TaskG) (xs : List Induced),
      ins.mapM (fun t => inducedState g rows fuel t j) = some xs →
      countState xs s = (ins.filter P).length ∧ xs.length = ins.length := by
  intro ins
  induction ins with
  | nil => intro xs h; simp at h; subst h; simp [countState]
  | cons t ts ih =>
    intro xs h
    rw [List.mapM_cons] at h
    cases hi : inducedState g rows fuel t j with
    | none => simp [hi] at h
    | some i =>
      cases hm : ts.mapM (fun t => inducedState g rows fuel t j) with
      | none => simp [hi, hm] at h
      | some ys =>
        simp [hi, hm] at h
        subst h
        have ⟨h1, h2⟩ := ih ys hm
        have hp := hP t i hi
        unfold countState at *
        by_cases hs : i.state == s
        · have : P t = true := by rw [← hp]; exact hs
          simp [hs, this, h1, h2]
        · have : P t = false := by rw [← hp]; simpa using hs
          simp [hs, this, h1, h2]

end Mistral.Join
