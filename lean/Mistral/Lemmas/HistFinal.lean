/-
The final context of a workflow (Model/Hist.lean: `finalContext`): whatever the batch size, it is the
fold of the version merge over ALL end tasks.
-/
import Mistral.Lemmas.HistChain
namespace Mistral.Hist
open Mistral Mistral.Dict Mistral.Ctx

instance (k0 : String) (rest : List String) (c : Ctx) : Decidable (ShapeOK k0 rest c) := by
  unfold ShapeOK
  cases get? c.data k0 <;> exact inferInstance

/-- the order in which `finalContext size` folds the end tasks, written as an argument of `upstream`
    (whose LAST element is the base): the rows of the first batch but its last, then all the rows of the
    later batches, and the last row of the first batch as the base -/
def finalOrder (size : Nat) (ends : List Ctx) : List Ctx :=
  (ends.take size).dropLast ++ ends.drop size ++ (ends.take size).getLast?.toList

theorem foldBatches_some (size : Nat) (hs : 1 ≤ size) : ∀ (fuel : Nat) (c : Ctx) (rows : List Ctx),
    rows.length ≤ fuel → foldBatches size fuel (some c) rows = some (rows.foldl mergeByVersion c) := by
  intro fuel
  induction fuel with
  | zero =>
    intro c rows h
    have : rows = [] := List.length_eq_zero_iff.mp (by omega)
    subst this; rfl
  | succ fuel ih =>
    intro c rows h
    cases rows with
    | nil => rfl
    | cons x xs =>
      have hne : ((x :: xs).take size).isEmpty = false := by
        cases size with
        | zero => omega
        | succ n => rfl
      simp only [foldBatches, List.isEmpty_cons, Bool.false_eq_true, if_false, finalStep, hne]
      rw [ih _ _ (by simp only [List.length_drop, List.length_cons] at h ⊢; omega)]
      rw [← List.foldl_append, List.take_append_drop]

theorem finalContext_eq_upstream (size : Nat) (hs : 1 ≤ size) (ends : List Ctx) :
    finalContext size ends = upstream (finalOrder size ends) := by
  unfold finalContext finalOrder
  cases ends with
  | nil => simp [foldBatches, upstream_nil]
  | cons x xs =>
    have hne : ((x :: xs).take size).isEmpty = false := by
      cases size with
      | zero => omega
      | succ n => rfl
    have hne' : (x :: xs).take size ≠ [] := by
      intro h; rw [h] at hne; simp at hne
    simp only [List.length_cons, foldBatches, List.isEmpty_cons, Bool.false_eq_true, if_false, finalStep, hne]
    rw [foldBatches_some size hs _ _ _ (by simp only [List.length_drop, List.length_cons]; omega)]
    simp only [Option.getD_some]
    -- the first batch = dropLast ++ [last]
    obtain ⟨ys, a, hya⟩ : ∃ ys a, (x :: xs).take size = ys ++ [a] := by
      have h := List.dropLast_concat_getLast hne'
      exact ⟨_, _, h.symm⟩
    rw [hya, upstream_snoc, List.dropLast_concat, List.getLast?_concat]
    simp only [Option.toList_some]
    rw [upstream_snoc, List.foldl_append]

theorem finalOrder_perm (size : Nat) (ends : List Ctx) : (finalOrder size ends).Perm ends := by
  unfold finalOrder
  cases h : (ends.take size).getLast? with
  | none =>
    have he : ends.take size = [] := by simpa using h
    simp only [he, List.dropLast_nil, List.nil_append, Option.toList_none, List.append_nil]
    have := List.take_append_drop size ends
    rw [he] at this
    simpa using (List.Perm.of_eq this)
  | some a =>
    obtain ⟨ys, hys⟩ := List.getLast?_eq_some_iff.mp h
    simp only [hys, List.dropLast_concat, Option.toList_some]
    have h1 : ends = (ys ++ [a]) ++ ends.drop size := by
      rw [← hys]; exact (List.take_append_drop size ends).symm
    have h2 : (ys ++ ends.drop size ++ [a]).Perm ((ys ++ [a]) ++ ends.drop size) := by
      simp only [List.append_assoc]
      exact List.Perm.append_left ys List.perm_append_comm
    rw [← h1] at h2
    exact h2

theorem mem_finalOrder (size : Nat) (ends : List Ctx) (c : Ctx) : c ∈ finalOrder size ends ↔ c ∈ ends :=
  (finalOrder_perm size ends).mem_iff

/-! ### what an n-ary fold shows at one leaf path -/

/-- the leaf `evaluate_upstream_context` holds at a path is the leaf of one of the folded contexts whose
    version of the path equals the version of the result -/
theorem upstream_witness (k0 : String) (rest : List String) (hk : k0 ≠ "__task_execution") (outs : List Ctx)
    (hs : ∀ c ∈ outs, ShapeOK k0 rest c) (x : Val) (hx : getPath (upstream outs).data k0 rest = some x) :
    ∃ c ∈ outs, getPath c.data k0 rest = some x ∧
      ver c.vers (keyOf (esc k0) rest) = ver (upstream outs).vers (keyOf (esc k0) rest) := by
  let W : Ctx → Prop := fun u => ShapeOK k0 rest u ∧ ∀ x, getPath u.data k0 rest = some x →
    ∃ c ∈ outs, getPath c.data k0 rest = some x ∧ ver c.vers (keyOf (esc k0) rest) = ver u.vers (keyOf (esc k0) rest)
  have hW : W (upstream outs) := by
    apply upstream_ind W
    · exact ⟨shapeOK_empty k0 rest, fun x hx => by simp [getPath] at hx⟩
    · intro l r ⟨hl, wl⟩ ⟨hr, wr⟩
      obtain ⟨hsh, hv, _⟩ := merge_at_path k0 rest hk l r hl hr
      have hp := merge_at_path_cell k0 rest hk l r hl hr
      refine ⟨hsh, ?_⟩
      intro x hx
      rw [hp] at hx
      rw [hv]
      cases hgr : getPath r.data k0 rest with
      | none =>
        rw [hgr, cellVal_none_right] at hx
        obtain ⟨c, hc, h1, h2⟩ := wl x hx
        have := hr.absent hgr
        exact ⟨c, hc, h1, by omega⟩
      | some y =>
        cases hgl : getPath l.data k0 rest with
        | none =>
          rw [hgr, hgl, cellVal_none_left] at hx
          have hxe : y = x := Option.some.inj hx
          obtain ⟨c, hc, h1, h2⟩ := wr y hgr
          have := hl.absent hgl
          exact ⟨c, hc, hxe ▸ h1, by omega⟩
        | some x' =>
          rw [hgr, hgl] at hx
          simp only [cellVal] at hx
          by_cases hc : ver r.vers (keyOf (esc k0) rest) > ver l.vers (keyOf (esc k0) rest)
          · simp only [hc, if_true] at hx
            have hxe : y = x := Option.some.inj hx
            obtain ⟨c, hcm, h1, h2⟩ := wr y hgr
            exact ⟨c, hcm, hxe ▸ h1, by omega⟩
          · simp only [hc, if_false] at hx
            have hxe : x' = x := Option.some.inj hx
            obtain ⟨c, hcm, h1, h2⟩ := wl x' hgl
            exact ⟨c, hcm, hxe ▸ h1, by omega⟩
    · intro c hc
      exact ⟨hs c hc, fun x hx => ⟨c, hc, hx, rfl⟩⟩
  exact hW.2 x hx

/-- a leaf that one of the folded contexts holds is not lost by the fold (the merge never deletes) -/
theorem upstream_present (k0 : String) (rest : List String) (hk : k0 ≠ "__task_execution") (outs : List Ctx)
    (hs : ∀ c ∈ outs, ShapeOK k0 rest c) (c : Ctx) (hc : c ∈ outs) (hp : getPath c.data k0 rest ≠ none) :
    getPath (upstream outs).data k0 rest ≠ none := by
  have key : ∀ (ys : List Ctx) (a : Ctx), ShapeOK k0 rest a → (∀ y ∈ ys, ShapeOK k0 rest y) →
      (getPath a.data k0 rest ≠ none ∨ ∃ y ∈ ys, getPath y.data k0 rest ≠ none) →
      ShapeOK k0 rest (ys.foldl mergeByVersion a) ∧ getPath (ys.foldl mergeByVersion a).data k0 rest ≠ none := by
    intro ys
    induction ys with
    | nil =>
      intro a ha _ h
      rcases h with h | ⟨y, hy, _⟩
      · exact ⟨ha, h⟩
      · simp at hy
    | cons y ys ih =>
      intro a ha hys h
      simp only [List.foldl_cons]
      have hy := hys y (by simp)
      have hsm := (merge_at_path k0 rest hk a y ha hy).1
      have hcell := merge_at_path_cell k0 rest hk a y ha hy
      apply ih _ hsm (fun z hz => hys z (by simp [hz]))
      rcases h with h | ⟨z, hz, hzp⟩
      · left
        intro hn
        rw [hcell] at hn
        exact h (cellVal_eq_none _ _ _ _ hn).1
      · simp only [List.mem_cons] at hz
        rcases hz with rfl | hz
        · left
          intro hn
          rw [hcell] at hn
          exact hzp (cellVal_eq_none _ _ _ _ hn).2
        · exact Or.inr ⟨z, hz, hzp⟩
  cases hl : outs.getLast? with
  | none =>
    have : outs = [] := by simpa using hl
    subst this; simp at hc
  | some last =>
    obtain ⟨ys, hys⟩ := List.getLast?_eq_some_iff.mp hl
    subst hys
    rw [upstream_snoc]
    refine (key ys last (hs last (by simp)) (fun y hy => hs y (by simp [hy])) ?_).2
    simp only [List.mem_append, List.mem_singleton] at hc
    rcases hc with hc | rfl
    · exact Or.inr ⟨c, hc, hp⟩
    · exact Or.inl hp

/-- ORDER INDEPENDENCE of an n-ary fold at a leaf path: two lists of contexts with the same members (rows
    listed in another order, grouped into other batches) give the same leaf and the same version, when the
    members are CONSISTENT at the path (equal versions carry equal leaves: no two concurrent publishers) -/
theorem upstream_order_independent (k0 : String) (rest : List String) (hk : k0 ≠ "__task_execution")
    (l1 l2 : List Ctx) (hmem : ∀ c, c ∈ l1 ↔ c ∈ l2) (hs : ∀ c ∈ l1, ShapeOK k0 rest c)
    (hcons : ∀ c1 ∈ l1, ∀ c2 ∈ l1, ∀ x1 x2, getPath c1.data k0 rest = some x1 → getPath c2.data k0 rest = some x2 →
      ver c1.vers (keyOf (esc k0) rest) = ver c2.vers (keyOf (esc k0) rest) → x1 = x2) :
    getPath (upstream l1).data k0 rest = getPath (upstream l2).data k0 rest ∧
    ver (upstream l1).vers (keyOf (esc k0) rest) = ver (upstream l2).vers (keyOf (esc k0) rest) := by
  have hs2 : ∀ c ∈ l2, ShapeOK k0 rest c := fun c hc => hs c ((hmem c).mpr hc)
  have hu1 : ∀ c ∈ l1, UniqueKeys c.vers := fun c hc => (hs c hc).2.1
  have hu2 : ∀ c ∈ l2, UniqueKeys c.vers := fun c hc => (hs2 c hc).2.1
  have hv : ver (upstream l1).vers (keyOf (esc k0) rest) = ver (upstream l2).vers (keyOf (esc k0) rest) := by
    have a1 := ver_upstream_attained (keyOf (esc k0) rest) l1 hu1
    have a2 := ver_upstream_attained (keyOf (esc k0) rest) l2 hu2
    have g1 := ver_upstream_ge (keyOf (esc k0) rest) l1 hu1
    have g2 := ver_upstream_ge (keyOf (esc k0) rest) l2 hu2
    have le12 : ver (upstream l1).vers (keyOf (esc k0) rest) ≤ ver (upstream l2).vers (keyOf (esc k0) rest) := by
      rcases a1 with z | ⟨c, hc, e⟩
      · omega
      · have := g2 c ((hmem c).mp hc); omega
    have le21 : ver (upstream l2).vers (keyOf (esc k0) rest) ≤ ver (upstream l1).vers (keyOf (esc k0) rest) := by
      rcases a2 with z | ⟨c, hc, e⟩
      · omega
      · have := g1 c ((hmem c).mpr hc); omega
    omega
  refine ⟨?_, hv⟩
  cases h1 : getPath (upstream l1).data k0 rest with
  | some x =>
    obtain ⟨c1, hc1, e1, v1⟩ := upstream_witness k0 rest hk l1 hs x h1
    have hp2 := upstream_present k0 rest hk l2 hs2 c1 ((hmem c1).mp hc1) (by rw [e1]; simp)
    cases h2 : getPath (upstream l2).data k0 rest with
    | none => exact absurd h2 hp2
    | some y =>
      obtain ⟨c2, hc2, e2, v2⟩ := upstream_witness k0 rest hk l2 hs2 y h2
      have := hcons c1 hc1 c2 ((hmem c2).mpr hc2) x y e1 e2 (by omega)
      rw [this]
  | none =>
    cases h2 : getPath (upstream l2).data k0 rest with
    | none => rfl
    | some y =>
      obtain ⟨c2, hc2, e2, _⟩ := upstream_witness k0 rest hk l2 hs2 y h2
      exact absurd h1 (upstream_present k0 rest hk l1 hs c2 ((hmem c2).mpr hc2) (by rw [e2]; simp))

end Mistral.Hist
