/-
Two frame facts of the engine core used by the completeness half of the refinement:
  * rows are never removed (`step_length_le`);
  * once the workflow is completed and all its rows are completed, an admissible event changes
    neither the rows nor the workflow state (`step_frozen`).
-/
import Mistral.Lemmas.SemStep
namespace Mistral.Sem
open Mistral Mistral.Join Mistral.Engine

/-! ### rows are never removed -/

theorem dispatchOne_length (sp : Spec) (w : World) (c : Cmd) :
    w.tasks.length ≤ (dispatchOne sp w c).tasks.length := by
  unfold dispatchOne
  simp only
  split
  · exact Nat.le_refl _
  · split
    · exact Nat.le_refl _
    · split
      · split
        · simp
        · simp only
          split
          · simp [setTask_length]
          · exact Nat.le_refl _
      · simp

theorem dispatch_length (sp : Spec) (cs : List Cmd) : ∀ (w : World), w.tasks.length ≤ (dispatch sp w cs).tasks.length := by
  induction cs with
  | nil => intro w; exact Nat.le_refl _
  | cons c cs ih =>
    intro w
    show w.tasks.length ≤ (dispatch sp (dispatchOne sp w c) cs).tasks.length
    exact Nat.le_trans (dispatchOne_length sp w c) (ih _)

theorem ite_tasks_length (c : Prop) [Decidable c] (a b : World) (n : Nat) (ha : n ≤ a.tasks.length)
    (hb : n ≤ b.tasks.length) : n ≤ (if c then a else b).tasks.length := by
  split <;> assumption

theorem completeTask_length (sp : Spec) (w : World) (r : TaskRow) (s : St) :
    w.tasks.length ≤ (completeTask sp w r s).tasks.length := by
  unfold completeTask
  split
  · rw [(checkAffected_tasks sp w _).1]; exact Nat.le_refl _
  · rw [(checkAffected_tasks sp _ _).1]
    simp only
    split
    · simp [setTask_length]
    · refine Nat.le_trans ?_ (dispatch_length sp _ _)
      apply ite_tasks_length <;> simp [setTask_length]

theorem step_length_le (sp : Spec) (w : World) (e : Event) : w.tasks.length ≤ (step sp w e).tasks.length := by
  cases e with
  | start =>
    simp only [step]
    split
    · exact Nat.le_refl _
    · exact dispatch_length sp _ { w with wf := St.RUNNING }
  | pause => exact Nat.le_refl _
  | stop t => exact Nat.le_refl _
  | execute t ok => simp only [step]; split <;> exact Nat.le_refl _
  | resume =>
    simp only [step]
    split
    · exact Nat.le_refl _
    · split
      · exact Nat.le_refl _
      · split
        · rw [checkAndComplete_tasks]; simp
        · refine Nat.le_trans ?_ (dispatch_length sp _ _)
          simp only
          refine Nat.le_trans ?_ (dispatch_length sp _ _)
          simp
  | deliver it =>
    simp only [step]
    split
    · exact Nat.le_refl _
    · cases it with
      | postStartTask t f => exact Nat.le_refl _
      | postRunAction t => exact Nat.le_refl _
      | runAction t => exact Nat.le_refl _
      | postCheck => simp only; rw [checkAndComplete_tasks]; exact Nat.le_refl _
      | postSchedRefresh t => simp only; split <;> exact Nat.le_refl _
      | rpcStartTask t firstRun =>
        simp only
        split
        · exact Nat.le_refl _
        · split
          · split
            · simp [setTask_length]
            · split
              · split <;> exact Nat.le_refl _
              · rw [(checkAffected_tasks sp _ t).1]; exact Nat.le_refl _
          · split
            · exact Nat.le_refl _
            · split
              · rw [(checkAffected_tasks sp _ t).1]; exact Nat.le_refl _
              · split
                · exact Nat.le_refl _
                · simp [setTask_length]
      | rpcResult t ok =>
        simp only
        split
        · exact Nat.le_refl _
        · exact completeTask_length sp { w with pending := removeFirst w.pending (.rpcResult t ok) } _ _
      | jobRefresh t =>
        simp only
        split
        · exact Nat.le_refl _
        · split
          · exact Nat.le_refl _
          · split
            · exact Nat.le_refl _
            · split
              · exact Nat.le_refl _
              · split
                · exact Nat.le_refl _
                · split
                  · split <;> simp [setTask_length]
                  · split
                    · refine Nat.le_trans ?_ (completeTask_length sp _ _ _)
                      simp [setTask_length]
                    · simp [setTask_length]

theorem step_tasks_ne (sp : Spec) (w : World) (e : Event) (h : w.tasks ≠ []) : (step sp w e).tasks ≠ [] := by
  intro he
  have := step_length_le sp w e
  rw [he] at this
  cases hw : w.tasks with
  | nil => exact h hw
  | cons a l => rw [hw] at this; simp at this

/-! ### a finished execution is frozen -/

theorem pause_of_completed (s : St) (h : isCompleted s = true) : (Lifecycle.wfApply s .pause).1 = s := by
  revert h; cases s <;> decide

theorem completed_not_idle (s : St) (h : isCompleted s = true) : (s != .IDLE) = true := by
  revert h; cases s <;> decide

theorem completed_not_pausedOrIdle (s : St) (h : isCompleted s = true) : (!isPausedOrIdle s) = true := by
  revert h; cases s <;> decide

theorem completed_pausedOrCompleted (s : St) (h : isCompleted s = true) : isPausedOrCompleted s = true := by
  revert h; cases s <;> decide

theorem step_frozen (sp : Spec) (orc : String → Bool) (rk : String → Nat) (hsp : SemSpec sp rk)
    (w : World) (e : Event) (h : SInv sp orc w) (hd : isCompleted w.wf = true)
    (ha : admissibleB orc w e = true) : (step sp w e).tasks = w.tasks ∧ (step sp w e).wf = w.wf := by
  have hall := h.done hd
  cases e with
  | stop t => rw [adm_not_stop] at ha; cases ha
  | start =>
    simp [step, completed_not_idle w.wf hd]
  | pause =>
    simp [step, pause_of_completed w.wf hd]
  | resume =>
    simp [step, completed_not_pausedOrIdle w.wf hd]
  | execute t ok => simp only [step]; split <;> exact ⟨rfl, rfl⟩
  | deliver it =>
    simp only [step]
    split
    · exact ⟨rfl, rfl⟩
    · rename_i hc
      cases it with
      | postStartTask t f => exact ⟨rfl, rfl⟩
      | postRunAction t => exact ⟨rfl, rfl⟩
      | runAction t => exact ⟨rfl, rfl⟩
      | postCheck =>
        simp only
        rw [checkAndComplete_inert { w with pending := removeFirst w.pending .postCheck } (completed_pausedOrCompleted w.wf hd)]
        exact ⟨rfl, rfl⟩
      | postSchedRefresh t => simp only; split <;> exact ⟨rfl, rfl⟩
      | rpcStartTask t firstRun =>
        simp only
        split
        · exact ⟨rfl, rfl⟩
        · rename_i r hfr
          have hfr' : findTask w t = some r := hfr
          have hrm : r ∈ w.tasks := findTask_mem w t r hfr'
          have hrc := hall r hrm
          split
          · split
            · rename_i hi
              have : r.state = .IDLE := by simpa using hi
              rw [this] at hrc; exact absurd hrc (by decide)
            · split
              · rename_i hi
                have : r.state = .WAITING := by simpa using hi
                rw [this] at hrc; exact absurd hrc (by decide)
              · exact checkAffected_tasks sp _ t
          · rename_i hfirst
            have hf : firstRun = false := by simpa using hfirst
            subst hf
            split
            · exact ⟨rfl, rfl⟩
            · first
              | exact checkAffected_tasks sp _ t
              | exact ⟨rfl, rfl⟩
              | (split
                 · exact checkAffected_tasks sp _ t
                 · rename_i hnc
                   exact absurd hrc hnc)
      | rpcResult t ok =>
        simp only
        split
        · exact ⟨rfl, rfl⟩
        · rename_i r hfr
          have hfr' : findTask w t = some r := hfr
          have hrc := hall r (findTask_mem w t r hfr')
          unfold completeTask
          simp only [hrc, if_true]
          exact checkAffected_tasks sp _ _
      | jobRefresh t =>
        simp only
        split
        · exact ⟨rfl, rfl⟩
        · rename_i r hfr
          have hfr' : findTask w t = some r := hfr
          have hrc := hall r (findTask_mem w t r hfr')
          simp [hrc]

end Mistral.Sem
