/-
Helper lemmas for C17: the invariant of the cron-trigger protocol model and its preservation by
every step.  Statements of the property itself are in Props/C17.lean.
-/
import Mistral.Model.Cron
namespace Mistral.Cron

/-- two trigger copies stand for the same occurrence -/
def sameOcc (a b : Trigger) : Prop := a.name = b.name ∧ a.nextTime = b.nextTime

instance (a b : Trigger) : Decidable (sameOcc a b) := by unfold sameOcc; infer_instance

theorem findRow_some {db : List Trigger} {n : Nat} {r : Trigger} (h : findRow db n = some r) :
    r ∈ db ∧ r.name = n := by
  unfold findRow at h
  exact ⟨List.mem_of_find?_eq_some h, by simpa using List.find?_some h⟩

theorem findRow_none {db : List Trigger} {n : Nat} (h : findRow db n = none) :
    ∀ r ∈ db, r.name ≠ n := by
  unfold findRow at h
  intro r hr
  have := List.find?_eq_none.mp h r hr
  simpa using this

theorem findRow_isSome_of_mem {db : List Trigger} {t : Trigger} (h : t ∈ db) :
    ∃ r, findRow db t.name = some r := by
  cases hf : findRow db t.name with
  | some r => exact ⟨r, rfl⟩
  | none => exact absurd rfl (findRow_none hf t h)

/-- the row after a successful conditional UPDATE -/
def advanced (nxt : Nat → Nat → Nat) (now : Nat) (t : Trigger) (p : Nat) (x : Trigger) : Trigger :=
  if x.name = t.name then
    { x with nextTime := nxt p (max now t.nextTime), remaining := decr t.remaining }
  else x

theorem advanceDb_lost {nxt now db t} (h : (advanceDb nxt now db t).2 = false) :
    (advanceDb nxt now db t).1 = db := by
  unfold advanceDb at *
  split at h <;> try split at h
  all_goals first | (simp at h; done) | skip
  all_goals (try split at h) <;> (try split at h) <;> simp_all

/-- what a successful advance did -/
theorem advanceDb_won {nxt now db t} (h : (advanceDb nxt now db t).2 = true) :
    ∃ r, findRow db t.name = some r ∧
      ((decr t.remaining = some 0 ∧
          (advanceDb nxt now db t).1 = db.filter (fun r => r.name ≠ t.name)) ∨
       (decr t.remaining ≠ some 0 ∧ r.nextTime = t.nextTime ∧ ∃ p, t.pat = some p ∧
          (advanceDb nxt now db t).1 = db.map (advanced nxt now t p))) := by
  unfold advanceDb at *
  by_cases h0 : decr t.remaining = some 0
  · simp only [h0, if_true] at h ⊢
    cases hf : findRow db t.name with
    | none => simp [hf] at h
    | some r => exact ⟨r, rfl, Or.inl ⟨trivial, by simp⟩⟩
  · simp only [h0, if_false] at h ⊢
    cases hp : t.pat with
    | none => simp [hp] at h
    | some p =>
      simp only [hp] at h ⊢
      cases hf : findRow db t.name with
      | none => simp [hf] at h
      | some r =>
        simp only [hf] at h ⊢
        by_cases hc : r.nextTime = t.nextTime
        · simp only [hc, if_true] at h ⊢
          exact ⟨r, rfl, Or.inr ⟨h0, hc, p, rfl, by simp [advanced]⟩⟩
        · simp [hc] at h


@[simp] theorem upd_same (f : Nat → Proc) (i : Nat) (p : Proc) : upd f i p i = p := by simp [upd]
theorem upd_other (f : Nat → Proc) {i j : Nat} (p : Proc) (h : j ≠ i) : upd f i p j = f j := by
  simp [upd, h]

theorem advanced_name (nxt now t p x) : (advanced nxt now t p x).name = x.name := by
  unfold advanced; split <;> rfl

/-- The invariant of the protocol (all fields are about one state). -/
structure Inv (s : State) : Prop where
  uniq : ∀ a ∈ s.db, ∀ b ∈ s.db, a.name = b.name → a = b
  pos : ∀ r ∈ s.db, r.remaining ≠ some 0
  winsLt : ∀ w ∈ s.wins, ∀ r ∈ s.db, r.name = w.name → w.nextTime < r.nextTime
  winsPw : s.wins.Pairwise (fun a b => ¬ sameOcc a b)
  copies : ∀ i, ∀ t ∈ (s.procs i).queue, t ∈ s.db ∨ t ∈ s.wins
  lastGone : ∀ w ∈ s.wins, decr w.remaining = some 0 → ∀ r ∈ s.db, r.name ≠ w.name
  pendWins : ∀ i t, (s.procs i).pending = some t → t ∈ s.wins
  logWins : ∀ t ∈ s.log, t ∈ s.wins
  lostWins : ∀ t ∈ s.lost, t ∈ s.wins
  acct : ∀ w ∈ s.wins, w ∈ s.log ∨ (∃ i, (s.procs i).pending = some w) ∨ w ∈ s.lost
  logDistinct : s.log.Pairwise (fun a b => ¬ sameOcc a b)
  pendNotLog : ∀ i t, (s.procs i).pending = some t → t ∉ s.log
  pendInj : ∀ i j t, (s.procs i).pending = some t → (s.procs j).pending = some t → i = j

theorem sameOcc_symm {a b : Trigger} (h : sameOcc a b) : sameOcc b a := ⟨h.1.symm, h.2.symm⟩

theorem pairwise_mem {α : Type} {R : α → α → Prop} : ∀ {l : List α}, l.Pairwise R →
    ∀ a ∈ l, ∀ b ∈ l, a = b ∨ R a b ∨ R b a := by
  intro l h
  induction h with
  | nil => intro a ha; cases ha
  | cons hx _ ih =>
    intro a ha b hb
    simp only [List.mem_cons] at ha hb
    rcases ha with rfl | ha <;> rcases hb with rfl | hb
    · exact Or.inl rfl
    · exact Or.inr (Or.inl (hx b hb))
    · exact Or.inr (Or.inr (hx a ha))
    · exact ih a ha b hb

theorem Inv.winsInj {s : State} (hI : Inv s) :
    ∀ a ∈ s.wins, ∀ b ∈ s.wins, sameOcc a b → a = b := by
  intro a ha b hb hab
  rcases pairwise_mem hI.winsPw a ha b hb with h | h | h
  · exact h
  · exact absurd hab h
  · exact absurd (sameOcc_symm hab) h

/-- In a state satisfying the invariant, the copy a processor wins with IS the current row. -/
theorem won_copy_is_row {nxt : Nat → Nat → Nat} {s : State} (hI : Inv s) {i : Nat} {t : Trigger}
    (ht : t ∈ (s.procs i).queue) (hw : (advanceDb nxt s.now s.db t).2 = true) : t ∈ s.db := by
  obtain ⟨r, hf, hcase⟩ := advanceDb_won hw
  obtain ⟨hr, hrn⟩ := findRow_some hf
  rcases hI.copies i t ht with h | h
  · exact h
  · exfalso
    rcases hcase with ⟨h0, _⟩ | ⟨_, hc, _⟩
    · exact hI.lastGone t h h0 r hr hrn
    · have := hI.winsLt t h r hr hrn
      omega


/-- Everything later proofs need to know about the table after a successful advance with a
    copy `t` that is the current row. -/
theorem advance_db_facts {nxt : Nat → Nat → Nat} (hn : ∀ p t, t < nxt p t) {now : Nat}
    {db : List Trigger} {t : Trigger}
    (huniq : ∀ a ∈ db, ∀ b ∈ db, a.name = b.name → a = b)
    (ht : t ∈ db) (hw : (advanceDb nxt now db t).2 = true) :
    let db' := (advanceDb nxt now db t).1
    (∀ r' ∈ db', r'.name ≠ t.name → r' ∈ db) ∧
    (∀ r' ∈ db', ∃ x ∈ db, r'.name = x.name) ∧
    (∀ x ∈ db, x.name ≠ t.name → x ∈ db') ∧
    (decr t.remaining = some 0 → ∀ r' ∈ db', r'.name ≠ t.name) ∧
    (∀ r' ∈ db', r'.name = t.name → t.nextTime < r'.nextTime ∧ r'.remaining = decr t.remaining
        ∧ decr t.remaining ≠ some 0 ∧ r'.pay = t.pay ∧ r'.pat = t.pat) ∧
    (∀ a ∈ db', ∀ b ∈ db', a.name = b.name → a = b) := by
  intro db'
  obtain ⟨r, hf, hcase⟩ := advanceDb_won hw
  rcases hcase with ⟨h0, hdb⟩ | ⟨h0, hc, p, hp, hdb⟩
  · have hm : ∀ x, x ∈ db' ↔ x ∈ db ∧ x.name ≠ t.name := by
      intro x; show x ∈ (advanceDb nxt now db t).1 ↔ _; rw [hdb]; simp
    refine ⟨?_, ?_, ?_, ?_, ?_, ?_⟩
    · intro r' hr' _; exact ((hm r').mp hr').1
    · intro r' hr'; exact ⟨r', ((hm r').mp hr').1, rfl⟩
    · intro x hx hne; exact (hm x).mpr ⟨hx, hne⟩
    · intro _ r' hr'; exact ((hm r').mp hr').2
    · intro r' hr' hname; exact absurd hname ((hm r').mp hr').2
    · intro a ha b hb hab; exact huniq a ((hm a).mp ha).1 b ((hm b).mp hb).1 hab
  · have hm : ∀ x, x ∈ db' ↔ ∃ y ∈ db, advanced nxt now t p y = x := by
      intro x; show x ∈ (advanceDb nxt now db t).1 ↔ _; rw [hdb]; simp
    have hlt : t.nextTime < nxt p (max now t.nextTime) := by
      have := hn p (max now t.nextTime); omega
    refine ⟨?_, ?_, ?_, ?_, ?_, ?_⟩
    · intro r' hr' hne
      obtain ⟨y, hy, rfl⟩ := (hm r').mp hr'
      rw [advanced_name] at hne
      have : advanced nxt now t p y = y := by simp [advanced, hne]
      rw [this]; exact hy
    · intro r' hr'
      obtain ⟨y, hy, rfl⟩ := (hm r').mp hr'
      exact ⟨y, hy, advanced_name ..⟩
    · intro x hx hne
      exact (hm x).mpr ⟨x, hx, by simp [advanced, hne]⟩
    · intro h; exact absurd h h0
    · intro r' hr' hname
      obtain ⟨y, hy, rfl⟩ := (hm r').mp hr'
      rw [advanced_name] at hname
      have hyt : y = t := huniq y hy t ht hname
      subst hyt
      simp [advanced, hlt, h0]
    · intro a ha b hb hab
      obtain ⟨y, hy, rfl⟩ := (hm a).mp ha
      obtain ⟨z, hz, rfl⟩ := (hm b).mp hb
      rw [advanced_name, advanced_name] at hab
      rw [huniq y hy z hz hab]


theorem inv_advance_won {nxt : Nat → Nat → Nat} (hn : ∀ p t, t < nxt p t) {s : State}
    (hI : Inv s) {i : Nat} {t : Trigger} {rest : List Trigger} {p' : Proc}
    (hq : (s.procs i).queue = t :: rest) (hp : (s.procs i).pending = none)
    (hw : (advanceDb nxt s.now s.db t).2 = true)
    (hp'q : p'.queue = rest) (hp'p : p'.pending = some t) :
    Inv { s with db := (advanceDb nxt s.now s.db t).1, wins := t :: s.wins,
                 procs := upd s.procs i p' } := by
  have htq : t ∈ (s.procs i).queue := by rw [hq]; exact List.mem_cons_self
  have ht : t ∈ s.db := won_copy_is_row hI htq hw
  obtain ⟨f1, f2, f3, f4, f5, f6⟩ := advance_db_facts hn hI.uniq ht hw
  have hfresh : t ∉ s.wins := fun h => by have := hI.winsLt t h t ht rfl; omega
  have hpend : ∀ j, j ≠ i → (upd s.procs i p' j) = s.procs j :=
    fun j hj => upd_other _ _ hj
  refine ⟨f6, ?_, ?_, ?_, ?_, ?_, ?_, ?_, ?_, ?_, ?_, ?_, ?_⟩
  all_goals dsimp only
  · -- pos
    intro r' hr'
    by_cases hname : r'.name = t.name
    · obtain ⟨_, hrem, h0, _⟩ := f5 r' hr' hname
      rw [hrem]; exact h0
    · exact hI.pos r' (f1 r' hr' hname)
  · -- winsLt
    intro w hw' r' hr' hname
    simp only [List.mem_cons] at hw'
    rcases hw' with rfl | hw'
    · exact (f5 r' hr' hname).1
    · by_cases hnt : r'.name = t.name
      · have h1 := (f5 r' hr' hnt).1
        have h2 := hI.winsLt w hw' t ht (by rw [← hnt, hname])
        omega
      · exact hI.winsLt w hw' r' (f1 r' hr' hnt) hname
  · -- winsPw
    refine List.pairwise_cons.mpr ⟨?_, hI.winsPw⟩
    intro b hb hab
    have := hI.winsLt b hb t ht hab.1; have := hab.2; omega
  · -- copies
    intro j t2 ht2
    have hold : t2 ∈ s.db ∨ t2 ∈ s.wins := by
      by_cases hj : j = i
      · subst hj
        simp only [upd_same, hp'q] at ht2
        exact hI.copies j t2 (by rw [hq]; exact List.mem_cons_of_mem _ ht2)
      · rw [hpend j hj] at ht2; exact hI.copies j t2 ht2
    rcases hold with h | h
    · by_cases hname : t2.name = t.name
      · right; rw [hI.uniq t2 h t ht hname]; exact List.mem_cons_self
      · left; exact f3 t2 h hname
    · right; exact List.mem_cons_of_mem _ h
  · -- lastGone
    intro w hw' h0 r' hr'
    simp only [List.mem_cons] at hw'
    rcases hw' with rfl | hw'
    · exact f4 h0 r' hr'
    · obtain ⟨x, hx, hxn⟩ := f2 r' hr'
      rw [hxn]; exact hI.lastGone w hw' h0 x hx
  · -- pendWins
    intro j t2 h
    by_cases hj : j = i
    · subst hj; simp only [upd_same, hp'p] at h
      cases h; exact List.mem_cons_self
    · rw [hpend j hj] at h; exact List.mem_cons_of_mem _ (hI.pendWins j t2 h)
  · intro t2 h; exact List.mem_cons_of_mem _ (hI.logWins t2 h)
  · intro t2 h; exact List.mem_cons_of_mem _ (hI.lostWins t2 h)
  · -- acct
    intro w hw'
    simp only [List.mem_cons] at hw'
    rcases hw' with rfl | hw'
    · right; left; exact ⟨i, by simp [hp'p]⟩
    · rcases hI.acct w hw' with h | ⟨j, h⟩ | h
      · exact Or.inl h
      · right; left
        have hj : j ≠ i := by intro e; subst e; rw [hp] at h; cases h
        exact ⟨j, by rw [hpend j hj]; exact h⟩
      · exact Or.inr (Or.inr h)
  · exact hI.logDistinct
  · -- pendNotLog
    intro j t2 h
    by_cases hj : j = i
    · subst hj; simp only [upd_same, hp'p] at h
      cases h; exact fun hl => hfresh (hI.logWins _ hl)
    · rw [hpend j hj] at h; exact hI.pendNotLog j t2 h
  · -- pendInj
    intro j k t2 h1 h2
    by_cases hj : j = i <;> by_cases hk : k = i
    · rw [hj, hk]
    · subst hj; simp only [upd_same, hp'p] at h1; cases h1
      rw [hpend k hk] at h2; exact absurd (hI.pendWins k _ h2) hfresh
    · subst hk; simp only [upd_same, hp'p] at h2; cases h2
      rw [hpend j hj] at h1; exact absurd (hI.pendWins j _ h1) hfresh
    · rw [hpend j hj] at h1; rw [hpend k hk] at h2; exact hI.pendInj j k t2 h1 h2


/-- Steps that only change the clock and processors' queues (read, lost advance, tick). -/
theorem inv_queues {s : State} (hI : Inv s) (now' : Nat) (procs' : Nat → Proc)
    (hq : ∀ j, ∀ t ∈ (procs' j).queue, t ∈ (s.procs j).queue ∨ t ∈ s.db)
    (hp : ∀ j, (procs' j).pending = (s.procs j).pending) :
    Inv { s with now := now', procs := procs' } := by
  refine ⟨hI.uniq, hI.pos, hI.winsLt, hI.winsPw, ?_, hI.lastGone, ?_, hI.logWins, hI.lostWins,
    ?_, hI.logDistinct, ?_, ?_⟩
  all_goals dsimp only
  · intro j t ht
    rcases hq j t ht with h | h
    · exact hI.copies j t h
    · exact Or.inl h
  · intro j t h; rw [hp j] at h; exact hI.pendWins j t h
  · intro w hw
    rcases hI.acct w hw with h | ⟨j, h⟩ | h
    · exact Or.inl h
    · exact Or.inr (Or.inl ⟨j, by rw [hp j]; exact h⟩)
    · exact Or.inr (Or.inr h)
  · intro j t h; rw [hp j] at h; exact hI.pendNotLog j t h
  · intro j k t h1 h2; rw [hp j] at h1; rw [hp k] at h2; exact hI.pendInj j k t h1 h2

theorem mem_insertByNext {a t : Trigger} : ∀ {l : List Trigger},
    a ∈ insertByNext t l ↔ a = t ∨ a ∈ l := by
  intro l
  induction l with
  | nil => simp [insertByNext]
  | cons x xs ih =>
    unfold insertByNext
    split
    · simp
    · simp only [List.mem_cons, ih]
      constructor
      · rintro (h | h | h)
        · exact Or.inr (Or.inl h)
        · exact Or.inl h
        · exact Or.inr (Or.inr h)
      · rintro (h | h | h)
        · exact Or.inr (Or.inl h)
        · exact Or.inl h
        · exact Or.inr (Or.inr h)

theorem mem_sortByNext {a : Trigger} : ∀ {l : List Trigger}, a ∈ sortByNext l ↔ a ∈ l := by
  intro l
  induction l with
  | nil => simp [sortByNext]
  | cons x xs ih => simp [sortByNext, mem_insertByNext, ih]

theorem mem_dueList {now : Nat} {db : List Trigger} {t : Trigger} (h : t ∈ dueList now db) :
    t ∈ db ∧ t.nextTime < now + lookahead := by
  unfold dueList at h
  rw [mem_sortByNext] at h
  simpa using h

theorem inv_start {s : State} (hI : Inv s) {i : Nat} {t : Trigger} {p' : Proc}
    (hp : (s.procs i).pending = some t) (hp'q : p'.queue = (s.procs i).queue)
    (hp'p : p'.pending = none) :
    Inv { s with log := t :: s.log, procs := upd s.procs i p' } := by
  have hoth : ∀ j, j ≠ i → (upd s.procs i p' j) = s.procs j := fun j hj => upd_other _ _ hj
  have htw : t ∈ s.wins := hI.pendWins i t hp
  refine ⟨hI.uniq, hI.pos, hI.winsLt, hI.winsPw, ?_, hI.lastGone, ?_, ?_, hI.lostWins,
    ?_, ?_, ?_, ?_⟩
  all_goals dsimp only
  · intro j t2 ht2
    by_cases hj : j = i
    · subst hj; simp only [upd_same, hp'q] at ht2; exact hI.copies j t2 ht2
    · rw [hoth j hj] at ht2; exact hI.copies j t2 ht2
  · intro j t2 h
    by_cases hj : j = i
    · subst hj; simp [hp'p] at h
    · rw [hoth j hj] at h; exact hI.pendWins j t2 h
  · intro t2 h
    simp only [List.mem_cons] at h
    rcases h with rfl | h
    · exact htw
    · exact hI.logWins t2 h
  · intro w hw
    rcases hI.acct w hw with h | ⟨j, h⟩ | h
    · exact Or.inl (List.mem_cons_of_mem _ h)
    · by_cases hj : j = i
      · subst hj; rw [hp] at h; cases h; exact Or.inl List.mem_cons_self
      · exact Or.inr (Or.inl ⟨j, by rw [hoth j hj]; exact h⟩)
    · exact Or.inr (Or.inr h)
  · refine List.pairwise_cons.mpr ⟨?_, hI.logDistinct⟩
    intro g hg hs
    have : t = g := hI.winsInj t htw g (hI.logWins g hg) hs
    subst this
    exact hI.pendNotLog i t hp hg
  · intro j t2 h
    by_cases hj : j = i
    · subst hj; simp [hp'p] at h
    · rw [hoth j hj] at h
      intro hm
      simp only [List.mem_cons] at hm
      rcases hm with rfl | hm
      · exact hj (hI.pendInj j i t2 h hp)
      · exact hI.pendNotLog j t2 h hm
  · intro j k t2 h1 h2
    by_cases hj : j = i
    · subst hj; simp [hp'p] at h1
    · by_cases hk : k = i
      · subst hk; simp [hp'p] at h2
      · rw [hoth j hj] at h1; rw [hoth k hk] at h2; exact hI.pendInj j k t2 h1 h2

theorem inv_crash {s : State} (hI : Inv s) {i : Nat} {p' : Proc}
    (hp'q : p'.queue = []) (hp'p : p'.pending = none) :
    Inv { s with lost := (s.procs i).pending.toList ++ s.lost, procs := upd s.procs i p' } := by
  have hoth : ∀ j, j ≠ i → (upd s.procs i p' j) = s.procs j := fun j hj => upd_other _ _ hj
  refine ⟨hI.uniq, hI.pos, hI.winsLt, hI.winsPw, ?_, hI.lastGone, ?_, hI.logWins, ?_,
    ?_, hI.logDistinct, ?_, ?_⟩
  all_goals dsimp only
  · intro j t2 ht2
    by_cases hj : j = i
    · subst hj; simp [hp'q] at ht2
    · rw [hoth j hj] at ht2; exact hI.copies j t2 ht2
  · intro j t2 h
    by_cases hj : j = i
    · subst hj; simp [hp'p] at h
    · rw [hoth j hj] at h; exact hI.pendWins j t2 h
  · intro t2 h
    simp only [List.mem_append, Option.mem_toList] at h
    rcases h with h | h
    · exact hI.pendWins i t2 h
    · exact hI.lostWins t2 h
  · intro w hw
    rcases hI.acct w hw with h | ⟨j, h⟩ | h
    · exact Or.inl h
    · by_cases hj : j = i
      · subst hj
        exact Or.inr (Or.inr (by simp [h]))
      · exact Or.inr (Or.inl ⟨j, by rw [hoth j hj]; exact h⟩)
    · exact Or.inr (Or.inr (List.mem_append_right _ h))
  · intro j t2 h
    by_cases hj : j = i
    · subst hj; simp [hp'p] at h
    · rw [hoth j hj] at h; exact hI.pendNotLog j t2 h
  · intro j k t2 h1 h2
    by_cases hj : j = i
    · subst hj; simp [hp'p] at h1
    · by_cases hk : k = i
      · subst hk; simp [hp'p] at h2
      · rw [hoth j hj] at h1; rw [hoth k hk] at h2; exact hI.pendInj j k t2 h1 h2


theorem inv_init_lemma (now : Nat) (db : List Trigger)
    (huniq : ∀ a ∈ db, ∀ b ∈ db, a.name = b.name → a = b)
    (hpos : ∀ r ∈ db, r.remaining ≠ some 0) : Inv (init now db) := by
  refine ⟨huniq, hpos, ?_, ?_, ?_, ?_, ?_, ?_, ?_, ?_, ?_, ?_, ?_⟩ <;> simp [init]

theorem inv_step_lemma {nxt : Nat → Nat → Nat} (hn : ∀ p t, t < nxt p t) {s : State} (hI : Inv s)
    (e : Step) : Inv (step nxt s e) := by
  cases e with
  | tick d =>
    exact inv_queues hI (s.now + d) s.procs (fun j t h => Or.inl h) (fun j => rfl)
  | read i =>
    unfold step
    dsimp only
    split
    · exact hI
    · rename_i hc
      have hc' : (s.procs i).pending = none := by
        cases h : (s.procs i).pending with
        | none => rfl
        | some x => exact absurd (Or.inr (Or.inr (by simp [h]))) hc
      refine inv_queues hI s.now _ ?_ ?_
      · intro j t ht
        by_cases hj : j = i
        · subst hj; simp only [upd_same] at ht; exact Or.inr (mem_dueList ht).1
        · rw [upd_other _ _ hj] at ht; exact Or.inl ht
      · intro j
        by_cases hj : j = i
        · subst hj; simp [hc']
        · rw [upd_other _ _ hj]
  | advance i =>
    unfold step
    dsimp only
    split
    · exact hI
    · rename_i hc
      have hpn : (s.procs i).pending = none := by
        cases h : (s.procs i).pending with
        | none => rfl
        | some x => exact absurd (Or.inr (by simp [h])) hc
      split
      · exact hI
      · rename_i t rest hq
        split
        · rename_i hw
          exact inv_advance_won hn hI hq hpn hw rfl rfl
        · refine inv_queues hI s.now _ ?_ ?_
          · intro j t2 ht2
            by_cases hj : j = i
            · subst hj; simp only [upd_same] at ht2
              exact Or.inl (by rw [hq]; exact List.mem_cons_of_mem _ ht2)
            · rw [upd_other _ _ hj] at ht2; exact Or.inl ht2
          · intro j
            by_cases hj : j = i
            · subst hj; simp
            · rw [upd_other _ _ hj]
  | start i =>
    unfold step
    dsimp only
    split
    · exact hI
    · split
      · exact hI
      · rename_i t hp
        exact inv_start hI hp rfl rfl
  | crash i =>
    unfold step
    dsimp only
    split
    · exact hI
    · exact inv_crash hI rfl rfl

theorem inv_run_lemma {nxt : Nat → Nat → Nat} (hn : ∀ p t, t < nxt p t) (es : List Step) :
    ∀ {s : State}, Inv s → Inv (run nxt s es) := by
  induction es with
  | nil => intro s h; exact h
  | cons e es ih => intro s h; exact ih (inv_step_lemma hn h e)


/-- The only step that changes the table or the set of wins is a successful advance. -/
theorem step_cases (nxt : Nat → Nat → Nat) (s : State) (e : Step) :
    ((step nxt s e).db = s.db ∧ (step nxt s e).wins = s.wins) ∨
    (∃ i t, e = .advance i ∧ t ∈ (s.procs i).queue ∧ (advanceDb nxt s.now s.db t).2 = true ∧
       (step nxt s e).db = (advanceDb nxt s.now s.db t).1 ∧ (step nxt s e).wins = t :: s.wins) := by
  cases e with
  | tick d => left; simp [step]
  | read i => left; unfold step; dsimp only; split <;> simp
  | start i => left; unfold step; dsimp only; split <;> (try split) <;> simp
  | crash i => left; unfold step; dsimp only; split <;> simp
  | advance i =>
    unfold step
    dsimp only
    split
    · left; simp
    · split
      · left; simp
      · rename_i t rest hq
        split
        · rename_i hw
          right
          exact ⟨i, t, rfl, by rw [hq]; exact List.mem_cons_self, hw, rfl, rfl⟩
        · left; simp

theorem advance_db_keeps {nxt : Nat → Nat → Nat} {now : Nat} {db : List Trigger} {t : Trigger}
    (ht : t ∈ db) (hw : (advanceDb nxt now db t).2 = true) (h0 : decr t.remaining ≠ some 0) :
    ∃ r' ∈ (advanceDb nxt now db t).1, r'.name = t.name := by
  obtain ⟨r, hf, hcase⟩ := advanceDb_won hw
  rcases hcase with ⟨h, _⟩ | ⟨_, _, p, _, hdb⟩
  · exact absurd h h0
  · rw [hdb]
    exact ⟨advanced nxt now t p t, List.mem_map.mpr ⟨t, ht, rfl⟩, advanced_name ..⟩

/-- number of successful advances of trigger `n` so far -/
def winsOf (s : State) (n : Nat) : Nat := (s.wins.filter fun w => w.name = n).length

/-- number of `start_workflow` calls for trigger `n` so far -/
def firesOf (s : State) (n : Nat) : Nat := (s.log.filter fun w => w.name = n).length

/-- Invariant relative to the initial table `db0`. -/
structure Inv0 (db0 : List Trigger) (s : State) : Prop where
  origin : ∀ r ∈ s.db, ∃ r0 ∈ db0, r0.name = r.name ∧ r0.pay = r.pay ∧ r0.pat = r.pat
  winsOrigin : ∀ w ∈ s.wins, ∃ r0 ∈ db0, r0.name = w.name ∧ r0.pay = w.pay ∧ r0.pat = w.pat
  cnt : ∀ r0 ∈ db0, ∀ c, r0.remaining = some c →
      (∃ r ∈ s.db, r.name = r0.name ∧ ∃ k, r.remaining = some k ∧ k + winsOf s r0.name = c) ∨
      ((∀ r ∈ s.db, r.name ≠ r0.name) ∧ winsOf s r0.name = c)

theorem inv0_init (now : Nat) (db : List Trigger) : Inv0 db (init now db) := by
  refine ⟨?_, ?_, ?_⟩
  · intro r hr; exact ⟨r, hr, rfl, rfl, rfl⟩
  · intro w hw; simp [init] at hw
  · intro r0 hr0 c hc
    left
    exact ⟨r0, hr0, rfl, c, hc, by simp [winsOf, init]⟩

theorem inv0_step {nxt : Nat → Nat → Nat} (hn : ∀ p t, t < nxt p t) {db0 : List Trigger}
    {s : State} (hI : Inv s) (h0 : Inv0 db0 s) (e : Step) : Inv0 db0 (step nxt s e) := by
  rcases step_cases nxt s e with ⟨hdb, hwins⟩ | ⟨i, t, _, htq, hw, hdb, hwins⟩
  · refine ⟨?_, ?_, ?_⟩
    · rw [hdb]; exact h0.origin
    · rw [hwins]; exact h0.winsOrigin
    · have : ∀ n, winsOf (step nxt s e) n = winsOf s n := by intro n; simp [winsOf, hwins]
      intro r0 hr0 c hc
      rw [hdb, this]
      exact h0.cnt r0 hr0 c hc
  · have ht : t ∈ s.db := won_copy_is_row hI htq hw
    obtain ⟨f1, f2, f3, f4, f5, f6⟩ := advance_db_facts hn hI.uniq ht hw
    have hwo : ∀ n, winsOf (step nxt s e) n = winsOf s n + (if t.name = n then 1 else 0) := by
      intro n
      simp only [winsOf, hwins, List.filter_cons]
      by_cases h : t.name = n <;> simp [h]
    refine ⟨?_, ?_, ?_⟩
    · rw [hdb]
      intro r' hr'
      by_cases hname : r'.name = t.name
      · obtain ⟨_, _, _, hpay, hpat⟩ := f5 r' hr' hname
        obtain ⟨r0, hr0, hn0, hp0, hq0⟩ := h0.origin t ht
        exact ⟨r0, hr0, by rw [hn0, hname], by rw [hp0, hpay], by rw [hq0, hpat]⟩
      · exact h0.origin r' (f1 r' hr' hname)
    · rw [hwins]
      intro w hw'
      simp only [List.mem_cons] at hw'
      rcases hw' with rfl | hw'
      · exact h0.origin w ht
      · exact h0.winsOrigin w hw'
    · intro r0 hr0 c hc
      rw [hdb, hwo]
      by_cases hname : t.name = r0.name
      · simp only [hname, if_true]
        rcases h0.cnt r0 hr0 c hc with ⟨r, hr, hrn, k, hk, hsum⟩ | ⟨hgone, _⟩
        · have hrt : r = t := hI.uniq r hr t ht (by rw [hrn, hname])
          subst hrt
          have hkpos : k ≠ 0 := by
            intro hk0; subst hk0; exact hI.pos r hr hk
          by_cases hlast : decr r.remaining = some 0
          · right
            refine ⟨fun r' hr' => by rw [← hname]; exact f4 hlast r' hr', ?_⟩
            rw [hk] at hlast
            cases k with
            | zero => exact absurd rfl hkpos
            | succ k' => simp [decr] at hlast; omega
          · left
            obtain ⟨r', hr', hr'n⟩ := advance_db_keeps ht hw hlast
            obtain ⟨_, hrem, _, _, _⟩ := f5 r' hr' hr'n
            refine ⟨r', hr', by rw [hr'n, hname], ?_⟩
            rw [hrem, hk]
            cases k with
            | zero => exact absurd rfl hkpos
            | succ k' => exact ⟨k', by simp [decr], by omega⟩
        · exact absurd hname (hgone t ht)
      · simp only [hname, if_false, Nat.add_zero]
        rcases h0.cnt r0 hr0 c hc with ⟨r, hr, hrn, k, hk, hsum⟩ | ⟨hgone, hsum⟩
        · left
          exact ⟨r, f3 r hr (by rw [hrn]; exact fun h => hname h.symm), hrn, k, hk, hsum⟩
        · right
          refine ⟨fun r' hr' hr'n => ?_, hsum⟩
          have : r'.name ≠ t.name := by rw [hr'n]; exact fun h => hname h.symm
          exact hgone r' (f1 r' hr' this) hr'n


/-- how many entries of a list stand for occurrence `(n, T)` -/
def occCount (l : List Trigger) (n T : Nat) : Nat :=
  (l.filter fun w => w.name = n ∧ w.nextTime = T).length

theorem occCount_le_one {l : List Trigger} (h : l.Pairwise (fun a b => ¬ sameOcc a b)) (n T : Nat) :
    occCount l n T ≤ 1 := by
  unfold occCount
  have hf := h.filter (fun w => decide (w.name = n ∧ w.nextTime = T))
  have hmem : ∀ x ∈ l.filter (fun w => decide (w.name = n ∧ w.nextTime = T)),
      x.name = n ∧ x.nextTime = T := by
    intro x hx; simpa using (List.mem_filter.mp hx).2
  generalize l.filter (fun w => decide (w.name = n ∧ w.nextTime = T)) = m at hf hmem ⊢
  match m with
  | [] => simp
  | [_] => simp
  | a :: b :: rest =>
    exfalso
    have ha := hmem a (by simp)
    have hb := hmem b (by simp)
    have := (List.pairwise_cons.mp hf).1 b (by simp)
    exact this ⟨by rw [ha.1, hb.1], by rw [ha.2, hb.2]⟩

theorem occCount_pos_of_mem {l : List Trigger} {w : Trigger} (h : w ∈ l) :
    1 ≤ occCount l w.name w.nextTime := by
  unfold occCount
  have : w ∈ l.filter (fun x => decide (x.name = w.name ∧ x.nextTime = w.nextTime)) := by
    simp [List.mem_filter, h]
  exact List.length_pos_of_mem this

/-- starts never outnumber successful advances, per trigger -/
theorem fires_le_wins {s : State} (hI : Inv s) (n : Nat) : firesOf s n ≤ winsOf s n := by
  unfold firesOf winsOf
  apply List.Nodup.length_le_of_subset
  · have h1 : s.log.Pairwise (fun a b => a ≠ b) :=
      hI.logDistinct.imp (fun {a b} h e => h (by subst e; exact ⟨rfl, rfl⟩))
    exact h1.filter _
  · intro x hx
    simp only [List.mem_filter] at hx ⊢
    exact ⟨hI.logWins x hx.1, hx.2⟩

def noCrash : List Step → Bool
  | [] => true
  | .crash _ :: _ => false
  | _ :: es => noCrash es

theorem lost_step_of_not_crash (nxt : Nat → Nat → Nat) (s : State) (e : Step)
    (h : ∀ i, e ≠ .crash i) : (step nxt s e).lost = s.lost := by
  cases e with
  | crash i => exact absurd rfl (h i)
  | tick d => simp [step]
  | read i => unfold step; dsimp only; split <;> simp
  | start i => unfold step; dsimp only; split <;> (try split) <;> simp
  | advance i =>
    unfold step; dsimp only
    split
    · rfl
    · split
      · rfl
      · split <;> rfl

theorem lost_run_noCrash (nxt : Nat → Nat → Nat) (es : List Step) :
    ∀ (s : State), noCrash es = true → (run nxt s es).lost = s.lost := by
  induction es with
  | nil => intro s _; rfl
  | cons e es ih =>
    intro s h
    cases e with
    | crash i => simp [noCrash] at h
    | tick d => simp only [run]; rw [ih _ (by simpa [noCrash] using h)]; exact lost_step_of_not_crash _ _ _ (by simp)
    | read i => simp only [run]; rw [ih _ (by simpa [noCrash] using h)]; exact lost_step_of_not_crash _ _ _ (by simp)
    | start i => simp only [run]; rw [ih _ (by simpa [noCrash] using h)]; exact lost_step_of_not_crash _ _ _ (by simp)
    | advance i => simp only [run]; rw [ih _ (by simpa [noCrash] using h)]; exact lost_step_of_not_crash _ _ _ (by simp)

/-- One step moves a row's next time forward along its pattern, or leaves the row alone. -/
theorem step_next_time {nxt : Nat → Nat → Nat} (hn : ∀ p t, t < nxt p t) {s : State} (hI : Inv s)
    (e : Step) : ∀ r' ∈ (step nxt s e).db, ∃ r ∈ s.db, r.name = r'.name ∧
      (r' = r ∨ (r.nextTime < r'.nextTime ∧ s.now < r'.nextTime ∧
          ∃ p, r.pat = some p ∧ r'.nextTime = nxt p (max s.now r.nextTime))) := by
  rcases step_cases nxt s e with ⟨hdb, _⟩ | ⟨i, t, _, htq, hw, hdb, _⟩
  · intro r' hr'; rw [hdb] at hr'; exact ⟨r', hr', rfl, Or.inl rfl⟩
  · have ht : t ∈ s.db := won_copy_is_row hI htq hw
    intro r' hr'
    rw [hdb] at hr'
    obtain ⟨r, hf, hcase⟩ := advanceDb_won hw
    rcases hcase with ⟨_, hd⟩ | ⟨_, _, p, hp, hd⟩
    · rw [hd] at hr'
      exact ⟨r', (List.mem_filter.mp hr').1, rfl, Or.inl rfl⟩
    · rw [hd] at hr'
      obtain ⟨x, hx, rfl⟩ := List.mem_map.mp hr'
      refine ⟨x, hx, (advanced_name ..).symm, ?_⟩
      by_cases hname : x.name = t.name
      · have hxt : x = t := hI.uniq x hx t ht hname
        subst hxt
        right
        have := hn p (max s.now x.nextTime)
        refine ⟨by simp [advanced]; omega, by simp [advanced]; omega, p, hp, by simp [advanced]⟩
      · left; simp [advanced, hname]

/-- After a processor that holds a copy of an occurrence has done its advance, that occurrence
    has been won (by it or by somebody else) -- unless the copy has no usable pattern and is not
    on its last execution (never produced by `create`). -/
theorem advance_consumes {nxt : Nat → Nat → Nat} {s : State} (hI : Inv s) {i : Nat}
    {t : Trigger} {rest : List Trigger}
    (hq : (s.procs i).queue = t :: rest) (hp : (s.procs i).pending = none)
    (hc : (s.procs i).crashed = false)
    (hpat : t.pat = none → decr t.remaining = some 0) :
    t ∈ (step nxt s (.advance i)).wins := by
  have htq : t ∈ (s.procs i).queue := by rw [hq]; exact List.mem_cons_self
  have hstep : (step nxt s (.advance i)).wins =
      if (advanceDb nxt s.now s.db t).2 = true then t :: s.wins else s.wins := by
    unfold step; dsimp only
    rw [if_neg (by simp [hc, hp]), hq]
    dsimp only
    split <;> rfl
  rw [hstep]
  by_cases hw : (advanceDb nxt s.now s.db t).2 = true
  · rw [if_pos hw]; exact List.mem_cons_self
  · rw [if_neg hw]
    rcases hI.copies i t htq with h | h
    · exfalso
      apply hw
      obtain ⟨r, hf⟩ := findRow_isSome_of_mem h
      have hrt : r = t := hI.uniq r (findRow_some hf).1 t h (findRow_some hf).2
      subst hrt
      unfold advanceDb
      by_cases h0 : decr r.remaining = some 0
      · simp [h0, hf]
      · cases hpp : r.pat with
        | none => exact absurd (hpat hpp) h0
        | some p => simp [h0, hf]
    · exact h


/-- the processor a step belongs to -/
def stepProc : Step → Option Nat
  | .read i => some i
  | .advance i => some i
  | .start i => some i
  | .crash i => some i
  | .tick _ => none

/-- a step touches no other processor's local state -/
theorem step_frame (nxt : Nat → Nat → Nat) (s : State) (e : Step) (j : Nat)
    (h : stepProc e ≠ some j) : (step nxt s e).procs j = s.procs j := by
  cases e with
  | tick d => simp [step]
  | read i =>
    have hj : j ≠ i := fun e => h (by simp [stepProc, e])
    unfold step; dsimp only; split
    · rfl
    · exact upd_other _ _ hj
  | start i =>
    have hj : j ≠ i := fun e => h (by simp [stepProc, e])
    unfold step; dsimp only; split
    · rfl
    · split
      · rfl
      · exact upd_other _ _ hj
  | crash i =>
    have hj : j ≠ i := fun e => h (by simp [stepProc, e])
    unfold step; dsimp only; split
    · rfl
    · exact upd_other _ _ hj
  | advance i =>
    have hj : j ≠ i := fun e => h (by simp [stepProc, e])
    unfold step; dsimp only; split
    · rfl
    · split
      · rfl
      · split <;> exact upd_other _ _ hj

theorem run_frame (nxt : Nat → Nat → Nat) (es : List Step) (j : Nat) :
    ∀ (s : State), (∀ e ∈ es, stepProc e ≠ some j) → (run nxt s es).procs j = s.procs j := by
  induction es with
  | nil => intro s _; rfl
  | cons e es ih =>
    intro s h
    simp only [run]
    rw [ih _ (fun e' he' => h e' (List.mem_cons_of_mem _ he'))]
    exact step_frame nxt s e j (h e List.mem_cons_self)

end Mistral.Cron
