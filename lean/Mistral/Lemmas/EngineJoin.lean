import Mistral.Lemmas.Engine
namespace Mistral.Engine
open Mistral Mistral.Join

def countL (ts : List TaskRow) (n : String) : Nat := (ts.filter (·.name == n)).length

/-- every join task has at most one execution row -/
def JRU (sp : Spec) (ts : List TaskRow) : Prop :=
  ∀ n, (isJoin sp n).isSome = true → countL ts n ≤ 1

def JoinRowsUnique (sp : Spec) (w : World) : Prop := JRU sp w.tasks

theorem countName_eq_countL (w : World) (n : String) : countName w n = countL w.tasks n := rfl

theorem countL_names (ts : List TaskRow) (n : String) :
    countL ts n = ((ts.map (·.name)).filter (· == n)).length := by
  unfold countL
  induction ts with
  | nil => rfl
  | cons t rest ih =>
    simp only [List.map_cons, List.filter_cons]
    split <;> simp [ih]

theorem setTask_names (ts : List TaskRow) (r : TaskRow) :
    (setTask ts r).map (·.name) = ts.map (·.name) := by
  have := setTask_ids ts r
  have h2 : ∀ l : List TaskRow, l.map (·.name) = (l.map fun x => (x.name, x.occ)).map (·.1) := by
    intro l; simp
  rw [h2, h2, this]

theorem countL_setTask (ts : List TaskRow) (r : TaskRow) (n : String) :
    countL (setTask ts r) n = countL ts n := by
  rw [countL_names, countL_names, setTask_names]

theorem JRU_setTask (sp : Spec) (ts : List TaskRow) (r : TaskRow) (h : JRU sp ts) : JRU sp (setTask ts r) := by
  intro n hn
  rw [countL_setTask]
  exact h n hn

theorem countL_append (ts : List TaskRow) (r : TaskRow) (n : String) :
    countL (ts ++ [r]) n = countL ts n + (if r.name == n then 1 else 0) := by
  unfold countL
  simp only [List.filter_append, List.length_append]
  by_cases h : (r.name == n) = true <;> simp [List.filter_cons, h]

theorem findByName_none_iff (w : World) (n : String) : findByName w n = none ↔ countL w.tasks n = 0 := by
  unfold findByName countL
  cases h : w.tasks.filter (·.name == n) with
  | nil => simp
  | cons x xs => simp [List.getLast?_cons]

theorem JRU_append_nonjoin (sp : Spec) (ts : List TaskRow) (r : TaskRow)
    (hr : isJoin sp r.name = none) (h : JRU sp ts) : JRU sp (ts ++ [r]) := by
  intro n hn
  rw [countL_append]
  have hne : (r.name == n) = false := by
    cases hb : (r.name == n) with
    | false => rfl
    | true =>
      have : r.name = n := by simpa using hb
      rw [this] at hr
      rw [hr] at hn
      simp at hn
  simp only [hne]
  have := h n hn
  simpa using this

theorem JRU_append_newjoin (sp : Spec) (ts : List TaskRow) (r : TaskRow)
    (h0 : countL ts r.name = 0) (h : JRU sp ts) : JRU sp (ts ++ [r]) := by
  intro n hn
  rw [countL_append]
  by_cases hcn : (r.name == n) = true
  · have : r.name = n := by simpa using hcn
    subst this
    simp [h0]
  · simp only [hcn]
    have := h n hn
    simpa using this

theorem dispatchOne_jru (sp : Spec) (w : World) (c : Cmd) (hi : JoinRowsUnique sp w) :
    JoinRowsUnique sp (dispatchOne sp w c) := by
  unfold JoinRowsUnique at *
  unfold dispatchOne
  simp only
  split
  · exact hi
  · split
    · exact hi
    · split
      · split
        · rename_i hnone
          exact JRU_append_newjoin sp w.tasks (newRow w c .WAITING)
            ((findByName_none_iff w c.target).mp hnone) hi
        · simp only
          split
          · exact JRU_setTask sp _ _ hi
          · exact hi
      · rename_i hk
        exact JRU_append_nonjoin sp w.tasks (newRow w c .IDLE) hk hi

theorem dispatch_jru (sp : Spec) (cs : List Cmd) : ∀ w, JoinRowsUnique sp w → JoinRowsUnique sp (dispatch sp w cs) := by
  unfold dispatch
  induction cs with
  | nil => intro w h; exact h
  | cons c rest ih => intro w h; simp only [List.foldl_cons]; exact ih _ (dispatchOne_jru sp w c h)

theorem checkAffected_jru (sp : Spec) (w : World) (t : Tid) (h : JoinRowsUnique sp w) :
    JoinRowsUnique sp (checkAffected sp w t) := by
  unfold JoinRowsUnique at *
  rw [(checkAffected_tasks sp w t).1]; exact h

theorem checkAndComplete_tasks (w : World) : (checkAndComplete w).tasks = w.tasks := by
  unfold checkAndComplete
  split
  · rfl
  · split
    · rfl
    · split
      · rfl
      · split <;> rfl

theorem completeTask_jru (sp : Spec) (w : World) (r : TaskRow) (s : St) (h : JoinRowsUnique sp w) :
    JoinRowsUnique sp (completeTask sp w r s) := by
  unfold completeTask
  by_cases h1 : isCompleted r.state = true
  · simp only [h1, if_true]
    exact checkAffected_jru sp w _ h
  · simp only [h1]
    generalize (if isCompleted w.wf = true then [] else nextOf sp r.name s) = nt
    apply checkAffected_jru
    by_cases h2 : isPaused w.wf = true
    · simp only [h2, if_true]
      exact JRU_setTask sp _ _ h
    · simp only [h2]
      apply dispatch_jru
      unfold JoinRowsUnique
      by_cases h3 : nt.isEmpty = true
      · simp only [h3, if_true]
        exact JRU_setTask sp _ _ (JRU_setTask sp _ _ h)
      · simp only [h3]
        exact JRU_setTask sp _ _ (JRU_setTask sp _ _ h)

end Mistral.Engine
