/-
Invariants of a whole publish history (Model/Hist.lean), for one leaf path `k0 :: rest` at a time.
-/
import Mistral.Lemmas.CtxPath
namespace Mistral.Hist
open Mistral Mistral.Dict Mistral.Ctx

/-! ### generalities -/

theorem uniqueKeys_erase {α : Type} (d : List (String × α)) (k : String) (hu : UniqueKeys d) :
    UniqueKeys (erase d k) := by
  unfold UniqueKeys erase at *
  exact List.Nodup.sublist (List.Sublist.map _ List.filter_sublist) hu

theorem uniqueKeys_update {α : Type} (l r : List (String × α)) (hu : UniqueKeys l) : UniqueKeys (update l r) := by
  unfold update
  induction r generalizing l with
  | nil => simpa using hu
  | cons p rest ih =>
    simp only [List.foldl_cons]
    exact ih _ (uniqueKeys_set l p.1 p.2 hu)

theorem uniqueKeys_bump (vs : Vers) (keys : List String) (hu : UniqueKeys vs) : UniqueKeys (bump vs keys) := by
  unfold bump
  induction keys generalizing vs with
  | nil => simpa using hu
  | cons x xs ih =>
    simp only [List.foldl_cons]
    exact ih _ (uniqueKeys_set vs x _ hu)

theorem uniqueKeys_mergeVers (l r : Vers) (hu : UniqueKeys l) : UniqueKeys (mergeVers l r) := by
  unfold mergeVers
  induction r generalizing l with
  | nil => simpa using hu
  | cons p rest ih =>
    simp only [List.foldl_cons]
    exact ih _ (uniqueKeys_set l p.1 _ hu)

/-- python `left.update(right)` for a right dictionary with unique keys -/
theorem get?_update_unique (c pub : Dict) (hu : UniqueKeys pub) (k : String) :
    get? (update c pub) k = match get? pub k with
      | some v => some v
      | none => get? c k := by
  simp only [get?_update]
  have : get? pub.reverse k = get? pub k := by
    unfold UniqueKeys at hu
    induction pub with
    | nil => rfl
    | cons p rest ih =>
      obtain ⟨k', v'⟩ := p
      simp only [List.map_cons, List.nodup_cons] at hu
      simp only [List.reverse_cons, get?_append, get?_cons, get?_nil]
      rw [ih hu.2]
      by_cases h : k' = k
      · subst h
        simp [get?_none_of_not_mem rest k' hu.1]
      · have : (k' == k) = false := by simpa using h
        simp only [this, Bool.false_eq_true, if_false]
        cases get? rest k <;> rfl
  rw [this]
  cases get? pub k <;> rfl

theorem leafKeysKv_cons (pre : Option String) (k : String) (v : Val) (rest : Dict) :
    leafKeysKv pre ((k, v) :: rest) = leafKeysVal (path pre k) v ++ leafKeysKv pre rest := by
  simp [leafKeysKv]

theorem leafKeysVal_obj (p : String) (kv : Dict) : leafKeysVal p (.obj kv) = leafKeysKv (some p) kv := by
  simp [leafKeysVal]

theorem leafKeysVal_nonobj (p : String) (v : Val) (h : v.isObj = false) : leafKeysVal p v = [p] := by
  cases v <;> simp_all [leafKeysVal, Val.isObj]

theorem leafKeysKv_mem_of_get? (pre : Option String) (x : String) :
    ∀ (kv : Dict) (k : String) (w : Val), get? kv k = some w → x ∈ leafKeysVal (path pre k) w →
      x ∈ leafKeysKv pre kv := by
  intro kv
  induction kv with
  | nil => intro k w h; simp at h
  | cons p rest ih =>
    obtain ⟨k', v'⟩ := p
    intro k w h hx
    rw [leafKeysKv_cons, List.mem_append]
    rw [get?_cons] at h
    by_cases hb : (k' == k) = true
    · have : k' = k := by simpa using hb
      subst this
      simp only [hb, if_true, Option.some.injEq] at h
      subst h
      exact Or.inl hx
    · simp only [hb, Bool.false_eq_true, if_false] at h
      exact Or.inr (ih k w h hx)

/-- the version key of a leaf path of a value is among the keys `_get_published_keys_recursively` lists -/
theorem leafKey_mem : ∀ (rest : List String) (p : String) (v : Val), LeafPath v rest →
    keyOf p rest ∈ leafKeysVal p v := by
  intro rest
  induction rest with
  | nil =>
    intro p v h
    simp only [LeafPath] at h
    rw [leafKeysVal_nonobj p v h]
    simp [keyOf]
  | cons k rest ih =>
    intro p v h
    cases v with
    | obj kv =>
      simp only [LeafPath] at h
      cases hg : get? kv k with
      | none => simp [hg] at h
      | some w =>
        simp only [hg] at h
        rw [leafKeysVal_obj, keyOf_cons]
        exact leafKeysKv_mem_of_get? (some p) _ kv k w hg (by rw [path_some]; exact ih _ w h.2)
    | _ => simp [LeafPath] at h

/-! ### one context at one leaf path -/

/-- the context is well-shaped at the path `k0 :: rest`: the variable is absent (and then the version of
    the path is 0: nothing of it was ever seen) or it holds a LEAF at the path -/
def ShapeOK (k0 : String) (rest : List String) (c : Ctx) : Prop :=
  UniqueKeys c.data ∧ UniqueKeys c.vers ∧
  match get? c.data k0 with
  | none => ver c.vers (keyOf (esc k0) rest) = 0
  | some v => LeafPath v rest

/-- SHAPE-STABLE REPUBLICATION at the path `k0 :: rest` (decidable): a publication that contains the
    variable `k0` has a leaf at the path, one that does not contain it does not touch the version key of
    the path.  (What finding G needs is the negation: the variable republished with another shape.) -/
def StablePub (k0 : String) (rest : List String) (pub : Dict) : Prop :=
  UniqueKeys pub ∧
  match get? pub k0 with
  | some v => LeafPath v rest
  | none => keyOf (esc k0) rest ∉ leafKeysKv none pub

/-! the hypotheses are decidable -/
instance (α : Type) (d : List (String × α)) : Decidable (UniqueKeys d) := by unfold UniqueKeys; exact inferInstance

def LeafPath.dec : (v : Val) → (ks : List String) → Decidable (LeafPath v ks)
  | v, [] => by unfold LeafPath; exact inferInstance
  | .obj kv, k :: rest =>
      match hg : get? kv k with
      | some w =>
        have : Decidable (LeafPath w rest) := LeafPath.dec w rest
        decidable_of_iff (UniqueKeys kv ∧ LeafPath w rest) (by simp [LeafPath, hg])
      | none => isFalse (by simp [LeafPath, hg])
  | .null, _ :: _ => isFalse (by simp [LeafPath])
  | .bool _, _ :: _ => isFalse (by simp [LeafPath])
  | .num _, _ :: _ => isFalse (by simp [LeafPath])
  | .str _, _ :: _ => isFalse (by simp [LeafPath])
  | .list _, _ :: _ => isFalse (by simp [LeafPath])

instance (v : Val) (ks : List String) : Decidable (LeafPath v ks) := LeafPath.dec v ks

instance (k0 : String) (rest : List String) (pub : Dict) : Decidable (StablePub k0 rest pub) := by
  unfold StablePub
  cases get? pub k0 <;> exact inferInstance

theorem getPath_of_get? (d : Dict) (k0 : String) (rest : List String) :
    getPath d k0 rest = match get? d k0 with
      | some v => getPathVal v rest
      | none => none := rfl

theorem shapeOK_empty (k0 : String) (rest : List String) : ShapeOK k0 rest ⟨[], []⟩ := by
  refine ⟨by simp [UniqueKeys], by simp [UniqueKeys], ?_⟩
  simp [ver]

/-- under ShapeOK what sits at the path is a leaf -/
theorem ShapeOK.leaf {k0 : String} {rest : List String} {c : Ctx} (h : ShapeOK k0 rest c) (x : Val)
    (hx : getPath c.data k0 rest = some x) : x.isObj = false := by
  rw [getPath_of_get?] at hx
  cases hg : get? c.data k0 with
  | none => simp [hg] at hx
  | some v =>
    have h3 := h.2.2
    simp only [hg] at h3 hx
    obtain ⟨y, hy, hyo⟩ := LeafPath.get rest v h3
    rw [hy] at hx; cases hx; exact hyo

/-- ... and a positive version means the leaf is there -/
theorem ShapeOK.present {k0 : String} {rest : List String} {c : Ctx} (h : ShapeOK k0 rest c)
    (hv : 0 < ver c.vers (keyOf (esc k0) rest)) : ∃ x, getPath c.data k0 rest = some x := by
  rw [getPath_of_get?]
  cases hg : get? c.data k0 with
  | none =>
    have h3 := h.2.2
    simp only [hg] at h3
    omega
  | some v =>
    have h3 := h.2.2
    simp only [hg] at h3
    obtain ⟨y, hy, _⟩ := LeafPath.get rest v h3
    exact ⟨y, hy⟩

/-- `merge_context_by_version` at one leaf path: the right leaf wins exactly when the path is new on the
    left or its version on the right is strictly higher; the version becomes the maximum. -/
theorem merge_at_path (k0 : String) (rest : List String) (hk : k0 ≠ "__task_execution") (l r : Ctx)
    (hl : ShapeOK k0 rest l) (hr : ShapeOK k0 rest r) :
    ShapeOK k0 rest (mergeByVersion l r) ∧
    ver (mergeByVersion l r).vers (keyOf (esc k0) rest) = max (ver l.vers (keyOf (esc k0) rest)) (ver r.vers (keyOf (esc k0) rest)) ∧
    getPath (mergeByVersion l r).data k0 rest =
      match getPath r.data k0 rest with
      | none => getPath l.data k0 rest
      | some y => match getPath l.data k0 rest with
        | none => some y
        | some x => if ver r.vers (keyOf (esc k0) rest) > ver l.vers (keyOf (esc k0) rest) then some y else some x := by
  obtain ⟨hl1, hl2, hl3⟩ := hl
  obtain ⟨hr1, hr2, hr3⟩ := hr
  have hver : ver (mergeByVersion l r).vers (keyOf (esc k0) rest) =
      max (ver l.vers (keyOf (esc k0) rest)) (ver r.vers (keyOf (esc k0) rest)) := by
    unfold mergeByVersion; exact ver_mergeVers _ _ hr2 _
  have hsl : get? (stripInternal l.data) k0 = get? l.data k0 :=
    get?_erase_other _ _ _ (fun e => hk e.symm)
  have hsr : get? (stripInternal r.data) k0 = get? r.data k0 :=
    get?_erase_other _ _ _ (fun e => hk e.symm)
  have hul : UniqueKeys (stripInternal l.data) := uniqueKeys_erase _ _ hl1
  have hur : UniqueKeys (stripInternal r.data) := uniqueKeys_erase _ _ hr1
  have hget : get? (mergeByVersion l r).data k0 =
      match get? r.data k0 with
      | none => get? l.data k0
      | some v => match get? l.data k0 with
        | none => some v
        | some lval => some (mergeVal l.vers r.vers (esc k0) lval v) := by
    unfold mergeByVersion
    simp only
    rw [mergeKv_get _ _ _ _ _ hur k0, hsl, hsr, path_none]
    cases get? r.data k0 <;> cases get? l.data k0 <;> rfl
  have hud : UniqueKeys (mergeByVersion l r).data := by
    unfold mergeByVersion; exact uniqueKeys_mergeKv _ _ _ _ _ hul
  have huv : UniqueKeys (mergeByVersion l r).vers := by
    unfold mergeByVersion; exact uniqueKeys_mergeVers _ _ hl2
  refine ⟨⟨hud, huv, ?_⟩, hver, ?_⟩
  · rw [hget, hver]
    cases hgr : get? r.data k0 with
    | none =>
      simp only [hgr] at hr3
      cases hgl : get? l.data k0 with
      | none => simp only [hgl] at hl3; simp [hl3, hr3]
      | some a => simp only [hgl] at hl3; exact hl3
    | some b =>
      simp only [hgr] at hr3
      cases hgl : get? l.data k0 with
      | none => exact hr3
      | some a =>
        simp only [hgl] at hl3
        exact (mergeVal_leafPath _ _ rest (esc k0) a b hl3 hr3).1
  · simp only [getPath_of_get?, hget]
    cases hgr : get? r.data k0 with
    | none => simp
    | some b =>
      simp only [hgr] at hr3
      obtain ⟨y, hy, _⟩ := LeafPath.get rest b hr3
      cases hgl : get? l.data k0 with
      | none => simp [hy]
      | some a =>
        simp only [hgl] at hl3
        obtain ⟨x, hx, _⟩ := LeafPath.get rest a hl3
        simp only [(mergeVal_leafPath l.vers r.vers rest (esc k0) a b hl3 hr3).2, hx, hy]

/-- `evaluate_task_outbound_context` at one leaf path, for a shape-stable publication -/
theorem outbound_at_path (k0 : String) (rest : List String) (c : Ctx) (pub : Dict)
    (hp : StablePub k0 rest pub) (hc : ShapeOK k0 rest c) :
    ShapeOK k0 rest (outbound c pub) ∧
    getPath (outbound c pub).data k0 rest =
      (match get? pub k0 with
       | some _ => getPath pub k0 rest
       | none => getPath c.data k0 rest) ∧
    (get? pub k0 = none → ver (outbound c pub).vers (keyOf (esc k0) rest) = ver c.vers (keyOf (esc k0) rest)) ∧
    (get? pub k0 ≠ none → ver c.vers (keyOf (esc k0) rest) < ver (outbound c pub).vers (keyOf (esc k0) rest)) := by
  obtain ⟨hc1, hc2, hc3⟩ := hc
  obtain ⟨hp1, hp2⟩ := hp
  have hget : get? (outbound c pub).data k0 = match get? pub k0 with
      | some v => some v
      | none => get? c.data k0 := by
    unfold outbound; exact get?_update_unique _ _ hp1 k0
  have hver : ver (outbound c pub).vers (keyOf (esc k0) rest) =
      ver c.vers (keyOf (esc k0) rest) + (leafKeysKv none pub).count (keyOf (esc k0) rest) := by
    unfold outbound; exact ver_bump _ _ _
  have hnone : get? pub k0 = none → ver (outbound c pub).vers (keyOf (esc k0) rest) = ver c.vers (keyOf (esc k0) rest) := by
    intro hg
    simp only [hg] at hp2
    rw [hver, List.count_eq_zero_of_not_mem hp2]; rfl
  have hsome : get? pub k0 ≠ none → ver c.vers (keyOf (esc k0) rest) < ver (outbound c pub).vers (keyOf (esc k0) rest) := by
    intro hg
    cases hgp : get? pub k0 with
    | none => exact absurd hgp hg
    | some v =>
      simp only [hgp] at hp2
      have hm : keyOf (esc k0) rest ∈ leafKeysKv none pub :=
        leafKeysKv_mem_of_get? none _ pub k0 v hgp (by rw [path_none]; exact leafKey_mem rest (esc k0) v hp2)
      have : 0 < (leafKeysKv none pub).count (keyOf (esc k0) rest) := List.count_pos_iff.mpr hm
      rw [hver]; omega
  refine ⟨⟨?_, ?_, ?_⟩, ?_, hnone, hsome⟩
  · unfold outbound; exact uniqueKeys_update _ _ hc1
  · unfold outbound; exact uniqueKeys_bump _ _ hc2
  · rw [hget]
    cases hgp : get? pub k0 with
    | some v => simp only [hgp] at hp2; exact hp2
    | none =>
      simp only
      rw [hnone hgp]
      exact hc3
  · simp only [getPath_of_get?, hget]
    cases hgp : get? pub k0 <;> rfl

/-- the rule of `merge_at_path` on one "cell" (leaf or nothing, version) -/
def cellVal {α : Type} (oa : Option α) (na : Nat) (ob : Option α) (nb : Nat) : Option α :=
  match ob with
  | none => oa
  | some y => match oa with
    | none => some y
    | some x => if nb > na then some y else some x

/-- the cell rule is associative when "nothing" carries version 0: no tie hypothesis (under either
    bracketing the leftmost leaf of maximal version wins) -/
theorem cell_assoc {α : Type} (oa ob oc : Option α) (na nb nc : Nat)
    (ha : oa = none → na = 0) (hb : ob = none → nb = 0) (hc : oc = none → nc = 0) :
    cellVal (cellVal oa na ob nb) (max na nb) oc nc = cellVal oa na (cellVal ob nb oc nc) (max nb nc) := by
  by_cases h1 : nb > na <;> by_cases h2 : nc > nb
  all_goals
    cases oa <;> cases ob <;> cases oc <;> simp only [cellVal, h1, h2, ↓reduceIte]
  all_goals (try have ha := ha rfl) <;> (try have hb := hb rfl) <;> (try have hc := hc rfl)
  all_goals first
    | rfl
    | (split <;> first | rfl | (exfalso; omega))
    | (split <;> split <;> first | rfl | (exfalso; omega))

theorem merge_at_path_cell (k0 : String) (rest : List String) (hk : k0 ≠ "__task_execution") (l r : Ctx)
    (hl : ShapeOK k0 rest l) (hr : ShapeOK k0 rest r) :
    getPath (mergeByVersion l r).data k0 rest =
      cellVal (getPath l.data k0 rest) (ver l.vers (keyOf (esc k0) rest)) (getPath r.data k0 rest)
        (ver r.vers (keyOf (esc k0) rest)) := by
  rw [(merge_at_path k0 rest hk l r hl hr).2.2]
  cases getPath r.data k0 rest <;> cases getPath l.data k0 rest <;> rfl

/-! ### the fold over the parents -/

theorem upstream_nil : upstream [] = ⟨[], []⟩ := rfl

theorem upstream_snoc (ys : List Ctx) (a : Ctx) : upstream (ys ++ [a]) = ys.foldl mergeByVersion a := by
  unfold upstream
  simp

/-- a predicate that holds of the empty context and is preserved by the version merge holds of
    `evaluate_upstream_context`, in whatever order the rows are listed -/
theorem upstream_ind (Q : Ctx → Prop) (hempty : Q ⟨[], []⟩)
    (hmerge : ∀ l r, Q l → Q r → Q (mergeByVersion l r)) (outs : List Ctx) (h : ∀ c ∈ outs, Q c) :
    Q (upstream outs) := by
  cases hl : outs.getLast? with
  | none =>
    have : outs = [] := by simpa using hl
    subst this; exact hempty
  | some last =>
    obtain ⟨ys, hys⟩ := List.getLast?_eq_some_iff.mp hl
    subst hys
    rw [upstream_snoc]
    have hlast : Q last := h last (by simp)
    have hys : ∀ c ∈ ys, Q c := fun c hc => h c (by simp [hc])
    clear h hl
    induction ys generalizing last with
    | nil => simpa using hlast
    | cons y ys ih =>
      simp only [List.foldl_cons]
      exact ih _ (hmerge _ _ hlast (hys y (by simp))) (fun c hc => hys c (by simp [hc]))

/-- the version of a path after the fold dominates the version in every folded context -/
theorem ver_upstream_ge (k : String) (outs : List Ctx) (hu : ∀ c ∈ outs, UniqueKeys c.vers) :
    ∀ c ∈ outs, ver c.vers k ≤ ver (upstream outs).vers k := by
  cases hl : outs.getLast? with
  | none =>
    have : outs = [] := by simpa using hl
    subst this; intro c hc; simp at hc
  | some last =>
    obtain ⟨ys, hys⟩ := List.getLast?_eq_some_iff.mp hl
    subst hys
    rw [upstream_snoc]
    have key : ∀ (ys : List Ctx) (a : Ctx), (∀ c ∈ ys, UniqueKeys c.vers) →
        ver a.vers k ≤ ver (ys.foldl mergeByVersion a).vers k ∧
        ∀ c ∈ ys, ver c.vers k ≤ ver (ys.foldl mergeByVersion a).vers k := by
      intro ys
      induction ys with
      | nil => intro a _; simp
      | cons y ys ih =>
        intro a hu
        simp only [List.foldl_cons]
        obtain ⟨h1, h2⟩ := ih (mergeByVersion a y) (fun c hc => hu c (by simp [hc]))
        have hm : ver (mergeByVersion a y).vers k = max (ver a.vers k) (ver y.vers k) := by
          unfold mergeByVersion; exact ver_mergeVers _ _ (hu y (by simp)) k
        refine ⟨by omega, ?_⟩
        intro c hc
        simp only [List.mem_cons] at hc
        rcases hc with rfl | hc
        · omega
        · exact h2 c hc
    obtain ⟨h1, h2⟩ := key ys last (fun c hc => hu c (by simp [hc]))
    intro c hc
    simp only [List.mem_append, List.mem_singleton] at hc
    rcases hc with hc | rfl
    · exact h2 c hc
    · exact h1

/-! ### the run -/

theorem ShapeOK.absent {k0 : String} {rest : List String} {c : Ctx} (h : ShapeOK k0 rest c)
    (hx : getPath c.data k0 rest = none) : ver c.vers (keyOf (esc k0) rest) = 0 := by
  rw [getPath_of_get?] at hx
  cases hg : get? c.data k0 with
  | none => have h3 := h.2.2; simp only [hg] at h3; exact h3
  | some v =>
    have h3 := h.2.2
    simp only [hg] at h3 hx
    obtain ⟨y, hy, _⟩ := LeafPath.get rest v h3
    rw [hy] at hx; cases hx

theorem snoc_lookup {α : Type} (rows : List α) (nr : α) (i : Nat) (r : α) (h : (rows ++ [nr])[i]? = some r) :
    (i < rows.length ∧ rows[i]? = some r) ∨ (i = rows.length ∧ r = nr) := by
  by_cases hi : i < rows.length
  · rw [List.getElem?_append_left hi] at h; exact Or.inl ⟨hi, h⟩
  · have hle : rows.length ≤ i := by omega
    rw [List.getElem?_append_right hle] at h
    have : i - rows.length = 0 := by
      apply Decidable.byContradiction
      intro hne
      have : [nr][i - rows.length]? = none := by
        apply List.getElem?_eq_none; simp; omega
      rw [this] at h; cases h
    rw [this] at h
    simp at h
    exact Or.inr ⟨by omega, h.symm⟩

theorem lookup_lt {α : Type} {rows : List α} {i : Nat} {r : α} (h : rows[i]? = some r) : i < rows.length := by
  obtain ⟨hi, _⟩ := List.getElem?_eq_some_iff.mp h; exact hi

/-- The invariant of a run at the leaf path `k0 :: rest` (every task's publication shape-stable at it). -/
structure Good (k0 : String) (rest : List String) (rows : List Row) : Prop where
  shapeIn : ∀ (i : Nat) (r : Row), rows[i]? = some r → ShapeOK k0 rest r.inb
  outOfIn : ∀ (i : Nat) (r : Row), rows[i]? = some r → r.out = outbound r.inb r.task.pub
  stable : ∀ (i : Nat) (r : Row), rows[i]? = some r → StablePub k0 rest r.task.pub
  ancLt : ∀ (i : Nat) (r : Row), rows[i]? = some r → ∀ q ∈ r.anc, q < i
  ancTrans : ∀ (i : Nat) (r : Row), rows[i]? = some r → ∀ q ∈ r.anc, ∀ rq : Row, rows[q]? = some rq → ∀ q' ∈ rq.anc, q' ∈ r.anc
  /-- the version a task sees dominates the outbound version of every causal ancestor -/
  domIn : ∀ (i : Nat) (r : Row), rows[i]? = some r → ∀ q ∈ r.anc, ∀ rq : Row, rows[q]? = some rq →
    ver rq.out.vers (keyOf (esc k0) rest) ≤ ver r.inb.vers (keyOf (esc k0) rest)
  /-- the leaf a task sees was published by a causal ancestor whose outbound version is the version seen -/
  witIn : ∀ (i : Nat) (r : Row), rows[i]? = some r → ∀ x, getPath r.inb.data k0 rest = some x →
    ∃ q ∈ r.anc, ∃ rq : Row, rows[q]? = some rq ∧ getPath rq.task.pub k0 rest = some x ∧
      ver rq.out.vers (keyOf (esc k0) rest) = ver r.inb.vers (keyOf (esc k0) rest)

theorem Good.shapeOut {k0 : String} {rest : List String} {rows : List Row} (g : Good k0 rest rows)
    (i : Nat) (r : Row) (h : rows[i]? = some r) : ShapeOK k0 rest r.out := by
  rw [g.outOfIn i r h]
  exact (outbound_at_path k0 rest _ _ (g.stable i r h) (g.shapeIn i r h)).1

theorem Good.verInOut {k0 : String} {rest : List String} {rows : List Row} (g : Good k0 rest rows)
    (i : Nat) (r : Row) (h : rows[i]? = some r) :
    ver r.inb.vers (keyOf (esc k0) rest) ≤ ver r.out.vers (keyOf (esc k0) rest) := by
  rw [g.outOfIn i r h]
  obtain ⟨_, _, h1, h2⟩ := outbound_at_path k0 rest _ _ (g.stable i r h) (g.shapeIn i r h)
  cases hg : get? r.task.pub k0 with
  | none => rw [h1 hg]; exact Nat.le_refl _
  | some v => exact Nat.le_of_lt (h2 (by simp [hg]))

theorem good_nil (k0 : String) (rest : List String) : Good k0 rest [] := by
  constructor <;> intro i r h <;> simp at h

theorem mem_parentRows (rows : List Row) (t : Task) (pr : Row) :
    pr ∈ parentRows rows t ↔ ∃ p ∈ t.parents, rows[p]? = some pr := by
  unfold parentRows
  simp [List.mem_filterMap]

theorem good_step (k0 : String) (rest : List String) (hk : k0 ≠ "__task_execution")
    (rows : List Row) (t : Task) (g : Good k0 rest rows) (ht : StablePub k0 rest t.pub) :
    Good k0 rest (stepRow rows t) := by
  -- the new row
  have hstep : stepRow rows t = rows ++ [newRow rows t] := rfl
  rw [hstep]
  generalize hnr : newRow rows t = nr
  have hnt : nr.task = t := by rw [← hnr]; rfl
  have hni : nr.inb = upstream ((parentRows rows t).map (·.out)) := by rw [← hnr]; rfl
  have hno : nr.out = outbound nr.inb nr.task.pub := by rw [← hnr]; rfl
  have hna : ∀ q, q ∈ nr.anc ↔ (q ∈ t.parents ∧ q < rows.length) ∨ ∃ pr ∈ parentRows rows t, q ∈ pr.anc := by
    intro q; rw [← hnr]; simp [newRow, List.mem_append, List.mem_filter, List.mem_flatMap]
  -- facts about the parents
  have hpsShape : ∀ c ∈ (parentRows rows t).map (·.out), ShapeOK k0 rest c := by
    intro c hc
    obtain ⟨pr, hpr, rfl⟩ := List.mem_map.mp hc
    obtain ⟨p, _, hp⟩ := (mem_parentRows rows t pr).mp hpr
    exact g.shapeOut p pr hp
  have hShapeIn : ShapeOK k0 rest nr.inb := by
    rw [hni]
    exact upstream_ind (ShapeOK k0 rest) (shapeOK_empty k0 rest)
      (fun l r hl hr => (merge_at_path k0 rest hk l r hl hr).1) _ hpsShape
  have hge : ∀ pr ∈ parentRows rows t, ver pr.out.vers (keyOf (esc k0) rest) ≤ ver nr.inb.vers (keyOf (esc k0) rest) := by
    intro pr hpr
    rw [hni]
    exact ver_upstream_ge _ _ (fun c hc => (hpsShape c hc).2.1) pr.out (List.mem_map.mpr ⟨pr, hpr, rfl⟩)
  have hAncLt : ∀ q ∈ nr.anc, q < rows.length := by
    intro q hq
    rcases (hna q).mp hq with ⟨_, h⟩ | ⟨pr, hpr, hq⟩
    · exact h
    · obtain ⟨p, _, hp⟩ := (mem_parentRows rows t pr).mp hpr
      have := g.ancLt p pr hp q hq
      have := lookup_lt hp
      omega
  have hold : ∀ q, q < rows.length → (rows ++ [nr])[q]? = rows[q]? := fun q hq => List.getElem?_append_left hq
  have hAncTrans : ∀ q ∈ nr.anc, ∀ rq, rows[q]? = some rq → ∀ q' ∈ rq.anc, q' ∈ nr.anc := by
    intro q hq rq hrq q' hq'
    rcases (hna q).mp hq with ⟨hqp, _⟩ | ⟨pr, hpr, hq⟩
    · exact (hna q').mpr (Or.inr ⟨rq, (mem_parentRows rows t rq).mpr ⟨q, hqp, hrq⟩, hq'⟩)
    · obtain ⟨p, _, hp⟩ := (mem_parentRows rows t pr).mp hpr
      exact (hna q').mpr (Or.inr ⟨pr, hpr, g.ancTrans p pr hp q hq rq hrq q' hq'⟩)
  have hDom : ∀ q ∈ nr.anc, ∀ rq, rows[q]? = some rq →
      ver rq.out.vers (keyOf (esc k0) rest) ≤ ver nr.inb.vers (keyOf (esc k0) rest) := by
    intro q hq rq hrq
    rcases (hna q).mp hq with ⟨hqp, _⟩ | ⟨pr, hpr, hq⟩
    · exact hge rq ((mem_parentRows rows t rq).mpr ⟨q, hqp, hrq⟩)
    · obtain ⟨p, _, hp⟩ := (mem_parentRows rows t pr).mp hpr
      have h1 := g.domIn p pr hp q hq rq hrq
      have h2 := g.verInOut p pr hp
      have h3 := hge pr hpr
      omega
  -- the witness property, preserved by the fold
  let W : Ctx → Prop := fun c => ShapeOK k0 rest c ∧ ∀ x, getPath c.data k0 rest = some x →
    ∃ q ∈ nr.anc, ∃ rq, rows[q]? = some rq ∧ getPath rq.task.pub k0 rest = some x ∧
      ver rq.out.vers (keyOf (esc k0) rest) = ver c.vers (keyOf (esc k0) rest)
  have hWempty : W ⟨[], []⟩ := by
    refine ⟨shapeOK_empty k0 rest, ?_⟩
    intro x hx; simp [getPath] at hx
  have hWmerge : ∀ l r, W l → W r → W (mergeByVersion l r) := by
    intro l r ⟨hl, wl⟩ ⟨hr, wr⟩
    obtain ⟨hs, hv, hp⟩ := merge_at_path k0 rest hk l r hl hr
    refine ⟨hs, ?_⟩
    intro x hx
    rw [hp] at hx
    rw [hv]
    cases hgr : getPath r.data k0 rest with
    | none =>
      simp only [hgr] at hx
      obtain ⟨q, hq, rq, h1, h2, h3⟩ := wl x hx
      have := hr.absent hgr
      exact ⟨q, hq, rq, h1, h2, by omega⟩
    | some y =>
      simp only [hgr] at hx
      cases hgl : getPath l.data k0 rest with
      | none =>
        simp only [hgl] at hx
        have hxe : y = x := Option.some.inj hx
        obtain ⟨q, hq, rq, h1, h2, h3⟩ := wr y hgr
        have := hl.absent hgl
        exact ⟨q, hq, rq, h1, hxe ▸ h2, by omega⟩
      | some x' =>
        simp only [hgl] at hx
        by_cases hc : ver r.vers (keyOf (esc k0) rest) > ver l.vers (keyOf (esc k0) rest)
        · simp only [hc, if_true] at hx
          have hxe : y = x := Option.some.inj hx
          obtain ⟨q, hq, rq, h1, h2, h3⟩ := wr y hgr
          exact ⟨q, hq, rq, h1, hxe ▸ h2, by omega⟩
        · simp only [hc, if_false] at hx
          have hxe : x' = x := Option.some.inj hx
          obtain ⟨q, hq, rq, h1, h2, h3⟩ := wl x' hgl
          exact ⟨q, hq, rq, h1, hxe ▸ h2, by omega⟩
  have hWps : ∀ c ∈ (parentRows rows t).map (·.out), W c := by
    intro c hc
    obtain ⟨pr, hpr, rfl⟩ := List.mem_map.mp hc
    obtain ⟨p, hpp, hp⟩ := (mem_parentRows rows t pr).mp hpr
    refine ⟨hpsShape _ hc, ?_⟩
    intro x hx
    have hpin : p ∈ nr.anc := (hna p).mpr (Or.inl ⟨hpp, lookup_lt hp⟩)
    have hout := g.outOfIn p pr hp
    obtain ⟨_, h1, h2, _⟩ := outbound_at_path k0 rest _ _ (g.stable p pr hp) (g.shapeIn p pr hp)
    rw [← hout] at h1 h2
    cases hg : get? pr.task.pub k0 with
    | some v =>
      simp only [hg] at h1
      exact ⟨p, hpin, pr, hp, by rw [← h1]; exact hx, rfl⟩
    | none =>
      simp only [hg] at h1
      rw [h1] at hx
      obtain ⟨q, hq, rq, e1, e2, e3⟩ := g.witIn p pr hp x hx
      exact ⟨q, (hna q).mpr (Or.inr ⟨pr, hpr, hq⟩), rq, e1, e2, by rw [h2 hg]; exact e3⟩
  have hWit : W nr.inb := by
    rw [hni]; exact upstream_ind W hWempty hWmerge _ hWps
  -- assemble
  constructor
  · intro i r h
    rcases snoc_lookup rows nr i r h with ⟨_, h⟩ | ⟨_, rfl⟩
    · exact g.shapeIn i r h
    · exact hShapeIn
  · intro i r h
    rcases snoc_lookup rows nr i r h with ⟨_, h⟩ | ⟨_, rfl⟩
    · exact g.outOfIn i r h
    · exact hno
  · intro i r h
    rcases snoc_lookup rows nr i r h with ⟨_, h⟩ | ⟨_, rfl⟩
    · exact g.stable i r h
    · rw [hnt]; exact ht
  · intro i r h q hq
    rcases snoc_lookup rows nr i r h with ⟨_, h⟩ | ⟨hi, rfl⟩
    · exact g.ancLt i r h q hq
    · rw [hi]; exact hAncLt q hq
  · intro i r h q hq rq hrq q' hq'
    rcases snoc_lookup rows nr i r h with ⟨hi, h⟩ | ⟨_, rfl⟩
    · have hql := g.ancLt i r h q hq
      rw [hold q (by omega)] at hrq
      exact g.ancTrans i r h q hq rq hrq q' hq'
    · rw [hold q (hAncLt q hq)] at hrq
      exact hAncTrans q hq rq hrq q' hq'
  · intro i r h q hq rq hrq
    rcases snoc_lookup rows nr i r h with ⟨hi, h⟩ | ⟨_, rfl⟩
    · have hql := g.ancLt i r h q hq
      rw [hold q (by omega)] at hrq
      exact g.domIn i r h q hq rq hrq
    · rw [hold q (hAncLt q hq)] at hrq
      exact hDom q hq rq hrq
  · intro i r h x hx
    rcases snoc_lookup rows nr i r h with ⟨hi, h⟩ | ⟨_, rfl⟩
    · obtain ⟨q, hq, rq, e1, e2, e3⟩ := g.witIn i r h x hx
      have hql := g.ancLt i r h q hq
      exact ⟨q, hq, rq, by rw [hold q (by omega)]; exact e1, e2, e3⟩
    · obtain ⟨q, hq, rq, e1, e2, e3⟩ := hWit.2 x hx
      exact ⟨q, hq, rq, by rw [hold q (hAncLt q hq)]; exact e1, e2, e3⟩

theorem runRows_snoc (h : List Task) (t : Task) : runRows (h ++ [t]) = stepRow (runRows h) t := by
  unfold runRows; simp [List.foldl_append]

theorem snoc_induction {α : Type} {P : List α → Prop} (hnil : P [])
    (hsnoc : ∀ l a, P l → P (l ++ [a])) : ∀ l, P l := by
  intro l
  rw [← List.reverse_reverse l]
  induction l.reverse with
  | nil => exact hnil
  | cons a t ih => rw [List.reverse_cons]; exact hsnoc _ _ ih

/-- every run over a history whose publications are all shape-stable at the path satisfies the invariant -/
theorem good_run (k0 : String) (rest : List String) (hk : k0 ≠ "__task_execution") :
    ∀ (h : List Task), (∀ t ∈ h, StablePub k0 rest t.pub) → Good k0 rest (runRows h) := by
  intro h
  induction h using snoc_induction with
  | hnil => intro _; exact good_nil k0 rest
  | hsnoc l a ih =>
    intro hs
    rw [runRows_snoc]
    exact good_step k0 rest hk _ a (ih (fun t ht => hs t (by simp [ht]))) (hs a (by simp))

end Mistral.Hist
