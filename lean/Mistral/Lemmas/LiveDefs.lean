/-
Shared definitions of the liveness proof of the engine core (C01): forward paths of the walk
`find_indirectly_affected_task_executions`, the blockers of a WAITING join, the explicit
well-formedness hypotheses on a definition.
-/
import Mistral.Lemmas.EngineStart
import Mistral.Lemmas.Affected
namespace Mistral.Engine.Live
open Mistral Mistral.Join Mistral.Engine

/-- all on-clause targets of a task, as `find_outbound_task_names` sees them -/
def outsOf (sp : Spec) (n : String) : List String :=
  match sp.graph.tasks.find? (·.name == n) with
  | some t => outNames sp.graph t
  | none => []

def known (sp : Spec) (n : String) : Bool := (sp.graph.tasks.find? (·.name == n)).isSome

/-- a task the forward walk passes through: a task of the definition that is not a join with an
    execution row -/
def passes (sp : Spec) (w : World) (n : String) : Bool := known sp n && !joinWithRow sp w n

/-- a path of transitions from `x` to `j` (length ≥ 1) whose intermediate tasks the forward walk
    passes through -/
inductive Path (sp : Spec) (w : World) : String → String → Prop
  | edge {x j : String} : j ∈ outsOf sp x → Path sp w x j
  | cons {x y j : String} : y ∈ outsOf sp x → passes sp w y = true → Path sp w y j → Path sp w x j

/-- the budget of the model's walk (python's walk has none) -/
def walkFuel (sp : Spec) : Nat := (sp.graph.tasks.length + 1) * (sp.graph.tasks.length + 1) + 8

/-- the walk budget of the MODEL covers the transitions of the definition -/
def walkBudgetOK (sp : Spec) : Prop :=
  (sp.graph.tasks.map fun t => (outNames sp.graph t).length).sum ≤ walkFuel sp

instance (sp : Spec) : Decidable (walkBudgetOK sp) := by unfold walkBudgetOK; exact inferInstance

/-- task names are unique (they are the keys of a YAML mapping) -/
def namesUnique (sp : Spec) : Prop := (sp.graph.tasks.map (·.name)).Nodup

/-- `join: N` never asks for more inbound tasks than there are (`_check_join_tasks` of the
    validator rejects such a definition) -/
def joinsSatisfiable (sp : Spec) : Prop :=
  ∀ t ∈ sp.graph.tasks, ∀ n, t.join = some (.count n) → n ≤ (inbound sp.graph t.name).length

/-- what keeps a WAITING join waiting: an incomplete execution with a path to it, or (while
    PAUSED) a completed execution not yet continued that fired a route to a task without a row
    from which there is a path to it -/
def BlockedBy (sp : Spec) (w : World) (j : String) : Prop :=
  ∃ u ∈ w.tasks,
    (isCompleted u.state = false ∧ Path sp w u.name j) ∨
    (isCompleted u.state = true ∧ u.processed = false ∧
      ∃ x ∈ u.nextTasks, findByName w x.1 = none ∧ Path sp w x.1 j)

end Mistral.Engine.Live
