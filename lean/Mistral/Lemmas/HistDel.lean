/-
The run invariant of Lemmas/Hist.lean under a WEAKER hypothesis: a publication may republish the variable
WHOLESALE WITHOUT the leaf (dictionaries all the way down to a key that is simply missing) - the case
"one branch republishes the dict without a leaf while a sibling publishes that leaf".  What is still
excluded is a value of ANOTHER SHAPE at the path (a non-dict above it, a dict at it: finding G) and a
leaf-dropping republication in a branch that has already seen TWO generations of the leaf (then a context
that lacks the leaf carries a version that a staler copy can inherit: finding G again).
-/
import Mistral.Lemmas.HistAnc
namespace Mistral.Hist
open Mistral Mistral.Dict Mistral.Ctx

/-- the path leads through dictionaries with unique keys to a LEAF or to a MISSING key -/
def SpinePath : Val → List String → Prop
  | v, [] => v.isObj = false
  | .obj kv, k :: rest => UniqueKeys kv ∧ match get? kv k with
    | some v => SpinePath v rest
    | none => True
  | _, _ :: _ => False

def SpinePath.dec : (v : Val) → (ks : List String) → Decidable (SpinePath v ks)
  | v, [] => by unfold SpinePath; exact inferInstance
  | .obj kv, k :: rest =>
      match hg : get? kv k with
      | some w =>
        have : Decidable (SpinePath w rest) := SpinePath.dec w rest
        decidable_of_iff (UniqueKeys kv ∧ SpinePath w rest) (by simp [SpinePath, hg])
      | none => decidable_of_iff (UniqueKeys kv) (by simp [SpinePath, hg])
  | .null, _ :: _ => isFalse (by simp [SpinePath])
  | .bool _, _ :: _ => isFalse (by simp [SpinePath])
  | .num _, _ :: _ => isFalse (by simp [SpinePath])
  | .str _, _ :: _ => isFalse (by simp [SpinePath])
  | .list _, _ :: _ => isFalse (by simp [SpinePath])

instance (v : Val) (ks : List String) : Decidable (SpinePath v ks) := SpinePath.dec v ks

theorem LeafPath.spine : ∀ (rest : List String) (v : Val), LeafPath v rest → SpinePath v rest := by
  intro rest
  induction rest with
  | nil => intro v h; exact h
  | cons k rest ih =>
    intro v h
    cases v with
    | obj kv =>
      simp only [LeafPath] at h
      simp only [SpinePath]
      refine ⟨h.1, ?_⟩
      cases hg : get? kv k with
      | none => trivial
      | some w => simp only [hg] at h; exact ih w h.2
    | _ => simp [LeafPath] at h

/-- on a spine, what is found at the end of the path is a leaf, and the path is then a leaf path -/
theorem SpinePath.leafPath : ∀ (rest : List String) (v : Val) (x : Val), SpinePath v rest →
    getPathVal v rest = some x → LeafPath v rest ∧ x.isObj = false := by
  intro rest
  induction rest with
  | nil =>
    intro v x h hx
    rw [getPathVal_nil] at hx; cases hx
    exact ⟨h, h⟩
  | cons k rest ih =>
    intro v x h hx
    cases v with
    | obj kv =>
      simp only [SpinePath] at h
      rw [getPathVal_obj_cons] at hx
      cases hg : get? kv k with
      | none => simp [hg] at hx
      | some w =>
        simp only [hg] at h hx
        obtain ⟨h1, h2⟩ := ih w x h.2 hx
        exact ⟨by simp only [LeafPath, hg]; exact ⟨h.1, h1⟩, h2⟩
    | _ => simp [SpinePath] at h

theorem cellVal_none_right {α : Type} (oa : Option α) (na nb : Nat) : cellVal oa na none nb = oa := rfl

theorem cellVal_none_left {α : Type} (ob : Option α) (na nb : Nat) : cellVal none na ob nb = ob := by
  cases ob <;> rfl

theorem cellVal_eq_none {α : Type} (oa ob : Option α) (na nb : Nat) (h : cellVal oa na ob nb = none) :
    oa = none ∧ ob = none := by
  cases oa <;> cases ob <;> simp [cellVal] at h ⊢
  split at h <;> cases h

/-- `_merge_ctx` along a spine: the cell rule, with "missing at any depth" as "nothing" -/
theorem mergeVal_spine (lv rv : Vers) : ∀ (ks : List String) (p : String) (a b : Val),
    SpinePath a ks → SpinePath b ks →
    SpinePath (mergeVal lv rv p a b) ks ∧
    getPathVal (mergeVal lv rv p a b) ks =
      cellVal (getPathVal a ks) (ver lv (keyOf p ks)) (getPathVal b ks) (ver rv (keyOf p ks)) := by
  intro ks
  induction ks with
  | nil =>
    intro p a b ha hb
    simp only [SpinePath] at ha hb
    have hnb : (a.isObj && b.isObj) = false := by simp [ha]
    rw [mergeVal_not_both _ _ _ _ _ hnb]
    simp only [keyOf_nil, getPathVal_nil, cellVal]
    by_cases hc : ver rv p > ver lv p
    · simp only [hc, if_true]; exact ⟨hb, trivial⟩
    · simp only [hc, if_false]; exact ⟨ha, trivial⟩
  | cons k rest ih =>
    intro p a b ha hb
    cases a with
    | obj akv =>
      cases b with
      | obj bkv =>
        simp only [SpinePath] at ha hb
        have hu : UniqueKeys (mergeKv lv rv (some p) akv bkv) := uniqueKeys_mergeKv _ _ _ _ _ ha.1
        have hg := mergeKv_get lv rv (some p) bkv akv hb.1 k
        rw [mergeVal_obj_obj]
        simp only [getPathVal_obj_cons, keyOf_cons, SpinePath]
        cases hga : get? akv k with
        | none =>
          cases hgb : get? bkv k with
          | none =>
            simp only [hga, hgb] at hg
            simp only [hg]
            exact ⟨⟨hu, trivial⟩, rfl⟩
          | some b' =>
            simp only [hga, hgb] at hg hb
            simp only [hg]
            exact ⟨⟨hu, hb.2⟩, (cellVal_none_left _ _ _).symm⟩
        | some a' =>
          cases hgb : get? bkv k with
          | none =>
            simp only [hga, hgb] at hg ha
            simp only [hg]
            exact ⟨⟨hu, ha.2⟩, rfl⟩
          | some b' =>
            simp only [hga, hgb] at hg ha hb
            simp only [hg, path_some]
            obtain ⟨h1, h2⟩ := ih (p ++ "." ++ esc k) a' b' ha.2 hb.2
            exact ⟨⟨hu, h1⟩, h2⟩
      | _ => simp [SpinePath] at hb
    | _ => simp [SpinePath] at ha

/-! ### one context at one path, leaf-dropping republication allowed -/

/-- the context is well-shaped at the path: the variable, where present, has a spine along the path; and a
    context that does NOT hold the leaf has seen at most one generation of it -/
def ShapeOK2 (k0 : String) (rest : List String) (c : Ctx) : Prop :=
  UniqueKeys c.data ∧ UniqueKeys c.vers ∧
  (match get? c.data k0 with
   | none => True
   | some v => SpinePath v rest) ∧
  (getPath c.data k0 rest = none → ver c.vers (keyOf (esc k0) rest) ≤ 1)

/-- SPINE-STABLE REPUBLICATION at the path (decidable): a publication that contains the variable has
    dictionaries along the path down to a leaf or to a missing key (it may DROP the leaf, it may not put a
    non-dict above it or a dict at it); the version key of the path is bumped at most once, and only by a
    publication of the leaf. -/
def StablePub2 (k0 : String) (rest : List String) (pub : Dict) : Prop :=
  UniqueKeys pub ∧
  (match get? pub k0 with
   | some v => SpinePath v rest
   | none => True) ∧
  (getPath pub k0 rest = none → keyOf (esc k0) rest ∉ leafKeysKv none pub) ∧
  (leafKeysKv none pub).count (keyOf (esc k0) rest) ≤ 1

instance (k0 : String) (rest : List String) (pub : Dict) : Decidable (StablePub2 k0 rest pub) := by
  unfold StablePub2
  cases get? pub k0 <;> exact inferInstance

theorem shapeOK2_empty (k0 : String) (rest : List String) : ShapeOK2 k0 rest ⟨[], []⟩ := by
  refine ⟨by simp [UniqueKeys], by simp [UniqueKeys], by simp, ?_⟩
  intro _; simp [ver]

theorem ShapeOK2.leaf {k0 : String} {rest : List String} {c : Ctx} (h : ShapeOK2 k0 rest c) (x : Val)
    (hx : getPath c.data k0 rest = some x) : x.isObj = false := by
  rw [getPath_of_get?] at hx
  cases hg : get? c.data k0 with
  | none => simp [hg] at hx
  | some v =>
    have h3 := h.2.2.1
    simp only [hg] at h3 hx
    exact (SpinePath.leafPath rest v x h3 hx).2

theorem merge_at_path2 (k0 : String) (rest : List String) (hk : k0 ≠ "__task_execution") (l r : Ctx)
    (hl : ShapeOK2 k0 rest l) (hr : ShapeOK2 k0 rest r) :
    ShapeOK2 k0 rest (mergeByVersion l r) ∧
    ver (mergeByVersion l r).vers (keyOf (esc k0) rest) = max (ver l.vers (keyOf (esc k0) rest)) (ver r.vers (keyOf (esc k0) rest)) ∧
    getPath (mergeByVersion l r).data k0 rest =
      cellVal (getPath l.data k0 rest) (ver l.vers (keyOf (esc k0) rest)) (getPath r.data k0 rest)
        (ver r.vers (keyOf (esc k0) rest)) := by
  obtain ⟨hl1, hl2, hl3, hl4⟩ := hl
  obtain ⟨hr1, hr2, hr3, hr4⟩ := hr
  have hver : ver (mergeByVersion l r).vers (keyOf (esc k0) rest) =
      max (ver l.vers (keyOf (esc k0) rest)) (ver r.vers (keyOf (esc k0) rest)) := by
    unfold mergeByVersion; exact ver_mergeVers _ _ hr2 _
  have hsl : get? (stripInternal l.data) k0 = get? l.data k0 :=
    get?_erase_other _ _ _ (fun e => hk e.symm)
  have hsr : get? (stripInternal r.data) k0 = get? r.data k0 :=
    get?_erase_other _ _ _ (fun e => hk e.symm)
  have hul : UniqueKeys (stripInternal l.data) := uniqueKeys_erase _ _ hl1
  have hur : UniqueKeys (stripInternal r.data) := uniqueKeys_erase _ _ hr1
  have hget : get? (mergeByVersion l r).data k0 =
      match get? r.data k0 with
      | none => get? l.data k0
      | some v => match get? l.data k0 with
        | none => some v
        | some lval => some (mergeVal l.vers r.vers (esc k0) lval v) := by
    unfold mergeByVersion
    simp only
    rw [mergeKv_get _ _ _ _ _ hur k0, hsl, hsr, path_none]
    cases get? r.data k0 <;> cases get? l.data k0 <;> rfl
  have hud : UniqueKeys (mergeByVersion l r).data := by
    unfold mergeByVersion; exact uniqueKeys_mergeKv _ _ _ _ _ hul
  have huv : UniqueKeys (mergeByVersion l r).vers := by
    unfold mergeByVersion; exact uniqueKeys_mergeVers _ _ hl2
  have hpath : getPath (mergeByVersion l r).data k0 rest =
      cellVal (getPath l.data k0 rest) (ver l.vers (keyOf (esc k0) rest)) (getPath r.data k0 rest)
        (ver r.vers (keyOf (esc k0) rest)) := by
    simp only [getPath_of_get?, hget]
    cases hgr : get? r.data k0 with
    | none => simp [cellVal_none_right]
    | some b =>
      simp only [hgr] at hr3
      cases hgl : get? l.data k0 with
      | none => simp [cellVal_none_left]
      | some a =>
        simp only [hgl] at hl3
        exact (mergeVal_spine l.vers r.vers rest (esc k0) a b hl3 hr3).2
  refine ⟨⟨hud, huv, ?_, ?_⟩, hver, hpath⟩
  · rw [hget]
    cases hgr : get? r.data k0 with
    | none =>
      cases hgl : get? l.data k0 with
      | none => trivial
      | some a => simp only [hgl] at hl3; exact hl3
    | some b =>
      simp only [hgr] at hr3
      cases hgl : get? l.data k0 with
      | none => exact hr3
      | some a =>
        simp only [hgl] at hl3
        exact (mergeVal_spine _ _ rest (esc k0) a b hl3 hr3).1
  · intro hn
    rw [hpath] at hn
    obtain ⟨h1, h2⟩ := cellVal_eq_none _ _ _ _ hn
    have := hl4 h1
    have := hr4 h2
    rw [hver]; omega

/-- `evaluate_task_outbound_context` at one path for a spine-stable publication; a publication that DROPS
    the leaf needs an inbound context that has seen at most one generation of it -/
theorem outbound_at_path2 (k0 : String) (rest : List String) (c : Ctx) (pub : Dict)
    (hp : StablePub2 k0 rest pub) (hc : ShapeOK2 k0 rest c)
    (hdel : get? pub k0 ≠ none → getPath pub k0 rest = none → ver c.vers (keyOf (esc k0) rest) ≤ 1) :
    ShapeOK2 k0 rest (outbound c pub) ∧
    getPath (outbound c pub).data k0 rest =
      (match get? pub k0 with
       | some _ => getPath pub k0 rest
       | none => getPath c.data k0 rest) ∧
    (getPath pub k0 rest = none → ver (outbound c pub).vers (keyOf (esc k0) rest) = ver c.vers (keyOf (esc k0) rest)) ∧
    (getPath pub k0 rest ≠ none →
      ver (outbound c pub).vers (keyOf (esc k0) rest) = ver c.vers (keyOf (esc k0) rest) + 1) := by
  obtain ⟨hc1, hc2, hc3, hc4⟩ := hc
  obtain ⟨hp1, hp2, hp3, hp4⟩ := hp
  have hget : get? (outbound c pub).data k0 = match get? pub k0 with
      | some v => some v
      | none => get? c.data k0 := by
    unfold outbound; exact get?_update_unique _ _ hp1 k0
  have hver : ver (outbound c pub).vers (keyOf (esc k0) rest) =
      ver c.vers (keyOf (esc k0) rest) + (leafKeysKv none pub).count (keyOf (esc k0) rest) := by
    unfold outbound; exact ver_bump _ _ _
  have hnone : getPath pub k0 rest = none →
      ver (outbound c pub).vers (keyOf (esc k0) rest) = ver c.vers (keyOf (esc k0) rest) := by
    intro hg
    rw [hver, List.count_eq_zero_of_not_mem (hp3 hg)]; rfl
  have hsome : getPath pub k0 rest ≠ none →
      ver (outbound c pub).vers (keyOf (esc k0) rest) = ver c.vers (keyOf (esc k0) rest) + 1 := by
    intro hg
    cases hgp : get? pub k0 with
    | none => rw [getPath_of_get?, hgp] at hg; exact absurd rfl hg
    | some v =>
      simp only [hgp] at hp2
      cases hx : getPath pub k0 rest with
      | none => exact absurd hx hg
      | some x =>
        rw [getPath_of_get?, hgp] at hx
        have hlp := (SpinePath.leafPath rest v x hp2 hx).1
        have hm : keyOf (esc k0) rest ∈ leafKeysKv none pub :=
          leafKeysKv_mem_of_get? none _ pub k0 v hgp (by rw [path_none]; exact leafKey_mem rest (esc k0) v hlp)
        have : 0 < (leafKeysKv none pub).count (keyOf (esc k0) rest) := List.count_pos_iff.mpr hm
        rw [hver]; omega
  have hpath : getPath (outbound c pub).data k0 rest =
      (match get? pub k0 with
       | some _ => getPath pub k0 rest
       | none => getPath c.data k0 rest) := by
    simp only [getPath_of_get?, hget]
    cases hgp : get? pub k0 <;> rfl
  refine ⟨⟨?_, ?_, ?_, ?_⟩, hpath, hnone, hsome⟩
  · unfold outbound; exact uniqueKeys_update _ _ hc1
  · unfold outbound; exact uniqueKeys_bump _ _ hc2
  · rw [hget]
    cases hgp : get? pub k0 with
    | some v => simp only [hgp] at hp2; exact hp2
    | none => exact hc3
  · intro hn
    rw [hpath] at hn
    cases hgp : get? pub k0 with
    | some v =>
      simp only [hgp] at hn
      rw [hnone hn]
      exact hdel (by simp [hgp]) hn
    | none =>
      simp only [hgp] at hn
      have hpn : getPath pub k0 rest = none := by rw [getPath_of_get?, hgp]
      rw [hnone hpn]
      exact hc4 hn

/-! ### the run -/

/-- the task republishes the variable WITHOUT the leaf -/
def Drops (k0 : String) (rest : List String) (t : Task) : Prop :=
  get? t.pub k0 ≠ none ∧ getPath t.pub k0 rest = none

/-- the task publishes the LEAF -/
def PublishesLeaf (k0 : String) (rest : List String) (t : Task) : Prop := getPath t.pub k0 rest ≠ none

structure Good2 (k0 : String) (rest : List String) (rows : List Row) : Prop where
  shapeIn : ∀ (i : Nat) (r : Row), rows[i]? = some r → ShapeOK2 k0 rest r.inb
  outOfIn : ∀ (i : Nat) (r : Row), rows[i]? = some r → r.out = outbound r.inb r.task.pub
  stable : ∀ (i : Nat) (r : Row), rows[i]? = some r → StablePub2 k0 rest r.task.pub
  dropLow : ∀ (i : Nat) (r : Row), rows[i]? = some r → Drops k0 rest r.task →
    ver r.inb.vers (keyOf (esc k0) rest) ≤ 1
  ancLt : ∀ (i : Nat) (r : Row), rows[i]? = some r → ∀ q ∈ r.anc, q < i
  ancTrans : ∀ (i : Nat) (r : Row), rows[i]? = some r → ∀ q ∈ r.anc, ∀ rq : Row, rows[q]? = some rq →
    ∀ q' ∈ rq.anc, q' ∈ r.anc
  domIn : ∀ (i : Nat) (r : Row), rows[i]? = some r → ∀ q ∈ r.anc, ∀ rq : Row, rows[q]? = some rq →
    ver rq.out.vers (keyOf (esc k0) rest) ≤ ver r.inb.vers (keyOf (esc k0) rest)
  witIn : ∀ (i : Nat) (r : Row), rows[i]? = some r → ∀ x, getPath r.inb.data k0 rest = some x →
    ∃ q ∈ r.anc, ∃ rq : Row, rows[q]? = some rq ∧ getPath rq.task.pub k0 rest = some x ∧
      ver rq.out.vers (keyOf (esc k0) rest) = ver r.inb.vers (keyOf (esc k0) rest)
  /-- a task does not see the leaf only if nothing of it was ever seen or a causal ancestor dropped it -/
  absIn : ∀ (i : Nat) (r : Row), rows[i]? = some r → getPath r.inb.data k0 rest = none →
    ver r.inb.vers (keyOf (esc k0) rest) = 0 ∨
    ∃ d ∈ r.anc, ∃ rd : Row, rows[d]? = some rd ∧ Drops k0 rest rd.task

theorem Good2.outFacts {k0 : String} {rest : List String} {rows : List Row} (g : Good2 k0 rest rows)
    (i : Nat) (r : Row) (h : rows[i]? = some r) :
    ShapeOK2 k0 rest r.out ∧
    getPath r.out.data k0 rest =
      (match get? r.task.pub k0 with
       | some _ => getPath r.task.pub k0 rest
       | none => getPath r.inb.data k0 rest) ∧
    (getPath r.task.pub k0 rest = none → ver r.out.vers (keyOf (esc k0) rest) = ver r.inb.vers (keyOf (esc k0) rest)) ∧
    (getPath r.task.pub k0 rest ≠ none →
      ver r.out.vers (keyOf (esc k0) rest) = ver r.inb.vers (keyOf (esc k0) rest) + 1) := by
  rw [g.outOfIn i r h]
  exact outbound_at_path2 k0 rest _ _ (g.stable i r h) (g.shapeIn i r h)
    (fun h1 h2 => g.dropLow i r h ⟨h1, h2⟩)

theorem Good2.verInOut {k0 : String} {rest : List String} {rows : List Row} (g : Good2 k0 rest rows)
    (i : Nat) (r : Row) (h : rows[i]? = some r) :
    ver r.inb.vers (keyOf (esc k0) rest) ≤ ver r.out.vers (keyOf (esc k0) rest) := by
  obtain ⟨_, _, h1, h2⟩ := g.outFacts i r h
  cases hg : getPath r.task.pub k0 rest with
  | none => rw [h1 hg]; exact Nat.le_refl _
  | some v => rw [h2 (by simp [hg])]; omega

theorem good2_nil (k0 : String) (rest : List String) : Good2 k0 rest [] := by
  constructor <;> intro i r h <;> simp at h

theorem good2_step (k0 : String) (rest : List String) (hk : k0 ≠ "__task_execution")
    (rows : List Row) (t : Task) (g : Good2 k0 rest rows) (ht : StablePub2 k0 rest t.pub)
    (hdrop : Drops k0 rest t → ver (newRow rows t).inb.vers (keyOf (esc k0) rest) ≤ 1) :
    Good2 k0 rest (stepRow rows t) := by
  have hstep : stepRow rows t = rows ++ [newRow rows t] := rfl
  rw [hstep]
  generalize hnr : newRow rows t = nr at hdrop
  have hnt : nr.task = t := by rw [← hnr]; rfl
  have hni : nr.inb = upstream ((parentRows rows t).map (·.out)) := by rw [← hnr]; rfl
  have hno : nr.out = outbound nr.inb nr.task.pub := by rw [← hnr]; rfl
  have hna : ∀ q, q ∈ nr.anc ↔ (q ∈ t.parents ∧ q < rows.length) ∨ ∃ pr ∈ parentRows rows t, q ∈ pr.anc := by
    intro q; rw [← hnr]; simp [newRow, List.mem_append, List.mem_filter, List.mem_flatMap]
  have hpsShape : ∀ c ∈ (parentRows rows t).map (·.out), ShapeOK2 k0 rest c := by
    intro c hc
    obtain ⟨pr, hpr, rfl⟩ := List.mem_map.mp hc
    obtain ⟨p, _, hp⟩ := (mem_parentRows rows t pr).mp hpr
    exact (g.outFacts p pr hp).1
  have hShapeIn : ShapeOK2 k0 rest nr.inb := by
    rw [hni]
    exact upstream_ind (ShapeOK2 k0 rest) (shapeOK2_empty k0 rest)
      (fun l r hl hr => (merge_at_path2 k0 rest hk l r hl hr).1) _ hpsShape
  have hge : ∀ pr ∈ parentRows rows t, ver pr.out.vers (keyOf (esc k0) rest) ≤ ver nr.inb.vers (keyOf (esc k0) rest) := by
    intro pr hpr
    rw [hni]
    exact ver_upstream_ge _ _ (fun c hc => (hpsShape c hc).2.1) pr.out (List.mem_map.mpr ⟨pr, hpr, rfl⟩)
  have hAncLt : ∀ q ∈ nr.anc, q < rows.length := by
    intro q hq
    rcases (hna q).mp hq with ⟨_, h⟩ | ⟨pr, hpr, hq⟩
    · exact h
    · obtain ⟨p, _, hp⟩ := (mem_parentRows rows t pr).mp hpr
      have := g.ancLt p pr hp q hq
      have := lookup_lt hp
      omega
  have hold : ∀ q, q < rows.length → (rows ++ [nr])[q]? = rows[q]? := fun q hq => List.getElem?_append_left hq
  have hAncTrans : ∀ q ∈ nr.anc, ∀ rq, rows[q]? = some rq → ∀ q' ∈ rq.anc, q' ∈ nr.anc := by
    intro q hq rq hrq q' hq'
    rcases (hna q).mp hq with ⟨hqp, _⟩ | ⟨pr, hpr, hq⟩
    · exact (hna q').mpr (Or.inr ⟨rq, (mem_parentRows rows t rq).mpr ⟨q, hqp, hrq⟩, hq'⟩)
    · obtain ⟨p, _, hp⟩ := (mem_parentRows rows t pr).mp hpr
      exact (hna q').mpr (Or.inr ⟨pr, hpr, g.ancTrans p pr hp q hq rq hrq q' hq'⟩)
  have hDom : ∀ q ∈ nr.anc, ∀ rq, rows[q]? = some rq →
      ver rq.out.vers (keyOf (esc k0) rest) ≤ ver nr.inb.vers (keyOf (esc k0) rest) := by
    intro q hq rq hrq
    rcases (hna q).mp hq with ⟨hqp, _⟩ | ⟨pr, hpr, hq⟩
    · exact hge rq ((mem_parentRows rows t rq).mpr ⟨q, hqp, hrq⟩)
    · obtain ⟨p, _, hp⟩ := (mem_parentRows rows t pr).mp hpr
      have h1 := g.domIn p pr hp q hq rq hrq
      have h2 := g.verInOut p pr hp
      have h3 := hge pr hpr
      omega
  -- the witness property, preserved by the fold; a present leaf has version >= 1 (its witness bumped it)
  let W : Ctx → Prop := fun c => ShapeOK2 k0 rest c ∧ (∀ x, getPath c.data k0 rest = some x →
    1 ≤ ver c.vers (keyOf (esc k0) rest) ∧
    ∃ q ∈ nr.anc, ∃ rq, rows[q]? = some rq ∧ getPath rq.task.pub k0 rest = some x ∧
      ver rq.out.vers (keyOf (esc k0) rest) = ver c.vers (keyOf (esc k0) rest)) ∧
    (getPath c.data k0 rest = none → ver c.vers (keyOf (esc k0) rest) = 0 ∨
      ∃ d ∈ nr.anc, ∃ rd : Row, rows[d]? = some rd ∧ Drops k0 rest rd.task)
  have hWempty : W ⟨[], []⟩ := by
    refine ⟨shapeOK2_empty k0 rest, ?_, ?_⟩
    · intro x hx; simp [getPath] at hx
    · intro _; left; simp [ver]
  have hWmerge : ∀ l r, W l → W r → W (mergeByVersion l r) := by
    intro l r ⟨hl, wl, al⟩ ⟨hr, wr, ar⟩
    obtain ⟨hs, hv, hp⟩ := merge_at_path2 k0 rest hk l r hl hr
    refine ⟨hs, ?_, ?_⟩
    rotate_left
    · intro hn
      rw [hp] at hn
      obtain ⟨h1, h2⟩ := cellVal_eq_none _ _ _ _ hn
      rcases al h1 with z1 | d1
      · rcases ar h2 with z2 | d2
        · left; rw [hv]; omega
        · exact Or.inr d2
      · exact Or.inr d1
    intro x hx
    rw [hp] at hx
    rw [hv]
    cases hgr : getPath r.data k0 rest with
    | none =>
      rw [hgr, cellVal_none_right] at hx
      obtain ⟨h0, q, hq, rq, h1, h2, h3⟩ := wl x hx
      have := hr.2.2.2 hgr
      exact ⟨by omega, q, hq, rq, h1, h2, by omega⟩
    | some y =>
      cases hgl : getPath l.data k0 rest with
      | none =>
        rw [hgr, hgl, cellVal_none_left] at hx
        have hxe : y = x := Option.some.inj hx
        obtain ⟨h0, q, hq, rq, h1, h2, h3⟩ := wr y hgr
        have := hl.2.2.2 hgl
        exact ⟨by omega, q, hq, rq, h1, hxe ▸ h2, by omega⟩
      | some x' =>
        rw [hgr, hgl] at hx
        simp only [cellVal] at hx
        by_cases hc : ver r.vers (keyOf (esc k0) rest) > ver l.vers (keyOf (esc k0) rest)
        · simp only [hc, if_true] at hx
          have hxe : y = x := Option.some.inj hx
          obtain ⟨h0, q, hq, rq, h1, h2, h3⟩ := wr y hgr
          exact ⟨by omega, q, hq, rq, h1, hxe ▸ h2, by omega⟩
        · simp only [hc, if_false] at hx
          have hxe : x' = x := Option.some.inj hx
          obtain ⟨h0, q, hq, rq, h1, h2, h3⟩ := wl x' hgl
          exact ⟨by omega, q, hq, rq, h1, hxe ▸ h2, by omega⟩
  have hWps : ∀ c ∈ (parentRows rows t).map (·.out), W c := by
    intro c hc
    obtain ⟨pr, hpr, rfl⟩ := List.mem_map.mp hc
    obtain ⟨p, hpp, hp⟩ := (mem_parentRows rows t pr).mp hpr
    have hpin : p ∈ nr.anc := (hna p).mpr (Or.inl ⟨hpp, lookup_lt hp⟩)
    obtain ⟨_, h1, h2, h3⟩ := g.outFacts p pr hp
    refine ⟨hpsShape _ hc, ?_, ?_⟩
    rotate_left
    · intro hn
      cases hg : get? pr.task.pub k0 with
      | some v =>
        simp only [hg] at h1
        rw [h1] at hn
        exact Or.inr ⟨p, hpin, pr, hp, ⟨by simp [hg], hn⟩⟩
      | none =>
        simp only [hg] at h1
        rw [h1] at hn
        have hpn : getPath pr.task.pub k0 rest = none := by rw [getPath_of_get?, hg]
        rcases g.absIn p pr hp hn with z | ⟨d, hd, rd, e1, e2⟩
        · left; rw [h2 hpn]; exact z
        · exact Or.inr ⟨d, (hna d).mpr (Or.inr ⟨pr, hpr, hd⟩), rd, e1, e2⟩
    intro x hx
    cases hg : get? pr.task.pub k0 with
    | some v =>
      simp only [hg] at h1
      have hne : getPath pr.task.pub k0 rest ≠ none := by rw [← h1, hx]; simp
      exact ⟨by rw [h3 hne]; omega, p, hpin, pr, hp, by rw [← h1]; exact hx, rfl⟩
    | none =>
      simp only [hg] at h1
      rw [h1] at hx
      have hpn : getPath pr.task.pub k0 rest = none := by rw [getPath_of_get?, hg]
      obtain ⟨q, hq, rq, e1, e2, e3⟩ := g.witIn p pr hp x hx
      -- the witness published: its outbound version is positive
      have hqpos : 1 ≤ ver rq.out.vers (keyOf (esc k0) rest) := by
        have := (g.outFacts q rq e1).2.2.2 (by rw [e2]; simp)
        omega
      exact ⟨by rw [h2 hpn]; omega, q, (hna q).mpr (Or.inr ⟨pr, hpr, hq⟩), rq, e1, e2, by rw [h2 hpn]; exact e3⟩
  have hWit : W nr.inb := by
    rw [hni]; exact upstream_ind W hWempty hWmerge _ hWps
  constructor
  · intro i r h
    rcases snoc_lookup rows nr i r h with ⟨_, h⟩ | ⟨_, rfl⟩
    · exact g.shapeIn i r h
    · exact hShapeIn
  · intro i r h
    rcases snoc_lookup rows nr i r h with ⟨_, h⟩ | ⟨_, rfl⟩
    · exact g.outOfIn i r h
    · exact hno
  · intro i r h
    rcases snoc_lookup rows nr i r h with ⟨_, h⟩ | ⟨_, rfl⟩
    · exact g.stable i r h
    · rw [hnt]; exact ht
  · intro i r h hd
    rcases snoc_lookup rows nr i r h with ⟨_, h⟩ | ⟨_, rfl⟩
    · exact g.dropLow i r h hd
    · exact hdrop (by rw [← hnt]; exact hd)
  · intro i r h q hq
    rcases snoc_lookup rows nr i r h with ⟨_, h⟩ | ⟨hi, rfl⟩
    · exact g.ancLt i r h q hq
    · rw [hi]; exact hAncLt q hq
  · intro i r h q hq rq hrq q' hq'
    rcases snoc_lookup rows nr i r h with ⟨hi, h⟩ | ⟨_, rfl⟩
    · have hql := g.ancLt i r h q hq
      rw [hold q (by omega)] at hrq
      exact g.ancTrans i r h q hq rq hrq q' hq'
    · rw [hold q (hAncLt q hq)] at hrq
      exact hAncTrans q hq rq hrq q' hq'
  · intro i r h q hq rq hrq
    rcases snoc_lookup rows nr i r h with ⟨hi, h⟩ | ⟨_, rfl⟩
    · have hql := g.ancLt i r h q hq
      rw [hold q (by omega)] at hrq
      exact g.domIn i r h q hq rq hrq
    · rw [hold q (hAncLt q hq)] at hrq
      exact hDom q hq rq hrq
  · intro i r h x hx
    rcases snoc_lookup rows nr i r h with ⟨hi, h⟩ | ⟨_, rfl⟩
    · obtain ⟨q, hq, rq, e1, e2, e3⟩ := g.witIn i r h x hx
      have hql := g.ancLt i r h q hq
      exact ⟨q, hq, rq, by rw [hold q (by omega)]; exact e1, e2, e3⟩
    · obtain ⟨_, q, hq, rq, e1, e2, e3⟩ := hWit.2.1 x hx
      exact ⟨q, hq, rq, by rw [hold q (hAncLt q hq)]; exact e1, e2, e3⟩
  · intro i r h hn
    rcases snoc_lookup rows nr i r h with ⟨hi, h⟩ | ⟨_, rfl⟩
    · rcases g.absIn i r h hn with z | ⟨d, hd, rd, e1, e2⟩
      · exact Or.inl z
      · have hdl := g.ancLt i r h d hd
        exact Or.inr ⟨d, hd, rd, by rw [hold d (by omega)]; exact e1, e2⟩
    · rcases hWit.2.2 hn with z | ⟨d, hd, rd, e1, e2⟩
      · exact Or.inl z
      · exact Or.inr ⟨d, hd, rd, by rw [hold d (hAncLt d hd)]; exact e1, e2⟩

/-- the hypothesis on leaf-dropping republications, on the run: a task that republishes the variable
    WITHOUT the leaf has seen at most ONE generation of it (decidable; `dropsLow_of_first_generation`
    gives a condition on the DAG alone) -/
def DropsLow (k0 : String) (rest : List String) (h : List Task) : Prop :=
  ∀ r ∈ runRows h, Drops k0 rest r.task → ver r.inb.vers (keyOf (esc k0) rest) ≤ 1

instance (k0 : String) (rest : List String) (t : Task) : Decidable (Drops k0 rest t) := by
  unfold Drops; exact inferInstance

instance (k0 : String) (rest : List String) (t : Task) : Decidable (PublishesLeaf k0 rest t) := by
  unfold PublishesLeaf; exact inferInstance

instance (k0 : String) (rest : List String) (h : List Task) : Decidable (DropsLow k0 rest h) := by
  unfold DropsLow; exact inferInstance

theorem good2_run (k0 : String) (rest : List String) (hk : k0 ≠ "__task_execution") :
    ∀ (h : List Task), (∀ t ∈ h, StablePub2 k0 rest t.pub) → DropsLow k0 rest h → Good2 k0 rest (runRows h) := by
  intro h
  induction h using snoc_induction with
  | hnil => intro _ _; exact good2_nil k0 rest
  | hsnoc l a ih =>
    intro hs hd
    rw [runRows_snoc]
    have hrows : runRows (l ++ [a]) = runRows l ++ [newRow (runRows l) a] := runRows_snoc l a
    apply good2_step k0 rest hk _ a _ (hs a (by simp))
    · intro hda
      exact hd (newRow (runRows l) a) (by rw [hrows]; simp) hda
    · apply ih (fun t ht => hs t (by simp [ht]))
      intro r hr hdr
      exact hd r (by rw [hrows]; simp [hr]) hdr

end Mistral.Hist
