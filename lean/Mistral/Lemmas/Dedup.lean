/- Helper lemmas for Props/C06 about Model/Dedup. -/
import Mistral.Model.Dedup

namespace Mistral.Dedup

/-- action execution #a exists and is in a completed state -/
def completedAt (t : Task) (a : Nat) : Prop :=
  ∃ r, t.actions[a]? = some r ∧ r.state.completed = true

/-- a completed row #a of `t` is still there in `t'` with the same state, output and accept count -/
def Frozen (t t' : Task) (a : Nat) : Prop :=
  ∀ r, t.actions[a]? = some r → r.state.completed = true →
    ∃ r', t'.actions[a]? = some r' ∧ r'.state = r.state ∧ r'.out = r.out ∧
      r'.acceptCount = r.acceptCount

theorem Frozen.refl (t : Task) (a : Nat) : Frozen t t a :=
  fun r h _ => ⟨r, h, rfl, rfl, rfl⟩

theorem Frozen.trans {t t' t'' : Task} {a : Nat} (h1 : Frozen t t' a) (h2 : Frozen t' t'' a) :
    Frozen t t'' a := by
  intro r hr hc
  obtain ⟨r', hr', hs, ho, hn⟩ := h1 r hr hc
  obtain ⟨r'', hr'', hs', ho', hn'⟩ := h2 r' hr' (by rw [hs]; exact hc)
  exact ⟨r'', hr'', hs'.trans hs, ho'.trans ho, hn'.trans hn⟩

@[simp] theorem taskComplete_actions (t : Task) (s : TState) :
    (taskComplete t s).actions = t.actions := by
  unfold taskComplete; split <;> rfl

@[simp] theorem taskComplete_dispatched (t : Task) (s : TState) :
    (taskComplete t s).dispatched = t.dispatched := by
  unfold taskComplete; split <;> rfl

theorem aStateOf_completed (k : Kind) : (aStateOf k).completed = true := by cases k <;> rfl
theorem tStateOf_completed (k : Kind) : (tStateOf k).completed = true := by cases k <;> rfl
theorem tStateOf_ne_idle (k : Kind) : tStateOf k ≠ .idle := by cases k <;> simp [tStateOf]

theorem taskComplete_of_completed (t : Task) (s : TState) (h : t.state.completed = true) :
    taskComplete t s = t := by simp [taskComplete, h]

theorem taskComplete_completed (t : Task) (k : Kind) :
    (taskComplete t (tStateOf k)).state.completed = true := by
  unfold taskComplete
  split
  · assumption
  · exact tStateOf_completed k

theorem taskComplete_ne_idle (t : Task) (k : Kind) (h : t.state ≠ .idle) :
    (taskComplete t (tStateOf k)).state ≠ .idle := by
  unfold taskComplete
  split
  · exact h
  · exact tStateOf_ne_idle k

/-- the documented mechanism: a result for a completed action execution is rejected and the
    transaction leaves no trace -/
theorem deliverResult_rejected (t : Task) (a : Nat) (k : Kind) (tag : Nat)
    (h : completedAt t a) : deliverResult t a k tag = (t, .rejected) := by
  obtain ⟨r, hr, hc⟩ := h
  simp [deliverResult, hr, hc]

theorem deliverResult_length (t : Task) (a : Nat) (k : Kind) (tag : Nat) :
    (deliverResult t a k tag).1.actions.length = t.actions.length := by
  unfold deliverResult
  split
  · rfl
  · split
    · rfl
    · simp

theorem deliverResult_frozen (t : Task) (a' : Nat) (k : Kind) (tag : Nat) (a : Nat) :
    Frozen t (deliverResult t a' k tag).1 a := by
  intro r hr hc
  unfold deliverResult
  split
  · exact ⟨r, hr, rfl, rfl, rfl⟩
  · rename_i r0 h0
    split
    · exact ⟨r, hr, rfl, rfl, rfl⟩
    · rename_i hn
      have hne : a' ≠ a := by
        intro e
        subst e
        rw [h0] at hr
        cases hr
        exact hn hc
      refine ⟨r, ?_, rfl, rfl, rfl⟩
      simp [List.getElem?_set_ne hne, hr]

/-- after `on_action_complete` for #a, action execution #a (if it exists) is completed -/
theorem deliverResult_completes (t : Task) (a : Nat) (k : Kind) (tag : Nat)
    (h : a < t.actions.length) : completedAt (deliverResult t a k tag).1 a := by
  unfold deliverResult
  split
  · rename_i hnone
    simp at hnone
    omega
  · rename_i r0 h0
    split
    · rename_i hc
      exact ⟨r0, h0, hc⟩
    · refine ⟨{ state := aStateOf k, accepted := true, out := tag,
                acceptCount := r0.acceptCount + 1 }, ?_, aStateOf_completed k⟩
      simp [List.getElem?_set_self h]

theorem completedAt_of_frozen {t t' : Task} {a : Nat} (hf : Frozen t t' a) (h : completedAt t a) :
    completedAt t' a := by
  obtain ⟨r, hr, hc⟩ := h
  obtain ⟨r', hr', hs, _, _⟩ := hf r hr hc
  exact ⟨r', hr', by rw [hs]; exact hc⟩

theorem expireFrom_frozen (idx : List Nat) (t : Task) (a : Nat) :
    Frozen t (expireFrom t idx) a := by
  induction idx generalizing t with
  | nil => exact Frozen.refl t a
  | cons i rest ih =>
    exact Frozen.trans (deliverResult_frozen t i .error hbTag a) (ih _)

theorem expireFrom_length (idx : List Nat) (t : Task) :
    (expireFrom t idx).actions.length = t.actions.length := by
  induction idx generalizing t with
  | nil => rfl
  | cons i rest ih =>
    show (expireFrom (deliverResult t i .error hbTag).1 rest).actions.length = _
    rw [ih, deliverResult_length]

/-- after the checker's loop, every listed (or already completed) action execution is completed -/
theorem expireFrom_completes (idx : List Nat) (t : Task) (a : Nat) (ha : a < t.actions.length)
    (h : a ∈ idx ∨ completedAt t a) : completedAt (expireFrom t idx) a := by
  induction idx generalizing t with
  | nil =>
    cases h with
    | inl h => cases h
    | inr h => exact h
  | cons i rest ih =>
    show completedAt (expireFrom (deliverResult t i .error hbTag).1 rest) a
    apply ih
    · rw [deliverResult_length]; exact ha
    · by_cases e : a = i
      · subst e
        exact Or.inr (deliverResult_completes t a .error hbTag ha)
      · cases h with
        | inl h =>
          cases h with
          | head => exact absurd rfl e
          | tail _ h => exact Or.inl h
        | inr h => exact Or.inr (completedAt_of_frozen (deliverResult_frozen t i .error hbTag a) h)

theorem mem_runningIdx (as : List ActionRow) (a : Nat) (r : ActionRow) (h : as[a]? = some r)
    (hr : r.state.completed = false) : a ∈ runningIdx as := by
  unfold runningIdx
  obtain ⟨hlt, heq⟩ := List.getElem?_eq_some_iff.mp h
  simp [List.mem_filter, hlt, heq, hr]

/-- after a checker pass every action execution of the task is completed -/
theorem deliverExpiry_all_completed (t : Task) (a : Nat) (ha : a < t.actions.length) :
    completedAt (deliverExpiry t) a := by
  unfold deliverExpiry
  apply expireFrom_completes _ _ _ ha
  have : ∃ r, t.actions[a]? = some r := ⟨t.actions[a], by simp [ha]⟩
  obtain ⟨r, hr⟩ := this
  cases hc : r.state.completed with
  | true => exact Or.inr ⟨r, hr, hc⟩
  | false => exact Or.inl (mem_runningIdx _ _ _ hr hc)

theorem scheduleAction_frozen (t : Task) (a : Nat) : Frozen t (scheduleAction t) a := by
  intro r hr _
  have hlt : a < t.actions.length := (List.getElem?_eq_some_iff.mp hr).1
  refine ⟨r, ?_, rfl, rfl, rfl⟩
  simp [scheduleAction, List.getElem?_append_left hlt, hr]

theorem runNew_frozen (t : Task) (a : Nat) : Frozen t (runNew t) a := by
  unfold runNew
  split
  · intro r hr hc
    exact scheduleAction_frozen { t with state := .running } a r hr hc
  · exact Frozen.refl t a

theorem runExisting_frozen (t : Task) (rerun reset : Bool) (a : Nat) :
    Frozen t (runExisting t rerun reset).1 a := by
  unfold runExisting
  split
  · exact Frozen.refl t a
  split
  · exact Frozen.refl t a
  split
  · exact Frozen.refl t a
  · intro r hr hc
    have hlt : a < t.actions.length := (List.getElem?_eq_some_iff.mp hr).1
    have hlt' : a < (resetActions reset t.actions).length := by simp [resetActions, hlt]
    refine ⟨(fun r : ActionRow =>
        if reset || (r.accepted && (r.state == .error || r.state == .cancelled))
        then { r with accepted := false } else r) r, ?_, ?_, ?_, ?_⟩
    · simp only [scheduleAction]
      rw [List.getElem?_append_left hlt']
      simp [resetActions, List.getElem?_map, hr]
    all_goals (dsimp only; split <;> rfl)

/-- no delivery of any kind alters a completed action execution's state, output or accept count -/
theorem step_frozen (t : Task) (d : Delivery) (a : Nat) : Frozen t (step t d) a := by
  cases d with
  | result a' k tag => exact deliverResult_frozen t a' k tag a
  | wfResult k =>
    intro r hr _
    exact ⟨r, by simp [step, hr], rfl, rfl, rfl⟩
  | expiry => exact expireFrom_frozen _ t a
  | startTask fr rerun reset =>
    cases fr with
    | true => exact runNew_frozen t a
    | false => exact runExisting_frozen t rerun reset a

theorem run_frozen (ds : List Delivery) (t : Task) (a : Nat) : Frozen t (run t ds) a := by
  induction ds generalizing t with
  | nil => exact Frozen.refl t a
  | cons d ds ih => exact Frozen.trans (step_frozen t d a) (ih _)

/-! ### the task state -/

theorem expireFrom_state_ne_idle (idx : List Nat) (t : Task) (h : t.state ≠ .idle) :
    (expireFrom t idx).state ≠ .idle := by
  induction idx generalizing t with
  | nil => exact h
  | cons i rest ih =>
    apply ih
    unfold deliverResult
    split
    · exact h
    · split
      · exact h
      · exact taskComplete_ne_idle _ _ h

theorem step_ne_idle (t : Task) (d : Delivery) (h : t.state ≠ .idle) : (step t d).state ≠ .idle := by
  cases d with
  | result a k tag =>
    show (deliverResult t a k tag).1.state ≠ .idle
    unfold deliverResult
    split
    · exact h
    · split
      · exact h
      · exact taskComplete_ne_idle _ _ h
  | wfResult k => exact taskComplete_ne_idle t k h
  | expiry => exact expireFrom_state_ne_idle _ t h
  | startTask fr rerun reset =>
    cases fr with
    | true => simp [step, runNew, h]
    | false =>
      show (runExisting t rerun reset).1.state ≠ .idle
      unfold runExisting
      split
      · exact h
      split
      · exact h
      split
      · exact h
      · simp [scheduleAction]

theorem run_ne_idle (ds : List Delivery) (t : Task) (h : t.state ≠ .idle) :
    (run t ds).state ≠ .idle := by
  induction ds generalizing t with
  | nil => exact h
  | cons d ds ih => exact ih _ (step_ne_idle t d h)

theorem runNew_ne_idle (t : Task) : (runNew t).state ≠ .idle := by
  unfold runNew
  split
  · simp [scheduleAction]
  · assumption

theorem expireFrom_state_completed (idx : List Nat) (t : Task) (h : t.state.completed = true) :
    expireFrom t idx = expireFrom t idx ∧ (expireFrom t idx).state.completed = true := by
  refine ⟨rfl, ?_⟩
  induction idx generalizing t with
  | nil => exact h
  | cons i rest ih =>
    apply ih
    unfold deliverResult
    split
    · exact h
    · split
      · exact h
      · simp [taskComplete, h]

/-- a completed task stays completed under every delivery that is not an explicit rerun request
    (`first_run=False, rerun=True`) -/
theorem step_task_completed (t : Task) (d : Delivery) (hd : d.notRerun = true)
    (h : t.state.completed = true) : (step t d).state.completed = true := by
  cases d with
  | result a k tag =>
    show (deliverResult t a k tag).1.state.completed = true
    unfold deliverResult
    split
    · exact h
    · split
      · exact h
      · simp [taskComplete, h]
  | wfResult k => simp [step, taskComplete, h]
  | expiry => exact (expireFrom_state_completed _ t h).2
  | startTask fr rerun reset =>
    cases fr with
    | true =>
      have : t.state ≠ .idle := by intro e; rw [e] at h; cases h
      simp [step, runNew, this, h]
    | false =>
      cases rerun with
      | true => cases hd
      | false =>
        show (runExisting t false reset).1.state.completed = true
        unfold runExisting
        split
        · exact h
        · simp [h]

theorem run_task_completed (ds : List Delivery) (t : Task) (hd : ∀ d ∈ ds, d.notRerun = true)
    (h : t.state.completed = true) : (run t ds).state.completed = true := by
  induction ds generalizing t with
  | nil => exact h
  | cons d ds ih =>
    exact ih _ (fun x hx => hd x (List.mem_cons_of_mem _ hx))
      (step_task_completed t d (hd d (List.mem_cons_self)) h)

/-! ### a started task: RUNNING with a live action execution, or completed -/

/-- the task has been started: it is RUNNING the action of a start request (`inProgress`), or it has
    completed.  In such a state every start request that is not an explicit rerun is a no-op
    (`_run_new`: not IDLE; `_run_existing`: the guards of 17f326b9 and 258aaaae). -/
def Started (t : Task) : Prop := inProgress t = true ∨ t.state.completed = true

/-- what every state made by the engine satisfies: IDLE (not started yet) or `Started` - no task is
    RUNNING without a live action execution, none is IDLE again after it left IDLE (the policy states
    WAITING / DELAYED / PAUSED are outside this model) -/
def StartInv (t : Task) : Prop := t.state = .idle ∨ Started t

theorem startInv_fresh : StartInv fresh := Or.inl rfl

theorem started_ne_idle {t : Task} (h : Started t) : t.state ≠ .idle := by
  intro e
  cases h with
  | inl h => simp [inProgress, e] at h
  | inr h => rw [e] at h; cases h

theorem scheduleAction_inProgress (t : Task) (h : t.state = .running) :
    inProgress (scheduleAction t) = true := by
  simp [inProgress, scheduleAction, hasRunningAction, newAction, AState.completed, h]

/-- `on_action_complete`: rejected / not found = nothing changes; accepted = the task is completed
    (Task.complete runs in the same transaction) -/
theorem deliverResult_same_or_completed (t : Task) (a : Nat) (k : Kind) (tag : Nat) :
    (deliverResult t a k tag).1 = t ∨ (deliverResult t a k tag).1.state.completed = true := by
  unfold deliverResult
  split
  · exact Or.inl rfl
  · split
    · exact Or.inl rfl
    · exact Or.inr (taskComplete_completed _ k)

theorem expireFrom_same_or_completed (idx : List Nat) (t : Task) :
    expireFrom t idx = t ∨ (expireFrom t idx).state.completed = true := by
  induction idx generalizing t with
  | nil => exact Or.inl rfl
  | cons i rest ih =>
    show expireFrom (deliverResult t i .error hbTag).1 rest = t ∨
      (expireFrom (deliverResult t i .error hbTag).1 rest).state.completed = true
    cases deliverResult_same_or_completed t i .error hbTag with
    | inl h => rw [h]; exact ih t
    | inr h => exact Or.inr (expireFrom_state_completed rest _ h).2

/-- after `_run_existing` - whatever the state before, whatever the flags - the task is started -/
theorem runExisting_started (t : Task) (rerun reset : Bool) : Started (runExisting t rerun reset).1 := by
  unfold runExisting
  split
  · rename_i h; exact Or.inr (by rw [h]; rfl)
  split
  · rename_i h; simp at h; exact Or.inr h.1
  split
  · rename_i h; exact Or.inl h
  · exact Or.inl (scheduleAction_inProgress _ rfl)

/-- `Started` is stable under EVERY delivery (results, expiries, start requests of every kind, explicit
    reruns included) -/
theorem step_started (t : Task) (d : Delivery) (h : Started t) : Started (step t d) := by
  cases d with
  | result a k tag =>
    show Started (deliverResult t a k tag).1
    cases deliverResult_same_or_completed t a k tag with
    | inl e => rw [e]; exact h
    | inr e => exact Or.inr e
  | wfResult k => exact Or.inr (taskComplete_completed t k)
  | expiry =>
    show Started (expireFrom t (runningIdx t.actions))
    cases expireFrom_same_or_completed (runningIdx t.actions) t with
    | inl e => rw [e]; exact h
    | inr e => exact Or.inr e
  | startTask fr rerun reset =>
    cases fr with
    | true =>
      have : t.state ≠ .idle := started_ne_idle h
      simpa [step, runNew, this] using h
    | false => exact runExisting_started t rerun reset

theorem run_started (ds : List Delivery) (t : Task) (h : Started t) : Started (run t ds) := by
  induction ds generalizing t with
  | nil => exact h
  | cons d ds ih => exact ih _ (step_started t d h)

theorem step_startInv (t : Task) (d : Delivery) (h : StartInv t) : StartInv (step t d) := by
  cases h with
  | inr h => exact Or.inr (step_started t d h)
  | inl hi =>
    cases d with
    | result a k tag =>
      show StartInv (deliverResult t a k tag).1
      cases deliverResult_same_or_completed t a k tag with
      | inl e => rw [e]; exact Or.inl hi
      | inr e => exact Or.inr (Or.inr e)
    | wfResult k => exact Or.inr (Or.inr (taskComplete_completed t k))
    | expiry =>
      show StartInv (expireFrom t (runningIdx t.actions))
      cases expireFrom_same_or_completed (runningIdx t.actions) t with
      | inl e => rw [e]; exact Or.inl hi
      | inr e => exact Or.inr (Or.inr e)
    | startTask fr rerun reset =>
      cases fr with
      | true =>
        refine Or.inr (Or.inl ?_)
        simp only [step, runNew, hi, if_true]
        exact scheduleAction_inProgress _ rfl
      | false => exact Or.inr (runExisting_started t rerun reset)

theorem run_startInv (ds : List Delivery) (t : Task) (h : StartInv t) : StartInv (run t ds) := by
  induction ds generalizing t with
  | nil => exact h
  | cons d ds ih => exact ih _ (step_startInv t d h)

/-- in a started task a `_run_existing` request that is not an explicit rerun does nothing -/
theorem runExisting_of_started (t : Task) (reset : Bool) (h : Started t) :
    (runExisting t false reset).1 = t ∧
    ((runExisting t false reset).2 = .noop ∨ (runExisting t false reset).2 = .refused) := by
  unfold runExisting
  split
  · exact ⟨rfl, Or.inr rfl⟩
  split
  · exact ⟨rfl, Or.inl rfl⟩
  split
  · exact ⟨rfl, Or.inl rfl⟩
  · rename_i h1 h2 h3
    cases h with
    | inl h => exact absurd h h3
    | inr h => simp [h] at h2

theorem run_append (t : Task) (ds es : List Delivery) : run t (ds ++ es) = run (run t ds) es := by
  induction ds generalizing t with
  | nil => rfl
  | cons d ds ih => exact ih _

/-! ### counting invariants -/

/-- every row's accept count is 1 if it is completed and 0 otherwise -/
def AcceptInv (t : Task) : Prop :=
  ∀ r ∈ t.actions, r.acceptCount = if r.state.completed then 1 else 0

theorem acceptInv_fresh : AcceptInv fresh := by
  intro r h; cases h

theorem deliverResult_acceptInv (t : Task) (a : Nat) (k : Kind) (tag : Nat) (h : AcceptInv t) :
    AcceptInv (deliverResult t a k tag).1 := by
  unfold deliverResult
  split
  · exact h
  · rename_i r0 h0
    split
    · exact h
    · rename_i hn
      intro r hr
      simp only [taskComplete_actions] at hr
      have := List.mem_or_eq_of_mem_set hr
      cases this with
      | inl hm => exact h r hm
      | inr he =>
        subst he
        have h0m : r0 ∈ t.actions := List.mem_of_getElem? h0
        have := h r0 h0m
        simp [hn] at this
        simp [aStateOf_completed, this]

theorem expireFrom_acceptInv (idx : List Nat) (t : Task) (h : AcceptInv t) :
    AcceptInv (expireFrom t idx) := by
  induction idx generalizing t with
  | nil => exact h
  | cons i rest ih => exact ih _ (deliverResult_acceptInv t i .error hbTag h)

theorem scheduleAction_acceptInv (t : Task) (h : AcceptInv t) : AcceptInv (scheduleAction t) := by
  intro r hr
  simp only [scheduleAction, List.mem_append, List.mem_singleton] at hr
  cases hr with
  | inl hm => exact h r hm
  | inr he => subst he; rfl

theorem step_acceptInv (t : Task) (d : Delivery) (h : AcceptInv t) : AcceptInv (step t d) := by
  cases d with
  | result a k tag => exact deliverResult_acceptInv t a k tag h
  | wfResult k =>
    intro r hr
    simp only [step, taskComplete_actions] at hr
    exact h r hr
  | expiry => exact expireFrom_acceptInv _ t h
  | startTask fr rerun reset =>
    cases fr with
    | true =>
      show AcceptInv (runNew t)
      unfold runNew
      split
      · exact scheduleAction_acceptInv _ h
      · exact h
    | false =>
      show AcceptInv (runExisting t rerun reset).1
      unfold runExisting
      split
      · exact h
      split
      · exact h
      split
      · exact h
      · apply scheduleAction_acceptInv
        intro r hr
        simp only [resetActions, List.mem_map] at hr
        obtain ⟨r0, hm, he⟩ := hr
        have := h r0 hm
        split at he <;> (subst he; simpa using this)

theorem run_acceptInv (ds : List Delivery) (t : Task) (h : AcceptInv t) : AcceptInv (run t ds) := by
  induction ds generalizing t with
  | nil => exact h
  | cons d ds ih => exact ih _ (step_acceptInv t d h)

/-- one task, deliveries without explicit rerun requests (the request re-queued on resume,
    `first_run=False, rerun=False`, is allowed): at most one action execution dispatched and the
    completion logic (downstream dispatch) ran at most once; the task is IDLE, RUNNING its one action, or
    completed -/
structure OnceInv (t : Task) : Prop where
  idle0 : t.state = .idle → t.dispatched = 0
  disp : t.dispatched ≤ 1
  len : t.actions.length = t.dispatched
  comp : t.completions ≤ 1
  compDone : t.completions = 1 → t.state.completed = true
  started : StartInv t

theorem onceInv_fresh : OnceInv fresh :=
  ⟨fun _ => rfl, by decide, rfl, by decide, (by intro h; cases h), startInv_fresh⟩

/-- (the hypotheses are the fields of `OnceInv` except `started`, which `taskComplete` establishes) -/
theorem taskComplete_onceInv' (t : Task) (k : Kind) (h0 : t.state = .idle → t.dispatched = 0)
    (h1 : t.dispatched ≤ 1) (h2 : t.actions.length = t.dispatched) (h3 : t.completions ≤ 1)
    (h4 : t.completions = 1 → t.state.completed = true) :
    OnceInv (taskComplete t (tStateOf k)) := by
  unfold taskComplete
  split
  · rename_i hc
    exact ⟨h0, h1, h2, h3, h4, Or.inr (Or.inr hc)⟩
  · rename_i hn
    have hc0 : t.completions = 0 := by
      by_cases e : t.completions = 1
      · exact absurd (h4 e) hn
      · omega
    exact ⟨fun e => absurd e (tStateOf_ne_idle k), h1, h2, by simp [hc0],
           fun _ => tStateOf_completed k, Or.inr (Or.inr (tStateOf_completed k))⟩

theorem taskComplete_onceInv (t : Task) (k : Kind) (h : OnceInv t) :
    OnceInv (taskComplete t (tStateOf k)) :=
  taskComplete_onceInv' t k h.idle0 h.disp h.len h.comp h.compDone

theorem deliverResult_onceInv (t : Task) (a : Nat) (k : Kind) (tag : Nat) (h : OnceInv t) :
    OnceInv (deliverResult t a k tag).1 := by
  unfold deliverResult
  split
  · exact h
  · split
    · exact h
    · exact taskComplete_onceInv' _ k h.idle0 h.disp (by simpa using h.len) h.comp h.compDone

theorem expireFrom_onceInv (idx : List Nat) (t : Task) (h : OnceInv t) :
    OnceInv (expireFrom t idx) := by
  induction idx generalizing t with
  | nil => exact h
  | cons i rest ih => exact ih _ (deliverResult_onceInv t i .error hbTag h)

theorem step_onceInv (t : Task) (d : Delivery) (hd : d.notRerun = true) (h : OnceInv t) :
    OnceInv (step t d) := by
  cases d with
  | result a k tag => exact deliverResult_onceInv t a k tag h
  | wfResult k => exact taskComplete_onceInv t k h
  | expiry => exact expireFrom_onceInv _ t h
  | startTask fr rerun reset =>
    cases fr with
    | false =>
      cases rerun with
      | true => cases hd
      | false =>
        -- the request re-queued on resume: it runs the task only if the task is still IDLE
        show OnceInv (runExisting t false reset).1
        unfold runExisting
        split
        · exact h
        split
        · exact h
        split
        · exact h
        · rename_i h1 h2 h3
          have hi : t.state = .idle := by
            cases h.started with
            | inl hi => exact hi
            | inr hs =>
              cases hs with
              | inl hp => exact absurd hp h3
              | inr hc => simp [hc] at h2
          have d0 := h.idle0 hi
          have hl := h.len
          refine ⟨fun e => by simp [scheduleAction] at e, by simp [scheduleAction, d0],
                  by simp [scheduleAction, resetActions, hl], h.comp, ?_,
                  Or.inr (Or.inl (scheduleAction_inProgress _ rfl))⟩
          intro hc
          have := h.compDone (by simpa [scheduleAction] using hc)
          rw [hi] at this
          cases this
    | true =>
      show OnceInv (runNew t)
      unfold runNew
      split
      · rename_i hi
        have d0 := h.idle0 hi
        have hl := h.len
        refine ⟨fun e => by simp [scheduleAction] at e, by simp [scheduleAction, d0],
                by simp [scheduleAction, hl], h.comp, ?_,
                Or.inr (Or.inl (scheduleAction_inProgress _ rfl))⟩
        intro hc
        have := h.compDone (by simpa [scheduleAction] using hc)
        rw [hi] at this
        cases this
      · exact h

theorem run_onceInv (ds : List Delivery) (t : Task) (hd : ∀ d ∈ ds, d.notRerun = true)
    (h : OnceInv t) : OnceInv (run t ds) := by
  induction ds generalizing t with
  | nil => exact h
  | cons d ds ih =>
    exact ih _ (fun x hx => hd x (List.mem_cons_of_mem _ hx))
      (step_onceInv t d (hd d (List.mem_cons_self)) h)

/-! ### workflow ids -/

theorem startWorkflow_mem (tb : WfTable) (i id : Nat) (h : id ∈ tb) :
    id ∈ (startWorkflow tb i).1 := by
  unfold startWorkflow
  split
  · exact h
  · exact List.mem_append_left _ h

theorem startAll_mem (ids : List Nat) (tb : WfTable) (id : Nat) (h : id ∈ tb) :
    id ∈ startAll tb ids := by
  induction ids generalizing tb with
  | nil => exact h
  | cons i is ih => exact ih _ (startWorkflow_mem tb i id h)

theorem startWorkflow_nodup (tb : WfTable) (i : Nat) (h : tb.Nodup) :
    (startWorkflow tb i).1.Nodup := by
  unfold startWorkflow
  split
  · exact h
  · rename_i hn
    refine List.nodup_append.mpr ⟨h, by simp, ?_⟩
    intro a ha b hb
    simp at hb
    subst hb
    intro e
    subst e
    exact hn ha

theorem startAll_nodup (ids : List Nat) (tb : WfTable) (h : tb.Nodup) : (startAll tb ids).Nodup := by
  induction ids generalizing tb with
  | nil => exact h
  | cons i is ih => exact ih _ (startWorkflow_nodup tb i h)

end Mistral.Dedup
