/-
One admissible event of the engine core preserves the soundness invariant `SInv`.
Admissible = not a `stop`, not the loss of an action at its executor, an executor result that is the
oracle's, and not a STALE RE-START: the delivery of a `start_task(first_run=False)` request (queued
by `resume` for a task that was still IDLE) to a task that has meanwhile FAILED - `_run_existing`
runs the failed task again (known finding; see `Props/C02Sem.lean`).
-/
import Mistral.Lemmas.SemInv
namespace Mistral.Sem
open Mistral Mistral.Join Mistral.Engine

/-- an admissible event = a plain event (since the fix of `_run_existing` a stale start request is
    ignored, so no further exclusion is needed) -/
def admissibleB (orc : String → Bool) (_w : World) (e : Event) : Bool := plainB orc e

theorem adm_not_stop (orc : String → Bool) (w : World) (t : St) : admissibleB orc w (.stop t) = false := rfl

theorem adm_execute (orc : String → Bool) (w : World) (t : Tid) (ok : Bool)
    (h : admissibleB orc w (.execute t ok) = true) : ok = orc t.1 := by
  simpa [admissibleB, plainB] using h

/-! ### workflow state moves -/

theorem pause_completed (s : St) (h : isCompleted (Lifecycle.wfApply s .pause).1 = true) : isCompleted s = true := by
  revert h; cases s <;> decide

theorem resume_running (s : St) (h : isPausedOrIdle s = true) : (Lifecycle.wfApply s .resume).1 = .RUNNING := by
  revert h; cases s <;> decide

/-! ### small facts -/

theorem self_mem_setTask' (ts : List TaskRow) (r r' : TaskRow) (hr : r ∈ ts) (hn : r'.name = r.name)
    (ho : r'.occ = r.occ) : r' ∈ setTask ts r' := by
  unfold setTask
  apply List.mem_map.mpr
  refine ⟨r, hr, ?_⟩
  simp [hn, ho]

theorem sinv_pending_sub (sp : Spec) (orc : String → Bool) (w : World) (p : List Item) (h : SInv sp orc w)
    (hsub : ∀ x ∈ p, x ∈ w.pending) : SInv sp orc { w with pending := p } := by
  apply SInv.frame sp orc w _ h
  · intro x hx; exact Or.inl hx
  · intro it hi; exact Or.inl (hsub it hi)
  · intro c hc; exact Or.inl hc
  · exact h.done

theorem sinv_crashed (sp : Spec) (orc : String → Bool) (w : World) (b : Bool) (h : SInv sp orc w) :
    SInv sp orc { w with crashed := b } := ⟨h.rows, h.items, h.backlog, h.done⟩

/-- the semantic state of the task of a sound row that is not a join -/
theorem row_nonjoin_res (sp : Spec) (orc : String → Bool) (rk : String → Nat) (hsp : SemSpec sp rk)
    (r : TaskRow) (hr : RowOK sp orc r) (hj : isJoin sp r.name = none) : sem sp orc r.name = some (res orc r.name) :=
  sem_nonjoin sp orc rk hsp.acyc r.name hj hr.1

/-! ### the deliveries -/

theorem sinv_rpcStartTask (sp : Spec) (orc : String → Bool) (rk : String → Nat) (hsp : SemSpec sp rk)
    (w : World) (t : Tid) (firstRun : Bool) (h : SInv sp orc w) (hnij : NoIdleJoin sp w.tasks)
    (hrerun : firstRun = false → isJoin sp t.1 = none) :
    SInv sp orc
      (match findTask w t with
      | none => w
      | some r =>
        if firstRun then
          if r.state == .IDLE then
            { w with tasks := setTask w.tasks { r with state := .RUNNING },
                     pending := w.pending ++ [.postRunAction t] }
          else if r.state == .WAITING then
            if w.pending.contains (.jobRefresh t) then w else { w with pending := w.pending ++ [.jobRefresh t] }
          else checkAffected sp w t
        else
          if r.state == .SUCCESS then w
          else if isCompleted r.state then checkAffected sp w t
          else if r.state == .RUNNING && hasLiveAction w t then w
          else { w with tasks := setTask w.tasks { r with state := .RUNNING, processed := false },
                        pending := w.pending ++ [.postRunAction t] }) := by
  split
  · exact h
  · rename_i r hfr
    have hrm : r ∈ w.tasks := findTask_mem w t r hfr
    have hid : (r.name, r.occ) = t := findTask_id w t r hfr
    have hname : t.1 = r.name := by rw [← hid]
    have hrow := h.rows r hrm
    split
    · split
      · rename_i hidle
        have hidle' : r.state = .IDLE := by simpa using hidle
        have hnj : isJoin sp r.name = none := by
          apply isJoin_none_of_not_some
          intro hj
          exact hnij r hrm hj hidle'
        have hwf : isCompleted w.wf = false := by
          cases hw : isCompleted w.wf with
          | false => rfl
          | true => have := h.done hw r hrm; rw [hidle'] at this; exact absurd this (by decide)
        have h1 := sinv_setRow sp orc w { r with state := .RUNNING } h
          (rowOK_incomplete sp orc _ hrow.1 (by show isCompleted St.RUNNING = false; decide)) hwf
        exact sinv_addItems sp orc _ [.postRunAction t] h1 (by
          intro it hi
          have : it = .postRunAction t := by simpa using hi
          rw [this]
          show sem sp orc t.1 = some (res orc t.1)
          rw [hname]
          exact row_nonjoin_res sp orc rk hsp r hrow hnj)
      · split
        · split
          · exact h
          · exact sinv_addItems sp orc _ [.jobRefresh t] h (by
              intro it hi
              have : it = .jobRefresh t := by simpa using hi
              rw [this]; trivial)
        · exact sinv_checkAffected sp orc w t h
    · rename_i hfirst
      have hf : firstRun = false := by simpa using hfirst
      split
      · exact h
      · split
        · exact sinv_checkAffected sp orc w t h
        · rename_i hnc
          split
          · exact h
          · have hnj : isJoin sp r.name = none := by rw [← hname]; exact hrerun hf
            have hwf : isCompleted w.wf = false := by
              cases hw : isCompleted w.wf with
              | false => rfl
              | true => exact absurd (h.done hw r hrm) hnc
            have h1 := sinv_setRow sp orc w { r with state := .RUNNING, processed := false } h
              (rowOK_incomplete sp orc _ hrow.1 (by show isCompleted St.RUNNING = false; decide)) hwf
            exact sinv_addItems sp orc _ [.postRunAction t] h1 (by
              intro it hi
              have : it = .postRunAction t := by simpa using hi
              rw [this]
              show sem sp orc t.1 = some (res orc t.1)
              rw [hname]
              exact row_nonjoin_res sp orc rk hsp r hrow hnj)

theorem sinv_rpcResult (sp : Spec) (orc : String → Bool) (rk : String → Nat) (hsp : SemSpec sp rk)
    (w : World) (t : Tid) (ok : Bool) (h : SInv sp orc w) (hit : ItemOK sp orc (.rpcResult t ok)) :
    SInv sp orc
      (match findTask w t with
      | none => w
      | some r => completeTask sp w r (if ok then .SUCCESS else .ERROR)) := by
  split
  · exact h
  · rename_i r hfr
    have hrm : r ∈ w.tasks := findTask_mem w t r hfr
    have hid : (r.name, r.occ) = t := findTask_id w t r hfr
    have hname : t.1 = r.name := by rw [← hid]
    apply sinv_completeTask sp orc rk hsp w r _ h hrm
    intro _
    obtain ⟨h1, h2⟩ := hit
    rw [← hname, h1, h2]
    unfold res
    rfl

theorem sinv_refresh_verdict (sp : Spec) (orc : String → Bool) (rk : String → Nat) (hsp : SemSpec sp rk)
    (w : World) (t : Tid) (r : TaskRow) (k : JoinKind) (L : Logical) (trig : List (Tid × String))
    (h : SInv sp orc w) (hrm : r ∈ w.tasks) (hid : (r.name, r.occ) = t) (hwf : isCompleted w.wf = false)
    (hk : isJoin sp t.1 = some k)
    (hL : joinLogicalState sp.graph (rowsOf w) (fuelFor sp) t.1 k = some L) :
    SInv sp orc
      (let r := { r with trig := trig }
       let w := { w with tasks := setTask w.tasks r }
       if L.state == .RUNNING then
         if hasLiveAction w t then { w with tasks := setTask w.tasks { r with state := .RUNNING } }
         else
         { w with tasks := setTask w.tasks { r with state := .RUNNING },
                  pending := w.pending ++ [.postRunAction t] }
       else if L.state == .ERROR then completeTask sp w r .ERROR
       else w) := by
  have hname : t.1 = r.name := by rw [← hid]
  have hrow := h.rows r hrm
  have hsound := rowsSound_of_sinv sp orc w h
  have hsem : sem sp orc t.1 ≠ none := by rw [hname]; exact hrow.1
  have hrow' : RowOK sp orc { r with trig := trig } := hrow
  have h1 := sinv_setRow sp orc w { r with trig := trig } h hrow' hwf
  simp only
  split
  · rename_i hLr
    have hLr' : L.state = .RUNNING := by simpa using hLr
    have hres := join_running_sound sp orc rk hsp.acyc hsp.joins (rowsOf w) hsound (fuelFor sp) t.1 k hk hsem L hL hLr'
    have h2 := sinv_setRow sp orc _ { r with trig := trig, state := .RUNNING } h1
      (rowOK_incomplete sp orc _ hrow.1 (by show isCompleted St.RUNNING = false; decide)) hwf
    split
    · exact h2
    · exact sinv_addItems sp orc _ [.postRunAction t] h2 (by
        intro it hi
        have : it = .postRunAction t := by simpa using hi
        rw [this]
        exact hres)
  · split
    · rename_i hLe
      have hLe' : L.state = .ERROR := by simpa using hLe
      have hres := join_error_sound sp orc rk hsp.acyc hsp.joins (rowsOf w) hsound (fuelFor sp) t.1 k hk hsem L hL hLe'
      apply sinv_completeTask sp orc rk hsp _ _ _ h1
      · exact self_mem_setTask' w.tasks r _ hrm rfl rfl
      · intro _
        show sem sp orc r.name = some .ERROR
        rw [← hname]; exact hres
    · exact h1

theorem sinv_jobRefresh (sp : Spec) (orc : String → Bool) (rk : String → Nat) (hsp : SemSpec sp rk)
    (w : World) (t : Tid) (h : SInv sp orc w) :
    SInv sp orc
      (match findTask w t with
      | none => w
      | some r =>
        if isCompleted r.state || r.state == .RUNNING then w
        else if isCompleted w.wf then w
        else match isJoin sp t.1 with
          | none => w
          | some k =>
            match joinLogicalState sp.graph (rowsOf w) (fuelFor sp) t.1 k with
            | none => { w with crashed := true }
            | some L =>
              let trig : List (Tid × String) := L.triggeredBy.filterMap fun (n, e) =>
                (findByName w n).map fun x => ((x.name, x.occ), e.getD "")
              let r := { r with trig := trig }
              let w := { w with tasks := setTask w.tasks r }
              if L.state == .RUNNING then
                if hasLiveAction w t then { w with tasks := setTask w.tasks { r with state := .RUNNING } }
                else
                { w with tasks := setTask w.tasks { r with state := .RUNNING },
                         pending := w.pending ++ [.postRunAction t] }
              else if L.state == .ERROR then completeTask sp w r .ERROR
              else w) := by
  split
  · exact h
  · rename_i r hfr
    have hrm : r ∈ w.tasks := findTask_mem w t r hfr
    have hid : (r.name, r.occ) = t := findTask_id w t r hfr
    split
    · exact h
    · split
      · exact h
      · rename_i hwfc
        have hwf : isCompleted w.wf = false := by simpa using hwfc
        split
        · exact h
        · rename_i k hk
          split
          · exact sinv_crashed sp orc w true h
          · rename_i L hL
            exact sinv_refresh_verdict sp orc rk hsp w t r k L _ h hrm hid hwf hk hL

theorem sinv_mapRows (sp : Spec) (orc : String → Bool) (w : World) (f : TaskRow → TaskRow) (wf' : St)
    (h : SInv sp orc w) (hf : ∀ r, RowOK sp orc r → RowOK sp orc (f r)) (hwf : isCompleted wf' = false) :
    SInv sp orc { w with wf := wf', tasks := w.tasks.map f } := by
  apply SInv.frame sp orc w _ h
  · intro x hx
    obtain ⟨y, hy, rfl⟩ := List.mem_map.mp hx
    exact Or.inr (hf y (h.rows y hy))
  · intro it hi; exact Or.inl hi
  · intro c hc; exact Or.inl hc
  · intro hd
    have : isCompleted wf' = true := hd
    rw [hwf] at this; cases this

/-! ### one event -/

theorem step_sinv (sp : Spec) (orc : String → Bool) (rk : String → Nat) (hsp : SemSpec sp rk)
    (w : World) (e : Event) (h : SInv sp orc w) (hji : JoinInv sp w) (ha : admissibleB orc w e = true) :
    SInv sp orc (step sp w e) := by
  cases e with
  | stop t => rw [adm_not_stop] at ha; cases ha
  | start =>
    simp only [step]
    split
    · exact h
    · apply sinv_dispatch
      · apply SInv.frame sp orc w _ h
        · intro x hx; exact Or.inl hx
        · intro it hi; exact Or.inl hi
        · intro c hc; exact Or.inl hc
        · intro hd
          have : isCompleted St.RUNNING = true := hd
          exact absurd this (by decide)
      · intro c hc
        obtain ⟨n, hn, rfl⟩ := List.mem_map.mp hc
        obtain ⟨t, ht, rfl⟩ := List.mem_map.mp hn
        have := List.mem_filter.mp ht
        have hk : knownTask sp t.name = true := by
          unfold knownTask
          rw [List.find?_isSome]
          exact ⟨t, this.1, by simp⟩
        rw [sem_start sp orc rk hsp.acyc t.name (by simpa using this.2) hk]
        simp
  | pause =>
    simp only [step]
    apply SInv.frame sp orc w _ h
    · intro x hx; exact Or.inl hx
    · intro it hi; exact Or.inl hi
    · intro c hc; exact Or.inl hc
    · intro hd; exact h.done (pause_completed _ hd)
  | execute t ok =>
    simp only [step]
    split
    · exact h
    · rename_i hc
      have hmem : Item.runAction t ∈ w.pending := by simpa using hc
      have hok : ok = orc t.1 := adm_execute orc w t ok ha
      have h0 := sinv_pending_sub sp orc w (removeFirst w.pending (.runAction t)) h (fun x hx => mem_removeFirst _ _ _ hx)
      exact sinv_addItems sp orc _ [.rpcResult t ok] h0 (by
        intro it hi
        have : it = .rpcResult t ok := by simpa using hi
        rw [this]
        exact ⟨h.items _ hmem, hok⟩)
  | resume =>
    simp only [step]
    split
    · exact h
    · rename_i hpi
      have hpi' : isPausedOrIdle w.wf = true := by simpa using hpi
      have hrun := resume_running w.wf hpi'
      simp only [hrun]
      have hnc : isCompleted St.RUNNING = false := by decide
      simp only [hnc, Bool.false_eq_true, if_false]
      -- the world after the state change and the "processed" marks
      have hw2 := sinv_mapRows sp orc w
        (fun t => if isCompleted t.state && !t.processed then { t with processed := true } else t) St.RUNNING h
        (by intro r hr
            show RowOK sp orc (if (isCompleted r.state && !r.processed) = true then { r with processed := true } else r)
            split
            · exact hr
            · exact hr) hnc
      split
      · exact sinv_checkAndComplete sp orc _ hw2
      · apply sinv_dispatch
        · apply sinv_addItems
          · apply sinv_dispatch
            · apply SInv.frame sp orc _ _ hw2
              · intro x hx; exact Or.inl hx
              · intro it hi; exact Or.inl hi
              · intro c hc; cases hc
              · exact hw2.done
            · intro c hc; exact h.backlog c hc
          · intro it hi
            obtain ⟨n, _, rfl⟩ := List.mem_map.mp hi
            trivial
        · intro c hc
          have hc' := (List.mem_filter.mp hc).1
          obtain ⟨t, ht, hct⟩ := List.mem_flatMap.mp hc'
          obtain ⟨x, hx, rfl⟩ := List.mem_map.mp hct
          have htf := List.mem_filter.mp ht
          have htc : isCompleted t.state = true := by
            have := htf.2
            simp only [Bool.and_eq_true] at this
            exact this.1
          have hrow := h.rows t htf.1
          exact sem_next sp orc rk hsp t.name t.state (hrow.2.1 htc).1 x hx
  | deliver it =>
    simp only [step]
    split
    · exact h
    · rename_i hc
      have hmem : it ∈ w.pending := by simpa using hc
      have h0 := sinv_pending_sub sp orc w (removeFirst w.pending it) h (fun x hx => mem_removeFirst _ _ _ hx)
      cases it with
      | postStartTask t f =>
        exact sinv_addItems sp orc _ [.rpcStartTask t f] h0 (by
          intro it hi
          have : it = .rpcStartTask t f := by simpa using hi
          rw [this]; trivial)
      | postRunAction t =>
        exact sinv_addItems sp orc _ [.runAction t] h0 (by
          intro it hi
          have : it = .runAction t := by simpa using hi
          rw [this]
          exact h.items (.postRunAction t) hmem)
      | runAction t => exact h0
      | postCheck => exact sinv_checkAndComplete sp orc _ h0
      | postSchedRefresh t =>
        simp only
        split
        · exact h0
        · exact sinv_addItems sp orc _ [.jobRefresh t] h0 (by
            intro it hi
            have : it = .jobRefresh t := by simpa using hi
            rw [this]; trivial)
      | rpcStartTask t firstRun =>
        apply sinv_rpcStartTask sp orc rk hsp _ t firstRun h0 hji.1
        intro hf
        subst hf
        exact hji.2 _ hmem rfl t false (Or.inr rfl)
      | rpcResult t ok => exact sinv_rpcResult sp orc rk hsp _ t ok h0 (h.items _ hmem)
      | jobRefresh t => exact sinv_jobRefresh sp orc rk hsp _ t h0

end Mistral.Sem
