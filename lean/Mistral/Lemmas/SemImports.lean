/-
THE ONLY FILE of the `Sem` development (C02 / C10 schedule independence) that imports the liveness
work of WP-A (`Lemmas/Live*.lean`, `Props/C01.lean`).  Everything the refinement proof uses of it is
re-stated here under a local name; when the Live lemmas change, only the proofs in this file have
to be adapted.

Imported DEFINITIONS (used by name elsewhere): `Live.SpecOK`, `Live.lossless`, `Live.startTasks`,
`JoinInv` (C04), `Props.C01.LiveInv`.
Imported FACTS:
  1. `ji_init`, `ji_step`        C04: a join row is never IDLE and never the subject of a re-run request
  2. `live_init`, `live_step`    C01: the liveness invariant `LiveInv`, one step (all lossless histories since fix acd6a089)
  3. `live_proc`, `live_routes`  what is read from `LiveInv` (`Inv2.proc`, `Inv2.routes`)
  4. `not_stuck`                 C01 (`pending_of_invariants`): RUNNING ⇒ something pending
  5. `next_outs`                 fired routes are transitions of the definition (`jw_next_outs`)
-/
import Mistral.Props.C01
namespace Mistral.Sem.Imp
open Mistral Mistral.Join Mistral.Engine Mistral.Engine.Live

abbrev LiveInv := Mistral.Props.C01.LiveInv

/-! 1. joins are never IDLE / never re-run (all definitions, all histories) -/
theorem ji_init (sp : Spec) : JoinInv sp init := init_ji sp
theorem ji_step (sp : Spec) (w : World) (ev : Event) (h : JoinInv sp w) : JoinInv sp (step sp w ev) :=
  step_ji sp w ev h

/-! 2. the liveness invariant -/
theorem live_init (sp : Spec) : LiveInv sp init := Mistral.Props.C01.live_inv_init sp

theorem live_step (sp : Spec) (rk : String → Nat) (hsp : SpecOK sp rk) (hstart : startTasks sp ≠ [])
    (w : World) (ev : Event) (hl : lossless ev) (h : LiveInv sp w) :
    LiveInv sp (step sp w ev) :=
  Mistral.Props.C01.live_inv_step sp rk hsp hstart w ev hl h

/-! 3. what is read from it -/
/-- in a RUNNING workflow every completed execution has been continued -/
theorem live_proc (sp : Spec) (w : World) (h : LiveInv sp w) (hr : w.wf = .RUNNING) :
    ∀ r ∈ w.tasks, isCompleted r.state = true → r.processed = true := h.i2.proc hr

/-- the targets of a continued execution have rows -/
theorem live_routes (sp : Spec) (w : World) (h : LiveInv sp w) :
    ∀ a ∈ w.tasks, isCompleted a.state = true → a.processed = true →
      ∀ x ∈ a.nextTasks, findByName w x.1 ≠ none := h.i2.routes

/-- once tasks exist every task without inbound transitions has a row -/
theorem live_starts (sp : Spec) (w : World) (h : LiveInv sp w) :
    w.tasks ≠ [] → ∀ t ∈ sp.graph.tasks, (inbound sp.graph t.name).isEmpty = true → findByName w t.name ≠ none :=
  h.i2.starts

theorem live_ji (sp : Spec) (w : World) (h : LiveInv sp w) : JoinInv sp w := h.ji

/-- C04: a join has at most one execution row -/
theorem live_jru (sp : Spec) (w : World) (h : LiveInv sp w) :
    ∀ n, (isJoin sp n).isSome = true → countL w.tasks n ≤ 1 := h.jru

/-! 4. never RUNNING with nothing pending -/
theorem not_stuck (sp : Spec) (rk : String → Nat) (hsp : SpecOK sp rk) (w : World) (h : LiveInv sp w)
    (hrun : w.wf = .RUNNING) : w.pending ≠ [] :=
  pending_of_invariants sp rk (fun w x j hp => path_rank sp rk hsp w x j hp) w h.i1 h.sok h.i2 h.jw hrun

/-! 5. fired routes are transitions -/
theorem next_outs (sp : Spec) (hl : liveInGraph sp) (n : String) (s : St) (x : String × String)
    (hx : x ∈ nextOf sp n s) : x.1 ∈ outsOf sp n := jw_next_outs sp hl n s x hx

end Mistral.Sem.Imp
