/- Helper lemmas for Props/C09 (sub-workflows). -/
import Mistral.Model.SubWf
import Mistral.Lemmas.Dict
set_option linter.unusedSimpArgs false
namespace Mistral.SubWf
open Mistral

/-! ### dictionaries -/

theorem get?_erase_self (d : Dict) (k : String) : Dict.get? (Dict.erase d k) k = none := by
  induction d with
  | nil => simp [Dict.erase]
  | cons p rest ih =>
    obtain ⟨k', v'⟩ := p
    unfold Dict.erase at *
    by_cases h : k' = k
    · subst h; simp [ih]
    · have h2 : (k' != k) = true := by simpa using h
      have h3 : (k' == k) = false := by simpa using h
      simp [h2, Dict.get?_cons, h3, ih]

theorem get?_none_of_not_mem_keys (d : Dict) (k : String) (h : k ∉ d.map (·.1)) :
    Dict.get? d k = none := by
  induction d with
  | nil => rfl
  | cons p rest ih =>
    obtain ⟨k', v'⟩ := p
    simp only [List.map_cons, List.mem_cons, not_or] at h
    have h3 : (k' == k) = false := by
      simpa using (fun e : k' = k => h.1 e.symm)
    simp [Dict.get?_cons, h3, ih h.2]

theorem get?_some_of_mem (d : Dict) (k : String) (v : Val) (hn : (d.map (·.1)).Nodup)
    (h : (k, v) ∈ d) : Dict.get? d k = some v := by
  induction d with
  | nil => cases h
  | cons p rest ih =>
    obtain ⟨k', v'⟩ := p
    simp only [List.map_cons, List.nodup_cons] at hn
    rcases List.mem_cons.1 h with h | h
    · cases h; simp [Dict.get?_cons]
    · have hk : k' ≠ k := by
        intro e; subst e
        exact hn.1 (List.mem_map.2 ⟨(k', v), h, rfl⟩)
      have h3 : (k' == k) = false := by simpa using hk
      simp [Dict.get?_cons, h3, ih hn.2 h]

/-! ### splitInput -/

/-- the params component after folding over `l` -/
theorem split_params_fold (declared : List String) (l : Dict) (acc : Dict × Dict) (k : String)
    (hn : (l.map (·.1)).Nodup) :
    Dict.get? (l.foldl (splitStep declared) acc).2 k =
      if k ∈ declared then Dict.get? acc.2 k
      else match Dict.get? l k with
        | some v => some v
        | none => Dict.get? acc.2 k := by
  induction l generalizing acc with
  | nil => simp
  | cons p rest ih =>
    obtain ⟨k', v'⟩ := p
    simp only [List.map_cons, List.nodup_cons] at hn
    simp only [List.foldl_cons]
    rw [ih _ hn.2]
    by_cases hd : k ∈ declared
    · simp only [hd, if_true]
      unfold splitStep
      by_cases hd' : k' ∈ declared
      · simp [hd']
      · have hne : k' ≠ k := by intro e; subst e; exact hd' hd
        simp [hd', Dict.get?_set_other _ _ _ _ hne]
    · simp only [hd, if_false]
      unfold splitStep
      by_cases hk : k' = k
      · subst hk
        have hr : Dict.get? rest k' = none := get?_none_of_not_mem_keys _ _ hn.1
        simp [hd, hr, Dict.get?_cons, Dict.get?_set_self]
      · have h3 : (k' == k) = false := by simpa using hk
        by_cases hd' : k' ∈ declared
        · simp [hd', Dict.get?_cons, h3]
        · simp [hd', Dict.get?_cons, h3, Dict.get?_set_other _ _ _ _ hk]

/-- the input component after folding over `l` -/
theorem split_input_fold (declared : List String) (l : Dict) (acc : Dict × Dict) (k : String) :
    Dict.get? (l.foldl (splitStep declared) acc).1 k =
      if k ∈ declared then Dict.get? acc.1 k
      else if k ∈ l.map (·.1) then none else Dict.get? acc.1 k := by
  induction l generalizing acc with
  | nil => simp
  | cons p rest ih =>
    obtain ⟨k', v'⟩ := p
    simp only [List.foldl_cons]
    rw [ih]
    by_cases hd : k ∈ declared
    · simp only [hd, if_true]
      unfold splitStep
      by_cases hd' : k' ∈ declared
      · simp [hd']
      · have hne : k' ≠ k := by intro e; subst e; exact hd' hd
        simp [hd', Dict.get?_erase_other _ _ _ hne]
    · simp only [hd, if_false]
      unfold splitStep
      by_cases hk : k' = k
      · subst hk
        simp [hd, get?_erase_self]
      · have hk2 : ¬ k = k' := fun e => hk e.symm
        have hm : (k ∈ List.map (fun x => x.fst) ((k', v') :: rest)) ↔ k ∈ List.map (fun x => x.fst) rest := by
          simp [hk2]
        by_cases hd' : k' ∈ declared
        · by_cases hr : k ∈ List.map (fun x => x.fst) rest
          · simp [hr, hm.2 hr]
          · have : ¬ k ∈ List.map (fun x => x.fst) ((k', v') :: rest) := fun h => hr (hm.1 h)
            simp [hr, this, hd', hk2]
        · by_cases hr : k ∈ List.map (fun x => x.fst) rest
          · simp [hr, hm.2 hr]
          · have : ¬ k ∈ List.map (fun x => x.fst) ((k', v') :: rest) := fun h => hr (hm.1 h)
            simp [hr, this, hd', hk2, Dict.get?_erase_other _ _ _ hk]

/-! ### rstrip -/

theorem dropWhile_all_append (p : Char → Bool) (xs ys : List Char) (h : ∀ c ∈ xs, p c = true) :
    (xs ++ ys).dropWhile p = ys.dropWhile p := by
  induction xs with
  | nil => rfl
  | cons x xs ih =>
    have hx : p x = true := h x (List.mem_cons_self ..)
    simp only [List.cons_append, List.dropWhile_cons, hx, if_true]
    exact ih (fun c hc => h c (List.mem_cons_of_mem _ hc))

theorem rstrip_suffix (wb spec : List Char) (hdot : '.' ∉ spec) :
    rstripChars (wb ++ '.' :: spec) spec = wb ++ ['.'] := by
  unfold rstripChars
  have hrev : (wb ++ '.' :: spec).reverse = spec.reverse ++ '.' :: wb.reverse := by simp
  rw [hrev, dropWhile_all_append]
  · simp [List.dropWhile_cons, hdot]
  · intro c hc
    simpa using (List.mem_reverse.1 hc)

/-! ### the execution tree and the hand-off protocol -/

theorem isCompleted_of_isFinal (s : St) (h : isFinal s = true) : isCompleted s = true := by
  cases s <;> simp_all [isFinal, isCompleted, Gen.States.completedStates]

/-- what one event can do -/
inductive Effect (w : World) : Ev → World → Prop where
  | none (ev : Ev) : Effect w ev w
  | newTask (wf : Nat) (e : Exec) : w.execs[wf]? = some e → e.state = .RUNNING → Effect w (.newTask wf) (doNewTask w wf)
  | spawn (t : Nat) (tk : PTask) (p : Exec) (env : Dict) : w.tasks[t]? = some tk → tk.child = none →
      w.execs[tk.wf]? = some p → tk.state = .RUNNING → Effect w (.spawn t env) (doSpawn w t tk p env)
  | finish (c : Nat) (e : Exec) (s : St) (out : Val) : w.execs[c]? = some e → e.state = .RUNNING →
      isFinal s = true → Effect w (.finish c s out) (doFinish w c e s out)
  | deliver (c t : Nat) (e : Exec) (tk : PTask) : c ∈ w.sent → w.execs[c]? = some e →
      e.parentTask = some t → w.tasks[t]? = some tk → isCompleted tk.state = false →
      Effect w (.deliver c) (doDeliver w t tk e)

theorem step_effect (w : World) (ev : Ev) : Effect w ev (step w ev) := by
  cases ev with
  | newTask wf =>
    simp only [step]
    split
    · split
      · rename_i e he hs
        exact .newTask wf e he (by simpa using hs)
      · exact .none _
    · exact .none _
  | spawn t env =>
    simp only [step]
    split
    · split
      · split
        · rename_i tk htk _ _ p hc hp hs
          exact .spawn t tk p env htk hc hp (by simpa using hs)
        · exact .none _
      · exact .none _
    · exact .none _
  | finish c s out =>
    simp only [step]
    split
    · split
      · rename_i e he hs
        simp only [Bool.and_eq_true, beq_iff_eq] at hs
        exact .finish c e s out he hs.1 hs.2
      · exact .none _
    · exact .none _
  | deliver c =>
    simp only [step]
    split
    · rename_i hc
      split
      · split
        · split
          · split
            · rename_i _ e he _ t ht _ tk htk hr
              refine .deliver c t e tk (by simpa using hc) he ht htk ?_
              unfold taskOnChildComplete at hr
              split at hr <;> simp_all
            · exact .none _
          · exact .none _
        · exact .none _
      · exact .none _
    · exact .none _


/-- tree invariant: execution 0 is the root (no root link; the start namespace and env); every
    other execution records root 0, the root's namespace and a parent task. -/
structure TreeInv (ns0 : String) (env0 : Dict) (w : World) : Prop where
  root0 : ∃ r, w.execs[0]? = some r ∧ r.root = none ∧ r.parentTask = none ∧ r.ns = ns0 ∧ r.env = env0
  desc : ∀ (i : Nat) (e : Exec), 0 < i → w.execs[i]? = some e →
    e.root = some 0 ∧ e.ns = ns0 ∧ e.parentTask.isSome = true

theorem treeInv_init (ns0 : String) (env0 : Dict) : TreeInv ns0 env0 (init ns0 env0) := by
  refine ⟨⟨_, rfl, rfl, rfl, rfl, rfl⟩, ?_⟩
  intro i e hi h
  have : i = 0 := by
    have := (List.getElem?_eq_some_iff.1 h).1
    simp [init] at this
    omega
  omega

theorem treeInv_effect (ns0 : String) (env0 : Dict) (w w' : World) (ev : Ev) (h : TreeInv ns0 env0 w)
    (he : Effect w ev w') : TreeInv ns0 env0 w' := by
  obtain ⟨⟨r, hr0, hr1, hr2, hr3, hr4⟩, hd⟩ := h
  cases he with
  | none _ => exact ⟨⟨r, hr0, hr1, hr2, hr3, hr4⟩, hd⟩
  | newTask wf e h1 h2 => exact ⟨⟨r, hr0, hr1, hr2, hr3, hr4⟩, hd⟩
  | spawn t tk p env h1 h2 h3 h4 =>
    have hlen : 0 < w.execs.length := (List.getElem?_eq_some_iff.1 hr0).1
    refine ⟨⟨r, ?_, hr1, hr2, hr3, hr4⟩, ?_⟩
    · simp only [doSpawn]
      rw [List.getElem?_append_left hlen]; exact hr0
    · intro i e hi hie
      simp only [doSpawn] at hie
      rw [List.getElem?_append] at hie
      split at hie
      · exact hd i e hi hie
      · rename_i hge
        have hi2 : i - w.execs.length = 0 := by
          have := (List.getElem?_eq_some_iff.1 hie).1
          simp at this; omega
        rw [hi2] at hie
        simp at hie
        subst hie
        simp only [Option.isSome_some, and_true]
        by_cases hwf : tk.wf = 0
        · rw [hwf] at h3
          have : p = r := by rw [hr0] at h3; exact (Option.some.inj h3).symm
          subst this
          simp [rootIdx, hr1, hwf, hr3]
        · have := hd tk.wf p (by omega) h3
          simp [rootIdx, this.1, this.2.1]
  | finish c e s out h1 h2 h3 =>
    by_cases hc : c = 0
    · subst hc
      have : e = r := by rw [hr0] at h1; exact (Option.some.inj h1).symm
      subst this
      refine ⟨⟨{ e with state := s, output := out, accepted := true }, ?_, hr1, hr2, hr3, hr4⟩, ?_⟩
      · simp only [doFinish]
        have hlen : 0 < w.execs.length := (List.getElem?_eq_some_iff.1 hr0).1
        simp [List.getElem?_set, hlen]
      · intro i e' hi hie
        simp only [doFinish] at hie
        rw [List.getElem?_set_ne (by omega)] at hie
        exact hd i e' hi hie
    · refine ⟨⟨r, ?_, hr1, hr2, hr3, hr4⟩, ?_⟩
      · simp only [doFinish]
        rw [List.getElem?_set_ne hc]; exact hr0
      · intro i e' hi hie
        simp only [doFinish] at hie
        by_cases hic : c = i
        · subst hic
          have hlen : c < w.execs.length := (List.getElem?_eq_some_iff.1 h1).1
          simp [List.getElem?_set, hlen] at hie
          subst hie
          exact hd c e hi h1
        · rw [List.getElem?_set_ne hic] at hie
          exact hd i e' hi hie
  | deliver c t e tk h1 h2 h3 h4 h5 => exact ⟨⟨r, hr0, hr1, hr2, hr3, hr4⟩, hd⟩

theorem treeInv_reachable (ns0 : String) (env0 : Dict) (evs : List Ev) :
    TreeInv ns0 env0 (run (init ns0 env0) evs) := by
  suffices h : ∀ w, TreeInv ns0 env0 w → TreeInv ns0 env0 (run w evs) from h _ (treeInv_init ns0 env0)
  induction evs with
  | nil => intro w h; exact h
  | cons ev evs ih =>
    intro w h
    exact ih _ (treeInv_effect ns0 env0 w _ ev h (step_effect w ev))



/-- expected number of registered result messages for execution index `c` -/
def expectedSent (w : World) (c : Nat) : Nat :=
  match w.execs[c]? with
  | some e => if isFinal e.state && e.parentTask.isSome then 1 else 0
  | none => 0

/-- hand-off invariant -/
structure HandInv (w : World) : Prop where
  sentCount : ∀ (c : Nat), w.sent.count c = expectedSent w c
  cont : ∀ (t : Nat) (tk : PTask), w.tasks[t]? = some tk →
    (tk.continued = 0 ∧ isCompleted tk.state = false) ∨ (tk.continued = 1 ∧ isCompleted tk.state = true)
  follows : ∀ (t : Nat) (tk : PTask), w.tasks[t]? = some tk → tk.continued = 1 →
    ∃ (c : Nat) (e : Exec), w.execs[c]? = some e ∧ e.parentTask = some t ∧ isFinal e.state = true ∧
      tk.state = e.state ∧ tk.result = e.output

theorem handInv_init (ns0 : String) (env0 : Dict) : HandInv (init ns0 env0) := by
  refine ⟨?_, ?_, ?_⟩
  · intro c
    simp only [init, expectedSent, List.count_nil]
    cases c with
    | zero => simp [isFinal]
    | succ n => simp
  · intro t tk h; simp [init] at h
  · intro t tk h; simp [init] at h

theorem handInv_effect (w w' : World) (ev : Ev) (h : HandInv w) (he : Effect w ev w') : HandInv w' := by
  obtain ⟨hs, hc, hf⟩ := h
  cases he with
  | none _ => exact ⟨hs, hc, hf⟩
  | newTask wf e h1 h2 =>
    refine ⟨hs, ?_, ?_⟩
    · intro t tk ht
      simp only [doNewTask] at ht
      rw [List.getElem?_append] at ht
      split at ht
      · exact hc t tk ht
      · have hi2 : t - w.tasks.length = 0 := by
          have := (List.getElem?_eq_some_iff.1 ht).1
          simp at this; omega
        rw [hi2] at ht
        simp at ht
        subst ht
        left; exact ⟨rfl, by show isCompleted St.RUNNING = false; decide⟩
    · intro t tk ht h1'
      simp only [doNewTask] at ht
      rw [List.getElem?_append] at ht
      split at ht
      · exact hf t tk ht h1'
      · have hi2 : t - w.tasks.length = 0 := by
          have := (List.getElem?_eq_some_iff.1 ht).1
          simp at this; omega
        rw [hi2] at ht
        simp at ht
        subst ht
        simp at h1'
  | spawn t tk p env h1 h2 h3 h4 =>
    have htlen : t < w.tasks.length := (List.getElem?_eq_some_iff.1 h1).1
    refine ⟨?_, ?_, ?_⟩
    · intro c
      have hold := hs c
      simp only [doSpawn, expectedSent] at hold ⊢
      by_cases hlt : c < w.execs.length
      · rw [List.getElem?_append_left hlt]; exact hold
      · have hnone : w.execs[c]? = none := List.getElem?_eq_none (by omega)
        rw [hnone] at hold
        rw [hold]
        by_cases hz : c = w.execs.length
        · subst hz; simp [isFinal]
        · rw [List.getElem?_eq_none (by simp; omega)]
    · intro t' tk' ht'
      simp only [doSpawn] at ht'
      by_cases htt : t = t'
      · subst htt
        simp [List.getElem?_set, htlen] at ht'
        subst ht'
        exact hc t tk h1
      · rw [List.getElem?_set_ne htt] at ht'
        exact hc t' tk' ht'
    · intro t' tk' ht' h1'
      simp only [doSpawn] at ht'
      have key : ∀ tk0 : PTask, w.tasks[t']? = some tk0 → tk0.continued = 1 →
          ∃ (c : Nat) (e : Exec), (doSpawn w t tk p env).execs[c]? = some e ∧ e.parentTask = some t' ∧
            isFinal e.state = true ∧ tk0.state = e.state ∧ tk0.result = e.output := by
        intro tk0 h0 h01
        obtain ⟨c, e, hce, r⟩ := hf t' tk0 h0 h01
        refine ⟨c, e, ?_, r⟩
        simp only [doSpawn]
        rw [List.getElem?_append_left (List.getElem?_eq_some_iff.1 hce).1]; exact hce
      by_cases htt : t = t'
      · subst htt
        simp [List.getElem?_set, htlen] at ht'
        subst ht'
        exact key tk h1 h1'
      · rw [List.getElem?_set_ne htt] at ht'
        exact key tk' ht' h1'
  | finish c e s out h1 h2 h3 =>
    have hclen : c < w.execs.length := (List.getElem?_eq_some_iff.1 h1).1
    have hold0 : w.sent.count c = 0 := by
      have := hs c
      simp only [expectedSent, h1, h2] at this
      simpa [isFinal] using this
    refine ⟨?_, hc, ?_⟩
    · intro c'
      simp only [doFinish, expectedSent]
      by_cases hcc : c = c'
      · subst hcc
        simp only [List.getElem?_set, hclen, if_true, h3, Bool.true_and]
        cases hp : e.parentTask.isSome with
        | true => simp [List.count_append, hold0]
        | false => simp [hold0]
      · rw [List.getElem?_set_ne hcc]
        have hold := hs c'
        simp only [expectedSent] at hold
        rw [← hold]
        split
        · have : (c == c') = false := by simpa using hcc
          simp [List.count_append, List.count_cons, this]
        · rfl
    · intro t tk ht h1'
      obtain ⟨c0, e0, hce, hpar, hfin, r⟩ := hf t tk ht h1'
      have hne : c ≠ c0 := by
        intro e'; subst e'
        rw [h1] at hce
        cases hce
        rw [h2] at hfin
        exact absurd hfin (by decide)
      refine ⟨c0, e0, ?_, hpar, hfin, r⟩
      simp only [doFinish]
      rw [List.getElem?_set_ne hne]; exact hce
  | deliver c t e tk h1 h2 h3 h4 h5 =>
    have htlen : t < w.tasks.length := (List.getElem?_eq_some_iff.1 h4).1
    have hfin : isFinal e.state = true := by
      have hcnt := hs c
      simp only [expectedSent, h2] at hcnt
      have hpos : 0 < w.sent.count c := List.count_pos_iff.2 h1
      cases hfe : isFinal e.state with
      | true => rfl
      | false => simp [hfe] at hcnt; omega
    refine ⟨hs, ?_, ?_⟩
    · intro t' tk' ht'
      simp only [doDeliver] at ht'
      by_cases htt : t = t'
      · subst htt
        simp [List.getElem?_set, htlen] at ht'
        subst ht'
        rcases hc t tk h4 with ⟨h0, _⟩ | ⟨_, h1c⟩
        · right; exact ⟨by simp [h0], isCompleted_of_isFinal _ hfin⟩
        · rw [h5] at h1c; cases h1c
      · rw [List.getElem?_set_ne htt] at ht'
        exact hc t' tk' ht'
    · intro t' tk' ht' h1'
      simp only [doDeliver] at ht'
      by_cases htt : t = t'
      · subst htt
        simp [List.getElem?_set, htlen] at ht'
        subst ht'
        exact ⟨c, e, h2, h3, hfin, rfl, rfl⟩
      · rw [List.getElem?_set_ne htt] at ht'
        exact hf t' tk' ht' h1'

theorem handInv_reachable (ns0 : String) (env0 : Dict) (evs : List Ev) :
    HandInv (run (init ns0 env0) evs) := by
  suffices h : ∀ w, HandInv w → HandInv (run w evs) from h _ (handInv_init ns0 env0)
  induction evs with
  | nil => intro w h; exact h
  | cons ev evs ih =>
    intro w h
    exact ih _ (handInv_effect w _ ev h (step_effect w ev))



/-- delivering the same child-result message again changes nothing, provided the execution it names
    is final whenever it is in `sent` (true in every reachable state: `HandInv.sentCount`). -/
theorem deliver_twice (w : World) (c : Nat)
    (hfinal : ∀ e, w.execs[c]? = some e → c ∈ w.sent → isFinal e.state = true) :
    step (step w (.deliver c)) (.deliver c) = step w (.deliver c) := by
  generalize hw' : step w (.deliver c) = w'
  have he := step_effect w (.deliver c)
  rw [hw'] at he
  cases he with
  | none _ => exact hw'
  | deliver _ t e tk h1 h2 h3 h4 h5 =>
    have htlen : t < w.tasks.length := (List.getElem?_eq_some_iff.1 h4).1
    have hfin := isCompleted_of_isFinal _ (hfinal e h2 h1)
    have hc : (doDeliver w t tk e).sent.contains c = true := by simpa [doDeliver] using h1
    simp only [step, hc, if_true]
    have hex : (doDeliver w t tk e).execs[c]? = some e := by simpa [doDeliver] using h2
    rw [hex]
    simp only [h3]
    have htk : (doDeliver w t tk e).tasks[t]? =
        some { tk with state := e.state, continued := tk.continued + 1, result := e.output } := by
      simp [doDeliver, List.getElem?_set, htlen]
    rw [htk]
    simp [taskOnChildComplete, hfin]

theorem reachable_sent_final (ns0 : String) (env0 : Dict) (evs : List Ev) (c : Nat) (e : Exec)
    (h : (run (init ns0 env0) evs).execs[c]? = some e) (hs : c ∈ (run (init ns0 env0) evs).sent) :
    isFinal e.state = true := by
  have hcnt := (handInv_reachable ns0 env0 evs).sentCount c
  simp only [expectedSent, h] at hcnt
  have hpos : 0 < (run (init ns0 env0) evs).sent.count c := List.count_pos_iff.2 hs
  cases hfe : isFinal e.state with
  | true => rfl
  | false => simp [hfe] at hcnt; omega

/-- under the tree invariant the environment every execution sees is the root's -/
theorem envDict_of_treeInv (ns0 : String) (env0 : Dict) (w : World) (h : TreeInv ns0 env0 w)
    (i : Nat) (e : Exec) (hi : w.execs[i]? = some e) (fuel : Nat) :
    envDict w (fuel + 2) i = some env0 := by
  obtain ⟨⟨r, hr0, hr1, hr2, hr3, hr4⟩, hd⟩ := h
  by_cases h0 : i = 0
  · subst h0
    rw [hr0] at hi; cases hi
    simp [envDict, hr0, hr1, hr4]
  · have := hd i e (by omega) hi
    simp [envDict, hi, this.1, hr0, hr1, hr4]

end Mistral.SubWf
