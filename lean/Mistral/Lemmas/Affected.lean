import Mistral.Lemmas.Engine
namespace Mistral.Engine
open Mistral Mistral.Join

/-- a join that has an execution row -/
def joinWithRow (sp : Spec) (w : World) (n : String) : Bool :=
  (isJoin sp n).isSome && (findByName w n).isSome

theorem go_mono (sp : Spec) (w : World) (outs : String → List String) :
    ∀ (fuel : Nat) (frontier visited res : List String) (x : String),
      x ∈ res → x ∈ affected.go sp w outs fuel frontier visited res := by
  intro fuel
  induction fuel with
  | zero => intro f v r x h; simpa [affected.go] using h
  | succ k ih =>
    intro f v r x h
    unfold affected.go
    cases f with
    | nil => exact h
    | cons n rest =>
      simp only
      split
      · exact ih _ _ _ _ h
      · split
        · exact ih _ _ _ _ h
        · split
          · apply ih
            split
            · exact h
            · exact List.mem_append_left _ h
          · exact ih _ _ _ _ h

/-- A join with a row that stands in the frontier within reach of the fuel ends up in the
    result (unless it was already visited — then it is in the result already, by the invariant
    `visited joins-with-row ⊆ res`). -/
theorem go_finds (sp : Spec) (w : World) (outs : String → List String) (j : String)
    (hj : joinWithRow sp w j = true)
    (hknown : (sp.graph.tasks.find? (·.name == j)).isNone = false) :
    ∀ (fuel : Nat) (pre post visited res : List String),
      pre.length < fuel →
      (j ∈ visited → j ∈ res) →
      j ∈ affected.go sp w outs fuel (pre ++ j :: post) visited res := by
  intro fuel
  induction fuel with
  | zero => intro pre post v r h; omega
  | succ k ih =>
    intro pre post v r hlen hinv
    unfold affected.go
    cases pre with
    | nil =>
      simp only [List.nil_append]
      by_cases hv : v.contains j = true
      · simp only [hv, if_true]
        exact go_mono sp w outs _ _ _ _ _ (hinv (by simpa using hv))
      · simp only [hv, hknown, Bool.false_eq_true, if_false]
        have hj' : ((isJoin sp j).isSome && (findByName w j).isSome) = true := hj
        simp only [hj', if_true]
        apply go_mono
        split
        · rename_i hc; simpa using hc
        · simp
    | cons n pre' =>
      simp only [List.cons_append]
      have hlen' : pre'.length < k := by simp at hlen; omega
      by_cases hv : v.contains n = true
      · simp only [hv, if_true]
        exact ih pre' post v r hlen' hinv
      · simp only [hv, Bool.false_eq_true, if_false]
        by_cases hn : (sp.graph.tasks.find? (·.name == n)).isNone = true
        · simp only [hn, if_true]
          apply ih pre' post (n :: v) r hlen'
          intro hm
          rcases List.mem_cons.mp hm with e | e
          · subst e; rw [hn] at hknown; cases hknown
          · exact hinv e
        · simp only [hn, Bool.false_eq_true, if_false]
          by_cases hjn : ((isJoin sp n).isSome && (findByName w n).isSome) = true
          · simp only [hjn, if_true]
            apply ih pre' post (n :: v) _ hlen'
            intro hm
            rcases List.mem_cons.mp hm with e | e
            · subst e
              split
              · rename_i hc; simpa using hc
              · simp
            · have := hinv e
              split
              · exact this
              · exact List.mem_append_left _ this
          · simp only [hjn, Bool.false_eq_true, if_false]
            have : pre' ++ j :: post ++ outs n = pre' ++ j :: (post ++ outs n) := by simp
            rw [this]
            apply ih pre' (post ++ outs n) (n :: v) r hlen'
            intro hm
            rcases List.mem_cons.mp hm with e | e
            · subst e
              exfalso; exact hjn hj
            · exact hinv e

end Mistral.Engine

namespace Mistral.Engine
open Mistral Mistral.Join

theorem find_setTask_other (ts : List TaskRow) (r1 : TaskRow) (t : Tid) (h : r1.name ≠ t.1) :
    (setTask ts r1).find? (fun x => x.name == t.1 && x.occ == t.2) =
    ts.find? (fun x => x.name == t.1 && x.occ == t.2) := by
  unfold setTask
  induction ts with
  | nil => rfl
  | cons x xs ih =>
    simp only [List.map_cons, List.find?_cons]
    by_cases hx : (x.name == r1.name && x.occ == r1.occ) = true
    · have hxn : x.name = r1.name := by
        simp only [Bool.and_eq_true, beq_iff_eq] at hx; exact hx.1
      have h1 : (r1.name == t.1 && r1.occ == t.2) = false := by
        have : (r1.name == t.1) = false := by simpa using h
        simp [this]
      have h2 : (x.name == t.1 && x.occ == t.2) = false := by
        have : (x.name == t.1) = false := by rw [hxn]; simpa using h
        simp [this]
      simp only [hx, if_true, h1, h2]
      exact ih
    · simp only [hx, Bool.false_eq_true, if_false]
      split
      · rfl
      · exact ih

theorem findTask_dispatchOne_other (sp : Spec) (w : World) (c : Cmd) (t : Tid) (h : c.target ≠ t.1) :
    findTask (dispatchOne sp w c) t = findTask w t := by
  unfold dispatchOne findTask
  simp only
  split
  · rfl
  · split
    · rfl
    · split
      · split
        · simp only [List.find?_append]
          have : (newRow w c St.WAITING).name = c.target := rfl
          have hb : ((newRow w c St.WAITING).name == t.1 && (newRow w c St.WAITING).occ == t.2) = false := by
            rw [this]; have : (c.target == t.1) = false := by simpa using h
            simp [this]
          simp [List.find?_cons, hb]
        · rename_i r hr
          have hrn : r.name = c.target := by
            unfold findByName at hr
            have := List.mem_of_getLast? hr
            have := (List.mem_filter.mp this).2
            simpa using this
          simp only
          split
          · exact find_setTask_other _ _ t (by show r.name ≠ t.1; rw [hrn]; exact h)
          · rfl
      · simp only [List.find?_append]
        have : (newRow w c St.IDLE).name = c.target := rfl
        have hb : ((newRow w c St.IDLE).name == t.1 && (newRow w c St.IDLE).occ == t.2) = false := by
          rw [this]; have : (c.target == t.1) = false := by simpa using h
          simp [this]
        simp [List.find?_cons, hb]

theorem findTask_dispatch_other (sp : Spec) (cs : List Cmd) (t : Tid) (h : ∀ c ∈ cs, c.target ≠ t.1) :
    ∀ w, findTask (dispatch sp w cs) t = findTask w t := by
  unfold dispatch
  induction cs with
  | nil => intro w; rfl
  | cons c rest ih =>
    intro w
    simp only [List.foldl_cons]
    rw [ih (fun c' hc' => h c' (List.mem_cons_of_mem _ hc'))]
    exact findTask_dispatchOne_other sp w c t (h c List.mem_cons_self)

end Mistral.Engine
