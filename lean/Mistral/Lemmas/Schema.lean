/- Helper lemmas about the JSON-schema interpreter `Mistral.Schema.validate` (Model/Schema.lean):
   when is the result of a keyword / a schema `clean` (no error and no TypeError).  Used by
   Props/C14Schema.lean. -/
import Mistral.Model.Schema
namespace Mistral.Schema

/-! ## events -/

@[simp] theorem Out.clean_ok : Out.ok.clean = true := rfl
@[simp] theorem Out.clean_died : Out.died.clean = false := rfl
@[simp] theorem Out.clean_err (kw : String) : (Out.err kw).clean = false := rfl

@[simp] theorem Out.clean_check (b : Bool) (kw : String) : (Out.check b kw).clean = b := by
  cases b <;> rfl

theorem Out.clean_seq (a b : Out) : (a.seq b).clean = (a.clean && b.clean) := by
  obtain ⟨ae, ac⟩ := a
  obtain ⟨be, bc⟩ := b
  cases ac <;> cases bc <;> cases ae <;> cases be <;> simp [Out.seq, Out.clean]

@[simp] theorem Out.clean_pre (seg : Seg) (o : Out) : (o.pre seg).clean = o.clean := by
  obtain ⟨e, c⟩ := o
  cases e <;> simp [Out.pre, Out.clean]

theorem Out.clean_seqAll (os : List Out) : (Out.seqAll os).clean = os.all (·.clean) := by
  induction os with
  | nil => rfl
  | cons o os ih => simp [Out.seqAll, Out.clean_seq, ih]

theorem Out.eager_valid (o : Out) : o.eager = .valid ↔ o.clean = true := by
  obtain ⟨e, c⟩ := o
  cases c <;> cases e <;> simp [Out.eager, Out.clean]

theorem Out.lazy_valid (o : Out) : o.lazy = .valid ↔ o.clean = true := by
  obtain ⟨e, c⟩ := o
  cases c <;> cases e <;> simp [Out.lazy, Out.clean]

/-! ## a schema is accepted iff each of its keywords is -/

theorem clean_validateKws (kws : List Kw) (j : JVal) :
    (validateKws kws j).clean = kws.all (fun k => (validateKw k j).clean) := by
  induction kws with
  | nil => simp [validateKws]
  | cons k ks ih => simp [validateKws, Out.clean_seq, ih]

theorem accepts_mk (kws : List Kw) (j : JVal) :
    accepts (.mk kws) j = kws.all (fun k => (validateKw k j).clean) := by
  simp [accepts, validate, clean_validateKws]

theorem accepts_kw {kws : List Kw} {j : JVal} (h : accepts (.mk kws) j = true) {k : Kw} (hk : k ∈ kws) :
    (validateKw k j).clean = true := by
  rw [accepts_mk, List.all_eq_true] at h
  exact h k hk

/-- adding keywords to a schema can only shrink the set of accepted values. -/
theorem accepts_append_left {kws more : List Kw} {j : JVal} (h : accepts (.mk (kws ++ more)) j = true) :
    accepts (.mk kws) j = true := by
  rw [accepts_mk, List.all_append, Bool.and_eq_true] at h
  rw [accepts_mk]; exact h.1

theorem accepts_append_right {kws more : List Kw} {j : JVal} (h : accepts (.mk (kws ++ more)) j = true) :
    accepts (.mk more) j = true := by
  rw [accepts_mk, List.all_append, Bool.and_eq_true] at h
  rw [accepts_mk]; exact h.2

theorem accepts_append_iff (kws more : List Kw) (j : JVal) :
    accepts (.mk (kws ++ more)) j = (accepts (.mk kws) j && accepts (.mk more) j) := by
  simp [accepts_mk, List.all_append]

/-! ## keywords -/

theorem clean_properties (ps : List (String × Schema)) (kvs : List (Key × JVal)) :
    (validateProps ps kvs).clean =
      ps.all (fun p => match lookup p.1 kvs with | some v => accepts p.2 v | none => true) := by
  induction ps with
  | nil => simp [validateProps]
  | cons p ps ih =>
    obtain ⟨k, s⟩ := p
    simp only [validateProps, Out.clean_seq, ih, List.all_cons]
    cases lookup k kvs <;> simp [accepts]

/-- `properties`: a declared property that is present satisfies its sub-schema. -/
theorem properties_sub {ps : List (String × Schema)} {kvs : List (Key × JVal)}
    (h : (validateKw (.properties ps) (.obj kvs)).clean = true)
    {k : String} {s : Schema} (hp : (k, s) ∈ ps) {v : JVal} (hl : lookup k kvs = some v) :
    accepts s v = true := by
  simp only [validateKw, clean_properties, List.all_eq_true] at h
  have := h (k, s) hp
  simpa [hl] using this

theorem clean_patternProperties (ps : List (Re × Schema)) (kvs : List (Key × JVal)) :
    (validatePats ps kvs).clean =
      ps.all (fun p => kvs.all (fun kv => match kv.1 with
        | .ns _ => false
        | .s name => !p.1.search name || accepts p.2 kv.2)) := by
  induction ps with
  | nil => simp [validatePats]
  | cons p ps ih =>
    obtain ⟨r, s⟩ := p
    simp only [validatePats, Out.clean_seq, ih, List.all_cons, Out.clean_seqAll, List.all_map]
    congr 1
    apply List.all_congr rfl
    intro kv
    obtain ⟨k, v⟩ := kv
    cases k with
    | ns r' => simp [Function.comp]
    | s name => by_cases hs : r.search name = true <;> simp [Function.comp, hs, accepts]

/-- `patternProperties` (non-empty) accepted: every key is a string. -/
theorem patternProperties_keys {p : Re × Schema} {ps : List (Re × Schema)} {kvs : List (Key × JVal)}
    (h : (validateKw (.patternProperties (p :: ps)) (.obj kvs)).clean = true)
    {kv : Key × JVal} (hkv : kv ∈ kvs) : ∃ name, kv.1 = .s name := by
  simp only [validateKw, clean_patternProperties, List.all_cons, Bool.and_eq_true, List.all_eq_true] at h
  have := h.1 kv hkv
  cases hk : kv.1 with
  | ns r => simp [hk] at this
  | s name => exact ⟨name, rfl⟩

/-- `patternProperties`: the value of a key matched by a pattern satisfies the sub-schema. -/
theorem patternProperties_sub {ps : List (Re × Schema)} {kvs : List (Key × JVal)}
    (h : (validateKw (.patternProperties ps) (.obj kvs)).clean = true)
    {r : Re} {s : Schema} (hp : (r, s) ∈ ps) {name : String} {v : JVal} (hkv : (Key.s name, v) ∈ kvs)
    (hm : r.search name = true) : accepts s v = true := by
  simp only [validateKw, clean_patternProperties, List.all_eq_true] at h
  have := h (r, s) hp (Key.s name, v) hkv
  simpa [hm] using this

/-- what `extras` returns: every key is in `names`, matched by a pattern, or among the extras;
    a non-string key is an extra, and only when there is no pattern. -/
theorem extras_spec {names : List String} {pats : List Re} {kvs ex : List (Key × JVal)}
    (h : extras names pats kvs = some ex) {kv : Key × JVal} (hkv : kv ∈ kvs) :
    (∃ name, kv.1 = .s name ∧ (names.contains name = true ∨ pats.any (fun p => p.search name) = true))
      ∨ kv ∈ ex := by
  induction kvs generalizing ex with
  | nil => cases hkv
  | cons x xs ih =>
    obtain ⟨k, v⟩ := x
    cases k with
    | s name =>
      simp only [extras] at h
      by_cases hn : names.contains name = true
      · simp only [hn, if_true] at h
        rcases List.mem_cons.mp hkv with rfl | hm
        · exact .inl ⟨name, rfl, .inl hn⟩
        · exact ih h hm
      · simp only [hn] at h
        by_cases hp : pats.any (fun p => p.search name) = true
        · simp only [hp, if_true] at h
          rcases List.mem_cons.mp hkv with rfl | hm
          · exact .inl ⟨name, rfl, .inr hp⟩
          · exact ih h hm
        · simp only [hp] at h
          cases hr : extras names pats xs with
          | none => simp [hr] at h
          | some ex' =>
            simp [hr] at h
            subst h
            rcases List.mem_cons.mp hkv with rfl | hm
            · exact .inr (List.mem_cons_self ..)
            · rcases ih hr hm with h1 | h2
              · exact .inl h1
              · exact .inr (List.mem_cons_of_mem _ h2)
    | ns r =>
      simp only [extras] at h
      by_cases hp : pats.isEmpty = true
      · simp only [hp, if_true] at h
        cases hr : extras names pats xs with
        | none => simp [hr] at h
        | some ex' =>
          simp [hr] at h
          subst h
          rcases List.mem_cons.mp hkv with rfl | hm
          · exact .inr (List.mem_cons_self ..)
          · rcases ih hr hm with h1 | h2
            · exact .inl h1
            · exact .inr (List.mem_cons_of_mem _ h2)
      · simp [hp] at h

/-- `additionalProperties: False` accepted: every key is a string that is declared or matched. -/
theorem additionalPropertiesFalse_keys {names : List String} {pats : List Re} {kvs : List (Key × JVal)}
    (h : (validateKw (.additionalPropertiesFalse names pats) (.obj kvs)).clean = true)
    {kv : Key × JVal} (hkv : kv ∈ kvs) :
    ∃ name, kv.1 = .s name ∧ (names.contains name = true ∨ pats.any (fun p => p.search name) = true) := by
  simp only [validateKw] at h
  cases hx : extras names pats kvs with
  | none => simp [hx] at h
  | some ex =>
    simp [hx] at h
    subst h
    rcases extras_spec hx hkv with h1 | h2
    · exact h1
    · cases h2

/-- `additionalProperties: <schema>` accepted: a key that is neither declared nor matched has a
    value that satisfies the schema. -/
theorem additionalProperties_sub {names : List String} {pats : List Re} {s : Schema} {kvs : List (Key × JVal)}
    (h : (validateKw (.additionalProperties names pats s) (.obj kvs)).clean = true)
    {kv : Key × JVal} (hkv : kv ∈ kvs) :
    (∃ name, kv.1 = .s name ∧ (names.contains name = true ∨ pats.any (fun p => p.search name) = true))
      ∨ accepts s kv.2 = true := by
  simp only [validateKw] at h
  cases hx : extras names pats kvs with
  | none => simp [hx] at h
  | some ex =>
    simp only [hx, Out.clean_seqAll, List.all_map, List.all_eq_true] at h
    rcases extras_spec hx hkv with h1 | h2
    · exact .inl h1
    · right
      have := h kv h2
      simpa [accepts] using this

theorem indexed_all {α : Type} (p : α → Bool) (n : Nat) (xs : List α) :
    (indexed n xs).all (fun ix => p ix.2) = xs.all p := by
  induction xs generalizing n with
  | nil => rfl
  | cons x xs ih => simp [indexed, ih]

/-- `items` accepted: every element satisfies the sub-schema. -/
theorem items_sub {s : Schema} {xs : List JVal} (h : (validateKw (.items s) (.arr xs)).clean = true)
    {x : JVal} (hx : x ∈ xs) : accepts s x = true := by
  simp only [validateKw, Out.clean_seqAll, List.all_map] at h
  have h' : (indexed 0 xs).all (fun ix => accepts s ix.2) = true := by
    simpa [accepts, Function.comp_def] using h
  rw [indexed_all (fun x => accepts s x)] at h'
  exact List.all_eq_true.mp h' x hx

theorem clean_allOf (ss : List Schema) (j : JVal) : (allOfGo ss j).clean = ss.all (fun s => accepts s j) := by
  induction ss with
  | nil => simp [allOfGo]
  | cons s ss ih => simp [allOfGo, Out.clean_seq, ih, accepts]

/-- `allOf` accepts exactly what every branch accepts. -/
theorem allOf_iff (ss : List Schema) (j : JVal) :
    (validateKw (.allOf ss) j).clean = true ↔ ∀ s ∈ ss, accepts s j = true := by
  simp [validateKw, clean_allOf]

/-- `anyOf` accepted: some branch is accepted. -/
theorem anyOf_some {ss : List Schema} {j : JVal} (h : (anyOfGo ss j).clean = true) :
    ∃ s ∈ ss, accepts s j = true := by
  induction ss with
  | nil => simp [anyOfGo] at h
  | cons s ss ih =>
    simp only [anyOfGo] at h
    cases he : (validate s j).eager with
    | valid => exact ⟨s, List.mem_cons_self .., (Out.eager_valid _).mp he⟩
    | crash => simp [he] at h
    | invalid =>
      simp only [he] at h
      obtain ⟨s', hm, ha⟩ := ih h
      exact ⟨s', List.mem_cons_of_mem _ hm, ha⟩

/-- `oneOf` accepted: some branch is accepted (in fact exactly one; see `oneOf_two`). -/
theorem oneOf_some {ss : List Schema} {j : JVal} (h : (oneOfGo ss j).clean = true) :
    ∃ s ∈ ss, accepts s j = true := by
  induction ss with
  | nil => simp [oneOfGo] at h
  | cons s ss ih =>
    simp only [oneOfGo] at h
    cases he : (validate s j).eager with
    | valid => exact ⟨s, List.mem_cons_self .., (Out.eager_valid _).mp he⟩
    | crash => simp [he] at h
    | invalid =>
      simp only [he] at h
      obtain ⟨s', hm, ha⟩ := ih h
      exact ⟨s', List.mem_cons_of_mem _ hm, ha⟩

theorem restTris_mem {ss : List Schema} {j : JVal} {s : Schema} (hs : s ∈ ss) :
    (validate s j).lazy ∈ restTris ss j := by
  induction ss with
  | nil => cases hs
  | cons x xs ih =>
    simp only [restTris]
    rcases List.mem_cons.mp hs with rfl | hm
    · exact List.mem_cons_self ..
    · exact List.mem_cons_of_mem _ (ih hm)

/-- `oneOf` accepted: no two branches (at different positions) are both accepted. -/
theorem oneOf_two {ss : List Schema} {j : JVal} (h : (oneOfGo ss j).clean = true)
    {pre mid post : List Schema} {a b : Schema} (hs : ss = pre ++ a :: mid ++ b :: post)
    (ha : accepts a j = true) : accepts b j = false := by
  induction pre generalizing ss with
  | nil =>
    subst hs
    simp only [List.nil_append, List.cons_append, oneOfGo] at h
    have hv : (validate a j).eager = .valid := (Out.eager_valid _).mpr ha
    simp only [hv] at h
    have hb : (validate b j).lazy ∈ restTris (mid ++ b :: post) j :=
      restTris_mem (List.mem_append_right _ (List.mem_cons_self ..))
    cases hbv : accepts b j with
    | false => rfl
    | true =>
      have : (validate b j).lazy = .valid := (Out.lazy_valid _).mpr hbv
      rw [this] at hb
      by_cases hcr : Tri.crash ∈ restTris (mid ++ b :: post) j
      · simp [hcr] at h
      · simp [hcr, hb] at h
  | cons x pre ih =>
    subst hs
    simp only [List.cons_append, oneOfGo] at h
    cases he : (validate x j).eager with
    | crash => simp [he] at h
    | invalid =>
      simp only [he] at h
      exact ih h (by simp)
    | valid =>
      simp only [he] at h
      have hb : (validate b j).lazy ∈ restTris (pre ++ a :: mid ++ b :: post) j :=
        restTris_mem (by simp)
      cases hbv : accepts b j with
      | false => rfl
      | true =>
        have : (validate b j).lazy = .valid := (Out.lazy_valid _).mpr hbv
        rw [this] at hb
        simp only [List.append_assoc, List.cons_append] at hb h
        by_cases hcr : Tri.crash ∈ restTris (pre ++ a :: (mid ++ b :: post)) j
        · simp [hcr] at h
        · simp [hcr, hb] at h

/-- `not` accepted: the sub-schema is not accepted. -/
theorem not_sub {s : Schema} {j : JVal} (h : (validateKw (.not s) j).clean = true) : accepts s j = false := by
  simp only [validateKw] at h
  cases hl : (validate s j).lazy with
  | valid => simp [hl] at h
  | crash => simp [hl] at h
  | invalid =>
    cases ha : accepts s j with
    | false => rfl
    | true => rw [(Out.lazy_valid _).mpr ha] at hl; cases hl

/-! ## accessors for concrete schemas -/

/-- the declared properties of a schema (all `properties` keywords). -/
def Schema.props : Schema → List (String × Schema)
  | .mk kws => kws.flatMap (fun k => match k with | .properties ps => ps | _ => [])

def Schema.kws : Schema → List Kw
  | .mk kws => kws

theorem accepts_kw' {s : Schema} {j : JVal} (h : accepts s j = true) {k : Kw} (hk : k ∈ s.kws) :
    (validateKw k j).clean = true := by
  cases s with
  | mk kws => exact accepts_kw h hk

/-- a declared property that is present satisfies its sub-schema. -/
theorem accepts_prop {s : Schema} {kvs : List (Key × JVal)} (h : accepts s (.obj kvs) = true)
    {k : String} {sub : Schema} (hp : (k, sub) ∈ s.props) {v : JVal} (hl : lookup k kvs = some v) :
    accepts sub v = true := by
  cases s with
  | mk kws =>
    simp only [Schema.props, List.mem_flatMap] at hp
    obtain ⟨kw, hkw, hin⟩ := hp
    cases kw with
    | properties ps => exact properties_sub (accepts_kw h hkw) hin hl
    | _ => simp at hin

/-! ## values -/

theorem lookup_mem {k : String} {kvs : List (Key × JVal)} {v : JVal} (h : lookup k kvs = some v) :
    (Key.s k, v) ∈ kvs := by
  unfold lookup at h
  induction kvs with
  | nil => simp [lookupKey] at h
  | cons x xs ih =>
    obtain ⟨k', v'⟩ := x
    simp only [lookupKey] at h
    by_cases hk : k' = Key.s k
    · simp [hk] at h
      subst h; subst hk
      exact List.mem_cons_self ..
    · simp [hk] at h
      exact List.mem_cons_of_mem _ (ih h)

theorem hasKey_iff {k : String} {kvs : List (Key × JVal)} : hasKey k kvs = true ↔ ∃ v, lookup k kvs = some v := by
  simp [hasKey, Option.isSome_iff_exists]

/-- `required` accepted: every required key is present. -/
theorem required_present {ks : List String} {kvs : List (Key × JVal)}
    (h : (validateKw (.required ks) (.obj kvs)).clean = true) {k : String} (hk : k ∈ ks) :
    ∃ v, lookup k kvs = some v := by
  simp only [validateKw, Out.clean, List.isEmpty_map, Bool.not_false, Bool.and_true] at h
  rw [List.isEmpty_iff] at h
  have : k ∉ ks.filter (fun k => !hasKey k kvs) := by rw [h]; simp
  simp only [List.mem_filter, hk, true_and, Bool.not_eq_true', Bool.not_eq_false] at this
  exact hasKey_iff.mp this

end Mistral.Schema
