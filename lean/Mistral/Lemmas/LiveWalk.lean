/-
Completeness of the model of `find_indirectly_affected_task_executions` (`Engine.affected`): a join
with an execution row that is reachable from `u` by a path whose intermediate tasks the walk
passes through is in `affected sp w u`, provided the model's walk budget covers the definition.
-/
import Mistral.Lemmas.LiveDefs
namespace Mistral.Engine.Live
open Mistral Mistral.Join Mistral.Engine

theorem affected_eq_go (sp : Spec) (w : World) (start : String) :
    affected sp w start = affected.go sp w (outsOf sp) (walkFuel sp) (outsOf sp start) [start] [] := rfl

/-- termination measure of the walk: the transitions of the tasks that are not visited yet -/
def remOuts (g : Graph) (visited : List String) : List TaskG → Nat
  | [] => 0
  | t :: ts => (if visited.contains t.name then 0 else (outNames g t).length) + remOuts g visited ts

theorem remOuts_mono (g : Graph) (n : String) (visited : List String) :
    ∀ ts, remOuts g (n :: visited) ts ≤ remOuts g visited ts := by
  intro ts
  induction ts with
  | nil => simp [remOuts]
  | cons t ts ih =>
    simp only [remOuts]
    by_cases h : visited.contains t.name = true
    · have h2 : (n :: visited).contains t.name = true := by
        simp only [List.contains_eq_mem, List.mem_cons, decide_eq_true_eq] at h ⊢
        exact Or.inr h
      simp only [h, h2, if_true]; omega
    · simp only [h, Bool.false_eq_true, if_false]
      split <;> omega

theorem remOuts_find (g : Graph) (n : String) (visited : List String)
    (hv : visited.contains n = false) :
    ∀ ts t, ts.find? (·.name == n) = some t →
      remOuts g (n :: visited) ts + (outNames g t).length ≤ remOuts g visited ts := by
  intro ts
  induction ts with
  | nil => intro t h; simp at h
  | cons x xs ih =>
    intro t h
    simp only [List.find?_cons] at h
    simp only [remOuts]
    by_cases hx : (x.name == n) = true
    · simp only [hx] at h
      have hxt : x = t := by simpa using h
      have hxn : x.name = n := by simpa using hx
      have h1 : (n :: visited).contains x.name = true := by
        simp [hxn]
      have h2 : visited.contains x.name = false := by rw [hxn]; exact hv
      have := remOuts_mono g n visited xs
      simp only [h1, h2, if_true, Bool.false_eq_true, if_false]
      subst hxt
      omega
    · simp only [hx] at h
      have := ih t h
      have hh : (if (n :: visited).contains x.name = true then 0 else (outNames g x).length) ≤
          (if visited.contains x.name = true then 0 else (outNames g x).length) := by
        by_cases h3 : visited.contains x.name = true
        · have h4 : (n :: visited).contains x.name = true := by
            simp only [List.contains_eq_mem, List.mem_cons, decide_eq_true_eq] at h3 ⊢
            exact Or.inr h3
          simp only [h3, h4, if_true]; omega
        · simp only [h3, Bool.false_eq_true, if_false]
          split <;> omega
      omega

theorem remOuts_nil (g : Graph) :
    ∀ ts, remOuts g [] ts = (ts.map fun t => (outNames g t).length).sum := by
  intro ts
  induction ts with
  | nil => rfl
  | cons t ts ih => simp [remOuts, ih]

theorem closed_path (sp : Spec) (w : World) (start : String) (visited : List String)
    (hc : ∀ v ∈ visited, (passes sp w v = true ∨ v = start) → ∀ y ∈ outsOf sp v, y ∈ visited) :
    ∀ {x j : String}, Path sp w x j → x ∈ visited → (passes sp w x = true ∨ x = start) →
      j ∈ visited := by
  intro x j hp
  induction hp with
  | edge h => intro hx hps; exact hc _ hx hps _ h
  | cons h hpass _ ih => intro hx hps; exact ih (hc _ hx hps _ h) (Or.inl hpass)

theorem passes_unknown (sp : Spec) (w : World) (n : String)
    (h : (sp.graph.tasks.find? (·.name == n)).isNone = true) : passes sp w n = false := by
  unfold passes known
  cases hf : sp.graph.tasks.find? (·.name == n) with
  | none => simp
  | some t => rw [hf] at h; simp at h

theorem joinWithRow_unknown (sp : Spec) (w : World) (n : String)
    (h : (sp.graph.tasks.find? (·.name == n)).isNone = true) : joinWithRow sp w n = false := by
  unfold joinWithRow isJoin
  cases hf : sp.graph.tasks.find? (·.name == n) with
  | none => simp
  | some t => rw [hf] at h; simp at h

theorem go_complete (sp : Spec) (w : World) (start j : String)
    (hj : joinWithRow sp w j = true) (hne : j ≠ start) (hp : Path sp w start j) :
    ∀ (fuel : Nat) (frontier visited res : List String),
      frontier.length + remOuts sp.graph visited sp.graph.tasks ≤ fuel →
      start ∈ visited →
      (∀ v ∈ visited, (passes sp w v = true ∨ v = start) →
        ∀ y ∈ outsOf sp v, y ∈ visited ∨ y ∈ frontier) →
      (∀ v ∈ visited, v ≠ start → joinWithRow sp w v = true → v ∈ res) →
      j ∈ affected.go sp w (outsOf sp) fuel frontier visited res := by
  have fin : ∀ (visited res : List String), start ∈ visited →
      (∀ v ∈ visited, (passes sp w v = true ∨ v = start) →
        ∀ y ∈ outsOf sp v, y ∈ visited ∨ y ∈ ([] : List String)) →
      (∀ v ∈ visited, v ≠ start → joinWithRow sp w v = true → v ∈ res) → j ∈ res := by
    intro visited res hs ha hb
    have hc : ∀ v ∈ visited, (passes sp w v = true ∨ v = start) →
        ∀ y ∈ outsOf sp v, y ∈ visited := by
      intro v hv hps y hy
      rcases ha v hv hps y hy with h | h
      · exact h
      · simp at h
    exact hb j (closed_path sp w start visited hc hp hs (Or.inr rfl)) hne hj
  intro fuel
  induction fuel with
  | zero =>
    intro f v r hmu hs ha hb
    have hf : f = [] := by
      cases f with
      | nil => rfl
      | cons a b => simp at hmu
    subst hf
    simp only [affected.go]
    exact fin v r hs ha hb
  | succ k ih =>
    intro f v r hmu hs ha hb
    unfold affected.go
    cases f with
    | nil => exact fin v r hs ha hb
    | cons n rest =>
      simp only
      simp only [List.length_cons] at hmu
      by_cases hv : v.contains n = true
      · simp only [hv, if_true]
        have hnv : n ∈ v := by simpa using hv
        apply ih rest v r (by omega) hs
        · intro x hx hps y hy
          rcases ha x hx hps y hy with h | h
          · exact Or.inl h
          · rcases List.mem_cons.mp h with e | e
            · subst e; exact Or.inl hnv
            · exact Or.inr e
        · exact hb
      · simp only [hv, Bool.false_eq_true, if_false]
        have hvf : v.contains n = false := by simpa using hv
        have hnv : n ∉ v := by simpa using hv
        have hns : n ≠ start := by
          intro e; subst e; exact hnv hs
        have hmono := remOuts_mono sp.graph n v sp.graph.tasks
        -- the part of invariant (a) for the already visited nodes, frontier `rest ++ extra`
        have ha' : ∀ (extra : List String), ∀ x ∈ v, (passes sp w x = true ∨ x = start) →
            ∀ y ∈ outsOf sp x, y ∈ n :: v ∨ y ∈ rest ++ extra := by
          intro extra x hx hps y hy
          rcases ha x hx hps y hy with h | h
          · exact Or.inl (List.mem_cons_of_mem _ h)
          · rcases List.mem_cons.mp h with e | e
            · subst e; exact Or.inl List.mem_cons_self
            · exact Or.inr (List.mem_append_left _ e)
        by_cases hn : (sp.graph.tasks.find? (·.name == n)).isNone = true
        · simp only [hn, if_true]
          apply ih rest (n :: v) r (by omega) (List.mem_cons_of_mem _ hs)
          · intro x hx hps y hy
            rcases List.mem_cons.mp hx with e | e
            · subst e
              rcases hps with h | h
              · rw [passes_unknown sp w x hn] at h; cases h
              · exact absurd h hns
            · have := ha' [] x e hps y hy
              simpa using this
          · intro x hx hxs hxj
            rcases List.mem_cons.mp hx with e | e
            · subst e
              rw [joinWithRow_unknown sp w x hn] at hxj; cases hxj
            · exact hb x e hxs hxj
        · simp only [hn, Bool.false_eq_true, if_false]
          by_cases hjn : ((isJoin sp n).isSome && (findByName w n).isSome) = true
          · simp only [hjn, if_true]
            apply ih rest (n :: v) _ (by omega) (List.mem_cons_of_mem _ hs)
            · intro x hx hps y hy
              rcases List.mem_cons.mp hx with e | e
              · subst e
                rcases hps with h | h
                · have hjw : joinWithRow sp w x = true := hjn
                  unfold passes at h
                  rw [hjw] at h; simp at h
                · exact absurd h hns
              · have := ha' [] x e hps y hy
                simpa using this
            · intro x hx hxs hxj
              rcases List.mem_cons.mp hx with e | e
              · subst e
                split
                · rename_i hc; simpa using hc
                · simp
              · have := hb x e hxs hxj
                split
                · exact this
                · exact List.mem_append_left _ this
          · simp only [hjn, Bool.false_eq_true, if_false]
            have hknown : ∃ t, sp.graph.tasks.find? (·.name == n) = some t := by
              cases hf : sp.graph.tasks.find? (·.name == n) with
              | none => rw [hf] at hn; simp at hn
              | some t => exact ⟨t, rfl⟩
            obtain ⟨t, ht⟩ := hknown
            have houts : outsOf sp n = outNames sp.graph t := by
              unfold outsOf; rw [ht]
            have hfind := remOuts_find sp.graph n v hvf sp.graph.tasks t ht
            apply ih (rest ++ outsOf sp n) (n :: v) r
              (by rw [List.length_append, houts]; omega) (List.mem_cons_of_mem _ hs)
            · intro x hx hps y hy
              rcases List.mem_cons.mp hx with e | e
              · subst e
                exact Or.inr (List.mem_append_right _ hy)
              · exact ha' (outsOf sp n) x e hps y hy
            · intro x hx hxs hxj
              rcases List.mem_cons.mp hx with e | e
              · subst e
                exact absurd hxj hjn
              · exact hb x e hxs hxj

theorem affected_complete (sp : Spec) (w : World) (u j : String)
    (hb : walkBudgetOK sp) (hj : joinWithRow sp w j = true) (hne : j ≠ u)
    (hp : Path sp w u j) : j ∈ affected sp w u := by
  rw [affected_eq_go]
  apply go_complete sp w u j hj hne hp
  · -- the budget covers the initial measure
    have hnil := remOuts_nil sp.graph sp.graph.tasks
    unfold walkBudgetOK at hb
    cases hf : sp.graph.tasks.find? (·.name == u) with
    | none =>
      have : outsOf sp u = [] := by unfold outsOf; rw [hf]
      rw [this]
      have := remOuts_mono sp.graph u [] sp.graph.tasks
      simp only [List.length_nil]
      omega
    | some t =>
      have : outsOf sp u = outNames sp.graph t := by unfold outsOf; rw [hf]
      rw [this]
      have := remOuts_find sp.graph u [] (by simp) sp.graph.tasks t hf
      omega
  · exact List.mem_cons_self
  · intro v hv _ y hy
    have : v = u := by simpa using hv
    subst this
    exact Or.inr hy
  · intro v hv hvs _
    have : v = u := by simpa using hv
    exact absurd this hvs

end Mistral.Engine.Live
