/-
Liveness of the engine core (C01: "never left RUNNING, or its tasks left waiting, with nothing
pending"): the invariant, in executable form (tested on every reachable world of small specs by
`Mistral.Drv.EngineLive` before it was proved) and as propositions with their step lemmas.
-/
import Mistral.Lemmas.LiveDefs
namespace Mistral.Engine.Live
open Mistral Mistral.Join Mistral.Engine

/-- the situation the property excludes: RUNNING with nothing in flight -/
def stuck (w : World) : Bool := w.wf == .RUNNING && w.pending.isEmpty

def idOf (r : TaskRow) : Tid := (r.name, r.occ)

/-- a pending (re)start of the task execution -/
def isStartFor (t : Tid) : Item → Bool
  | .postStartTask t' _ => t' == t
  | .rpcStartTask t' _ => t' == t
  | _ => false

/-- a pending delivery of the task's action (the predicate of `hasLiveAction`) -/
def isActFor (t : Tid) : Item → Bool
  | .postRunAction t' => t' == t
  | .runAction t' => t' == t
  | .rpcResult t' _ => t' == t
  | _ => false

/-- a pending delivery that ends in a `_refresh_task_state` of the join execution -/
def isWakeFor (t : Tid) : Item → Bool
  | .postStartTask t' true => t' == t
  | .rpcStartTask t' true => t' == t
  | .postSchedRefresh t' => t' == t
  | .jobRefresh t' => t' == t
  | _ => false

/-! ### executable forms (exploration only) -/

def startTasks (sp : Spec) : List String :=
  (sp.graph.tasks.filter fun t => (inbound sp.graph t.name).isEmpty).map (·.name)

/-- the hypothesis of `step_inv2`: while PAUSED no incomplete execution carries a stale `processed`
    flag (before "fix: re-opening a join resets its processed flag" `Task.defer` left one on a
    re-opened join; now a consequence of `freshB` / `Fresh`) -/
def pausedCleanB (w : World) : Bool :=
  w.wf != .PAUSED || w.tasks.all fun r => isCompleted r.state || !r.processed

def rowsLiveB (w : World) : Bool :=
  w.tasks.all fun r =>
    (r.state != .IDLE || w.pending.any (isStartFor (idOf r))) &&
    (r.state != .RUNNING || hasLiveAction w (idOf r))

def checkOKB (w : World) : Bool :=
  w.wf != .RUNNING || w.tasks.any (fun r => !isCompleted r.state) || w.pending.contains .postCheck

def statesOKB (sp : Spec) (w : World) : Bool :=
  w.tasks.all fun r =>
    (isCompleted r.state || r.state == .IDLE || r.state == .WAITING || r.state == .RUNNING) &&
    (r.state != .WAITING || (isJoin sp r.name).isSome)

def procOKB (w : World) : Bool :=
  w.wf != .RUNNING || w.tasks.all fun r => !isCompleted r.state || r.processed

def routesOKB (w : World) : Bool :=
  w.tasks.all fun r => !(isCompleted r.state && r.processed) || r.nextTasks.all fun x => (findByName w x.1).isSome

def startsOKB (sp : Spec) (w : World) : Bool :=
  w.tasks.isEmpty || (startTasks sp).all fun n => (findByName w n).isSome

def nextOKB (sp : Spec) (w : World) : Bool :=
  w.tasks.all fun r => !(isCompleted r.state && !r.processed) || r.nextTasks == nextOf sp r.name r.state

def idsOKB (w : World) : Bool :=
  w.tasks.all (fun r => r.occ < countL w.tasks r.name) &&
  w.tasks.all (fun r => (w.tasks.filter fun x => x.name == r.name && x.occ == r.occ).length == 1)

def blockedB (sp : Spec) (w : World) (j : String) : Bool :=
  w.tasks.any fun u =>
    (!isCompleted u.state && (affected sp w u.name).contains j) ||
    (isCompleted u.state && !u.processed && u.nextTasks.any fun x =>
      (findByName w x.1).isNone && (affected sp w x.1).contains j)

def joinsWakeB (sp : Spec) (w : World) : Bool :=
  isCompleted w.wf || w.tasks.all fun j =>
    j.state != .WAITING || w.pending.any (isWakeFor (idOf j)) || blockedB sp w j.name

/-- the verdict lemma: a WAITING verdict on the current rows has a blocker -/
def verdictBlockedB (sp : Spec) (w : World) : Bool :=
  w.tasks.all fun j =>
    match isJoin sp j.name with
    | none => true
    | some k =>
      match joinLogicalState sp.graph (rowsOf w) (fuelFor sp) j.name k with
      | none => true
      | some L => L.state == .RUNNING || L.state == .ERROR || blockedB sp w j.name ||
          -- the lemma needs these
          !(routesOKB w && startsOKB sp w)

/-- no incomplete execution carries the `processed` flag (`Lemmas/LiveFresh.lean`) -/
def freshB (w : World) : Bool := w.tasks.all fun r => isCompleted r.state || !r.processed

def checks : List (String × (Spec → World → Bool)) :=
  [("no_stuck", fun _ w => !stuck w),
   ("fresh", fun _ w => freshB w),
   ("idsOK", fun _ w => idsOKB w),
   ("rowsLive", fun _ w => rowsLiveB w),
   ("checkOK", fun _ w => checkOKB w),
   ("statesOK", statesOKB),
   ("procOK", fun _ w => procOKB w),
   ("routesOK", fun _ w => routesOKB w),
   ("startsOK", startsOKB),
   ("nextOK", nextOKB),
   ("joinsWake", joinsWakeB),
   ("verdictBlocked", verdictBlockedB)]


/-! ## propositions and step lemmas -/

/-! ### pending deliveries -/

theorem mem_removeFirst_of_ne (l : List Item) (it x : Item) (h : x ∈ l) (hne : x ≠ it) : x ∈ removeFirst l it := by
  induction l with
  | nil => cases h
  | cons y ys ih =>
    unfold removeFirst
    split
    · rename_i hy
      have hy' : y = it := by simpa using hy
      rcases List.mem_cons.mp h with h1 | h1
      · exact absurd (h1.trans hy') hne
      · exact h1
    · rcases List.mem_cons.mp h with h1 | h1
      · rw [h1]; exact List.mem_cons_self
      · exact List.mem_cons_of_mem _ (ih h1)

theorem any_of_mem (c : Item → Bool) (l : List Item) (x : Item) (h : x ∈ l) (hc : c x = true) : l.any c = true :=
  List.any_eq_true.mpr ⟨x, h, hc⟩

theorem any_mono (c : Item → Bool) (l l' : List Item) (h : l.any c = true) (hsub : ∀ x ∈ l, c x = true → x ∈ l') :
    l'.any c = true := by
  obtain ⟨x, hx, hcx⟩ := List.any_eq_true.mp h
  exact any_of_mem c l' x (hsub x hx hcx) hcx

theorem any_removeFirst (c : Item → Bool) (l : List Item) (it : Item) (h : l.any c = true) (hc : c it = false) :
    (removeFirst l it).any c = true := by
  apply any_mono c l _ h
  intro x hx hcx
  apply mem_removeFirst_of_ne l it x hx
  intro e; rw [e, hc] at hcx; cases hcx

theorem hasLiveAction_eq (w : World) (t : Tid) : hasLiveAction w t = w.pending.any (isActFor t) := by
  unfold hasLiveAction
  congr 1

/-! ### identities of the task executions -/

/-- occurrence numbers are below the number of executions of the task, and executions with the
    same identity are the same row -/
def IdsOK (ts : List TaskRow) : Prop :=
  (∀ r ∈ ts, r.occ < countL ts r.name) ∧ (∀ r ∈ ts, ∀ r' ∈ ts, r.name = r'.name → r.occ = r'.occ → r = r')

theorem idsOK_setTask (ts : List TaskRow) (r r1 : TaskRow) (h : IdsOK ts) (hr : r ∈ ts)
    (hn : r1.name = r.name) (ho : r1.occ = r.occ) : IdsOK (setTask ts r1) := by
  refine ⟨?_, ?_⟩
  · intro x hx
    rw [countL_setTask]
    rcases mem_setTask ts r1 x hx with h1 | h1
    · exact h.1 x h1
    · subst h1; rw [hn, ho]; exact h.1 r hr
  · intro x hx y hy hxy hoxy
    unfold setTask at hx hy
    rcases List.mem_map.mp hx with ⟨x0, hx0, rfl⟩
    rcases List.mem_map.mp hy with ⟨y0, hy0, rfl⟩
    by_cases c1 : (x0.name == r1.name && x0.occ == r1.occ) = true
    · by_cases c2 : (y0.name == r1.name && y0.occ == r1.occ) = true
      · simp only [c1, c2, if_true]
      · exfalso
        simp only [c1, c2, if_true] at hxy hoxy
        apply c2
        simp only [Bool.false_eq_true, if_false] at hxy hoxy
        simp [← hxy, ← hoxy]
    · by_cases c2 : (y0.name == r1.name && y0.occ == r1.occ) = true
      · exfalso
        simp only [c1, c2, if_true, Bool.false_eq_true, if_false] at hxy hoxy
        apply c1
        simp [hxy, hoxy]
      · simp only [c1, c2, Bool.false_eq_true, if_false] at hxy hoxy ⊢
        exact h.2 x0 hx0 y0 hy0 hxy hoxy

theorem idsOK_append (ts : List TaskRow) (n : TaskRow) (h : IdsOK ts) (ho : n.occ = countL ts n.name) :
    IdsOK (ts ++ [n]) := by
  refine ⟨?_, ?_⟩
  · intro x hx
    rw [countL_append]
    rcases List.mem_append.mp hx with h1 | h1
    · have := h.1 x h1; omega
    · have : x = n := by simpa using h1
      subst this
      simp [ho]
  · intro x hx y hy hxy hoxy
    rcases List.mem_append.mp hx with h1 | h1 <;> rcases List.mem_append.mp hy with h2 | h2
    · exact h.2 x h1 y h2 hxy hoxy
    · have : y = n := by simpa using h2
      subst this
      have := h.1 x h1
      rw [hxy] at this; omega
    · have : x = n := by simpa using h1
      subst this
      have := h.1 y h2
      rw [← hxy] at this; omega
    · have e1 : x = n := by simpa using h1
      have e2 : y = n := by simpa using h2
      rw [e1, e2]

theorem findTask_unique (w : World) (t : Tid) (r r2 : TaskRow) (h : IdsOK w.tasks) (hf : findTask w t = some r)
    (h2 : r2 ∈ w.tasks) (hid : (r2.name, r2.occ) = t) : r2 = r := by
  have hm := findTask_mem w t r hf
  have hi := findTask_id w t r hf
  have : (r2.name, r2.occ) = (r.name, r.occ) := hid.trans hi.symm
  injection this with a b
  exact h.2 r2 h2 r hm a b

theorem findTask_of_mem (w : World) (r : TaskRow) (hr : r ∈ w.tasks) : ∃ r', findTask w (r.name, r.occ) = some r' := by
  unfold findTask
  cases hf : w.tasks.find? (fun x => x.name == (r.name, r.occ).1 && x.occ == (r.name, r.occ).2) with
  | some r' => exact ⟨r', rfl⟩
  | none =>
    have := List.find?_eq_none.mp hf r hr
    simp at this


/-! ### (A) every IDLE execution has a start in flight, every RUNNING execution an action in flight -/

def RL (ts : List TaskRow) (p : List Item) : Prop :=
  ∀ r ∈ ts, (r.state = .IDLE → p.any (isStartFor (idOf r)) = true) ∧
            (r.state = .RUNNING → p.any (isActFor (idOf r)) = true)

theorem any_sub (c : Item → Bool) (l l' : List Item) (h : l.any c = true) (hsub : ∀ x ∈ l, x ∈ l') : l'.any c = true :=
  any_mono c l l' h (fun x hx _ => hsub x hx)

theorem RL_sub (ts : List TaskRow) (p p' : List Item) (h : RL ts p) (hsub : ∀ x ∈ p, x ∈ p') : RL ts p' :=
  fun r hr => ⟨fun hs => any_sub _ p p' ((h r hr).1 hs) hsub, fun hs => any_sub _ p p' ((h r hr).2 hs) hsub⟩

theorem RL_setTask (ts : List TaskRow) (p : List Item) (r : TaskRow) (h : RL ts p)
    (hr : (r.state = .IDLE → p.any (isStartFor (idOf r)) = true) ∧ (r.state = .RUNNING → p.any (isActFor (idOf r)) = true)) :
    RL (setTask ts r) p := by
  intro x hx
  rcases mem_setTask ts r x hx with h1 | h1
  · exact h x h1
  · subst h1; exact hr

theorem RL_append (ts : List TaskRow) (p : List Item) (r : TaskRow) (h : RL ts p)
    (hr : (r.state = .IDLE → p.any (isStartFor (idOf r)) = true) ∧ (r.state = .RUNNING → p.any (isActFor (idOf r)) = true)) :
    RL (ts ++ [r]) p := by
  intro x hx
  rcases List.mem_append.mp hx with h1 | h1
  · exact h x h1
  · have : x = r := by simpa using h1
    subst this; exact hr

theorem findByName_mem (w : World) (n : String) (r : TaskRow) (h : findByName w n = some r) : r ∈ w.tasks ∧ r.name = n := by
  unfold findByName at h
  have := List.mem_of_getLast? h
  have := List.mem_filter.mp this
  exact ⟨this.1, by simpa using this.2⟩

def HasIncomplete (ts : List TaskRow) : Prop := ∃ r ∈ ts, isCompleted r.state = false

theorem hasIncomplete_setTask (ts : List TaskRow) (r : TaskRow) (hr : isCompleted r.state = false)
    (h : HasIncomplete ts) : HasIncomplete (setTask ts r) := by
  obtain ⟨x, hx, hxs⟩ := h
  unfold setTask
  by_cases c : (x.name == r.name && x.occ == r.occ) = true
  · exact ⟨r, List.mem_map.mpr ⟨x, hx, by simp [c]⟩, hr⟩
  · exact ⟨x, List.mem_map.mpr ⟨x, hx, by simp [c]⟩, hxs⟩

theorem hasIncomplete_append (ts : List TaskRow) (r : TaskRow) (h : HasIncomplete ts) : HasIncomplete (ts ++ [r]) := by
  obtain ⟨x, hx, hxs⟩ := h
  exact ⟨x, List.mem_append_left _ hx, hxs⟩

theorem waiting_incomplete : isCompleted St.WAITING = false := by decide
theorem idle_incomplete : isCompleted St.IDLE = false := by decide
theorem running_incomplete : isCompleted St.RUNNING = false := by decide

/-! ### the dispatcher -/

theorem dispatchOne_pending_sub (sp : Spec) (w : World) (c : Cmd) :
    ∀ x ∈ w.pending, x ∈ (dispatchOne sp w c).pending := by
  intro x hx
  unfold dispatchOne
  simp only
  split
  · exact hx
  · split
    · exact hx
    · split
      · split
        · exact List.mem_append_left _ hx
        · simp only
          split <;> exact List.mem_append_left _ hx
      · exact List.mem_append_left _ hx

theorem dispatchOne_ids (sp : Spec) (w : World) (c : Cmd) (h : IdsOK w.tasks) : IdsOK (dispatchOne sp w c).tasks := by
  unfold dispatchOne
  simp only
  split
  · exact h
  · split
    · exact h
    · split
      · split
        · exact idsOK_append _ _ h rfl
        · rename_i r hr
          simp only
          split
          · exact idsOK_setTask _ r _ h (findByName_mem w _ r hr).1 rfl rfl
          · exact h
      · exact idsOK_append _ _ h rfl

theorem dispatchOne_RL (sp : Spec) (w : World) (c : Cmd) (h : RL w.tasks w.pending) :
    RL (dispatchOne sp w c).tasks (dispatchOne sp w c).pending := by
  unfold dispatchOne
  simp only
  split
  · exact h
  · split
    · exact h
    · split
      · split
        · refine RL_append _ _ _ (RL_sub _ _ _ h (fun x hx => List.mem_append_left _ hx)) ⟨?_, ?_⟩ <;>
            (intro hs; simp [newRow] at hs)
        · simp only
          split
          · refine RL_setTask _ _ _ (RL_sub _ _ _ h (fun x hx => List.mem_append_left _ hx)) ⟨?_, ?_⟩ <;>
              (intro hs; simp at hs)
          · exact RL_sub _ _ _ h (fun x hx => List.mem_append_left _ hx)
      · refine RL_append _ _ _ (RL_sub _ _ _ h (fun x hx => List.mem_append_left _ hx)) ⟨?_, ?_⟩
        · intro _
          apply any_of_mem _ _ (Item.postStartTask (c.target, countName w c.target) true)
          · simp
          · simp [isStartFor, idOf, newRow]
        · intro hs; simp [newRow] at hs

theorem dispatchOne_incomplete (sp : Spec) (w : World) (c : Cmd) (h : HasIncomplete w.tasks) :
    HasIncomplete (dispatchOne sp w c).tasks := by
  unfold dispatchOne
  simp only
  split
  · exact h
  · split
    · exact h
    · split
      · split
        · exact hasIncomplete_append _ _ h
        · simp only
          split
          · exact hasIncomplete_setTask _ _ waiting_incomplete h
          · exact h
      · exact hasIncomplete_append _ _ h

theorem dispatchOne_creates (sp : Spec) (w : World) (c : Cmd) (h : w.wf = .RUNNING) :
    HasIncomplete (dispatchOne sp w c).tasks := by
  unfold dispatchOne
  have h1 : isCompleted w.wf = false := by rw [h]; decide
  have h2 : (w.wf == St.PAUSED) = false := by rw [h]; decide
  simp only [h1, h2, Bool.false_eq_true, if_false]
  split
  · split
    · exact ⟨newRow w c .WAITING, by simp, waiting_incomplete⟩
    · rename_i r hr
      simp only
      have hm := (findByName_mem w _ r hr).1
      split
      · refine ⟨{ r with state := .WAITING, processed := false }, ?_, waiting_incomplete⟩
        unfold setTask
        exact List.mem_map.mpr ⟨r, hm, by simp⟩
      · rename_i hs
        have : r.state = .WAITING := by simpa using hs
        exact ⟨r, hm, by rw [this]; exact waiting_incomplete⟩
  · exact ⟨newRow w c .IDLE, by simp, idle_incomplete⟩

theorem dispatch_pending_sub (sp : Spec) (cs : List Cmd) : ∀ (w : World), ∀ x ∈ w.pending, x ∈ (dispatch sp w cs).pending := by
  unfold dispatch
  induction cs with
  | nil => intro w x hx; exact hx
  | cons c rest ih => intro w x hx; simp only [List.foldl_cons]; exact ih _ x (dispatchOne_pending_sub sp w c x hx)

theorem dispatch_ids (sp : Spec) (cs : List Cmd) : ∀ (w : World), IdsOK w.tasks → IdsOK (dispatch sp w cs).tasks := by
  unfold dispatch
  induction cs with
  | nil => intro w h; exact h
  | cons c rest ih => intro w h; simp only [List.foldl_cons]; exact ih _ (dispatchOne_ids sp w c h)

theorem dispatch_RL (sp : Spec) (cs : List Cmd) :
    ∀ (w : World), RL w.tasks w.pending → RL (dispatch sp w cs).tasks (dispatch sp w cs).pending := by
  unfold dispatch
  induction cs with
  | nil => intro w h; exact h
  | cons c rest ih => intro w h; simp only [List.foldl_cons]; exact ih _ (dispatchOne_RL sp w c h)

theorem dispatch_incomplete (sp : Spec) (cs : List Cmd) :
    ∀ (w : World), HasIncomplete w.tasks → HasIncomplete (dispatch sp w cs).tasks := by
  unfold dispatch
  induction cs with
  | nil => intro w h; exact h
  | cons c rest ih => intro w h; simp only [List.foldl_cons]; exact ih _ (dispatchOne_incomplete sp w c h)

theorem dispatch_creates (sp : Spec) (cs : List Cmd) (w : World) (h : w.wf = .RUNNING) (hne : cs ≠ []) :
    HasIncomplete (dispatch sp w cs).tasks := by
  cases cs with
  | nil => exact absurd rfl hne
  | cons c rest =>
    show HasIncomplete (dispatch sp (dispatchOne sp w c) rest).tasks
    exact dispatch_incomplete sp rest _ (dispatchOne_creates sp w c h)


/-! ### `_check_affected_tasks`, the completion check, `Task.complete` -/

theorem checkAffected_pending_sub (sp : Spec) (w : World) (t : Tid) :
    ∀ x ∈ w.pending, x ∈ (checkAffected sp w t).pending := by
  intro x hx
  unfold checkAffected
  split
  · exact hx
  · split
    · exact hx
    · split
      · exact hx
      · exact List.mem_append_left _ hx

theorem checkAffected_RL (sp : Spec) (w : World) (t : Tid) (h : RL w.tasks w.pending) :
    RL (checkAffected sp w t).tasks (checkAffected sp w t).pending := by
  rw [(checkAffected_tasks sp w t).1]
  exact RL_sub _ _ _ h (checkAffected_pending_sub sp w t)

theorem checkAndComplete_running (w : World) (h : (checkAndComplete w).wf = .RUNNING) : HasIncomplete w.tasks := by
  unfold checkAndComplete at h
  split at h
  · rename_i hp
    rw [h] at hp; exact absurd hp (by decide)
  · split at h
    · rename_i hany
      obtain ⟨x, hx, hxs⟩ := List.any_eq_true.mp hany
      exact ⟨x, hx, by simpa using hxs⟩
    · split at h
      · cases h
      · split at h <;> cases h

/-- rows of `setTask`: an old row with another identity, or the new row -/
theorem mem_setTask' (ts : List TaskRow) (r x : TaskRow) (h : x ∈ setTask ts r) :
    (x ∈ ts ∧ ¬ (x.name = r.name ∧ x.occ = r.occ)) ∨ x = r := by
  unfold setTask at h
  rcases List.mem_map.mp h with ⟨y, hy, rfl⟩
  by_cases c : (y.name == r.name && y.occ == r.occ) = true
  · simp [c]
  · left
    simp only [c, Bool.false_eq_true, if_false]
    refine ⟨hy, ?_⟩
    intro hh; apply c; simp [hh.1, hh.2]

/-- (A) for every execution except those with identity `t` -/
def RLx (t : Tid) (ts : List TaskRow) (p : List Item) : Prop :=
  ∀ r ∈ ts, idOf r ≠ t → (r.state = .IDLE → p.any (isStartFor (idOf r)) = true) ∧
            (r.state = .RUNNING → p.any (isActFor (idOf r)) = true)

theorem RLx_of_RL (t : Tid) (ts : List TaskRow) (p : List Item) (h : RL ts p) : RLx t ts p := fun r hr _ => h r hr

theorem RL_of_RLx (t : Tid) (ts : List TaskRow) (p : List Item) (h : RLx t ts p)
    (ht : ∀ r ∈ ts, idOf r = t → r.state ≠ .IDLE ∧ r.state ≠ .RUNNING) : RL ts p := by
  intro r hr
  by_cases c : idOf r = t
  · exact ⟨fun hs => absurd hs (ht r hr c).1, fun hs => absurd hs (ht r hr c).2⟩
  · exact h r hr c

theorem RLx_sub (t : Tid) (ts : List TaskRow) (p p' : List Item) (h : RLx t ts p) (hsub : ∀ x ∈ p, x ∈ p') : RLx t ts p' :=
  fun r hr hne => ⟨fun hs => any_sub _ p p' ((h r hr hne).1 hs) hsub, fun hs => any_sub _ p p' ((h r hr hne).2 hs) hsub⟩

/-- replacing the executions with identity `t` by a row that needs nothing re-establishes (A) -/
theorem RL_setTask_x' (ts : List TaskRow) (p : List Item) (r : TaskRow) (h : RLx (idOf r) ts p)
    (hr : (r.state = .IDLE → p.any (isStartFor (idOf r)) = true) ∧ (r.state = .RUNNING → p.any (isActFor (idOf r)) = true)) :
    RL (setTask ts r) p := by
  intro x hx
  rcases mem_setTask' ts r x hx with ⟨h1, h2⟩ | h1
  · apply h x h1
    intro e
    apply h2
    unfold idOf at e
    injection e with a b
    exact ⟨a, b⟩
  · subst h1
    exact hr

theorem RL_setTask_x (ts : List TaskRow) (p : List Item) (r : TaskRow) (h : RLx (idOf r) ts p)
    (hr : r.state ≠ .IDLE ∧ r.state ≠ .RUNNING) : RL (setTask ts r) p := by
  intro x hx
  rcases mem_setTask' ts r x hx with ⟨h1, h2⟩ | h1
  · apply h x h1
    intro e
    apply h2
    unfold idOf at e
    injection e with a b
    exact ⟨a, b⟩
  · subst h1
    exact ⟨fun hs => absurd hs hr.1, fun hs => absurd hs hr.2⟩

/-- the pieces of `Task.complete` -/
def ctNt (sp : Spec) (w : World) (r : TaskRow) (s : St) : List (String × String) :=
  if isCompleted w.wf then [] else nextOf sp r.name s

def ctRow (sp : Spec) (w : World) (r : TaskRow) (s : St) : TaskRow :=
  { r with state := s, nextTasks := ctNt sp w r s, hasNext := !(ctNt sp w r s).isEmpty,
           errorHandled := if s == .ERROR then (ctNt sp w r s).any (·.2 == "on-error") else r.errorHandled }

def ctCmds (sp : Spec) (w : World) (r : TaskRow) (s : St) : List Cmd :=
  (ctNt sp w r s).map fun (n, e) => { target := n, src := some ((r.name, r.occ), e) }

/-- the world the dispatcher is called on -/
def ctPre (sp : Spec) (w : World) (r : TaskRow) (s : St) : World :=
  { w with tasks := setTask (setTask w.tasks (ctRow sp w r s)) { ctRow sp w r s with processed := true },
           pending := if (ctNt sp w r s).isEmpty then w.pending ++ [.postCheck] else w.pending }

theorem completeTask_unfold (sp : Spec) (w : World) (r : TaskRow) (s : St) (hc : isCompleted r.state = false) :
    completeTask sp w r s =
      checkAffected sp
        (if isPaused w.wf then { w with tasks := setTask w.tasks (ctRow sp w r s) }
         else dispatch sp (ctPre sp w r s) (ctCmds sp w r s)) (r.name, r.occ) := by
  unfold completeTask
  simp only [hc, Bool.false_eq_true, if_false]
  congr 1
  split
  · rfl
  · unfold ctPre ctCmds ctRow ctNt
    by_cases he : (if isCompleted w.wf = true then [] else nextOf sp r.name s).isEmpty = true
    · simp only [he, if_true]
    · simp only [he, Bool.false_eq_true, if_false]

theorem self_mem_setTask (ts : List TaskRow) (r r1 : TaskRow) (hr : r ∈ ts) (hn : r1.name = r.name) (ho : r1.occ = r.occ) :
    r1 ∈ setTask ts r1 := by
  unfold setTask
  exact List.mem_map.mpr ⟨r, hr, by simp [hn, ho]⟩

theorem ctPre_pending_sub (sp : Spec) (w : World) (r : TaskRow) (s : St) : ∀ x ∈ w.pending, x ∈ (ctPre sp w r s).pending := by
  intro x hx
  unfold ctPre
  simp only
  split
  · exact List.mem_append_left _ hx
  · exact hx

theorem completeTask_pending_sub (sp : Spec) (w : World) (r : TaskRow) (s : St) :
    ∀ x ∈ w.pending, x ∈ (completeTask sp w r s).pending := by
  intro x hx
  by_cases hc : isCompleted r.state = true
  · unfold completeTask
    simp only [hc, if_true]
    exact checkAffected_pending_sub sp w _ x hx
  · rw [completeTask_unfold sp w r s (by simpa using hc)]
    apply checkAffected_pending_sub
    split
    · exact hx
    · exact dispatch_pending_sub sp _ _ x (ctPre_pending_sub sp w r s x hx)

theorem completeTask_ids (sp : Spec) (w : World) (r : TaskRow) (s : St) (h : IdsOK w.tasks) (hr : r ∈ w.tasks) :
    IdsOK (completeTask sp w r s).tasks := by
  by_cases hc : isCompleted r.state = true
  · unfold completeTask
    simp only [hc, if_true]
    rw [(checkAffected_tasks sp w _).1]; exact h
  · rw [completeTask_unfold sp w r s (by simpa using hc)]
    rw [(checkAffected_tasks sp _ _).1]
    have h1 : IdsOK (setTask w.tasks (ctRow sp w r s)) := idsOK_setTask w.tasks r _ h hr rfl rfl
    split
    · exact h1
    · apply dispatch_ids
      exact idsOK_setTask _ (ctRow sp w r s) _ h1 (self_mem_setTask w.tasks r _ hr rfl rfl) rfl rfl

/-- `Task.complete` with a completed state: (A) holds afterwards if it held before for all other
    executions -/
theorem completeTask_RL (sp : Spec) (w : World) (r : TaskRow) (s : St) (hs : s ≠ .IDLE ∧ s ≠ .RUNNING)
    (h : RLx (idOf r) w.tasks w.pending)
    (hc : isCompleted r.state = true → RL w.tasks w.pending) :
    RL (completeTask sp w r s).tasks (completeTask sp w r s).pending := by
  by_cases hcomp : isCompleted r.state = true
  · unfold completeTask
    simp only [hcomp, if_true]
    exact checkAffected_RL sp w _ (hc hcomp)
  · rw [completeTask_unfold sp w r s (by simpa using hcomp)]
    apply checkAffected_RL
    have h1 : RL (setTask w.tasks (ctRow sp w r s)) w.pending := RL_setTask_x _ _ _ h hs
    split
    · exact h1
    · apply dispatch_RL
      have h2 : RL (ctPre sp w r s).tasks w.pending :=
        RL_setTask _ _ { ctRow sp w r s with processed := true } h1 ⟨fun e => absurd e hs.1, fun e => absurd e hs.2⟩
      exact RL_sub _ _ _ h2 (ctPre_pending_sub sp w r s)

/-- (B) after `Task.complete` in a RUNNING workflow: a completion check is registered or an
    incomplete execution exists -/
theorem completeTask_check (sp : Spec) (w : World) (r : TaskRow) (s : St) (hwf : w.wf = .RUNNING)
    (h : HasIncomplete w.tasks ∨ Item.postCheck ∈ w.pending) :
    HasIncomplete (completeTask sp w r s).tasks ∨ Item.postCheck ∈ (completeTask sp w r s).pending := by
  have hnp : isPaused w.wf = false := by rw [hwf]; decide
  by_cases hc : isCompleted r.state = true
  · unfold completeTask
    simp only [hc, if_true]
    rw [(checkAffected_tasks sp w _).1]
    rcases h with h | h
    · exact Or.inl h
    · exact Or.inr (checkAffected_pending_sub sp w _ _ h)
  · rw [completeTask_unfold sp w r s (by simpa using hc)]
    simp only [hnp, Bool.false_eq_true, if_false]
    rw [(checkAffected_tasks sp _ _).1]
    by_cases he : (ctNt sp w r s).isEmpty = true
    · right
      apply checkAffected_pending_sub
      apply dispatch_pending_sub
      unfold ctPre
      simp [he]
    · left
      apply dispatch_creates
      · exact hwf
      · intro hnil
        apply he
        unfold ctCmds at hnil
        have := congrArg List.length hnil
        simp at this
        simp [this]


/-! ### one step: identities, (A) and (B) -/

theorem pause_running (s : St) (h : (Lifecycle.wfApply s .pause).1 = .RUNNING) : s = .RUNNING := by
  cases s <;> revert h <;> decide

theorem stop_running (s t : St) (h : (Lifecycle.wfApply s (.stop t)).1 = .RUNNING) : s = .RUNNING := by
  cases s <;> cases t <;> revert h <;> decide

theorem resume_running (s : St) (h : isPausedOrIdle s = true) : (Lifecycle.wfApply s .resume).1 = .RUNNING := by
  cases s <;> revert h <;> decide

/-- an event that does not lose an action at its executor -/
def lossless (ev : Event) : Prop := ∀ t, ev ≠ .deliver (.runAction t)

theorem RL_replace (ts : List TaskRow) (p : List Item) (it new : Item) (h : RL ts p)
    (hs : ∀ t, isStartFor t it = true → isStartFor t new = true)
    (ha : ∀ t, isActFor t it = true → isActFor t new = true) : RL ts (removeFirst p it ++ [new]) := by
  have key : ∀ (c : Item → Bool), (c it = true → c new = true) → p.any c = true →
      (removeFirst p it ++ [new]).any c = true := by
    intro c hc hany
    obtain ⟨x, hx, hcx⟩ := List.any_eq_true.mp hany
    by_cases e : x = it
    · exact any_of_mem c _ new (by simp) (hc (e ▸ hcx))
    · exact any_of_mem c _ x (List.mem_append_left _ (mem_removeFirst_of_ne p it x hx e)) hcx
  intro r hr
  exact ⟨fun hst => key _ (hs _) ((h r hr).1 hst), fun hst => key _ (ha _) ((h r hr).2 hst)⟩

theorem RL_removeFirst_other (ts : List TaskRow) (p : List Item) (it : Item) (h : RL ts p)
    (hs : ∀ t, isStartFor t it = false) (ha : ∀ t, isActFor t it = false) : RL ts (removeFirst p it) :=
  fun r hr => ⟨fun hst => any_removeFirst _ p it ((h r hr).1 hst) (hs _),
               fun hst => any_removeFirst _ p it ((h r hr).2 hst) (ha _)⟩

theorem RLx_removeFirst (t : Tid) (ts : List TaskRow) (p : List Item) (it : Item) (h : RL ts p)
    (ho : ∀ t', t' ≠ t → isStartFor t' it = false ∧ isActFor t' it = false) : RLx t ts (removeFirst p it) :=
  fun r hr hne => ⟨fun hst => any_removeFirst _ p it ((h r hr).1 hst) (ho _ hne).1,
                   fun hst => any_removeFirst _ p it ((h r hr).2 hst) (ho _ hne).2⟩

/-- a consumed start request of `t` when no execution `t` is IDLE -/
theorem RL_removeFirst_start (t : Tid) (ts : List TaskRow) (p : List Item) (it : Item) (h : RL ts p)
    (ho : ∀ t', t' ≠ t → isStartFor t' it = false) (ha : ∀ t', isActFor t' it = false)
    (hidle : ∀ x ∈ ts, idOf x = t → x.state ≠ .IDLE) : RL ts (removeFirst p it) := by
  intro r hr
  refine ⟨fun hst => ?_, fun hst => any_removeFirst _ p it ((h r hr).2 hst) (ha _)⟩
  by_cases e : idOf r = t
  · exact absurd hst (hidle r hr e)
  · exact any_removeFirst _ p it ((h r hr).1 hst) (ho _ e)

/-- the execution `r'` is made RUNNING and its action is handed over -/
theorem RL_run (ts : List TaskRow) (p : List Item) (it : Item) (r' : TaskRow) (h : RL ts p)
    (ho : ∀ t', t' ≠ idOf r' → isStartFor t' it = false ∧ isActFor t' it = false)
    (hs : r'.state = .RUNNING) : RL (setTask ts r') (removeFirst p it ++ [.postRunAction (idOf r')]) := by
  apply RL_setTask_x'
  · exact RLx_sub _ _ _ _ (RLx_removeFirst (idOf r') ts p it h ho) (fun x hx => List.mem_append_left _ hx)
  · refine ⟨fun e => ?_, fun _ => ?_⟩
    · rw [hs] at e; cases e
    · exact any_of_mem _ _ (.postRunAction (idOf r')) (by simp) (by simp [isActFor])

theorem findTask_none_no_row (w : World) (t : Tid) (h : findTask w t = none) : ∀ x ∈ w.tasks, idOf x ≠ t := by
  intro x hx e
  unfold findTask at h
  have := List.find?_eq_none.mp h x hx
  unfold idOf at e
  rw [← e] at this
  simp at this

theorem completed_not_idle_running (s : St) (h : isCompleted s = true) : s ≠ .IDLE ∧ s ≠ .RUNNING := by
  constructor <;> (intro e; rw [e] at h; exact absurd h (by decide))

structure Inv1 (w : World) : Prop where
  ids : IdsOK w.tasks
  rl : RL w.tasks w.pending
  chk : w.wf = .RUNNING → HasIncomplete w.tasks ∨ Item.postCheck ∈ w.pending

theorem inv1_init : Inv1 init := by
  refine ⟨⟨?_, ?_⟩, ?_, ?_⟩
  · intro r hr; simp [init] at hr
  · intro r hr; simp [init] at hr
  · intro r hr; simp [init] at hr
  · intro h; simp [init] at h

end Mistral.Engine.Live
