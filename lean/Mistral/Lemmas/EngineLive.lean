/-
Liveness of the engine core (C01: "never left RUNNING, or its tasks left waiting, with nothing
pending"): the invariant, in executable form (tested on every reachable world of small specs by
`Mistral.Drv.EngineLive` before it was proved) and as propositions with their step lemmas.
-/
import Mistral.Lemmas.EngineStart
import Mistral.Lemmas.Affected
namespace Mistral.Engine.Live
open Mistral Mistral.Join Mistral.Engine

/-- the situation the property excludes: RUNNING with nothing in flight -/
def stuck (w : World) : Bool := w.wf == .RUNNING && w.pending.isEmpty

def idOf (r : TaskRow) : Tid := (r.name, r.occ)

/-- a pending (re)start of the task execution -/
def isStartFor (t : Tid) : Item → Bool
  | .postStartTask t' _ => t' == t
  | .rpcStartTask t' _ => t' == t
  | _ => false

/-- a pending delivery of the task's action (the predicate of `hasLiveAction`) -/
def isActFor (t : Tid) : Item → Bool
  | .postRunAction t' => t' == t
  | .runAction t' => t' == t
  | .rpcResult t' _ => t' == t
  | _ => false

/-- a pending delivery that ends in a `_refresh_task_state` of the join execution -/
def isWakeFor (t : Tid) : Item → Bool
  | .postStartTask t' true => t' == t
  | .rpcStartTask t' true => t' == t
  | .postSchedRefresh t' => t' == t
  | .jobRefresh t' => t' == t
  | _ => false

/-! ### executable forms (exploration only) -/

def startTasks (sp : Spec) : List String :=
  (sp.graph.tasks.filter fun t => (inbound sp.graph t.name).isEmpty).map (·.name)

/-- the hypothesis under which the join part is proved: while PAUSED no incomplete execution
    carries a stale `processed` flag (it does after `Task.defer` re-opened a finished join) -/
def pausedCleanB (w : World) : Bool :=
  w.wf != .PAUSED || w.tasks.all fun r => isCompleted r.state || !r.processed

def rowsLiveB (w : World) : Bool :=
  w.tasks.all fun r =>
    (r.state != .IDLE || w.pending.any (isStartFor (idOf r))) &&
    (r.state != .RUNNING || hasLiveAction w (idOf r))

def checkOKB (w : World) : Bool :=
  w.wf != .RUNNING || w.tasks.any (fun r => !isCompleted r.state) || w.pending.contains .postCheck

def statesOKB (sp : Spec) (w : World) : Bool :=
  w.tasks.all fun r =>
    (isCompleted r.state || r.state == .IDLE || r.state == .WAITING || r.state == .RUNNING) &&
    (r.state != .WAITING || (isJoin sp r.name).isSome)

def procOKB (w : World) : Bool :=
  w.wf != .RUNNING || w.tasks.all fun r => !isCompleted r.state || r.processed

def routesOKB (w : World) : Bool :=
  w.tasks.all fun r => !(isCompleted r.state && r.processed) || r.nextTasks.all fun x => (findByName w x.1).isSome

def startsOKB (sp : Spec) (w : World) : Bool :=
  w.tasks.isEmpty || (startTasks sp).all fun n => (findByName w n).isSome

def nextOKB (sp : Spec) (w : World) : Bool :=
  w.tasks.all fun r => !(isCompleted r.state && !r.processed) || r.nextTasks == nextOf sp r.name r.state

def idsOKB (w : World) : Bool :=
  w.tasks.all (fun r => r.occ < countL w.tasks r.name) &&
  w.tasks.all (fun r => (w.tasks.filter fun x => x.name == r.name && x.occ == r.occ).length == 1)

def blockedB (sp : Spec) (w : World) (j : String) : Bool :=
  w.tasks.any fun u =>
    (!isCompleted u.state && (affected sp w u.name).contains j) ||
    (isCompleted u.state && !u.processed && u.nextTasks.any fun x =>
      (findByName w x.1).isNone && (affected sp w x.1).contains j)

def joinsWakeB (sp : Spec) (w : World) : Bool :=
  isCompleted w.wf || w.tasks.all fun j =>
    j.state != .WAITING || w.pending.any (isWakeFor (idOf j)) || blockedB sp w j.name

/-- the verdict lemma: a WAITING verdict on the current rows has a blocker -/
def verdictBlockedB (sp : Spec) (w : World) : Bool :=
  w.tasks.all fun j =>
    match isJoin sp j.name with
    | none => true
    | some k =>
      match joinLogicalState sp.graph (rowsOf w) (fuelFor sp) j.name k with
      | none => true
      | some L => L.state == .RUNNING || L.state == .ERROR || blockedB sp w j.name ||
          -- the lemma needs these
          !(routesOKB w && startsOKB sp w)

def checks : List (String × (Spec → World → Bool)) :=
  [("no_stuck", fun _ w => !stuck w),
   ("idsOK", fun _ w => idsOKB w),
   ("rowsLive", fun _ w => rowsLiveB w),
   ("checkOK", fun _ w => checkOKB w),
   ("statesOK", statesOKB),
   ("procOK", fun _ w => procOKB w),
   ("routesOK", fun _ w => routesOKB w),
   ("startsOK", startsOKB),
   ("nextOK", nextOKB),
   ("joinsWake", joinsWakeB),
   ("verdictBlocked", verdictBlockedB)]

end Mistral.Engine.Live
