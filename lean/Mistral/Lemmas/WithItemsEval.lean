import Mistral.Lemmas.WithItems

/-!
The evaluation layer of the with-items model (`EvalSpec`, `scheduleEval`, `stepE`, `runE`):
* with nothing failing `stepE {} = step` (so every theorem about `step` / `run` is a theorem about
  the evaluation-clean histories of `stepE` / `runE`),
* a scheduling round whose evaluation fails creates nothing,
* a transaction that creates executions leaves the task un-completed, a completed task gets no
  new execution,
* `LiveInv` (every index at most once accepted-or-RUNNING, indexes 0..m-1) for ALL failure tables,
* a spec whose items / concurrency cannot be evaluated never starts anything.
-/
namespace Mistral.WithItems

/-! ### nothing fails: the old transactions -/

theorem inputFails_clean (nr : Bool) (s : WI) : inputFails {} nr s = false := by
  simp [inputFails]

theorem scheduleEval_clean (s : WI) : scheduleEval {} s = scheduleActions s := by
  simp [scheduleEval, inputFails_clean]

theorem onActionCompleteE_clean (s : WI) : onActionCompleteE {} s = onActionComplete s := by
  simp [onActionCompleteE, onActionComplete, scheduleEval_clean]

theorem stepE_clean (s : WI) (op : Op) : stepE {} s op = step s op := by
  cases op <;> simp [stepE, step, scheduleEval_clean, onActionCompleteE_clean]

theorem runE_clean (s : WI) (ops : List Op) : runE {} s ops = run s ops := by
  induction ops generalizing s with
  | nil => rfl
  | cons o os ih =>
    show runE {} (stepE {} s o) os = run (step s o) os
    rw [stepE_clean, ih]

theorem evalSpec_clean_eq (e : EvalSpec) (h1 : e.itemsOk = true) (h2 : e.concOk = true) (h3 : e.badInputs = []) :
    e = {} := by
  cases e; simp_all

/-! ### what a scheduling round does to the executions -/

theorem complete_items_length (s : WI) (st : TSt) : (complete s st).items.length = s.items.length := by
  rcases complete_items s st with h | h <;> rw [h]
  simp [invalidateAll]

theorem prepare_items (s : WI) : (prepare s).items = s.items := by
  unfold prepare; split <;> rfl

theorem prepare_tstate (s : WI) : (prepare s).tstate = s.tstate := by
  unfold prepare; split <;> rfl

/-- `scheduleActions` either leaves the number of executions alone, or appends executions and
    does not touch the task state -/
theorem scheduleActions_created (s : WI) :
    (scheduleActions s).items.length = s.items.length ∨
    ((scheduleActions s).tstate = s.tstate ∧ s.items.length < (scheduleActions s).items.length) := by
  unfold scheduleActions scheduleBody
  simp only []
  split
  · left; rw [complete_items_length, prepare_items]
  · rename_i hne
    right
    refine ⟨by simp [prepare_tstate], ?_⟩
    have : (nextIndexes (prepare s)).length ≠ 0 := by
      intro h; apply hne; simp [List.length_eq_zero_iff.mp h]
    simp only [List.length_append, List.length_map, prepare_items]
    omega

theorem scheduleEval_created (e : EvalSpec) (s : WI) :
    (scheduleEval e s).items.length = s.items.length ∨
    ((scheduleEval e s).tstate = s.tstate ∧ s.items.length < (scheduleEval e s).items.length) := by
  unfold scheduleEval
  split
  · left; rfl
  · split
    · left; simp [failTask, prepare_items]
    · exact scheduleActions_created s

/-- a scheduling round in which some item input of the portion fails to evaluate schedules NO
    action and the task becomes ERROR; everything else the transaction wrote stays -/
theorem scheduleEval_input_failure (e : EvalSpec) (s : WI) (hi : e.itemsOk = true)
    (hf : inputFails e (!s.prepared) (prepare s) = true) :
    (scheduleEval e s).items = s.items ∧ (scheduleEval e s).tstate = .error ∧
      running (scheduleEval e s) = running s ∧ (scheduleEval e s).unhandled = s.unhandled := by
  simp [scheduleEval, hi, hf, failTask, prepare_items, running]
  unfold prepare; split <;> rfl

theorem scheduleEval_items_failure (e : EvalSpec) (s : WI) (hi : e.itemsOk = false) :
    scheduleEval e s = failTask s := by
  simp [scheduleEval, hi]

/-! ### created ⇒ not completed; completed ⇒ nothing created -/

theorem length_resetActions (reset : Bool) (l : List Item) : (resetActions reset l).length = l.length := by
  simp [resetActions]

theorem scheduleEval_created' (e : EvalSpec) (s s0 : WI) (hl : s.items.length = s0.items.length)
    (hnc : s.tstate.completed = false) :
    (scheduleEval e s).items.length = s0.items.length ∨ (scheduleEval e s).tstate.completed = false := by
  rcases scheduleEval_created e s with g | ⟨g, _⟩
  · left; rw [g, hl]
  · right; rw [g]; exact hnc

theorem stepE_created_cases (e : EvalSpec) (s : WI) (op : Op) :
    (stepE e s op).items.length = s.items.length ∨ (stepE e s op).tstate.completed = false := by
  cases op with
  | start =>
    simp only [stepE]
    split
    · split
      · left; rfl
      · exact scheduleEval_created' e _ s rfl rfl
    · left; rfl
  | result pos o =>
    left
    simp only [stepE, step]
    split
    · split
      · simp [length_setResult]
      · rfl
    · rfl
  | handled =>
    simp only [stepE]
    split
    · left; rfl
    · unfold onActionCompleteE
      split
      · left; rfl
      · rename_i hc
        obtain ⟨g1, _, _, _, _, _, _⟩ := increaseCapacity_fields { s with unhandled := s.unhandled - 1 }
        have gt : (increaseCapacity { s with unhandled := s.unhandled - 1 }).tstate = s.tstate := by
          unfold increaseCapacity; split
          · split <;> rfl
          · rfl
        simp only []
        split
        · left; rw [complete_items_length, g1]
        · split
          · exact scheduleEval_created' e _ s (by rw [g1]) (by rw [gt]; simpa using hc)
          · left; rw [g1]
  | rerun reset =>
    simp only [stepE]
    split
    · split
      · left; rfl
      · exact scheduleEval_created' e _ s (by simp [length_resetActions]) rfl
    · left; rfl
  | «continue» =>
    simp only [stepE]
    split
    · exact scheduleEval_created' e _ s (by simp [length_resetActions]) rfl
    · left; rfl

/-- every transaction that creates action executions leaves their task un-completed -/
theorem stepE_created_not_completed (e : EvalSpec) (s : WI) (op : Op)
    (h : s.items.length < (stepE e s op).items.length) : (stepE e s op).tstate.completed = false := by
  rcases stepE_created_cases e s op with g | g
  · omega
  · exact g

/-- no action execution is created for a task that is already completed (only an explicit rerun
    of an ERROR task starts a new round) -/
theorem stepE_completed_creates_nothing (e : EvalSpec) (s : WI) (op : Op)
    (hc : s.tstate.completed = true) (hop : ∀ reset, op ≠ .rerun reset) :
    (stepE e s op).items.length = s.items.length := by
  cases op with
  | start =>
    simp only [stepE]
    split
    · rename_i hi; rw [hi] at hc; simp [TSt.completed] at hc
    · rfl
  | result pos o =>
    simp only [stepE, step]
    split
    · split
      · simp [length_setResult]
      · rfl
    · rfl
  | handled =>
    simp only [stepE]
    split
    · rfl
    · simp [onActionCompleteE, hc]
  | rerun reset => exact absurd rfl (hop reset)
  | «continue» =>
    simp only [stepE]
    split
    · rename_i hd; rw [hd] at hc; simp [TSt.completed] at hc
    · rfl

/-! ### `LiveInv` for all failure tables -/

theorem liveInv_failTask {s : WI} (hL : LiveInv s) : LiveInv (failTask s) :=
  liveInv_same_items (s := s) rfl rfl hL.cnt hL

theorem liveInv_scheduleEval (e : EvalSpec) {s : WI} (hL : LiveInv s) : LiveInv (scheduleEval e s) := by
  unfold scheduleEval
  split
  · exact liveInv_failTask hL
  · split
    · apply liveInv_failTask
      unfold prepare
      split
      · exact hL
      · exact liveInv_same_items (s := s) rfl rfl (fun _ => rfl) hL
    · exact liveInv_scheduleActions hL

theorem liveInv_stepE (e : EvalSpec) {s : WI} (hL : LiveInv s) (op : Op) : LiveInv (stepE e s op) := by
  cases op with
  | start =>
    simp only [stepE]; split
    · split
      · exact liveInv_failTask hL
      · exact liveInv_scheduleEval e (liveInv_same_items (s := s) rfl rfl hL.cnt hL)
    · exact hL
  | result pos o => exact liveInv_step hL (.result pos o)
  | handled =>
    simp only [stepE]; split
    · exact hL
    · have h0 : LiveInv { s with unhandled := s.unhandled - 1 } := liveInv_same_items (s := s) rfl rfl hL.cnt hL
      unfold onActionCompleteE
      split
      · exact h0
      · obtain ⟨g1, g2, g3, g4, g5, g6, g7⟩ := increaseCapacity_fields { s with unhandled := s.unhandled - 1 }
        have h1 : LiveInv (increaseCapacity { s with unhandled := s.unhandled - 1 }) :=
          liveInv_same_items g1 g5 (by rw [g3, g4, g5]; exact h0.cnt) h0
        simp only []
        split
        · exact liveInv_complete _ h1
        · split
          · exact liveInv_scheduleEval e h1
          · exact h1
  | rerun reset =>
    simp only [stepE]; split
    · split
      · exact liveInv_same_items (s := s) rfl rfl (fun h => by simp at h) hL
      · apply liveInv_scheduleEval
        exact liveInv_map (s := s) (resetOne reset) (resetActions_eq reset s.items) (resetOne_index reset)
          (resetOne_live reset) rfl (fun h => by simp at h) hL
    · exact hL
  | «continue» =>
    simp only [stepE]; split
    · apply liveInv_scheduleEval
      exact liveInv_map (s := s) (resetOne false) (resetActions_eq false s.items) (resetOne_index false)
        (resetOne_live false) rfl hL.cnt hL
    · exact hL

theorem liveInv_runE (e : EvalSpec) {s : WI} (hL : LiveInv s) (ops : List Op) : LiveInv (runE e s ops) := by
  induction ops generalizing s with
  | nil => exact hL
  | cons o os ih => exact ih (liveInv_stepE e hL o)

/-! ### a spec whose items / concurrency cannot be evaluated never starts anything -/

/-- nothing was ever started: no execution, no pending completion, task IDLE or ERROR -/
def Dead (s : WI) : Prop := s.items = [] ∧ s.unhandled = 0 ∧ (s.tstate = .idle ∨ s.tstate = .error)

theorem dead_stepE (e : EvalSpec) (he : e.itemsOk = false ∨ e.concOk = false) {s : WI} (hd : Dead s) (op : Op) :
    Dead (stepE e s op) := by
  obtain ⟨hi, hu, ht⟩ := hd
  cases op with
  | start =>
    simp only [stepE]; split
    · split
      · exact ⟨hi, hu, Or.inr rfl⟩
      · rename_i hc
        have hio : e.itemsOk = false := by
          rcases he with h | h
          · exact h
          · simp [h] at hc
        rw [scheduleEval_items_failure e _ hio]
        exact ⟨hi, hu, Or.inr rfl⟩
    · exact ⟨hi, hu, ht⟩
  | result pos o =>
    simp [stepE, step, hi]
    exact ⟨hi, hu, ht⟩
  | handled =>
    simp [stepE, hu]
    exact ⟨hi, hu, ht⟩
  | rerun reset =>
    simp only [stepE]; split
    · split
      · exact ⟨hi, hu, Or.inr rfl⟩
      · rename_i hc
        have hio : e.itemsOk = false := by
          rcases he with h | h
          · exact h
          · simp [h] at hc
        rw [scheduleEval_items_failure e _ hio]
        exact ⟨by simp [failTask, hi, resetActions], hu, Or.inr rfl⟩
    · exact ⟨hi, hu, ht⟩
  | «continue» =>
    simp only [stepE]; split
    · rename_i hdl; rcases ht with h | h <;> rw [h] at hdl <;> cases hdl
    · exact ⟨hi, hu, ht⟩

theorem dead_runE (e : EvalSpec) (he : e.itemsOk = false ∨ e.concOk = false) {s : WI} (hd : Dead s)
    (ops : List Op) : Dead (runE e s ops) := by
  induction ops generalizing s with
  | nil => exact hd
  | cons o os ih => exact ih (dead_stepE e he hd o)

theorem dead_init (n : Nat) (c : Option Nat) (r : Nat) : Dead (init n c r) := by
  simp [Dead, init]

/-! ### after the repository fix: inputs of ALL items are checked when the task is (re)started

With a fixed failure table either some index `< n` is bad — then the first start (and every rerun)
fails before anything is created and nothing is ever started — or none is, and then no evaluation
can ever fail: every index the code evaluates is `< n`. -/

theorem mem_rangeFromTo {a b i : Nat} (h : i ∈ rangeFromTo a b) : i < b := by
  unfold rangeFromTo at h
  have := List.mem_range'_1.mp h
  omega

/-- every index the code is about to process lies below the item count -/
theorem indices_lt {s : WI} (hL : LiveInv s) (hp : s.prepared = true) : ∀ i ∈ indices s, i < s.specCount := by
  intro i hi
  have hc := hL.cnt hp
  obtain ⟨m, hm, hlt, _⟩ := hL.front
  unfold indices at hi
  split at hi
  · rename_i mx _
    rcases List.mem_append.mp hi with h | h
    · exact Nat.lt_of_lt_of_le (hlt i (candidates_occur h)) hm
    · split at h
      · have := mem_rangeFromTo (List.mem_filter.mp h).1
        omega
      · simp at h
  · have := mem_rangeFromTo hi
    omega

theorem evalIndexes_lt {s : WI} (hL : LiveInv s) (hp : s.prepared = true) (nr : Bool) :
    ∀ i ∈ evalIndexes nr s, i < s.specCount := by
  intro i hi
  unfold evalIndexes at hi
  split at hi
  · exact indices_lt hL hp i hi
  · exact indices_lt hL hp i (mem_takeCap hi)

/-- no index below `n` is bad -/
def NoBad (e : EvalSpec) (n : Nat) : Prop := ∀ b ∈ e.badInputs, n ≤ b

theorem inputFails_noBad {e : EvalSpec} {s : WI} (hL : LiveInv s) (hp : s.prepared = true)
    (hb : NoBad e s.specCount) (nr : Bool) : inputFails e nr s = false := by
  unfold inputFails
  rw [List.any_eq_false]
  intro i hi hc
  have h1 := evalIndexes_lt hL hp nr i hi
  have h2 := hb i (by simpa using hc)
  omega

theorem prepare_liveInv {s : WI} (hL : LiveInv s) : LiveInv (prepare s) ∧ (prepare s).prepared = true ∧
    (prepare s).specCount = s.specCount := by
  unfold prepare
  split
  · rename_i h; exact ⟨hL, h, rfl⟩
  · exact ⟨liveInv_same_items (s := s) rfl rfl (fun _ => rfl) hL, rfl, rfl⟩

theorem scheduleEval_noBad {e : EvalSpec} {s : WI} (hi : e.itemsOk = true) (hL : LiveInv s)
    (hb : NoBad e s.specCount) : scheduleEval e s = scheduleActions s := by
  obtain ⟨h1, h2, h3⟩ := prepare_liveInv hL
  unfold scheduleEval
  simp [hi, inputFails_noBad h1 h2 (by rw [h3]; exact hb)]

theorem stepE_noBad {e : EvalSpec} {s : WI} (hi : e.itemsOk = true) (hc : e.concOk = true) (hL : LiveInv s)
    (hb : NoBad e s.specCount) (op : Op) : stepE e s op = step s op := by
  cases op with
  | start =>
    simp only [stepE, step, hc]
    split
    · simp only [Bool.not_true, Bool.false_eq_true, if_false]
      exact scheduleEval_noBad hi (liveInv_same_items (s := s) rfl rfl hL.cnt hL) hb
    · rfl
  | result pos o => rfl
  | handled =>
    simp only [stepE, step]
    split
    · rfl
    · have h0 : LiveInv { s with unhandled := s.unhandled - 1 } := liveInv_same_items (s := s) rfl rfl hL.cnt hL
      unfold onActionCompleteE onActionComplete
      split
      · rfl
      · obtain ⟨g1, g2, g3, g4, g5, g6, g7⟩ := increaseCapacity_fields { s with unhandled := s.unhandled - 1 }
        have h1 : LiveInv (increaseCapacity { s with unhandled := s.unhandled - 1 }) :=
          liveInv_same_items g1 g5 (by rw [g3, g4, g5]; exact h0.cnt) h0
        simp only []
        split
        · rfl
        · split
          · exact scheduleEval_noBad hi h1 (by rw [g5]; exact hb)
          · rfl
  | rerun reset =>
    simp only [stepE, step, hc]
    split
    · simp only [Bool.not_true, Bool.false_eq_true, if_false]
      exact scheduleEval_noBad hi
        (liveInv_map (s := s) (resetOne reset) (resetActions_eq reset s.items) (resetOne_index reset)
          (resetOne_live reset) rfl (fun h => by simp at h) hL) hb
    · rfl
  | «continue» =>
    simp only [stepE, step]
    split
    · exact scheduleEval_noBad hi
        (liveInv_map (s := s) (resetOne false) (resetActions_eq false s.items) (resetOne_index false)
          (resetOne_live false) rfl hL.cnt hL) hb
    · rfl

theorem runE_noBad {e : EvalSpec} (hi : e.itemsOk = true) (hc : e.concOk = true) :
    ∀ (ops : List Op) (s : WI), LiveInv s → NoBad e s.specCount → runE e s ops = run s ops := by
  intro ops
  induction ops with
  | nil => intro s _ _; rfl
  | cons o os ih =>
    intro s hL hb
    show runE e (stepE e s o) os = run (step s o) os
    rw [stepE_noBad hi hc hL hb o]
    exact ih _ (liveInv_step hL o) (by rw [(step_spec s o).1]; exact hb)

/-- nothing was ever started and a start will evaluate all items: no execution, no pending
    completion, task IDLE (runtime context not prepared yet) or ERROR -/
def DeadP (s : WI) : Prop :=
  s.items = [] ∧ s.unhandled = 0 ∧ ((s.tstate = .idle ∧ s.prepared = false) ∨ s.tstate = .error)

theorem indices_empty {s : WI} (hi : s.items = []) : indices s = List.range' 0 s.count := by
  simp [indices, candidates, unacceptedIdx, takenIdx, sortDedup, nextStartIndex, rangeFromTo, hi]

/-- a (re)start of a task without executions fails when some index `< n` is bad -/
theorem scheduleEval_bad_fresh {e : EvalSpec} {s : WI} {b : Nat} (hio : e.itemsOk = true)
    (hb : b ∈ e.badInputs) (hlt : b < s.specCount) (hitems : s.items = []) (hp : s.prepared = false) :
    scheduleEval e s = failTask (prepare s) := by
  have hprep : prepare s = { s with prepared := true, capacity := s.concurrency, count := s.specCount } := by
    simp [prepare, hp]
  have hf : inputFails e (!s.prepared) (prepare s) = true := by
    rw [hp, hprep]
    simp only [inputFails, evalIndexes, Bool.not_false, if_true]
    rw [indices_empty (by simpa using hitems)]
    rw [List.any_eq_true]
    exact ⟨b, List.mem_range'_1.mpr ⟨Nat.zero_le _, by simpa using hlt⟩, by simpa using hb⟩
  unfold scheduleEval
  simp [hio, hf]

theorem deadP_stepE {e : EvalSpec} {b : Nat} (hio : e.itemsOk = true) (hb : b ∈ e.badInputs) {s : WI}
    (hlt : b < s.specCount) (hd : DeadP s) (op : Op) :
    DeadP (stepE e s op) ∧ (stepE e s op).specCount = s.specCount := by
  obtain ⟨hi, hu, ht⟩ := hd
  cases op with
  | start =>
    simp only [stepE]; split
    · rename_i hidle
      have hp : s.prepared = false := by
        rcases ht with ⟨_, h⟩ | h
        · exact h
        · rw [hidle] at h; cases h
      split
      · exact ⟨⟨hi, hu, Or.inr rfl⟩, rfl⟩
      · rw [scheduleEval_bad_fresh hio hb (by exact hlt) (by exact hi) (by exact hp)]
        refine ⟨⟨by simp [failTask, prepare_items, hi], by simp [failTask, prepare, hp, hu], Or.inr rfl⟩, ?_⟩
        simp [failTask, prepare, hp]
    · exact ⟨⟨hi, hu, ht⟩, rfl⟩
  | result pos o =>
    simp [stepE, step, hi]
    exact ⟨hi, hu, ht⟩
  | handled =>
    simp [stepE, hu]
    exact ⟨hi, hu, ht⟩
  | rerun reset =>
    simp only [stepE]; split
    · split
      · exact ⟨⟨hi, hu, Or.inr rfl⟩, rfl⟩
      · rw [scheduleEval_bad_fresh hio hb (by exact hlt) (by simp [hi, resetActions]) rfl]
        refine ⟨⟨by simp [failTask, prepare_items, hi, resetActions], by simp [failTask, prepare, hu], Or.inr rfl⟩, ?_⟩
        simp [failTask, prepare]
    · exact ⟨⟨hi, hu, ht⟩, rfl⟩
  | «continue» =>
    simp only [stepE]; split
    · rename_i hdl
      rcases ht with ⟨h, _⟩ | h <;> rw [h] at hdl <;> cases hdl
    · exact ⟨⟨hi, hu, ht⟩, rfl⟩

theorem deadP_runE {e : EvalSpec} {b : Nat} (hio : e.itemsOk = true) (hb : b ∈ e.badInputs) :
    ∀ (ops : List Op) (s : WI), b < s.specCount → DeadP s → DeadP (runE e s ops) := by
  intro ops
  induction ops with
  | nil => intro s _ hd; exact hd
  | cons o os ih =>
    intro s hlt hd
    obtain ⟨h1, h2⟩ := deadP_stepE hio hb hlt hd o
    exact ih _ (by rw [h2]; exact hlt) h1

theorem deadP_init (n : Nat) (c : Option Nat) (r : Nat) : DeadP (init n c r) := by
  simp [DeadP, init]

/-- the three kinds of failure tables: something below `n` cannot be evaluated (items, concurrency
    or an item input) — nothing is ever started; or nothing can fail — the clean history -/
theorem runE_cases (e : EvalSpec) (n : Nat) (c : Option Nat) (r : Nat) (ops : List Op) :
    (runE e (init n c r) ops).items = [] ∨ runE e (init n c r) ops = run (init n c r) ops := by
  by_cases h1 : e.itemsOk = true
  · by_cases h2 : e.concOk = true
    · by_cases h3 : ∃ b ∈ e.badInputs, b < n
      · obtain ⟨b, hb, hlt⟩ := h3
        exact Or.inl (deadP_runE h1 hb ops _ (by simpa [init] using hlt) (deadP_init n c r)).1
      · right
        apply runE_noBad h1 h2 ops _ (liveInv_init n c r)
        intro b hb
        simp only [init]
        by_cases hlt : b < n
        · exact absurd ⟨b, hb, hlt⟩ h3
        · omega
    · exact Or.inl (dead_runE e (Or.inr (by simpa using h2)) (dead_init n c r) ops).1
  · exact Or.inl (dead_runE e (Or.inl (by simpa using h1)) (dead_init n c r) ops).1

end Mistral.WithItems
