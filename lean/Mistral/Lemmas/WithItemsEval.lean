import Mistral.Lemmas.WithItems

/-!
The evaluation layer of the with-items model (`EvalSpec`, `scheduleEval`, `stepE`, `runE`):
* with nothing failing `stepE {} = step` (so every theorem about `step` / `run` is a theorem about
  the evaluation-clean histories of `stepE` / `runE`),
* a scheduling round whose evaluation fails creates nothing,
* a transaction that creates executions leaves the task un-completed, a completed task gets no
  new execution,
* `LiveInv` (every index at most once accepted-or-RUNNING, indexes 0..m-1) for ALL failure tables,
* a spec whose items / concurrency cannot be evaluated never starts anything.
-/
namespace Mistral.WithItems

/-! ### nothing fails: the old transactions -/

theorem inputFails_clean (s : WI) : inputFails {} s = false := by
  simp [inputFails]

theorem scheduleEval_clean (s : WI) : scheduleEval {} s = scheduleActions s := by
  simp [scheduleEval, inputFails_clean]

theorem onActionCompleteE_clean (s : WI) : onActionCompleteE {} s = onActionComplete s := by
  simp [onActionCompleteE, onActionComplete, scheduleEval_clean]

theorem stepE_clean (s : WI) (op : Op) : stepE {} s op = step s op := by
  cases op <;> simp [stepE, step, scheduleEval_clean, onActionCompleteE_clean]

theorem runE_clean (s : WI) (ops : List Op) : runE {} s ops = run s ops := by
  induction ops generalizing s with
  | nil => rfl
  | cons o os ih =>
    show runE {} (stepE {} s o) os = run (step s o) os
    rw [stepE_clean, ih]

theorem evalSpec_clean_eq (e : EvalSpec) (h1 : e.itemsOk = true) (h2 : e.concOk = true) (h3 : e.badInputs = []) :
    e = {} := by
  cases e; simp_all

/-! ### what a scheduling round does to the executions -/

theorem complete_items_length (s : WI) (st : TSt) : (complete s st).items.length = s.items.length := by
  rcases complete_items s st with h | h <;> rw [h]
  simp [invalidateAll]

theorem prepare_items (s : WI) : (prepare s).items = s.items := by
  unfold prepare; split <;> rfl

theorem prepare_tstate (s : WI) : (prepare s).tstate = s.tstate := by
  unfold prepare; split <;> rfl

/-- `scheduleActions` either leaves the number of executions alone, or appends executions and
    does not touch the task state -/
theorem scheduleActions_created (s : WI) :
    (scheduleActions s).items.length = s.items.length ∨
    ((scheduleActions s).tstate = s.tstate ∧ s.items.length < (scheduleActions s).items.length) := by
  unfold scheduleActions scheduleBody
  simp only []
  split
  · left; rw [complete_items_length, prepare_items]
  · rename_i hne
    right
    refine ⟨by simp [prepare_tstate], ?_⟩
    have : (nextIndexes (prepare s)).length ≠ 0 := by
      intro h; apply hne; simp [List.length_eq_zero_iff.mp h]
    simp only [List.length_append, List.length_map, prepare_items]
    omega

theorem scheduleEval_created (e : EvalSpec) (s : WI) :
    (scheduleEval e s).items.length = s.items.length ∨
    ((scheduleEval e s).tstate = s.tstate ∧ s.items.length < (scheduleEval e s).items.length) := by
  unfold scheduleEval
  split
  · left; rfl
  · split
    · left; simp [failTask, prepare_items]
    · exact scheduleActions_created s

/-- a scheduling round in which some item input of the portion fails to evaluate schedules NO
    action and the task becomes ERROR; everything else the transaction wrote stays -/
theorem scheduleEval_input_failure (e : EvalSpec) (s : WI) (hi : e.itemsOk = true)
    (hf : inputFails e (prepare s) = true) :
    (scheduleEval e s).items = s.items ∧ (scheduleEval e s).tstate = .error ∧
      running (scheduleEval e s) = running s ∧ (scheduleEval e s).unhandled = s.unhandled := by
  simp [scheduleEval, hi, hf, failTask, prepare_items, running]
  unfold prepare; split <;> rfl

theorem scheduleEval_items_failure (e : EvalSpec) (s : WI) (hi : e.itemsOk = false) :
    scheduleEval e s = failTask s := by
  simp [scheduleEval, hi]

/-! ### created ⇒ not completed; completed ⇒ nothing created -/

theorem length_resetActions (reset : Bool) (l : List Item) : (resetActions reset l).length = l.length := by
  simp [resetActions]

theorem scheduleEval_created' (e : EvalSpec) (s s0 : WI) (hl : s.items.length = s0.items.length)
    (hnc : s.tstate.completed = false) :
    (scheduleEval e s).items.length = s0.items.length ∨ (scheduleEval e s).tstate.completed = false := by
  rcases scheduleEval_created e s with g | ⟨g, _⟩
  · left; rw [g, hl]
  · right; rw [g]; exact hnc

theorem stepE_created_cases (e : EvalSpec) (s : WI) (op : Op) :
    (stepE e s op).items.length = s.items.length ∨ (stepE e s op).tstate.completed = false := by
  cases op with
  | start =>
    simp only [stepE]
    split
    · split
      · left; rfl
      · exact scheduleEval_created' e _ s rfl rfl
    · left; rfl
  | result pos o =>
    left
    simp only [stepE, step]
    split
    · split
      · simp [length_setResult]
      · rfl
    · rfl
  | handled =>
    simp only [stepE]
    split
    · left; rfl
    · unfold onActionCompleteE
      split
      · left; rfl
      · rename_i hc
        obtain ⟨g1, _, _, _, _, _, _⟩ := increaseCapacity_fields { s with unhandled := s.unhandled - 1 }
        have gt : (increaseCapacity { s with unhandled := s.unhandled - 1 }).tstate = s.tstate := by
          unfold increaseCapacity; split
          · split <;> rfl
          · rfl
        simp only []
        split
        · left; rw [complete_items_length, g1]
        · split
          · exact scheduleEval_created' e _ s (by rw [g1]) (by rw [gt]; simpa using hc)
          · left; rw [g1]
  | rerun reset =>
    simp only [stepE]
    split
    · split
      · left; rfl
      · exact scheduleEval_created' e _ s (by simp [length_resetActions]) rfl
    · left; rfl
  | «continue» =>
    simp only [stepE]
    split
    · exact scheduleEval_created' e _ s (by simp [length_resetActions]) rfl
    · left; rfl

/-- every transaction that creates action executions leaves their task un-completed -/
theorem stepE_created_not_completed (e : EvalSpec) (s : WI) (op : Op)
    (h : s.items.length < (stepE e s op).items.length) : (stepE e s op).tstate.completed = false := by
  rcases stepE_created_cases e s op with g | g
  · omega
  · exact g

/-- no action execution is created for a task that is already completed (only an explicit rerun
    of an ERROR task starts a new round) -/
theorem stepE_completed_creates_nothing (e : EvalSpec) (s : WI) (op : Op)
    (hc : s.tstate.completed = true) (hop : ∀ reset, op ≠ .rerun reset) :
    (stepE e s op).items.length = s.items.length := by
  cases op with
  | start =>
    simp only [stepE]
    split
    · rename_i hi; rw [hi] at hc; simp [TSt.completed] at hc
    · rfl
  | result pos o =>
    simp only [stepE, step]
    split
    · split
      · simp [length_setResult]
      · rfl
    · rfl
  | handled =>
    simp only [stepE]
    split
    · rfl
    · simp [onActionCompleteE, hc]
  | rerun reset => exact absurd rfl (hop reset)
  | «continue» =>
    simp only [stepE]
    split
    · rename_i hd; rw [hd] at hc; simp [TSt.completed] at hc
    · rfl

/-! ### `LiveInv` for all failure tables -/

theorem liveInv_failTask {s : WI} (hL : LiveInv s) : LiveInv (failTask s) :=
  liveInv_same_items (s := s) rfl rfl hL.cnt hL

theorem liveInv_scheduleEval (e : EvalSpec) {s : WI} (hL : LiveInv s) : LiveInv (scheduleEval e s) := by
  unfold scheduleEval
  split
  · exact liveInv_failTask hL
  · split
    · apply liveInv_failTask
      unfold prepare
      split
      · exact hL
      · exact liveInv_same_items (s := s) rfl rfl (fun _ => rfl) hL
    · exact liveInv_scheduleActions hL

theorem liveInv_stepE (e : EvalSpec) {s : WI} (hL : LiveInv s) (op : Op) : LiveInv (stepE e s op) := by
  cases op with
  | start =>
    simp only [stepE]; split
    · split
      · exact liveInv_failTask hL
      · exact liveInv_scheduleEval e (liveInv_same_items (s := s) rfl rfl hL.cnt hL)
    · exact hL
  | result pos o => exact liveInv_step hL (.result pos o)
  | handled =>
    simp only [stepE]; split
    · exact hL
    · have h0 : LiveInv { s with unhandled := s.unhandled - 1 } := liveInv_same_items (s := s) rfl rfl hL.cnt hL
      unfold onActionCompleteE
      split
      · exact h0
      · obtain ⟨g1, g2, g3, g4, g5, g6, g7⟩ := increaseCapacity_fields { s with unhandled := s.unhandled - 1 }
        have h1 : LiveInv (increaseCapacity { s with unhandled := s.unhandled - 1 }) :=
          liveInv_same_items g1 g5 (by rw [g3, g4, g5]; exact h0.cnt) h0
        simp only []
        split
        · exact liveInv_complete _ h1
        · split
          · exact liveInv_scheduleEval e h1
          · exact h1
  | rerun reset =>
    simp only [stepE]; split
    · split
      · exact liveInv_same_items (s := s) rfl rfl (fun h => by simp at h) hL
      · apply liveInv_scheduleEval
        exact liveInv_map (s := s) (resetOne reset) (resetActions_eq reset s.items) (resetOne_index reset)
          (resetOne_live reset) rfl (fun h => by simp at h) hL
    · exact hL
  | «continue» =>
    simp only [stepE]; split
    · apply liveInv_scheduleEval
      exact liveInv_map (s := s) (resetOne false) (resetActions_eq false s.items) (resetOne_index false)
        (resetOne_live false) rfl hL.cnt hL
    · exact hL

theorem liveInv_runE (e : EvalSpec) {s : WI} (hL : LiveInv s) (ops : List Op) : LiveInv (runE e s ops) := by
  induction ops generalizing s with
  | nil => exact hL
  | cons o os ih => exact ih (liveInv_stepE e hL o)

/-! ### a spec whose items / concurrency cannot be evaluated never starts anything -/

/-- nothing was ever started: no execution, no pending completion, task IDLE or ERROR -/
def Dead (s : WI) : Prop := s.items = [] ∧ s.unhandled = 0 ∧ (s.tstate = .idle ∨ s.tstate = .error)

theorem dead_stepE (e : EvalSpec) (he : e.itemsOk = false ∨ e.concOk = false) {s : WI} (hd : Dead s) (op : Op) :
    Dead (stepE e s op) := by
  obtain ⟨hi, hu, ht⟩ := hd
  cases op with
  | start =>
    simp only [stepE]; split
    · split
      · exact ⟨hi, hu, Or.inr rfl⟩
      · rename_i hc
        have hio : e.itemsOk = false := by
          rcases he with h | h
          · exact h
          · simp [h] at hc
        rw [scheduleEval_items_failure e _ hio]
        exact ⟨hi, hu, Or.inr rfl⟩
    · exact ⟨hi, hu, ht⟩
  | result pos o =>
    simp [stepE, step, hi]
    exact ⟨hi, hu, ht⟩
  | handled =>
    simp [stepE, hu]
    exact ⟨hi, hu, ht⟩
  | rerun reset =>
    simp only [stepE]; split
    · split
      · exact ⟨hi, hu, Or.inr rfl⟩
      · rename_i hc
        have hio : e.itemsOk = false := by
          rcases he with h | h
          · exact h
          · simp [h] at hc
        rw [scheduleEval_items_failure e _ hio]
        exact ⟨by simp [failTask, hi, resetActions], hu, Or.inr rfl⟩
    · exact ⟨hi, hu, ht⟩
  | «continue» =>
    simp only [stepE]; split
    · rename_i hdl; rcases ht with h | h <;> rw [h] at hdl <;> cases hdl
    · exact ⟨hi, hu, ht⟩

theorem dead_runE (e : EvalSpec) (he : e.itemsOk = false ∨ e.concOk = false) {s : WI} (hd : Dead s)
    (ops : List Op) : Dead (runE e s ops) := by
  induction ops generalizing s with
  | nil => exact hd
  | cons o os ih => exact ih (dead_stepE e he hd o)

theorem dead_init (n : Nat) (c : Option Nat) (r : Nat) : Dead (init n c r) := by
  simp [Dead, init]

end Mistral.WithItems
