import Mistral.Lemmas.Sched

namespace Mistral.Sched

/-! ## captures of one job are `captured_job_timeout` apart (compare-and-swap) -/

/-- newest-first trace: every capture is at least `to` seconds after every earlier capture of
    the same job -/
def Spaced (to : Nat) : List Ev → Prop
  | [] => True
  | e :: rest =>
    (∀ j t i, e = .captured j t i → ∀ t' i', Ev.captured j t' i' ∈ rest → t' + to ≤ t) ∧ Spaced to rest

structure CapInv (to now : Nat) (rows : List Row) (trace : List Ev) : Prop where
  /-- row.captured_at is the time of the latest capture; NULL = never captured -/
  row : ∀ j (r : Row), rows[j]? = some r →
    (r.capturedAt = none → ∀ t i, Ev.captured j t i ∉ trace) ∧
    (∀ c, r.capturedAt = some c → c ≤ now ∧ ∀ t i, Ev.captured j t i ∈ trace → t ≤ c)
  spaced : Spaced to trace
  del : ∀ j td i, Ev.deleted j td i ∈ trace →
    (∃ r : Row, rows[j]? = some r ∧ r.vis = .deleted) ∧ ∀ t i', Ev.captured j t i' ∈ trace → t ≤ td
  ex : ∀ j t i, Ev.captured j t i ∈ trace → (∃ r : Row, rows[j]? = some r) ∧ t ≤ now

theorem capInv_tick {to now now' : Nat} {rows : List Row} {trace : List Ev} (h : now ≤ now')
    (hc : CapInv to now rows trace) : CapInv to now' rows trace := by
  refine ⟨?_, hc.spaced, hc.del, ?_⟩
  · intro j r hr
    obtain ⟨a, b⟩ := hc.row j r hr
    refine ⟨a, fun c hcc => ?_⟩
    obtain ⟨b1, b2⟩ := b c hcc
    exact ⟨by omega, b2⟩
  · intro j t i hm
    obtain ⟨a, b⟩ := hc.ex j t i hm
    exact ⟨a, by omega⟩

theorem capInv_invoked {to now : Nat} {rows : List Row} {trace : List Ev} (j t i : Nat)
    (hc : CapInv to now rows trace) : CapInv to now rows (.invoked j t i :: trace) := by
  refine ⟨?_, ?_, ?_, ?_⟩
  · intro j' r hr
    obtain ⟨a, b⟩ := hc.row j' r hr
    refine ⟨fun hn t' i' hm => ?_, fun c hcc => ?_⟩
    · simp only [List.mem_cons] at hm
      rcases hm with hm | hm
      · cases hm
      · exact a hn t' i' hm
    · obtain ⟨b1, b2⟩ := b c hcc
      refine ⟨b1, fun t' i' hm => ?_⟩
      simp only [List.mem_cons] at hm
      rcases hm with hm | hm
      · cases hm
      · exact b2 t' i' hm
  · exact ⟨(by intro j' t' i' h; cases h), hc.spaced⟩
  · intro j' td i' hm
    simp only [List.mem_cons] at hm
    rcases hm with hm | hm
    · cases hm
    · obtain ⟨a, b⟩ := hc.del j' td i' hm
      refine ⟨a, fun t' i'' hm' => ?_⟩
      simp only [List.mem_cons] at hm'
      rcases hm' with hm' | hm'
      · cases hm'
      · exact b t' i'' hm'
  · intro j' t' i' hm
    simp only [List.mem_cons] at hm
    rcases hm with hm | hm
    · cases hm
    · exact hc.ex j' t' i' hm

/-- rows change in a way that keeps captured_at and does not un-delete -/
theorem capInv_rows {to now : Nat} {rows rows' : List Row} {trace : List Ev}
    (hc : CapInv to now rows trace)
    (hfw : ∀ (j : Nat) (r : Row), rows[j]? = some r → ∃ r' : Row, rows'[j]? = some r' ∧ (r.vis = .deleted → r'.vis = .deleted))
    (hbw : ∀ (j : Nat) (r' : Row), rows'[j]? = some r' →
      (∃ r : Row, rows[j]? = some r ∧ r.capturedAt = r'.capturedAt) ∨
      (rows[j]? = (none : Option Row) ∧ r'.capturedAt = none)) :
    CapInv to now rows' trace := by
  refine ⟨?_, hc.spaced, ?_, ?_⟩
  · intro j r' hr'
    rcases hbw j r' hr' with ⟨r, hr, hcap⟩ | ⟨hnone, hcap⟩
    · obtain ⟨a, b⟩ := hc.row j r hr
      exact ⟨fun hn => a (hcap ▸ hn), fun c hcc => b c (hcap ▸ hcc)⟩
    · refine ⟨fun _ t i hm => ?_, fun c hcc => by simp [hcap] at hcc⟩
      obtain ⟨⟨r, hr⟩, _⟩ := hc.ex j t i hm
      simp [hnone] at hr
  · intro j td i hm
    obtain ⟨⟨r, hr, hv⟩, b⟩ := hc.del j td i hm
    obtain ⟨r', hr', hv'⟩ := hfw j r hr
    exact ⟨⟨r', hr', hv' hv⟩, b⟩
  · intro j t i hm
    obtain ⟨⟨r, hr⟩, b⟩ := hc.ex j t i hm
    obtain ⟨r', hr', _⟩ := hfw j r hr
    exact ⟨⟨r', hr'⟩, b⟩

theorem capInv_capture {to now : Nat} {rows rows' : List Row} {trace : List Ev} {j i : Nat} {seen : Option Nat}
    (hc : CapInv to now rows trace) (hcas : cas rows j seen now = some rows')
    (hseen : ∀ v, seen = some v → v + to ≤ now) :
    CapInv to now rows' (.captured j now i :: trace) := by
  obtain ⟨r, hr, hvis, hcap, rfl⟩ := cas_spec hcas
  have hlt : j < rows.length := (List.getElem?_eq_some_iff.mp hr).1
  obtain ⟨rn, rs⟩ := hc.row j r hr
  -- no deleted event for j: its row is committed
  have hnodel : ∀ td i', Ev.deleted j td i' ∉ trace := by
    intro td i' hm
    obtain ⟨⟨r2, hr2, hv2⟩, _⟩ := hc.del j td i' hm
    rw [hr] at hr2; simp at hr2; subst hr2; simp [hvis] at hv2
  refine ⟨?_, ?_, ?_, ?_⟩
  · intro j' r' hr'
    rcases set_get hr' with ⟨rfl, rfl⟩ | ⟨hne, hr2⟩
    · refine ⟨by simp, fun c hcc => ?_⟩
      simp at hcc; subst hcc
      refine ⟨Nat.le_refl _, fun t i' hm => ?_⟩
      simp only [List.mem_cons] at hm
      rcases hm with hm | hm
      · cases hm; exact Nat.le_refl _
      · exact (hc.ex _ t i' hm).2
    · obtain ⟨a, b⟩ := hc.row j' r' hr2
      refine ⟨fun hn t i' hm => ?_, fun c hcc => ?_⟩
      · simp only [List.mem_cons] at hm
        rcases hm with hm | hm
        · cases hm; exact hne rfl
        · exact a hn t i' hm
      · obtain ⟨b1, b2⟩ := b c hcc
        refine ⟨b1, fun t i' hm => ?_⟩
        simp only [List.mem_cons] at hm
        rcases hm with hm | hm
        · cases hm; exact absurd rfl hne
        · exact b2 t i' hm
  · refine ⟨?_, hc.spaced⟩
    intro j' t i' he t' i'' hm
    cases he
    cases hs : seen with
    | none =>
      exact absurd hm (rn (hcap.trans hs) t' i'')
    | some v =>
      have h1 := (rs v (hcap.trans hs)).2 t' i'' hm
      have h2 := hseen v hs
      omega
  · intro j' td i' hm
    simp only [List.mem_cons] at hm
    rcases hm with hm | hm
    · cases hm
    · obtain ⟨⟨r2, hr2, hv2⟩, b⟩ := hc.del j' td i' hm
      have hne : j' ≠ j := by
        intro h; subst h; exact hnodel td i' hm
      refine ⟨⟨r2, by simp [Ne.symm hne, hr2], hv2⟩, fun t i'' hm' => ?_⟩
      simp only [List.mem_cons] at hm'
      rcases hm' with hm' | hm'
      · cases hm'; exact absurd rfl hne
      · exact b t i'' hm'
  · intro j' t i' hm
    simp only [List.mem_cons] at hm
    rcases hm with hm | hm
    · cases hm
      exact ⟨⟨{ r with capturedAt := some now }, by simp [hlt]⟩, Nat.le_refl _⟩
    · obtain ⟨⟨r2, hr2⟩, b⟩ := hc.ex j' t i' hm
      have hl2 : j' < rows.length := (List.getElem?_eq_some_iff.mp hr2).1
      refine ⟨?_, b⟩
      by_cases hjj : j = j'
      · subst hjj; exact ⟨{ r with capturedAt := some now }, by simp [hlt]⟩
      · exact ⟨r2, by simp [hjj, hr2]⟩

theorem capInv_delete {to now : Nat} {rows rows' : List Row} {trace : List Ev} {j i : Nat}
    (hc : CapInv to now rows trace) (hdel : del rows j = some rows') :
    CapInv to now rows' (.deleted j now i :: trace) := by
  obtain ⟨r, hr, hvis, rfl⟩ := del_spec hdel
  have hlt : j < rows.length := (List.getElem?_eq_some_iff.mp hr).1
  have hrows : CapInv to now (rows.set j { r with vis := .deleted }) trace := by
    apply capInv_rows hc
    · intro j' r2 hr2
      by_cases hjj : j = j'
      · subst hjj; exact ⟨{ r with vis := .deleted }, by simp [hlt], fun _ => rfl⟩
      · exact ⟨r2, by simp [hjj, hr2], fun h => h⟩
    · intro j' r' hr'
      rcases set_get hr' with ⟨rfl, rfl⟩ | ⟨_, h2⟩
      · exact Or.inl ⟨r, hr, rfl⟩
      · exact Or.inl ⟨r', h2, rfl⟩
  refine ⟨?_, ?_, ?_, ?_⟩
  · intro j' r' hr'
    obtain ⟨a, b⟩ := hrows.row j' r' hr'
    refine ⟨fun hn t i' hm => ?_, fun c hcc => ?_⟩
    · simp only [List.mem_cons] at hm
      rcases hm with hm | hm
      · cases hm
      · exact a hn t i' hm
    · obtain ⟨b1, b2⟩ := b c hcc
      refine ⟨b1, fun t i' hm => ?_⟩
      simp only [List.mem_cons] at hm
      rcases hm with hm | hm
      · cases hm
      · exact b2 t i' hm
  · exact ⟨(by intro j' t i' h; cases h), hc.spaced⟩
  · intro j' td i' hm
    simp only [List.mem_cons] at hm
    rcases hm with hm | hm
    · cases hm
      refine ⟨⟨{ r with vis := .deleted }, by simp [hlt], rfl⟩, fun t i'' hm' => ?_⟩
      simp only [List.mem_cons] at hm'
      rcases hm' with hm' | hm'
      · cases hm'
      · exact (hc.ex _ t i'' hm').2
    · obtain ⟨a, b⟩ := hrows.del j' td i' hm
      refine ⟨a, fun t i'' hm' => ?_⟩
      simp only [List.mem_cons] at hm'
      rcases hm' with hm' | hm'
      · cases hm'
      · exact b t i'' hm'
  · intro j' t i' hm
    simp only [List.mem_cons] at hm
    rcases hm with hm | hm
    · cases hm
    · exact hrows.ex j' t i' hm


theorem capInv_captureAll (to now i : Nat) : ∀ (cs : List (Nat × Option Nat)) (rows : List Row) (trace : List Ev),
    CapInv to now rows trace → (∀ c, c ∈ cs → ∀ v, c.2 = some v → v + to ≤ now) →
    CapInv to now (captureAll now cs rows).1
      (((captureAll now cs rows).2.map fun j => Ev.captured j now i).reverse ++ trace) := by
  intro cs
  induction cs with
  | nil => intro rows trace h _; simpa [captureAll] using h
  | cons c cs ih =>
    intro rows trace h hs
    obtain ⟨j, seen⟩ := c
    simp only [captureAll]
    split
    · rename_i rows' hcas
      have h1 := capInv_capture (i := i) h hcas (fun v hv => hs (j, seen) (by simp) v hv)
      have h2 := ih rows' _ h1 (fun c hc => hs c (by simp [hc]))
      simpa [List.map_cons, List.reverse_cons, List.append_assoc] using h2
    · exact ih rows trace h (fun c hc => hs c (by simp [hc]))

theorem capInv_endTx {to now : Nat} {rows : List Row} {trace : List Ev} (tx : Nat) (o : Vis)
    (hc : CapInv to now rows trace) : CapInv to now (endTx tx o rows) trace := by
  apply capInv_rows hc
  · intro j r hr
    by_cases hv : r.vis = .uncommitted tx
    · exact ⟨{ r with vis := o }, by simp [endTx, List.getElem?_map, hr, hv], by simp [hv]⟩
    · exact ⟨r, by simp [endTx, List.getElem?_map, hr, hv], fun h => h⟩
  · intro j r' hr'
    simp only [endTx, List.getElem?_map] at hr'
    cases hr : rows[j]? with
    | none => simp [hr] at hr'
    | some r =>
      simp [hr] at hr'
      refine Or.inl ⟨r, rfl, ?_⟩
      subst hr'; split <;> rfl

def SelOK (cfg : Cfg) (clock : Nat) (x : Inst) : Prop :=
  ∀ cands, x.poll = .selected cands → ∀ c, c ∈ cands → ∀ v, c.2 = some v → v + cfg.timeout ≤ clock

theorem SelOK.mono {cfg : Cfg} {c c' : Nat} {x : Inst} (h : c ≤ c') (hx : SelOK cfg c x) : SelOK cfg c' x := by
  intro cands hc cd hcd v hv
  have := hx cands hc cd hcd v hv
  omega

structure Cap (cfg : Cfg) (s : State) : Prop where
  inv : CapInv cfg.timeout s.clock s.rows s.trace
  sel : ∀ x, x ∈ s.insts → SelOK cfg s.clock x

theorem cap_init (cfg : Cfg) (n : Nat) : Cap cfg (init n) := by
  refine ⟨⟨?_, ?_, ?_, ?_⟩, ?_⟩
  · intro j r h; simp [init] at h
  · simp [init, Spaced]
  · intro j td i h; simp [init] at h
  · intro j t i h; simp [init] at h
  · intro x hx
    simp [init, freshInst] at hx
    obtain ⟨_, rfl⟩ := hx
    intro cands hc; simp at hc

theorem sel_set {cfg : Cfg} {clock : Nat} {l : List Inst} {i : Nat} {x' : Inst}
    (hl : ∀ x, x ∈ l → SelOK cfg clock x) (hx' : SelOK cfg clock x') :
    ∀ x, x ∈ l.set i x' → SelOK cfg clock x := by
  intro x hx
  rcases List.mem_or_eq_of_mem_set hx with h | h
  · exact hl x h
  · exact h ▸ hx'

theorem selOK_of_poll {cfg : Cfg} {clock : Nat} {x x' : Inst} (hp : x'.poll = x.poll) (hx : SelOK cfg clock x) :
    SelOK cfg clock x' := by
  intro cands hc; exact hx cands (hp ▸ hc)

theorem selOK_not_selected {cfg : Cfg} {clock : Nat} {x : Inst} (hp : ∀ cands, x.poll ≠ .selected cands) :
    SelOK cfg clock x := by
  intro cands hc; exact absurd hc (hp cands)

theorem cap_step (cfg : Cfg) (s : State) (e : Step) (hc : Cap cfg s) : Cap cfg (step cfg s e) := by
  cases e with
  | schedule i ra key tx =>
    simp only [step, stepSchedule]
    apply onInst_cases (P := Cap cfg)
    · exact hc
    · intro inst hi ha
      refine ⟨?_, ?_⟩
      · apply capInv_rows hc.inv
        · intro j r hr
          have hlt : j < s.rows.length := (List.getElem?_eq_some_iff.mp hr).1
          exact ⟨r, by simp [List.getElem?_append_left hlt, hr], fun h => h⟩
        · intro j r' hr'
          by_cases hlt : j < s.rows.length
          · rw [List.getElem?_append_left hlt] at hr'
            exact Or.inl ⟨r', hr', rfl⟩
          · have hge : s.rows.length ≤ j := Nat.le_of_not_lt hlt
            rw [List.getElem?_append_right hge] at hr'
            by_cases h0 : j - s.rows.length = 0
            · simp [h0] at hr'; subst hr'
              exact Or.inr ⟨List.getElem?_eq_none hge, rfl⟩
            · have : ([({ executeAt := s.clock + ra, capturedAt := none, key := key, vis := .uncommitted tx } : Row)])[j - s.rows.length]? = none := by
                apply List.getElem?_eq_none; simp; omega
              simp [this] at hr'
      · exact sel_set hc.sel (selOK_of_poll rfl (hc.sel inst (List.mem_of_getElem? hi)))
  | scheduleBad i => exact hc
  | commit tx => exact ⟨capInv_endTx tx _ hc.inv, hc.sel⟩
  | rollback tx => exact ⟨capInv_endTx tx _ hc.inv, hc.sel⟩
  | tick n =>
    exact ⟨capInv_tick (Nat.le_add_right _ _) hc.inv, fun x hx => (hc.sel x hx).mono (Nat.le_add_right _ _)⟩
  | pop i =>
    simp only [step, stepPop]
    apply onInst_cases (P := Cap cfg)
    · exact hc
    · intro inst hi ha
      split
      · split
        · exact ⟨hc.inv, sel_set hc.sel (selOK_of_poll rfl (hc.sel inst (List.mem_of_getElem? hi)))⟩
        · exact hc
      · exact hc
  | task i j =>
    simp only [step, stepTask]
    apply onInst_cases (P := Cap cfg)
    · exact hc
    · intro inst hi ha
      have hsel := hc.sel inst (List.mem_of_getElem? hi)
      split
      · split
        · split
          · rename_i rows' hcas
            exact ⟨capInv_capture hc.inv hcas (by intro v hv; cases hv), sel_set hc.sel (selOK_of_poll rfl hsel)⟩
          · exact ⟨hc.inv, sel_set hc.sel (selOK_of_poll rfl hsel)⟩
        · split
          · exact ⟨hc.inv, sel_set hc.sel (selOK_of_poll rfl hsel)⟩
          · exact ⟨capInv_invoked _ _ _ hc.inv, sel_set hc.sel (selOK_of_poll rfl hsel)⟩
        · split
          · rename_i rows' hdel
            exact ⟨capInv_delete hc.inv hdel, sel_set hc.sel (selOK_of_poll rfl hsel)⟩
          · exact ⟨hc.inv, sel_set hc.sel (selOK_of_poll rfl hsel)⟩
      · exact hc
  | pollSelect i =>
    simp only [step, stepPollSelect]
    apply onInst_cases (P := Cap cfg)
    · exact hc
    · intro inst hi ha
      split
      · refine ⟨hc.inv, sel_set hc.sel ?_⟩
        intro cands hcs c hcm v hv
        simp at hcs; subst hcs
        obtain ⟨r, hr, he, hcap⟩ := mem_selectCands hcm
        exact (eligible_spec he).2.2 v (hcap ▸ hv)
      · exact hc
  | pollCapture i =>
    simp only [step, stepPollCapture]
    apply onInst_cases (P := Cap cfg)
    · exact hc
    · intro inst hi ha
      have hsel := hc.sel inst (List.mem_of_getElem? hi)
      split
      · rename_i cands hpoll
        refine ⟨capInv_captureAll _ _ _ _ _ _ hc.inv (hsel cands hpoll), sel_set hc.sel (selOK_not_selected ?_)⟩
        intro cs; simp only; split <;> simp
      · exact hc
  | pollNext i =>
    simp only [step, stepPollNext]
    apply onInst_cases (P := Cap cfg)
    · exact hc
    · intro inst hi ha
      split
      · split
        · exact ⟨hc.inv, sel_set hc.sel (selOK_not_selected (by intro cs; simp))⟩
        · exact ⟨capInv_invoked _ _ _ hc.inv, sel_set hc.sel (selOK_not_selected (by intro cs; simp))⟩
      · split
        · rename_i rows' hdel
          refine ⟨capInv_delete hc.inv hdel, sel_set hc.sel (selOK_not_selected ?_)⟩
          intro cs; simp only; split <;> simp
        · exact ⟨hc.inv, sel_set hc.sel (selOK_not_selected (by intro cs; simp))⟩
      · exact hc
  | crash i =>
    simp only [step, stepCrash]
    split
    · exact ⟨hc.inv, sel_set hc.sel (selOK_not_selected (by intro cs; simp))⟩
    · exact hc

theorem cap_reachable (cfg : Cfg) (n : Nat) (steps : List Step) : Cap cfg (run cfg (init n) steps) :=
  run_inv cfg (fun s e h => cap_step cfg s e h) steps _ (cap_init cfg n)

end Mistral.Sched
