/-
Helper lemmas for C18 (expiration policy).  Core Lean only.
-/
import Mistral.Model.Expire

namespace Mistral.Expire

/-- primary keys are unique (ids are unique across the three tables in the model) -/
def UniqueIds (pop : Pop) : Prop := (pop.map (·.id)).Nodup

instance (pop : Pop) : Decidable (UniqueIds pop) :=
  inferInstanceAs (Decidable (List.Nodup _))

/-- `Desc P r x`: row id `x` lies in the subtree of row id `r` along the foreign keys of `P`. -/
inductive Desc (P : Pop) (r : Nat) : Nat → Prop
  | self : Desc P r r
  | child {n : Node} {p : Nat} : n ∈ P → n.parent = some p → Desc P r p → Desc P r n.id

/-! ### generic list facts -/

theorem countP_lt_of_witness {α : Type} (p q : α → Bool) :
    ∀ (l : List α), (∀ x ∈ l, q x = true → p x = true) →
      (∃ w ∈ l, p w = true ∧ q w = false) → l.countP q < l.countP p
  | [], _, ⟨w, hw, _⟩ => by simp at hw
  | a :: l, himp, ⟨w, hw, hpw, hqw⟩ => by
    have hle : l.countP q ≤ l.countP p :=
      List.countP_mono_left (fun x hx => himp x (List.mem_cons_of_mem _ hx))
    have ha := himp a (List.mem_cons_self ..)
    rcases List.mem_cons.mp hw with rfl | hw'
    · simp only [List.countP_cons, hpw, hqw]
      simp; omega
    · have ih := countP_lt_of_witness p q l
        (fun x hx => himp x (List.mem_cons_of_mem _ hx)) ⟨w, hw', hpw, hqw⟩
      simp only [List.countP_cons]
      cases hqa : q a <;> cases hpa : p a <;> simp_all <;> omega

theorem unique_of_id {P : Pop} (h : UniqueIds P) {a b : Node} (ha : a ∈ P) (hb : b ∈ P)
    (hid : a.id = b.id) : a = b := by
  unfold UniqueIds at h
  induction P with
  | nil => simp at ha
  | cons c P ih =>
    simp only [List.map_cons, List.nodup_cons, List.mem_map, not_exists, not_and] at h
    rcases List.mem_cons.mp ha with rfl | ha' <;> rcases List.mem_cons.mp hb with rfl | hb'
    · rfl
    · exact absurd hid.symm (h.1 b hb')
    · exact absurd hid (h.1 a ha')
    · exact ih h.2 ha' hb'

theorem UniqueIds.sublist {P Q : Pop} (hs : Q.Sublist P) (h : UniqueIds P) : UniqueIds Q :=
  List.Nodup.sublist (hs.map _) h

theorem UniqueIds.nodup {P : Pop} (h : UniqueIds P) : P.Nodup := by
  unfold UniqueIds at h
  induction P with
  | nil => simp
  | cons c P ih =>
    simp only [List.map_cons, List.nodup_cons, List.mem_map, not_exists, not_and] at h
    refine List.nodup_cons.mpr ⟨fun hc => h.1 c hc rfl, ih h.2⟩

theorem mem_limit {α : Type} {b : Nat} {l : List α} {x : α} (h : x ∈ limit b l) : x ∈ l := by
  unfold limit at h
  split at h
  · exact h
  · exact List.mem_of_mem_take h

theorem limit_eq_nil {α : Type} {b : Nat} {l : List α} (h : limit b l = []) : l = [] := by
  unfold limit at h
  split at h
  · exact h
  · rename_i hb
    cases l with
    | nil => rfl
    | cons a t =>
      cases b with
      | zero => simp at hb
      | succ b => simp at h

/-! ### the foreign-key cascade -/

theorem mem_children {P : Pop} {D : List Nat} {n : Node} :
    n ∈ children P D ↔ n ∈ P ∧ n.id ∉ D ∧ ∃ p, n.parent = some p ∧ p ∈ D := by
  unfold children
  cases hp : n.parent <;> simp [List.mem_filter, hp]

theorem cascade_mono (P : Pop) : ∀ (f : Nat) (D : List Nat), ∀ x ∈ D, x ∈ cascade P f D
  | 0, D, x, hx => by simpa [cascade] using hx
  | f + 1, D, x, hx => by
    unfold cascade
    split
    · exact hx
    · exact cascade_mono P f _ x (List.mem_append_left _ hx)

theorem cascade_sound (P : Pop) (r : Nat) :
    ∀ (f : Nat) (D : List Nat), (∀ x ∈ D, Desc P r x) → ∀ x ∈ cascade P f D, Desc P r x
  | 0, D, h, x, hx => by
    simp only [cascade] at hx; exact h x hx
  | f + 1, D, h, x, hx => by
    unfold cascade at hx
    split at hx
    · exact h x hx
    · rename_i c cs heq
      refine cascade_sound P r f _ ?_ x hx
      intro y hy
      rcases List.mem_append.mp hy with hy | hy
      · exact h y hy
      · obtain ⟨n, hn, rfl⟩ := List.mem_map.mp hy
        rw [← heq] at hn
        obtain ⟨hnP, _, p, hp, hpD⟩ := mem_children.mp hn
        exact Desc.child hnP hp (h p hpD)

theorem cascade_closed (P : Pop) :
    ∀ (f : Nat) (D : List Nat), P.countP (fun n => !D.contains n.id) ≤ f →
      children P (cascade P f D) = []
  | 0, D, h => by
    have h0 : P.countP (fun n => !D.contains n.id) = 0 := by omega
    rw [List.countP_eq_zero] at h0
    simp only [cascade]
    unfold children
    rw [List.filter_eq_nil_iff]
    intro a ha
    have := h0 a ha
    simp at this
    simp [this]
  | f + 1, D, h => by
    unfold cascade
    split
    · assumption
    · rename_i c cs heq
      apply cascade_closed P f
      have hc : c ∈ children P D := by rw [heq]; exact List.mem_cons_self ..
      obtain ⟨hcP, hcD, _⟩ := mem_children.mp hc
      have hlt := countP_lt_of_witness (fun n : Node => !D.contains n.id)
        (fun n : Node => !(D ++ List.map (fun x => x.id) (c :: cs)).contains n.id) P
        (by
          intro x _ hx
          simp only [Bool.not_eq_true', List.contains_eq_mem, decide_eq_false_iff_not,
            List.mem_append, not_or] at hx ⊢
          exact hx.1)
        ⟨c, hcP, by simpa using hcD, by simp⟩
      omega

theorem mem_deleteExec {P : Pop} {r : Nat} {n : Node} :
    n ∈ deleteExec P r ↔ n ∈ P ∧ n.id ∉ cascade P P.length [r] := by
  simp [deleteExec, List.mem_filter]

theorem deleteExec_sublist (P : Pop) (r : Nat) : (deleteExec P r).Sublist P :=
  List.filter_sublist

/-- the selected row itself goes -/
theorem deleteExec_removes {P : Pop} {r : Nat} {n : Node} (h : n ∈ deleteExec P r) : n.id ≠ r := by
  intro hid
  have := (mem_deleteExec.mp h).2
  exact this (hid ▸ cascade_mono P P.length [r] r (by simp))

/-- what goes is in the subtree of the selected row -/
theorem deleteExec_desc {P : Pop} {r : Nat} {n : Node} (hn : n ∈ P) (h : n ∉ deleteExec P r) :
    Desc P r n.id := by
  have : n.id ∈ cascade P P.length [r] := by
    apply Classical.byContradiction
    intro hc
    exact h (mem_deleteExec.mpr ⟨hn, hc⟩)
  refine cascade_sound P r P.length [r] ?_ _ this
  intro x hx
  simp at hx
  subst hx
  exact Desc.self

/-- what stays keeps its parent (ON DELETE CASCADE leaves no orphan) -/
theorem deleteExec_closed {P : Pop} {r : Nat} {n pn : Node} (hn : n ∈ deleteExec P r)
    (hpn : pn ∈ P) (hp : n.parent = some pn.id) : pn ∈ deleteExec P r := by
  obtain ⟨hnP, hnD⟩ := mem_deleteExec.mp hn
  refine mem_deleteExec.mpr ⟨hpn, ?_⟩
  intro hpD
  have hcl := cascade_closed P P.length [r] (List.countP_le_length)
  have : n ∈ children P (cascade P P.length [r]) := mem_children.mpr ⟨hnP, hnD, pn.id, hp, hpD⟩
  rw [hcl] at this
  simp at this

/-! ### subtrees -/

theorem Desc.mono {P Q : Pop} {r x : Nat} (hsub : ∀ n, n ∈ P → n ∈ Q) (h : Desc P r x) :
    Desc Q r x := by
  induction h with
  | self => exact Desc.self
  | child hn hp _ ih => exact Desc.child (hsub _ hn) hp ih

/-- a row without a parent is in nobody's subtree but its own -/
theorem Desc.root_eq {P : Pop} (hu : UniqueIds P) {r x : Nat} (h : Desc P r x) :
    ∀ n ∈ P, n.id = x → n.parent = none → x = r := by
  induction h with
  | self => intros; rfl
  | child hn' hp _ _ =>
    intro n hn hid hnone
    have := unique_of_id hu hn hn' hid
    subst this
    rw [hnone] at hp
    cases hp

/-! ### one batch (`_delete(executions)` in one transaction) -/

structure BatchFacts (P : Pop) (ids : List Nat) (P' : Pop) : Prop where
  sub : P'.Sublist P
  /-- every selected row is gone -/
  gone : ∀ r ∈ ids, ∀ n ∈ P', n.id ≠ r
  /-- whatever is gone lies in the subtree of a selected row -/
  desc : ∀ n ∈ P, n ∉ P' → ∃ r ∈ ids, Desc P r n.id
  /-- whatever stays keeps its parent -/
  closed : ∀ n ∈ P', ∀ pn ∈ P, n.parent = some pn.id → pn ∈ P'

theorem deleteBatch_facts (env : Env) :
    ∀ (ids : List Nat) (P P' : Pop), deleteBatch env P ids = .ok P' → BatchFacts P ids P'
  | [], P, P', h => by
    simp only [deleteBatch, Except.ok.injEq] at h
    subst h
    exact ⟨List.Sublist.refl _, by simp, fun n hn hn' => absurd hn hn', fun n _ pn hpn _ => hpn⟩
  | r :: rs, P, P', h => by
    unfold deleteBatch at h
    split at h
    · cases h
    · have ih := deleteBatch_facts env rs (deleteExec P r) P' h
      have hs1 := deleteExec_sublist P r
      refine ⟨ih.sub.trans hs1, ?_, ?_, ?_⟩
      · intro r' hr' n hn
        rcases List.mem_cons.mp hr' with rfl | hr'
        · exact deleteExec_removes (ih.sub.subset hn)
        · exact ih.gone r' hr' n hn
      · intro n hn hn'
        by_cases h1 : n ∈ deleteExec P r
        · obtain ⟨r', hr', hd⟩ := ih.desc n h1 hn'
          exact ⟨r', List.mem_cons_of_mem _ hr', hd.mono (fun x hx => hs1.subset hx)⟩
        · exact ⟨r, List.mem_cons_self .., deleteExec_desc hn h1⟩
      · intro n hn pn hpn hp
        have h1 : n ∈ deleteExec P r := ih.sub.subset hn
        exact ih.closed n hn pn (deleteExec_closed h1 hpn hp) hp

/-- a row without a parent that was not selected survives the batch -/
theorem BatchFacts.root_survives {P P' : Pop} {ids : List Nat} (bf : BatchFacts P ids P')
    (hu : UniqueIds P) {n : Node} (hn : n ∈ P) (hroot : n.parent = none) (hid : n.id ∉ ids) :
    n ∈ P' := by
  apply Classical.byContradiction
  intro hn'
  obtain ⟨r, hr, hd⟩ := bf.desc n hn hn'
  have := hd.root_eq hu n hn rfl hroot
  exact hid (this ▸ hr)

/-! ### the `while True` loop -/

theorem loop_inv (fetch : Pop → List Nat) (env : Env) (I : Pop → Prop)
    (step : ∀ P P', I P → fetch P ≠ [] → deleteBatch env P (fetch P) = .ok P' → I P') :
    ∀ (f : Nat) (P : Pop), I P → I (loop fetch env f P).pop
  | 0, P, h => by simpa [loop, Outcome.pop] using h
  | f + 1, P, h => by
    unfold loop
    split
    · simpa [Outcome.pop] using h
    · rename_i r rs heq
      split
      · simpa [Outcome.pop] using h
      · rename_i P' hb
        refine loop_inv fetch env I step f P' (step P P' h (by rw [heq]; simp) (by rw [heq]; exact hb))

theorem loop_ok_exit (fetch : Pop → List Nat) (env : Env) :
    ∀ (f : Nat) (P P' : Pop), loop fetch env f P = .ok P' → fetch P' = []
  | 0, P, P', h => by simp [loop] at h
  | f + 1, P, P', h => by
    unfold loop at h
    split at h
    · rename_i heq
      cases h
      exact heq
    · split at h
      · cases h
      · exact loop_ok_exit fetch env f _ P' h

/-- a fetch that never returns anything leaves the population alone -/
theorem loop_fetch_nil (fetch : Pop → List Nat) (env : Env) (hf : ∀ P, fetch P = []) :
    ∀ (f : Nat) (P : Pop), f ≠ 0 → loop fetch env f P = .ok P
  | 0, P, h => absurd rfl h
  | f + 1, P, _ => by
    unfold loop
    rw [hf P]

/-! ### ORDER BY updated_at DESC -/

theorem insertDesc_perm (x : Node) : ∀ l : List Node, (insertDesc x l).Perm (x :: l)
  | [] => by simp [insertDesc]
  | y :: ys => by
    unfold insertDesc
    split
    · exact List.Perm.refl _
    · exact ((insertDesc_perm x ys).cons y).trans (List.Perm.swap x y ys)

theorem sortDesc_perm : ∀ l : List Node, (sortDesc l).Perm l
  | [] => by simp [sortDesc]
  | x :: l => by
    have : sortDesc (x :: l) = insertDesc x (sortDesc l) := rfl
    rw [this]
    exact (insertDesc_perm x _).trans ((sortDesc_perm l).cons x)

def Newer (a b : Node) : Prop := b.updatedAt ≤ a.updatedAt

theorem insertDesc_sorted (x : Node) :
    ∀ l : List Node, l.Pairwise Newer → (insertDesc x l).Pairwise Newer
  | [], _ => by simp [insertDesc]
  | y :: ys, h => by
    unfold insertDesc
    have hy := List.pairwise_cons.mp h
    split
    · rename_i hle
      refine List.pairwise_cons.mpr ⟨?_, h⟩
      intro z hz
      rcases List.mem_cons.mp hz with rfl | hz
      · exact hle
      · have := hy.1 z hz
        unfold Newer at this ⊢
        omega
    · rename_i hlt
      refine List.pairwise_cons.mpr ⟨?_, insertDesc_sorted x ys hy.2⟩
      intro z hz
      have hz' := (insertDesc_perm x ys).mem_iff.mp hz
      rcases List.mem_cons.mp hz' with rfl | hz'
      · unfold Newer; omega
      · exact hy.1 z hz'

theorem sortDesc_sorted : ∀ l : List Node, (sortDesc l).Pairwise Newer
  | [] => by simp [sortDesc]
  | x :: l => by
    have : sortDesc (x :: l) = insertDesc x (sortDesc l) := rfl
    rw [this]
    exact insertDesc_sorted x _ (sortDesc_sorted l)

/-! ### the two selection queries -/

theorem eligible_root {cfg : Config} {n : Node} (h : eligible cfg n = true) : n.parent = none := by
  unfold eligible isRoot at h
  simp only [Bool.and_eq_true] at h
  cases hp : n.parent with
  | none => rfl
  | some p => rw [hp] at h; simp at h

theorem mem_expiredIds {cfg : Config} {exp : Int} {P : Pop} {r : Nat}
    (h : r ∈ expiredIds cfg exp P) :
    ∃ rn ∈ P, rn.id = r ∧ eligible cfg rn = true ∧ rn.updatedAt < exp := by
  unfold expiredIds expiredRows at h
  obtain ⟨rn, hrn, rfl⟩ := List.mem_map.mp h
  have := mem_limit hrn
  simp only [List.mem_filter, Bool.and_eq_true, decide_eq_true_eq] at this
  exact ⟨rn, this.1, rfl, this.2.1, this.2.2⟩

theorem expiredIds_nil {cfg : Config} {exp : Int} {P : Pop} (h : expiredIds cfg exp P = [])
    {k : Node} (hk : k ∈ P) (he : eligible cfg k = true) : exp ≤ k.updatedAt := by
  unfold expiredIds expiredRows at h
  have h1 := limit_eq_nil (List.map_eq_nil_iff.mp h)
  rw [List.filter_eq_nil_iff] at h1
  have := h1 k hk
  simp only [he, Bool.true_and, decide_eq_true_eq] at this
  omega

/-- "at least as new as `d`, and eligible" -/
def atLeastAsNew (cfg : Config) (d : Node) (k : Node) : Bool :=
  eligible cfg k && decide (d.updatedAt ≤ k.updatedAt)

theorem countP_atLeastAsNew_sorted (cfg : Config) (d : Node) (P : Pop) :
    P.countP (atLeastAsNew cfg d) = (sortDesc (P.filter (eligible cfg))).countP (atLeastAsNew cfg d) := by
  rw [(sortDesc_perm _).countP_eq, List.countP_filter]
  congr 1
  funext a
  unfold atLeastAsNew
  cases eligible cfg a <;> simp

/-- the shape of a non-empty `superfluous` fetch -/
structure SuperfluousView (cfg : Config) (P : Pop) (m : Nat) : Prop where
  hm : cfg.maxFinished = some m
  pos : 0 < m
  len : ((sortDesc (P.filter (eligible cfg))).take m).length = m
  ids : ∀ r ∈ superfluousIds cfg P,
    ∃ rn ∈ (sortDesc (P.filter (eligible cfg))).drop m, rn.id = r

theorem superfluous_view {cfg : Config} {P : Pop} (h : superfluousIds cfg P ≠ []) :
    ∃ m, SuperfluousView cfg P m := by
  unfold superfluousIds superfluousRows at h
  split at h
  · simp at h
  · simp at h
  · rename_i m hm0 hm
    have hm0' : m ≠ 0 := fun h0 => by subst h0; exact hm0 rfl
    refine ⟨m, hm, by omega, ?_, ?_⟩
    · have hne : (sortDesc (P.filter (eligible cfg))).drop m ≠ [] := by
        intro hnil
        rw [hnil] at h
        simp [limit] at h
      have : m < (sortDesc (P.filter (eligible cfg))).length := by
        apply Classical.byContradiction
        intro hc
        exact hne (List.drop_eq_nil_iff.mpr (by omega))
      rw [List.length_take]; omega
    · intro r hr
      unfold superfluousIds superfluousRows at hr
      rw [hm] at hr
      cases m with
      | zero => exact absurd rfl hm0'
      | succ m' =>
        simp only at hr
        obtain ⟨rn, hrn, rfl⟩ := List.mem_map.mp hr
        exact ⟨rn, mem_limit hrn, rfl⟩

theorem superfluousIds_nil_of_unset {cfg : Config} (h : cfg.maxFinished = none ∨ cfg.maxFinished = some 0)
    (P : Pop) : superfluousIds cfg P = [] := by
  unfold superfluousIds superfluousRows
  rcases h with h | h <;> rw [h] <;> rfl

theorem superfluousIds_nil {cfg : Config} {P : Pop} {m : Nat} (hm : cfg.maxFinished = some m)
    (hpos : 0 < m) (h : superfluousIds cfg P = []) : P.countP (eligible cfg) ≤ m := by
  unfold superfluousIds superfluousRows at h
  rw [hm] at h
  cases m with
  | zero => omega
  | succ m' =>
    simp only at h
    have h1 := limit_eq_nil (List.map_eq_nil_iff.mp h)
    have h2 := List.drop_eq_nil_iff.mp h1
    rw [(sortDesc_perm _).length_eq, ← List.countP_eq_length_filter] at h2
    exact h2

/-- facts about the sorted list cut at `m` -/
theorem sorted_cut (cfg : Config) (P : Pop) (m : Nat) :
    let S := sortDesc (P.filter (eligible cfg))
    (∀ t ∈ S.take m, ∀ x ∈ S.drop m, x.updatedAt ≤ t.updatedAt) ∧
    (∀ t ∈ S, t ∈ P ∧ eligible cfg t = true) := by
  intro S
  constructor
  · have hs : (S.take m ++ S.drop m).Pairwise Newer := by
      rw [List.take_append_drop]; exact sortDesc_sorted _
    exact (List.pairwise_append.mp hs).2.2
  · intro t ht
    have := (sortDesc_perm _).mem_iff.mp ht
    simpa [List.mem_filter] using this

/-- a selected superfluous row has at least `m` *other* eligible rows at least as new -/
theorem superfluous_count {cfg : Config} {P : Pop} {m : Nat} (v : SuperfluousView cfg P m)
    {rn : Node} (hrn : rn ∈ (sortDesc (P.filter (eligible cfg))).drop m) :
    m + 1 ≤ P.countP (atLeastAsNew cfg rn) := by
  rw [countP_atLeastAsNew_sorted]
  obtain ⟨hcut, hmem⟩ := sorted_cut cfg P m
  have hsplit : (sortDesc (P.filter (eligible cfg))).countP (atLeastAsNew cfg rn) =
      ((sortDesc (P.filter (eligible cfg))).take m).countP (atLeastAsNew cfg rn) +
      ((sortDesc (P.filter (eligible cfg))).drop m).countP (atLeastAsNew cfg rn) := by
    rw [← List.countP_append, List.take_append_drop]
  rw [hsplit]
  have h1 : ((sortDesc (P.filter (eligible cfg))).take m).countP (atLeastAsNew cfg rn) = m := by
    have : ((sortDesc (P.filter (eligible cfg))).take m).countP (atLeastAsNew cfg rn) =
        ((sortDesc (P.filter (eligible cfg))).take m).length := by
      rw [List.countP_eq_length]
      intro t ht
      have he := (hmem t (List.mem_of_mem_take ht)).2
      have := hcut t ht rn hrn
      simp [atLeastAsNew, he, this]
    rw [this, v.len]
  have h2 : 0 < ((sortDesc (P.filter (eligible cfg))).drop m).countP (atLeastAsNew cfg rn) := by
    rw [List.countP_pos_iff]
    refine ⟨rn, hrn, ?_⟩
    have he := (hmem rn (List.mem_of_mem_drop hrn)).2
    simp [atLeastAsNew, he]
  omega

/-! ### the invariant of an evaluation -/

/-- The selection criterion of the property statement, relative to the population `pop0` the
    evaluation started from: a finished, non-ignored root execution that is older than the
    configured age, or that has at least `max_finished` *other* eligible roots at least as new
    (i.e. it is beyond the newest `max_finished` under some resolution of ties). -/
def Selected (cfg : Config) (now : Int) (pop0 : Pop) (n : Node) : Prop :=
  eligible cfg n = true ∧
  ((∃ ot, cfg.olderThan = some ot ∧ n.updatedAt < now - ot * 60) ∨
   (∃ m, cfg.maxFinished = some m ∧ 0 < m ∧ m + 1 ≤ pop0.countP (atLeastAsNew cfg n)))

structure Inv (Sel : Node → Prop) (pop0 P : Pop) : Prop where
  sub : P.Sublist pop0
  /-- every removed row lies in the subtree of a removed, selected row -/
  del : ∀ n ∈ pop0, n ∉ P → ∃ rn ∈ pop0, rn ∉ P ∧ Sel rn ∧ Desc pop0 rn.id n.id
  /-- every remaining row still has its parent -/
  closed : ∀ n ∈ P, ∀ pn ∈ pop0, n.parent = some pn.id → pn ∈ P

theorem Inv.init (Sel : Node → Prop) (pop0 : Pop) : Inv Sel pop0 pop0 :=
  ⟨List.Sublist.refl _, fun _ hn hn' => absurd hn hn', fun _ _ _ hpn _ => hpn⟩

theorem Inv.step {Sel : Node → Prop} {pop0 P P' : Pop} {ids : List Nat}
    (inv : Inv Sel pop0 P) (bf : BatchFacts P ids P')
    (hsel : ∀ r ∈ ids, ∃ rn ∈ P, rn.id = r ∧ Sel rn) : Inv Sel pop0 P' := by
  refine ⟨bf.sub.trans inv.sub, ?_, ?_⟩
  · intro n hn hn'
    by_cases hnP : n ∈ P
    · obtain ⟨r, hr, hd⟩ := bf.desc n hnP hn'
      obtain ⟨rn, hrn, hrid, hs⟩ := hsel r hr
      refine ⟨rn, inv.sub.subset hrn, fun h' => bf.gone r hr rn h' hrid, hs, ?_⟩
      rw [hrid]
      exact hd.mono (fun x hx => inv.sub.subset hx)
    · obtain ⟨rn, hrn, hrnP, hs, hd⟩ := inv.del n hn hnP
      exact ⟨rn, hrn, fun h' => hrnP (bf.sub.subset h'), hs, hd⟩
  · intro n hn pn hpn hp
    exact bf.closed n hn pn (inv.closed n (bf.sub.subset hn) pn hpn hp) hp

theorem loop_expired_inv {cfg : Config} {now ot : Int} {pop0 : Pop} (env : Env)
    (hot : cfg.olderThan = some ot) (f : Nat) (P : Pop)
    (inv : Inv (Selected cfg now pop0) pop0 P) :
    Inv (Selected cfg now pop0) pop0 (loop (expiredIds cfg (now - ot * 60)) env f P).pop := by
  refine loop_inv _ env (Inv (Selected cfg now pop0) pop0) ?_ f P inv
  intro Q Q' hQ _ hb
  refine hQ.step (deleteBatch_facts env _ Q Q' hb) ?_
  intro r hr
  obtain ⟨rn, hrn, hrid, he, hlt⟩ := mem_expiredIds hr
  exact ⟨rn, hrn, hrid, he, Or.inl ⟨ot, hot, hlt⟩⟩

theorem loop_superfluous_inv {cfg : Config} {now : Int} {pop0 : Pop} (env : Env)
    (f : Nat) (P : Pop) (inv : Inv (Selected cfg now pop0) pop0 P) :
    Inv (Selected cfg now pop0) pop0 (loop (superfluousIds cfg) env f P).pop := by
  refine loop_inv _ env (Inv (Selected cfg now pop0) pop0) ?_ f P inv
  intro Q Q' hQ hne hb
  refine hQ.step (deleteBatch_facts env _ Q Q' hb) ?_
  intro r hr
  obtain ⟨m, v⟩ := superfluous_view hne
  obtain ⟨rn, hrn, hrid⟩ := v.ids r hr
  have hmem := (sorted_cut cfg Q m).2 rn (List.mem_of_mem_drop hrn)
  refine ⟨rn, hmem.1, hrid, hmem.2, Or.inr ⟨m, v.hm, v.pos, ?_⟩⟩
  exact Nat.le_trans (superfluous_count v hrn) (hQ.sub.countP_le)

theorem evaluate_inv (cfg : Config) (env : Env) (now : Int) (fuel : Nat) (pop0 : Pop) :
    Inv (Selected cfg now pop0) pop0 (evaluate cfg env now fuel pop0).pop := by
  unfold evaluate
  split
  · exact loop_superfluous_inv env fuel pop0 (Inv.init _ _)
  · rename_i ot hot
    have h1 := loop_expired_inv (now := now) (pop0 := pop0) env hot fuel pop0 (Inv.init _ _)
    split
    · rename_i p1 heq
      rw [heq] at h1
      exact loop_superfluous_inv env fuel p1 h1
    · exact h1

/-! ### "no newer one deleted while an older eligible one is kept" -/

/-- during the `superfluous` loop started from `P1`: every eligible row already removed still has
    at least `m` eligible rows at least as new in the current population -/
def JInv (cfg : Config) (m : Nat) (P1 P : Pop) : Prop :=
  UniqueIds P ∧ P.Sublist P1 ∧
  ∀ d ∈ P1, eligible cfg d = true → d ∉ P → m ≤ P.countP (atLeastAsNew cfg d)

theorem J_step {cfg : Config} {m : Nat} {P1 P P' : Pop} (hj : JInv cfg m P1 P)
    (v : SuperfluousView cfg P m) (bf : BatchFacts P (superfluousIds cfg P) P') :
    JInv cfg m P1 P' := by
  obtain ⟨hu, hsub, hJ⟩ := hj
  refine ⟨hu.sublist bf.sub, bf.sub.trans hsub, ?_⟩
  intro d hd1 hde hdP'
  obtain ⟨hcut, hmem⟩ := sorted_cut cfg P m
  obtain ⟨S, hS⟩ : ∃ S, S = sortDesc (P.filter (eligible cfg)) := ⟨_, rfl⟩
  have vlen := v.len
  have vids := v.ids
  rw [← hS] at hcut hmem vlen vids
  have hSu : UniqueIds S := by
    rw [hS]
    exact (List.Perm.map _ (sortDesc_perm _)).nodup_iff.mpr (hu.sublist List.filter_sublist)
  have hdisj : ∀ t ∈ S.take m, ∀ x ∈ S.drop m, t.id ≠ x.id := by
    have h := hSu
    unfold UniqueIds at h
    rw [← List.take_append_drop m S, List.map_append, List.nodup_append] at h
    intro t ht x hx
    exact h.2.2 t.id (List.mem_map_of_mem ht) x.id (List.mem_map_of_mem hx)
  have hTsurv : ∀ t ∈ S.take m, t ∈ P' := by
    intro t ht
    have hm' := hmem t (List.mem_of_mem_take ht)
    refine bf.root_survives hu hm'.1 (eligible_root hm'.2) ?_
    intro hid
    obtain ⟨rn, hrn, hrid⟩ := vids _ hid
    exact hdisj t ht rn hrn hrid.symm
  have hTn : (S.take m).Nodup := List.Nodup.sublist (List.take_sublist m S) hSu.nodup
  have hTd : ∀ t ∈ S.take m, d.updatedAt ≤ t.updatedAt := by
    by_cases hdP : d ∈ P
    · have hdid : d.id ∈ superfluousIds cfg P := by
        apply Classical.byContradiction
        intro hc
        exact hdP' (bf.root_survives hu hdP (eligible_root hde) hc)
      obtain ⟨rn, hrn, hrid⟩ := vids _ hdid
      have : rn = d := unique_of_id hu (hmem rn (List.mem_of_mem_drop hrn)).1 hdP hrid
      subst this
      intro t ht
      exact hcut t ht rn hrn
    · have hc := hJ d hd1 hde hdP
      intro t0 ht0
      apply Classical.byContradiction
      intro hlt
      rw [countP_atLeastAsNew_sorted, ← hS] at hc
      have hsplit : S.countP (atLeastAsNew cfg d) =
          (S.take m).countP (atLeastAsNew cfg d) + (S.drop m).countP (atLeastAsNew cfg d) := by
        rw [← List.countP_append, List.take_append_drop]
      have hR0 : (S.drop m).countP (atLeastAsNew cfg d) = 0 := by
        rw [List.countP_eq_zero]
        intro x hx
        have := hcut t0 ht0 x hx
        simp only [atLeastAsNew, Bool.and_eq_true, decide_eq_true_eq, not_and]
        intro _
        omega
      have hTlt : (S.take m).countP (atLeastAsNew cfg d) < (S.take m).length := by
        have hle := List.countP_le_length (p := atLeastAsNew cfg d) (l := S.take m)
        have hne : (S.take m).countP (atLeastAsNew cfg d) ≠ (S.take m).length := by
          intro heq
          rw [List.countP_eq_length] at heq
          have := heq t0 ht0
          simp only [atLeastAsNew, Bool.and_eq_true, decide_eq_true_eq] at this
          exact hlt this.2
        omega
      rw [vlen] at hTlt
      omega
  have hlen : (S.take m).length ≤ (P'.filter (atLeastAsNew cfg d)).length := by
    refine hTn.length_le_of_subset ?_
    intro t ht
    refine List.mem_filter.mpr ⟨hTsurv t ht, ?_⟩
    have he := (hmem t (List.mem_of_mem_take ht)).2
    have := hTd t ht
    simp [atLeastAsNew, he, this]
  rw [List.countP_eq_length_filter]
  rw [vlen] at hlen
  exact hlen

theorem loop_superfluous_J {cfg : Config} {m : Nat} (env : Env) (hm : cfg.maxFinished = some m)
    (P1 : Pop) (f : Nat) (P : Pop) (hj : JInv cfg m P1 P) :
    JInv cfg m P1 (loop (superfluousIds cfg) env f P).pop := by
  refine loop_inv _ env (JInv cfg m P1) ?_ f P hj
  intro Q Q' hQ hne hb
  obtain ⟨m', v⟩ := superfluous_view hne
  have : m' = m := by
    have := v.hm
    rw [hm] at this
    exact (Option.some.inj this).symm
  subst this
  exact J_step hQ v (deleteBatch_facts env _ Q Q' hb)

/-- the `superfluous` loop alone: after a normal end no removed root is newer than a kept
    eligible one -/
theorem superfluous_keeps_newest {cfg : Config} {env : Env} {fuel : Nat} {p1 after : Pop}
    (hu1 : UniqueIds p1) (hok : loop (superfluousIds cfg) env fuel p1 = .ok after)
    {d : Node} (hd1 : d ∈ p1) (hdroot : d.parent = none) (hdgone : d ∉ after)
    {k : Node} (hk : k ∈ after) (hke : eligible cfg k = true) :
    d.updatedAt ≤ k.updatedAt := by
  have hexit2 := loop_ok_exit _ env fuel p1 after hok
  have inv2 := loop_superfluous_inv (cfg := cfg) (now := 0) (pop0 := p1) env fuel p1 (Inv.init _ _)
  rw [hok] at inv2
  simp only [Outcome.pop] at inv2
  obtain ⟨r, hr, _, hsel, hdesc⟩ := inv2.del d hd1 hdgone
  have hid := hdesc.root_eq hu1 d hd1 rfl hdroot
  have := unique_of_id hu1 hd1 hr hid
  subst this
  have hde := hsel.1
  have hf : fuel ≠ 0 := by intro h0; subst h0; simp [loop] at hok
  cases hmf : cfg.maxFinished with
  | none =>
    rw [loop_fetch_nil (superfluousIds cfg) env (superfluousIds_nil_of_unset (Or.inl hmf)) fuel p1 hf] at hok
    cases hok
    exact absurd hd1 hdgone
  | some m =>
    cases m with
    | zero =>
      rw [loop_fetch_nil (superfluousIds cfg) env (superfluousIds_nil_of_unset (Or.inr hmf)) fuel p1 hf] at hok
      cases hok
      exact absurd hd1 hdgone
    | succ m' =>
      have hj := loop_superfluous_J env hmf p1 fuel p1
        ⟨hu1, List.Sublist.refl _, fun x hx1 _ hx => absurd hx1 hx⟩
      rw [hok] at hj
      simp only [Outcome.pop] at hj
      have hcount := hj.2.2 d hd1 hde hdgone
      have hle := superfluousIds_nil hmf (by omega) hexit2
      apply Classical.byContradiction
      intro hlt
      have := countP_lt_of_witness (eligible cfg) (atLeastAsNew cfg d) after
        (by intro x _ hx; simp only [atLeastAsNew, Bool.and_eq_true] at hx; exact hx.1)
        ⟨k, hk, hke, by simp [atLeastAsNew, hke]; omega⟩
      omega

/-! ### subtrees again: what is under a removed row is removed -/

theorem Desc.exists_node {P : Pop} {r x : Nat} (h : Desc P r x) (hr : ∃ rn ∈ P, rn.id = r) :
    ∃ xn ∈ P, xn.id = x := by
  cases h with
  | self => exact hr
  | child hn _ _ => exact ⟨_, hn, rfl⟩

theorem Inv.desc_removed {Sel : Node → Prop} {pop0 P : Pop} (inv : Inv Sel pop0 P)
    (hu : UniqueIds pop0) {rn : Node} (hrn : rn ∈ pop0) (hrnP : rn ∉ P) {x : Nat}
    (h : Desc pop0 rn.id x) : ∀ xn ∈ pop0, xn.id = x → xn ∉ P := by
  induction h with
  | self =>
    intro xn hxn hid
    have := unique_of_id hu hxn hrn hid
    subst this
    exact hrnP
  | child hn' hp hd ih =>
    intro xn hxn hid hxP
    have := unique_of_id hu hxn hn' hid
    subst this
    obtain ⟨pn, hpn, hpid⟩ := hd.exists_node ⟨rn, hrn, rfl⟩
    exact ih pn hpn hpid (inv.closed xn hxP pn hpn (by rw [hp, hpid]))

/-! ### termination -/

theorem deleteExec_length_lt {P : Pop} {r : Nat} (h : ∃ rn ∈ P, rn.id = r) :
    (deleteExec P r).length < P.length := by
  obtain ⟨rn, hrn, hrid⟩ := h
  unfold deleteExec
  rw [← List.countP_eq_length_filter]
  have := countP_lt_of_witness (fun _ : Node => true)
    (fun n : Node => !(cascade P P.length [r]).contains n.id) P (by intros; rfl)
    ⟨rn, hrn, rfl, by
      have : rn.id ∈ cascade P P.length [r] := hrid ▸ cascade_mono P P.length [r] r (by simp)
      simp [this]⟩
  simpa using this

theorem deleteBatch_length_le (env : Env) :
    ∀ (ids : List Nat) (P P' : Pop), deleteBatch env P ids = .ok P' → P'.length ≤ P.length :=
  fun ids P P' h => (deleteBatch_facts env ids P P' h).sub.length_le

/-- "delete removes the row": a batch that runs to its end (`.ok`: no delete raised) and whose
    first id is present strictly shrinks the population. -/
theorem deleteBatch_shrinks (env : Env) {r : Nat} {rs : List Nat} {P P' : Pop}
    (h : deleteBatch env P (r :: rs) = .ok P') (hr : ∃ rn ∈ P, rn.id = r) :
    P'.length < P.length := by
  unfold deleteBatch at h
  split at h
  · cases h
  · have := deleteBatch_length_le env rs _ P' h
    have := deleteExec_length_lt hr
    omega

theorem loop_terminates (fetch : Pop → List Nat) (env : Env)
    (hfetch : ∀ Q, ∀ r ∈ fetch Q, ∃ rn ∈ Q, rn.id = r) :
    ∀ (f : Nat) (P : Pop), P.length < f → ∀ Q, loop fetch env f P ≠ .outOfFuel Q
  | 0, P, h, _ => by omega
  | f + 1, P, h, Q => by
    unfold loop
    split
    · intro hc; cases hc
    · rename_i r rs heq
      split
      · intro hc; cases hc
      · rename_i P' hb
        have hlt := deleteBatch_shrinks env hb (hfetch P r (by rw [heq]; exact List.mem_cons_self ..))
        exact loop_terminates fetch env hfetch f P' (by omega) Q

theorem expiredIds_present (cfg : Config) (exp : Int) :
    ∀ Q, ∀ r ∈ expiredIds cfg exp Q, ∃ rn ∈ Q, rn.id = r := by
  intro Q r hr
  obtain ⟨rn, hrn, hrid, _⟩ := mem_expiredIds hr
  exact ⟨rn, hrn, hrid⟩

theorem superfluousIds_present (cfg : Config) :
    ∀ Q, ∀ r ∈ superfluousIds cfg Q, ∃ rn ∈ Q, rn.id = r := by
  intro Q r hr
  have hne : superfluousIds cfg Q ≠ [] := by intro h; rw [h] at hr; simp at hr
  obtain ⟨m, v⟩ := superfluous_view hne
  obtain ⟨rn, hrn, hrid⟩ := v.ids r hr
  exact ⟨rn, ((sorted_cut cfg Q m).2 rn (List.mem_of_mem_drop hrn)).1, hrid⟩

theorem loop_pop_length_le (fetch : Pop → List Nat) (env : Env) (f : Nat) (P : Pop) :
    (loop fetch env f P).pop.length ≤ P.length := by
  refine loop_inv fetch env (fun Q => Q.length ≤ P.length) ?_ f P (Nat.le_refl _)
  intro Q Q' hQ _ hb
  have := deleteBatch_length_le env _ Q Q' hb
  omega

end Mistral.Expire
