import Mistral.Model.Ctx
import Mistral.Lemmas.Dict
namespace Mistral.Ctx
open Mistral Mistral.Dict

/-- no value of the dictionary is itself a dictionary -/
def FlatD (d : Dict) : Prop := ∀ p ∈ d, p.2.isObj = false

/-- keys are unique (a python dict) -/
def UniqueKeys {α : Type} (d : List (String × α)) : Prop := (d.map (·.1)).Nodup

theorem get?_none_of_not_mem {α : Type} (d : List (String × α)) (k : String) (h : k ∉ d.map (·.1)) :
    get? d k = none := by
  induction d with
  | nil => rfl
  | cons p rest ih =>
    obtain ⟨k', v'⟩ := p
    have h1 : k ≠ k' := fun e => h (by simp [e])
    have h2 : k ∉ rest.map (·.1) := fun e => h (by simp only [List.map_cons, List.mem_cons]; exact Or.inr e)
    have : (k' == k) = false := by
      cases hb : (k' == k) with
      | false => rfl
      | true => exact absurd (by simpa using hb : k' = k).symm h1
    rw [get?_cons, this]
    exact ih h2

theorem mergeVal_nonobj (lv rv : Vers) (p : String) (lval v : Val) (h : v.isObj = false) :
    mergeVal lv rv p lval v = if ver rv p > ver lv p then v else lval := by
  cases v <;> simp_all [mergeVal, Val.isObj]

theorem ver_mergeVers (l r : Vers) (hu : UniqueKeys r) (k : String) :
    ver (mergeVers l r) k = max (ver l k) (ver r k) := by
  unfold mergeVers
  induction r generalizing l with
  | nil => simp [ver]
  | cons p rest ih =>
    obtain ⟨k', n⟩ := p
    have hu' : UniqueKeys rest := by
      unfold UniqueKeys at *; simp only [List.map_cons, List.nodup_cons] at hu; exact hu.2
    have hk' : k' ∉ rest.map (·.1) := by
      unfold UniqueKeys at hu; simp only [List.map_cons, List.nodup_cons] at hu; exact hu.1
    simp only [List.foldl_cons]
    rw [ih _ hu']
    by_cases hk : k' = k
    · subst hk
      have hr : get? rest k' = none := get?_none_of_not_mem rest k' hk'
      simp [ver, get?_set_self, get?_cons, hr]
    · have hb : (k' == k) = false := by simpa using hk
      simp [ver, get?_set_other _ _ _ _ hk, get?_cons, hb]


theorem ver_bump (vs : Vers) (keys : List String) (k : String) :
    ver (bump vs keys) k = ver vs k + keys.count k := by
  unfold bump
  induction keys generalizing vs with
  | nil => simp
  | cons x xs ih =>
    simp only [List.foldl_cons]
    rw [ih]
    by_cases h : x = k
    · subst h
      simp [ver, get?_set_self]
      omega
    · have hb : (x == k) = false := by simpa using h
      simp [ver, get?_set_other _ _ _ _ h, List.count_cons, hb]

end Mistral.Ctx
