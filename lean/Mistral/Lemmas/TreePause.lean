/- The relation `Quiet`: in one transaction, an execution that is blocked (PAUSED or completed) stays blocked and
   gets no task row.  Proved for every transaction of `step` except the resume command and the scheduled update
   job (the two that can set an execution back to RUNNING). -/
import Mistral.Lemmas.Tree
namespace Mistral.Tree
open Mistral Mistral.Lifecycle

def blocked (s : St) : Bool := isPausedOrCompleted s

structure Quiet (w w' : World) : Prop where
  execs : ∀ (i : Nat) (e : Exec), w.execs[i]? = some e →
    ∃ e', w'.execs[i]? = some e' ∧ (blocked e.state = true → blocked e'.state = true)
  tasks : ∀ (t : Nat) (tk : Task), w.tasks[t]? = some tk → ∃ tk', w'.tasks[t]? = some tk' ∧ tk'.wf = tk.wf
  fresh : ∀ (t : Nat) (tk' : Task), w'.tasks[t]? = some tk' → w.tasks[t]? = none →
    ∀ e : Exec, w.execs[tk'.wf]? = some e → blocked e.state = false

theorem Quiet.refl (w : World) : Quiet w w :=
  ⟨fun _ e h => ⟨e, h, id⟩, fun _ tk h => ⟨tk, h, rfl⟩, fun _ _ h hn => by simp [hn] at h⟩

theorem Quiet.trans {a b c : World} (h1 : Quiet a b) (h2 : Quiet b c) : Quiet a c := by
  refine ⟨fun i e h => ?_, fun t tk h => ?_, fun t tk' h hn e he => ?_⟩
  · obtain ⟨e', he', f1⟩ := h1.execs i e h
    obtain ⟨e'', he'', f2⟩ := h2.execs i e' he'
    exact ⟨e'', he'', fun hb => f2 (f1 hb)⟩
  · obtain ⟨tk', h', a1⟩ := h1.tasks t tk h
    obtain ⟨tk'', h'', b1⟩ := h2.tasks t tk' h'
    exact ⟨tk'', h'', b1.trans a1⟩
  · cases hb : b.tasks[t]? with
    | some tkb =>
      obtain ⟨tk'', h'', b1⟩ := h2.tasks t tkb hb
      have : tk'' = tk' := by rw [h] at h''; exact (Option.some.inj h'').symm
      subst this
      exact h1.fresh t tkb hb hn e (by rw [← b1]; exact he)
    | none =>
      obtain ⟨e', he', f⟩ := h1.execs _ e he
      have := h2.fresh t tk' h hb e' he'
      cases hbl : blocked e.state with
      | false => rfl
      | true => rw [f hbl] at this; exact absurd this (by simp)

theorem Quiet.of_same {w w' : World} (he : w'.execs = w.execs) (ht : w'.tasks = w.tasks) : Quiet w w' :=
  ⟨fun _ e h => ⟨e, by rw [he]; exact h, id⟩, fun _ tk h => ⟨tk, by rw [ht]; exact h, rfl⟩,
   fun _ _ h hn => by rw [ht, hn] at h; simp at h⟩

theorem Quiet.setTask {w w' : World} {t : Nat} {tk tk' : Task} (he : w'.execs = w.execs)
    (h : w.tasks[t]? = some tk) (ht : w'.tasks = w.tasks.set t tk') (hwf : tk'.wf = tk.wf) : Quiet w w' := by
  have hlt := lt_of_get h
  refine ⟨fun _ e h => ⟨e, by rw [he]; exact h, id⟩, fun u tku hu => ?_, fun u tku hu hnone => ?_⟩
  · rw [ht, List.getElem?_set]
    by_cases htu : t = u
    · subst htu
      rw [h] at hu; cases hu
      exact ⟨tk', by simp [hlt], hwf⟩
    · exact ⟨tku, by simp [htu, hu], rfl⟩
  · rw [ht, List.getElem?_set] at hu
    by_cases htu : t = u
    · subst htu; rw [h] at hnone; simp at hnone
    · simp [htu, hnone] at hu

theorem Quiet.mapTasks {w w' : World} {g : Task → Task} (he : w'.execs = w.execs)
    (ht : w'.tasks = w.tasks.map g) (hg : ∀ tk, (g tk).wf = tk.wf) : Quiet w w' := by
  refine ⟨fun _ e h => ⟨e, by rw [he]; exact h, id⟩, fun u tku hu => ?_, fun u tku hu hnone => ?_⟩
  · exact ⟨g tku, by rw [ht, List.getElem?_map, hu]; rfl, hg tku⟩
  · rw [ht, List.getElem?_map, hnone] at hu; simp at hu

theorem Quiet.addTask {w w' : World} {tk' : Task} (he : w'.execs = w.execs)
    (ht : w'.tasks = w.tasks ++ [tk']) (hok : ∀ e : Exec, w.execs[tk'.wf]? = some e → blocked e.state = false) :
    Quiet w w' := by
  refine ⟨fun _ e h => ⟨e, by rw [he]; exact h, id⟩, fun u tku hu => ?_, fun u tku hu hnone => ?_⟩
  · exact ⟨tku, by rw [ht, List.getElem?_append_left (lt_of_get hu)]; exact hu, rfl⟩
  · have hge : w.tasks.length ≤ u := by
      rcases Nat.lt_or_ge u w.tasks.length with h' | h'
      · rw [List.getElem?_eq_getElem h'] at hnone; simp at hnone
      · exact h'
    rw [ht, List.getElem?_append_right hge] at hu
    have : tku = tk' := by
      cases hk : u - w.tasks.length with
      | zero => rw [hk] at hu; simpa using hu.symm
      | succ k => rw [hk] at hu; simp at hu
    subst this
    exact hok

theorem Quiet.addExec {w w' : World} {e0 : Exec} (ht : w'.tasks = w.tasks) (he : w'.execs = w.execs ++ [e0]) :
    Quiet w w' :=
  ⟨fun i e h => ⟨e, by rw [he, List.getElem?_append_left (lt_of_get h)]; exact h, id⟩,
   fun _ tk h => ⟨tk, by rw [ht]; exact h, rfl⟩, fun _ _ h hn => by rw [ht, hn] at h; simp at h⟩

theorem Quiet.mapExecs {w w' : World} {f : Nat → Exec → Exec} (ht : w'.tasks = w.tasks)
    (he : w'.execs = w.execs.mapIdx f)
    (hf : ∀ (i : Nat) (e : Exec), w.execs[i]? = some e → blocked e.state = true → blocked (f i e).state = true) :
    Quiet w w' :=
  ⟨fun k ek hk => ⟨f k ek, by rw [he, List.getElem?_mapIdx, hk]; rfl, hf k ek hk⟩,
   fun _ tk h => ⟨tk, by rw [ht]; exact h, rfl⟩, fun _ _ h hn => by rw [ht, hn] at h; simp at h⟩

theorem Quiet.setExec {w w' : World} {i : Nat} {e e' : Exec} (ht : w'.tasks = w.tasks)
    (h : w.execs[i]? = some e) (he : w'.execs = w.execs.set i e')
    (hf : blocked e.state = true → blocked e'.state = true) : Quiet w w' := by
  refine Quiet.mapExecs (f := fun k ek => if k = i then e' else ek) ht ?_ ?_
  · rw [he]
    apply List.ext_getElem?
    intro k
    rw [List.getElem?_set, List.getElem?_mapIdx]
    by_cases hik : i = k
    · subst hik; simp [lt_of_get h, h]
    · have : ¬ k = i := fun h' => hik h'.symm
      cases hk : w.execs[k]? <;> simp [hik, this]
  · intro k ek hk hb
    by_cases hki : k = i
    · subst hki; rw [h] at hk; cases hk; simp only [if_true]; exact hf hb
    · simp only [hki, if_false]; exact hb

theorem blocked_of_completed {s : St} (h : isCompleted s = true) : blocked s = true := by
  simp [blocked, isPausedOrCompleted, h]

/-! ## the transactions -/

theorem quiet_foldl {α : Type} (f : World → α → World) (hf : ∀ w a, Quiet w (f w a)) (l : List α) (w : World) :
    Quiet w (l.foldl f w) := by
  induction l generalizing w with
  | nil => exact Quiet.refl w
  | cons a l ih => exact (hf w a).trans (ih (f w a))

theorem quiet_dispatchOne (w : World) (wf : Nat) (n : String) : Quiet w (dispatchOne w wf n) := by
  unfold dispatchOne
  split
  · rename_i e he
    split
    · exact Quiet.refl w
    · rename_i hc
      split
      · exact Quiet.setExec (e := e) rfl he rfl id
      · rename_i hp
        refine Quiet.addTask (tk' := newTask wf n) rfl rfl ?_
        intro e' he'
        have he2 : w.execs[wf]? = some e' := he'
        rw [he] at he2; cases he2
        have h1 : isCompleted e.state = false := by simpa using hc
        have h2 : isPaused e.state = false := by
          revert hp; cases e.state <;> decide
        simp [blocked, isPausedOrCompleted, h1, h2]
  · exact Quiet.refl w

theorem quiet_dispatch (w : World) (wf : Nat) (names : List String) : Quiet w (dispatch w wf names) :=
  quiet_foldl _ (fun w n => quiet_dispatchOne w wf n) _ w

theorem quiet_finish (w : World) (i : Nat) (e : Exec) (s : St) (info : Info) (out : Out)
    (h : w.execs[i]? = some e) (hs : isCompleted s = true) : Quiet w (finish w i e s info out) :=
  Quiet.setExec (e := e) rfl h rfl (fun _ => blocked_of_completed hs)

theorem quiet_checkAndComplete (w : World) (i : Nat) : Quiet w (checkAndComplete w i) := by
  unfold checkAndComplete
  split
  · exact Quiet.refl w
  · rename_i e he
    split
    · exact Quiet.refl w
    · simp only
      split
      · exact Quiet.refl w
      · split
        · exact quiet_finish w i e _ _ _ he (by decide)
        · split
          · exact quiet_finish w i e _ _ _ he (by decide)
          · exact quiet_finish w i e _ _ _ he (by decide)

theorem quiet_stopOne (w w' : World) (i : Nat) (s : St) (msg : Info) (h : stopOne w i s msg = some w') :
    Quiet w w' := by
  unfold stopOne at h
  split at h
  · simp at h
  · rename_i e he
    split at h
    all_goals first
      | (cases h; exact Quiet.refl w)
      | (split at h
         · cases h; exact Quiet.refl w
         · split at h
           · cases h; exact quiet_finish w i e _ _ _ he (by decide)
           · simp at h)

theorem quiet_cancelTx (w : World) (a : Nat) (msg : String) : Quiet w (cancelTx w a msg) := by
  refine Quiet.mapExecs (f := fun x e => if hit w a x e then cancelled msg e else e) rfl rfl ?_
  intro i e _ hb
  split
  · exact blocked_of_completed (by simp [cancelled]; decide)
  · exact hb

theorem quiet_startWf (c : Cfg) (w : World) (d : Nat) (parent : Option Nat) (index : Nat) (check : Bool) :
    Quiet w (startWf c w d parent index check) := by
  unfold startWf
  have h1 : Quiet w { w with execs := w.execs ++ [newExec d parent index] } := Quiet.addExec rfl rfl
  simp only
  split
  · exact (h1.trans (quiet_dispatch _ _ _)).trans (quiet_checkAndComplete _ _)
  · exact h1.trans (quiet_dispatch _ _ _)

theorem quiet_startSub (c : Cfg) (w : World) (t d idx : Nat) : Quiet w (startSub c w t d idx) := by
  unfold startSub
  split
  · exact Quiet.of_same rfl rfl
  · exact quiet_startWf c w d _ _ _

theorem quiet_completeTask (c : Cfg) (w : World) (t : Nat) (s : St) : Quiet w (completeTask c w t s) := by
  unfold completeTask
  split
  · exact Quiet.refl w
  · rename_i tk htk
    split
    · exact Quiet.refl w
    · split
      · exact Quiet.refl w
      · simp only
        split
        · exact Quiet.setTask rfl htk rfl rfl
        · refine Quiet.trans ?_ (quiet_dispatch _ _ _)
          exact Quiet.setTask rfl htk rfl rfl

theorem quiet_wiSchedule (c : Cfg) (w : World) (t d count : Nat) (cap : Option Nat) :
    Quiet w (wiSchedule c w t d count cap) := by
  unfold wiSchedule
  simp only
  split
  · exact quiet_completeTask c w t _
  · split
    · exact Quiet.refl w
    · split
      · exact Quiet.refl w
      · split
        · exact quiet_completeTask c w t _
        · have h1 := quiet_foldl (fun w i => startSub c w t d i) (fun w i => quiet_startSub c w t d i)
            (wiNextIndexes w t count cap) w
          split
          · rename_i tk htk
            exact h1.trans (Quiet.setTask rfl htk rfl rfl)
          · exact h1

theorem quiet_runTask (c : Cfg) (w : World) (t : Nat) : Quiet w (runTask c w t) := by
  unfold runTask
  split
  · exact Quiet.refl w
  · rename_i tk htk
    split
    · exact Quiet.refl w
    · split
      · exact Quiet.refl w
      · have h1 : Quiet w { w with tasks := w.tasks.set t { tk with state := .RUNNING } } :=
          Quiet.setTask rfl htk rfl rfl
        simp only
        split
        · exact h1
        · exact h1.trans (Quiet.of_same rfl rfl)
        · split
          · exact h1.trans (quiet_completeTask c _ t _)
          · exact h1.trans (quiet_startSub c _ t _ 0)
        · refine Quiet.trans ?_ (quiet_wiSchedule c _ t _ _ _)
          exact Quiet.setTask rfl htk rfl rfl

theorem quiet_resetKids (w : World) (t : Nat) : Quiet w (resetKids w t) := by
  refine Quiet.mapExecs (f := fun _ e => if e.parent == some t && e.accepted && (e.state == .ERROR || e.state == .CANCELLED)
      then { e with accepted := false } else e) rfl rfl ?_
  intro i e _ hb
  split <;> exact hb

theorem quiet_runExisting (c : Cfg) (w : World) (t : Nat) : Quiet w (runExisting c w t) := by
  unfold runExisting
  split
  · exact Quiet.refl w
  · rename_i tk htk
    split
    · exact Quiet.refl w
    · split
      · exact Quiet.refl w
      · split
        · exact Quiet.refl w
        · have h0 := quiet_resetKids w t
          have htk0 : (resetKids w t).tasks[t]? = some tk := htk
          have h1 : ∀ tk' : Task, tk'.wf = tk.wf →
              Quiet w { execs := (resetKids w t).execs, tasks := (resetKids w t).tasks.set t tk',
                        pending := (resetKids w t).pending } :=
            fun tk' a => h0.trans (Quiet.setTask rfl htk0 rfl a)
          simp only
          split
          · exact h1 _ rfl
          · have h2 := h1 { tk with state := .RUNNING, processed := false } rfl
            exact h2.trans (Quiet.of_same rfl rfl)
          · split
            · refine Quiet.trans ?_ (quiet_completeTask c _ t _)
              exact h1 _ rfl
            · refine Quiet.trans ?_ (quiet_startSub c _ t _ 0)
              exact h1 _ rfl
          · refine Quiet.trans ?_ (quiet_wiSchedule c _ t _ _ _)
            exact h1 _ rfl

theorem quiet_wiOnComplete (c : Cfg) (w : World) (t : Nat) : Quiet w (wiOnComplete c w t) := by
  unfold wiOnComplete
  split
  · exact Quiet.refl w
  · rename_i tk htk
    split
    · exact Quiet.refl w
    · split
      · split
        · simp only
          split
          · refine Quiet.trans ?_ (quiet_completeTask c _ t _)
            exact Quiet.setTask rfl htk rfl rfl
          · split
            · refine Quiet.trans ?_ (quiet_wiSchedule c _ t _ _ _)
              exact Quiet.setTask rfl htk rfl rfl
            · exact Quiet.setTask rfl htk rfl rfl
        · exact Quiet.refl w
      · exact Quiet.refl w

theorem quiet_childResult (c : Cfg) (w : World) (x : Nat) : Quiet w (childResult c w x) := by
  unfold childResult
  split
  · exact Quiet.refl w
  · rename_i e he
    have h1 : Quiet w { w with execs := w.execs.set x { e with got := e.got + 1 } } :=
      Quiet.setExec (e := e) rfl he rfl id
    simp only
    split
    · exact h1
    · split
      · exact h1
      · split
        · exact h1
        · split
          · exact h1.trans (Quiet.of_same rfl rfl)
          · exact h1.trans (quiet_completeTask c _ _ _)

theorem quiet_taskUpdate (w : World) (t : Nat) (s : St) : Quiet w (taskUpdate w t s) := by
  unfold taskUpdate
  split
  · exact Quiet.refl w
  · rename_i tk htk
    split
    · exact Quiet.refl w
    · split
      · exact Quiet.refl w
      · split
        · exact Quiet.refl w
        · exact Quiet.setTask rfl htk rfl rfl

theorem quiet_forceFail (w : World) (t : Nat) : Quiet w (forceFail w t).1 := by
  unfold forceFail
  split
  · exact Quiet.refl w
  · rename_i tk htk
    have h1 : Quiet w { w with tasks := w.tasks.set t { tk with state := .ERROR } } :=
      Quiet.setTask rfl htk rfl rfl
    simp only
    split
    · rename_i w2 h2
      exact h1.trans (quiet_stopOne _ w2 _ _ _ h2)
    · exact h1

theorem quiet_kids (c : Cfg) (f : Nat) (hm : ∀ w x, Quiet w (prop c f .pause w x).1)
    (hm' : ∀ w x, Quiet w (prop c f .belowP w x).1) (l : List Nat) :
    ∀ (w0 : World) (acc : World × Bool), Quiet w0 acc.1 →
      Quiet w0 (l.foldl (fun (acc : World × Bool) k =>
        if acc.2 then acc else
        match acc.1.execs[k]? with
        | some ek => if isCompleted ek.state then prop c f .belowP acc.1 k else prop c f .pause acc.1 k
        | none => acc) acc).1 := by
  induction l with
  | nil => intro w0 acc h; exact h
  | cons k l ih =>
    intro w0 acc h
    simp only [List.foldl_cons]
    apply ih
    split
    · exact h
    · split
      · split
        · exact h.trans (hm' _ _)
        · exact h.trans (hm _ _)
      · exact h

/-- pause_workflow, and the `_on_action_update` of an execution that is PAUSED (which only calls pause_workflow
    again), never set an execution RUNNING and create no task row in a blocked execution -/
theorem quiet_prop_pause (c : Cfg) : ∀ (f : Nat),
    (∀ w x, Quiet w (prop c f .pause w x).1) ∧
    (∀ w x e, w.execs[x]? = some e → isPaused e.state = true → Quiet w (prop c f .update w x).1) ∧
    (∀ w x, Quiet w (prop c f .belowP w x).1) := by
  intro f
  induction f with
  | zero =>
    refine ⟨fun w x => Quiet.refl w, fun w x e he _ => ?_, fun w x => Quiet.refl w⟩
    simp only [prop, updateLocal, he]
    split
    · exact Quiet.refl w
    · exact quiet_taskUpdate w _ _
  | succ f ih =>
    obtain ⟨ih1, ih2, ih3⟩ := ih
    refine ⟨?_, ?_, fun w x => by
      simp only [prop]
      exact quiet_kids c f ih1 ih3 (kidsOf w x) w (w, false) (Quiet.refl w)⟩
    · intro w x
      simp only [prop]
      have hk := quiet_kids c f ih1 ih3 (kidsOf w x) w (w, false) (Quiet.refl w)
      generalize (kidsOf w x).foldl _ (w, false) = r at hk ⊢
      split
      · exact hk
      · split
        · exact hk
        · rename_i e he
          split
          · exact hk
          · split
            · have h1 : Quiet r.1 (setState r.1 x e .PAUSED) :=
                Quiet.setExec (e := e) rfl he rfl (fun _ => by show blocked St.PAUSED = true; decide)
              split
              · exact hk.trans h1
              · split
                · exact hk.trans (h1.trans (Quiet.of_same rfl rfl))
                · refine hk.trans (h1.trans (ih2 _ x { e with state := .PAUSED, info := .none, accepted := false } ?_
                    (by show isPaused St.PAUSED = true; decide)))
                  simp [setState, lt_of_get he]
            · exact hk
    · intro w x e he hp
      simp only [prop, he]
      split
      · exact Quiet.refl w
      · rename_i t ht
        split
        · exact Quiet.refl w
        · rename_i tk htk
          simp only [hp, if_true]
          have h1 := quiet_taskUpdate w t e.state
          split
          · exact (h1.trans (ih1 _ _)).trans (quiet_forceFail _ _)
          · exact h1.trans (ih1 _ _)

/-- the events that cannot set an execution back to RUNNING: everything except the resume command and the
    scheduled `_on_action_update` job of a with-items child -/
def QuietEv : Event → Bool
  | .resume _ => false
  | .deliver (.jobChildUpdate _) => false
  | _ => true

theorem quiet_step (c : Cfg) (w : World) (ev : Event) (hq : QuietEv ev = true) : Quiet w (step c w ev) := by
  cases ev with
  | startRoot d => exact quiet_startWf c w d none 0 true
  | stop a s msg =>
    simp only [step]
    split
    · split
      · exact quiet_cancelTx w a msg
      · exact Quiet.refl w
    · cases h : stopOne w a s (.op msg) with
      | none => exact Quiet.refl w
      | some w' => exact quiet_stopOne w w' a s _ h
  | pause a =>
    simp only [step]
    split
    · exact Quiet.refl w
    · exact (quiet_prop_pause c _).1 w a
  | resume a => simp [QuietEv] at hq
  | execute t ok =>
    simp only [step]
    split
    · exact Quiet.refl w
    · exact Quiet.of_same rfl rfl
  | deliver it =>
    simp only [step]
    split
    · exact Quiet.refl w
    · have h0 : Quiet w { w with pending := removeFirst w.pending it } := Quiet.of_same rfl rfl
      refine h0.trans ?_
      cases it with
      | postStartTask t f => exact Quiet.of_same rfl rfl
      | rpcStartTask t f =>
        simp only
        split
        · exact quiet_runTask c _ t
        · exact quiet_runExisting c _ t
      | postRunAction t => exact Quiet.of_same rfl rfl
      | runAction t => exact Quiet.refl _
      | rpcResult t ok => exact quiet_completeTask c _ t _
      | postCheck i => exact quiet_checkAndComplete _ i
      | postStartSub t i => exact Quiet.of_same rfl rfl
      | rpcStartSub t i =>
        simp only
        split
        · split
          · split
            · split
              · exact quiet_completeTask c _ t _
              · exact quiet_startWf c _ _ _ _ _
            · exact Quiet.refl _
          · exact Quiet.refl _
        · exact Quiet.refl _
      | postSendResult x => exact Quiet.of_same rfl rfl
      | rpcChildResult x => exact quiet_childResult c _ x
      | jobChildComplete x =>
        simp only
        split
        · split
          · exact quiet_wiOnComplete c _ _
          · exact Quiet.refl _
        · exact Quiet.refl _
      | jobChildUpdate x => simp [QuietEv] at hq

end Mistral.Tree
