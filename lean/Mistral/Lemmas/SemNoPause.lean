/-
Histories without `pause` / `resume` are inside both history classes of the refinement theorem:
the workflow is never PAUSED (so `PausedClean` holds trivially) and no re-run request
(`start_task(first_run=False)`) is ever in flight (so no stale re-start is possible).
-/
import Mistral.Lemmas.SemRun
namespace Mistral.Sem
open Mistral Mistral.Join Mistral.Engine Mistral.Engine.Live

/-- everything new in `p'` is harmless (not a re-run request) -/
def HarmlessNew (p p' : List Item) : Prop := ∀ it ∈ p', it ∈ p ∨ harmless it = true

theorem HarmlessNew.refl (p : List Item) : HarmlessNew p p := fun _ h => Or.inl h

theorem HarmlessNew.trans {a b c : List Item} (h1 : HarmlessNew a b) (h2 : HarmlessNew b c) : HarmlessNew a c := by
  intro it hi
  rcases h2 it hi with h | h
  · exact h1 it h
  · exact Or.inr h

theorem HarmlessNew.append (p q : List Item) (hq : ∀ it ∈ q, harmless it = true) : HarmlessNew p (p ++ q) := by
  intro it hi
  rcases List.mem_append.mp hi with h | h
  · exact Or.inl h
  · exact Or.inr (hq it h)

theorem singleton_harmless (x : Item) (hx : harmless x = true) : ∀ it ∈ [x], harmless it = true := by
  intro it hi
  have : it = x := by simpa using hi
  rw [this]; exact hx

theorem dispatchOne_hn (sp : Spec) (w : World) (c : Cmd) : HarmlessNew w.pending (dispatchOne sp w c).pending := by
  unfold dispatchOne
  simp only
  split
  · exact HarmlessNew.refl _
  · split
    · exact HarmlessNew.refl _
    · split
      · split
        · exact HarmlessNew.append _ _ (singleton_harmless _ rfl)
        · simp only
          intro it hi
          rcases List.mem_append.mp hi with h | h
          · left; split at h <;> exact h
          · right
            exact singleton_harmless _ rfl it h
      · exact HarmlessNew.append _ _ (singleton_harmless _ rfl)

theorem dispatch_hn (sp : Spec) (cs : List Cmd) : ∀ (w : World), HarmlessNew w.pending (dispatch sp w cs).pending := by
  induction cs with
  | nil => intro w; exact HarmlessNew.refl _
  | cons c cs ih =>
    intro w
    show HarmlessNew w.pending (dispatch sp (dispatchOne sp w c) cs).pending
    exact (dispatchOne_hn sp w c).trans (ih _)

theorem checkAffected_hn (sp : Spec) (w : World) (t : Tid) : HarmlessNew w.pending (checkAffected sp w t).pending := by
  unfold checkAffected
  split
  · exact HarmlessNew.refl _
  · split
    · exact HarmlessNew.refl _
    · split
      · exact HarmlessNew.refl _
      · apply HarmlessNew.append
        intro it hi
        obtain ⟨n, _, hn⟩ := List.mem_filterMap.mp hi
        cases hf : findByName w n with
        | none => rw [hf] at hn; cases hn
        | some j => rw [hf] at hn; cases hn; rfl

theorem ite_hn (c : Prop) [Decidable c] (p : List Item) (a b : World) (ha : HarmlessNew p a.pending)
    (hb : HarmlessNew p b.pending) : HarmlessNew p (if c then a else b).pending := by
  split <;> assumption

theorem completeTask_hn (sp : Spec) (w : World) (r : TaskRow) (s : St) :
    HarmlessNew w.pending (completeTask sp w r s).pending := by
  unfold completeTask
  split
  · exact checkAffected_hn sp w _
  · refine HarmlessNew.trans ?_ (checkAffected_hn sp _ _)
    simp only
    split
    · exact HarmlessNew.refl _
    · refine HarmlessNew.trans ?_ (dispatch_hn sp _ _)
      apply ite_hn
      · exact HarmlessNew.append _ _ (singleton_harmless _ rfl)
      · exact HarmlessNew.refl _

/-- no re-run request is in flight -/
def NoRerun (w : World) : Prop := ∀ it ∈ w.pending, harmless it = true

theorem NoRerun.of_hn (w : World) (p' : List Item) (h : NoRerun w) (hn : HarmlessNew w.pending p') :
    ∀ it ∈ p', harmless it = true := by
  intro it hi
  rcases hn it hi with h1 | h1
  · exact h it h1
  · exact h1

theorem hn_removeFirst (p : List Item) (it : Item) : HarmlessNew p (removeFirst p it) :=
  fun x hx => Or.inl (mem_removeFirst _ _ _ hx)

theorem step_norerun (sp : Spec) (w : World) (e : Event) (h : NoRerun w) (he : e ≠ .resume) : NoRerun (step sp w e) := by
  cases e with
  | resume => exact absurd rfl he
  | start =>
    simp only [step]
    split
    · exact h
    · exact NoRerun.of_hn w _ h (dispatch_hn sp _ { w with wf := St.RUNNING })
  | pause => exact h
  | stop t => exact h
  | execute t ok =>
    simp only [step]
    split
    · exact h
    · exact NoRerun.of_hn w _ h ((hn_removeFirst _ _).trans (HarmlessNew.append _ _ (singleton_harmless _ rfl)))
  | deliver it =>
    simp only [step]
    split
    · exact h
    · rename_i hc
      have hmem : it ∈ w.pending := by simpa using hc
      have h0 := hn_removeFirst w.pending it
      cases it with
      | postStartTask t f =>
        have hf : f = true := by
          have := h _ hmem
          cases f
          · exact absurd this (by simp [harmless])
          · rfl
        subst hf
        exact NoRerun.of_hn w _ h (h0.trans (HarmlessNew.append _ _ (singleton_harmless _ rfl)))
      | postRunAction t =>
        exact NoRerun.of_hn w _ h (h0.trans (HarmlessNew.append _ _ (singleton_harmless _ rfl)))
      | runAction t => exact NoRerun.of_hn w _ h h0
      | postCheck =>
        simp only
        intro it hi
        rw [checkAndComplete_pending] at hi
        exact NoRerun.of_hn w _ h h0 it hi
      | postSchedRefresh t =>
        simp only
        split
        · exact NoRerun.of_hn w _ h h0
        · exact NoRerun.of_hn w _ h (h0.trans (HarmlessNew.append _ _ (singleton_harmless _ rfl)))
      | rpcStartTask t firstRun =>
        simp only
        have happ : ∀ (x : Item), harmless x = true →
            HarmlessNew w.pending (removeFirst w.pending (Item.rpcStartTask t firstRun) ++ [x]) := by
          intro x hx
          exact h0.trans (HarmlessNew.append _ _ (singleton_harmless x hx))
        split
        · exact NoRerun.of_hn w _ h h0
        · split
          · split
            · exact NoRerun.of_hn w _ h (happ _ rfl)
            · split
              · split
                · exact NoRerun.of_hn w _ h h0
                · exact NoRerun.of_hn w _ h (happ _ rfl)
              · exact NoRerun.of_hn w _ h (h0.trans (checkAffected_hn sp _ t))
          · split
            · exact NoRerun.of_hn w _ h h0
            · split
              · exact NoRerun.of_hn w _ h h0
              · exact NoRerun.of_hn w _ h (happ _ rfl)
      | rpcResult t ok =>
        simp only
        split
        · exact NoRerun.of_hn w _ h h0
        · exact NoRerun.of_hn w _ h (h0.trans
            (completeTask_hn sp { w with pending := removeFirst w.pending (.rpcResult t ok) } _ _))
      | jobRefresh t =>
        simp only
        split
        · exact NoRerun.of_hn w _ h h0
        · split
          · exact NoRerun.of_hn w _ h h0
          · split
            · exact NoRerun.of_hn w _ h h0
            · split
              · exact NoRerun.of_hn w _ h h0
              · split
                · exact NoRerun.of_hn w _ h h0
                · split
                  · split
                    · exact NoRerun.of_hn w _ h h0
                    · exact NoRerun.of_hn w _ h (h0.trans (HarmlessNew.append _ _ (singleton_harmless _ rfl)))
                  · split
                    · exact NoRerun.of_hn w _ h (h0.trans (completeTask_hn sp _ _ _))
                    · exact NoRerun.of_hn w _ h h0

/-- without a re-run request in flight no event is a stale re-start -/
theorem norerun_not_stale (w : World) (e : Event) (h : NoRerun w) : staleB w e = false := by
  unfold staleB
  split
  · rename_i t
    have : w.pending.contains (Item.rpcStartTask t false) = false := by
      cases hc : w.pending.contains (Item.rpcStartTask t false) with
      | false => rfl
      | true =>
        have hm : Item.rpcStartTask t false ∈ w.pending := by simpa using hc
        exact absurd (h _ hm) (by simp [harmless])
    rw [this]; rfl
  · rfl

/-- the workflow is never PAUSED along a history without `pause` -/
theorem never_paused (sp : Spec) (evs : List Event) :
    ∀ (w : World), (∀ e ∈ evs, e ≠ .pause) → w.wf ≠ .PAUSED → (evs.foldl (step sp) w).wf ≠ .PAUSED := by
  induction evs with
  | nil => intro w _ h; exact h
  | cons e rest ih =>
    intro w hnp h
    refine ih _ (fun e' he' => hnp e' (List.mem_cons_of_mem _ he')) ?_
    intro hp
    rcases step_wf sp w e with h1 | ⟨_, _, h1⟩ | ⟨h1, _⟩ | ⟨t, _, h1⟩ | ⟨_, _, h1⟩ | ⟨_, _, h1⟩
    · rw [h1] at hp; exact h hp
    · rw [h1] at hp; cases hp
    · exact hnp e List.mem_cons_self h1
    · rw [h1] at hp
      revert hp h
      cases w.wf <;> cases t <;> decide
    · rcases h1 with h1 | h1 | h1 | h1 <;> (rw [h1] at hp; cases hp)
    · rcases h1 with h1 | h1 | h1 <;> (rw [h1] at hp; cases hp)

theorem nopause_clean (sp : Spec) (evs : List Event) (hnp : ∀ e ∈ evs, e ≠ .pause) :
    ∀ n, PausedClean ((evs.take n).foldl (step sp) init) := by
  intro n hp
  exfalso
  exact never_paused sp (evs.take n) init (fun e he => hnp e (List.mem_of_mem_take he)) (by simp [init]) hp

end Mistral.Sem
