/-
Liveness of the default scheduler model (Model/Sched.lean) under weak fairness:
"slack" potential function, fair store-poll passes, and the progress lemmas behind
`Props/C13.eventual_invocation`.  Arbitrary interleavings: nothing is assumed about the steps
between / inside the passes.
-/
import Mistral.Lemmas.SchedFinal

namespace Mistral.Sched

/-! ## definitions -/

/-- the store poll of instance `x` has captured `j` and not finished it -/
def pollHolds (j : Nat) (x : Inst) : Bool :=
  match x.poll with
  | .running q _ => q.contains j
  | _ => false

/-- 1 while row `j` has never been captured (captured_at NULL), else 0 -/
def uncaptured (s : State) (j : Nat) : Nat :=
  match s.rows[j]? with
  | some r => if r.capturedAt = none then 1 else 0
  | none => 0

/-- a live instance whose store poll does not hold `j`: it can still win a capture of `j` and
    waste it (die, or raise out of its loop) -/
def liveFree (j : Nat) (x : Inst) : Bool := x.alive && !pollHolds j x

/-- "slack": how many captures of `j` can still be wasted: live instances whose poll does not
    hold `j` (+1 for the single in-memory dispatcher capture, possible only while captured_at
    is NULL) -/
def slack (s : State) (j : Nat) : Nat :=
  s.insts.countP (liveFree j) + uncaptured s j

/-- a `pollNext` whose delete fails (row already deleted by a re-capturer):
    `_process_store_jobs` raises out of its loop, the rest of the queue is abandoned -/
def abandonStep (s : State) : Step → Bool
  | .pollNext i =>
    match s.insts[i]? with
    | some inst => inst.alive && (match inst.poll with
        | .running (a :: _) true => (del s.rows a).isNone
        | _ => false)
    | none => false
  | _ => false

/-- number of abandoning steps when `steps` is run from `s` -/
def abandons (cfg : Cfg) : State → List Step → Nat
  | _, [] => 0
  | s, e :: es => (if abandonStep s e then 1 else 0) + abandons cfg (step cfg s e) es

/-- the pass starts "later than max(execute_at + pickup_job_after, captured_at +
    captured_job_timeout)" of the not yet invoked job `j`: `j` is already invoked, or its row
    satisfies the WHERE clause of `get_scheduled_jobs_to_start` -/
def PassReady (cfg : Cfg) (s : State) (j : Nat) : Prop :=
  Invoked s j ∨ ∃ r, s.rows[j]? = some r ∧ eligible cfg s.clock r = true

/-- `p`, run from `s`, is a complete store-poll pass of a live instance: it starts with the
    select of an idle live instance `i` at a moment when `j` is ready, and at its end `i` is
    alive (crash is permanent in the model, so `i` did not crash in between) and its poll is
    idle again (select → capture → invoke/delete loop finished).  ANY other steps of ANY
    instances may be interleaved inside `p`. -/
def FairPass (cfg : Cfg) (j : Nat) (s : State) (p : List Step) : Prop :=
  ∃ i inst inst' mid, p = .pollSelect i :: mid ∧ s.insts[i]? = some inst ∧ inst.alive = true ∧
    inst.poll = .idle ∧ PassReady cfg s j ∧
    (run cfg s p).insts[i]? = some inst' ∧ inst'.alive = true ∧ inst'.poll = .idle

/-- `steps` (run from `s`) contains `k` disjoint fair passes, in order, separated by arbitrary
    steps -/
inductive FairPasses (cfg : Cfg) (j : Nat) : Nat → State → List Step → Prop
  | zero (s : State) (steps : List Step) : FairPasses cfg j 0 s steps
  | succ (k : Nat) (s : State) (pre p post : List Step) :
      FairPass cfg j (run cfg s pre) p → FairPasses cfg j k (run cfg s (pre ++ p)) post →
      FairPasses cfg j (k + 1) s (pre ++ p ++ post)

/-- the pass of instance `i` is still on its way to capture `j`: (if `i` is alive) its poll has
    selected, the candidate list contains `j` with exactly the captured_at the committed row
    still has — so the CAS of its `pollCapture` will succeed -/
def OnTrack (i j : Nat) (s : State) : Prop :=
  ∀ inst, s.insts[i]? = some inst → inst.alive = true →
    ∃ cands r, inst.poll = .selected cands ∧ s.rows[j]? = some r ∧ r.vis = .committed ∧
      (j, r.capturedAt) ∈ cands

/-- one step from `s` to `s'`, seen from job `j` and the pass of instance `i`: `j` is invoked,
    or slack grows by at most `d` and an on-track pass stays on track unless one unit of slack
    is used up -/
def Prog (i j : Nat) (s s' : State) (d : Nat) : Prop :=
  Invoked s' j ∨ (slack s' j ≤ slack s j + d ∧
    (OnTrack i j s → OnTrack i j s' ∨ slack s' j + 1 ≤ slack s j))

/-! ## counting -/

theorem countP_set_eq (p : Inst → Bool) : ∀ (l : List Inst) (i : Nat) (a x : Inst), l[i]? = some a →
    (l.set i x).countP p + (if p a then 1 else 0) = l.countP p + (if p x then 1 else 0) := by
  intro l
  induction l with
  | nil => intro i a x h; simp at h
  | cons b t ih =>
    intro i a x h
    cases i with
    | zero =>
      simp at h; subst h
      simp only [List.set_cons_zero, List.countP_cons]
      omega
    | succ k =>
      simp at h
      have := ih k a x h
      simp only [List.set_cons_succ, List.countP_cons]
      omega

theorem slack_set {s s' : State} {k : Nat} {inst x' : Inst} (j : Nat)
    (hk : s.insts[k]? = some inst) (hins : s'.insts = s.insts.set k x') :
    slack s' j + (if liveFree j inst then 1 else 0) + uncaptured s j =
      slack s j + (if liveFree j x' then 1 else 0) + uncaptured s' j := by
  unfold slack
  rw [hins]
  have := countP_set_eq (liveFree j) s.insts k inst x' hk
  omega

theorem ite_le_one (b : Bool) : (if b then 1 else 0 : Nat) ≤ 1 := by
  split <;> omega

theorem uncaptured_le_one (s : State) (j : Nat) : uncaptured s j ≤ 1 := by
  unfold uncaptured
  split
  · split <;> omega
  · omega

theorem uncaptured_eq {s s' : State} {j : Nat} (hrow : ∃ r, s.rows[j]? = some r)
    (hrows : ∀ r, s.rows[j]? = some r → s'.rows[j]? = some r) : uncaptured s' j = uncaptured s j := by
  obtain ⟨r, hr⟩ := hrow
  unfold uncaptured
  rw [hr, hrows r hr]

theorem slack_le (s : State) (j : Nat) : slack s j ≤ s.insts.length + 1 := by
  unfold slack
  have := List.countP_le_length (p := liveFree j) (l := s.insts)
  have := uncaptured_le_one s j
  omega

/-- a live instance with an idle poll is one unit of slack -/
theorem slack_pos {s : State} {i : Nat} {x : Inst} (j : Nat) (hi : s.insts[i]? = some x)
    (ha : x.alive = true) (hp : x.poll = .idle) : 1 ≤ slack s j := by
  unfold slack
  have : 0 < s.insts.countP (liveFree j) := by
    rw [List.countP_pos_iff]
    exact ⟨x, List.mem_of_getElem? hi, by simp [liveFree, pollHolds, ha, hp]⟩
  omega

theorem liveFree_congr {j : Nat} {x x' : Inst} (ha : x'.alive = x.alive) (hp : x'.poll = x.poll) :
    liveFree j x' = liveFree j x := by
  simp [liveFree, pollHolds, ha, hp]

/-! ## store operations leave the other rows alone -/

theorem cas_other {rows rows' : List Row} {id now j : Nat} {e : Option Nat}
    (h : cas rows id e now = some rows') (hne : id ≠ j) : rows'[j]? = rows[j]? := by
  obtain ⟨r, _, _, _, rfl⟩ := cas_spec h
  exact List.getElem?_set_ne hne

theorem del_other {rows rows' : List Row} {id j : Nat}
    (h : del rows id = some rows') (hne : id ≠ j) : rows'[j]? = rows[j]? := by
  obtain ⟨r, _, _, rfl⟩ := del_spec h
  exact List.getElem?_set_ne hne

/-- `captureAll` only touches the rows it captures -/
theorem captureAll_untouched (now : Nat) (j : Nat) : ∀ (cs : List (Nat × Option Nat)) (rows : List Row),
    j ∉ (captureAll now cs rows).2 → (captureAll now cs rows).1[j]? = rows[j]? := by
  intro cs
  induction cs with
  | nil => intro rows _; rfl
  | cons c cs ih =>
    intro rows h
    obtain ⟨id, seen⟩ := c
    simp only [captureAll] at h ⊢
    split
    · rename_i rows1 hc
      rw [hc] at h
      simp only [List.mem_cons, not_or] at h
      rw [ih rows1 h.2]
      exact cas_other hc (fun e => h.1 e.symm)
    · rename_i hc
      rw [hc] at h
      exact ih rows h

/-- `captureAll` leaves a row alone or leaves it with a captured_at -/
theorem captureAll_get (now : Nat) (j : Nat) : ∀ (cs : List (Nat × Option Nat)) (rows : List Row),
    (captureAll now cs rows).1[j]? = rows[j]? ∨
      ∃ r c, (captureAll now cs rows).1[j]? = some r ∧ r.capturedAt = some c := by
  intro cs
  induction cs with
  | nil => intro rows; exact Or.inl rfl
  | cons c cs ih =>
    intro rows
    obtain ⟨id, seen⟩ := c
    simp only [captureAll]
    split
    · rename_i rows1 hc
      rcases ih rows1 with h | h
      · by_cases hne : id = j
        · subst hne
          obtain ⟨r, hr, _, _, rfl⟩ := cas_spec hc
          have hlt : id < rows.length := (List.getElem?_eq_some_iff.mp hr).1
          right
          exact ⟨{ r with capturedAt := some now }, now, by rw [h]; simp [hlt], rfl⟩
        · left; rw [h]; exact cas_other hc hne
      · exact Or.inr h
    · exact ih rows

theorem endTx_get (tx : Nat) (o : Vis) (rows : List Row) (j : Nat) :
    (endTx tx o rows)[j]? =
      (rows[j]?).map (fun r => if r.vis = .uncommitted tx then { r with vis := o } else r) := by
  simp [endTx]

/-! ## building `Prog` -/

theorem Prog.refl {i j : Nat} {s : State} {d : Nat} : Prog i j s s d :=
  Or.inr ⟨Nat.le_add_right _ _, fun h => Or.inl h⟩

theorem Prog.mono {i j : Nat} {s s' : State} {d d' : Nat} (h : Prog i j s s' d) (hd : d ≤ d') :
    Prog i j s s' d' := by
  rcases h with h | ⟨h1, h2⟩
  · exact Or.inl h
  · exact Or.inr ⟨by omega, h2⟩

theorem prog_drop {i j : Nat} {s s' : State} {d : Nat} (h : slack s' j + 1 ≤ slack s j) :
    Prog i j s s' d :=
  Or.inr ⟨by omega, fun _ => Or.inr h⟩

/-- instance `k` changes from `inst` to `x'`, row `j` keeps its captured_at and, if committed,
    is unchanged; the pass of `i` is not disturbed -/
theorem prog_keep {i j k : Nat} {s s' : State} {inst x' : Inst} {d : Nat}
    (hk : s.insts[k]? = some inst) (hins : s'.insts = s.insts.set k x')
    (hunc : uncaptured s' j ≤ uncaptured s j)
    (hrows : ∀ r, s.rows[j]? = some r → r.vis = .committed → s'.rows[j]? = some r)
    (hlive : (if liveFree j x' then 1 else 0) ≤ (if liveFree j inst then 1 else 0) + d)
    (hpa : k = i → x'.alive = true → OnTrack i j s →
      inst.alive = true ∧ ∀ c, inst.poll = .selected c → x'.poll = inst.poll) :
    Prog i j s s' d := by
  right
  constructor
  · have := slack_set j hk hins
    omega
  · intro hot
    left
    intro y hy hya
    rw [hins] at hy
    by_cases hki : k = i
    · subst hki
      have hlt : k < s.insts.length := (List.getElem?_eq_some_iff.mp hk).1
      rw [List.getElem?_set_self hlt] at hy
      simp only [Option.some.injEq] at hy
      subst hy
      obtain ⟨hia, hp⟩ := hpa rfl hya hot
      obtain ⟨cands, r, hpoll, hr, hv, hm⟩ := hot inst hk hia
      exact ⟨cands, r, by rw [hp cands hpoll]; exact hpoll, hrows r hr hv, hv, hm⟩
    · rw [List.getElem?_set_ne hki] at hy
      obtain ⟨cands, r, hpoll, hr, hv, hm⟩ := hot y hy hya
      exact ⟨cands, r, hpoll, hrows r hr hv, hv, hm⟩

/-- the instances are unchanged -/
theorem prog_rows {i j : Nat} {s s' : State} {d : Nat} (hins : s'.insts = s.insts)
    (hunc : uncaptured s' j ≤ uncaptured s j)
    (hrows : ∀ r, s.rows[j]? = some r → r.vis = .committed → s'.rows[j]? = some r) :
    Prog i j s s' d := by
  right
  constructor
  · unfold slack; rw [hins]; omega
  · intro hot
    left
    intro y hy hya
    rw [hins] at hy
    obtain ⟨cands, r, hpoll, hr, hv, hm⟩ := hot y hy hya
    exact ⟨cands, r, hpoll, hrows r hr hv, hv, hm⟩

/-- instance `k` keeps `alive` and `poll`, row `j` is unchanged -/
theorem prog_same {i j k : Nat} {s s' : State} {inst x' : Inst} {d : Nat}
    (hrow : ∃ r, s.rows[j]? = some r)
    (hk : s.insts[k]? = some inst) (hins : s'.insts = s.insts.set k x')
    (hrows : ∀ r, s.rows[j]? = some r → s'.rows[j]? = some r)
    (ha : x'.alive = inst.alive) (hp : x'.poll = inst.poll) : Prog i j s s' d := by
  refine prog_keep hk hins ?_ (fun r h _ => hrows r h) ?_ ?_
  · rw [uncaptured_eq hrow hrows]; exact Nat.le_refl _
  · rw [liveFree_congr ha hp]; omega
  · intro _ h _; exact ⟨by rw [← ha]; exact h, fun _ _ => hp⟩

/-- instance `k` stops being free for `j` (its poll captured `j`, or it died) -/
theorem prog_drop_set {i j k : Nat} {s s' : State} {inst x' : Inst} {d : Nat}
    (hk : s.insts[k]? = some inst) (hins : s'.insts = s.insts.set k x')
    (h1 : liveFree j inst = true) (h2 : liveFree j x' = false)
    (hunc : uncaptured s' j ≤ uncaptured s j) : Prog i j s s' d := by
  apply prog_drop
  have := slack_set j hk hins
  simp only [h1, h2] at this
  simp at this
  omega

/-- the dispatcher capture: captured_at of row `j` goes from NULL to a value -/
theorem prog_drop_unc {i j k : Nat} {s s' : State} {inst x' : Inst} {d : Nat}
    (hk : s.insts[k]? = some inst) (hins : s'.insts = s.insts.set k x')
    (ha : x'.alive = inst.alive) (hp : x'.poll = inst.poll)
    (hunc : uncaptured s' j + 1 ≤ uncaptured s j) : Prog i j s s' d := by
  apply prog_drop
  have := slack_set j hk hins
  rw [liveFree_congr ha hp] at this
  omega


/-! ## the per-step lemma -/

theorem uncaptured_endTx (s : State) (tx : Nat) (o : Vis) (j : Nat) :
    uncaptured { s with rows := endTx tx o s.rows } j = uncaptured s j := by
  unfold uncaptured
  simp only [endTx_get]
  cases s.rows[j]? with
  | none => rfl
  | some r =>
    simp only [Option.map_some]
    split <;> rfl

theorem endTx_committed {tx : Nat} {o : Vis} {rows : List Row} {j : Nat} {r : Row}
    (hr : rows[j]? = some r) (hv : r.vis = .committed) : (endTx tx o rows)[j]? = some r := by
  rw [endTx_get, hr]
  simp [hv]

/-- L1 + L2 of the design: every step either invokes `j`, or raises slack by at most one and
    only if it is an abandoning step, and keeps an on-track pass on track unless a unit of
    slack is used up (somebody else won the CAS, or the pass itself captured `j`) -/
theorem live_step (cfg : Cfg) (s : State) (e : Step) (i j : Nat) (hs : Safe cfg s) (hgood : j ∉ cfg.bad)
    (hrow : ∃ r, s.rows[j]? = some r) :
    Prog i j s (step cfg s e) (if abandonStep s e then 1 else 0) := by
  have hext := step_ext cfg s e
  cases e with
  | schedule k ra key tx =>
    apply Prog.mono _ (Nat.zero_le _)
    simp only [step, stepSchedule]
    apply onInst_cases (P := fun x => Prog i j s x 0)
    · exact Prog.refl
    · intro inst hi ha
      refine prog_same hrow hi rfl ?_ rfl rfl
      intro r hr
      have hlt := (List.getElem?_eq_some_iff.mp hr).1
      simp [List.getElem?_append_left hlt, hr]
  | scheduleBad k => exact Prog.refl
  | commit tx =>
    exact prog_rows rfl (Nat.le_of_eq (uncaptured_endTx s tx _ j)) (fun r hr hv => endTx_committed hr hv)
  | rollback tx =>
    exact prog_rows rfl (Nat.le_of_eq (uncaptured_endTx s tx _ j)) (fun r hr hv => endTx_committed hr hv)
  | tick n => exact prog_rows rfl (Nat.le_refl _) (fun r hr _ => hr)
  | pop k =>
    apply Prog.mono _ (Nat.zero_le _)
    simp only [step, stepPop]
    apply onInst_cases (P := fun x => Prog i j s x 0)
    · exact Prog.refl
    · intro inst hi ha
      split
      · split
        · exact prog_same hrow hi rfl (fun r h => h) rfl rfl
        · exact Prog.refl
      · exact Prog.refl
  | task k j0 =>
    apply Prog.mono _ (Nat.zero_le _)
    simp only [step, stepTask] at hext ⊢
    revert hext
    apply onInst_cases (P := fun x => Ext s x → Prog i j s x 0)
    · intro _; exact Prog.refl
    · intro inst hi ha
      have hsi := hs.insts inst (List.mem_of_getElem? hi)
      split
      · rename_i t hfind
        obtain ⟨htm, htid⟩ := find_task hfind
        split
        · -- capture
          split
          · rename_i rows' hcas
            intro _
            by_cases hj : j0 = j
            · subst hj
              obtain ⟨r, hr, _, hcn, rfl⟩ := cas_spec hcas
              have hlt : j0 < s.rows.length := (List.getElem?_eq_some_iff.mp hr).1
              refine prog_drop_unc hi rfl rfl rfl ?_
              have h1 : uncaptured s j0 = 1 := by simp only [uncaptured, hr, hcn]; rfl
              rw [h1]
              simp [uncaptured, hlt]
            · exact prog_same hrow hi rfl (fun r h => by rw [cas_other hcas hj]; exact h) rfl rfl
          · intro _
            exact prog_same hrow hi rfl (fun r h => h) rfl rfl
        · -- prepare + invoke
          split
          · intro _
            exact prog_same hrow hi rfl (fun r h => h) rfl rfl
          · intro _
            exact prog_same hrow hi rfl (fun r h => h) rfl rfl
        · -- delete
          rename_i hstage
          split
          · rename_i rows' hdel
            intro hext
            by_cases hj : j0 = j
            · subst hj
              left
              have := (hsi.tasks t htm).2.2 hstage
              rw [htid] at this
              rcases this with h | h
              · exact h.mono hext
              · exact absurd h hgood
            · exact prog_same hrow hi rfl (fun r h => by rw [del_other hdel hj]; exact h) rfl rfl
          · intro _
            exact prog_same hrow hi rfl (fun r h => h) rfl rfl
      · intro _; exact Prog.refl
  | pollSelect k =>
    apply Prog.mono _ (Nat.zero_le _)
    simp only [step, stepPollSelect]
    apply onInst_cases (P := fun x => Prog i j s x 0)
    · exact Prog.refl
    · intro inst hi ha
      split
      · rename_i hpoll
        refine prog_keep hi rfl (Nat.le_refl _) (fun r h _ => h) ?_ ?_
        · simp [liveFree, pollHolds, hpoll]
        · intro _ _ _; exact ⟨ha, fun c hc => by rw [hpoll] at hc; cases hc⟩
      · exact Prog.refl
  | pollCapture k =>
    apply Prog.mono _ (Nat.zero_le _)
    simp only [step, stepPollCapture]
    apply onInst_cases (P := fun x => Prog i j s x 0)
    · exact Prog.refl
    · intro inst hi ha
      split
      · rename_i cands hpoll
        have hunc : uncaptured { s with rows := (captureAll s.clock cands s.rows).1 } j ≤ uncaptured s j := by
          rcases captureAll_get s.clock j cands s.rows with h | ⟨r, c, h, hc⟩
          · simp only [uncaptured, h]; exact Nat.le_refl _
          · simp [uncaptured, h, hc]
        by_cases hq : j ∈ (captureAll s.clock cands s.rows).2
        · refine prog_drop_set hi rfl ?_ ?_ hunc
          · simp [liveFree, pollHolds, hpoll, ha]
          · have hne : (captureAll s.clock cands s.rows).2 ≠ [] := by
              intro h; rw [h] at hq; simp at hq
            simp [liveFree, pollHolds, hne, hq]
        · have hsame := captureAll_untouched s.clock j cands s.rows hq
          refine prog_keep hi rfl hunc (fun r h _ => by simp only [hsame]; exact h) ?_ ?_
          · have h1 : liveFree j inst = true := by simp [liveFree, pollHolds, hpoll, ha]
            rw [h1]
            exact Nat.le_trans (ite_le_one _) (by simp)
          · -- the pass itself: on track means it does capture `j`
            intro _ _ hot
            exfalso
            obtain ⟨cands', r, hp', hr, hv, hm⟩ := hot inst (by subst_vars; exact hi) ha
            rw [hpoll] at hp'
            simp only [Poll.selected.injEq] at hp'
            subst hp'
            exact hq (captureAll_captures s.clock _ s.rows j r hm hr hv)
      · exact Prog.refl
  | pollNext k =>
    simp only [step, stepPollNext] at hext ⊢
    revert hext
    apply onInst_cases (P := fun x => Ext s x → Prog i j s x (if abandonStep s (.pollNext k) then 1 else 0))
    · intro _; exact Prog.refl
    · intro inst hi ha
      have hsi := hs.insts inst (List.mem_of_getElem? hi)
      split
      · rename_i a q hpoll
        split
        · intro _
          refine prog_keep hi rfl (Nat.le_refl _) (fun r h _ => h) ?_ ?_
          · simp [liveFree, pollHolds, hpoll]
          · intro _ _ _; exact ⟨ha, fun c hc => by rw [hpoll] at hc; cases hc⟩
        · intro _
          refine prog_keep hi rfl (Nat.le_refl _) (fun r h _ => h) ?_ ?_
          · simp [liveFree, pollHolds, hpoll]
          · intro _ _ _; exact ⟨ha, fun c hc => by rw [hpoll] at hc; cases hc⟩
      · rename_i a q hpoll
        split
        · rename_i rows' hdel
          intro hext
          by_cases hj : a = j
          · subst hj
            left
            rcases (hsi.run _ _ hpoll).2 rfl a q rfl with h | h
            · exact h.mono hext
            · exact absurd h hgood
          · refine prog_keep hi rfl ?_ (fun r h _ => by rw [del_other hdel hj]; exact h) ?_ ?_
            · simp only [uncaptured, del_other hdel hj]; exact Nat.le_refl _
            · have : liveFree j { inst with poll := if q = [] then .idle else .running q false } = liveFree j inst := by
                by_cases hq : q = []
                · subst hq
                  simp [liveFree, pollHolds, hpoll]
                  intro _ h; exact absurd h.symm hj
                · have hja : ¬ j = a := fun e => hj e.symm
                  simp [liveFree, pollHolds, hpoll, hq, hja]
              rw [this]; omega
            · intro _ _ _; exact ⟨ha, fun c hc => by rw [hpoll] at hc; cases hc⟩
        · rename_i hdel
          intro _
          have hab : abandonStep s (.pollNext k) = true := by
            simp [abandonStep, hi, ha, hpoll, hdel]
          rw [hab]
          refine prog_keep hi rfl (Nat.le_refl _) (fun r h _ => h) ?_ ?_
          · exact Nat.le_trans (ite_le_one _) (by simp)
          · intro _ _ _; exact ⟨ha, fun c hc => by rw [hpoll] at hc; cases hc⟩
      · intro _; exact Prog.refl
  | crash k =>
    apply Prog.mono _ (Nat.zero_le _)
    simp only [step, stepCrash]
    split
    · rename_i inst hi
      refine prog_keep hi rfl (Nat.le_refl _) (fun r h _ => h) ?_ ?_
      · simp [liveFree]
      · intro _ h; simp at h
    · exact Prog.refl

/-! ## along a run -/

theorem abandons_append (cfg : Cfg) : ∀ (a b : List Step) (s : State),
    abandons cfg s (a ++ b) = abandons cfg s a + abandons cfg (run cfg s a) b := by
  intro a
  induction a with
  | nil => intro b s; simp [abandons, run]
  | cons e es ih => intro b s; simp only [List.cons_append, abandons, run, ih]; omega

theorem WasCommitted.row {s : State} {j : Nat} (h : WasCommitted s j) : ∃ r, s.rows[j]? = some r := by
  obtain ⟨r, hr, _⟩ := h
  exact ⟨r, hr⟩

/-- over an arbitrary segment slack grows at most by the number of abandoning steps -/
theorem slack_run (cfg : Cfg) (j : Nat) (hgood : j ∉ cfg.bad) : ∀ (l : List Step) (s : State), Safe cfg s → WasCommitted s j →
    Invoked (run cfg s l) j ∨ slack (run cfg s l) j ≤ slack s j + abandons cfg s l := by
  intro l
  induction l with
  | nil => intro s _ _; right; simp [run, abandons]
  | cons e es ih =>
    intro s hs hw
    simp only [run, abandons]
    have hext := step_ext cfg s e
    rcases live_step cfg s e 0 j hs hgood hw.row with h | ⟨h, _⟩
    · exact Or.inl (h.mono (run_ext cfg es _))
    · rcases ih _ (safe_step cfg s e hs) (hw.mono hext) with h2 | h2
      · exact Or.inl h2
      · right; omega

/-- the invariant carried through a pass of instance `i` with budget `c` -/
def PassInv (i j : Nat) (s : State) (c : Nat) : Prop :=
  Invoked s j ∨ slack s j + 1 ≤ c ∨ (slack s j ≤ c ∧ OnTrack i j s)

theorem passInv_step (cfg : Cfg) (s : State) (e : Step) (i j c : Nat) (hs : Safe cfg s) (hgood : j ∉ cfg.bad)
    (hrow : ∃ r, s.rows[j]? = some r) (h : PassInv i j s c) :
    PassInv i j (step cfg s e) (c + (if abandonStep s e then 1 else 0)) := by
  rcases live_step cfg s e i j hs hgood hrow with hp | ⟨h1, h2⟩
  · exact Or.inl hp
  · rcases h with h | h | ⟨h, hot⟩
    · exact Or.inl (h.mono (step_ext cfg s e))
    · right; left; omega
    · rcases h2 hot with h3 | h3
      · right; right; exact ⟨by omega, h3⟩
      · right; left; omega

theorem passInv_run (cfg : Cfg) (i j : Nat) (hgood : j ∉ cfg.bad) : ∀ (l : List Step) (s : State) (c : Nat), Safe cfg s →
    WasCommitted s j → PassInv i j s c → PassInv i j (run cfg s l) (c + abandons cfg s l) := by
  intro l
  induction l with
  | nil => intro s c _ _ h; simpa [run, abandons] using h
  | cons e es ih =>
    intro s c hs hw h
    simp only [run, abandons]
    have := ih _ _ (safe_step cfg s e hs) (hw.mono (step_ext cfg s e))
      (passInv_step cfg s e i j c hs hgood hw.row h)
    rw [Nat.add_assoc] at this
    exact this

/-- every fair pass either invokes `j` or uses up one unit of slack -/
theorem pass_step (cfg : Cfg) (hb : cfg.batch = none) (j : Nat) (hgood : j ∉ cfg.bad) (s : State) (p : List Step)
    (hs : Safe cfg s) (hp : FairPass cfg j s p) :
    Invoked (run cfg s p) j ∨ slack (run cfg s p) j + 1 ≤ slack s j + abandons cfg s p := by
  obtain ⟨i, inst, inst', mid, rfl, hi, ha, hidle, hready, hi', ha', hidle'⟩ := hp
  rcases hready with hinv | ⟨r, hr, hel⟩
  · exact Or.inl (hinv.mono (run_ext cfg _ s))
  · obtain ⟨hv, _, _⟩ := eligible_spec hel
    have hlt : i < s.insts.length := (List.getElem?_eq_some_iff.mp hi).1
    have hstep : step cfg s (.pollSelect i) =
        setInst s i { inst with poll := .selected (selectCands cfg s.clock s.rows) } := by
      simp [step, stepPollSelect, onInst, hi, ha, hidle]
    have hab : abandonStep s (.pollSelect i) = false := rfl
    simp only [run, abandons, hab] at hi' ⊢
    rw [hstep] at hi' ⊢
    have hsl : slack (setInst s i { inst with poll := .selected (selectCands cfg s.clock s.rows) }) j
        = slack s j := by
      have h1 := slack_set (s' := setInst s i { inst with poll := .selected (selectCands cfg s.clock s.rows) })
        j hi rfl
      have h2 : liveFree j inst = true := by simp [liveFree, pollHolds, ha, hidle]
      have h3 : liveFree j { inst with poll := .selected (selectCands cfg s.clock s.rows) } = true := by
        simp [liveFree, pollHolds, ha]
      have h4 : uncaptured (setInst s i { inst with poll := .selected (selectCands cfg s.clock s.rows) }) j
          = uncaptured s j := rfl
      rw [h2, h3, h4] at h1
      omega
    have hot : OnTrack i j (setInst s i { inst with poll := .selected (selectCands cfg s.clock s.rows) }) := by
      intro y hy _
      simp only [setInst, List.getElem?_set_self hlt, Option.some.injEq] at hy
      subst hy
      exact ⟨_, r, rfl, hr, hv, mem_selectCands_nobatch hb hr hel⟩
    have hs1 : Safe cfg (setInst s i { inst with poll := .selected (selectCands cfg s.clock s.rows) }) := by
      rw [← hstep]; exact safe_step cfg s _ hs
    have hw1 : WasCommitted (setInst s i { inst with poll := .selected (selectCands cfg s.clock s.rows) }) j :=
      ⟨r, hr, Or.inl hv⟩
    have := passInv_run cfg i j hgood mid _ _ hs1 hw1 (Or.inr (Or.inr ⟨Nat.le_refl _, hot⟩))
    rw [hsl] at this
    rcases this with h | h | ⟨_, h⟩
    · exact Or.inl h
    · right; omega
    · obtain ⟨cands, _, hsel, _⟩ := h inst' hi' ha'
      rw [hidle'] at hsel
      cases hsel

/-- `k` fair passes without an invocation need `k + 1` units of slack + abandoned loops -/
theorem fairPasses_bound (cfg : Cfg) (hb : cfg.batch = none) (j : Nat) (hgood : j ∉ cfg.bad) {k : Nat} {s : State}
    {steps : List Step} (hf : FairPasses cfg j k s steps) : Safe cfg s → WasCommitted s j →
    Invoked (run cfg s steps) j ∨ k = 0 ∨ k + 1 ≤ slack s j + abandons cfg s steps := by
  induction hf with
  | zero s steps => intro _ _; exact Or.inr (Or.inl rfl)
  | succ k s pre p post hp _ ih =>
    intro hs hw
    have hs1 : Safe cfg (run cfg s pre) := run_inv cfg (fun s e h => safe_step cfg s e h) pre s hs
    have hw1 : WasCommitted (run cfg s pre) j := hw.mono (run_ext cfg pre s)
    have hs2 : Safe cfg (run cfg s (pre ++ p)) := run_inv cfg (fun s e h => safe_step cfg s e h) _ s hs
    have hw2 : WasCommitted (run cfg s (pre ++ p)) j := hw.mono (run_ext cfg _ s)
    have e2 : run cfg s (pre ++ p) = run cfg (run cfg s pre) p := run_append cfg s pre p
    have hend : run cfg s (pre ++ p ++ post) = run cfg (run cfg s (pre ++ p)) post :=
      run_append cfg s (pre ++ p) post
    have hpos : 1 ≤ slack (run cfg s (pre ++ p)) j := by
      obtain ⟨i, _, inst', _, _, _, _, _, _, hi', ha', hidle'⟩ := hp
      rw [e2]
      exact slack_pos j hi' ha' hidle'
    have hab : abandons cfg s (pre ++ p ++ post) =
        abandons cfg s pre + abandons cfg (run cfg s pre) p + abandons cfg (run cfg s (pre ++ p)) post := by
      rw [abandons_append, abandons_append]
    rw [hend, hab]
    rcases ih hs2 hw2 with h | h | h
    · exact Or.inl h
    · -- no further pass: this one alone
      rcases slack_run cfg j hgood pre s hs hw with h1 | h1
      · exact Or.inl (h1.mono (Ext.trans (run_ext cfg p _) (by rw [← e2]; exact run_ext cfg post _)))
      · rcases pass_step cfg hb j hgood _ p hs1 hp with h2 | h2
        · exact Or.inl (by rw [← e2] at h2; exact h2.mono (run_ext cfg post _))
        · rw [← e2] at h2
          right; right; omega
    · rcases slack_run cfg j hgood pre s hs hw with h1 | h1
      · exact Or.inl (h1.mono (Ext.trans (run_ext cfg p _) (by rw [← e2]; exact run_ext cfg post _)))
      · rcases pass_step cfg hb j hgood _ p hs1 hp with h2 | h2
        · exact Or.inl (by rw [← e2] at h2; exact h2.mono (run_ext cfg post _))
        · rw [← e2] at h2
          right; right; omega

/-! ## the number of instances never changes -/

theorem step_insts_length (cfg : Cfg) (s : State) (e : Step) :
    (step cfg s e).insts.length = s.insts.length := by
  cases e with
  | schedule i ra key tx =>
    simp only [step, stepSchedule]
    apply onInst_cases (P := fun x => x.insts.length = s.insts.length)
    · rfl
    · intro _ _ _; simp
  | scheduleBad i => rfl
  | commit tx => rfl
  | rollback tx => rfl
  | tick n => rfl
  | pop i =>
    simp only [step, stepPop]
    apply onInst_cases (P := fun x => x.insts.length = s.insts.length)
    · rfl
    · intro _ _ _; split
      · split
        · simp [setInst]
        · rfl
      · rfl
  | task i j =>
    simp only [step, stepTask]
    apply onInst_cases (P := fun x => x.insts.length = s.insts.length)
    · rfl
    · intro _ _ _
      split
      · split
        · split <;> simp [setInst]
        · split <;> simp [setInst]
        · split <;> simp [setInst]
      · rfl
  | pollSelect i =>
    simp only [step, stepPollSelect]
    apply onInst_cases (P := fun x => x.insts.length = s.insts.length)
    · rfl
    · intro _ _ _; split
      · simp [setInst]
      · rfl
  | pollCapture i =>
    simp only [step, stepPollCapture]
    apply onInst_cases (P := fun x => x.insts.length = s.insts.length)
    · rfl
    · intro _ _ _; split
      · simp
      · rfl
  | pollNext i =>
    simp only [step, stepPollNext]
    apply onInst_cases (P := fun x => x.insts.length = s.insts.length)
    · rfl
    · intro _ _ _; split
      · split <;> simp [setInst]
      · split <;> simp [setInst]
      · rfl
  | crash i =>
    simp only [step, stepCrash]
    split
    · simp [setInst]
    · rfl

theorem run_insts_length (cfg : Cfg) (n : Nat) (steps : List Step) :
    (run cfg (init n) steps).insts.length = n := by
  have := run_inv (P := fun s => s.insts.length = n) cfg
    (fun s e h => by rw [step_insts_length]; exact h) steps (init n) (by simp [init])
  exact this

/-! ## a job that cannot be prepared is never invoked -/

def NoBadInvoked (cfg : Cfg) (s : State) : Prop :=
  ∀ j t i, Ev.invoked j t i ∈ s.trace → j ∉ cfg.bad

theorem noBad_step (cfg : Cfg) (s : State) (e : Step) (h : NoBadInvoked cfg s) :
    NoBadInvoked cfg (step cfg s e) := by
  cases e with
  | schedule k ra key tx =>
    simp only [step, stepSchedule]
    apply onInst_cases (P := NoBadInvoked cfg)
    · exact h
    · intro _ _ _; exact h
  | scheduleBad k => exact h
  | commit tx => exact h
  | rollback tx => exact h
  | tick n => exact h
  | pop k =>
    simp only [step, stepPop]
    apply onInst_cases (P := NoBadInvoked cfg)
    · exact h
    · intro _ _ _
      split
      · split
        · exact h
        · exact h
      · exact h
  | task k j0 =>
    simp only [step, stepTask]
    apply onInst_cases (P := NoBadInvoked cfg)
    · exact h
    · intro _ _ _
      split
      · split
        · split
          · intro j t i hm
            simp only [List.mem_cons] at hm
            rcases hm with hm | hm
            · cases hm
            · exact h j t i hm
          · exact h
        · split
          · exact h
          · rename_i hb
            intro j t i hm
            simp only [List.mem_cons] at hm
            rcases hm with hm | hm
            · cases hm; simpa using hb
            · exact h j t i hm
        · split
          · intro j t i hm
            simp only [List.mem_cons] at hm
            rcases hm with hm | hm
            · cases hm
            · exact h j t i hm
          · exact h
      · exact h
  | pollSelect k =>
    simp only [step, stepPollSelect]
    apply onInst_cases (P := NoBadInvoked cfg)
    · exact h
    · intro _ _ _; split
      · exact h
      · exact h
  | pollCapture k =>
    simp only [step, stepPollCapture]
    apply onInst_cases (P := NoBadInvoked cfg)
    · exact h
    · intro _ _ _; split
      · intro j t i hm
        simp only [List.mem_append, List.mem_reverse, List.mem_map] at hm
        rcases hm with ⟨_, _, hm⟩ | hm
        · cases hm
        · exact h j t i hm
      · exact h
  | pollNext k =>
    simp only [step, stepPollNext]
    apply onInst_cases (P := NoBadInvoked cfg)
    · exact h
    · intro _ _ _; split
      · split
        · exact h
        · rename_i hb
          intro j t i hm
          simp only [List.mem_cons] at hm
          rcases hm with hm | hm
          · cases hm; simpa using hb
          · exact h j t i hm
      · split
        · intro j t i hm
          simp only [List.mem_cons] at hm
          rcases hm with hm | hm
          · cases hm
          · exact h j t i hm
        · exact h
      · exact h
  | crash k =>
    simp only [step, stepCrash]
    split
    · exact h
    · exact h

theorem noBad_reachable (cfg : Cfg) (n : Nat) (steps : List Step) : NoBadInvoked cfg (run cfg (init n) steps) :=
  run_inv cfg (fun s e h => noBad_step cfg s e h) steps _ (by intro j t i hm; simp [init] at hm)

/-! ## the three shapes of a `pollNext` step -/

theorem pollNext_bad_head (cfg : Cfg) (s : State) (i a : Nat) (q : List Nat) (inst : Inst)
    (hi : s.insts[i]? = some inst) (ha : inst.alive = true) (hp : inst.poll = .running (a :: q) false)
    (hbad : a ∈ cfg.bad) :
    step cfg s (.pollNext i) = setInst s i { inst with poll := .running (a :: q) true } := by
  simp [step, stepPollNext, onInst, hi, ha, hp, hbad]

theorem pollNext_good_head (cfg : Cfg) (s : State) (i a : Nat) (q : List Nat) (inst : Inst)
    (hi : s.insts[i]? = some inst) (ha : inst.alive = true) (hp : inst.poll = .running (a :: q) false)
    (hgood : a ∉ cfg.bad) :
    step cfg s (.pollNext i) =
      { s with trace := .invoked a s.clock i :: s.trace
               insts := s.insts.set i { inst with poll := .running (a :: q) true } } := by
  simp [step, stepPollNext, onInst, hi, ha, hp, hgood]

theorem pollNext_delete (cfg : Cfg) (s : State) (i a : Nat) (q : List Nat) (inst : Inst) (rows' : List Row)
    (hi : s.insts[i]? = some inst) (ha : inst.alive = true) (hp : inst.poll = .running (a :: q) true)
    (hdel : del s.rows a = some rows') :
    step cfg s (.pollNext i) =
      { s with rows := rows', trace := .deleted a s.clock i :: s.trace
               insts := s.insts.set i { inst with poll := if q = [] then .idle else .running q false } } := by
  simp [step, stepPollNext, onInst, hi, ha, hp, hdel]

end Mistral.Sched
