import Mistral.Lemmas.EngineJoin
namespace Mistral.Engine
open Mistral Mistral.Join

/-! ### which steps can make a task execution RUNNING -/

/-- every RUNNING row has an identity in `S` -/
def RunningWithin (S : Tid → Prop) (ts : List TaskRow) : Prop :=
  ∀ r ∈ ts, r.state = .RUNNING → S (r.name, r.occ)

theorem mem_setTask (ts : List TaskRow) (r x : TaskRow) (h : x ∈ setTask ts r) : x ∈ ts ∨ x = r := by
  unfold setTask at h
  rcases List.mem_map.mp h with ⟨y, hy, rfl⟩
  split
  · exact Or.inr rfl
  · exact Or.inl hy

theorem rw_setTask (S : Tid → Prop) (ts : List TaskRow) (r : TaskRow) (h : RunningWithin S ts)
    (hr : r.state = .RUNNING → S (r.name, r.occ)) : RunningWithin S (setTask ts r) := by
  intro x hx hs
  rcases mem_setTask ts r x hx with h1 | h1
  · exact h x h1 hs
  · subst h1; exact hr hs

theorem rw_append (S : Tid → Prop) (ts : List TaskRow) (r : TaskRow) (h : RunningWithin S ts)
    (hr : r.state = .RUNNING → S (r.name, r.occ)) : RunningWithin S (ts ++ [r]) := by
  intro x hx hs
  rcases List.mem_append.mp hx with h1 | h1
  · exact h x h1 hs
  · have : x = r := by simpa using h1
    subst this; exact hr hs

theorem rw_mono (S T : Tid → Prop) (ts : List TaskRow) (h : RunningWithin S ts) (hst : ∀ t, S t → T t) :
    RunningWithin T ts := fun r hr hs => hst _ (h r hr hs)

theorem dispatchOne_rw (S : Tid → Prop) (sp : Spec) (w : World) (c : Cmd) (h : RunningWithin S w.tasks) :
    RunningWithin S (dispatchOne sp w c).tasks := by
  unfold dispatchOne
  simp only
  split
  · exact h
  · split
    · exact h
    · split
      · split
        · exact rw_append S _ _ h (by intro hs; simp [newRow] at hs)
        · split
          · exact rw_setTask S _ _ h (by intro hs; simp at hs)
          · exact h
      · exact rw_append S _ _ h (by intro hs; simp [newRow] at hs)

theorem dispatch_rw (S : Tid → Prop) (sp : Spec) (cs : List Cmd) :
    ∀ w, RunningWithin S w.tasks → RunningWithin S (dispatch sp w cs).tasks := by
  unfold dispatch
  induction cs with
  | nil => intro w h; exact h
  | cons c rest ih => intro w h; simp only [List.foldl_cons]; exact ih _ (dispatchOne_rw S sp w c h)

theorem checkAffected_rw (S : Tid → Prop) (sp : Spec) (w : World) (t : Tid) (h : RunningWithin S w.tasks) :
    RunningWithin S (checkAffected sp w t).tasks := by
  rw [(checkAffected_tasks sp w t).1]; exact h

theorem completeTask_rw (S : Tid → Prop) (sp : Spec) (w : World) (r : TaskRow) (s : St) (hs : s ≠ .RUNNING)
    (h : RunningWithin S w.tasks) : RunningWithin S (completeTask sp w r s).tasks := by
  unfold completeTask
  split
  · exact checkAffected_rw S sp w _ h
  · simp only
    apply checkAffected_rw
    split
    · refine rw_setTask S _ _ h ?_
      intro hx; exact absurd hx hs
    · apply dispatch_rw
      split <;> (try split) <;>
        (refine rw_setTask S _ _ (rw_setTask S _ _ h ?_) ?_ <;> (intro hx; exact absurd hx hs))

theorem findTask_id (w : World) (t : Tid) (r : TaskRow) (h : findTask w t = some r) : (r.name, r.occ) = t := by
  unfold findTask at h
  have := List.find?_some h
  simp only [Bool.and_eq_true, beq_iff_eq] at this
  exact Prod.ext this.1 this.2

/-- what can make the execution `t` RUNNING in one step: an RPC `start_task` for it, or its
    refresh job when the join verdict on the rows of that moment is RUNNING -/
def StartCause (sp : Spec) (w : World) (ev : Event) (t : Tid) : Prop :=
  (∃ f r, ev = .deliver (.rpcStartTask t f) ∧ Item.rpcStartTask t f ∈ w.pending ∧ findTask w t = some r ∧
     (f = true → r.state = .IDLE)) ∨
  (ev = .deliver (.jobRefresh t) ∧ ∃ k L, isJoin sp t.1 = some k ∧
     joinLogicalState sp.graph (rowsOf w) (fuelFor sp) t.1 k = some L ∧ L.state = .RUNNING)

theorem rw_map (S : Tid → Prop) (ts : List TaskRow) (f : TaskRow → TaskRow) (h : RunningWithin S ts)
    (hf : ∀ t, (f t).state = t.state ∧ (f t).name = t.name ∧ (f t).occ = t.occ) : RunningWithin S (ts.map f) := by
  intro x hx hs
  rcases List.mem_map.mp hx with ⟨y, hy, rfl⟩
  have := hf y
  rw [this.2.1, this.2.2]
  exact h y hy (by rw [← this.1]; exact hs)

theorem checkAndComplete_rw (S : Tid → Prop) (w : World) (h : RunningWithin S w.tasks) :
    RunningWithin S (checkAndComplete w).tasks := by
  rw [checkAndComplete_tasks]; exact h

/-- one step makes RUNNING only the executions it has a start cause for -/
theorem step_running (sp : Spec) (w : World) (ev : Event) (S : Tid → Prop) (h : RunningWithin S w.tasks) :
    RunningWithin (fun t => S t ∨ StartCause sp w ev t) (step sp w ev).tasks := by
  have h0 : RunningWithin (fun t => S t ∨ StartCause sp w ev t) w.tasks := rw_mono _ _ _ h (fun _ => Or.inl)
  cases ev with
  | start =>
    simp only [step]
    split
    · exact h0
    · exact dispatch_rw _ sp _ _ h0
  | pause => exact h0
  | stop t => exact h0
  | execute t ok =>
    simp only [step]
    split <;> exact h0
  | resume =>
    simp only [step]
    split
    · exact h0
    · split
      · exact h0
      · have hm : RunningWithin (fun t => S t ∨ StartCause sp w Event.resume t)
            (w.tasks.map fun t => if isCompleted t.state && !t.processed then { t with processed := true } else t) := by
          apply rw_map _ _ _ h0
          intro t
          split <;> exact ⟨rfl, rfl, rfl⟩
        split
        · exact checkAndComplete_rw _ _ hm
        · apply dispatch_rw
          exact dispatch_rw _ sp _ _ hm
  | deliver it =>
    cases it with
    | postStartTask t f => simp only [step]; split <;> exact h0
    | postRunAction t => simp only [step]; split <;> exact h0
    | runAction t => simp only [step]; split <;> exact h0
    | postCheck => simp only [step]; split; exact h0; exact checkAndComplete_rw _ _ h0
    | postSchedRefresh t => simp only [step]; split; exact h0; split <;> exact h0
    | rpcResult t ok =>
      simp only [step]
      split
      · exact h0
      · split
        · exact h0
        · refine completeTask_rw _ sp _ _ _ ?_ h0
          split <;> decide
    | rpcStartTask t f =>
      simp only [step]
      split
      · exact h0
      · split
        · exact h0
        · rename_i r hr
          have hid := findTask_id _ _ _ hr
          rename_i hp _
          have hp' : Item.rpcStartTask t f ∈ w.pending := by simpa using hp
          have hc : (f = true → r.state = .IDLE) →
              StartCause sp w (Event.deliver (Item.rpcStartTask t f)) (r.name, r.occ) := by
            intro hf
            rw [hid]; exact Or.inl ⟨f, r, rfl, hp', hr, hf⟩
          split
          · split
            · rename_i hidle
              exact rw_setTask _ _ _ h0 (fun _ => Or.inr (hc (fun _ => by simpa using hidle)))
            · split
              · split <;> exact h0
              · exact checkAffected_rw _ sp _ _ h0
          · rename_i hf
            split
            · exact h0
            · split
              · exact checkAffected_rw _ sp _ _ h0
              · split
                · exact h0
                · exact rw_setTask _ _ _ h0 (fun _ => Or.inr (hc (fun hft => absurd hft hf)))
    | jobRefresh t =>
      simp only [step]
      split
      · exact h0
      · split
        · exact h0
        · rename_i r hr
          have hid := findTask_id _ _ _ hr
          split
          · exact h0
          · split
            · exact h0
            · split
              · exact h0
              · rename_i k hk
                split
                · exact h0
                · rename_i L hL
                  have hrn : r.state ≠ .RUNNING := by
                    rename_i hnr _ _ _
                    intro hx; rw [hx] at hnr; simp at hnr
                  split
                  · rename_i hLs
                    have hc : StartCause sp w (Event.deliver (Item.jobRefresh t)) (r.name, r.occ) := by
                      rw [hid]
                      exact Or.inr ⟨rfl, k, L, hk, hL, by simpa using hLs⟩
                    split
                    · refine rw_setTask _ _ _ (rw_setTask _ _ _ h0 ?_) (fun _ => Or.inr hc)
                      intro hx; exact absurd hx hrn
                    · refine rw_setTask _ _ _ (rw_setTask _ _ _ h0 ?_) (fun _ => Or.inr hc)
                      intro hx; exact absurd hx hrn
                  · split
                    · refine completeTask_rw _ sp _ _ _ (by decide) (rw_setTask _ _ _ h0 ?_)
                      intro hx; exact absurd hx hrn
                    · refine rw_setTask _ _ _ h0 ?_
                      intro hx; exact absurd hx hrn

/-! ### joins are never IDLE and are never started through a re-run request -/

def NoIdleJoin (sp : Spec) (ts : List TaskRow) : Prop :=
  ∀ r ∈ ts, (isJoin sp r.name).isSome = true → r.state ≠ .IDLE

/-- items other than a re-run request (`start_task` with `first_run = false`) -/
def harmless : Item → Bool
  | .postStartTask _ false => false
  | .rpcStartTask _ false => false
  | _ => true

def PendOK (sp : Spec) (p : List Item) : Prop :=
  ∀ x ∈ p, harmless x = false → ∀ t f, (x = .postStartTask t f ∨ x = .rpcStartTask t f) → isJoin sp t.1 = none

def JoinInv (sp : Spec) (w : World) : Prop := NoIdleJoin sp w.tasks ∧ PendOK sp w.pending

theorem nij_setTask (sp : Spec) (ts : List TaskRow) (r : TaskRow) (h : NoIdleJoin sp ts)
    (hr : r.state ≠ .IDLE) : NoIdleJoin sp (setTask ts r) := by
  intro x hx hj
  rcases mem_setTask ts r x hx with h1 | h1
  · exact h x h1 hj
  · subst h1; exact hr

theorem nij_append (sp : Spec) (ts : List TaskRow) (r : TaskRow) (h : NoIdleJoin sp ts)
    (hr : (isJoin sp r.name).isSome = true → r.state ≠ .IDLE) : NoIdleJoin sp (ts ++ [r]) := by
  intro x hx hj
  rcases List.mem_append.mp hx with h1 | h1
  · exact h x h1 hj
  · have : x = r := by simpa using h1
    subst this; exact hr hj

theorem pendOK_append (sp : Spec) (p q : List Item) (hp : PendOK sp p) (hq : ∀ x ∈ q, harmless x = true) :
    PendOK sp (p ++ q) := by
  intro x hx hh
  rcases List.mem_append.mp hx with h1 | h1
  · exact hp x h1 hh
  · rw [hq x h1] at hh; exact absurd hh (by decide)

theorem mem_removeFirst (l : List Item) (it x : Item) (h : x ∈ removeFirst l it) : x ∈ l := by
  induction l with
  | nil => simp [removeFirst] at h
  | cons y ys ih =>
    unfold removeFirst at h
    split at h
    · exact List.mem_cons_of_mem _ h
    · rcases List.mem_cons.mp h with h1 | h1
      · rw [h1]; exact List.mem_cons_self
      · exact List.mem_cons_of_mem _ (ih h1)

theorem pendOK_removeFirst (sp : Spec) (p : List Item) (it : Item) (hp : PendOK sp p) :
    PendOK sp (removeFirst p it) :=
  fun x hx => hp x (mem_removeFirst p it x hx)

theorem dispatchOne_ji (sp : Spec) (w : World) (c : Cmd) (h : JoinInv sp w) : JoinInv sp (dispatchOne sp w c) := by
  unfold dispatchOne
  simp only
  split
  · exact h
  · split
    · exact h
    · split
      · split
        · refine ⟨nij_append sp _ _ h.1 ?_, pendOK_append sp _ _ h.2 ?_⟩
          · intro _; simp [newRow]
          · intro x hx; rw [List.mem_singleton.mp hx]; rfl
        · split
          · refine ⟨nij_setTask sp _ _ h.1 (by simp), pendOK_append sp _ _ h.2 ?_⟩
            intro x hx; rw [List.mem_singleton.mp hx]; rfl
          · refine ⟨h.1, pendOK_append sp _ _ h.2 ?_⟩
            intro x hx; rw [List.mem_singleton.mp hx]; rfl
      · rename_i hnj
        refine ⟨nij_append sp _ _ h.1 ?_, pendOK_append sp _ _ h.2 ?_⟩
        · intro hj; simp [newRow, hnj] at hj
        · intro x hx; rw [List.mem_singleton.mp hx]; rfl

theorem dispatch_ji (sp : Spec) (cs : List Cmd) : ∀ w, JoinInv sp w → JoinInv sp (dispatch sp w cs) := by
  unfold dispatch
  induction cs with
  | nil => intro w h; exact h
  | cons c rest ih => intro w h; simp only [List.foldl_cons]; exact ih _ (dispatchOne_ji sp w c h)

theorem checkAffected_ji (sp : Spec) (w : World) (t : Tid) (h : JoinInv sp w) : JoinInv sp (checkAffected sp w t) := by
  unfold checkAffected
  split
  · exact h
  · split
    · exact h
    · split
      · exact h
      · refine ⟨h.1, pendOK_append sp _ _ h.2 ?_⟩
        intro x hx
        rcases List.mem_filterMap.mp hx with ⟨n, _, hn⟩
        cases hf : findByName w n with
        | none => simp [hf] at hn
        | some j => simp [hf] at hn; subst hn; rfl

theorem checkAndComplete_pending (w : World) : (checkAndComplete w).pending = w.pending := by
  unfold checkAndComplete
  split
  · rfl
  · split
    · rfl
    · split
      · rfl
      · split <;> rfl

theorem checkAndComplete_ji (sp : Spec) (w : World) (h : JoinInv sp w) : JoinInv sp (checkAndComplete w) := by
  unfold JoinInv
  rw [checkAndComplete_tasks, checkAndComplete_pending]; exact h

theorem completeTask_ji (sp : Spec) (w : World) (r : TaskRow) (s : St) (hs : s ≠ .IDLE) (h : JoinInv sp w) :
    JoinInv sp (completeTask sp w r s) := by
  unfold completeTask
  split
  · exact checkAffected_ji sp w _ h
  · simp only
    apply checkAffected_ji
    split
    · refine ⟨nij_setTask sp _ _ h.1 ?_, h.2⟩
      intro hx; exact absurd hx hs
    · apply dispatch_ji
      split <;> (try split)
      all_goals first
        | (refine ⟨nij_setTask sp _ _ (nij_setTask sp _ _ h.1 ?_) ?_, pendOK_append sp _ _ h.2 ?_⟩
           · intro hx; exact absurd hx hs
           · intro hx; exact absurd hx hs
           · intro x hx; rw [List.mem_singleton.mp hx]; rfl)
        | (refine ⟨nij_setTask sp _ _ (nij_setTask sp _ _ h.1 ?_) ?_, h.2⟩
           · intro hx; exact absurd hx hs
           · intro hx; exact absurd hx hs)

theorem nij_map (sp : Spec) (ts : List TaskRow) (f : TaskRow → TaskRow) (h : NoIdleJoin sp ts)
    (hf : ∀ t, (f t).state = t.state ∧ (f t).name = t.name) : NoIdleJoin sp (ts.map f) := by
  intro x hx hj
  rcases List.mem_map.mp hx with ⟨y, hy, rfl⟩
  have := hf y
  rw [this.1]
  exact h y hy (by rw [← this.2]; exact hj)

theorem pendOK_append' (sp : Spec) (p q : List Item) (hp : PendOK sp p) (hq : PendOK sp q) : PendOK sp (p ++ q) := by
  intro x hx
  rcases List.mem_append.mp hx with h1 | h1
  · exact hp x h1
  · exact hq x h1

theorem findTask_mem (w : World) (t : Tid) (r : TaskRow) (h : findTask w t = some r) : r ∈ w.tasks := by
  unfold findTask at h
  exact List.mem_of_find?_eq_some h

theorem isJoin_none_of_not_some (sp : Spec) (n : String) (h : ¬ (isJoin sp n).isSome = true) : isJoin sp n = none := by
  cases hj : isJoin sp n with
  | none => rfl
  | some k => simp [hj] at h

theorem step_ji (sp : Spec) (w : World) (ev : Event) (h : JoinInv sp w) : JoinInv sp (step sp w ev) := by
  cases ev with
  | start =>
    simp only [step]
    split
    · exact h
    · exact dispatch_ji sp _ _ h
  | pause => exact h
  | stop t => exact h
  | execute t ok =>
    simp only [step]
    split
    · exact h
    · refine ⟨h.1, pendOK_append sp _ _ (pendOK_removeFirst sp _ _ h.2) ?_⟩
      intro x hx; rw [List.mem_singleton.mp hx]; rfl
  | resume =>
    simp only [step]
    split
    · exact h
    · split
      · exact h
      · have hm : NoIdleJoin sp
            (w.tasks.map fun t => if isCompleted t.state && !t.processed then { t with processed := true } else t) := by
          apply nij_map sp _ _ h.1
          intro t
          split <;> exact ⟨rfl, rfl⟩
        split
        · exact checkAndComplete_ji sp _ ⟨hm, h.2⟩
        · apply dispatch_ji
          have h3 := dispatch_ji sp w.backlog
            { wf := (Lifecycle.wfApply w.wf Lifecycle.WfOp.resume).1,
              tasks := (w.tasks.map fun t => if isCompleted t.state && !t.processed then { t with processed := true } else t),
              pending := w.pending, backlog := [], crashed := w.crashed } ⟨hm, h.2⟩
          refine ⟨h3.1, pendOK_append' sp _ _ h3.2 ?_⟩
          intro x hx hh t f hxt
          rcases List.mem_map.mp hx with ⟨n, hn, rfl⟩
          rcases List.mem_map.mp hn with ⟨row, hrow, rfl⟩
          have hrow' := List.mem_filter.mp hrow
          have hidle : row.state = .IDLE := by simpa using hrow'.2
          have hnj : isJoin sp row.name = none := by
            apply isJoin_none_of_not_some
            intro hj
            exact h.1 row hrow'.1 hj hidle
          rcases hxt with hxt | hxt
          · injection hxt with h1 _; rw [← h1]; exact hnj
          · cases hxt
  | deliver it =>
    have hrm : PendOK sp (removeFirst w.pending it) := pendOK_removeFirst sp _ _ h.2
    have single : ∀ (y : Item), harmless y = true → ∀ x ∈ [y], harmless x = true := by
      intro y hy x hx; rw [List.mem_singleton.mp hx]; exact hy
    cases it with
    | postStartTask t f =>
      simp only [step]
      split
      · exact h
      · rename_i hp
        have hp' : Item.postStartTask t f ∈ w.pending := by simpa using hp
        refine ⟨h.1, pendOK_append' sp _ _ hrm ?_⟩
        intro x hx hh t' f' hxt
        rw [List.mem_singleton.mp hx] at hh hxt
        rcases hxt with hxt | hxt
        · cases hxt
        · injection hxt with h1 h2
          subst h1; subst h2
          cases f with
          | true => simp [harmless] at hh
          | false => exact h.2 _ hp' rfl t false (Or.inl rfl)
    | postRunAction t =>
      simp only [step]; split
      · exact h
      · exact ⟨h.1, pendOK_append sp _ _ hrm (single _ rfl)⟩
    | runAction t => simp only [step]; split; exact h; exact ⟨h.1, hrm⟩
    | postCheck => simp only [step]; split; exact h; exact checkAndComplete_ji sp _ ⟨h.1, hrm⟩
    | postSchedRefresh t =>
      simp only [step]; split
      · exact h
      · split
        · exact ⟨h.1, hrm⟩
        · exact ⟨h.1, pendOK_append sp _ _ hrm (single _ rfl)⟩
    | rpcResult t ok =>
      simp only [step]
      split
      · exact h
      · split
        · exact ⟨h.1, hrm⟩
        · refine completeTask_ji sp _ _ _ ?_ ⟨h.1, hrm⟩
          split <;> decide
    | rpcStartTask t f =>
      simp only [step]
      split
      · exact h
      · split
        · exact ⟨h.1, hrm⟩
        · split
          · split
            · exact ⟨nij_setTask sp _ _ h.1 (by simp), pendOK_append sp _ _ hrm (single _ rfl)⟩
            · split
              · split
                · exact ⟨h.1, hrm⟩
                · exact ⟨h.1, pendOK_append sp _ _ hrm (single _ rfl)⟩
              · exact checkAffected_ji sp _ _ ⟨h.1, hrm⟩
          · split
            · exact ⟨h.1, hrm⟩
            · split
              · exact checkAffected_ji sp _ _ ⟨h.1, hrm⟩
              · split
                · exact ⟨h.1, hrm⟩
                · exact ⟨nij_setTask sp _ _ h.1 (by simp), pendOK_append sp _ _ hrm (single _ rfl)⟩
    | jobRefresh t =>
      simp only [step]
      split
      · exact h
      · split
        · exact ⟨h.1, hrm⟩
        · rename_i r hr
          have hmem : r ∈ w.tasks := findTask_mem _ _ _ hr
          split
          · exact ⟨h.1, hrm⟩
          · split
            · exact ⟨h.1, hrm⟩
            · split
              · exact ⟨h.1, hrm⟩
              · rename_i k hk
                have hid := findTask_id _ _ _ hr
                have hnidle : r.state ≠ .IDLE := by
                  apply h.1 r hmem
                  have : r.name = t.1 := by rw [← hid]
                  rw [this, hk]; rfl
                split
                · exact ⟨h.1, hrm⟩
                · split
                  · split
                    · refine ⟨nij_setTask sp _ _ (nij_setTask sp _ _ h.1 ?_) (by simp), hrm⟩
                      intro hx; exact absurd hx hnidle
                    · refine ⟨nij_setTask sp _ _ (nij_setTask sp _ _ h.1 ?_) (by simp),
                              pendOK_append sp _ _ hrm (single _ rfl)⟩
                      intro hx; exact absurd hx hnidle
                  · split
                    · refine completeTask_ji sp _ _ _ (by decide) ⟨nij_setTask sp _ _ h.1 ?_, hrm⟩
                      intro hx; exact absurd hx hnidle
                    · refine ⟨nij_setTask sp _ _ h.1 ?_, hrm⟩
                      intro hx; exact absurd hx hnidle

theorem init_ji (sp : Spec) : JoinInv sp init := by
  refine ⟨?_, ?_⟩
  · intro r hr; simp [init] at hr
  · intro x hx; simp [init] at hx

end Mistral.Engine
