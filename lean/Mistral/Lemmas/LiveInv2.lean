/-
One step of the engine core preserves the second group of invariants (`Inv2`): no backlog, no
rows before the start, every completed execution of a RUNNING workflow continued, the targets of
continued executions have rows, start tasks have rows, executions completed while PAUSED recorded
the routes `resume` will dispatch.
-/
import Mistral.Lemmas.LiveDefs2
namespace Mistral.Engine.Live
open Mistral Mistral.Join Mistral.Engine

/-! ### states -/

theorem paused_eq (s : St) (h : isPaused s = true) : s = .PAUSED := by
  cases s <;> revert h <;> decide

theorem not_paused_beq (s : St) (h : isPaused s = false) : (s == St.PAUSED) = false := by
  cases s <;> revert h <;> decide

theorem pause_idle (s : St) (h : (Lifecycle.wfApply s .pause).1 = .IDLE) : s = .IDLE := by
  cases s <;> revert h <;> decide

theorem stop_idle (s t : St) (h : (Lifecycle.wfApply s (.stop t)).1 = .IDLE) : s = .IDLE := by
  cases s <;> cases t <;> revert h <;> decide

/-! ### the invariant on lists of rows -/

theorem has_iff (w : World) (n : String) : findByName w n ≠ none ↔ 0 < countL w.tasks n := by
  rw [Ne, findByName_none_iff]; omega

/-- the fields of a row the invariant reads -/
def Sim (y x : TaskRow) : Prop :=
  y.name = x.name ∧ y.state = x.state ∧ y.processed = x.processed ∧ y.nextTasks = x.nextTasks

def ProcL (ts : List TaskRow) : Prop := ∀ r ∈ ts, isCompleted r.state = true → r.processed = true

def RoutesL (ts : List TaskRow) : Prop :=
  ∀ a ∈ ts, isCompleted a.state = true → a.processed = true → ∀ x ∈ a.nextTasks, 0 < countL ts x.1

def StartsL (sp : Spec) (ts : List TaskRow) : Prop :=
  ts ≠ [] → ∀ t ∈ sp.graph.tasks, (inbound sp.graph t.name).isEmpty = true → 0 < countL ts t.name

def NextL (sp : Spec) (ts : List TaskRow) : Prop :=
  ∀ a ∈ ts, isCompleted a.state = true → a.processed = false → a.nextTasks = nextOf sp a.name a.state

theorem inv2_iff (sp : Spec) (w : World) :
    Inv2 sp w ↔ (w.backlog = [] ∧ (w.wf = .IDLE → w.tasks = []) ∧ (w.wf = .RUNNING → ProcL w.tasks) ∧
      RoutesL w.tasks ∧ StartsL sp w.tasks ∧ NextL sp w.tasks) := by
  constructor
  · intro h
    refine ⟨h.nobl, h.idle, h.proc, ?_, ?_, h.next⟩
    · intro a ha hc hp x hx; exact (has_iff w _).mp (h.routes a ha hc hp x hx)
    · intro hne t ht hi; exact (has_iff w _).mp (h.starts hne t ht hi)
  · rintro ⟨h1, h2, h3, h4, h5, h6⟩
    refine ⟨h1, h2, h3, ?_, ?_, h6⟩
    · intro a ha hc hp x hx; exact (has_iff w _).mpr (h4 a ha hc hp x hx)
    · intro hne t ht hi; exact (has_iff w _).mpr (h5 hne t ht hi)

/-- names only grow, and every row is an old row (up to the fields the invariant does not read)
    or not completed -/
def Mono (ts ts' : List TaskRow) : Prop :=
  (∀ n, countL ts n ≤ countL ts' n) ∧ (∀ x ∈ ts', (∃ y ∈ ts, Sim y x) ∨ isCompleted x.state = false)

theorem Mono.refl (ts : List TaskRow) : Mono ts ts :=
  ⟨fun _ => Nat.le_refl _, fun x hx => Or.inl ⟨x, hx, rfl, rfl, rfl, rfl⟩⟩

theorem Mono.trans {a b c : List TaskRow} (h1 : Mono a b) (h2 : Mono b c) : Mono a c := by
  refine ⟨fun n => Nat.le_trans (h1.1 n) (h2.1 n), ?_⟩
  intro x hx
  rcases h2.2 x hx with ⟨y, hy, s1, s2, s3, s4⟩ | h
  · rcases h1.2 y hy with ⟨z, hz, t1, t2, t3, t4⟩ | h
    · exact Or.inl ⟨z, hz, t1.trans s1, t2.trans s2, t3.trans s3, t4.trans s4⟩
    · right; rw [← s2]; exact h
  · exact Or.inr h

theorem Mono.setTask_inc (ts : List TaskRow) (r : TaskRow) (h : isCompleted r.state = false) : Mono ts (setTask ts r) := by
  refine ⟨fun n => by rw [countL_setTask]; exact Nat.le_refl _, ?_⟩
  intro x hx
  rcases mem_setTask ts r x hx with h1 | h1
  · exact Or.inl ⟨x, h1, rfl, rfl, rfl, rfl⟩
  · subst h1; exact Or.inr h

theorem Mono.setTask_sim (ts : List TaskRow) (r r' : TaskRow) (hr : r ∈ ts) (h : Sim r r') : Mono ts (setTask ts r') := by
  refine ⟨fun n => by rw [countL_setTask]; exact Nat.le_refl _, ?_⟩
  intro x hx
  rcases mem_setTask ts r' x hx with h1 | h1
  · exact Or.inl ⟨x, h1, rfl, rfl, rfl, rfl⟩
  · subst h1; exact Or.inl ⟨r, hr, h⟩

theorem Mono.append_inc (ts : List TaskRow) (r : TaskRow) (h : isCompleted r.state = false) : Mono ts (ts ++ [r]) := by
  refine ⟨fun n => by rw [countL_append]; omega, ?_⟩
  intro x hx
  rcases List.mem_append.mp hx with h1 | h1
  · exact Or.inl ⟨x, h1, rfl, rfl, rfl, rfl⟩
  · have : x = r := by simpa using h1
    subst this; exact Or.inr h

theorem setTask_ne_nil (ts : List TaskRow) (r : TaskRow) (h : setTask ts r ≠ []) : ts ≠ [] := by
  intro e; apply h; rw [e]; rfl

theorem ProcL.mono {ts ts' : List TaskRow} (h : ProcL ts) (m : Mono ts ts') : ProcL ts' := by
  intro x hx hc
  rcases m.2 x hx with ⟨y, hy, _, s2, s3, _⟩ | hi
  · rw [← s3]; exact h y hy (by rw [s2]; exact hc)
  · rw [hi] at hc; cases hc

theorem RoutesL.mono {ts ts' : List TaskRow} (h : RoutesL ts) (m : Mono ts ts') : RoutesL ts' := by
  intro a ha hc hp x hx
  rcases m.2 a ha with ⟨y, hy, _, s2, s3, s4⟩ | hi
  · exact Nat.lt_of_lt_of_le (h y hy (by rw [s2]; exact hc) (by rw [s3]; exact hp) x (by rw [s4]; exact hx)) (m.1 _)
  · rw [hi] at hc; cases hc

theorem NextL.mono {sp : Spec} {ts ts' : List TaskRow} (h : NextL sp ts) (m : Mono ts ts') : NextL sp ts' := by
  intro a ha hc hp
  rcases m.2 a ha with ⟨y, hy, s1, s2, s3, s4⟩ | hi
  · rw [← s4, ← s1, ← s2]; exact h y hy (by rw [s2]; exact hc) (by rw [s3]; exact hp)
  · rw [hi] at hc; cases hc

theorem StartsL.mono {sp : Spec} {ts ts' : List TaskRow} (h : StartsL sp ts) (m : Mono ts ts')
    (hne : ts' ≠ [] → ts ≠ []) : StartsL sp ts' :=
  fun hn t ht hi => Nat.lt_of_lt_of_le (h (hne hn) t ht hi) (m.1 _)

/-- a step that keeps the backlog, changes the workflow state neither to IDLE nor to RUNNING,
    and only adds rows that are not completed -/
theorem Inv2.ext (sp : Spec) (w w' : World) (h : Inv2 sp w) (hb : w'.backlog = w.backlog)
    (hidle : w'.wf = .IDLE → w.wf = .IDLE) (hrun : w'.wf = .RUNNING → w.wf = .RUNNING)
    (m : Mono w.tasks w'.tasks) (hne : w'.tasks ≠ [] → w.tasks ≠ []) : Inv2 sp w' := by
  obtain ⟨h1, h2, h3, h4, h5, h6⟩ := (inv2_iff sp w).mp h
  refine (inv2_iff sp w').mpr ⟨hb.trans h1, ?_, fun hr => (h3 (hrun hr)).mono m, h4.mono m, h5.mono m hne, h6.mono m⟩
  intro hi
  cases hts : w'.tasks with
  | nil => rfl
  | cons a l => exact absurd (h2 (hidle hi)) (hne (by rw [hts]; simp))

/-! ### the dispatcher -/

theorem dispatchOne_backlog (sp : Spec) (w : World) (c : Cmd) (hp : (w.wf == St.PAUSED) = false) :
    (dispatchOne sp w c).backlog = w.backlog := by
  unfold dispatchOne
  simp only [hp]
  split
  · rfl
  · split
    · rename_i h; cases h
    · split
      · split <;> (try split) <;> rfl
      · rfl

theorem dispatch_backlog (sp : Spec) (cs : List Cmd) : ∀ (w : World), (w.wf == St.PAUSED) = false →
    (dispatch sp w cs).backlog = w.backlog := by
  unfold dispatch
  induction cs with
  | nil => intro w _; rfl
  | cons c rest ih =>
    intro w hp
    simp only [List.foldl_cons]
    rw [ih _ (by rw [dispatchOne_wf]; exact hp), dispatchOne_backlog sp w c hp]

theorem dispatchOne_mono (sp : Spec) (w : World) (c : Cmd) : Mono w.tasks (dispatchOne sp w c).tasks := by
  unfold dispatchOne
  simp only
  split
  · exact Mono.refl _
  · split
    · exact Mono.refl _
    · split
      · split
        · exact Mono.append_inc _ _ waiting_incomplete
        · simp only
          split
          · exact Mono.setTask_inc _ _ waiting_incomplete
          · exact Mono.refl _
      · exact Mono.append_inc _ _ idle_incomplete

theorem dispatch_mono (sp : Spec) (cs : List Cmd) : ∀ (w : World), Mono w.tasks (dispatch sp w cs).tasks := by
  unfold dispatch
  induction cs with
  | nil => intro w; exact Mono.refl _
  | cons c rest ih => intro w; simp only [List.foldl_cons]; exact (dispatchOne_mono sp w c).trans (ih _)

theorem dispatchOne_creates_row (sp : Spec) (w : World) (c : Cmd) (hc : isCompleted w.wf = false)
    (hp : (w.wf == St.PAUSED) = false) : 0 < countL (dispatchOne sp w c).tasks c.target := by
  unfold dispatchOne
  simp only [hc, hp, Bool.false_eq_true, if_false]
  split
  · split
    · rw [countL_append]; simp [newRow]
    · rename_i r hr
      have hpos : 0 < countL w.tasks c.target := by
        apply (has_iff w _).mp; rw [hr]; simp
      simp only
      split
      · show 0 < countL (setTask _ _) _
        rw [countL_setTask]; exact hpos
      · exact hpos
  · rw [countL_append]; simp [newRow]

theorem dispatch_creates_rows (sp : Spec) (cs : List Cmd) : ∀ (w : World), isCompleted w.wf = false →
    (w.wf == St.PAUSED) = false → ∀ c ∈ cs, 0 < countL (dispatch sp w cs).tasks c.target := by
  induction cs with
  | nil => intro w _ _ c hc; cases hc
  | cons c0 rest ih =>
    intro w hc hp c hm
    show 0 < countL (dispatch sp (dispatchOne sp w c0) rest).tasks c.target
    rcases List.mem_cons.mp hm with h1 | h1
    · subst h1
      exact Nat.lt_of_lt_of_le (dispatchOne_creates_row sp w c hc hp) ((dispatch_mono sp rest _).1 _)
    · exact ih _ (by rw [dispatchOne_wf]; exact hc) (by rw [dispatchOne_wf]; exact hp) c h1

/-! ### `_check_affected_tasks`, the completion check -/

theorem checkAffected_backlog (sp : Spec) (w : World) (t : Tid) : (checkAffected sp w t).backlog = w.backlog := by
  unfold checkAffected
  split
  · rfl
  · split
    · rfl
    · split <;> rfl

theorem checkAndComplete_backlog (w : World) : (checkAndComplete w).backlog = w.backlog := by
  unfold checkAndComplete
  split
  · rfl
  · split
    · rfl
    · split
      · rfl
      · split <;> rfl

theorem Inv2.checkAffected (sp : Spec) (w : World) (t : Tid) (h : Inv2 sp w) : Inv2 sp (checkAffected sp w t) := by
  have ht := checkAffected_tasks sp w t
  refine Inv2.ext sp w _ h (checkAffected_backlog sp w t) (fun e => ht.2 ▸ e) (fun e => ht.2 ▸ e) ?_ ?_
  · rw [ht.1]; exact Mono.refl _
  · rw [ht.1]; exact id

theorem checkAndComplete_wf_ne (w : World) :
    ((checkAndComplete w).wf = .IDLE → w.wf = .IDLE) ∧ ((checkAndComplete w).wf = .RUNNING → w.wf = .RUNNING) := by
  rcases checkAndComplete_wf w with h | ⟨_, h | h | h⟩
  · rw [h]; exact ⟨id, id⟩
  all_goals (rw [h]; exact ⟨fun e => (by cases e), fun e => (by cases e)⟩)

theorem Inv2.checkAndComplete (sp : Spec) (w : World) (h : Inv2 sp w) : Inv2 sp (checkAndComplete w) := by
  refine Inv2.ext sp w _ h (checkAndComplete_backlog w) (checkAndComplete_wf_ne w).1 (checkAndComplete_wf_ne w).2 ?_ ?_
  · rw [checkAndComplete_tasks]; exact Mono.refl _
  · rw [checkAndComplete_tasks]; exact id

/-! ### `Task.complete` -/

theorem ctPre_mem (sp : Spec) (w : World) (r : TaskRow) (s : St) (y : TaskRow) (hy : y ∈ (ctPre sp w r s).tasks) :
    y ∈ w.tasks ∨ y = { ctRow sp w r s with processed := true } := by
  have hy' : y ∈ setTask (setTask w.tasks (ctRow sp w r s)) { ctRow sp w r s with processed := true } := hy
  rcases mem_setTask' _ _ y hy' with ⟨h1, h2⟩ | h1
  · rcases mem_setTask _ _ y h1 with h3 | h3
    · exact Or.inl h3
    · exfalso; apply h2; rw [h3]; exact ⟨rfl, rfl⟩
  · exact Or.inr h1

theorem Inv2.completeTask (sp : Spec) (w : World) (r : TaskRow) (s : St) (h : Inv2 sp w) (hr : r ∈ w.tasks)
    (hp : w.wf = .PAUSED → isCompleted r.state = false → r.processed = false) : Inv2 sp (completeTask sp w r s) := by
  by_cases hc : isCompleted r.state = true
  · unfold Engine.completeTask
    simp only [hc, if_true]
    exact Inv2.checkAffected sp w _ h
  · have hc' : isCompleted r.state = false := by simpa using hc
    rw [completeTask_unfold sp w r s hc']
    apply Inv2.checkAffected
    obtain ⟨h1, h2, h3, h4, h5, h6⟩ := (inv2_iff sp w).mp h
    have hne : w.tasks ≠ [] := List.ne_nil_of_mem hr
    by_cases hpa : isPaused w.wf = true
    · simp only [hpa, if_true]
      have hwf := paused_eq _ hpa
      have hproc := hp hwf hc'
      have hnt : ctNt sp w r s = nextOf sp r.name s := by
        unfold ctNt; rw [hwf]
        have : isCompleted St.PAUSED = false := by decide
        simp [this]
      refine (inv2_iff sp _).mpr ⟨h1, ?_, ?_, ?_, ?_, ?_⟩
      · intro e
        have e' : w.wf = .IDLE := e
        rw [hwf] at e'; cases e'
      · intro e
        have e' : w.wf = .RUNNING := e
        rw [hwf] at e'; cases e'
      · intro a ha hca hpa' x hx
        show 0 < countL (setTask _ _) _
        rw [countL_setTask]
        rcases mem_setTask _ _ a ha with h7 | h7
        · exact h4 a h7 hca hpa' x hx
        · subst h7
          have : (ctRow sp w r s).processed = r.processed := rfl
          rw [this, hproc] at hpa'; cases hpa'
      · intro _ t ht hi
        show 0 < countL (setTask _ _) _
        rw [countL_setTask]; exact h5 hne t ht hi
      · intro a ha hca hpa'
        rcases mem_setTask _ _ a ha with h7 | h7
        · exact h6 a h7 hca hpa'
        · subst h7
          show ctNt sp w r s = nextOf sp r.name s
          exact hnt
    · have hpa' : isPaused w.wf = false := by simpa using hpa
      simp only [hpa', Bool.false_eq_true, if_false]
      have hpb := not_paused_beq _ hpa'
      have hm : Mono (ctPre sp w r s).tasks (dispatch sp (ctPre sp w r s) (ctCmds sp w r s)).tasks := dispatch_mono sp _ _
      have hcnt : ∀ n, countL w.tasks n ≤ countL (dispatch sp (ctPre sp w r s) (ctCmds sp w r s)).tasks n := by
        intro n
        refine Nat.le_trans ?_ (hm.1 n)
        show countL w.tasks n ≤ countL (setTask (setTask w.tasks _) _) n
        rw [countL_setTask, countL_setTask]; exact Nat.le_refl _
      have hrows : ∀ x ∈ (dispatch sp (ctPre sp w r s) (ctCmds sp w r s)).tasks, isCompleted x.state = true →
          (∃ y ∈ w.tasks, Sim y x) ∨ Sim { ctRow sp w r s with processed := true } x := by
        intro x hx hcx
        rcases hm.2 x hx with ⟨y, hy, hs⟩ | hi
        · rcases ctPre_mem sp w r s y hy with h7 | h7
          · exact Or.inl ⟨y, h7, hs⟩
          · right; rw [← h7]; exact hs
        · rw [hi] at hcx; cases hcx
      refine (inv2_iff sp _).mpr ⟨?_, ?_, ?_, ?_, ?_, ?_⟩
      · rw [dispatch_backlog sp _ (ctPre sp w r s) hpb]; exact h1
      · intro e; rw [dispatch_wf] at e; exact absurd (h2 e) hne
      · intro e; rw [dispatch_wf] at e
        intro x hx hcx
        rcases hrows x hx hcx with ⟨y, hy, _, s2, s3, _⟩ | ⟨_, _, s3, _⟩
        · rw [← s3]; exact h3 e y hy (by rw [s2]; exact hcx)
        · exact s3.symm
      · intro a ha hca hpa2 x hx
        rcases hrows a ha hca with ⟨y, hy, _, s2, s3, s4⟩ | ⟨_, _, _, s4⟩
        · exact Nat.lt_of_lt_of_le (h4 y hy (by rw [s2]; exact hca) (by rw [s3]; exact hpa2) x (by rw [s4]; exact hx)) (hcnt _)
        · have hx' : x ∈ ctNt sp w r s := by rw [← s4] at hx; exact hx
          by_cases hwc : isCompleted w.wf = true
          · unfold ctNt at hx'; simp [hwc] at hx'
          · have hwc' : isCompleted w.wf = false := by simpa using hwc
            exact dispatch_creates_rows sp (ctCmds sp w r s) (ctPre sp w r s) hwc' hpb
              { target := x.1, src := some ((r.name, r.occ), x.2) } (by unfold ctCmds; exact List.mem_map.mpr ⟨x, hx', rfl⟩)
      · intro _ t ht hi
        exact Nat.lt_of_lt_of_le (h5 hne t ht hi) (hcnt _)
      · intro a ha hca hpa2
        rcases hrows a ha hca with ⟨y, hy, s1, s2, s3, s4⟩ | ⟨_, _, s3, _⟩
        · rw [← s4, ← s1, ← s2]; exact h6 y hy (by rw [s2]; exact hca) (by rw [s3]; exact hpa2)
        · have s3' : true = a.processed := s3
          rw [hpa2] at s3'; cases s3'

/-! ### `Workflow.start` -/

theorem dispatch_rows_of_nil (sp : Spec) (cs : List Cmd) (w : World) (hts : w.tasks = []) :
    ∀ x ∈ (dispatch sp w cs).tasks, isCompleted x.state = false := by
  intro x hx
  rcases (dispatch_mono sp cs w).2 x hx with ⟨y, hy, _⟩ | hi
  · rw [hts] at hy; cases hy
  · exact hi

theorem start_inv2 (sp : Spec) (w : World) (h : Inv2 sp w) (hi : w.wf = .IDLE) :
    Inv2 sp (dispatch sp { w with wf := .RUNNING }
      (((sp.graph.tasks.filter fun t => (inbound sp.graph t.name).isEmpty).map (·.name)).map
        fun n => { target := n, src := none })) := by
  obtain ⟨h1, h2, h3, h4, h5, h6⟩ := (inv2_iff sp w).mp h
  have hts := h2 hi
  have hnc : isCompleted St.RUNNING = false := by decide
  have hnp : (St.RUNNING == St.PAUSED) = false := by decide
  refine (inv2_iff sp _).mpr ⟨?_, ?_, ?_, ?_, ?_, ?_⟩
  · rw [dispatch_backlog sp _ { w with wf := .RUNNING } hnp]; exact h1
  · intro e; rw [dispatch_wf] at e
    have e' : St.RUNNING = St.IDLE := e
    cases e'
  · intro _ x hx hc
    rw [dispatch_rows_of_nil sp _ { w with wf := .RUNNING } hts x hx] at hc; cases hc
  · intro x hx hc
    rw [dispatch_rows_of_nil sp _ { w with wf := .RUNNING } hts x hx] at hc; cases hc
  · intro _ t ht hi2
    exact dispatch_creates_rows sp _ { w with wf := .RUNNING } hnc hnp { target := t.name, src := none }
      (List.mem_map.mpr ⟨t.name, List.mem_map.mpr ⟨t, List.mem_filter.mpr ⟨ht, hi2⟩, rfl⟩, rfl⟩)
  · intro x hx hc
    rw [dispatch_rows_of_nil sp _ { w with wf := .RUNNING } hts x hx] at hc; cases hc

/-! ### `Workflow.resume` -/

/-- `resume` marks the executions it continues -/
def fR (t : TaskRow) : TaskRow :=
  if isCompleted t.state && !t.processed then { t with processed := true } else t

theorem fR_name (t : TaskRow) : (fR t).name = t.name := by
  unfold fR; split <;> rfl

theorem resume_core (sp : Spec) (w w' : World) (h : Inv2 sp w) (hb : w'.backlog = []) (hwf : w'.wf ≠ .IDLE)
    (m : Mono (w.tasks.map fR) w'.tasks) (hne : w'.tasks ≠ [] → w.tasks ≠ [])
    (htg : ∀ t ∈ w.tasks, isCompleted t.state = true → t.processed = false →
      ∀ x ∈ nextOf sp t.name t.state, 0 < countL w'.tasks x.1) : Inv2 sp w' := by
  obtain ⟨h1, h2, h3, h4, h5, h6⟩ := (inv2_iff sp w).mp h
  have hcnt : ∀ n, countL w.tasks n ≤ countL w'.tasks n := by
    intro n
    have := m.1 n
    rwa [countL_map _ _ fR_name] at this
  have hrows : ∀ x ∈ w'.tasks, isCompleted x.state = true → ∃ t ∈ w.tasks,
      (Sim t x ∧ ¬ (isCompleted t.state = true ∧ t.processed = false)) ∨
      (isCompleted t.state = true ∧ t.processed = false ∧ Sim { t with processed := true } x) := by
    intro x hx hcx
    rcases m.2 x hx with ⟨y, hy, hs⟩ | hi
    · obtain ⟨t, ht, rfl⟩ := List.mem_map.mp hy
      refine ⟨t, ht, ?_⟩
      by_cases c : (isCompleted t.state && !t.processed) = true
      · right
        have c' := c
        simp only [Bool.and_eq_true, Bool.not_eq_true'] at c'
        refine ⟨c'.1, c'.2, ?_⟩
        have : fR t = { t with processed := true } := by unfold fR; simp only [c, if_true]
        rw [← this]; exact hs
      · left
        have : fR t = t := by unfold fR; simp only [c, Bool.false_eq_true, if_false]
        rw [this] at hs
        refine ⟨hs, ?_⟩
        intro hh; apply c; simp [hh.1, hh.2]
    · rw [hi] at hcx; cases hcx
  refine (inv2_iff sp _).mpr ⟨hb, fun e => absurd e hwf, ?_, ?_, ?_, ?_⟩
  · intro _ x hx hcx
    obtain ⟨t, ht, ⟨⟨_, s2, s3, _⟩, hn⟩ | ⟨_, _, _, _, s3, _⟩⟩ := hrows x hx hcx
    · rw [← s3]
      cases hp : t.processed with
      | true => rfl
      | false => exact absurd ⟨by rw [s2]; exact hcx, hp⟩ hn
    · exact s3.symm
  · intro a ha hca hpa x hx
    obtain ⟨t, ht, ⟨⟨_, s2, s3, s4⟩, _⟩ | ⟨c1, c2, _, _, _, s4⟩⟩ := hrows a ha hca
    · exact Nat.lt_of_lt_of_le (h4 t ht (by rw [s2]; exact hca) (by rw [s3]; exact hpa) x (by rw [s4]; exact hx)) (hcnt _)
    · have s4' : t.nextTasks = a.nextTasks := s4
      rw [← s4', h6 t ht c1 c2] at hx
      exact htg t ht c1 c2 x hx
  · intro hn t ht hi
    exact Nat.lt_of_lt_of_le (h5 (hne hn) t ht hi) (hcnt _)
  · intro a ha hca hpa
    obtain ⟨t, ht, ⟨⟨s1, s2, s3, s4⟩, _⟩ | ⟨_, _, _, _, s3, _⟩⟩ := hrows a ha hca
    · rw [← s4, ← s1, ← s2]; exact h6 t ht (by rw [s2]; exact hca) (by rw [s3]; exact hpa)
    · have s3' : true = a.processed := s3
      rw [hpa] at s3'; cases s3'

theorem filter_dich {α : Type} (p : α → Bool) (l : List α) (c : α) (hc : c ∈ l) : c ∈ l.filter p ∨ p c = false := by
  cases hp : p c with
  | true => exact Or.inl (List.mem_filter.mpr ⟨hc, hp⟩)
  | false => exact Or.inr rfl

/-- `resume` when there is nothing to dispatch -/
theorem resumeA (sp : Spec) (w : World) (h : Inv2 sp w) (w2 : World) (hw2wf : w2.wf = .RUNNING)
    (hw2t : w2.tasks = w.tasks.map fR) (hw2b : w2.backlog = w.backlog)
    (idle : List Tid) (cmds0 : List Cmd) (p : Cmd → Bool)
    (hcmds0 : ∀ t ∈ w.tasks, isCompleted t.state = true → t.processed = false → ∀ x ∈ nextOf sp t.name t.state,
      ({ target := x.1, src := some ((t.name, t.occ), x.2) } : Cmd) ∈ cmds0)
    (hp : ∀ c, p c = false → 0 < countL w.tasks c.target)
    (hcond : (idle.isEmpty && (cmds0.filter p).isEmpty && w2.backlog.isEmpty) = true) :
    Inv2 sp (checkAndComplete w2) := by
  apply Inv2.checkAndComplete
  have hf : cmds0.filter p = [] := by
    simp only [Bool.and_eq_true, List.isEmpty_iff] at hcond
    exact hcond.1.2
  refine resume_core sp w w2 h (hw2b.trans h.nobl) (by rw [hw2wf]; decide) (by rw [hw2t]; exact Mono.refl _) ?_ ?_
  · intro hn e; apply hn; rw [hw2t, e]; rfl
  · intro t ht c1 c2 x hx
    rw [hw2t, countL_map _ _ fR_name]
    rcases filter_dich p cmds0 _ (hcmds0 t ht c1 c2 x hx) with h7 | h7
    · rw [hf] at h7; cases h7
    · exact hp _ h7

/-- `resume`: backlog, re-start of IDLE tasks, continuation commands -/
theorem resumeB (sp : Spec) (w : World) (h : Inv2 sp w) (w2 : World) (hw2wf : w2.wf = .RUNNING)
    (hw2t : w2.tasks = w.tasks.map fR) (hw2b : w2.backlog = w.backlog)
    (idle : List Tid) (cmds0 : List Cmd) (p : Cmd → Bool)
    (hcmds0 : ∀ t ∈ w.tasks, isCompleted t.state = true → t.processed = false → ∀ x ∈ nextOf sp t.name t.state,
      ({ target := x.1, src := some ((t.name, t.occ), x.2) } : Cmd) ∈ cmds0)
    (hp : ∀ c, p c = false → 0 < countL w.tasks c.target)
    (hidle : w.tasks = [] → idle = []) (hcmds0' : w.tasks = [] → cmds0 = [])
    (hcond : ¬ (idle.isEmpty && (cmds0.filter p).isEmpty && w2.backlog.isEmpty) = true) :
    Inv2 sp (dispatch sp
      { dispatch sp { w2 with backlog := [] } w2.backlog with
        pending := (dispatch sp { w2 with backlog := [] } w2.backlog).pending ++ idle.map fun n => Item.postStartTask n false }
      (cmds0.filter p)) := by
  have hnc : isCompleted St.RUNNING = false := by decide
  have hnp : (St.RUNNING == St.PAUSED) = false := by decide
  have h3wf : (dispatch sp { w2 with backlog := [] } w2.backlog).wf = .RUNNING := by rw [dispatch_wf]; exact hw2wf
  have h3b : (dispatch sp { w2 with backlog := [] } w2.backlog).backlog = [] := by
    rw [dispatch_backlog sp _ { w2 with backlog := [] } (by show (w2.wf == St.PAUSED) = false; rw [hw2wf]; exact hnp)]
  have m : Mono (w.tasks.map fR) (dispatch sp
      { dispatch sp { w2 with backlog := [] } w2.backlog with
        pending := (dispatch sp { w2 with backlog := [] } w2.backlog).pending ++ idle.map fun n => Item.postStartTask n false }
      (cmds0.filter p)).tasks := by
    rw [← hw2t]
    exact (dispatch_mono sp w2.backlog { w2 with backlog := [] }).trans
      (dispatch_mono sp (cmds0.filter p) { dispatch sp { w2 with backlog := [] } w2.backlog with
        pending := (dispatch sp { w2 with backlog := [] } w2.backlog).pending ++ idle.map fun n => Item.postStartTask n false })
  refine resume_core sp w _ h ?_ ?_ m ?_ ?_
  · rw [dispatch_backlog sp _ _ (by show ((dispatch sp { w2 with backlog := [] } w2.backlog).wf == St.PAUSED) = false; rw [h3wf]; exact hnp)]
    exact h3b
  · rw [dispatch_wf]
    show (dispatch sp { w2 with backlog := [] } w2.backlog).wf ≠ .IDLE
    rw [h3wf]; decide
  · intro _ e
    apply hcond
    rw [hidle e, hcmds0' e, hw2b, h.nobl]; rfl
  · intro t ht c1 c2 x hx
    rcases filter_dich p cmds0 _ (hcmds0 t ht c1 c2 x hx) with h7 | h7
    · exact dispatch_creates_rows sp _ _ (by show isCompleted (dispatch sp { w2 with backlog := [] } w2.backlog).wf = false; rw [h3wf]; exact hnc)
        (by show ((dispatch sp { w2 with backlog := [] } w2.backlog).wf == St.PAUSED) = false; rw [h3wf]; exact hnp) _ h7
    · refine Nat.lt_of_lt_of_le (hp _ h7) ?_
      have := m.1 x.1
      rwa [countL_map _ _ fR_name] at this

/-! ### one step -/

theorem inv2_init (sp : Spec) : Inv2 sp init := by
  refine ⟨rfl, fun _ => rfl, ?_, ?_, ?_, ?_⟩
  · intro _ r hr; simp [init] at hr
  · intro r hr; simp [init] at hr
  · intro hne; exact absurd rfl hne
  · intro r hr; simp [init] at hr

theorem step_inv2 (sp : Spec) (w : World) (ev : Event) (hpc : PausedClean w) (h : Inv2 sp w) :
    Inv2 sp (step sp w ev) := by
  have same : ∀ (wf' : St) (p' : List Item) (c' : Bool), (wf' = .IDLE → w.wf = .IDLE) → (wf' = .RUNNING → w.wf = .RUNNING) →
      Inv2 sp { wf := wf', tasks := w.tasks, pending := p', backlog := w.backlog, crashed := c' } :=
    fun wf' p' c' h1 h2 => Inv2.ext sp w _ h rfl h1 h2 (Mono.refl _) id
  have set_inc : ∀ (r' : TaskRow) (p' : List Item) (c' : Bool), isCompleted r'.state = false →
      Inv2 sp { wf := w.wf, tasks := setTask w.tasks r', pending := p', backlog := w.backlog, crashed := c' } :=
    fun r' p' c' hi => Inv2.ext sp w _ h rfl id id (Mono.setTask_inc _ _ hi) (setTask_ne_nil _ _)
  cases ev with
  | start =>
    simp only [step]
    split
    · exact h
    · rename_i hi0
      have hi : w.wf = .IDLE := by simpa using hi0
      exact start_inv2 sp w h hi
  | pause => exact same _ _ _ (pause_idle _) (pause_running _)
  | stop t => exact same _ _ _ (stop_idle _ _) (stop_running _ _)
  | execute t ok =>
    simp only [step]
    split
    · exact h
    · exact same _ _ _ id id
  | resume =>
    simp only [step]
    split
    · exact h
    · rename_i hpi0
      have hpi : isPausedOrIdle w.wf = true := by simpa using hpi0
      have hrun := resume_running w.wf hpi
      have hnc : isCompleted St.RUNNING = false := by decide
      simp only [hrun, hnc, Bool.false_eq_true, if_false]
      have hcmds0 : ∀ t ∈ w.tasks, isCompleted t.state = true → t.processed = false → ∀ x ∈ nextOf sp t.name t.state,
          ({ target := x.1, src := some ((t.name, t.occ), x.2) } : Cmd) ∈
            (w.tasks.filter fun t => isCompleted t.state && !t.processed).flatMap fun t =>
              (nextOf sp t.name t.state).map fun (n, e) => { target := n, src := some ((t.name, t.occ), e) } := by
        intro t ht hc hu x hx
        exact List.mem_flatMap.mpr ⟨t, List.mem_filter.mpr ⟨ht, by simp [hc, hu]⟩, List.mem_map.mpr ⟨x, hx, rfl⟩⟩
      split
      · rename_i hcond
        refine resumeA sp w h
          { wf := .RUNNING, tasks := w.tasks.map _, pending := w.pending, backlog := w.backlog, crashed := w.crashed }
          rfl rfl rfl _ _ _ hcmds0 ?_ hcond
        intro c hpc
        simp only [Bool.not_eq_eq_eq_not, Bool.not_false] at hpc
        split at hpc
        · rename_i j s0 hj _
          apply (has_iff { w with wf := .RUNNING } _).mp
          rw [hj]; simp
        · cases hpc
      · rename_i hcond
        refine resumeB sp w h
          { wf := .RUNNING, tasks := w.tasks.map _, pending := w.pending, backlog := w.backlog, crashed := w.crashed }
          rfl rfl rfl _ _ _ hcmds0 ?_ ?_ ?_ hcond
        · intro c hpc
          simp only [Bool.not_eq_eq_eq_not, Bool.not_false] at hpc
          split at hpc
          · rename_i j s0 hj _
            apply (has_iff { w with wf := .RUNNING } _).mp
            rw [hj]; simp
          · cases hpc
        · intro e; rw [e]; rfl
        · intro e; rw [e]; rfl
  | deliver it =>
    cases it with
    | postStartTask t f => simp only [step]; split; exact h; exact same _ _ _ id id
    | postRunAction t => simp only [step]; split; exact h; exact same _ _ _ id id
    | runAction t => simp only [step]; split; exact h; exact same _ _ _ id id
    | postCheck =>
      simp only [step]; split
      · exact h
      · exact Inv2.checkAndComplete sp _ (same _ _ _ id id)
    | postSchedRefresh t => simp only [step]; split; exact h; split <;> exact same _ _ _ id id
    | rpcResult t ok =>
      simp only [step]
      split
      · exact h
      · split
        · exact same _ _ _ id id
        · rename_i r hr
          have hm := findTask_mem _ _ _ hr
          exact Inv2.completeTask sp _ r _ (same _ _ _ id id) hm (fun e hc => hpc e r hm hc)
    | rpcStartTask t f =>
      simp only [step]
      split
      · exact h
      · split
        · exact same _ _ _ id id
        · split
          · split
            · exact set_inc _ _ _ running_incomplete
            · split
              · split <;> exact same _ _ _ id id
              · exact Inv2.checkAffected sp _ _ (same _ _ _ id id)
          · split
            · exact same _ _ _ id id
            · split
              · exact Inv2.checkAffected sp _ _ (same _ _ _ id id)
              · split
                · exact same _ _ _ id id
                · exact set_inc _ _ _ running_incomplete
    | jobRefresh t =>
      simp only [step]
      split
      · exact h
      · split
        · exact same _ _ _ id id
        · rename_i r hr
          have hm : r ∈ w.tasks := findTask_mem _ _ _ hr
          split
          · exact same _ _ _ id id
          · rename_i hgu
            have hinc : isCompleted r.state = false := by
              simp only [Bool.or_eq_true, not_or, Bool.not_eq_true] at hgu; exact hgu.1
            split
            · exact same _ _ _ id id
            · split
              · exact same _ _ _ id id
              · split
                · exact same _ _ _ id id
                · rename_i L hL
                  generalize (List.filterMap _ L.triggeredBy) = tr
                  have hW : ∀ p c, Inv2 sp { wf := w.wf, tasks := setTask w.tasks { r with trig := tr }, pending := p, backlog := w.backlog, crashed := c } :=
                    fun p c => Inv2.ext sp w _ h rfl id id (Mono.setTask_sim _ r _ hm ⟨rfl, rfl, rfl, rfl⟩) (setTask_ne_nil _ _)
                  have hmem : ({ r with trig := tr } : TaskRow) ∈ setTask w.tasks { r with trig := tr } :=
                    self_mem_setTask w.tasks r _ hm rfl rfl
                  have hrun : ∀ p c, Inv2 sp { wf := w.wf, tasks := setTask (setTask w.tasks { r with trig := tr }) { r with trig := tr, state := .RUNNING }, pending := p, backlog := w.backlog, crashed := c } :=
                    fun p c => Inv2.ext sp _ _ (hW w.pending w.crashed) rfl id id
                      (Mono.setTask_inc _ _ running_incomplete) (setTask_ne_nil _ _)
                  split
                  · split
                    · exact hrun _ _
                    · exact hrun _ _
                  · split
                    · exact Inv2.completeTask sp _ _ _ (hW _ _) hmem (fun e _ => hpc e r hm hinc)
                    · exact hW _ _

end Mistral.Engine.Live
