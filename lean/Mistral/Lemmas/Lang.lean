/- Helper lemmas for Props/C14.lean (string primitives of the workbook text cutter). -/
import Mistral.Model.Lang
namespace Mistral.Lang

theorem isPyWs_space : isPyWs ' ' = true := by decide
theorem isPyWs_nl : isPyWs '\n' = true := by decide
theorem isPyWs_colon : isPyWs ':' = false := by decide

theorem splitLines_line (l r : Str) (h : '\n' ∉ l) :
    splitLines (l ++ '\n' :: r) = (l ++ ['\n']) :: splitLines r := by
  induction l with
  | nil => simp [splitLines]
  | cons c l ih =>
    have hc : c ≠ '\n' := fun e => h (by simp [e])
    have hl : '\n' ∉ l := fun e => h (by simp [e])
    simp [splitLines, hc, ih hl]

theorem dropLine_line (l r : Str) (h : '\n' ∉ l) : dropLine (l ++ '\n' :: r) = r := by
  induction l with
  | nil => simp [dropLine]
  | cons c l ih =>
    have hc : c ≠ '\n' := fun e => h (by simp [e])
    have hl : '\n' ∉ l := fun e => h (by simp [e])
    simp [dropLine, hc, ih hl]

theorem lstrip_spaces (k : Nat) (s : Str) : lstrip (spaces k ++ s) = lstrip s := by
  induction k with
  | zero => simp [spaces]
  | succ k ih =>
    have : spaces (k + 1) ++ s = ' ' :: (spaces k ++ s) := by simp [spaces, List.replicate_succ]
    rw [this]
    unfold lstrip at *
    simp [List.dropWhile, isPyWs_space, ih]

theorem lstrip_of_head (c : Char) (s : Str) (h : isPyWs c = false) : lstrip (c :: s) = c :: s := by
  simp [lstrip, List.dropWhile, h]

theorem rstrip_snoc_nl (x : Str) (c : Char) (hx : x.getLast? = some c) (h : isPyWs c = false) :
    rstrip (x ++ ['\n']) = x := by
  obtain ⟨ys, rfl⟩ := List.getLast?_eq_some_iff.mp hx
  simp [rstrip, List.dropWhile, isPyWs_nl, h]

theorem leadWs_spaces (k : Nat) (c : Char) (s : Str) (h : isPyWs c = false) :
    leadWs (spaces k ++ c :: s) = k := by
  induction k with
  | zero => simp [spaces, leadWs, h]
  | succ k ih =>
    have : spaces (k + 1) ++ c :: s = ' ' :: (spaces k ++ c :: s) := by
      simp [spaces, List.replicate_succ]
    rw [this]
    unfold leadWs at *
    simp [List.takeWhile, isPyWs_space, ih]

theorem drop_spaces (b k : Nat) (s : Str) : (spaces (b + k) ++ s).drop b = spaces k ++ s := by
  have : spaces (b + k) = spaces b ++ spaces k := by simp [spaces, List.replicate_append_replicate]
  rw [this, List.append_assoc]
  exact List.drop_left' (by simp [spaces])

theorem indexOf_spaces (k : Nat) (c : Char) (item r : Str) (hc : c ≠ ' ') :
    indexOf (c :: item) (spaces k ++ (c :: item) ++ r) = some k := by
  induction k with
  | zero =>
    have : (c :: item).isPrefixOf ((c :: item) ++ r) = true :=
      List.isPrefixOf_iff_prefix.mpr (List.prefix_append _ _)
    simp only [spaces, List.replicate_zero, List.nil_append, List.cons_append] at *
    simp [indexOf, this]
  | succ k ih =>
    have e : spaces (k + 1) ++ (c :: item) ++ r = ' ' :: (spaces k ++ (c :: item) ++ r) := by
      simp [spaces, List.replicate_succ]
    rw [e]
    have ih' : indexOf (c :: item) (spaces k ++ c :: (item ++ r)) = some k := by simpa using ih
    simp [indexOf, hc, ih']


theorem strip_rendered (k : Nat) (t : Str) (h : WFText t) : strip (spaces k ++ t ++ ['\n']) = t := by
  obtain ⟨hne, _, hhead, hlast⟩ := h
  match t, hne with
  | c :: t', _ =>
    have hc : isPyWs c = false := hhead c (by simp)
    unfold strip
    rw [List.append_assoc, lstrip_spaces, List.cons_append, lstrip_of_head _ _ hc]
    cases hl : (c :: t').getLast? with
    | none => simp at hl
    | some d =>
      have := rstrip_snoc_nl (c :: t') d hl (hlast d hl)
      simpa using this

theorem lstrip_rendered (k : Nat) (t : Str) (h : WFText t) :
    lstrip (spaces k ++ t ++ ['\n']) = t ++ ['\n'] := by
  obtain ⟨hne, _, hhead, _⟩ := h
  match t, hne with
  | c :: t', _ =>
    have hc : isPyWs c = false := hhead c (by simp)
    rw [List.append_assoc, lstrip_spaces, List.cons_append, lstrip_of_head _ _ hc]

theorem phase1_skip (item : Str) (pre rest : List Str) (h : ∀ L ∈ pre, item ≠ strip L) :
    phase1 item (pre ++ rest) = phase1 item rest := by
  induction pre with
  | nil => rfl
  | cons L pre ih =>
    have h1 : item ≠ strip L := h L (by simp)
    simp [phase1, h1, ih (fun L' hL' => h L' (by simp [hL']))]

theorem phase1_hit (b : Nat) (item : Str) (rest : List Str) (h : WFText item) :
    phase1 item ((spaces b ++ item ++ ['\n']) :: rest) = (item ++ ['\n']) :: phase2 b rest := by
  have hs := strip_rendered b item h
  have hl := lstrip_rendered b item h
  obtain ⟨hne, _, hhead, _⟩ := h
  match item, hne with
  | c :: t', _ =>
    have hc : isPyWs c = false := hhead c (by simp)
    have hsp : c ≠ ' ' := fun e => by rw [e, isPyWs_space] at hc; cases hc
    have hi := indexOf_spaces b c t' ['\n'] hsp
    simp only [phase1, hs, hi, hl, if_true]

theorem phase2_keep (b : Nat) (line : Str) (rest : List Str) (h1 : (strip line).isEmpty = false)
    (h2 : (strip line).head? ≠ some '#') (h3 : b < leadWs line) :
    phase2 b (line :: rest) = line.drop b :: phase2 b rest := by
  simp [phase2, h1, h2, h3]

theorem phase2_line (b : Nat) (l : BLine) (rest : List Str) (h : WFLine l) :
    phase2 b (renderLine b l :: rest) = renderLine 0 l :: phase2 b rest := by
  obtain ⟨hind, hwf, hhash⟩ := h
  have hs : strip (renderLine b l) = l.txt := strip_rendered (b + l.ind) l.txt hwf
  obtain ⟨hne, _, hhead, _⟩ := hwf
  have h1 : (strip (renderLine b l)).isEmpty = false := by
    rw [hs]; cases hl : l.txt with
    | nil => exact absurd hl hne
    | cons _ _ => rfl
  have h2 : (strip (renderLine b l)).head? ≠ some '#' := by rw [hs]; exact hhash
  have h3 : b < leadWs (renderLine b l) := by
    match htxt : l.txt, hne with
    | c :: t', _ =>
      have hc : isPyWs c = false := hhead c (by simp [htxt])
      have : leadWs (spaces (b + l.ind) ++ c :: (t' ++ ['\n'])) = b + l.ind := leadWs_spaces _ c _ hc
      simp only [renderLine, htxt, List.cons_append, List.append_assoc] at this ⊢
      omega
  rw [phase2_keep b _ rest h1 h2 h3]
  have hd : (renderLine b l).drop b = renderLine 0 l := by
    have := drop_spaces b l.ind (l.txt ++ ['\n'])
    simpa [renderLine, List.append_assoc] using this
  rw [hd]

theorem phase2_body (b : Nat) (body : List BLine) (rest : List Str) (h : ∀ l ∈ body, WFLine l) :
    phase2 b (body.map (renderLine b) ++ rest) = body.map (renderLine 0) ++ phase2 b rest := by
  induction body with
  | nil => rfl
  | cons l body ih =>
    simp only [List.map_cons, List.cons_append]
    rw [phase2_line b l _ (h l (by simp)), ih (fun l' hl' => h l' (by simp [hl']))]

theorem phase2_stop (b : Nat) (tail : Str) (h : StopsAt b tail) : phase2 b (splitLines tail) = [] := by
  rcases h with rfl | ⟨l, hl, hne, hhash, hlw⟩
  · simp [splitLines, phase2]
  · match hsl : splitLines tail, hl with
    | l' :: rest, hl =>
      have : l' = l := by simpa using hl
      subst this
      have hne' : (strip l').isEmpty = false := by
        cases hst : strip l' with
        | nil => exact absurd hst hne
        | cons _ _ => rfl
      have : ¬ (b < leadWs l') := by omega
      simp [phase2, hne', hhash, this]


/-- lines (without terminator) written one per line. -/
def linesText (ls : List Str) : Str := (ls.map (· ++ ['\n'])).flatten

theorem splitLines_linesText (ls : List Str) (rest : Str) (h : ∀ l ∈ ls, '\n' ∉ l) :
    splitLines (linesText ls ++ rest) = ls.map (· ++ ['\n']) ++ splitLines rest := by
  induction ls with
  | nil => simp [linesText]
  | cons l ls ih =>
    have e : linesText (l :: ls) ++ rest = l ++ '\n' :: (linesText ls ++ rest) := by
      simp [linesText]
    rw [e, splitLines_line l _ (h l (by simp)), ih (fun l' hl' => h l' (by simp [hl']))]
    simp

theorem body_text (b : Nat) (body : List BLine) :
    (body.map (renderLine b)).flatten = linesText (body.map fun l => spaces (b + l.ind) ++ l.txt) := by
  have : renderLine b = fun x => spaces (b + x.ind) ++ (x.txt ++ ['\n']) := by
    funext x; simp [renderLine]
  simp [linesText, Function.comp_def, this]

theorem body_lines (b : Nat) (body : List BLine) :
    (body.map fun l => spaces (b + l.ind) ++ l.txt).map (· ++ ['\n']) = body.map (renderLine b) := by
  have : renderLine b = fun x => spaces (b + x.ind) ++ (x.txt ++ ['\n']) := by
    funext x; simp [renderLine]
  simp [Function.comp_def, this]

theorem no_nl_spaces (k : Nat) : '\n' ∉ spaces k := by
  simp [spaces]

theorem rstrip_member (m : Member) (hm : WFMember m) :
    rstrip (renderMember 0 m) ++ ['\n'] = renderMember 0 m := by
  obtain ⟨_, _, hbody⟩ := hm
  rcases List.eq_nil_or_concat m.body with hb | ⟨bs, l, hb⟩
  · have e : renderMember 0 m = (m.name ++ [':']) ++ ['\n'] := by simp [renderMember, hb, spaces]
    rw [e, rstrip_snoc_nl (m.name ++ [':']) ':' (by simp) isPyWs_colon]
  · have hl : WFLine l := hbody l (by simp [hb])
    obtain ⟨_, ⟨hne, _, _, hlast⟩, _⟩ := hl
    have e : renderMember 0 m =
        (spaces 0 ++ m.name ++ [':', '\n'] ++ (bs.map (renderLine 0)).flatten ++ spaces (0 + l.ind) ++ l.txt) ++ ['\n'] := by
      simp [renderMember, hb, renderLine, List.concat_eq_append]
    cases hg : l.txt.getLast? with
    | none => simp at hg; exact absurd hg hne
    | some d =>
      have hx : (spaces 0 ++ m.name ++ [':', '\n'] ++ (bs.map (renderLine 0)).flatten ++ spaces (0 + l.ind) ++ l.txt).getLast? = some d := by
        rw [List.getLast?_append, hg]; rfl
      rw [e, rstrip_snoc_nl _ d hx (hlast d hg)]

/-- `_parse_def_from_wb` on a text of the shape: anything, the section line, arbitrary lines none of
    which (stripped) is the item tag, the member rendered at indentation `b`, a tail at which the
    second loop stops. -/
theorem cutDef_text (pre sec secRest : Str) (before : List Str) (b : Nat) (m : Member) (tail : Str)
    (hsec : '\n' ∉ sec ++ secRest)
    (hfirst : indexOf sec (pre ++ ((sec ++ secRest) ++ '\n' ::
        (linesText before ++ (renderMember b m ++ tail)))) = some pre.length)
    (hbefore : ∀ l ∈ before, '\n' ∉ l ∧ m.name ++ [':'] ≠ strip (l ++ ['\n']))
    (hm : WFMember m) (htail : StopsAt b tail) :
    cutDef (pre ++ ((sec ++ secRest) ++ '\n' :: (linesText before ++ (renderMember b m ++ tail))))
      sec (m.name ++ [':']) = some (renderMember 0 m) := by
  have hwfm := hm
  obtain ⟨hnl, hhead, hbody⟩ := hm
  have hitem : WFText (m.name ++ [':']) := by
    refine ⟨by simp, by simpa using hnl, fun c hc => (hhead c hc).1, fun c hc => ?_⟩
    have : c = ':' := by simpa using hc.symm
    rw [this]; exact isPyWs_colon
  unfold cutDef
  rw [hfirst]
  simp only
  rw [List.drop_left' rfl, dropLine_line _ _ hsec,
    splitLines_linesText before _ (fun l hl => (hbefore l hl).1)]
  have e1 : renderMember b m ++ tail = (spaces b ++ (m.name ++ [':'])) ++ '\n' ::
      (linesText (m.body.map fun l => spaces (b + l.ind) ++ l.txt) ++ tail) := by
    rw [← body_text]; simp [renderMember]
  have hnl1 : '\n' ∉ spaces b ++ (m.name ++ [':']) := by
    have := no_nl_spaces b
    simp only [List.mem_append, not_or]
    exact ⟨this, by simpa using hnl⟩
  have hnl2 : ∀ l ∈ (m.body.map fun l => spaces (b + l.ind) ++ l.txt), '\n' ∉ l := by
    intro l hl
    obtain ⟨bl, hbl, rfl⟩ := List.mem_map.mp hl
    have := no_nl_spaces (b + bl.ind)
    have h2 := (hbody bl hbl).2.1.2.1
    simp only [List.mem_append, not_or]
    exact ⟨this, h2⟩
  rw [e1, splitLines_line _ _ hnl1, splitLines_linesText _ _ hnl2, body_lines]
  rw [phase1_skip]
  · have e2 : spaces b ++ (m.name ++ [':']) ++ ['\n'] = spaces b ++ (m.name ++ [':']) ++ ['\n'] := rfl
    rw [phase1_hit b (m.name ++ [':']) _ hitem, phase2_body b m.body _ hbody, phase2_stop b tail htail]
    have e3 : ((m.name ++ [':'] ++ ['\n']) :: (m.body.map (renderLine 0) ++ [])).flatten = renderMember 0 m := by
      simp [renderMember, spaces]
    rw [e3, rstrip_member m hwfm]
  · intro L hL
    obtain ⟨l, hl, rfl⟩ := List.mem_map.mp hL
    exact (hbefore l hl).2


/-! ### workbook-level statement -/

def memberLines (b : Nat) (m : Member) : List Str :=
  (spaces b ++ (m.name ++ [':'])) :: m.body.map (fun l => spaces (b + l.ind) ++ l.txt)

theorem renderMember_lines (b : Nat) (m : Member) : renderMember b m = linesText (memberLines b m) := by
  have := body_text b m.body
  simp only [linesText] at this
  simp [renderMember, memberLines, linesText, this]

theorem renderMembers_lines (b : Nat) (ms : List Member) :
    (ms.map (renderMember b)).flatten = linesText (ms.flatMap (memberLines b)) := by
  induction ms with
  | nil => simp [linesText]
  | cons m ms ih =>
    simp only [List.map_cons, List.flatten_cons, ih, renderMember_lines, List.flatMap_cons]
    simp [linesText]

theorem wfitem (m : Member) (hm : WFMember m) : WFText (m.name ++ [':']) := by
  obtain ⟨hnl, hhead, _⟩ := hm
  refine ⟨by simp, by simpa using hnl, fun c hc => (hhead c hc).1, fun c hc => ?_⟩
  have : c = ':' := by simpa using hc.symm
  rw [this]; exact isPyWs_colon

/-- P2 of `cutDef_correct_partial`: no earlier member has the same name, and no body line of an
    earlier member is, stripped, `name:` (a task / key of an earlier workflow named like this member). -/
def NoEarlierClash (ms1 : List Member) (m : Member) : Prop :=
  ∀ m' ∈ ms1, m'.name ≠ m.name ∧ ∀ l ∈ m'.body, l.txt ≠ m.name ++ [':']

instance (ms1 : List Member) (m : Member) : Decidable (NoEarlierClash ms1 m) := by
  unfold NoEarlierClash; exact inferInstance

theorem before_ok (b : Nat) (ms1 : List Member) (m : Member) (hwf : ∀ m' ∈ ms1, WFMember m')
    (hc : NoEarlierClash ms1 m) :
    ∀ l ∈ ms1.flatMap (memberLines b), '\n' ∉ l ∧ m.name ++ [':'] ≠ strip (l ++ ['\n']) := by
  intro l hl
  obtain ⟨m', hm', hl'⟩ := List.mem_flatMap.mp hl
  have hwm := hwf m' hm'
  obtain ⟨hne, hbody⟩ := hc m' hm'
  simp only [memberLines, List.mem_cons, List.mem_map] at hl'
  rcases hl' with rfl | ⟨bl, hbl, rfl⟩
  · have hi := wfitem m' hwm
    refine ⟨?_, ?_⟩
    · have := no_nl_spaces b
      have h2 := hi.2.1
      intro hmem
      rcases List.mem_append.mp hmem with h | h
      · exact this h
      · exact h2 h
    · rw [strip_rendered b _ hi]
      intro e
      exact hne (List.append_cancel_right e).symm
  · have hwl := (hwm.2.2 bl hbl)
    refine ⟨?_, ?_⟩
    · have := no_nl_spaces (b + bl.ind)
      simp only [List.mem_append, not_or]
      exact ⟨this, hwl.2.1.2.1⟩
    · rw [strip_rendered (b + bl.ind) _ hwl.2.1]
      exact fun e => hbody bl hbl e.symm

theorem stops_at_member (b : Nat) (m2 : Member) (rest : Str) (hm : WFMember m2) :
    StopsAt b (renderMember b m2 ++ rest) := by
  right
  have hi := wfitem m2 hm
  have e1 : renderMember b m2 ++ rest = (spaces b ++ (m2.name ++ [':'])) ++ '\n' ::
      ((m2.body.map (renderLine b)).flatten ++ rest) := by simp [renderMember]
  have hnl1 : '\n' ∉ spaces b ++ (m2.name ++ [':']) := by
    have := no_nl_spaces b
    have h2 := hi.2.1
    intro hmem
    rcases List.mem_append.mp hmem with h | h
    · exact this h
    · exact h2 h
  refine ⟨spaces b ++ (m2.name ++ [':']) ++ ['\n'], ?_, ?_, ?_, ?_⟩
  · rw [e1, splitLines_line _ _ hnl1]; rfl
  · rw [strip_rendered b _ hi]; simp
  · rw [strip_rendered b _ hi]
    intro e
    have := (hm.2.1 '#' e).2
    exact this rfl
  · obtain ⟨hne, _, hhead, _⟩ := hi
    match hx : m2.name ++ [':'], hne with
    | c :: t', _ =>
      have hc : isPyWs c = false := hhead c (by rw [hx]; rfl)
      have := leadWs_spaces b c (t' ++ ['\n']) hc
      simp only [List.cons_append, List.append_assoc] at this ⊢
      omega


/-! ### graph checks -/

theorem firstBad_none (p : String → Bool) (l : List String) (h : firstBad p l = none) :
    ∀ x ∈ l, p x = true := by
  induction l with
  | nil => intro x hx; cases hx
  | cons a l ih =>
    intro x hx
    by_cases ha : p a = true
    · simp only [firstBad, ha, if_true] at h
      rcases List.mem_cons.mp hx with rfl | hx'
      · exact ha
      · exact ih h x hx'
    · simp [firstBad, ha] at h

theorem firstBad_none_of (p : String → Bool) (l : List String) (h : ∀ x ∈ l, p x = true) :
    firstBad p l = none := by
  induction l with
  | nil => rfl
  | cons a l ih =>
    simp [firstBad, h a (by simp), ih (fun x hx => h x (by simp [hx]))]


/-! ### normalisation -/

theorem getKey_setKey_self (k : String) (v : J) (l : List (String × J)) :
    getKey k (setKey k v l) = some v := by
  induction l with
  | nil => simp [setKey, getKey]
  | cons p l ih =>
    obtain ⟨k', v'⟩ := p
    by_cases h : k' = k
    · simp [setKey, getKey, h]
    · simp [setKey, getKey, h, ih]

theorem getKey_setKey_ne (k k' : String) (v : J) (l : List (String × J)) (hne : k' ≠ k) :
    getKey k' (setKey k v l) = getKey k' l := by
  induction l with
  | nil => simp [setKey, getKey, Ne.symm hne]
  | cons p l ih =>
    obtain ⟨k2, v2⟩ := p
    by_cases h : k2 = k
    · subst h
      simp [setKey, getKey, Ne.symm hne]
    · by_cases h2 : k2 = k'
      · subst h2
        simp [setKey, getKey, h]
      · simp [setKey, getKey, h, h2, ih]

theorem setKey_of_getKey (k : String) (v : J) (l : List (String × J)) (h : getKey k l = some v) :
    setKey k v l = l := by
  induction l with
  | nil => simp [getKey] at h
  | cons p l ih =>
    obtain ⟨k', v'⟩ := p
    by_cases hk : k' = k
    · subst hk
      simp only [getKey, if_true] at h
      have : v' = v := by injection h
      simp [setKey, this]
    · simp only [getKey, hk, if_false] at h
      simp [setKey, hk, ih h]

theorem setKey_idem (k : String) (v : J) (l : List (String × J)) :
    setKey k v (setKey k v l) = setKey k v l :=
  setKey_of_getKey k v _ (getKey_setKey_self k v l)

theorem getKey_mergeInline_not_mem (inl : List (String × J)) (k : String)
    (h : k ∉ inl.map Prod.fst) (L : List (String × J)) :
    getKey k (mergeInline inl L) = getKey k L := by
  induction inl generalizing L with
  | nil => rfl
  | cons p inl ih =>
    obtain ⟨k', v'⟩ := p
    have hk : k ≠ k' := fun e => h (by simp [e])
    have hrest : k ∉ inl.map Prod.fst := fun e => h (by simp [e])
    show getKey k (mergeInline inl (setKey k' v' L)) = getKey k L
    rw [ih hrest, getKey_setKey_ne k' k v' L hk]

/-- merging the inline parameters twice is merging them once (keys of a Python dict are distinct). -/
theorem mergeInline_idem (inl : List (String × J)) (h : (inl.map Prod.fst).Nodup)
    (L : List (String × J)) : mergeInline inl (mergeInline inl L) = mergeInline inl L := by
  induction inl generalizing L with
  | nil => rfl
  | cons p inl ih =>
    obtain ⟨k, v⟩ := p
    have hnd : k ∉ inl.map Prod.fst ∧ (inl.map Prod.fst).Nodup := by simpa using h
    show mergeInline inl (setKey k v (mergeInline inl (setKey k v L))) = mergeInline inl (setKey k v L)
    have hg : getKey k (mergeInline inl (setKey k v L)) = some v := by
      rw [getKey_mergeInline_not_mem inl k hnd.1, getKey_setKey_self]
    rw [setKey_of_getKey k v _ hg, ih hnd.2]

theorem mergeInput_idem (inl : List (String × J)) (h : (inl.map Prod.fst).Nodup)
    (kvs : List (String × J)) : mergeInput inl (mergeInput inl kvs) = mergeInput inl kvs := by
  cases hget : getKey "input" kvs with
  | none => simp [mergeInput, hget]
  | some x =>
    cases x with
    | obj inp =>
      have e1 : mergeInput inl kvs = setKey "input" (.obj (mergeInline inl inp)) kvs := by
        simp [mergeInput, hget]
      have e2 : getKey "input" (setKey "input" (.obj (mergeInline inl inp)) kvs) =
          some (.obj (mergeInline inl inp)) := getKey_setKey_self _ _ _
      rw [e1]
      simp [mergeInput, e2, mergeInline_idem inl h, setKey_idem]
    | null => simp [mergeInput, hget]
    | bool _ => simp [mergeInput, hget]
    | num _ => simp [mergeInput, hget]
    | str _ => simp [mergeInput, hget]
    | arr _ => simp [mergeInput, hget]

theorem getKey_mergeInput_ne (inl : List (String × J)) (k : String) (hk : k ≠ "input")
    (kvs : List (String × J)) : getKey k (mergeInput inl kvs) = getKey k kvs := by
  unfold mergeInput
  split
  · exact getKey_setKey_ne "input" k _ kvs hk
  · rfl


theorem normTask_idem (typ : J) (inl : String → List (String × J))
    (hn : ∀ t, ((inl t).map Prod.fst).Nodup) (name : String) (t t' : J)
    (h : normTask typ inl name t = .ok t') : normTask typ inl name t' = .ok t' := by
  cases t with
  | obj kvs =>
    by_cases hv : name = "version"
    · simp only [normTask, hv, if_true] at h
      injection h with h
      subst h
      simp [normTask, hv, setKey_idem]
    · simp only [normTask, hv, if_false] at h
      injection h with h
      subst h
      have g1 : getKey "type" (mergeInput (inl name) (setKey "version" (.str "2.0")
          (setKey "name" (.str name) (setKey "type" typ kvs)))) = some typ := by
        rw [getKey_mergeInput_ne _ _ (by decide), getKey_setKey_ne _ _ _ _ (by decide),
          getKey_setKey_ne _ _ _ _ (by decide), getKey_setKey_self]
      have g2 : getKey "name" (mergeInput (inl name) (setKey "version" (.str "2.0")
          (setKey "name" (.str name) (setKey "type" typ kvs)))) = some (.str name) := by
        rw [getKey_mergeInput_ne _ _ (by decide), getKey_setKey_ne _ _ _ _ (by decide),
          getKey_setKey_self]
      have g3 : getKey "version" (mergeInput (inl name) (setKey "version" (.str "2.0")
          (setKey "name" (.str name) (setKey "type" typ kvs)))) = some (.str "2.0") := by
        rw [getKey_mergeInput_ne _ _ (by decide), getKey_setKey_self]
      simp only [normTask, hv, if_false]
      rw [setKey_of_getKey _ _ _ g1, setKey_of_getKey _ _ _ g2, setKey_of_getKey _ _ _ g3,
        mergeInput_idem _ (hn name)]
  | null => simp [normTask] at h
  | bool _ => simp [normTask] at h
  | num _ => simp [normTask] at h
  | str _ => simp [normTask] at h
  | arr _ => simp [normTask] at h

theorem normTasks_idem (typ : J) (inl : String → List (String × J))
    (hn : ∀ t, ((inl t).map Prod.fst).Nodup) (ts ts' : List (String × J))
    (h : normTasks typ inl ts = .ok ts') : normTasks typ inl ts' = .ok ts' := by
  induction ts generalizing ts' with
  | nil =>
    simp only [normTasks] at h
    injection h with h; subst h; rfl
  | cons p ts ih =>
    obtain ⟨n, t⟩ := p
    simp only [normTasks] at h
    split at h
    · cases h
    · rename_i t1 ht1
      split at h
      · cases h
      · rename_i r1 hr1
        injection h with h
        subst h
        simp only [normTasks, normTask_idem typ inl hn n t t1 ht1, ih r1 hr1]


/-- the inline-parameter oracle comes from Python dicts: keys are distinct. -/
def InlineOk (inl : String → String → List (String × J)) : Prop :=
  ∀ w t, ((inl w t).map Prod.fst).Nodup

theorem normWf_idem (inl : String → String → List (String × J)) (hn : InlineOk inl)
    (name : String) (w w' : J) (h : normWf inl name w = .ok w') : normWf inl name w' = .ok w' := by
  cases w with
  | obj kvs =>
    simp only [normWf] at h
    split at h
    · rename_i ts hts
      split at h
      · cases h
      · rename_i ts' hts'
        injection h with h
        subst h
        have gN : getKey "name" (setKey "tasks" (.obj ts') (setKey "version" (.str "2.0")
            (setKey "name" (.str name) kvs))) = some (.str name) := by
          rw [getKey_setKey_ne _ _ _ _ (by decide), getKey_setKey_ne _ _ _ _ (by decide),
            getKey_setKey_self]
        have gV : getKey "version" (setKey "tasks" (.obj ts') (setKey "version" (.str "2.0")
            (setKey "name" (.str name) kvs))) = some (.str "2.0") := by
          rw [getKey_setKey_ne _ _ _ _ (by decide), getKey_setKey_self]
        simp only [normWf]
        rw [setKey_of_getKey _ _ _ gN, setKey_of_getKey _ _ _ gV]
        rw [getKey_setKey_ne "tasks" "type" _ _ (by decide), getKey_setKey_self]
        simp only [normTasks_idem _ _ (hn name) ts ts' hts', setKey_idem]
    · cases h
  | null => simp [normWf] at h
  | bool _ => simp [normWf] at h
  | num _ => simp [normWf] at h
  | str _ => simp [normWf] at h
  | arr _ => simp [normWf] at h

theorem normMembers_idem (inl : String → String → List (String × J)) (hn : InlineOk inl)
    (ms ms' : List (String × J)) (h : normMembers inl ms = .ok ms') :
    normMembers inl ms' = .ok ms' := by
  induction ms generalizing ms' with
  | nil =>
    simp only [normMembers] at h
    injection h with h; subst h; rfl
  | cons p ms ih =>
    obtain ⟨n, w⟩ := p
    by_cases hv : n = "version"
    · simp only [normMembers, hv, if_true] at h
      split at h
      · cases h
      · rename_i r1 hr1
        injection h with h
        subst h
        simp only [normMembers, if_true, ih r1 hr1]
    · simp only [normMembers, hv, if_false] at h
      split at h
      · cases h
      · rename_i w1 hw1
        split at h
        · cases h
        · rename_i r1 hr1
          injection h with h
          subst h
          simp only [normMembers, hv, if_false, normWf_idem inl hn n w w1 hw1, ih r1 hr1]

end Mistral.Lang
