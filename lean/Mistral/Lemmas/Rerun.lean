/- Helper lemmas for C12 (rerun / skip). -/
import Mistral.Model.Rerun
namespace Mistral.Rerun
open Mistral

/-- parents are created before their children: the workflow of the parent task of workflow `i`
    has a smaller index (rows are listed in creation order). -/
def WellNested (w : World) : Prop :=
  ∀ (i : Nat) (wf : Wf) (p : Nat) (t : Task),
    w.wfs[i]? = some wf → wf.parent = some p → w.tasks[p]? = some t → t.wf < i

/-- `k` is workflow `i` itself or one of its enclosing workflows -/
inductive Anc (w : World) (i : Nat) : Nat → Prop where
  | refl : Anc w i i
  | step {k p : Nat} {wf : Wf} {t : Task} : Anc w i k → w.wfs[k]? = some wf → wf.parent = some p →
      w.tasks[p]? = some t → Anc w i t.wf

theorem self_mem_chain (w : World) (fuel j : Nat) (wf : Wf) (hf : 0 < fuel)
    (h : w.wfs[j]? = some wf) : j ∈ chainWfs (chain w fuel j) := by
  cases fuel with
  | zero => omega
  | succ f =>
    unfold chain chainWfs
    simp only [h]
    cases hp : wf.parent with
    | none => simp
    | some p =>
      cases ht : w.tasks[p]? with
      | none => simp [ht]
      | some t => simp [ht]

/-- the chain is closed under "enclosing workflow" -/
theorem chain_closed (w : World) (hw : WellNested w) :
    ∀ fuel i, i < fuel → ∀ k ∈ chainWfs (chain w fuel i), ∀ wf p t, w.wfs[k]? = some wf →
      wf.parent = some p → w.tasks[p]? = some t →
      t.wf ∈ chainWfs (chain w fuel i) ∧ p ∈ chainTasks (chain w fuel i) := by
  intro fuel
  induction fuel with
  | zero => intro i hi; omega
  | succ f ih =>
    intro i hi k hk wf p t hwf hpar ht
    unfold chain at hk ⊢
    cases hwi : w.wfs[i]? with
    | none => simp [hwi, chainWfs] at hk
    | some wfi =>
      simp only [hwi] at hk ⊢
      cases hp0 : wfi.parent with
      | none =>
        simp only [hp0, chainWfs, List.map_cons, List.map_nil, List.mem_singleton] at hk
        subst hk
        rw [hwi] at hwf
        cases hwf
        rw [hp0] at hpar
        cases hpar
      | some p0 =>
        simp only [hp0] at hk ⊢
        cases ht0 : w.tasks[p0]? with
        | none =>
          simp only [ht0, chainWfs, List.map_cons, List.map_nil, List.mem_singleton] at hk
          subst hk
          rw [hwi] at hwf
          cases hwf
          rw [hp0] at hpar
          cases hpar
          rw [ht0] at ht
          cases ht
        | some t0 =>
          simp only [ht0] at hk ⊢
          have hlt : t0.wf < i := hw i wfi p0 t0 hwi hp0 ht0
          simp only [chainWfs, List.map_cons, List.mem_cons] at hk
          rcases hk with hk | hk
          · subst hk
            rw [hwi] at hwf
            cases hwf
            rw [hp0] at hpar
            cases hpar
            rw [ht0] at ht
            cases ht
            have hex : ∃ wft, w.wfs[t.wf]? = some wft := by
              have : t.wf < w.wfs.length := by
                have := (List.getElem?_eq_some_iff.mp hwi).1
                omega
              exact ⟨w.wfs[t.wf], List.getElem?_eq_getElem this⟩
            obtain ⟨wft, hwft⟩ := hex
            have hm := self_mem_chain w f t.wf wft (by omega) hwft
            constructor
            · simp only [chainWfs, List.map_cons, List.mem_cons]
              exact Or.inr hm
            · simp [chainTasks]
          · have := ih t0.wf (by omega) k hk wf p t hwf hpar ht
            constructor
            · simp only [chainWfs, List.map_cons, List.mem_cons]
              exact Or.inr this.1
            · simp only [chainTasks, List.filterMap_cons]
              exact List.mem_cons_of_mem _ this.2

/-- every workflow of the chain exists -/
theorem chain_wfs_exist (w : World) : ∀ fuel i, ∀ k ∈ chainWfs (chain w fuel i),
    ∃ wf, w.wfs[k]? = some wf := by
  intro fuel
  induction fuel with
  | zero => intro i k hk; simp [chain, chainWfs] at hk
  | succ f ih =>
    intro i k hk
    unfold chain at hk
    cases hwi : w.wfs[i]? with
    | none => simp [hwi, chainWfs] at hk
    | some wfi =>
      simp only [hwi] at hk
      cases hp0 : wfi.parent with
      | none =>
        simp only [hp0, chainWfs, List.map_cons, List.map_nil, List.mem_singleton] at hk
        subst hk; exact ⟨wfi, hwi⟩
      | some p0 =>
        simp only [hp0] at hk
        cases ht0 : w.tasks[p0]? with
        | none =>
          simp only [ht0, chainWfs, List.map_cons, List.map_nil, List.mem_singleton] at hk
          subst hk; exact ⟨wfi, hwi⟩
        | some t0 =>
          simp only [ht0, chainWfs, List.map_cons, List.mem_cons] at hk
          rcases hk with hk | hk
          · subst hk; exact ⟨wfi, hwi⟩
          · exact ih t0.wf k hk

/-- "all enclosing workflows and parent tasks": induction over the nesting depth. -/
theorem chain_complete (w : World) (hw : WellNested w) (i : Nat) (hi : i < w.wfs.length)
    (k : Nat) (h : Anc w i k) : k ∈ chainWfs (chain w w.wfs.length i) := by
  induction h with
  | refl => exact self_mem_chain w _ i w.wfs[i] (by omega) (List.getElem?_eq_getElem hi)
  | step _ hwf hpar ht ih => exact (chain_closed w hw _ i hi _ ih _ _ _ hwf hpar ht).1

theorem chain_tasks_complete (w : World) (hw : WellNested w) (i : Nat) (hi : i < w.wfs.length)
    (k p : Nat) (wf : Wf) (t : Task) (h : Anc w i k) (hwf : w.wfs[k]? = some wf)
    (hpar : wf.parent = some p) (ht : w.tasks[p]? = some t) :
    p ∈ chainTasks (chain w w.wfs.length i) :=
  (chain_closed w hw _ i hi _ (chain_complete w hw i hi k h) _ _ _ hwf hpar ht).2

/-! ### effects of `reactivate` -/

theorem markRunning_state (t : Task) : (markRunning t).state = .RUNNING := by
  unfold markRunning
  split
  · next h => simpa using h
  · rfl

theorem reactivate_ok (w w' : World) (i : Nat) (h : reactivate w i = .ok w') :
    w'.wfs = (w.wfs.mapIdx fun k wf =>
        if (chainWfs (chain w w.wfs.length i)).contains k then { wf with state := .RUNNING } else wf) ∧
    w'.tasks = (w.tasks.mapIdx fun k t =>
        if (chainTasks (chain w w.wfs.length i)).contains k then markRunning t else t) ∧
    w'.starts = w.starts ∧ w'.created = w.created ∧
    w'.integrity = w.integrity ++ chainWfs (chain w w.wfs.length i) := by
  unfold reactivate at h
  simp only at h
  split at h
  · cases h
  · cases h
    simp

theorem reactivate_wf_running (w w' : World) (i k : Nat) (h : reactivate w i = .ok w')
    (hk : k ∈ chainWfs (chain w w.wfs.length i)) :
    (w'.wfs[k]?).map (·.state) = some .RUNNING := by
  obtain ⟨wf, hwf⟩ := chain_wfs_exist w _ i k hk
  rw [(reactivate_ok w w' i h).1]
  simp [List.getElem?_mapIdx, hwf, hk]

theorem reactivate_task_running (w w' : World) (i p : Nat) (t : Task) (h : reactivate w i = .ok w')
    (hp : p ∈ chainTasks (chain w w.wfs.length i)) (ht : w.tasks[p]? = some t) :
    (w'.tasks[p]?).map (·.state) = some .RUNNING := by
  rw [(reactivate_ok w w' i h).2.1]
  simp [List.getElem?_mapIdx, ht, hp, markRunning_state]

theorem reactivate_task_exists (w w' : World) (i p : Nat) (h : reactivate w i = .ok w') :
    (w'.tasks[p]?).isSome = (w.tasks[p]?).isSome := by
  rw [(reactivate_ok w w' i h).2.1]
  simp [List.getElem?_mapIdx]

/-! ### with-items index selection -/

theorem range'_eq_nil_of_zero (a : Nat) : List.range' a 0 = [] := rfl

theorem getLast?_filter_range_succ (p : Nat → Bool) (n : Nat) (h : p n = true) :
    ((List.range (n + 1)).filter p).getLast? = some n := by
  rw [List.range_succ, List.filter_append]
  simp [h]

/-- if the last item is a candidate, exactly the candidates are started (unlimited capacity) -/
theorem nextIndexes_last_cand (acts : List Act) (n : Nat) (h : isCand acts n = true) :
    nextIndexes acts (n + 1) none = (List.range (n + 1)).filter (isCand acts) := by
  unfold nextIndexes
  simp only [getLast?_filter_range_succ (isCand acts) n h]
  simp

theorem nextIndexes_all_cand (acts : List Act) (n : Nat) (h : ∀ i < n, isCand acts i = true) :
    nextIndexes acts n none = List.range n := by
  cases n with
  | zero => simp [nextIndexes]
  | succ m =>
    rw [nextIndexes_last_cand acts m (h m (by omega))]
    apply List.filter_eq_self.mpr
    intro a ha
    exact h a (List.mem_range.mp ha)

theorem accIdx_reset_true (acts : List Act) : accIdx (resetActs true acts) = [] := by
  unfold accIdx resetActs
  simp [List.filter_map, Function.comp_def]

theorem unaccIdx_reset_true (acts : List Act) (i : Nat)
    (h : ∃ a ∈ acts, a.idx = i ∧ isCompleted a.state = true) :
    (unaccIdx (resetActs true acts)).contains i = true := by
  obtain ⟨a, ha, hi, hc⟩ := h
  unfold unaccIdx resetActs
  simp only [List.contains_iff_mem, List.mem_map, List.mem_filter]
  refine ⟨{ a with accepted := false }, ⟨⟨a, ha, by simp⟩, by simp [hc]⟩, hi⟩

theorem isCand_reset_true (acts : List Act) (i : Nat)
    (h : ∃ a ∈ acts, a.idx = i ∧ isCompleted a.state = true) :
    isCand (resetActs true acts) i = true := by
  unfold isCand
  rw [unaccIdx_reset_true acts i h, accIdx_reset_true]
  simp


theorem mem_reset_firstRun (outs : List St) (a : Act) :
    a ∈ resetActs false (firstRun outs) ↔
      ∃ s, outs[a.idx]? = some s ∧ a.state = s ∧ a.accepted = !failedSt s := by
  unfold resetActs firstRun failedSt
  simp only [List.map_map, List.mem_map, Function.comp_apply, Bool.false_or, Bool.true_and]
  constructor
  · rintro ⟨⟨s, k⟩, hm, rfl⟩
    have := List.mem_zipIdx_iff_getElem?.mp hm
    simp only at this
    refine ⟨s, ?_, ?_, ?_⟩
    · split <;> simpa using this
    · split <;> rfl
    · split
      · next h => simp at h; rcases h with h | h <;> simp [h]
      · next h => simp at h; simp [h]
  · rintro ⟨s, h1, h2, h3⟩
    refine ⟨(s, a.idx), List.mem_zipIdx_iff_getElem?.mpr h1, ?_⟩
    obtain ⟨i, st, ac⟩ := a
    simp only at h1 h2 h3
    subst h2 h3
    split
    · next h => simp at h; rcases h with h | h <;> simp [h]
    · next h => simp at h; simp [h]

theorem isCand_reset_false_firstRun (outs : List St) (i : Nat) (s : St) (hi : outs[i]? = some s)
    (hc : isCompleted s = true) :
    isCand (resetActs false (firstRun outs)) i = failedSt s := by
  unfold isCand unaccIdx accIdx
  cases hf : failedSt s
  · simp only [Bool.and_eq_false_iff]
    left
    rw [Bool.eq_false_iff]
    intro hm
    simp only [List.contains_iff_mem, List.mem_map, List.mem_filter] at hm
    obtain ⟨a, ⟨ha, ha2⟩, rfl⟩ := hm
    obtain ⟨s', h1, h2, h3⟩ := (mem_reset_firstRun outs a).mp ha
    rw [hi] at h1; cases h1
    simp [h3, hf] at ha2
  · simp only [Bool.and_eq_true, Bool.not_eq_true']
    constructor
    · simp only [List.contains_iff_mem, List.mem_map, List.mem_filter]
      refine ⟨⟨i, s, false⟩, ⟨(mem_reset_firstRun outs _).mpr ⟨s, hi, rfl, by simp [hf]⟩, by simp [hc]⟩, rfl⟩
    · rw [Bool.eq_false_iff]
      intro hm
      simp only [List.contains_iff_mem, List.mem_map, List.mem_filter] at hm
      obtain ⟨a, ⟨ha, ha2⟩, rfl⟩ := hm
      obtain ⟨s', h1, h2, h3⟩ := (mem_reset_firstRun outs a).mp ha
      rw [hi] at h1; cases h1
      simp [h3, hf] at ha2

theorem chainWfs_head (w : World) (fuel j : Nat) (wf : Wf) (hf : 0 < fuel)
    (h : w.wfs[j]? = some wf) : ∃ rest, chainWfs (chain w fuel j) = j :: rest := by
  cases fuel with
  | zero => omega
  | succ f =>
    unfold chain chainWfs
    simp only [h]
    cases hp : wf.parent with
    | none => exact ⟨[], by simp⟩
    | some p =>
      cases ht : w.tasks[p]? with
      | none => exact ⟨[], by simp [ht]⟩
      | some t => exact ⟨List.map (fun x => x.fst) (chain w f t.wf), by simp [ht]⟩

end Mistral.Rerun
