/-
Definitions for the join part of the liveness proof (C01): the second group of invariants, the
wake-up invariant of WAITING joins, the hypotheses on definitions and histories.
-/
import Mistral.Lemmas.LiveStates
import Mistral.Lemmas.LiveWalk
import Mistral.Lemmas.LiveVerdict
namespace Mistral.Engine.Live
open Mistral Mistral.Join Mistral.Engine

/-- the class of worlds the join part is proved for: while the workflow is PAUSED no incomplete
    execution carries a stale `processed` flag (`Task.defer` re-opening a finished join leaves one;
    if such a join then completes while PAUSED, `resume` never continues it: known finding) -/
def PausedClean (w : World) : Prop :=
  w.wf = .PAUSED → ∀ r ∈ w.tasks, isCompleted r.state = false → r.processed = false

instance (w : World) : Decidable (PausedClean w) := by unfold PausedClean; exact inferInstance

/-- the routes that fire are transitions of the definition -/
def liveInGraph (sp : Spec) : Prop :=
  ∀ l ∈ sp.live, ∀ x ∈ l.onSuccess ++ l.onError ++ l.onComplete, x ∈ outsOf sp l.name

structure Inv2 (sp : Spec) (w : World) : Prop where
  /-- the dispatcher never runs while PAUSED, so nothing is ever put to the backlog -/
  nobl : w.backlog = []
  idle : w.wf = .IDLE → w.tasks = []
  /-- in a RUNNING workflow every completed execution has been continued -/
  proc : w.wf = .RUNNING → ∀ r ∈ w.tasks, isCompleted r.state = true → r.processed = true
  /-- the targets of a continued execution have rows -/
  routes : ∀ a ∈ w.tasks, isCompleted a.state = true → a.processed = true →
    ∀ x ∈ a.nextTasks, findByName w x.1 ≠ none
  /-- once tasks exist every task without inbound transitions has a row -/
  starts : w.tasks ≠ [] → ∀ t ∈ sp.graph.tasks, (inbound sp.graph t.name).isEmpty = true → findByName w t.name ≠ none
  /-- an execution completed while PAUSED recorded the routes `resume` will dispatch -/
  next : ∀ a ∈ w.tasks, isCompleted a.state = true → a.processed = false → a.nextTasks = nextOf sp a.name a.state

/-- every WAITING execution has a wake-up in flight or a blocker -/
def JW (sp : Spec) (w : World) : Prop :=
  isCompleted w.wf = false → ∀ j ∈ w.tasks, j.state = .WAITING →
    w.pending.any (isWakeFor (idOf j)) = true ∨ BlockedBy sp w j.name

end Mistral.Engine.Live
