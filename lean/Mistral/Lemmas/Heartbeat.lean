/- Helper lemmas for Props/C20 (model: Mistral/Model/Heartbeat.lean). -/
import Mistral.Model.Heartbeat
namespace Mistral.Heartbeat
open Mistral Mistral.Gen.HeartbeatDefaults

theorem resState_completed (r : Res) : isCompleted (resState r) = true := by
  cases r <;> decide

theorem running_not_completed : isCompleted St.RUNNING = false := by decide

/-! ### per-action invariant: a result is accepted at most once -/

/-- not completed ⇒ nothing accepted yet; never more than one accepted result -/
def ActOk (a : Action) : Prop := (isCompleted a.state = false → a.accepts = 0) ∧ a.accepts ≤ 1

theorem accept_ok (now : Int) (a : Action) (r : Res) (h : ActOk a) (hc : isCompleted a.state = false) :
    ActOk (accept now a r) := by
  have h0 := h.1 hc
  refine ⟨?_, ?_⟩
  · intro hn
    simp [accept, resState_completed] at hn
  · simp [accept, h0]

theorem expired_running (cfg : Config) (now : Int) (a : Action) (h : expired cfg now a = true) :
    a.state = .RUNNING := by
  simp [expired, queryFiltersRunning] at h
  exact h.2

theorem expired_not_completed (cfg : Config) (now : Int) (a : Action) (h : expired cfg now a = true) :
    isCompleted a.state = false := by
  rw [expired_running cfg now a h]; decide

theorem selected_expired (cfg : Config) (w : World) (i : Nat) (a : Action) (h : selected cfg w i a = true) :
    expired cfg w.now a = true := by
  simp [selected] at h
  exact h.1

/-! ### shape of the steps: lengths -/

theorem checkerPass_actions_length (cfg : Config) (w : World) :
    (checkerPass cfg w).actions.length = w.actions.length := by
  unfold checkerPass
  split <;> simp

theorem checkerPass_tasks_length (cfg : Config) (w : World) :
    (checkerPass cfg w).tasks.length = w.tasks.length := by
  unfold checkerPass
  split <;> simp

/-- what one pass does to the row at position `i` -/
theorem checkerPass_action (cfg : Config) (w : World) (i : Nat) (a : Action)
    (ha : w.actions[i]? = some a) :
    (checkerPass cfg w).actions[i]? =
      some (if passAborts cfg w = false ∧ selected cfg w i a = true ∧ processable a = true
            then accept w.now a .error else a) := by
  unfold checkerPass
  by_cases hp : passAborts cfg w = true
  · simp [hp, ha]
  · simp only [hp]
    simp only [Bool.false_eq_true, if_false, List.getElem?_mapIdx, ha, Option.map_some]
    by_cases hs : selected cfg w i a = true <;> by_cases hq : processable a = true <;> simp [hs, hq]

/-- a pass never changes a row that the query does not return -/
theorem checkerPass_untouched (cfg : Config) (w : World) (i : Nat) (a : Action)
    (ha : w.actions[i]? = some a) (hne : expired cfg w.now a = false) :
    (checkerPass cfg w).actions[i]? = some a := by
  rw [checkerPass_action cfg w i a ha]
  have : selected cfg w i a = false := by simp [selected, hne]
  simp [this]

/-! ### every step keeps `ActOk` -/

theorem mem_mapIdx_of {α : Type} (P : α → Prop) (f : Nat → α → α) (l : List α)
    (hl : ∀ a ∈ l, P a) (hf : ∀ i a, P a → P (f i a)) : ∀ b ∈ l.mapIdx f, P b := by
  intro b hb
  rw [List.mem_mapIdx] at hb
  obtain ⟨i, hi, rfl⟩ := hb
  exact hf i _ (hl _ (List.getElem_mem hi))

theorem checkerPass_ok (cfg : Config) (w : World) (h : ∀ a ∈ w.actions, ActOk a) :
    ∀ a ∈ (checkerPass cfg w).actions, ActOk a := by
  unfold checkerPass
  split
  · exact h
  · apply mem_mapIdx_of ActOk _ _ h
    intro i a hok
    by_cases hh : (selected cfg w i a && processable a) = true
    · simp only [hh, if_true]
      simp only [Bool.and_eq_true] at hh
      exact accept_ok _ _ _ hok (expired_not_completed cfg w.now a (selected_expired cfg w i a hh.1))
    · simp only [hh]; exact hok

theorem resultStep_ok (w : World) (i : Nat) (r : Res) (h : ∀ a ∈ w.actions, ActOk a) :
    ∀ a ∈ (resultStep w i r).actions, ActOk a := by
  unfold resultStep
  cases hi : w.actions[i]? with
  | none => simpa using h
  | some a =>
    simp only
    by_cases hr : (resultReject w i).isSome = true
    · simpa [hr] using h
    · simp only [hr]
      intro b hb
      have hb' := List.mem_or_eq_of_mem_set hb
      rcases hb' with hb' | rfl
      · exact h b hb'
      · have hmem : a ∈ w.actions := List.mem_of_getElem? hi
        have hnc : isCompleted a.state = false := by
          simp [resultReject, hi] at hr
          by_cases h1 : a.isWf = true
          · simp [h1] at hr
          · by_cases h2 : a.defKnown = true
            · simp [h1, h2] at hr
              simpa using hr
            · simp [h1, h2] at hr
        exact accept_ok _ _ _ (h a hmem) hnc

theorem dbComplete_ok (w : World) (i : Nat) (r : Res) (h : ∀ a ∈ w.actions, ActOk a) :
    ∀ a ∈ (dbCompleteStep w i r).actions, ActOk a := by
  unfold dbCompleteStep
  apply mem_mapIdx_of ActOk _ _ h
  intro j a hok
  by_cases hj : (j == i) = true
  · simp only [hj, if_true]
    refine ⟨?_, hok.2⟩
    intro hn
    simp [resState_completed] at hn
  · simp only [hj]; exact hok

theorem heartbeat_ok (w : World) (ids : List Nat) (h : ∀ a ∈ w.actions, ActOk a) :
    ∀ a ∈ (heartbeatStep w ids).actions, ActOk a := by
  unfold heartbeatStep
  apply mem_mapIdx_of ActOk _ _ h
  intro j a hok
  by_cases hj : (ids.contains j && !a.isWf) = true
  · simp only [hj, if_true]; exact hok
  · simp only [hj]; exact hok

theorem wfResult_actions (w : World) (i : Nat) : (wfResultStep w i).actions = w.actions := by
  unfold wfResultStep
  split
  · rfl
  · split
    · rfl
    · split <;> rfl

theorem integrity_actions (cfg : Config) (w : World) : (integrityStep cfg w).actions = w.actions := by
  unfold integrityStep
  split <;> rfl

theorem step_ok (cfg : Config) (w : World) (ev : Event) (h : ∀ a ∈ w.actions, ActOk a) :
    ∀ a ∈ (step cfg w ev).actions, ActOk a := by
  cases ev with
  | tick dt => exact h
  | heartbeat ids => exact heartbeat_ok w ids h
  | checkerLoop =>
    simp only [step]
    split
    · exact checkerPass_ok cfg w h
    · exact h
  | checkerPass => exact checkerPass_ok cfg w h
  | result i r => exact resultStep_ok w i r h
  | wfResult i => simp only [step, wfResult_actions]; exact h
  | dbComplete i r => exact dbComplete_ok w i r h
  | taskJob t => exact h
  | dropJob t => exact h
  | integrity => simp only [step, integrity_actions]; exact h

theorem run_ok (cfg : Config) (evs : List Event) : ∀ (w : World), (∀ a ∈ w.actions, ActOk a) →
    ∀ a ∈ (run cfg w evs).actions, ActOk a := by
  induction evs with
  | nil => intro w h; exact h
  | cons e es ih =>
    intro w h
    simp only [run, List.foldl_cons]
    exact ih (step cfg w e) (step_ok cfg w e h)

/-! ### completed rows stay completed (and keep their result) under every event but `dbComplete` -/

/-- position `i` holds a completed row -/
def DoneAt (w : World) (i : Nat) : Prop := ∃ a, w.actions[i]? = some a ∧ isCompleted a.state = true

theorem step_done (cfg : Config) (w : World) (ev : Event) (i : Nat) (h : DoneAt w i) :
    DoneAt (step cfg w ev) i := by
  obtain ⟨a, ha, hc⟩ := h
  have hne : expired cfg w.now a = false := by
    cases he : expired cfg w.now a with
    | false => rfl
    | true => rw [expired_not_completed cfg w.now a he] at hc; cases hc
  cases ev with
  | tick dt => exact ⟨a, ha, hc⟩
  | heartbeat ids =>
    simp only [step, heartbeatStep, DoneAt, List.getElem?_mapIdx, ha, Option.map_some]
    refine ⟨_, rfl, ?_⟩
    split <;> exact hc
  | checkerLoop =>
    simp only [step]
    split
    · exact ⟨a, checkerPass_untouched cfg w i a ha hne, hc⟩
    · exact ⟨a, ha, hc⟩
  | checkerPass => exact ⟨a, checkerPass_untouched cfg w i a ha hne, hc⟩
  | result j r =>
    simp only [step, resultStep]
    cases hj : w.actions[j]? with
    | none => exact ⟨a, ha, hc⟩
    | some b =>
      simp only
      by_cases hr : (resultReject w j).isSome = true
      · simp only [hr, if_true]; exact ⟨a, ha, hc⟩
      · simp only [hr]
        by_cases hij : j = i
        · subst hij
          rw [ha] at hj
          cases hj
          exfalso
          simp [resultReject, ha] at hr
          by_cases h1 : a.isWf = true
          · simp [h1] at hr
          · by_cases h2 : a.defKnown = true
            · simp [h1, h2, hc] at hr
            · simp [h1, h2] at hr
        · refine ⟨a, ?_, hc⟩
          simp only [Bool.false_eq_true, if_false]
          rw [List.getElem?_set_ne hij]; exact ha
  | wfResult j => simp only [step, DoneAt, wfResult_actions]; exact ⟨a, ha, hc⟩
  | dbComplete j r =>
    simp only [step, dbCompleteStep, DoneAt, List.getElem?_mapIdx, ha, Option.map_some]
    refine ⟨_, rfl, ?_⟩
    split
    · simp [resState_completed]
    · exact hc
  | taskJob t => exact ⟨a, ha, hc⟩
  | dropJob t => exact ⟨a, ha, hc⟩
  | integrity => simp only [step, DoneAt, integrity_actions]; exact ⟨a, ha, hc⟩

theorem run_done (cfg : Config) (evs : List Event) : ∀ (w : World) (i : Nat), DoneAt w i →
    DoneAt (run cfg w evs) i := by
  induction evs with
  | nil => intro w i h; exact h
  | cons e es ih =>
    intro w i h
    simp only [run, List.foldl_cons]
    exact ih _ i (step_done cfg w e i h)

/-- a result for a completed row is rejected and changes nothing -/
theorem result_done_inert (w : World) (i : Nat) (r : Res) (h : DoneAt w i) :
    resultStep w i r = w ∧ (resultReject w i).isSome = true := by
  obtain ⟨a, ha, hc⟩ := h
  have hr : (resultReject w i).isSome = true := by
    simp only [resultReject, ha]
    by_cases h1 : a.isWf = true
    · simp [h1]
    · by_cases h2 : a.defKnown = true
      · simp [h1, h2, hc]
      · simp [h1, h2]
  refine ⟨?_, hr⟩
  simp [resultStep, ha, hr]

/-! ### per-task invariant: the completion handling takes effect at most once -/

def TaskOk (tk : Task) : Prop := (isCompleted tk.state = false → tk.handled = 0) ∧ tk.handled ≤ 1

theorem withItemsFinal_completed (ch : List Action) (s : St) (h : withItemsFinal ch = some s) :
    isCompleted s = true := by
  unfold withItemsFinal at h
  split at h
  · cases h; decide
  · split at h
    · split at h <;> (cases h; decide)
    · cases h

theorem handleTask_ok (now : Int) (acts : List Action) (t : Nat) (tk : Task) (trigger : St)
    (htr : isCompleted trigger = true) (h : TaskOk tk) : TaskOk (handleTask now acts t tk trigger) := by
  unfold handleTask
  by_cases hc : isCompleted tk.state = true
  · simp only [hc, if_true]; exact h
  · simp only [hc]
    cases hf : finalState tk trigger (childrenOf acts t) with
    | none => exact h
    | some s =>
      have hs : isCompleted s = true := by
        unfold finalState at hf
        split at hf
        · exact withItemsFinal_completed _ _ hf
        · cases hf; exact htr
      have h0 : tk.handled = 0 := h.1 (by simpa using hc)
      refine ⟨?_, ?_⟩
      · intro hn; simp [hs] at hn
      · simp [h0]

theorem scheduleHandling_ok (now : Int) (acts : List Action) (t : Nat) (tk : Task) (trigger : St)
    (htr : isCompleted trigger = true) (h : TaskOk tk) : TaskOk (scheduleHandling now acts t tk trigger) := by
  unfold scheduleHandling
  split
  · exact h
  · exact handleTask_ok now acts t tk trigger htr h

theorem lastState_completed (ch : List Action) (hne : ch.isEmpty = false)
    (hall : ch.all (fun c => isCompleted c.state) = true) : isCompleted (lastState ch) = true := by
  unfold lastState
  cases hl : ch.getLast? with
  | none =>
    rw [List.getLast?_eq_none_iff] at hl
    subst hl; simp at hne
  | some c =>
    have hm : c ∈ ch := List.mem_of_getLast? hl
    rw [List.all_eq_true] at hall
    exact hall c hm

theorem stuck_trigger (cfg : Config) (w : World) (t : Nat) (tk : Task) (h : stuck cfg w t tk = true) :
    isCompleted (lastState (childrenOf w.actions t)) = true := by
  simp only [stuck, Bool.and_eq_true] at h
  apply lastState_completed
  · simpa using h.2.1.1
  · exact h.2.1.2

theorem step_tasks_ok (cfg : Config) (w : World) (ev : Event) (h : ∀ tk ∈ w.tasks, TaskOk tk) :
    ∀ tk ∈ (step cfg w ev).tasks, TaskOk tk := by
  have pass : ∀ tk ∈ (checkerPass cfg w).tasks, TaskOk tk := by
    unfold checkerPass
    split
    · exact h
    · apply mem_mapIdx_of TaskOk _ _ h
      intro t tk hok
      split
      · exact scheduleHandling_ok _ _ _ _ _ (by decide) hok
      · exact hok
  cases ev with
  | tick dt => exact h
  | heartbeat ids => exact h
  | checkerLoop =>
    simp only [step]
    split
    · exact pass
    · exact h
  | checkerPass => exact pass
  | result i r =>
    simp only [step, resultStep]
    cases hi : w.actions[i]? with
    | none => exact h
    | some a =>
      simp only
      split
      · exact h
      · cases ht : a.task with
        | none => exact h
        | some t =>
          simp only
          apply mem_mapIdx_of TaskOk _ _ h
          intro t' tk hok
          split
          · exact scheduleHandling_ok _ _ _ _ _ (by simp [accept, resState_completed]) hok
          · exact hok
  | wfResult i =>
    simp only [step, wfResultStep]
    cases hi : w.actions[i]? with
    | none => exact h
    | some a =>
      simp only
      by_cases hg : (!a.isWf || !isCompleted a.state) = true
      · simp only [hg, if_true]; exact h
      · simp only [hg]
        cases ht : a.task with
        | none => exact h
        | some t =>
          simp only
          apply mem_mapIdx_of TaskOk _ _ h
          intro t' tk hok
          split
          · refine scheduleHandling_ok _ _ _ _ _ ?_ hok
            simp at hg; exact hg.2
          · exact hok
  | dbComplete i r => exact h
  | taskJob t =>
    simp only [step, taskJobStep]
    apply mem_mapIdx_of TaskOk _ _ h
    intro t' tk hok
    split
    · exact handleTask_ok _ _ _ _ _ (by decide) hok
    · exact hok
  | dropJob t =>
    simp only [step, dropJobStep]
    apply mem_mapIdx_of TaskOk _ _ h
    intro t' tk hok
    split
    · exact hok
    · exact hok
  | integrity =>
    simp only [step, integrityStep]
    split
    · exact h
    · apply mem_mapIdx_of TaskOk _ _ h
      intro t tk hok
      by_cases hs : (examined cfg w t tk && stuck cfg w t tk) = true
      · simp only [hs, if_true]
        simp only [Bool.and_eq_true] at hs
        exact scheduleHandling_ok _ _ _ _ _ (stuck_trigger cfg w t tk hs.2) hok
      · simp only [hs]; exact hok

theorem run_tasks_ok (cfg : Config) (evs : List Event) : ∀ (w : World), (∀ tk ∈ w.tasks, TaskOk tk) →
    ∀ tk ∈ (run cfg w evs).tasks, TaskOk tk := by
  induction evs with
  | nil => intro w h; exact h
  | cons e es ih =>
    intro w h
    simp only [run, List.foldl_cons]
    exact ih (step cfg w e) (step_tasks_ok cfg w e h)

/-! ### what the integrity check does to the task at position `t` -/

theorem integrity_task (cfg : Config) (w : World) (t : Nat) (tk : Task) (ht : w.tasks[t]? = some tk) :
    (integrityStep cfg w).tasks[t]? =
      some (if integrityRuns cfg w = true ∧ examined cfg w t tk = true ∧ stuck cfg w t tk = true
            then scheduleHandling w.now w.actions t tk (lastState (childrenOf w.actions t)) else tk) := by
  unfold integrityStep
  by_cases hr : integrityRuns cfg w = true
  · simp only [hr, Bool.not_true, Bool.false_eq_true, if_false, List.getElem?_mapIdx, ht, Option.map_some]
    by_cases he : examined cfg w t tk = true <;> by_cases hs : stuck cfg w t tk = true <;> simp [he, hs]
  · simp [hr, ht]

end Mistral.Heartbeat
