/-
`stepX_eq_step`: on a definition WITHOUT engine commands the engine with engine commands, run with the
dispatcher's commands in clause order (`stepXg idSorter`), IS the task-only core `Mistral.Engine.step`, on
every world of the core (nothing in the backlog, every execution with its unique key) and every event; hence
`runXg idSorter sp evs = run sp evs` for every history.

The engine as the code runs it, `stepX = stepXg pySorter`, differs from `stepXg idSorter` in ONE place: the
order in which `_rearrange_commands` hands sibling task commands to the dispatcher (`pySort`, a rearrangement:
`pySort_perm`), i.e. the order in which sibling executions are created.
-/
import Mistral.Lemmas.EngineX
import Mistral.Lemmas.EngineJoin
import Mistral.Lemmas.EngineStart
namespace Mistral.Engine
open Mistral Mistral.Join

/-- no engine command: no reserved name among the targets that fire and among the task names -/
def CmdFree (sp : Spec) : Prop :=
  (∀ l ∈ sp.live, ∀ x ∈ l.onSuccess ++ l.onError ++ l.onComplete, cmdKind x = .task) ∧
  (∀ t ∈ sp.graph.tasks, cmdKind t.name = .task)

/-- the worlds of the task-only core -/
def Core (w : World) : Prop := w.backlog = [] ∧ ∀ r ∈ w.tasks, r.keyed = true

theorem core_init : Core init := ⟨rfl, by intro r hr; simp [init] at hr⟩

/-! ### targets are tasks -/

theorem nextOf_task (sp : Spec) (hcf : CmdFree sp) (n : String) (s : St) (x : String × String)
    (hx : x ∈ nextOf sp n s) : cmdKind x.1 = .task := by
  have key : ∀ y, y ∈ (liveOf sp n).onSuccess ++ (liveOf sp n).onError ++ (liveOf sp n).onComplete →
      cmdKind y = .task := by
    intro y hy
    unfold liveOf at hy
    cases hf : sp.live.find? (·.name == n) with
    | none => rw [hf] at hy; simp at hy
    | some l =>
      rw [hf] at hy
      simp only [Option.getD_some] at hy
      exact hcf.1 l (List.mem_of_find?_eq_some hf) y hy
  unfold nextOf at hx
  simp only [List.mem_append] at hx
  rcases hx with (hx | hx) | hx
  · split at hx
    · rcases List.mem_map.mp hx with ⟨y, hy, rfl⟩
      exact key y (by simp [hy])
    · cases hx
  · split at hx
    · rcases List.mem_map.mp hx with ⟨y, hy, rfl⟩
      exact key y (by simp [hy])
    · cases hx
  · split at hx
    · rcases List.mem_map.mp hx with ⟨y, hy, rfl⟩
      exact key y (by simp [hy])
    · cases hx

theorem isCmdName_of_task (n : String) (h : cmdKind n = .task) : isCmdName n = false := by
  unfold isCmdName; rw [h]; decide

/-! ### one command -/

theorem findKeyed_eq (w : World) (hk : ∀ r ∈ w.tasks, r.keyed = true) (n : String) :
    findKeyed w n = findByName w n := by
  unfold findKeyed findByName
  congr 1
  apply List.filter_congr
  intro r hr
  simp [hk r hr]

theorem dispatchTask_eq (sp : Spec) (w : World) (c : Cmd) (hk : ∀ r ∈ w.tasks, r.keyed = true)
    (h1 : isCompleted w.wf = false) (h2 : (w.wf == St.PAUSED) = false) :
    dispatchTask sp w c = dispatchOne sp w c := by
  unfold dispatchTask dispatchOne
  simp only [h1, h2, Bool.false_eq_true, if_false, findKeyed_eq w hk]
  cases hj : isJoin sp c.target with
  | none => rfl
  | some k =>
    cases hf : findByName w c.target with
    | none =>
      have : countName w c.target = 0 := by
        rw [countName_eq_countL]
        exact (findByName_none_iff w c.target).mp hf
      simp only [this]
    | some r => rfl

theorem dispatchOneX_eq (sp : Spec) (restored : Bool) (w : World) (c : Cmd) (hk : ∀ r ∈ w.tasks, r.keyed = true)
    (hc : cmdKind c.target = .task) (he : c.existing = none) :
    dispatchOneX sp restored w c = dispatchOne sp w c := by
  by_cases h1 : isCompleted w.wf = true
  · simp [dispatchOneX, dispatchOne, h1]
  · have h1' : isCompleted w.wf = false := by simpa using h1
    by_cases h2 : (w.wf == St.PAUSED) = true
    · simp [dispatchOneX, dispatchOne, h1', h2]
    · have h2' : (w.wf == St.PAUSED) = false := by simpa using h2
      rw [← dispatchTask_eq sp w c hk h1' h2']
      simp only [dispatchOneX, h1', h2', hc, he, Bool.false_eq_true, if_false]

/-- the dispatcher of the core keeps unique keys, keeps the backlog unless the workflow is PAUSED -/
theorem dispatchOne_core (sp : Spec) (w : World) (c : Cmd) (hk : ∀ r ∈ w.tasks, r.keyed = true) :
    (∀ r ∈ (dispatchOne sp w c).tasks, r.keyed = true) ∧
    (w.wf ≠ .PAUSED → (dispatchOne sp w c).backlog = w.backlog) := by
  unfold dispatchOne
  simp only
  split
  · exact ⟨hk, fun _ => rfl⟩
  · split
    · rename_i hp
      exact ⟨hk, fun h => absurd (by simpa using hp) h⟩
    · split
      · split
        · refine ⟨?_, fun _ => rfl⟩
          intro r hr
          rcases List.mem_append.mp hr with h | h
          · exact hk r h
          · have : r = newRow w c .WAITING := by simpa using h
            rw [this]; rfl
        · rename_i r0 hr0
          have hr0m : r0 ∈ w.tasks := by
            unfold findByName at hr0
            exact (List.mem_filter.mp (List.mem_of_getLast? hr0)).1
          refine ⟨?_, fun _ => ?_⟩
          · intro r hr
            simp only at hr
            split at hr
            · rcases mem_setTask _ _ _ hr with h | h
              · exact hk r h
              · rw [h]; exact hk r0 hr0m
            · exact hk r hr
          · simp only
            split <;> rfl
      · refine ⟨?_, fun _ => rfl⟩
        intro r hr
        rcases List.mem_append.mp hr with h | h
        · exact hk r h
        · have : r = newRow w c .IDLE := by simpa using h
          rw [this]; rfl

/-! ### command lists -/

theorem foldl_dispatchOneX_eq (sp : Spec) (restored : Bool) (cs : List Cmd) :
    ∀ (w : World), (∀ r ∈ w.tasks, r.keyed = true) → (∀ c ∈ cs, cmdKind c.target = .task ∧ c.existing = none) →
      cs.foldl (dispatchOneX sp restored) w = dispatch sp w cs := by
  unfold dispatch
  induction cs with
  | nil => intro w _ _; rfl
  | cons c cs ih =>
    intro w hk hc
    obtain ⟨h1, h2⟩ := hc c List.mem_cons_self
    simp only [List.foldl_cons, dispatchOneX_eq sp restored w c hk h1 h2]
    exact ih _ (dispatchOne_core sp w c hk).1 (fun c' hc' => hc c' (List.mem_cons_of_mem _ hc'))

theorem dispatch_core (sp : Spec) (cs : List Cmd) :
    ∀ (w : World), (∀ r ∈ w.tasks, r.keyed = true) →
      (∀ r ∈ (dispatch sp w cs).tasks, r.keyed = true) ∧ (w.wf ≠ .PAUSED → (dispatch sp w cs).backlog = w.backlog) := by
  unfold dispatch
  induction cs with
  | nil => intro w hk; exact ⟨hk, fun _ => rfl⟩
  | cons c cs ih =>
    intro w hk
    obtain ⟨h1, h2⟩ := dispatchOne_core sp w c hk
    obtain ⟨i1, i2⟩ := ih (dispatchOne sp w c) h1
    refine ⟨i1, fun hp => ?_⟩
    simp only [List.foldl_cons]
    rw [i2 (by rw [dispatchOne_wf]; exact hp), h2 hp]

theorem processX_id_eq (sp : Spec) (restored : Bool) (w : World) (cs : List Cmd)
    (hk : ∀ r ∈ w.tasks, r.keyed = true) (hc : ∀ c ∈ cs, cmdKind c.target = .task ∧ c.existing = none) :
    processX idSorter sp restored w cs = dispatch sp w cs := by
  unfold processX
  rw [rearrange_tasks _ cs (fun c h => (hc c h).1), idSorter_apply]
  exact foldl_dispatchOneX_eq sp restored cs w hk hc

theorem world_backlog_eta (w : World) (h : w.backlog = []) : { w with backlog := [] } = w := by
  cases w; simp_all

/-- `dispatch_workflow_commands` with an empty backlog and task commands = the dispatcher of the core -/
theorem dispatchX_id_eq (sp : Spec) (w : World) (cs : List Cmd) (hcore : Core w)
    (hc : ∀ c ∈ cs, cmdKind c.target = .task ∧ c.existing = none) :
    dispatchX idSorter sp w cs = dispatch sp w cs := by
  unfold dispatchX
  rw [hcore.1, world_backlog_eta w hcore.1]
  have : processX idSorter sp true w [] = w := by
    unfold processX rearrange
    simp [splitState, idSorter_apply]
  rw [this]
  exact processX_id_eq sp false w cs hcore.2 hc

/-! ### `Task.complete` -/

theorem core_setTask (w : World) (r1 : TaskRow) (hcore : Core w) (h1 : r1.keyed = true) :
    Core { w with tasks := setTask w.tasks r1 } := by
  refine ⟨hcore.1, ?_⟩
  intro x hx
  rcases mem_setTask _ _ _ hx with h | h
  · exact hcore.2 x h
  · rw [h]; exact h1

theorem core_pending (w : World) (p : List Item) (hcore : Core w) : Core { w with pending := p } := hcore

theorem completeTaskX_id_eq (sp : Spec) (hcf : CmdFree sp) (w : World) (r : TaskRow) (s : St) (hcore : Core w)
    (hr : r.keyed = true) : completeTaskX idSorter sp w r s = completeTask sp w r s := by
  unfold completeTaskX completeTask
  split
  · rfl
  · have hcm : ∀ x ∈ (if isCompleted w.wf = true then [] else nextOf sp r.name s), cmdKind x.1 = .task := by
      intro x hx
      split at hx
      · cases hx
      · exact nextOf_task sp hcf _ _ x hx
    generalize (if isCompleted w.wf = true then [] else nextOf sp r.name s) = cmds at hcm
    have hf : cmds.filter (fun x => !isCmdName x.1) = cmds :=
      List.filter_eq_self.mpr (fun x hx => by simp [isCmdName_of_task _ (hcm x hx)])
    simp only [hf]
    split
    · rfl
    · congr 1
      apply dispatchX_id_eq
      · have hc2 : ∀ (ts : List TaskRow) (p : List Item), (∀ x ∈ ts, x.keyed = true) →
            Core { w with tasks := ts, pending := p } := fun ts p h => ⟨hcore.1, h⟩
        have hk2 : ∀ (a b : TaskRow), a.keyed = true → b.keyed = true →
            ∀ x ∈ setTask (setTask w.tasks a) b, x.keyed = true := by
          intro a b ha hb x hx
          rcases mem_setTask _ _ _ hx with h | h
          · rcases mem_setTask _ _ _ h with h' | h'
            · exact hcore.2 x h'
            · rw [h']; exact ha
          · rw [h]; exact hb
        split
        · exact hc2 _ _ (hk2 _ _ hr hr)
        · exact hc2 _ _ (hk2 _ _ hr hr)
      · intro c hc
        obtain ⟨x, hx, rfl⟩ := List.mem_map.mp hc
        exact ⟨hcm x hx, rfl⟩

/-! ### one event -/

theorem resume_running' (s : St) (h : isPausedOrIdle s = true) : (Lifecycle.wfApply s .resume).1 = .RUNNING := by
  revert h; cases s <;> decide

/-- the RunExistingTask commands of the IDLE tasks in a RUNNING workflow: one start request each -/
theorem foldl_existing (sp : Spec) (ts : List Tid) :
    ∀ (w : World), w.wf = .RUNNING → (∀ t ∈ ts, cmdKind t.1 = .task) →
      (ts.map fun t => ({ target := t.1, src := none, existing := some t } : Cmd)).foldl (dispatchOneX sp false) w =
        { w with pending := w.pending ++ ts.map fun t => Item.postStartTask t false } := by
  induction ts with
  | nil => intro w _ _; simp
  | cons t ts ih =>
    intro w hw hk
    have h1 : isCompleted w.wf = false := by rw [hw]; decide
    have h2 : (w.wf == St.PAUSED) = false := by rw [hw]; decide
    have hs : dispatchOneX sp false w { target := t.1, src := none, existing := some t } =
        { w with pending := w.pending ++ [Item.postStartTask t false] } := by
      simp only [dispatchOneX, h1, h2, hk t List.mem_cons_self, Bool.false_eq_true, if_false]
    simp only [List.map_cons, List.foldl_cons, hs]
    rw [ih { w with pending := w.pending ++ [Item.postStartTask t false] } hw
      (fun t' ht' => hk t' (List.mem_cons_of_mem _ ht'))]
    simp [List.append_assoc]

/-- the tail of `resume`: one command list `RunExistingTask… ++ next commands` through
    `dispatch_workflow_commands` = start requests for the IDLE tasks, then the dispatcher of the core -/
theorem resume_tail (sp : Spec) (W : World) (I : List Tid) (C : List Cmd) (hb : W.backlog = [])
    (hw : W.wf = .RUNNING) (hk : ∀ r ∈ W.tasks, r.keyed = true) (hI : ∀ t ∈ I, cmdKind t.1 = .task)
    (hC : ∀ c ∈ C, cmdKind c.target = .task ∧ c.existing = none) :
    dispatchX idSorter sp W ((I.map fun t => ({ target := t.1, src := none, existing := some t } : Cmd)) ++ C) =
      dispatch sp { W with pending := W.pending ++ I.map fun t => Item.postStartTask t false } C := by
  unfold dispatchX
  have h0 : processX idSorter sp true W [] = W := by
    unfold processX rearrange
    simp [splitState, idSorter_apply]
  have e1 : processX idSorter sp true { W with backlog := [] } W.backlog = W := by
    rw [hb, world_backlog_eta W hb]; exact h0
  rw [e1]
  unfold processX
  have hall : ∀ c ∈ (I.map fun t => ({ target := t.1, src := none, existing := some t } : Cmd)) ++ C,
      cmdKind c.target = .task := by
    intro c hc
    rcases List.mem_append.mp hc with h | h
    · obtain ⟨t, ht, rfl⟩ := List.mem_map.mp h
      exact hI t ht
    · exact (hC c h).1
  rw [rearrange_tasks _ _ hall, idSorter_apply, List.foldl_append, foldl_existing sp I W hw hI]
  exact foldl_dispatchOneX_eq sp false C _ hk hC

theorem stepX_eq_step (sp : Spec) (hcf : CmdFree sp) (w : World) (hcore : Core w) (e : Event)
    (hnames : ∀ r ∈ w.tasks, cmdKind r.name = .task) :
    stepXg idSorter sp w e = step sp w e := by
  cases e with
  | start =>
    simp only [stepXg, step]
    split
    · rfl
    · apply dispatchX_id_eq
      · exact ⟨hcore.1, hcore.2⟩
      · intro c hc
        obtain ⟨n, hn, rfl⟩ := List.mem_map.mp hc
        obtain ⟨t, ht, rfl⟩ := List.mem_map.mp hn
        exact ⟨hcf.2 t (List.mem_filter.mp ht).1, rfl⟩
  | pause => rfl
  | stop t => rfl
  | execute t ok => rfl
  | resume =>
    simp only [stepXg, step]
    split
    · rfl
    · rename_i hpi
      have hpi' : isPausedOrIdle w.wf = true := by simpa using hpi
      have hrun := resume_running' w.wf hpi'
      simp only [hrun]
      have hnc : isCompleted St.RUNNING = false := by decide
      simp only [hnc, Bool.false_eq_true, if_false]
      -- the commands of the tasks completed while PAUSED: no engine command among them
      have hk1 : ∀ r ∈ ({ w with wf := St.RUNNING } : World).tasks, r.keyed = true := hcore.2
      simp only [findKeyed_eq { w with wf := St.RUNNING } hk1]
      have hcm : ∀ c ∈ (List.filter (fun t => isCompleted t.state && !t.processed) w.tasks).flatMap (fun t =>
          (nextOf sp t.name t.state).map fun (x : String × String) =>
            ({ target := x.1, src := some ((t.name, t.occ), x.2) } : Cmd)),
          cmdKind c.target = .task ∧ c.existing = none := by
        intro c hc
        obtain ⟨t, _, hct⟩ := List.mem_flatMap.mp hc
        obtain ⟨x, hx, rfl⟩ := List.mem_map.mp hct
        exact ⟨nextOf_task sp hcf _ _ x hx, rfl⟩
      have hfil : ((List.filter (fun t => isCompleted t.state && !t.processed) w.tasks).flatMap (fun t =>
          (nextOf sp t.name t.state).map fun (x : String × String) =>
            ({ target := x.1, src := some ((t.name, t.occ), x.2) } : Cmd))).filter
          (fun c => cmdKind c.target != .pause && cmdKind c.target != .noop) =
          (List.filter (fun t => isCompleted t.state && !t.processed) w.tasks).flatMap (fun t =>
          (nextOf sp t.name t.state).map fun (x : String × String) =>
            ({ target := x.1, src := some ((t.name, t.occ), x.2) } : Cmd)) := by
        apply List.filter_eq_self.mpr
        intro c hc
        rw [(hcm c hc).1]; decide
      simp only [hfil]
      split
      · rename_i hcond
        split
        · rfl
        · rename_i hcond'
          exact absurd hcond hcond'
      · rename_i hcond
        split
        · rename_i hcond'
          exact absurd hcond' hcond
        · rw [hcore.1]
          refine (resume_tail sp _ _ _ rfl rfl ?_ ?_ ?_).trans rfl
          · intro r hr
            obtain ⟨y, hy, rfl⟩ := List.mem_map.mp hr
            split
            · exact hcore.2 y hy
            · exact hcore.2 y hy
          · intro t ht
            obtain ⟨y, hy, rfl⟩ := List.mem_map.mp ht
            exact hnames y (List.mem_filter.mp hy).1
          · intro c hc
            exact hcm c (List.mem_filter.mp hc).1
  | deliver it =>
    simp only [stepXg, step]
    split
    · rfl
    · rename_i hc
      cases it with
      | postStartTask t f => rfl
      | postRunAction t => rfl
      | runAction t => rfl
      | postCheck => rfl
      | postSchedRefresh t => rfl
      | rpcStartTask t firstRun => rfl
      | rpcResult t ok =>
        simp only
        cases hf : findTask { w with pending := removeFirst w.pending (.rpcResult t ok) } t with
        | none => rfl
        | some r =>
          simp only
          have hrm : r ∈ w.tasks := findTask_mem _ t r hf
          exact completeTaskX_id_eq sp hcf _ r _ ⟨hcore.1, hcore.2⟩ (hcore.2 r hrm)
      | jobRefresh t =>
        simp only
        cases hf : findTask { w with pending := removeFirst w.pending (.jobRefresh t) } t with
        | none => rfl
        | some r =>
          have hrm : r ∈ w.tasks := findTask_mem _ t r hf
          simp only
          by_cases h1 : (isCompleted r.state || r.state == St.RUNNING) = true
          · simp only [h1, Bool.false_eq_true, if_true, if_false]
          · simp only [h1, Bool.false_eq_true, if_true, if_false]
            by_cases h2 : isCompleted w.wf = true
            · simp only [h2, Bool.false_eq_true, if_true, if_false]
            · simp only [h2, Bool.false_eq_true, if_true, if_false]
              cases hj : isJoin sp t.1 with
              | none => rfl
              | some k =>
                simp only
                cases hL : joinLogicalState sp.graph
                    (rowsOf { w with pending := removeFirst w.pending (Item.jobRefresh t) }) (fuelFor sp) t.1 k with
                | none => rfl
                | some L =>
                  simp only
                  by_cases h3 : (L.state == St.RUNNING) = true
                  · simp only [h3, Bool.false_eq_true, if_true, if_false]
                  · simp only [h3, Bool.false_eq_true, if_true, if_false]
                    by_cases h4 : (L.state == St.ERROR) = true
                    · simp only [h4, Bool.false_eq_true, if_true, if_false]
                      apply completeTaskX_id_eq sp hcf
                      · exact core_setTask _ _ ⟨hcore.1, hcore.2⟩ (hcore.2 r hrm)
                      · exact hcore.2 r hrm
                    · simp only [h4, Bool.false_eq_true, if_true, if_false]

/-! ### the worlds of the core are closed under `step` -/

/-- rows: unique key and a task name that is not reserved; empty backlog -/
def CoreN (w : World) : Prop := Core w ∧ ∀ r ∈ w.tasks, cmdKind r.name = .task

theorem coreN_init : CoreN init := ⟨core_init, by intro r hr; simp [init] at hr⟩

theorem dispatchOne_names (sp : Spec) (w : World) (c : Cmd) (hn : ∀ r ∈ w.tasks, cmdKind r.name = .task)
    (hc : cmdKind c.target = .task) : ∀ r ∈ (dispatchOne sp w c).tasks, cmdKind r.name = .task := by
  unfold dispatchOne
  simp only
  split
  · exact hn
  · split
    · exact hn
    · split
      · split
        · intro r hr
          rcases List.mem_append.mp hr with h | h
          · exact hn r h
          · have : r = newRow w c .WAITING := by simpa using h
            rw [this]; exact hc
        · rename_i r0 hr0
          have hr0m : r0 ∈ w.tasks := by
            unfold findByName at hr0
            exact (List.mem_filter.mp (List.mem_of_getLast? hr0)).1
          intro r hr
          simp only at hr
          split at hr
          · rcases mem_setTask _ _ _ hr with h | h
            · exact hn r h
            · rw [h]; exact hn r0 hr0m
          · exact hn r hr
      · intro r hr
        rcases List.mem_append.mp hr with h | h
        · exact hn r h
        · have : r = newRow w c .IDLE := by simpa using h
          rw [this]; exact hc

theorem dispatch_coreN (sp : Spec) (cs : List Cmd) :
    ∀ (w : World), CoreN w → w.wf ≠ .PAUSED → (∀ c ∈ cs, cmdKind c.target = .task) → CoreN (dispatch sp w cs) := by
  unfold dispatch
  induction cs with
  | nil => intro w h _ _; exact h
  | cons c cs ih =>
    intro w h hp hc
    obtain ⟨h1, h2⟩ := dispatchOne_core sp w c h.1.2
    simp only [List.foldl_cons]
    refine ih _ ⟨⟨(h2 hp).trans h.1.1, h1⟩, dispatchOne_names sp w c h.2 (hc c List.mem_cons_self)⟩ ?_
      (fun c' hc' => hc c' (List.mem_cons_of_mem _ hc'))
    rw [dispatchOne_wf]; exact hp

theorem coreN_rows (w : World) (ts : List TaskRow) (p : List Item) (wf : St) (b : Bool) (h : CoreN w)
    (hts : ∀ x ∈ ts, x.keyed = true ∧ cmdKind x.name = .task) :
    CoreN { w with wf := wf, tasks := ts, pending := p, crashed := b } :=
  ⟨⟨h.1.1, fun x hx => (hts x hx).1⟩, fun x hx => (hts x hx).2⟩

theorem coreN_setTask (w : World) (r r' : TaskRow) (h : CoreN w) (hr : r ∈ w.tasks) (hk : r'.keyed = r.keyed)
    (hn : r'.name = r.name) : ∀ x ∈ setTask w.tasks r', x.keyed = true ∧ cmdKind x.name = .task := by
  intro x hx
  rcases mem_setTask _ _ _ hx with h1 | h1
  · exact ⟨h.1.2 x h1, h.2 x h1⟩
  · rw [h1, hk, hn]; exact ⟨h.1.2 r hr, h.2 r hr⟩

theorem checkAffected_coreN (sp : Spec) (w : World) (t : Tid) (h : CoreN w) : CoreN (checkAffected sp w t) := by
  have ht := checkAffected_tasks sp w t
  refine ⟨⟨?_, by rw [ht.1]; exact h.1.2⟩, by rw [ht.1]; exact h.2⟩
  unfold checkAffected
  split
  · exact h.1.1
  · split
    · exact h.1.1
    · split <;> exact h.1.1

theorem checkAndComplete_coreN (w : World) (h : CoreN w) : CoreN (checkAndComplete w) := by
  unfold checkAndComplete
  split
  · exact h
  · split
    · exact h
    · split
      · exact h
      · split <;> exact h

theorem ite_coreN (c : Prop) [Decidable c] (a b : World) (ha : CoreN a) (hb : CoreN b) : CoreN (if c then a else b) := by
  split <;> assumption

theorem ite_wf_ne (c : Prop) [Decidable c] (a b : World) (s : St) (ha : a.wf ≠ s) (hb : b.wf ≠ s) :
    (if c then a else b).wf ≠ s := by
  split <;> assumption

theorem completeTask_coreN (sp : Spec) (hcf : CmdFree sp) (w : World) (r : TaskRow) (s : St) (h : CoreN w)
    (hr : r ∈ w.tasks) : CoreN (completeTask sp w r s) := by
  unfold completeTask
  split
  · exact checkAffected_coreN sp w _ h
  · apply checkAffected_coreN
    simp only
    have hrows : ∀ (a b : TaskRow), a.keyed = r.keyed → a.name = r.name → b.keyed = r.keyed → b.name = r.name →
        ∀ x ∈ setTask (setTask w.tasks a) b, x.keyed = true ∧ cmdKind x.name = .task := by
      intro a b ha1 ha2 hb1 hb2 x hx
      rcases mem_setTask _ _ _ hx with h1 | h1
      · exact coreN_setTask w r a h hr ha1 ha2 x h1
      · rw [h1, hb1, hb2]; exact ⟨h.1.2 r hr, h.2 r hr⟩
    split
    · rename_i hp
      exact coreN_rows w _ _ w.wf w.crashed h (coreN_setTask w r _ h hr rfl rfl)
    · rename_i hp
      have hnp : w.wf ≠ .PAUSED := by
        intro e; apply hp; rw [e]; decide
      apply dispatch_coreN
      · apply ite_coreN
        · exact coreN_rows w _ _ w.wf w.crashed h (hrows _ _ rfl rfl rfl rfl)
        · exact coreN_rows w _ _ w.wf w.crashed h (hrows _ _ rfl rfl rfl rfl)
      · apply ite_wf_ne <;> exact hnp
      · intro c hc
        obtain ⟨x, hx, rfl⟩ := List.mem_map.mp hc
        split at hx
        · cases hx
        · exact nextOf_task sp hcf _ _ x hx

theorem coreN_mapRows (w : World) (f : TaskRow → TaskRow) (wf : St) (h : CoreN w)
    (hf : ∀ t, (f t).keyed = t.keyed ∧ (f t).name = t.name) : CoreN { w with wf := wf, tasks := w.tasks.map f } := by
  refine ⟨⟨h.1.1, ?_⟩, ?_⟩
  · intro x hx
    obtain ⟨y, hy, rfl⟩ := List.mem_map.mp hx
    rw [(hf y).1]; exact h.1.2 y hy
  · intro x hx
    obtain ⟨y, hy, rfl⟩ := List.mem_map.mp hx
    rw [(hf y).2]; exact h.2 y hy

theorem coreN_setTask2 (w : World) (r a b : TaskRow) (h : CoreN w) (hr : r ∈ w.tasks)
    (ha1 : a.keyed = r.keyed) (ha2 : a.name = r.name) (hb1 : b.keyed = r.keyed) (hb2 : b.name = r.name) :
    ∀ x ∈ setTask (setTask w.tasks a) b, x.keyed = true ∧ cmdKind x.name = .task := by
  intro x hx
  rcases mem_setTask _ _ _ hx with h1 | h1
  · exact coreN_setTask w r a h hr ha1 ha2 x h1
  · rw [h1, hb1, hb2]; exact ⟨h.1.2 r hr, h.2 r hr⟩

theorem self_mem_setTask'' (ts : List TaskRow) (r r' : TaskRow) (hr : r ∈ ts) (hn : r'.name = r.name)
    (ho : r'.occ = r.occ) : r' ∈ setTask ts r' := by
  unfold setTask
  apply List.mem_map.mpr
  refine ⟨r, hr, ?_⟩
  simp [hn, ho]

theorem step_coreN (sp : Spec) (hcf : CmdFree sp) (w : World) (e : Event) (h : CoreN w) : CoreN (step sp w e) := by
  have same : ∀ (wf : St) (p : List Item), CoreN { w with wf := wf, pending := p } :=
    fun wf p => ⟨⟨h.1.1, h.1.2⟩, h.2⟩
  cases e with
  | start =>
    simp only [step]
    split
    · exact h
    · apply dispatch_coreN sp _ _ (same _ _) (by show St.RUNNING ≠ St.PAUSED; decide)
      intro c hc
      obtain ⟨n, hn, rfl⟩ := List.mem_map.mp hc
      obtain ⟨t, ht, rfl⟩ := List.mem_map.mp hn
      exact hcf.2 t (List.mem_filter.mp ht).1
  | pause => exact same _ _
  | stop t => exact same _ _
  | execute t ok => simp only [step]; split <;> first | exact h | exact same _ _
  | resume =>
    simp only [step]
    split
    · exact h
    · rename_i hpi
      have hpi' : isPausedOrIdle w.wf = true := by simpa using hpi
      have hrun := resume_running' w.wf hpi'
      simp only [hrun]
      have hnc : isCompleted St.RUNNING = false := by decide
      simp only [hnc, Bool.false_eq_true, if_false]
      have hw2 := coreN_mapRows w
        (fun t => if isCompleted t.state && !t.processed then { t with processed := true } else t) St.RUNNING h
        (by intro t
            show (if (isCompleted t.state && !t.processed) = true then { t with processed := true } else t).keyed = _ ∧
              (if (isCompleted t.state && !t.processed) = true then { t with processed := true } else t).name = _
            split <;> exact ⟨rfl, rfl⟩)
      split
      · exact checkAndComplete_coreN _ hw2
      · apply dispatch_coreN
        · have hb : w.backlog = [] := h.1.1
          have h3 := dispatch_coreN sp w.backlog
            { wf := St.RUNNING, tasks := w.tasks.map (fun t => if isCompleted t.state && !t.processed then
                { t with processed := true } else t), pending := w.pending, backlog := [], crashed := w.crashed }
            ⟨⟨rfl, hw2.1.2⟩, hw2.2⟩ (by show St.RUNNING ≠ St.PAUSED; decide)
            (by rw [hb]; intro c hc; cases hc)
          exact ⟨⟨h3.1.1, h3.1.2⟩, h3.2⟩
        · show (dispatch sp _ _).wf ≠ _
          rw [dispatch_wf]
          show St.RUNNING ≠ St.PAUSED
          decide
        · intro c hc
          have hc' := (List.mem_filter.mp hc).1
          obtain ⟨t, _, hct⟩ := List.mem_flatMap.mp hc'
          obtain ⟨x, hx, rfl⟩ := List.mem_map.mp hct
          exact nextOf_task sp hcf _ _ x hx
  | deliver it =>
    simp only [step]
    split
    · exact h
    · cases it with
      | postStartTask t f => exact same _ _
      | postRunAction t => exact same _ _
      | runAction t => exact same _ _
      | postCheck => exact checkAndComplete_coreN _ (same _ _)
      | postSchedRefresh t => simp only; split <;> exact same _ _
      | rpcStartTask t firstRun =>
        simp only
        split
        · exact same _ _
        · rename_i r hfr
          have hrm : r ∈ w.tasks := findTask_mem _ t r hfr
          split
          · split
            · exact coreN_rows w _ _ w.wf w.crashed h (coreN_setTask w r _ h hrm rfl rfl)
            · split
              · split <;> exact same _ _
              · exact checkAffected_coreN sp _ t (same _ _)
          · split
            · exact same _ _
            · split
              · exact checkAffected_coreN sp _ t (same _ _)
              · split
                · exact same _ _
                · exact coreN_rows w _ _ w.wf w.crashed h (coreN_setTask w r _ h hrm rfl rfl)
      | rpcResult t ok =>
        simp only
        split
        · exact same _ _
        · rename_i r hfr
          exact completeTask_coreN sp hcf _ r _ (same _ _) (findTask_mem _ t r hfr)
      | jobRefresh t =>
        simp only
        split
        · exact same _ _
        · rename_i r hfr
          have hrm : r ∈ w.tasks := findTask_mem _ t r hfr
          split
          · exact same _ _
          · split
            · exact same _ _
            · split
              · exact same _ _
              · split
                · exact ⟨⟨h.1.1, h.1.2⟩, h.2⟩
                · have hw' : ∀ (trig : List (Tid × String)),
                      CoreN { w with tasks := setTask w.tasks { r with trig := trig },
                                     pending := removeFirst w.pending (Item.jobRefresh t) } :=
                    fun trig => coreN_rows w _ _ w.wf w.crashed h (coreN_setTask w r { r with trig := trig } h hrm rfl rfl)
                  have hw2 : ∀ (trig : List (Tid × String)) (p : List Item),
                      CoreN { w with tasks := setTask (setTask w.tasks { r with trig := trig })
                                        { r with trig := trig, state := St.RUNNING },
                                     pending := p } :=
                    fun trig p => coreN_rows w _ _ w.wf w.crashed h (coreN_setTask2 w r _ _ h hrm rfl rfl rfl rfl)
                  split
                  · split
                    · exact hw2 _ _
                    · exact hw2 _ _
                  · split
                    · exact completeTask_coreN sp hcf _ _ _ (hw' _) (self_mem_setTask'' w.tasks r _ hrm rfl rfl)
                    · exact hw' _

/-- `stepX_eq_step` along histories: on a definition without engine commands the engine with commands
    (dispatcher in clause order) runs exactly as the task-only core -/
theorem runX_eq_run (sp : Spec) (hcf : CmdFree sp) (evs : List Event) :
    runXg idSorter sp evs = run sp evs := by
  unfold runXg run
  have hall : ∀ (evs : List Event) (w : World), CoreN w →
      evs.foldl (stepXg idSorter sp) w = evs.foldl (step sp) w := by
    intro evs
    induction evs with
    | nil => intro w _; rfl
    | cons e es ih =>
      intro w hw
      simp only [List.foldl_cons]
      rw [stepX_eq_step sp hcf w hw.1 e hw.2]
      exact ih _ (step_coreN sp hcf w e hw)
  exact hall evs init coreN_init

end Mistral.Engine
