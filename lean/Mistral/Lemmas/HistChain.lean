/-
`DropsLow` (Lemmas/HistDel.lean) from a condition on the DAG alone: the version of a leaf path that a task
sees counts GENERATIONS of publishers among its causal ancestors - version >= 1 needs a publisher, version
>= 2 needs two publishers one of which follows the other.  No shape hypothesis is needed for this, only
that a publication bumps the version key of the path exactly when it publishes the leaf (`StablePub2`).
-/
import Mistral.Lemmas.HistDel
namespace Mistral.Hist
open Mistral Mistral.Dict Mistral.Ctx

theorem ver_upstream_attained (k : String) (outs : List Ctx) (hu : ∀ c ∈ outs, UniqueKeys c.vers) :
    ver (upstream outs).vers k = 0 ∨ ∃ c ∈ outs, ver c.vers k = ver (upstream outs).vers k := by
  cases hl : outs.getLast? with
  | none =>
    have : outs = [] := by simpa using hl
    subst this; left; simp [upstream_nil, ver]
  | some last =>
    obtain ⟨ys, hys⟩ := List.getLast?_eq_some_iff.mp hl
    subst hys
    rw [upstream_snoc]
    right
    have key : ∀ (ys : List Ctx) (a : Ctx), (∀ c ∈ ys, UniqueKeys c.vers) →
        ver a.vers k = ver (ys.foldl mergeByVersion a).vers k ∨
        ∃ c ∈ ys, ver c.vers k = ver (ys.foldl mergeByVersion a).vers k := by
      intro ys
      induction ys with
      | nil => intro a _; left; rfl
      | cons y ys ih =>
        intro a hu
        simp only [List.foldl_cons]
        have hm : ver (mergeByVersion a y).vers k = max (ver a.vers k) (ver y.vers k) := by
          unfold mergeByVersion; exact ver_mergeVers _ _ (hu y (by simp)) k
        rcases ih (mergeByVersion a y) (fun c hc => hu c (by simp [hc])) with h | ⟨c, hc, h⟩
        · rw [hm] at h
          by_cases hc : ver a.vers k ≥ ver y.vers k
          · left; rw [← h]; omega
          · right; exact ⟨y, by simp, by rw [← h]; omega⟩
        · right; exact ⟨c, by simp [hc], h⟩
    rcases key ys last (fun c hc => hu c (by simp [hc])) with h | ⟨c, hc, h⟩
    · exact ⟨last, by simp, h⟩
    · exact ⟨c, by simp [hc], h⟩

/-- generations: what the version a task sees says about the publishers among its ancestors -/
structure Gen (k0 : String) (rest : List String) (rows : List Row) : Prop where
  ukIn : ∀ (i : Nat) (r : Row), rows[i]? = some r → UniqueKeys r.inb.vers
  outOfIn : ∀ (i : Nat) (r : Row), rows[i]? = some r → r.out = outbound r.inb r.task.pub
  stable : ∀ (i : Nat) (r : Row), rows[i]? = some r → StablePub2 k0 rest r.task.pub
  ancLt : ∀ (i : Nat) (r : Row), rows[i]? = some r → ∀ q ∈ r.anc, q < i
  one : ∀ (i : Nat) (r : Row), rows[i]? = some r → 1 ≤ ver r.inb.vers (keyOf (esc k0) rest) →
    ∃ q ∈ r.anc, ∃ rq : Row, rows[q]? = some rq ∧ PublishesLeaf k0 rest rq.task
  two : ∀ (i : Nat) (r : Row), rows[i]? = some r → 2 ≤ ver r.inb.vers (keyOf (esc k0) rest) →
    ∃ q1 ∈ r.anc, ∃ q2 ∈ r.anc, ∃ r1 r2 : Row, rows[q1]? = some r1 ∧ rows[q2]? = some r2 ∧
      PublishesLeaf k0 rest r1.task ∧ PublishesLeaf k0 rest r2.task ∧ q1 ∈ r2.anc

/-- a publication bumps the version of the path by one exactly when it publishes the leaf -/
theorem ver_outbound_gen (k0 : String) (rest : List String) (c : Ctx) (pub : Dict) (hp : StablePub2 k0 rest pub) :
    (getPath pub k0 rest = none → ver (outbound c pub).vers (keyOf (esc k0) rest) = ver c.vers (keyOf (esc k0) rest)) ∧
    (getPath pub k0 rest ≠ none → ver (outbound c pub).vers (keyOf (esc k0) rest) = ver c.vers (keyOf (esc k0) rest) + 1) := by
  obtain ⟨hp1, hp2, hp3, hp4⟩ := hp
  have hver : ver (outbound c pub).vers (keyOf (esc k0) rest) =
      ver c.vers (keyOf (esc k0) rest) + (leafKeysKv none pub).count (keyOf (esc k0) rest) := by
    unfold outbound; exact ver_bump _ _ _
  constructor
  · intro hg
    rw [hver, List.count_eq_zero_of_not_mem (hp3 hg)]; rfl
  · intro hg
    cases hgp : get? pub k0 with
    | none => rw [getPath_of_get?, hgp] at hg; exact absurd rfl hg
    | some v =>
      simp only [hgp] at hp2
      cases hx : getPath pub k0 rest with
      | none => exact absurd hx hg
      | some x =>
        rw [getPath_of_get?, hgp] at hx
        have hlp := (SpinePath.leafPath rest v x hp2 hx).1
        have hm : keyOf (esc k0) rest ∈ leafKeysKv none pub :=
          leafKeysKv_mem_of_get? none _ pub k0 v hgp (by rw [path_none]; exact leafKey_mem rest (esc k0) v hlp)
        have : 0 < (leafKeysKv none pub).count (keyOf (esc k0) rest) := List.count_pos_iff.mpr hm
        rw [hver]; omega

theorem gen_nil (k0 : String) (rest : List String) : Gen k0 rest [] := by
  constructor <;> intro i r h <;> simp at h

theorem uniqueKeys_outbound_vers (c : Ctx) (pub : Dict) (h : UniqueKeys c.vers) : UniqueKeys (outbound c pub).vers := by
  unfold outbound; exact uniqueKeys_bump _ _ h

theorem gen_step (k0 : String) (rest : List String) (rows : List Row) (t : Task) (g : Gen k0 rest rows)
    (ht : StablePub2 k0 rest t.pub) : Gen k0 rest (stepRow rows t) := by
  have hstep : stepRow rows t = rows ++ [newRow rows t] := rfl
  rw [hstep]
  generalize hnr : newRow rows t = nr
  have hnt : nr.task = t := by rw [← hnr]; rfl
  have hni : nr.inb = upstream ((parentRows rows t).map (·.out)) := by rw [← hnr]; rfl
  have hno : nr.out = outbound nr.inb nr.task.pub := by rw [← hnr]; rfl
  have hna : ∀ q, q ∈ nr.anc ↔ (q ∈ t.parents ∧ q < rows.length) ∨ ∃ pr ∈ parentRows rows t, q ∈ pr.anc := by
    intro q; rw [← hnr]; simp [newRow, List.mem_append, List.mem_filter, List.mem_flatMap]
  have hukOut : ∀ c ∈ (parentRows rows t).map (·.out), UniqueKeys c.vers := by
    intro c hc
    obtain ⟨pr, hpr, rfl⟩ := List.mem_map.mp hc
    obtain ⟨p, _, hp⟩ := (mem_parentRows rows t pr).mp hpr
    rw [g.outOfIn p pr hp]
    exact uniqueKeys_outbound_vers _ _ (g.ukIn p pr hp)
  have hukIn : UniqueKeys nr.inb.vers := by
    rw [hni]
    exact upstream_ind (fun c => UniqueKeys c.vers) (by simp [UniqueKeys])
      (fun l r hl _ => by unfold mergeByVersion; exact uniqueKeys_mergeVers _ _ hl) _ hukOut
  have hAncLt : ∀ q ∈ nr.anc, q < rows.length := by
    intro q hq
    rcases (hna q).mp hq with ⟨_, h⟩ | ⟨pr, hpr, hq⟩
    · exact h
    · obtain ⟨p, _, hp⟩ := (mem_parentRows rows t pr).mp hpr
      have := g.ancLt p pr hp q hq
      have := lookup_lt hp
      omega
  have hold : ∀ q, q < rows.length → (rows ++ [nr])[q]? = rows[q]? := fun q hq => List.getElem?_append_left hq
  -- the version seen is 0 or the outbound version of a parent
  have hatt := ver_upstream_attained (keyOf (esc k0) rest) _ hukOut
  rw [← hni] at hatt
  -- what a parent's outbound version says
  have hparent : ∀ pr ∈ parentRows rows t, ∀ p, p ∈ t.parents → rows[p]? = some pr →
      (1 ≤ ver pr.out.vers (keyOf (esc k0) rest) →
        ∃ q ∈ nr.anc, ∃ rq : Row, rows[q]? = some rq ∧ PublishesLeaf k0 rest rq.task) ∧
      (2 ≤ ver pr.out.vers (keyOf (esc k0) rest) →
        ∃ q1 ∈ nr.anc, ∃ q2 ∈ nr.anc, ∃ r1 r2 : Row, rows[q1]? = some r1 ∧ rows[q2]? = some r2 ∧
          PublishesLeaf k0 rest r1.task ∧ PublishesLeaf k0 rest r2.task ∧ q1 ∈ r2.anc) := by
    intro pr hpr p hpp hp
    have hpin : p ∈ nr.anc := (hna p).mpr (Or.inl ⟨hpp, lookup_lt hp⟩)
    have hup : ∀ q ∈ pr.anc, q ∈ nr.anc := fun q hq => (hna q).mpr (Or.inr ⟨pr, hpr, hq⟩)
    obtain ⟨v0, v1⟩ := ver_outbound_gen k0 rest pr.inb pr.task.pub (g.stable p pr hp)
    rw [← g.outOfIn p pr hp] at v0 v1
    by_cases hpl : getPath pr.task.pub k0 rest = none
    · rw [v0 hpl]
      constructor
      · intro h1
        obtain ⟨q, hq, rq, e1, e2⟩ := g.one p pr hp h1
        exact ⟨q, hup q hq, rq, e1, e2⟩
      · intro h2
        obtain ⟨q1, hq1, q2, hq2, r1, r2, e1, e2, e3, e4, e5⟩ := g.two p pr hp h2
        exact ⟨q1, hup q1 hq1, q2, hup q2 hq2, r1, r2, e1, e2, e3, e4, e5⟩
    · rw [v1 hpl]
      constructor
      · intro _
        exact ⟨p, hpin, pr, hp, hpl⟩
      · intro h2
        obtain ⟨q, hq, rq, e1, e2⟩ := g.one p pr hp (by omega)
        exact ⟨q, hup q hq, p, hpin, rq, pr, e1, hp, e2, hpl, hq⟩
  have hOne : 1 ≤ ver nr.inb.vers (keyOf (esc k0) rest) →
      ∃ q ∈ nr.anc, ∃ rq : Row, rows[q]? = some rq ∧ PublishesLeaf k0 rest rq.task := by
    intro h1
    rcases hatt with z | ⟨c, hc, hcv⟩
    · omega
    · obtain ⟨pr, hpr, rfl⟩ := List.mem_map.mp hc
      obtain ⟨p, hpp, hp⟩ := (mem_parentRows rows t pr).mp hpr
      exact (hparent pr hpr p hpp hp).1 (by rw [hcv]; exact h1)
  have hTwo : 2 ≤ ver nr.inb.vers (keyOf (esc k0) rest) →
      ∃ q1 ∈ nr.anc, ∃ q2 ∈ nr.anc, ∃ r1 r2 : Row, rows[q1]? = some r1 ∧ rows[q2]? = some r2 ∧
        PublishesLeaf k0 rest r1.task ∧ PublishesLeaf k0 rest r2.task ∧ q1 ∈ r2.anc := by
    intro h2
    rcases hatt with z | ⟨c, hc, hcv⟩
    · omega
    · obtain ⟨pr, hpr, rfl⟩ := List.mem_map.mp hc
      obtain ⟨p, hpp, hp⟩ := (mem_parentRows rows t pr).mp hpr
      exact (hparent pr hpr p hpp hp).2 (by rw [hcv]; exact h2)
  constructor
  · intro i r h
    rcases snoc_lookup rows nr i r h with ⟨_, h⟩ | ⟨_, rfl⟩
    · exact g.ukIn i r h
    · exact hukIn
  · intro i r h
    rcases snoc_lookup rows nr i r h with ⟨_, h⟩ | ⟨_, rfl⟩
    · exact g.outOfIn i r h
    · exact hno
  · intro i r h
    rcases snoc_lookup rows nr i r h with ⟨_, h⟩ | ⟨_, rfl⟩
    · exact g.stable i r h
    · rw [hnt]; exact ht
  · intro i r h q hq
    rcases snoc_lookup rows nr i r h with ⟨_, h⟩ | ⟨hi, rfl⟩
    · exact g.ancLt i r h q hq
    · rw [hi]; exact hAncLt q hq
  · intro i r h h1
    rcases snoc_lookup rows nr i r h with ⟨hi, h⟩ | ⟨_, rfl⟩
    · obtain ⟨q, hq, rq, e1, e2⟩ := g.one i r h h1
      have := g.ancLt i r h q hq
      exact ⟨q, hq, rq, by rw [hold q (by omega)]; exact e1, e2⟩
    · obtain ⟨q, hq, rq, e1, e2⟩ := hOne h1
      exact ⟨q, hq, rq, by rw [hold q (hAncLt q hq)]; exact e1, e2⟩
  · intro i r h h2
    rcases snoc_lookup rows nr i r h with ⟨hi, h⟩ | ⟨_, rfl⟩
    · obtain ⟨q1, hq1, q2, hq2, r1, r2, e1, e2, e3, e4, e5⟩ := g.two i r h h2
      have := g.ancLt i r h q1 hq1
      have := g.ancLt i r h q2 hq2
      exact ⟨q1, hq1, q2, hq2, r1, r2, by rw [hold q1 (by omega)]; exact e1,
        by rw [hold q2 (by omega)]; exact e2, e3, e4, e5⟩
    · obtain ⟨q1, hq1, q2, hq2, r1, r2, e1, e2, e3, e4, e5⟩ := hTwo h2
      exact ⟨q1, hq1, q2, hq2, r1, r2, by rw [hold q1 (hAncLt q1 hq1)]; exact e1,
        by rw [hold q2 (hAncLt q2 hq2)]; exact e2, e3, e4, e5⟩

theorem gen_run (k0 : String) (rest : List String) :
    ∀ (h : List Task), (∀ t ∈ h, StablePub2 k0 rest t.pub) → Gen k0 rest (runRows h) := by
  intro h
  induction h using snoc_induction with
  | hnil => intro _; exact gen_nil k0 rest
  | hsnoc l a ih =>
    intro hs
    rw [runRows_snoc]
    exact gen_step k0 rest _ a (ih (fun t ht => hs t (by simp [ht]))) (hs a (by simp))

/-- `DropsLow` from the DAG alone: no task that republishes the variable WITHOUT the leaf has, among its
    causal ancestors, two publishers of the leaf one of which follows the other (it has seen at most one
    generation of the leaf). -/
def DropsAfterOneGeneration (k0 : String) (rest : List String) (h : List Task) : Prop :=
  ∀ (i : Nat) (t : Task), h[i]? = some t → Drops k0 rest t →
    ¬ ∃ q1 q2 t1 t2, Anc h q1 i ∧ Anc h q2 i ∧ h[q1]? = some t1 ∧ h[q2]? = some t2 ∧
      PublishesLeaf k0 rest t1 ∧ PublishesLeaf k0 rest t2 ∧ Anc h q1 q2

theorem dropsLow_of_one_generation (k0 : String) (rest : List String) (h : List Task)
    (hs : ∀ t ∈ h, StablePub2 k0 rest t.pub) (hd : DropsAfterOneGeneration k0 rest h) : DropsLow k0 rest h := by
  intro r hr hdr
  obtain ⟨i, hi⟩ := List.mem_iff_getElem?.mp hr
  have g := gen_run k0 rest h hs
  have tie := tied_run h
  apply Decidable.byContradiction
  intro hn
  have h2 : 2 ≤ ver r.inb.vers (keyOf (esc k0) rest) := by omega
  obtain ⟨q1, hq1, q2, hq2, r1, r2, e1, e2, e3, e4, e5⟩ := g.two i r hi h2
  exact hd i r.task (tie.task i r hi) hdr
    ⟨q1, q2, r1.task, r2.task, (tie.anc i r hi q1).mp hq1, (tie.anc i r hi q2).mp hq2,
      tie.task q1 r1 e1, tie.task q2 r2 e2, e3, e4, (tie.anc q2 r2 e2 q1).mp e5⟩

end Mistral.Hist
